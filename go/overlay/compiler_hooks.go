//go:build verif

package compiler

// VerifToken is the observable part of a lexer token.
type VerifToken struct {
	Typ  string
	Lit  string
	Line int
	Col  int
}

// VerifLex pulls tokens the way the parser does, until EOF or Error (or max tokens).
func VerifLex(input []byte, max int) []VerifToken {
	l := newLexer(input)
	var out []VerifToken
	for i := 0; i < max; i++ {
		t := l.nextToken()
		out = append(out, VerifToken{t.typ.String(), t.lit, t.line, t.col})
		if t.typ == tEOF || t.typ == tError {
			break
		}
	}
	return out
}

// VerifLexTrace drives the state machine the way nextToken does, reporting the name of every
// state function before it runs (used only to label a hang or panic with the state it occurred in).
func VerifLexTrace(input []byte, max int, onState func(name string)) {
	l := newLexer(input)
	for i := 0; i < max; i++ {
		select {
		case t := <-l.tokens:
			if t.typ == tEOF || t.typ == tError {
				return
			}
		default:
			if l.lex == nil {
				return
			}
			onState(verifFuncName(l.lex))
			l.lex = l.lex(l)
		}
	}
}
