//go:build verif

package compiler

import (
	"reflect"
	"runtime"
	"strings"
)

func verifFuncName(f lexFn) string {
	n := runtime.FuncForPC(reflect.ValueOf(f).Pointer()).Name()
	if i := strings.LastIndex(n, "/compiler."); i >= 0 {
		n = n[i+len("/compiler."):]
	}
	return n
}

// VerifGoLiteral exposes goLiteral, the function every static splice site goes through.
func VerifGoLiteral(s string) string { return goLiteral(s) }
