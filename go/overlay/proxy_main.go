//go:build verif

// verifproxy: drives the real proxy.Server / proxy.Client with a scripted downstream language
// server and a recording editor client. Injected into /repo/internal/verifproxy by `go build -overlay`
// (it must live inside the module to import internal/proxy). One script (JSON) on stdin, one
// canonical log line per observable event on stdout.
package main

import (
	"bufio"
	"context"
	"encoding/hex"
	"encoding/json"
	"fmt"
	"os"
	"strings"
	"sync"

	"github.com/rs/zerolog"

	"github.com/stackus/goht/internal/protocol"
	"github.com/stackus/goht/internal/proxy"
)

type Rng struct{ SL, SC, EL, EC uint32 }
type Loc struct {
	URI string
	R   Rng
}
type DiagIn struct {
	R   Rng
	Msg string
}
type Op struct {
	Op      string // open change close save req pubdiag showmsg
	URI     string
	Text    string
	Version int32
	Method  string
	Line    uint32
	Char    uint32
	Answer  []Loc // scripted downstream answer (locations / ranges)
	Detail  string
	Nil     bool // downstream answers nil
	Diags   []DiagIn
	Message string
	// concurrent: this op and the next N-1 ops run from separate goroutines
	Par int
	// Inside (on open / change): the downstream server publishes Diags for the generated file it was just given
	// from another goroutine BEFORE its didOpen / didChange handler returns (gopls may answer that fast); the
	// events of that publication are logged as an op of their own after the reply of the open / change
	Inside bool
}

var (
	mu   sync.Mutex
	out  = bufio.NewWriter(os.Stdout)
	side *[]string // while set, events are collected here instead of being written
)

func emit(format string, a ...any) {
	mu.Lock()
	if side != nil {
		*side = append(*side, fmt.Sprintf(format, a...))
	} else {
		fmt.Fprintf(out, format+"\n", a...)
	}
	mu.Unlock()
}

func hx(s string) string { return hex.EncodeToString([]byte(s)) }

func pr(r protocol.Range) string {
	return fmt.Sprintf("%d:%d-%d:%d", r.Start.Line, r.Start.Character, r.End.Line, r.End.Character)
}
func toRange(r Rng) protocol.Range {
	return protocol.Range{Start: protocol.Position{Line: r.SL, Character: r.SC}, End: protocol.Position{Line: r.EL, Character: r.EC}}
}

// ---- scripted downstream server -------------------------------------------------------------

type down struct {
	protocol.Server // nil: any method not overridden panics (recovered by the driver)
	cur             *Op
	cli             *proxy.Client
	inside          *Op      // the open / change op whose handler publishes before it returns
	insideLog       []string // events of that publication
}

// publishInside: the publication a fast language server makes for the text it was just given, delivered on the
// downstream connection (another goroutine) while the proxy is still inside its own didOpen / didChange.
func (d *down) publishInside(uri protocol.DocumentURI) {
	op := d.inside
	if op == nil {
		return
	}
	d.inside = nil
	mu.Lock()
	side = &d.insideLog
	mu.Unlock()
	done := make(chan struct{})
	go func() {
		defer close(done)
		defer func() {
			if r := recover(); r != nil {
				emit("R panic %v", r)
			}
		}()
		var ds []protocol.Diagnostic
		for _, x := range op.Diags {
			ds = append(ds, protocol.Diagnostic{Range: toRange(x.R), Message: x.Msg, Source: "compiler"})
		}
		err := d.cli.PublishDiagnostics(context.Background(), &protocol.PublishDiagnosticsParams{URI: uri, Diagnostics: ds})
		emit("R pubdiag err=%v", err != nil)
	}()
	<-done
	mu.Lock()
	side = nil
	mu.Unlock()
}

func (d *down) DidOpen(_ context.Context, p *protocol.DidOpenTextDocumentParams) error {
	emit("D didOpen %s v=%d lang=%s text=%s", p.TextDocument.URI, p.TextDocument.Version, p.TextDocument.LanguageID, hx(p.TextDocument.Text))
	d.publishInside(p.TextDocument.URI)
	return nil
}
func (d *down) DidChange(_ context.Context, p *protocol.DidChangeTextDocumentParams) error {
	var ts []string
	for _, c := range p.ContentChanges {
		r := "full"
		if c.Range != nil {
			r = pr(*c.Range)
		}
		ts = append(ts, r+"="+hx(c.Text))
	}
	emit("D didChange %s v=%d id=%s changes=%s", p.TextDocument.URI, p.TextDocument.Version, p.TextDocument.TextDocumentIdentifier.URI, strings.Join(ts, ","))
	d.publishInside(p.TextDocument.URI)
	return nil
}
func (d *down) DidClose(_ context.Context, p *protocol.DidCloseTextDocumentParams) error {
	emit("D didClose %s", p.TextDocument.URI)
	return nil
}
func (d *down) DidSave(_ context.Context, p *protocol.DidSaveTextDocumentParams) error {
	t := "-"
	if p.Text != nil {
		t = hx(*p.Text)
	}
	emit("D didSave %s text=%s", p.TextDocument.URI, t)
	return nil
}
func (d *down) locs() []protocol.Location {
	if d.cur.Nil {
		return nil
	}
	out := []protocol.Location{}
	for _, l := range d.cur.Answer {
		out = append(out, protocol.Location{URI: protocol.DocumentURI(l.URI), Range: toRange(l.R)})
	}
	return out
}
func (d *down) firstRange() protocol.Range {
	if len(d.cur.Answer) > 0 {
		return toRange(d.cur.Answer[0].R)
	}
	return protocol.Range{}
}
func req(method string, uri protocol.DocumentURI, pos protocol.Position) {
	emit("D %s %s pos=%d:%d", method, uri, pos.Line, pos.Character)
}
func (d *down) Definition(_ context.Context, p *protocol.DefinitionParams) ([]protocol.Location, error) {
	req("Definition", p.TextDocument.URI, p.Position)
	return d.locs(), nil
}
func (d *down) TypeDefinition(_ context.Context, p *protocol.TypeDefinitionParams) ([]protocol.Location, error) {
	req("TypeDefinition", p.TextDocument.URI, p.Position)
	return d.locs(), nil
}
func (d *down) Implementation(_ context.Context, p *protocol.ImplementationParams) ([]protocol.Location, error) {
	req("Implementation", p.TextDocument.URI, p.Position)
	return d.locs(), nil
}
func (d *down) References(_ context.Context, p *protocol.ReferenceParams) ([]protocol.Location, error) {
	req("References", p.TextDocument.URI, p.Position)
	return d.locs(), nil
}
func (d *down) Declaration(_ context.Context, p *protocol.DeclarationParams) (*protocol.Or_textDocument_declaration, error) {
	req("Declaration", p.TextDocument.URI, p.Position)
	links := []protocol.DeclarationLink{}
	for _, l := range d.cur.Answer {
		links = append(links, protocol.DeclarationLink{TargetURI: protocol.DocumentURI(l.URI), TargetRange: toRange(l.R), TargetSelectionRange: toRange(l.R)})
	}
	return &protocol.Or_textDocument_declaration{Value: links}, nil
}
func (d *down) Hover(_ context.Context, p *protocol.HoverParams) (*protocol.Hover, error) {
	req("Hover", p.TextDocument.URI, p.Position)
	if d.cur.Nil {
		return nil, nil
	}
	return &protocol.Hover{Range: d.firstRange()}, nil
}
func (d *down) PrepareRename(_ context.Context, p *protocol.PrepareRenameParams) (*protocol.PrepareRenameResult, error) {
	req("PrepareRename", p.TextDocument.URI, p.Position)
	if d.cur.Nil {
		return nil, nil
	}
	return &protocol.PrepareRenameResult{Range: d.firstRange(), Placeholder: "x"}, nil
}
func (d *down) OnTypeFormatting(_ context.Context, p *protocol.DocumentOnTypeFormattingParams) ([]protocol.TextEdit, error) {
	req("OnTypeFormatting", p.TextDocument.URI, p.Position)
	if d.cur.Nil {
		return nil, nil
	}
	var es []protocol.TextEdit
	for _, l := range d.cur.Answer {
		es = append(es, protocol.TextEdit{Range: toRange(l.R), NewText: "e"})
	}
	return es, nil
}
func (d *down) SignatureHelp(_ context.Context, p *protocol.SignatureHelpParams) (*protocol.SignatureHelp, error) {
	req("SignatureHelp", p.TextDocument.URI, p.Position)
	if d.cur.Nil {
		return nil, nil
	}
	return &protocol.SignatureHelp{}, nil
}
func (d *down) Moniker(_ context.Context, p *protocol.MonikerParams) ([]protocol.Moniker, error) {
	req("Moniker", p.TextDocument.URI, p.Position)
	return []protocol.Moniker{{Scheme: "s", Identifier: "i"}}, nil
}
func (d *down) Completion(_ context.Context, p *protocol.CompletionParams) (*protocol.CompletionList, error) {
	req("Completion", p.TextDocument.URI, p.Position)
	if d.cur.Nil {
		return nil, nil
	}
	// one item per detail (details separated by 0x1F)
	var items []protocol.CompletionItem
	for k, detail := range strings.Split(d.cur.Detail, "\x1f") {
		it := protocol.CompletionItem{Label: "Item", Detail: detail}
		if len(d.cur.Answer) > 0 {
			// item k replaces the k-th scripted range (the first one when there are fewer ranges than items)
			a := d.cur.Answer[0]
			if k < len(d.cur.Answer) {
				a = d.cur.Answer[k]
			}
			it.TextEdit = &protocol.TextEdit{Range: toRange(a.R), NewText: "Item"}
		}
		if detail != "" {
			// gopls attaches the import as an additional edit to the generated file
			it.AdditionalTextEdits = []protocol.TextEdit{{Range: protocol.Range{Start: protocol.Position{Line: 4}, End: protocol.Position{Line: 4}}, NewText: "import X\n"}}
		}
		items = append(items, it)
	}
	return &protocol.CompletionList{Items: items}, nil
}
func (d *down) CodeLens(_ context.Context, p *protocol.CodeLensParams) ([]protocol.CodeLens, error) {
	emit("D CodeLens %s", p.TextDocument.URI)
	if d.cur.Nil {
		return nil, nil
	}
	var cs []protocol.CodeLens
	for _, l := range d.cur.Answer {
		cs = append(cs, protocol.CodeLens{Range: toRange(l.R)})
	}
	return cs, nil
}
func (d *down) CodeAction(_ context.Context, p *protocol.CodeActionParams) ([]protocol.CodeAction, error) {
	emit("D CodeAction %s range=%s", p.TextDocument.URI, pr(p.Range))
	var as []protocol.CodeAction
	// per scripted range two quick fixes: one that carries only diagnostics (a command-only or lazily resolved fix),
	// one that also carries a workspace edit of the same range in the generated file
	for _, l := range d.cur.Answer {
		as = append(as, protocol.CodeAction{Title: "a", Diagnostics: []protocol.Diagnostic{{Range: toRange(l.R), Message: "m"}}})
		as = append(as, protocol.CodeAction{Title: "b", Diagnostics: []protocol.Diagnostic{{Range: toRange(l.R), Message: "m"}},
			Edit: &protocol.WorkspaceEdit{DocumentChanges: []protocol.DocumentChanges{{TextDocumentEdit: &protocol.TextDocumentEdit{
				TextDocument: protocol.OptionalVersionedTextDocumentIdentifier{TextDocumentIdentifier: protocol.TextDocumentIdentifier{URI: p.TextDocument.URI}},
				Edits:        []protocol.Or_TextDocumentEdit_edits_Elem{{Value: protocol.TextEdit{Range: toRange(l.R), NewText: "x"}}},
			}}}}})
	}
	return as, nil
}

// ---- recording editor client ----------------------------------------------------------------

type editor struct{ protocol.Client }

func (e *editor) PublishDiagnostics(_ context.Context, p *protocol.PublishDiagnosticsParams) error {
	var ds []string
	for _, d := range p.Diagnostics {
		ds = append(ds, pr(d.Range)+"="+d.Source+"="+hx(d.Message))
	}
	emit("E diag %s [%s]", p.URI, strings.Join(ds, ","))
	return nil
}
func (e *editor) ShowMessage(_ context.Context, p *protocol.ShowMessageParams) error {
	emit("E msg %s", hx(p.Message))
	return nil
}

// ---- driver ---------------------------------------------------------------------------------

func showLocs(ls []protocol.Location, err error) string {
	if err != nil {
		return "error"
	}
	if ls == nil {
		return "nil"
	}
	var ps []string
	for _, l := range ls {
		ps = append(ps, string(l.URI)+"@"+pr(l.Range))
	}
	return "[" + strings.Join(ps, ",") + "]"
}

func run(srv *proxy.Server, cli *proxy.Client, d *down, op *Op) {
	defer func() {
		if r := recover(); r != nil {
			emit("R panic %v", r)
		}
	}()
	ctx := context.Background()
	uri := protocol.DocumentURI(op.URI)
	tdp := protocol.TextDocumentPositionParams{TextDocument: protocol.TextDocumentIdentifier{URI: uri}, Position: protocol.Position{Line: op.Line, Character: op.Char}}
	if op.Inside && (op.Op == "open" || op.Op == "change") {
		d.inside, d.insideLog = op, nil
		defer func() {
			d.inside = nil
			emit("# op inside")
			for _, l := range d.insideLog {
				emit("%s", l)
			}
		}()
	}
	switch op.Op {
	case "open":
		err := srv.DidOpen(ctx, &protocol.DidOpenTextDocumentParams{TextDocument: protocol.TextDocumentItem{URI: uri, LanguageID: "goht", Version: op.Version, Text: op.Text}})
		emit("R open err=%v", err != nil)
	case "change":
		err := srv.DidChange(ctx, &protocol.DidChangeTextDocumentParams{
			TextDocument:   protocol.VersionedTextDocumentIdentifier{Version: op.Version, TextDocumentIdentifier: protocol.TextDocumentIdentifier{URI: uri}},
			ContentChanges: contentChanges(op.Text)})
		emit("R change err=%v", err != nil)
	case "close":
		err := srv.DidClose(ctx, &protocol.DidCloseTextDocumentParams{TextDocument: protocol.TextDocumentIdentifier{URI: uri}})
		emit("R close err=%v", err != nil)
	case "save":
		t := op.Text
		tp := &t
		if op.Nil {
			tp = nil // a save notification without the text (the client did not honour includeText)
		}
		err := srv.DidSave(ctx, &protocol.DidSaveTextDocumentParams{TextDocument: protocol.TextDocumentIdentifier{URI: uri}, Text: tp})
		emit("R save err=%v", err != nil)
	case "pubdiag":
		var ds []protocol.Diagnostic
		for _, x := range op.Diags {
			ds = append(ds, protocol.Diagnostic{Range: toRange(x.R), Message: x.Msg, Source: "compiler"})
		}
		err := cli.PublishDiagnostics(ctx, &protocol.PublishDiagnosticsParams{URI: uri, Diagnostics: ds})
		emit("R pubdiag err=%v", err != nil)
	case "showmsg":
		err := cli.ShowMessage(ctx, &protocol.ShowMessageParams{Message: op.Message})
		emit("R showmsg err=%v", err != nil)
	case "req":
		d.cur = op
		switch op.Method {
		case "Definition":
			r, err := srv.Definition(ctx, &protocol.DefinitionParams{TextDocumentPositionParams: tdp})
			emit("R Definition %s", showLocs(r, err))
		case "TypeDefinition":
			r, err := srv.TypeDefinition(ctx, &protocol.TypeDefinitionParams{TextDocumentPositionParams: tdp})
			emit("R TypeDefinition %s", showLocs(r, err))
		case "Implementation":
			r, err := srv.Implementation(ctx, &protocol.ImplementationParams{TextDocumentPositionParams: tdp})
			emit("R Implementation %s", showLocs(r, err))
		case "References":
			r, err := srv.References(ctx, &protocol.ReferenceParams{TextDocumentPositionParams: tdp})
			emit("R References %s", showLocs(r, err))
		case "Declaration":
			r, err := srv.Declaration(ctx, &protocol.DeclarationParams{TextDocumentPositionParams: tdp})
			s := "nil"
			if err != nil {
				s = "error"
			} else if r != nil {
				if links, ok := r.Value.([]protocol.DeclarationLink); ok {
					var ps []string
					for _, l := range links {
						ps = append(ps, string(l.TargetURI)+"@"+pr(l.TargetRange)+"@"+pr(l.TargetSelectionRange))
					}
					s = "[" + strings.Join(ps, ",") + "]"
				}
			}
			emit("R Declaration %s", s)
		case "Hover":
			r, err := srv.Hover(ctx, &protocol.HoverParams{TextDocumentPositionParams: tdp})
			s := "nil"
			if err != nil {
				s = "error"
			} else if r != nil {
				s = pr(r.Range)
			}
			emit("R Hover %s", s)
		case "PrepareRename":
			r, err := srv.PrepareRename(ctx, &protocol.PrepareRenameParams{TextDocumentPositionParams: tdp})
			s := "nil"
			if err != nil {
				s = "error"
			} else if r != nil {
				s = pr(r.Range)
			}
			emit("R PrepareRename %s", s)
		case "OnTypeFormatting":
			r, err := srv.OnTypeFormatting(ctx, &protocol.DocumentOnTypeFormattingParams{TextDocument: tdp.TextDocument, Position: tdp.Position, Ch: ";"})
			s := "nil"
			if err != nil {
				s = "error"
			} else if r != nil {
				var ps []string
				for _, e := range r {
					ps = append(ps, pr(e.Range))
				}
				s = "[" + strings.Join(ps, ",") + "]"
			}
			emit("R OnTypeFormatting %s", s)
		case "SignatureHelp":
			r, err := srv.SignatureHelp(ctx, &protocol.SignatureHelpParams{TextDocumentPositionParams: tdp})
			emit("R SignatureHelp nil=%v err=%v", r == nil, err != nil)
		case "Moniker":
			r, err := srv.Moniker(ctx, &protocol.MonikerParams{TextDocumentPositionParams: tdp})
			emit("R Moniker n=%d err=%v", len(r), err != nil)
		case "Completion":
			r, err := srv.Completion(ctx, &protocol.CompletionParams{TextDocumentPositionParams: tdp})
			s := "nil"
			if err != nil {
				s = "error"
			} else if r != nil {
				var ps []string
				for _, it := range r.Items {
					x := "-"
					if it.TextEdit != nil {
						x = pr(it.TextEdit.Range)
					}
					var adds []string
					for _, a := range it.AdditionalTextEdits {
						adds = append(adds, pr(a.Range)+"="+hx(a.NewText))
					}
					ps = append(ps, x+"+"+strings.Join(adds, ";"))
				}
				s = "[" + strings.Join(ps, ",") + "]"
			}
			emit("R Completion %s", s)
		case "CodeLens":
			r, err := srv.CodeLens(ctx, &protocol.CodeLensParams{TextDocument: tdp.TextDocument})
			s := "nil"
			if err != nil {
				s = "error"
			} else if r != nil {
				var ps []string
				for _, e := range r {
					ps = append(ps, pr(e.Range))
				}
				s = "[" + strings.Join(ps, ",") + "]"
			}
			emit("R CodeLens %s", s)
		case "CodeAction":
			r, err := srv.CodeAction(ctx, &protocol.CodeActionParams{TextDocument: tdp.TextDocument})
			s := "nil"
			if err != nil {
				s = "error"
			} else if r != nil {
				// the two quick fixes of one scripted range carry the same range three times (two diagnostics, one
				// edit): printed once when they agree and the edit names the requested document, in full otherwise
				var ps []string
				for i := 0; i < len(r); i += 2 {
					var all []string
					for _, a := range r[i:min(i+2, len(r))] {
						for _, dg := range a.Diagnostics {
							all = append(all, pr(dg.Range))
						}
						if a.Edit != nil {
							for _, dc := range a.Edit.DocumentChanges {
								if dc.TextDocumentEdit == nil {
									continue
								}
								for _, e := range dc.TextDocumentEdit.Edits {
									if te, ok := e.Value.(protocol.TextEdit); ok {
										if dc.TextDocumentEdit.TextDocument.URI == tdp.TextDocument.URI {
											all = append(all, pr(te.Range))
										} else {
											all = append(all, pr(te.Range)+"@"+string(dc.TextDocumentEdit.TextDocument.URI))
										}
									}
								}
							}
						}
					}
					same := len(all) == 3
					for _, x := range all {
						same = same && x == all[0]
					}
					if same {
						ps = append(ps, all[0])
					} else {
						ps = append(ps, "{"+strings.Join(all, "|")+"}")
					}
				}
				s = "[" + strings.Join(ps, ",") + "]"
			}
			emit("R CodeAction %s", s)
		default:
			emit("R unknown-method")
		}
	}
}

func main() {
	var ops []Op
	if err := json.NewDecoder(bufio.NewReaderSize(os.Stdin, 1<<20)).Decode(&ops); err != nil {
		fmt.Println("BAD", err)
		os.Exit(2)
	}
	smc := proxy.NewSourceMapCache()
	dc := proxy.NewDiagnosticsCache()
	srcs := proxy.NewDocumentContents()
	lg := zerolog.Nop()
	d := &down{}
	ed := &editor{}
	srv := proxy.NewServer(d, ed, smc, dc, srcs, lg)
	cli := proxy.NewClient(ed, smc, dc, lg)
	d.cli = cli
	for i := 0; i < len(ops); i++ {
		op := &ops[i]
		if op.Par > 1 && i+op.Par <= len(ops) {
			emit("# par %d", op.Par)
			var wg sync.WaitGroup
			for k := 0; k < op.Par; k++ {
				wg.Add(1)
				go func(o *Op) { defer wg.Done(); run(srv, cli, d, o) }(&ops[i+k])
			}
			wg.Wait()
			emit("# endpar")
			i += op.Par - 1
			continue
		}
		emit("# op %d %s", i, op.Op)
		run(srv, cli, d, op)
	}
	out.Flush()
}

// contentChanges: one full-text content change per segment of the text (segments are separated by 0x1E);
// the editor protocol applies them in order, so the last one is the buffer
func contentChanges(text string) []protocol.TextDocumentContentChangeEvent {
	var out []protocol.TextDocumentContentChangeEvent
	for _, t := range strings.Split(text, "\x1e") {
		out = append(out, protocol.TextDocumentContentChangeEvent{Text: t})
	}
	return out
}
