module verifharness

go 1.21.4

require github.com/stackus/goht v0.0.0

replace github.com/stackus/goht => /repo
