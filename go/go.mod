module verifharness

go 1.21.4

require github.com/stackus/goht v0.0.0

require golang.org/x/net v0.34.0

replace github.com/stackus/goht => /repo
