package gen

import "strings"

// Fault is one fault-injection operator of C10: a construct the documentation forbids.
type Fault struct {
	Name  string
	Cut   bool // the construct is unterminated: the file ends after the offending line
	Lines func(tabs string) string // the offending lines at the indentation of the injection point
	Abs   bool
}

func rel(lines ...string) func(string) string {
	return func(string) string { return strings.Join(lines, "\n") }
}

// spaceAt replaces the k-th character of an indentation by a space
func spaceAt(ind string, k int) string { return ind[:k] + " " + ind[k+1:] }

// Faults: one operator per rule of property C10.
func Faults() []Fault {
	return []Fault{
		{Name: "indent-spaces", Abs: true, Lines: func(t string) string { return t + "%p\n" + strings.Repeat(" ", len(t)+1) + "%b deeper with spaces" }},
		{Name: "indent-space-first-deeper", Abs: true, Lines: func(t string) string { return t + "%p\n" + spaceAt(t+"\t", 0) + "%b deeper, first tab is a space" }},
		{Name: "indent-space-middle-deeper", Abs: true, Lines: func(t string) string { return t + "%p\n" + spaceAt(t+"\t", len(t)/2) + "%b deeper, a middle tab is a space" }},
		{Name: "indent-space-last-deeper", Abs: true, Lines: func(t string) string { return t + "%p\n" + spaceAt(t+"\t", len(t)) + "%b deeper, last tab is a space" }},
		{Name: "indent-two-levels-after-unindented", Abs: true, Lines: func(t string) string {
			return "plain text at column 0\n\t\t%b two levels deeper than the unindented line"
		}},
		{Name: "indent-deeper-after-unindented", Abs: true, Lines: func(t string) string {
			return "plain text at column 0\n" + t + "\t%b as deep as the block before the unindented line, plus one"
		}},
		// the same rule at the positions below a `-#` comment (its nested lines are skipped, but still lines of the template)
		{Name: "indent-spaces-below-ruby-comment", Abs: true, Lines: func(t string) string { return t + "-# note\n" + t + "  %b deeper with spaces" }},
		{Name: "indent-spaces-only-below-ruby-comment", Abs: true, Lines: func(t string) string { return t + "-# note\n" + strings.Repeat(" ", len(t)+2) + "%b deeper with spaces" }},
		{Name: "indent-spaces-second-line-below-ruby-comment", Abs: true, Lines: func(t string) string {
			return t + "-# note\n" + t + "\tfirst nested line\n" + t + " \t%b deeper, a blank before the last tab"
		}},
		{Name: "indent-two-levels", Lines: rel("%p", "\t\t%b two levels deeper")},
		{Name: "inline-and-nested", Lines: rel("%p inline", "\t%b nested too")},
		{Name: "inline-script-and-nested", Lines: rel("%p= s0", "\t%b nested too")},
		{Name: "inline-children-and-nested", Lines: rel("%p= @children", "\t%b nested too")},
		{Name: "inline-render-and-nested", Lines: rel("%p= @render L0"+Args, "\t%b nested too")},
		{Name: "under-void-tag", Lines: rel("%br", "\t%b under void")},
		{Name: "under-self-closed", Lines: rel("%foo/", "\t%b under self closed")},
		{Name: "under-one-line-comment", Lines: rel("/ a comment", "\t%b under comment")},
		{Name: "content-after-slash", Lines: rel("%foo/ content")},
		// … with a white-space marker, attributes or an object reference in front of the slash
		{Name: "content-after-marker-and-slash", Lines: rel("%img>/ stray")},
		{Name: "content-after-both-markers-and-slash", Lines: rel("%div<>/ stray")},
		{Name: "content-after-attributes-marker-and-slash", Lines: rel("%img{src: \"a.png\"}</ stray")},
		{Name: "content-after-attributes-and-slash", Lines: rel("%foo{a: \"b\"}/ stray")},
		{Name: "unknown-filter", Lines: rel(":nosuchfilter", "\tbody")},
		{Name: "unknown-attribute-command", Lines: rel("%p{@nosuch: #{m0}} x")},
		{Name: "unknown-at-command", Lines: rel("= @nosuch thing")},
		{Name: "unknown-at-command-bare", Lines: rel("= @nosuch")},
		// names that merely begin with, or differ in case from, a command that exists
		{Name: "unknown-at-command-known-prefix-upper", Lines: rel("= @renderPartial")},
		{Name: "unknown-at-command-known-prefix-underscore", Lines: rel("= @render_all()")},
		{Name: "unknown-at-command-known-prefix-digit", Lines: rel("= @render2 L0" + Args)},
		{Name: "unknown-at-command-known-prefix-inline", Lines: rel("%p= @renderOther()")},
		{Name: "unknown-at-command-children-suffix", Lines: rel("= @childrenAll")},
		{Name: "unknown-at-command-children-hyphen", Lines: rel("= @children-now")},
		{Name: "unknown-at-command-capitalised", Lines: rel("= @Render L0" + Args)},
		{Name: "children-with-arguments", Lines: rel("= @children s0")},
		{Name: "render-without-argument", Lines: rel("= @render")},
		{Name: "cond-attr-static-value", Lines: rel("%p{a ? \"x\"} t")},
		{Name: "cond-attr-no-value", Lines: rel("%p{a ?} t")},
		// the malformed item is followed by well-formed ones (another name; the same name again, with a value and bare)
		{Name: "cond-attr-static-value-then-other", Lines: rel("%p{a ? \"x\", b: \"y\"} t")},
		{Name: "cond-attr-static-value-then-same-name", Lines: rel("%p{a ? \"x\", a: \"y\"} t")},
		{Name: "cond-attr-static-value-then-same-name-dynamic", Lines: rel("%p{a ? `x`, a: #{s0}} t")},
		{Name: "cond-attr-static-value-then-same-name-bare", Lines: rel("%p{a ? \"x\", a} t")},
		{Name: "cond-attr-static-value-same-name-next-line", Lines: rel("%p{a ? \"x\",", "\t\ta: \"y\"} t")},
		{Name: "unterminated-attribute-list", Cut: true, Lines: rel("%p{a: \"b\" t")},
		{Name: "unterminated-interpolation", Cut: true, Lines: rel("%p t #{s0 t")},
		{Name: "unterminated-attr-interpolation", Cut: true, Lines: rel("%p{a: #{s0 } t")},
		{Name: "unterminated-object-reference", Cut: true, Lines: rel("%p[o0 t")},
	}
}

// VoidTags: the elements the documentation lists as self-closing (nothing may be nested under them)
var VoidTags = []string{"area", "base", "basefont", "br", "col", "embed", "frame", "hr", "img", "input", "isindex", "keygen", "link", "menuitem", "meta", "param", "source", "track", "wbr"}

// VoidTagFaults: one operator per void tag
func VoidTagFaults() []Fault {
	var out []Fault
	for _, t := range VoidTags {
		out = append(out, Fault{Name: "under-void-tag-" + t, Lines: rel("%"+t, "\t%b under void")})
	}
	return out
}

type Injected struct {
	Fault string
	Src   string
	Where string // description of the injection point
	Line  int    // 0-based line of the first injected line
}

// blocks enumerates every sibling list of a template body (pointer to the slice + depth).
type blockRef struct {
	get   func() []*Node
	set   func([]*Node)
	depth int
	where string
}

func collectBlocks(t *Template) []blockRef {
	var out []blockRef
	var walk func(get func() []*Node, set func([]*Node), depth int, where string)
	walk = func(get func() []*Node, set func([]*Node), depth int, where string) {
		out = append(out, blockRef{get, set, depth, where})
		for _, n := range get() {
			n := n
			switch n.Kind {
			case KElem:
				if len(n.Kids) > 0 {
					walk(func() []*Node { return n.Kids }, func(k []*Node) { n.Kids = k }, depth+1, "element block")
				}
			case KComment:
				if len(n.Kids) > 0 {
					walk(func() []*Node { return n.Kids }, func(k []*Node) { n.Kids = k }, depth+1, "comment block")
				}
			case KRender:
				if len(n.Kids) > 0 {
					walk(func() []*Node { return n.Kids }, func(k []*Node) { n.Kids = k }, depth+1, "children block of @render")
				}
			case KIf, KFor:
				for i := range n.Chain {
					i := i
					walk(func() []*Node { return n.Chain[i].Kids }, func(k []*Node) { n.Chain[i].Kids = k }, depth+1, "control-flow block")
				}
			}
		}
	}
	walk(func() []*Node { return t.Body }, func(k []*Node) { t.Body = k }, 1, "template body")
	return out
}

// InjectAll applies every operator at every position of every block of every template.
// maxPerFault bounds the positions per operator (0 = all).
func InjectAll(f *File, maxPerFault int) []Injected {
	var out []Injected
	for _, flt := range append(Faults(), VoidTagFaults()...) {
		count := 0
		for _, t := range f.Templates {
			for _, b := range collectBlocks(t) {
				orig := b.get()
				for idx := 0; idx <= len(orig); idx++ {
					// do not separate a control block from its else-branch or the `- }` that closes it
					if idx > 0 && orig[idx-1].Kind == KStmt {
						continue
					}
					if maxPerFault > 0 && count >= maxPerFault {
						break
					}
					tabs := strings.Repeat("\t", b.depth)
					n := &Node{Kind: KRaw, Code: flt.Lines(tabs), RawAbs: flt.Abs}
					mod := append(append(append([]*Node{}, orig[:idx]...), n), orig[idx:]...)
					b.set(mod)
					p, src := f.Print()
					_ = p
					line := -1
					first := strings.Split(flt.Lines(tabs), "\n")[0]
					for li, l := range strings.Split(src, "\n") {
						if strings.TrimLeft(l, "\t") == strings.TrimLeft(first, "\t") {
							line = li
							break
						}
					}
					if flt.Cut && line >= 0 {
						// really unterminated: nothing after the offending line can close it
						ls := strings.Split(src, "\n")
						src = strings.Join(ls[:line+1], "\n") + "\n"
					}
					out = append(out, Injected{flt.Name, src, b.where, line})
					b.set(orig)
					count++
				}
			}
		}
	}
	// string-level operators
	_, src := f.Print()
	lines := strings.Split(src, "\n")
	for i, l := range lines {
		if strings.HasPrefix(l, "@goht ") && i+1 < len(lines) && strings.HasPrefix(lines[i+1], "\t") {
			mod := append([]string{}, lines...)
			mod[i+1] = strings.TrimLeft(mod[i+1], "\t")
			if strings.HasPrefix(mod[i+1], "}") || mod[i+1] == "" {
				continue
			}
			out = append(out, Injected{"first-line-not-indented", strings.Join(mod, "\n"), "first line of a template", i + 1})
		}
	}
	// unterminated template body, at every line: the file ends after any line of a template body
	// (these are also the states a buffer passes through while the template is being typed)
	inBody := false
	for i, l := range lines {
		if strings.HasPrefix(l, "@goht ") {
			inBody = true
			continue
		}
		if l == "}" {
			inBody = false
			continue
		}
		if inBody {
			if maxPerFault > 0 && i%3 != 0 {
				continue
			}
			out = append(out, Injected{"unterminated-template-body", strings.Join(lines[:i+1], "\n") + "\n", "file ends inside a template body", i})
			out = append(out, Injected{"unterminated-template-body", strings.Join(lines[:i+1], "\n"), "file ends inside a template body, no final newline", i})
		}
	}
	// unterminated template body: drop the closing brace of the last template (and everything after it)
	last := -1
	for i, l := range lines {
		if l == "}" {
			last = i
		}
	}
	if last >= 0 {
		out = append(out, Injected{"unterminated-template-body", strings.Join(lines[:last], "\n") + "\n", "end of file", last})
		out = append(out, Injected{"unterminated-template-body", strings.TrimRight(strings.Join(lines[:last], "\n"), "\n"), "end of file without newline", last})
	}
	return out
}
