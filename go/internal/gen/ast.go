// Package gen: grammar-based generator of goht template files with the generator's own record of
// what it meant (structure, fragments and their positions), independent of goht and of the model.
package gen

import (
	"fmt"
	"math/rand"
	"strings"
	"unicode/utf8"
)

// Signature shared by all generated templates, so that one environment type parameterises
// the real program (Go values) and the model (table keyed by fragment text).
const Sig = "(s0 string, s1 string, b0 bool, b1 bool, n0 int, xs []string, m0 map[string]string, mb map[string]bool, o0 Obj)"
const Args = "(s0, s1, b0, b1, n0, xs, m0, mb, o0)"

// Chrome is the Go code every generated file carries (types used by the environment).
const Chrome = `type Obj struct{ ID, Class string }

func (o Obj) ObjectID() string    { return o.ID }
func (o Obj) ObjectClass() string { return o.Class }

var d, v = 7, "vv"
`

type Kind int

const (
	KElem Kind = iota
	KText
	KScript
	KIf
	KFor
	KSwitch
	KComment
	KFilter
	KRender
	KChildren
	KDoctype
	KStmt // `- x := expr` style statement without block
	KRubyComment
	KBlank // a line holding only the indentation of its block (what auto-indenting editors leave behind)
	KRaw // verbatim lines (fault injection): Lines of Code, each prefixed with the current indentation unless RawAbs
)

// Part of a text line.
type Part struct {
	Static string // literal text (when Expr == "" and !EscHash)
	Expr   string // #{Expr} (string typed, or any type with Verb)
	Verb   string // %d etc
	EscHash bool  // \#{Static} : rendered literally as #{Static}
	EscBackslash bool // a backslash in front of an interpolation, written `\\` in the template, rendered as one `\`
}

type AttrKind int

const (
	AStatic AttrKind = iota
	ADynamic
	ABool // name only
	ACond // name ? #{cond}
)

type Attr struct {
	Name     string
	QuoteCh  byte // 0, '"' or '`' for the name
	Kind     AttrKind
	Value    string // static value (decoded)
	ValQuote byte   // '"' or '`'
	Expr     string
	Verb     string
}

type Branch struct {
	Header string // "if b0", "else if b1", "else", "for _, x := range xs", "case ..."
	Braces bool   // written with trailing " {"
	Pad    string // white space after the header, before the line break
	Cond   string // bool fragment ("" for else)
	Kids   []*Node
	// KSwitch: Chain[0] is the `switch n0` line, the further branches are its clauses
	CaseVals []int // `case 1, 2:`
	Default  bool  // `default:`
}

type Node struct {
	Kind Kind
	// element
	Tag         string // "" = implicit div
	ID          string
	Classes     []string
	ClassAttr   string   // class:"..." static
	ClassExprs  []string // class:#{a, b}
	ObjRef      string   // [o0] or [o0, "pre"]
	Pad         string   // KStmt: white space after the statement, before the line break
	Lead        string   // KStmt: white space (also non-ASCII) between the dash and the statement
	Attrs       []Attr
	AttrsCmd    string // @attributes: #{m0, mb}
	AttrLayout  int    // 0 compact, 1 spaced, 2 multi-line, 3 multi-line trailing comma
	NukeOuter   bool
	NukeInner   bool
	MarkerOrder bool // when both: false "><", true "<>"
	Void        bool // trailing "/"
	Inline      *Node // KText or KScript on the same line
	Kids        []*Node
	// text
	Parts     []Part
	Unescaped bool // "! text" / "!= expr"
	SpaceIndent bool // the last tab of the indentation is written as a blank (only where the line is not deeper than the one before)
	LeadEsc   bool // line starts with backslash escape
	// script
	Expr string
	Verb string
	// control
	Chain []Branch
	// filter
	Filter string
	Lines  [][]Part
	// render
	Callee string
	// stmt
	Code string
	// raw
	RawAbs bool
}

type Frag struct {
	Kind  string // package, import, gocode, signature, script, silent, interp, attr, class, objref, render
	Text  string
	Line  int // 0-based
	Col16 int // UTF-16 code units from line start
	ColB  int // bytes from line start
}

type Template struct {
	Name  string
	Recv  string // "" or "(t T) "
	Sig   string
	Body  []*Node
	UsesChildren bool
	Trailer      string // Go code on the line of the closing brace
}

type File struct {
	CRLF      bool // the text is written with CRLF line ends (the caller converts the printed text)
	Package  string // "" = omitted
	Imports  []string // import lines as written (e.g. `import "fmt"`), or group
	ImportGroup bool
	ImportTrail string // written after every second import spec, before its line break (blanks, a comment)
	Chrome   []string // Go code blocks between templates (index i placed before template i; last after)
	Templates []*Template
	VerbStyle int // 0: `%d x`; 1: `%d  x`; 2: `#{%d x }`; 3: both
}

// Printer writes the file and records fragments with the generator's own positions.
type Printer struct {
	sb    strings.Builder
	line  int
	col16 int
	colB  int
	Frags []Frag
	Feat  map[string]int
	VerbStyle int
}

func NewPrinter() *Printer { return &Printer{Feat: map[string]int{}} }

func (p *Printer) w(s string) {
	for _, r := range s {
		if r == '\n' {
			p.line++
			p.col16, p.colB = 0, 0
			continue
		}
		if r >= 0x10000 {
			p.col16 += 2
		} else {
			p.col16++
		}
		p.colB += utf8.RuneLen(r)
	}
	p.sb.WriteString(s)
}

func (p *Printer) frag(kind, s string) {
	p.Frags = append(p.Frags, Frag{kind, s, p.line, p.col16, p.colB})
	p.w(s)
}

func (p *Printer) String() string { return p.sb.String() }

func (p *Printer) feat(s string) { p.Feat[s]++ }

func quoteStatic(v string, q byte) string {
	if q == '`' {
		return "`" + v + "`"
	}
	// Go-style double-quoted literal with only \" and \\ escapes (what the docs show)
	v = strings.ReplaceAll(v, `\`, `\\`)
	v = strings.ReplaceAll(v, `"`, `\"`)
	return `"` + v + `"`
}

func (p *Printer) interp(kind, verb, expr string) {
	p.w("#{")
	if verb != "" {
		p.w(verb + p.verbSep())
	}
	p.frag(kind, expr)
	if verb != "" && p.VerbStyle >= 2 {
		p.w(" ") // white space before the closing brace
	}
	p.w("}")
}

// verbSep: what separates a format verb from its argument (one blank, or several)
func (p *Printer) verbSep() string {
	if p.VerbStyle == 1 || p.VerbStyle == 3 {
		p.feat("verb.wide-separator")
		return "  "
	}
	return " "
}

func (p *Printer) parts(ps []Part) {
	for _, pt := range ps {
		switch {
		case pt.EscBackslash:
			p.feat("text.escbackslash")
			p.w(`\\`)
		case pt.EscHash:
			p.feat("text.eschash")
			p.w(`\#{` + pt.Static + `}`)
		case pt.Expr != "":
			p.feat("text.interp")
			if pt.Verb != "" {
				p.feat("text.interp.verb")
			}
			p.interp("interp", pt.Verb, pt.Expr)
		default:
			p.w(pt.Static)
		}
	}
}

func (p *Printer) attrs(n *Node, tabs string) {
	type item struct{ f func() }
	var items []func()
	for i := range n.Attrs {
		a := n.Attrs[i]
		// an attribute whose name is written again later in the list is overridden by the later one
		kind := "attr"
		for _, later := range n.Attrs[i+1:] {
			if later.Name == a.Name {
				kind = "attr-shadowed"
			}
		}
		items = append(items, func() {
			if a.QuoteCh != 0 {
				p.feat("attr.quotedname")
				p.w(string(a.QuoteCh) + a.Name + string(a.QuoteCh))
			} else {
				p.w(a.Name)
			}
			sp := ""
			if n.AttrLayout >= 1 {
				sp = " "
			}
			switch a.Kind {
			case AStatic:
				p.feat("attr.static")
				p.w(":" + sp + quoteStatic(a.Value, a.ValQuote))
			case ADynamic:
				p.feat("attr.dynamic")
				p.w(":" + sp)
				p.interp(kind, a.Verb, a.Expr)
			case ABool:
				p.feat("attr.bool")
			case ACond:
				p.feat("attr.cond")
				p.w(sp + "?" + sp)
				p.interp(kind, "", a.Expr)
			}
		})
	}
	if n.ClassAttr != "" {
		items = append(items, func() { p.feat("attr.class.static"); p.w(`class:` + quoteStatic(n.ClassAttr, '"')) })
	}
	if len(n.ClassExprs) > 0 {
		items = append(items, func() {
			p.feat("attr.class.dynamic")
			p.w("class:#{")
			for i, e := range n.ClassExprs {
				if i > 0 {
					p.w(", ")
				}
				p.frag("class", e)
			}
			p.w("}")
		})
	}
	if n.AttrsCmd != "" {
		items = append(items, func() {
			p.feat("attr.attributescmd")
			p.w("@attributes: #{")
			p.w(n.AttrsCmd)
			p.w("}")
		})
	}
	if len(items) == 0 {
		return
	}
	p.w("{")
	for i, it := range items {
		switch n.AttrLayout {
		case 0:
			if i > 0 {
				p.w(",")
			}
		case 1:
			if i > 0 {
				p.w(", ")
			}
		default:
			p.feat("attr.multiline")
			if i > 0 {
				p.w(",")
			}
			p.w("\n" + tabs + "\t\t")
		}
		it()
	}
	if n.AttrLayout == 3 {
		p.w(",")
	}
	if n.AttrLayout >= 2 {
		p.w("\n" + tabs)
	}
	p.w("}")
}

// lastLineIndent: length of the white space the last complete line starts with (-1: no line yet)
func (p *Printer) lastLineIndent() int {
	t := p.sb.String()
	if !strings.HasSuffix(t, "\n") {
		return -1
	}
	t = t[:len(t)-1]
	l := t[strings.LastIndex(t, "\n")+1:]
	return len(l) - len(strings.TrimLeft(l, "\t "))
}

func (p *Printer) node(n *Node, indent int) {
	tabs := strings.Repeat("\t", indent)
	if n.SpaceIndent && indent >= 1 && p.lastLineIndent() >= indent {
		switch n.Kind {
		case KElem, KText, KScript, KRender, KChildren:
			// a blank where the last tab would be: the compiler accepts it on a line that is not deeper than the line
			// before it, and measures depth by length
			p.feat("indent.blank-for-last-tab")
			tabs = tabs[:indent-1] + " "
		}
	}
	switch n.Kind {
	case KDoctype:
		p.feat("doctype")
		p.w(tabs + "!!!\n")
	case KElem:
		p.feat("elem")
		p.w(tabs)
		if n.Tag != "" {
			p.w("%" + n.Tag)
		} else {
			p.feat("elem.implicitdiv")
		}
		if n.ID != "" {
			p.feat("elem.id")
			p.w("#" + n.ID)
		}
		for _, c := range n.Classes {
			p.feat("elem.class")
			p.w("." + c)
		}
		if n.ObjRef != "" {
			p.feat("elem.objref")
			p.w("[")
			p.frag("objref", n.ObjRef)
			p.w("]")
		}
		p.attrs(n, tabs)
		if n.NukeOuter && n.NukeInner {
			p.feat("elem.nukeboth")
			if n.MarkerOrder {
				p.w("<>")
			} else {
				p.w("><")
			}
		} else if n.NukeOuter {
			p.feat("elem.nukeouter")
			p.w(">")
		} else if n.NukeInner {
			p.feat("elem.nukeinner")
			p.w("<")
		}
		if n.Void {
			p.feat("elem.void")
			p.w("/")
		}
		if n.Inline != nil {
			p.feat("elem.inline")
			in := n.Inline
			if in.Kind == KScript {
				if in.Unescaped {
					p.feat("script.unescaped")
					p.w("!")
				}
				p.w("= ")
				if in.Verb != "" {
					p.feat("script.verb")
					p.w(in.Verb + p.verbSep())
				}
				p.frag("script", in.Expr)
			} else {
				if in.Unescaped {
					p.feat("text.unescaped")
					p.w("!")
				}
				p.w(" ")
				p.parts(in.Parts)
			}
		}
		p.w("\n")
		for _, k := range n.Kids {
			p.node(k, indent+1)
		}
	case KText:
		p.feat("text")
		p.w(tabs)
		if n.Unescaped {
			p.feat("text.unescaped")
			p.w("! ")
		} else if n.LeadEsc {
			p.feat("text.leadesc")
			p.w(`\`)
		}
		p.parts(n.Parts)
		p.w("\n")
	case KScript:
		p.feat("script")
		p.w(tabs)
		if n.Unescaped {
			p.feat("script.unescaped")
			p.w("!")
		}
		p.w("= ")
		if n.Verb != "" {
			p.feat("script.verb")
			p.w(n.Verb + p.verbSep())
		}
		p.frag("script", n.Expr)
		p.w("\n")
	case KSwitch:
		// `- switch n0` (with or without its brace), the clauses one level deeper, their content two levels deeper
		p.feat("ctl.switch")
		h := n.Chain[0].Header
		if n.Chain[0].Braces {
			p.feat("ctl.braces")
			h += " {"
		}
		p.w(tabs + "- ")
		p.frag("silent", h)
		p.w("\n")
		for _, b := range n.Chain[1:] {
			p.w(tabs + "\t- ")
			p.frag("silent", b.Header)
			p.w("\n")
			for _, k := range b.Kids {
				p.node(k, indent+2)
			}
		}
		if n.Chain[0].Braces {
			p.w(tabs + "- ")
			p.frag("silent", "}")
			p.w("\n")
		}
	case KIf, KFor:
		for _, b := range n.Chain {
			p.feat("ctl." + strings.Fields(b.Header)[0])
			p.w(tabs + "- ")
			h := b.Header
			if b.Braces {
				p.feat("ctl.braces")
				h += " {"
			}
			p.frag("silent", h)
			p.w(b.Pad + "\n")
			for _, k := range b.Kids {
				p.node(k, indent+1)
			}
		}
		// the author closes what the author opened: a chain whose LAST branch was written with a brace ends with
		// `- }`; a shorthand `- else` after a braced `- if x {` closes the block itself
		if len(n.Chain) > 0 && n.Chain[len(n.Chain)-1].Braces {
			p.w(tabs + "- ")
			p.frag("silent", "}")
			p.w("\n")
		}
	case KStmt:
		p.feat("stmt")
		p.w(tabs + "- " + n.Lead)
		p.frag("silent", n.Code)
		p.w(n.Pad + "\n")
	case KRubyComment:
		p.feat("rubycomment")
		p.w(tabs + "-# " + n.Code + "\n")
		for _, k := range n.Kids {
			p.node(k, indent+1)
		}
	case KComment:
		p.feat("comment")
		p.w(tabs + "/")
		if n.Code != "" {
			p.w(" " + n.Code)
		} else {
			p.feat("comment.nested")
		}
		p.w("\n")
		for _, k := range n.Kids {
			p.node(k, indent+1)
		}
	case KFilter:
		p.feat("filter." + n.Filter)
		p.w(tabs + ":" + n.Filter + "\n")
		for _, l := range n.Lines {
			if len(l) == 0 {
				// a completely empty line in the middle of the filter body belongs to it
				p.feat("filter.empty-line")
				p.w("\n")
				continue
			}
			p.w(tabs + "\t")
			p.parts(l)
			p.w("\n")
		}
	case KRender:
		p.feat("render")
		if n.Unescaped {
			p.feat("render.unescaped-spelling")
			p.w(tabs + "!= @render")
		} else {
			p.w(tabs + "= @render")
		}
		if n.Pad == "\t" {
			p.feat("render.tab-after-command")
			p.w("\t")
		} else {
			p.w(" ")
		}
		p.frag("render", n.Callee)
		p.w("\n")
		if len(n.Kids) > 0 {
			p.feat("render.block")
		}
		for _, k := range n.Kids {
			p.node(k, indent+1)
		}
	case KChildren:
		p.feat("children")
		if n.Unescaped {
			p.feat("children.unescaped-spelling")
			p.w(tabs + "!= @children" + n.Pad + "\n")
		} else {
			p.w(tabs + "= @children" + n.Pad + "\n")
		}
		if n.Pad != "" {
			p.feat("children.trailing-" + map[string]string{"\t": "tab", " ": "blank", "()": "parentheses"}[n.Pad])
		}
	case KBlank:
		p.feat("blank-indented-line")
		p.w(tabs + "\n")
	case KRaw:
		for _, l := range strings.Split(n.Code, "\n") {
			if n.RawAbs {
				p.w(l + "\n")
			} else {
				p.w(tabs + l + "\n")
			}
		}
	}
}

// Print renders the file to template source.
func (f *File) Print() (*Printer, string) {
	p := NewPrinter()
	p.VerbStyle = f.VerbStyle
	if f.Package != "" {
		p.w("package ")
		p.frag("package", f.Package)
		p.w("\n\n")
	}
	if len(f.Imports) > 0 {
		if f.ImportGroup {
			p.feat("import.group")
			p.w("import (\n")
			for k, im := range f.Imports {
				p.w("\t")
				p.frag("import", im)
				if k%2 == 1 || len(f.Imports) == 1 {
					p.w(f.ImportTrail)
				}
				p.w("\n")
			}
			p.w(")\n\n")
		} else {
			for k, im := range f.Imports {
				p.feat("import.single")
				p.w("import ")
				p.frag("import", im)
				if k%2 == 0 {
					p.w(f.ImportTrail)
				}
				p.w("\n")
			}
			p.w("\n")
		}
	}
	for i, t := range f.Templates {
		if i < len(f.Chrome) && f.Chrome[i] != "" {
			for _, l := range strings.Split(strings.TrimRight(f.Chrome[i], "\n"), "\n") {
				if l != "" {
					p.frag("gocode", l)
				}
				p.w("\n")
			}
			p.w("\n")
		}
		p.w("@goht ")
		p.frag("signature", t.Recv+t.Name+t.Sig)
		p.w(" {\n")
		for _, n := range t.Body {
			p.node(n, 1)
		}
		p.w("}")
		if t.Trailer != "" {
			p.feat("template.trailer")
			p.frag("gocode", t.Trailer)
		}
		p.w("\n\n")
	}
	if len(f.Chrome) > len(f.Templates) {
		for _, l := range strings.Split(strings.TrimRight(f.Chrome[len(f.Templates)], "\n"), "\n") {
			if l != "" {
				p.frag("gocode", l)
			}
			p.w("\n")
		}
	}
	return p, p.String()
}

var _ = fmt.Sprint
var _ = rand.Int
