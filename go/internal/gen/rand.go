package gen

import (
	"fmt"
	"math/rand"
	"strings"
)

// Opts steer the random generator. The zero value generates only constructs that the unchanged
// compiler is known (by probes, see KNOWN_FINDINGS.txt) to handle; the flags below add the
// constructs that exercise recorded findings.
// StmtVarNames: prefixes of the variables declared by `- name := …` statements
var StmtVarNames = []string{"w", "format", "iffy", "elsewhere", "switchy", "fortune_", "else_"}

type Opts struct {
	Layouts      int  // number of layout templates available to @render (L0..)
	MaxDepth     int
	ShorthandElse bool // allow `- else` without braces (finding C01/else)
	StmtAfterBlock bool // allow `- stmt` directly after a control block (finding C03/unclosed)
	AttributesCmd bool // allow @attributes (finding C01/attributes-separator)
	NonASCII     bool
	AdvStatic    bool // adversarial static content (quotes, backslashes ...)
	ObjRefs      bool
	ClassExprs   bool
	Switch       bool
	BlankLines   bool // indented blank lines inside blocks
	FailSites    bool // sites that can fail at run time: fe1/fe2 expressions, helpers given unsupported values
	MarkerHeavy  bool // whitespace markers on most elements
	RenderHeavy  bool // favour @render / @children
	EmptyBlocks  bool // allow a block that contains only `-#` comments
	DupAttrs       bool // an attribute name written twice in one list (the later value overrides the earlier)
	VerbSpacing    bool // several blanks after a format verb, a blank before the closing brace
	TrailingSpace  bool // blanks / tabs after `- statement` lines
	HexVerb        bool // `%x n0` (the environments give n0 negative values too)
	Trailers       bool // Go code after the closing brace of a template, on the same line
	UnescBlocks    bool // `!= @render X()` WITH a block of arbitrary content (compile-level checks only: what the block then prints is not specified)
	MultiLineFrags bool // Go fragments containing a newline (finding C07/multiline)
	SpaceIndent    bool // now and then a blank instead of the last tab of a line that is not deeper than the one before
}

type G struct {
	R      *rand.Rand
	O      Opts
	inLoop bool
	layoutsAvail int
	allowChildren bool
	usedChildren bool
	nVar int
}

func (g *G) pick(xs ...string) string { return xs[g.R.Intn(len(xs))] }
func (g *G) pick2(xs ...[]string) []string { return xs[g.R.Intn(len(xs))] }
func (g *G) pick2Ints(xs ...[][]int) [][]int { return xs[g.R.Intn(len(xs))] }
func (g *G) chance(n int) bool       { return g.R.Intn(n) == 0 }

func (g *G) strFrag() string {
	if g.inLoop && g.chance(2) {
		return "x"
	}
	// a `%` inside an expression (remainder operator, a verb inside a string literal) is not a format shorthand
	if g.O.NonASCII && g.chance(6) {
		// the first code point beyond the basic plane, and the last one inside it
		return g.pick("f2(\"\U00010000\", s0)", "f2(\"\uffff\", s0)")
	}
	return g.pick("s0", "s1", `"lit"`, "s0 + s1", `f2("é", s0)`, `f2("50%off now", s0)`, `f2(s1, d3[n0%3 + 1])`)
}
// fmtFrag: a string fragment for use after a format verb (never the loop variable: the model binds only `x`)
func (g *G) fmtFrag() string { return g.pick("s0", "s1", `"lit"`, `f2("é", s0)`) }

func (g *G) boolFrag() string { return g.pick("b0", "b1", "!b0", "!b1", "b0 && b1", "n0 > 1") }

func (g *G) staticText() string {
	base := []string{"hello", "a b", "x <em>y</em> z", "tail", "1 & 2", "it's", "a.b", "50% off", "q?", "(p)", "C#", "no. #", "a ##", "#1 x", "a #b c", "x #y", "1 # 2 ##3"}
	if g.O.NonASCII {
		base = append(base, "ünï", "日本", "a😀b", "Ċ č Ġ Ĩ ĩ", "Ģ ģ Ĭ ĺ Ŀ Ľ", "Ż Ž ś ŝ Į ĥ į", "上 不 😊", "😀 lead", "𝒳y", "e\u0301 combining", "bom\ufeffin text", "zw\u200bsp nb\u00a0sp")
	}
	if g.O.AdvStatic {
		base = append(base, `say "hi"`, `back\slash`, "tick`tock", `a\nb`, `\"`, "{x}", "# h", "a#b")
	}
	return base[g.R.Intn(len(base))]
}

func (g *G) textParts() []Part {
	var ps []Part
	n := 1 + g.R.Intn(3)
	for i := 0; i < n; i++ {
		switch g.R.Intn(6) {
		case 0, 1, 2:
			ps = append(ps, Part{Static: g.staticText()})
		case 3:
			ps = append(ps, Part{Expr: g.strFrag()})
			if g.O.MultiLineFrags && g.chance(3) {
				// an interpolation spanning two, three or four template lines
				ps[len(ps)-1].Expr = g.pick("f2(s0,\n\t\t\ts1)", "f2(\n\t\t\ts0,\n\t\t\ts1)", "f2(\n\t\t\ts0,\n\t\t\ts1,\n\t\t)",
					// with an empty line inside (after the first line, in the middle, two in a row)
					"f2(s0,\n\n\t\t\ts1)", "f2(\n\t\t\ts0,\n\n\n\t\t\ts1,\n\t\t)",
					// the expression starts on the line after the opening brace
					"\n\t\t\tf2(s0, s1)", "\n\n\t\t\tf2(s0,\n\t\t\t\ts1)")
			}
		case 4:
			switch g.R.Intn(4) {
			case 0:
				ps = append(ps, Part{Expr: "n0", Verb: "%d"})
				if g.O.HexVerb && g.chance(2) {
					ps[len(ps)-1].Verb = g.pick("%x", "%X", "%o")
				}
			case 1:
				// a variable named like the verb letter
				if g.chance(2) {
					ps = append(ps, Part{Expr: "d", Verb: "%d"})
				} else {
					ps = append(ps, Part{Expr: "v", Verb: "%v"})
				}
			default:
				ps = append(ps, Part{Expr: g.fmtFrag(), Verb: g.pick("%s", "%q", "%5s")})
			}
		case 5:
			if g.chance(2) {
				ps = append(ps, Part{EscHash: true, Static: "no"})
			} else {
				// a `#` that does not start an interpolation, directly before one / at the end of the text
				ps = append(ps, Part{Static: g.pick("a#", "#", "no.#")}, Part{Expr: g.strFrag()})
				if g.chance(2) {
					ps = append(ps, Part{Static: " end#"})
				}
			}
		}
		if i < n-1 && !(g.chance(4) && strings.HasSuffix(ps[len(ps)-1].Static, "#")) {
			// (sometimes a literal '#' sits directly before an interpolation: `no. ##{n}`)
			ps = append(ps, Part{Static: " "})
		}
	}
	if ps[len(ps)-1].Expr != "" && g.chance(4) {
		// a blank between the last interpolation of the line and the line break
		ps = append(ps, Part{Static: g.pick(" ", "  ", "\t")})
	}
	// a text line may not start with "#{" (lexed as an id), '%', '.', '#', '-', '=', '/', ':', '!', '\\', '<', '>' …
	if ps[0].Expr != "" || ps[0].EscHash || strings.ContainsAny(ps[0].Static[:1], "%.#-=/:!\\<>[{ \t") {
		ps = append([]Part{{Static: "t: "}}, ps...)
	}
	return ps
}

func (g *G) attrs(n *Node) {
	k := g.R.Intn(4)
	names := []string{"a", "href", "title", "data-x", "d", "e", "x.y", "a_b", "n1"}
	g.R.Shuffle(len(names), func(i, j int) { names[i], names[j] = names[j], names[i] })
	for i := 0; i < k; i++ {
		a := Attr{Name: names[i], ValQuote: '"'}
		if g.chance(6) {
			a.Name = []string{"@click", ":disabled", "x-on:y", "a b"}[i]
			a.QuoteCh = '"'
			if g.chance(3) {
				a.QuoteCh = '`'
			}
		}
		switch g.R.Intn(5) {
		case 0:
			a.Kind = AStatic
			a.Value = g.pick("v w", "v", "https://x.y/z?a=1&b=2", "it's", "<v>", `say "hi"`, `C:\tmp\new`)
			if g.O.NonASCII && g.chance(3) {
				a.Value = "vé"
			}
			if g.chance(4) {
				a.ValQuote = '`'
			}
		case 1:
			a.Kind = ADynamic
			a.Expr = g.strFrag()
			if g.O.MultiLineFrags && g.chance(3) {
				a.Expr = g.pick("f2(s0,\n\t\t\t\ts1)", "f2(\n\t\t\t\ts0,\n\t\t\t\ts1,\n\t\t\t)", "f2(s0,\n\n\t\t\t\ts1)", "f2(\n\n\t\t\t\ts0,\n\t\t\t\ts1,\n\n\t\t\t)", "\n\t\t\t\tf2(s0, s1)")
			}
		case 2:
			a.Kind = ADynamic
			a.Expr, a.Verb = "n0", "%d"
			if g.O.HexVerb && g.chance(2) {
				a.Verb = g.pick("%x", "%X", "%o")
			} else if g.chance(3) {
				a.Expr, a.Verb = g.pick("d", `f2("é", s0)`), "%d"
				if a.Expr != "d" {
					a.Verb = "%s"
				}
			}
		case 3:
			a.Kind = ABool
		case 4:
			a.Kind = ACond
			a.Expr = g.boolFrag()
			if g.chance(4) {
				// white space inside the braces, in front of and behind the condition (blanks and tabs; a line break here would make the
				// next template line look less deep than it is to the printer's indentation bookkeeping)
				a.Expr = g.pick(" ", "  ", " \t", "\t") + a.Expr + g.pick("", " ", "  ")
			}
		}
		n.Attrs = append(n.Attrs, a)
	}
	if g.O.DupAttrs && len(n.Attrs) > 0 && g.chance(3) {
		first := n.Attrs[g.R.Intn(len(n.Attrs))]
		if first.Name != "class" {
			dup := Attr{Name: first.Name, QuoteCh: first.QuoteCh, Kind: ADynamic, Expr: g.strFrag()}
			if g.chance(3) {
				dup = Attr{Name: first.Name, QuoteCh: first.QuoteCh, Kind: ACond, Expr: g.boolFrag()}
			}
			n.Attrs = append(n.Attrs, dup)
		}
	}
	if g.chance(8) {
		n.ClassAttr = g.pick("k1", "k1 k2")
	} else if g.O.ClassExprs && g.chance(6) {
		n.ClassExprs = []string{g.pick("s0", `"c"`, "xs"), g.pick("s1", "mb", `"d e"`)}
		if g.chance(3) {
			// one expression only, next to a static class that is spelled like it
			n.ClassExprs = []string{g.pick("s0", "xs", "mb")}
			n.Classes = append(n.Classes, n.ClassExprs[0])
		}
	}
	if g.O.AttributesCmd && g.chance(8) {
		n.AttrsCmd = g.pick("m0", "mb", "m0, mb")
	}
	n.AttrLayout = g.R.Intn(4)
}

func (g *G) elemHead() *Node {
	n := &Node{Kind: KElem}
	switch g.R.Intn(6) {
	case 0:
		n.Tag = "p"
	case 1:
		n.Tag = g.pick("span", "div", "a", "em", "h1", "my-tag", "x:y")
	case 2:
		n.Tag = "p"
		n.ID = g.pick("i1", "main", "a-b", "a_b")
	case 3:
		n.Tag = g.pick("a", "li")
		n.Classes = []string{"c1", g.pick("c2", "c-3", "c_4")}
	case 4:
		n.Classes = []string{g.pick("box", "w-1")}
	case 5:
		n.ID = g.pick("top", "z9")
	}
	if g.O.ObjRefs && g.chance(8) {
		n.ObjRef = g.pick("o0", `o0, "pre"`, `o0, s1`)
	}
	g.attrs(n)
	if g.O.MultiLineFrags && g.chance(4) {
		// a fragment spanning lines followed by another fragment on the same generated line
		n.ObjRef = g.pick("pickObj(o0,\n\t\t\t\to0)", "pickObj(\n\t\t\t\to0,\n\t\t\t\to0,\n\t\t\t)", "pickObj(o0,\n\n\t\t\t\to0)", "\n\t\t\t\tpickObj(o0, o0)")
		if n.ClassAttr == "" && len(n.ClassExprs) == 0 {
			n.ClassExprs = []string{"s1"}
		}
	}
	mk := g.R.Intn(8)
	if g.O.MarkerHeavy {
		mk = g.R.Intn(4)
	}
	switch mk {
	case 0:
		n.NukeOuter = true
	case 1:
		n.NukeInner = true
	case 2:
		n.NukeOuter, n.NukeInner = true, true
		n.MarkerOrder = g.chance(2)
	}
	return n
}

func (g *G) inline() *Node {
	switch g.R.Intn(4) {
	case 0:
		return &Node{Kind: KText, Parts: g.textParts()}
	case 1:
		return &Node{Kind: KScript, Expr: g.strFrag()}
	case 2:
		return &Node{Kind: KScript, Expr: g.strFrag(), Unescaped: true}
	default:
		switch g.R.Intn(4) {
		case 0:
			return &Node{Kind: KScript, Expr: g.fmtFrag(), Verb: g.pick("%s", "%q")}
		case 1:
			return &Node{Kind: KScript, Expr: "v", Verb: "%v"}
		}
		if g.O.HexVerb && g.chance(2) {
			return &Node{Kind: KScript, Expr: "n0", Verb: g.pick("%x", "%X", "%o")}
		}
		return &Node{Kind: KScript, Expr: "n0", Verb: "%d"}
	}
}

// Block generates a list of sibling nodes.
func (g *G) Block(depth int) []*Node {
	var out []*Node
	n := 1 + g.R.Intn(3)
	for i := 0; i < n; i++ {
		k := g.R.Intn(16)
		if g.O.FailSites && g.R.Intn(4) == 0 {
			switch g.R.Intn(4) {
			case 0:
				out = append(out, &Node{Kind: KScript, Expr: g.pick("fe1(s0)", "fe2(s1)"), Unescaped: true})
			case 1:
				bad := &Node{Kind: KElem, Tag: "b", ClassExprs: g.pick2([]string{"s0", "n0"}, []string{"n0", "s1"}, []string{"xs", "n0"}, []string{"n0"}), Inline: &Node{Kind: KText, Parts: []Part{{Static: "bad class arg"}}}}
				if len(bad.ClassExprs) == 1 && g.chance(2) {
					bad.Classes = []string{"n0"} // a static class spelled like the expression
				}
				switch g.R.Intn(4) {
				case 0:
					bad.AttrsCmd = "m0, mb" // the failing helper call is followed by another helper call of the same tag, which succeeds
				case 1:
					bad.ObjRef = "o0"
				}
				out = append(out, bad)
			case 2:
				out = append(out, &Node{Kind: KElem, Tag: "i", AttrsCmd: g.pick("s0", "m0, s0", "mb, n0", "n0, m0"), Inline: &Node{Kind: KText, Parts: []Part{{Static: "bad attrs arg"}}}})
			case 3:
				n := &Node{Kind: KText, Unescaped: true, Parts: []Part{{Static: "t "}, {Expr: "fe1(s1)"}}}
				out = append(out, n)
			}
			continue
		}
		if g.O.RenderHeavy && g.R.Intn(3) == 0 {
			k = []int{9, 9, 11, 1}[g.R.Intn(4)]
		}
		if g.O.MarkerHeavy && g.R.Intn(3) == 0 {
			k = []int{0, 1, 1, 2, 3}[g.R.Intn(5)]
		}
		if g.O.Switch && g.R.Intn(7) == 0 {
			k = 13
		}
		if depth <= 0 && (k == 1 || k == 4 || k == 5 || k == 9 || k == 10 || k == 13) {
			k = 0
		}
		switch k {
		case 0:
			e := g.elemHead()
			if g.chance(7) {
				// a void element (never has content); `>` on it removes the white space before it only
				e.Tag = g.pick("br", "hr", "img", "input", "wbr")
				e.NukeInner = false
				if g.O.MarkerHeavy && g.chance(2) {
					e.NukeOuter = true
				}
				out = append(out, e)
				if g.O.MarkerHeavy && g.chance(2) {
					// `<` on an element that has no inside removes nothing; what follows may start with white space of its own
					e.NukeInner = true
					out = append(out, &Node{Kind: KScript, Expr: g.pick("s0", "s1", `"  two blanks first"`)})
				}
				continue
			}
			if g.R.Intn(4) > 0 {
				e.Inline = g.inline()
				if e.NukeInner || e.NukeOuter {
					// after a whitespace marker the lexer accepts `=`, `/` and text, but not `!` (undocumented corner)
					e.Inline.Unescaped = false
				}
			}
			out = append(out, e)
		case 1:
			e := g.elemHead()
			e.Kids = g.Block(depth - 1)
			out = append(out, e)
		case 2:
			t := &Node{Kind: KText, Parts: g.textParts()}
			if g.chance(6) {
				t.Unescaped = true
			}
			out = append(out, t)
		case 3:
			s := &Node{Kind: KScript, Expr: g.strFrag(), Unescaped: g.chance(3)}
			if g.chance(4) {
				s.Expr, s.Verb, s.Unescaped = "n0", "%d", false
			} else if g.chance(5) {
				s.Expr, s.Verb = g.fmtFrag(), g.pick("%s", "%q", "%v")
			}
			out = append(out, s)
		case 4:
			c := &Node{Kind: KIf}
			br := g.chance(5)
			cond := g.boolFrag()
			c.Chain = append(c.Chain, Branch{Header: "if " + cond, Cond: cond, Braces: br, Kids: g.Block(depth - 1)})
			if g.chance(2) && !br {
				cond = g.boolFrag()
				c.Chain = append(c.Chain, Branch{Header: "else if " + cond, Cond: cond, Kids: g.Block(depth - 1)})
			}
			if g.O.ShorthandElse && g.chance(2) && !br {
				c.Chain = append(c.Chain, Branch{Header: "else", Kids: g.Block(depth - 1)})
			}
			if g.O.ShorthandElse && br && g.chance(2) {
				// both documented styles in one chain: `- if x {` continued by shorthand `- else if` / `- else`
				if g.chance(2) {
					cond = g.boolFrag()
					c.Chain = append(c.Chain, Branch{Header: "else if " + cond, Cond: cond, Kids: g.Block(depth - 1)})
				}
				c.Chain = append(c.Chain, Branch{Header: "else", Kids: g.Block(depth - 1)})
			}
			out = append(out, c)
			if !g.O.StmtAfterBlock || g.chance(2) {
				// a following `- stmt` sibling would leave the block unclosed (finding C03/unclosed-block)
				out = append(out, &Node{Kind: KElem, Tag: "hr"})
			} else {
				g.nVar++
				out = append(out, &Node{Kind: KStmt, Code: fmt.Sprintf("v%d := s0; _ = v%d", g.nVar, g.nVar)})
			}
		case 5:
			if !g.inLoop {
				g.inLoop = true
				kids := append([]*Node{{Kind: KScript, Expr: "x"}}, g.Block(depth-1)...)
				g.inLoop = false
				out = append(out, &Node{Kind: KFor, Chain: []Branch{{Header: "for _, x := range xs", Braces: g.chance(5), Kids: kids}}})
				out = append(out, &Node{Kind: KElem, Tag: "hr"})
			}
		case 6:
			e := &Node{Kind: KElem, Tag: g.pick("br", "hr", "img", "input", "meta")}
			if e.Tag == "img" {
				e.Attrs = []Attr{{Name: "src", Kind: AStatic, Value: "i.png", ValQuote: '"'}}
			}
			if g.chance(4) {
				e.Tag, e.Void = g.pick("foo", "bar"), true
			}
			out = append(out, e)
		case 7:
			out = append(out, &Node{Kind: KComment, Code: g.pick("a comment", "c <b> & d", "x -- y")})
		case 8:
			f := &Node{Kind: KFilter, Filter: g.pick("plain", "escaped", "preserve", "css", "javascript")}
			nl := 1 + g.R.Intn(3)
			if g.chance(8) {
				nl = 0 // a filter line with no body
			}
			for j := 0; j < nl; j++ {
				var ps []Part
				ps = append(ps, Part{Static: g.pick("raw <i>", "a { b: c }", "l " + g.staticText(), "x")})
				if g.chance(3) {
					ps = append(ps, Part{Static: " "}, Part{Expr: g.strFrag()})
				}
				ps = append(ps, Part{Static: g.pick("", " t", ";")})
				f.Lines = append(f.Lines, ps)
				if j+1 < nl && g.chance(3) {
					f.Lines = append(f.Lines, nil) // an empty line between two lines of the body
					if g.chance(3) {
						f.Lines = append(f.Lines, nil)
					}
				}
			}
			out = append(out, f)
			if g.O.NonASCII && g.chance(3) {
				// the line that ends the filter starts with a rune of several bytes
				out = append(out, &Node{Kind: KText, Parts: []Part{{Static: g.pick("été là", "日本 next", "😀 lead", "ünï")}}})
			}
		case 9:
			if g.layoutsAvail > 0 && !g.inLoop {
				r := &Node{Kind: KRender, Callee: fmt.Sprintf("L%d%s", g.R.Intn(g.layoutsAvail), Args)}
				if g.chance(5) {
					r.Pad = "\t" // a tab, not a blank, between the command and its argument
				}
				if g.R.Intn(3) > 0 {
					r.Kids = g.Block(depth - 1)
					if g.O.UnescBlocks && g.chance(3) {
						r.Unescaped = true
					}
				} else if g.O.RenderHeavy && g.chance(3) {
					r.Unescaped = true // the `!= @render` spelling (without a block: nothing in it to escape or not)
				}
				out = append(out, r)
			}
		case 10:
			out = append(out, &Node{Kind: KComment, Kids: g.Block(depth - 1)})
		case 11:
			if g.allowChildren {
				g.usedChildren = true
				out = append(out, &Node{Kind: KChildren, Unescaped: g.O.RenderHeavy && g.chance(4), Pad: g.pick("", "", "", "\t", " ", "()")})
			}
		case 12:
			out = append(out, &Node{Kind: KDoctype})
		case 13:
			if g.O.Switch {
				c := &Node{Kind: KSwitch, Chain: []Branch{{Header: "switch n0", Braces: g.chance(3)}}}
				for _, vals := range g.pick2Ints([][]int{{1}, {2, 3}}, [][]int{{0}, {1, 2}}, [][]int{{3}}, [][]int{{0, 1}, {2}, {3}}) {
					hs := make([]string, len(vals))
					for k, v := range vals {
						hs[k] = fmt.Sprint(v)
					}
					c.Chain = append(c.Chain, Branch{Header: "case " + strings.Join(hs, ", ") + ":", CaseVals: vals, Kids: g.Block(depth - 2)})
				}
				if g.chance(2) {
					c.Chain = append(c.Chain, Branch{Header: "default:", Default: true, Kids: g.Block(depth - 2)})
				}
				out = append(out, c)
			}
		case 14:
			g.nVar++
			// variables whose names merely begin with a control-flow keyword are plain statements
			name := fmt.Sprintf("%s%d", g.pick(StmtVarNames...), g.nVar)
			out = append(out, &Node{Kind: KStmt, Code: name + " := s1 + \"!\""})
			out = append(out, &Node{Kind: KScript, Expr: name})
		case 15:
			out = append(out, &Node{Kind: KRubyComment, Code: g.pick("note", "todo: x")})
			if g.O.NonASCII && g.chance(2) {
				// the line after the comment, at the comment's own level, starts with a rune of several bytes
				out = append(out, &Node{Kind: KText, Parts: []Part{{Static: g.pick("été là", "日本 next", "😀 lead", "ünï")}}})
			}
		}
	}
	if g.O.BlankLines && g.chance(3) {
		// an indented but otherwise empty line, at the start or in the middle of the block
		at := 0
		if g.chance(2) {
			at = g.R.Intn(len(out) + 1)
		}
		// never between a control block and its else branch / closing `- }`
		// … and not directly after a `-#` comment, whose ignored region swallows following blank lines
		if at == 0 || !endsWithSwallower(out[at-1]) {
			out = append(out[:at], append([]*Node{{Kind: KBlank}}, out[at:]...)...)
		}
	}
	onlyComments := true
	for _, n := range out {
		if n.Kind != KRubyComment && n.Kind != KBlank {
			onlyComments = false
		}
	}
	if len(out) == 0 || (onlyComments && !g.O.EmptyBlocks) {
		// a control block whose only content is a `-#` comment has no children for the emitter:
		// it prints `if cond` without braces (finding C03/empty-control-block)
		out = append(out, &Node{Kind: KElem, Tag: "p", Inline: &Node{Kind: KText, Parts: []Part{{Static: "fallback"}}}})
	}
	return out
}

// endsWithSwallower: the last line of the node's subtree is one after which the lexer drops blank lines
// (a `-#` comment swallows the blank lines that follow it, whatever their indentation; control blocks
// as before)
func endsWithSwallower(n *Node) bool {
	switch n.Kind {
	case KRubyComment, KIf, KFor, KSwitch:
		return true
	case KElem, KRender, KComment:
		if len(n.Kids) > 0 {
			return endsWithSwallower(n.Kids[len(n.Kids)-1])
		}
	}
	return false
}

// GenFile builds a file with nLayouts layouts (may use @children, may render earlier layouts)
// and nPages pages.
func GenFile(r *rand.Rand, o Opts, nLayouts, nPages int) *File {
	g := &G{R: r, O: o}
	f := &File{Package: "main"}
	if o.MaxDepth == 0 {
		o.MaxDepth = 3
		g.O.MaxDepth = 3
	}
	f.Chrome = append(f.Chrome, Chrome+"\nfunc f2(a, b string) string { return a + b }\nfunc pickObj(a, b Obj) Obj   { return a }\nvar d3 = []string{\"zero\", \"one\", \"two\", \"three\"}\n")
	for i := 0; i < nLayouts; i++ {
		g.layoutsAvail = i
		g.allowChildren = true
		g.usedChildren = false
		body := g.Block(g.O.MaxDepth - 1)
		if o.RenderHeavy && !g.usedChildren && i%3 != 2 {
			// two layouts in three have a children slot for certain (the random walk reaches one only now and then)
			body = append(body, &Node{Kind: KElem, Tag: "section", Kids: []*Node{{Kind: KChildren}}})
			g.usedChildren = true
		}
		f.Templates = append(f.Templates, &Template{Name: fmt.Sprintf("L%d", i), Sig: Sig, Body: body, UsesChildren: g.usedChildren})
	}
	g.layoutsAvail = nLayouts
	g.allowChildren = false
	for i := 0; i < nPages; i++ {
		f.Templates = append(f.Templates, &Template{Name: fmt.Sprintf("P%d", i), Sig: Sig, Body: g.Block(g.O.MaxDepth)})
	}
	if o.RenderHeavy {
		// the children slot over a whole body: a render WITH a block followed, in the same body and in the same
		// children block, by a render of the same layout WITHOUT one (which must see empty children)
		for k := 0; k < nLayouts; k++ {
			if !f.Templates[k].UsesChildren {
				continue
			}
			callee := fmt.Sprintf("L%d%s", k, Args)
			p := func(s string) *Node { return &Node{Kind: KElem, Tag: "p", Inline: &Node{Kind: KText, Parts: []Part{{Static: s}}}} }
			// the blocks here are static, so the `!= @render` spelling cannot change what they print
			with := func(kids ...*Node) *Node { return &Node{Kind: KRender, Callee: callee, Kids: kids, Unescaped: g.chance(3)} }
			without := func() *Node { return &Node{Kind: KRender, Callee: callee, Unescaped: g.chance(3)} }
			f.Templates = append(f.Templates, &Template{Name: fmt.Sprintf("Seq%d", k), Sig: Sig, Body: []*Node{
				with(p("first block")), without(),
				{Kind: KElem, Tag: "div", Kids: []*Node{with(with(p("inner")), without()), without()}},
				// a block that is nothing but another render, which has a block of its own
				with(with(p("only"))),
				p("end"),
			}})
		}
	}
	if o.RenderHeavy {
		// pure forwarding: a layout that wraps another layout and hands on its own children, nothing else in the block
		for k := 0; k < nLayouts; k++ {
			if !f.Templates[k].UsesChildren {
				continue
			}
			callee := fmt.Sprintf("L%d%s", k, Args)
			p := func(s string) *Node { return &Node{Kind: KElem, Tag: "p", Inline: &Node{Kind: KText, Parts: []Part{{Static: s}}}} }
			f.Templates = append(f.Templates, &Template{Name: fmt.Sprintf("Fwd%d", k), Sig: Sig, UsesChildren: true, Body: []*Node{
				{Kind: KElem, Classes: []string{"outer"}, Kids: []*Node{{Kind: KRender, Callee: callee, Kids: []*Node{{Kind: KChildren}}}}},
			}}, &Template{Name: fmt.Sprintf("FwdPage%d", k), Sig: Sig, Body: []*Node{
				{Kind: KRender, Callee: fmt.Sprintf("Fwd%d%s", k, Args), Kids: []*Node{p("forwarded"), {Kind: KScript, Expr: "s0"}}},
				{Kind: KRender, Callee: fmt.Sprintf("Fwd%d%s", k, Args)},
			}})
		}
	}
	if o.RenderHeavy && o.FailSites {
		// a site that can fail inside the children block handed to a layout (one and two levels deep)
		for k := 0; k < nLayouts; k++ {
			if !f.Templates[k].UsesChildren {
				continue
			}
			callee := fmt.Sprintf("L%d%s", k, Args)
			p := func(s string) *Node { return &Node{Kind: KElem, Tag: "p", Inline: &Node{Kind: KText, Parts: []Part{{Static: s}}}} }
			fail := func() *Node { return &Node{Kind: KScript, Expr: g.pick("fe1(s0)", "fe2(s1)"), Unescaped: true} }
			f.Templates = append(f.Templates, &Template{Name: fmt.Sprintf("FailIn%d", k), Sig: Sig, Body: []*Node{
				{Kind: KRender, Callee: callee, Kids: []*Node{p("before"), fail(), p("after")}},
			}}, &Template{Name: fmt.Sprintf("FailDeep%d", k), Sig: Sig, Body: []*Node{
				{Kind: KRender, Callee: callee, Kids: []*Node{{Kind: KElem, Tag: "div", Kids: []*Node{{Kind: KRender, Callee: callee, Kids: []*Node{fail()}}}}}},
				p("end"),
			}}, &Template{Name: fmt.Sprintf("FailNest%d", k), Sig: Sig, Body: []*Node{
				// the failing site two blocks down, the outer block being nothing but the inner render
				{Kind: KRender, Callee: callee, Kids: []*Node{{Kind: KRender, Callee: callee, Kids: []*Node{p("before"), fail()}}}},
			}})
		}
	}
	if o.HexVerb {
		// every numeric verb once, as script, interpolation and attribute value (the environments make n0 negative too)
		f.Templates = append(f.Templates, &Template{Name: "Hexes", Sig: Sig, Body: []*Node{
			{Kind: KElem, Tag: "p", Attrs: []Attr{{Name: "data-mask", Kind: ADynamic, Expr: "n0", Verb: "%x"}}, Inline: &Node{Kind: KScript, Expr: "n0", Verb: "%x"}},
			{Kind: KElem, Tag: "span", Inline: &Node{Kind: KText, Parts: []Part{{Static: "o "}, {Expr: "n0", Verb: "%o"}, {Static: " X "}, {Expr: "n0", Verb: "%X"}, {Static: " d "}, {Expr: "n0", Verb: "%d"}}}},
		}})
	}
	if o.MultiLineFrags {
		// declarations with one parameter per line (a fragment of ten lines)
		for i, t := range f.Templates {
			if i%3 == 1 && t.Sig == Sig {
				t.Sig = strings.ReplaceAll(strings.Replace(strings.Replace(Sig, "(", "(\n\t", 1), ")", ",\n)", 1), ", ", ",\n\t")
				if i%2 == 1 {
					// an empty line between two groups of parameters
					t.Sig = strings.Replace(t.Sig, ",\n\t", ",\n\n\t", 1)
				}
			}
		}
	}
	if o.VerbSpacing {
		f.VerbStyle = g.R.Intn(4)
	}
	if o.SpaceIndent {
		var mark func(ns []*Node)
		mark = func(ns []*Node) {
			for _, n := range ns {
				if g.chance(6) {
					n.SpaceIndent = true
				}
				for i := range n.Chain {
					mark(n.Chain[i].Kids)
				}
				mark(n.Kids)
			}
		}
		for _, t := range f.Templates {
			mark(t.Body)
		}
	}
	if o.TrailingSpace {
		var pad func(ns []*Node)
		pad = func(ns []*Node) {
			for _, n := range ns {
				if n.Kind == KStmt && g.chance(2) {
					n.Pad = g.pick(" ", "   ", "\t", " \t ", "\u00a0", " \u3000")
				}
				if n.Kind == KStmt && g.chance(4) {
					// white space that is not ASCII in front of the statement (pasted from a web page)
					n.Lead = g.pick("\u00a0", "\u3000", "\u00a0 ", "\u2003\u00a0")
				}
				for i := range n.Chain {
					if g.chance(3) {
						n.Chain[i].Pad = g.pick(" ", "  ", "\t")
					}
					pad(n.Chain[i].Kids)
				}
				pad(n.Kids)
			}
		}
		for _, t := range f.Templates {
			pad(t.Body)
		}
	}
	if o.Trailers {
		// Go code on the line of a template's closing brace
		for i, t := range f.Templates {
			switch g.R.Intn(3) {
			case 0:
				t.Trailer = fmt.Sprintf(" // end of %s", t.Name)
			case 1:
				t.Trailer = fmt.Sprintf("; var after%d = %d", i, i)
			}
		}
	}
	return f
}
