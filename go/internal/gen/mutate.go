package gen

import (
	"fmt"
	"math/rand"
	"os"
	"path/filepath"
	"sort"
	"strings"
)

// RepoSeeds returns every .goht file of the repository under test (sorted, deterministic).
func RepoSeeds(repo string) [][]byte {
	var files []string
	filepath.WalkDir(repo, func(p string, d os.DirEntry, err error) error {
		if err == nil && !d.IsDir() && strings.HasSuffix(p, ".goht") {
			files = append(files, p)
		}
		return nil
	})
	sort.Strings(files)
	var out [][]byte
	for _, f := range files {
		if b, err := os.ReadFile(f); err == nil {
			out = append(out, b)
		}
	}
	return out
}

// ExtraSeeds are hand-written inputs that reach corners the repository's own files do not.
func ExtraSeeds() [][]byte {
	ss := []string{
		"package x\n\n@goht T(s string, b bool) {\n\t%p é #{s}\n\t%p= f(\"é\", s)\n\t- if b\n\t\t%p x\n\t%hr\n\t%a{href: #{s}, \"x\\\"y\": `a\\d`, class: #{s, s}, c ? #{b}}[s] txt\n\t%p#a&b.c&d{e: \"f\\\"g\"} x\n\t/ comment \\b\n\t:escaped\n\t\ta \"q\" <b>\n\t:preserve\n\t\tl1\n\t\tl2\n\t%p= %d 5\n\t%p #{%s s} and \\#{s}\n\t= @render T(s, b)\n\t\t%p kid\n\t\t= @children\n}\n",
		"@goht T() {\n\t%p hi\n}\n",
		"package x\r\n\r\nimport \"fmt\"\r\n\r\n@goht T() {\r\n\t%p hi \\#{x} \\\\#{y}\r\n}\r\n",
		"package x\n\n@goht T() {\n\t%p{@attributes: #{m}} x\n}\n",
		"package x\n\n@goht (t T) Foo(a interface{ M() string }, b int) {\n\t= a.M()\n}\n",
		"package x\n\n@goht T() {\n\t= @foo\n\t%p\n}\n",
		"package x\n\n@foo bar\nvar x = 1\n",
		"package x\n\n@goht T(s string) {\n\t%p é #{s}\n\t-# é\n\t\tignored\n\t%a{href: #{s}, \"x\\\"y\": `a\\d`}[s]\n}\n",
		"package x\n\n@goht T() {\n\t:plain\n\t\tfoo #{x} bar\n\n\t\tbaz\n\t%p\n}\n",
		"\xff\xfe@goht T() {\n\t%p \xe2\x98 x\n}",
		"package x\n\nimport (\n\t\"a\"\n\tb \"c\"\n\t. \"d\"\n\t_ \"e\"\n)\n\nvar s = `\npackage y\nimport \"z\"\n`\n\n@goht A() {\n\t%p a\n}\n\n@goht B() {\n%p b\n}\n",
		"package x\n\n@goht T(b bool) {\n\t- if b\n\t\t%p y\n\t- else\n\t\t%p n\n\t\t%p n2\n\t- x := 1\n\t= %d x\n}\n",
		"package x\n\n@goht T() {\n\t%p>< a\n\t%p<\n\t\t%b> c\n\t.d<> e\n\t%img/\n\t%br\n\t\\%notatag\n\t! <raw> #{s}\n\t!= s\n}\n",
		// the last code points of the basic plane (one UTF-16 unit each) and the first beyond it (two), in fragments
		"package x\n\nvar edge = \"\uffff\ufffe\ufffd\U00010000\" // \uffff\n\n@goht T(s string) {\n\t%p= f(\"\uffff\", s)\n\t- sep := \"\uffff\U00010000\" + s\n\t%p \uffff #{s} \U00010000 #{s}\n\t%a{title: #{s + \"\uffff\"}, k\uffff: #{s}} x #{sep}\n}\n",
		// fragments that are empty: a `-` line with nothing behind it (twice), an output line with blanks only
		"package x\n\n@goht T(s string) {\n\t%p a\n\t-\n\t%p b\n\t- \n\t%p= s\n\t-\n}\n",
		// runes of two UTF-16 units at the start of a text, after a delimiter, in names and values, each with mapped
		// fragments later on the same line; a combining sequence; a BOM inside a line
		"package x\n\n@goht T(s string, b bool) {\n\t%p 😀 lead #{s} 𝒳 #{s}\n\t😀 #{s} and #{s}\n\t%a{title: \"😀\", href: #{s}, 𝒳: #{s}} 𝒳y #{s}\n\t%p= f(\"😀\", s)\n\t- x := \"𝒳\" + s\n\t.c😀d#i𝒳{e ? #{b}}[s] e\u0301 #{s}\n\t%p a\ufeffb #{s}\n\t:plain\n\t\t😀 #{s} 𝒳 #{s}\n}\n",
	}
	var out [][]byte
	for _, s := range ss {
		out = append(out, []byte(s))
	}
	return out
}

var structural = []string{"{", "}", "#{", "\t", "\n", "%", ".", "#", "[", "]", "\"", "`", ":", "=", "!", "-", "/", ">", "<", "@", "\\", " ", "é", "\xff", "(", ")", ",", "?", "\r\n", "!!!", "@goht ", "import (", "package "}

// Mutants: n random single edits (deletion, structural-token insertion, splice) of s.
func Mutants(r *rand.Rand, s []byte, n int) [][]byte {
	var out [][]byte
	for k := 0; k < n; k++ {
		i := r.Intn(len(s) + 1)
		var m []byte
		switch r.Intn(3) {
		case 0:
			if i < len(s) {
				m = append(append([]byte{}, s[:i]...), s[i+1:]...)
			}
		case 1:
			tok := structural[r.Intn(len(structural))]
			m = append(append(append([]byte{}, s[:i]...), tok...), s[i:]...)
		case 2:
			j := r.Intn(len(s) + 1)
			if i > j {
				i, j = j, i
			}
			m = append(append([]byte{}, s[:i]...), s[j:]...)
		}
		if m != nil {
			out = append(out, m)
		}
	}
	return out
}

// Prefixes returns every step-th prefix of s.
func Prefixes(s []byte, step int) [][]byte {
	var out [][]byte
	for i := 0; i < len(s); i += step {
		out = append(out, s[:i])
	}
	return out
}

// Scaling families for C06: n imports, n attributes, n nested levels, n templates, long signature.
func Scaling(n int) map[string][]byte {
	m := map[string][]byte{}
	var sb strings.Builder
	sb.WriteString("package x\n\nimport (\n")
	for i := 0; i < n; i++ {
		fmt.Fprintf(&sb, "\t\"p%d\"\n", i)
	}
	sb.WriteString(")\n\n@goht T() {\n\t%p x\n}\n")
	m["imports-group"] = []byte(sb.String())
	sb.Reset()
	sb.WriteString("package x\n\n")
	for i := 0; i < n; i++ {
		fmt.Fprintf(&sb, "import \"p%d\"\n", i)
	}
	sb.WriteString("\n@goht T() {\n\t%p x\n}\n")
	m["imports-single"] = []byte(sb.String())
	sb.Reset()
	sb.WriteString("package x\n\n@goht T() {\n\t%p{")
	for i := 0; i < n; i++ {
		fmt.Fprintf(&sb, "a%d: \"v\", ", i)
	}
	sb.WriteString("} x\n}\n")
	m["attributes"] = []byte(sb.String())
	sb.Reset()
	sb.WriteString("package x\n\n@goht T() {\n")
	for i := 0; i < n; i++ {
		sb.WriteString(strings.Repeat("\t", i+1) + "%d\n")
	}
	sb.WriteString("}\n")
	m["nesting"] = []byte(sb.String())
	// nesting of constructs that open a Go block in the generated code (deeper Go indentation, not deeper HTML)
	if k := min(n, 500); k > 0 {
		for name, opener := range map[string]string{"nesting-if": "- if true", "nesting-for": "- for i := 0; i < 1; i++", "nesting-render": "= @render W()", "nesting-comment": "/"} {
			sb.Reset()
			sb.WriteString("package x\n\n@goht W() {\n\t= @children\n}\n\n@goht T() {\n")
			for i := 0; i < k; i++ {
				sb.WriteString(strings.Repeat("\t", i+1) + opener + "\n")
			}
			sb.WriteString(strings.Repeat("\t", k+1) + "%p bottom\n}\n")
			m[name] = []byte(sb.String())
		}
	}
	// width instead of depth: one very long text line, one element with n classes, n sibling lines, an if / else-if chain
	sb.Reset()
	sb.WriteString("package x\n\n@goht T(n int) {\n\t%p " + strings.Repeat("lorem #{n} ipsum ", n) + "\n\t%p" + strings.Repeat(".c", n) + " x\n")
	for i := 0; i < n; i++ {
		fmt.Fprintf(&sb, "\t%%i= %d\n", i)
	}
	sb.WriteString("\t- if n == 0\n\t\t%b 0\n")
	for i := 1; i < n; i++ {
		fmt.Fprintf(&sb, "\t- else if n == %d\n\t\t%%b %d\n", i, i)
	}
	sb.WriteString("}\n")
	m["width"] = []byte(sb.String())
	sb.Reset()
	sb.WriteString("package x\n\n")
	for i := 0; i < n; i++ {
		fmt.Fprintf(&sb, "@goht T%d() {\n\t%%p x\n}\n\n", i)
	}
	m["templates"] = []byte(sb.String())
	sb.Reset()
	sb.WriteString("package x\n\n@goht (t T) F(")
	for i := 0; i < n; i++ {
		fmt.Fprintf(&sb, "a%d interface{ M() }, ", i)
	}
	sb.WriteString("z int) {\n\t%p x\n}\n")
	m["signature"] = []byte(sb.String())
	sb.Reset()
	sb.WriteString("package x\n\n@goht T() {\n")
	for i := 0; i < n; i++ {
		sb.WriteString("\t%p x #{s} y\n")
	}
	sb.WriteString("}\n")
	m["lines"] = []byte(sb.String())
	// many tokens on ONE line (a state that loops instead of returning to the pump fills the queue)
	one := func(name, head, unit, tail string) {
		m[name] = []byte("package x\n\n@goht T(s string) {\n" + head + strings.Repeat(unit, n) + tail + "\n}\n")
	}
	one("oneline-interps", "\t%p ", "t#{s}", " end")
	one("oneline-interps-adjacent", "\t%p ", "#{s}", "")
	one("oneline-unescaped-interps", "\t! ", "t#{s}", " end")
	one("oneline-classes", "\t%p", ".c", " x")
	one("oneline-ids", "\t%p", "#i", " x")
	one("oneline-eschash", "\t%p ", "\\#{s} ", "")
	one("oneline-attrs-dynamic", "\t%p{", "a: #{s}, ", "} x")
	one("oneline-attrs-bool", "\t%p{", "a, ", "} x")
	one("oneline-markers", "\t%p", "><", " x")
	m["filterline-interps"] = []byte("package x\n\n@goht T(s string) {\n\t:plain\n\t\t" + strings.Repeat("t#{s}", n) + " end\n}\n")
	m["multiline-attrs"] = []byte("package x\n\n@goht T(s string) {\n\t%p{\n" + strings.Repeat("\t\ta: #{s},\n", n) + "\t} x\n}\n")
	m["objrefs"] = []byte("package x\n\n@goht T(s string) {\n" + strings.Repeat("\t%p[s] x\n", n) + "}\n")
	m["filter-lines"] = []byte("package x\n\n@goht T(s string) {\n\t:escaped\n" + strings.Repeat("\t\tline <b>\n", n) + "}\n")
	m["ruby-comment-lines"] = []byte("package x\n\n@goht T(s string) {\n\t-# c\n" + strings.Repeat("\t\tignored\n", n) + "\t%p x\n}\n")
	m["blank-lines"] = []byte("package x\n\n@goht T(s string) {\n\t%p x\n" + strings.Repeat("\n", n) + "\t%p y\n}\n")
	m["gocode-lines"] = []byte("package x\n\n" + strings.Repeat("var _ = 1\n", n) + "\n@goht T() {\n\t%p x\n}\n")
	return m
}

// LineMutants: several line-level edits at once (single edits are Mutants): the indentation of one to three
// lines is removed, reduced, increased or gets a blank; a line is repeated; two lines change places.
func LineMutants(r *rand.Rand, s []byte, n int) [][]byte {
	var out [][]byte
	for k := 0; k < n; k++ {
		lines := strings.Split(string(s), "\n")
		var cand []int
		for i, l := range lines {
			if strings.HasPrefix(l, "\t") {
				cand = append(cand, i)
			}
		}
		if len(cand) == 0 {
			return out
		}
		for e := 1 + r.Intn(3); e > 0; e-- {
			i := cand[r.Intn(len(cand))]
			l := lines[i]
			body := strings.TrimLeft(l, "\t")
			depth := len(l) - len(body)
			if depth == 0 {
				continue // already moved to column 0 by an earlier edit
			}
			switch r.Intn(7) {
			case 0, 1:
				lines[i] = body // a line of the body at column 0
			case 2:
				lines[i] = l[1:]
			case 3:
				lines[i] = "\t" + l
			case 4:
				lines[i] = strings.Repeat("\t", r.Intn(depth+1)) + " " + strings.Repeat("\t", depth-1) + body
			case 5:
				lines = append(lines[:i+1], append([]string{l}, lines[i+1:]...)...)
				for ci := range cand {
					if cand[ci] > i {
						cand[ci]++
					}
				}
			case 6:
				j := cand[r.Intn(len(cand))]
				lines[i], lines[j] = lines[j], lines[i]
			}
		}
		out = append(out, []byte(strings.Join(lines, "\n")))
	}
	return out
}

// IndentProfiles: every template of 1..maxLines one-element lines whose depths range over 0..3 (small-scope
// exhaustive: every way a body can be indented, well or badly).
func IndentProfiles(maxLines int) [][]byte {
	var out [][]byte
	tags := []string{"%p", "%a", "%b", "%c", "%d", "%e"}
	var rec func(depths []int)
	rec = func(depths []int) {
		if len(depths) > 0 {
			var sb strings.Builder
			sb.WriteString("package main\n\n@goht T() {\n")
			for i, d := range depths {
				sb.WriteString(strings.Repeat("\t", d) + tags[i] + "\n")
			}
			sb.WriteString("}\n")
			out = append(out, []byte(sb.String()))
		}
		if len(depths) == maxLines {
			return
		}
		for d := 0; d <= 3; d++ {
			rec(append(append([]int{}, depths...), d))
		}
	}
	rec(nil)
	return out
}


// CollisionRunes: runes whose code point, cut to its low byte, is a delimiter of the grammar
// (LF CR blank ( ) " # , : ? = { } [ ] . % /): text containing them must pass like any other non-ASCII text.
const CollisionRunes = "\u010a\u010d\u0120\u0128\u0129\u0122\u0123\u012c\u013a\u013f\u013d\u017b\u017d\u015b\u015d\u012e\u0125\u012f\u4e0a\u4e0d\U0001f60a\u200d"

// SmallScope: every string of up to n symbols of an alphabet of grammar delimiters, placed (a) inside an attribute
// list and (b) at the start of a template line — small-scope exhaustive inputs for the lexer states that decide on
// one or two characters of look-ahead.
func SmallScope(n int) [][]byte {
	var out [][]byte
	attr := []string{"a", ":", "#", "{", "}", "\"", "?", ",", " ", "\n", "@", "é", "`"}
	line := []string{"%", "#", ".", "=", "!", "-", "/", ":", "\\", "{", "[", "<", ">", "a", " ", "@", "é", "\n"}
	var rec func(alpha []string, k int, cur string, emit func(string))
	rec = func(alpha []string, k int, cur string, emit func(string)) {
		if cur != "" {
			emit(cur)
		}
		if k == 0 {
			return
		}
		for _, a := range alpha {
			rec(alpha, k-1, cur+a, emit)
		}
	}
	rec(attr, n, "", func(s string) {
		out = append(out, []byte("package x\n\n@goht T(x string) {\n\t%p{"+s+"} t\n}\n"))
	})
	rec(line, n, "", func(s string) {
		out = append(out, []byte("package x\n\n@goht T(x string) {\n\t%p\n\t\t"+s+"x\n}\n"))
	})
	return out
}
