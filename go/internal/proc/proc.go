// Package proc runs line-protocol child processes (the Lean driver, the real-code worker)
// with a per-request timeout; a child that hangs or dies is killed and restarted.
package proc

import (
	"bufio"
	"errors"
	"io"
	"os"
	"os/exec"
	"strings"
	"sync"
	"time"
)

var ErrTimeout = errors.New("timeout")
var ErrDied = errors.New("died")

type Proc struct {
	argv    []string
	env     []string
	cmd     *exec.Cmd
	stdin   io.WriteCloser
	rd      *bufio.Reader
	lines   chan string
	Restarts int
}

func New(argv []string, env ...string) *Proc { return &Proc{argv: argv, env: env} }

func (p *Proc) start() error {
	p.cmd = exec.Command(p.argv[0], p.argv[1:]...)
	p.cmd.Env = append(os.Environ(), p.env...)
	var err error
	if p.stdin, err = p.cmd.StdinPipe(); err != nil {
		return err
	}
	out, err := p.cmd.StdoutPipe()
	if err != nil {
		return err
	}
	p.cmd.Stderr = nil
	if err = p.cmd.Start(); err != nil {
		return err
	}
	rd := bufio.NewReaderSize(out, 1<<20)
	lines := make(chan string, 4)
	p.lines = lines
	go func() {
		for {
			s, err := rd.ReadString('\n')
			if err != nil {
				close(lines)
				return
			}
			lines <- strings.TrimRight(s, "\n")
		}
	}()
	return nil
}

func (p *Proc) Kill() {
	if p.cmd != nil {
		p.stdin.Close()
		p.cmd.Process.Kill()
		p.cmd.Wait()
		p.cmd = nil
	}
}

// Ask sends one line and waits for one reply line.
func (p *Proc) Ask(line string, timeout time.Duration) (string, error) {
	if p.cmd == nil {
		if err := p.start(); err != nil {
			return "", err
		}
	}
	if _, err := io.WriteString(p.stdin, line+"\n"); err != nil {
		p.Kill()
		p.Restarts++
		return "", ErrDied
	}
	select {
	case s, ok := <-p.lines:
		if !ok {
			p.Kill()
			p.Restarts++
			return "", ErrDied
		}
		return s, nil
	case <-time.After(timeout):
		p.Kill()
		p.Restarts++
		return "", ErrTimeout
	}
}

// Pool maps requests over n processes in parallel, preserving order.
type Pool struct {
	procs []*Proc
}

func NewPool(n int, argv []string, env ...string) *Pool {
	pl := &Pool{}
	for i := 0; i < n; i++ {
		pl.procs = append(pl.procs, New(argv, env...))
	}
	return pl
}

func (pl *Pool) Close() {
	for _, p := range pl.procs {
		p.Kill()
	}
}

type Reply struct {
	Line string
	Err  error
}

func (pl *Pool) Map(reqs []string, timeout time.Duration) []Reply {
	out := make([]Reply, len(reqs))
	var wg sync.WaitGroup
	next := make(chan int, len(reqs))
	for i := range reqs {
		next <- i
	}
	close(next)
	for _, p := range pl.procs {
		wg.Add(1)
		go func(p *Proc) {
			defer wg.Done()
			for i := range next {
				s, err := p.Ask(reqs[i], timeout)
				out[i] = Reply{s, err}
			}
		}(p)
	}
	wg.Wait()
	return out
}
