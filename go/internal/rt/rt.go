// Package rt builds and runs freshly generated template code with the real Go toolchain, and
// computes the environment table (fragment text → value) that parameterises the Lean model.
package rt

import (
	"strconv"
	"bytes"
	"encoding/hex"
	"encoding/json"
	"fmt"
	"go/format"
	"os"
	"os/exec"
	"path/filepath"
	"sort"
	"strings"
	"time"

	"github.com/stackus/goht/compiler"

	"verifharness/internal/gen"
)

type Obj struct{ ID, Class string }

// Env: the Go values passed to every generated template (they all share gen.Sig).
type Env struct {
	S0, S1 string
	B0, B1 bool
	N0     int
	Xs     []string
	M0     map[string]string
	MB     map[string]bool
	O0     Obj
	Fail   []string // names of failing helper functions (fe1, fe2 …): they return an error
}

// Plan: behaviour of the destination writer.
type Plan struct {
	FailAt  int // 1-based Write call that returns an error (0 = never)
	ShortAt int // 1-based Write call that writes one byte less and returns io.ErrShortWrite (0 = never)
}

type Job struct {
	Name  string
	Env   int
	Plan  Plan
	Flush bool // the destination also has a Flush() error method (as bufio.Writer, gzip.Writer have)
}

type Result struct {
	Name   string
	Env    int
	Err    string   // "" = nil
	Writes []string // hex of every Write call the destination received (bytes accepted)
	Panic  string
}

const runnerSrc = `package main

import (
	"bufio"
	"context"
	"encoding/hex"
	"encoding/json"
	"errors"
	"fmt"
	"io"
	"os"
	"strings"
	"sync"

	"github.com/stackus/goht"
)

type envT struct {
	S0, S1 string
	B0, B1 bool
	N0     int
	Xs     []string
	M0     map[string]string
	MB     map[string]bool
	O0     Obj
	Fail   []string
}
type planT struct{ FailAt, ShortAt int }
type jobT struct {
	Name  string
	Env   int
	Plan  planT
	Flush bool
}

// flushW: the recording writer behind a destination that can be flushed
type flushW struct{ *recWriter }

func (f flushW) Flush() error { return nil }

func sameStrMap(a, b map[string]string) bool {
	if len(a) != len(b) {
		return false
	}
	for k, v := range a {
		if w, ok := b[k]; !ok || w != v {
			return false
		}
	}
	return true
}

func sameBoolMap(a, b map[string]bool) bool {
	if len(a) != len(b) {
		return false
	}
	for k, v := range a {
		if w, ok := b[k]; !ok || w != v {
			return false
		}
	}
	return true
}
type inT struct {
	Envs       []envT
	Jobs       []jobT
	SharedSlot bool // the parent context of all renders comes from inside goht (it already carries goht's per-render value)
	Goroutines int
}
type resT struct {
	Name   string
	Env    int
	Err    string
	Writes []string
	Panic  string
}

var errWriter = errors.New("verif: writer failed")
var concurrent bool

type ctxKeyT int

// all renders share one parent context (as requests of one server would)
var parent = context.WithValue(context.Background(), ctxKeyT(1), "shared")
var failing = map[string]bool{}

type recWriter struct {
	plan   planT
	calls  int
	writes []string
}

func (w *recWriter) Write(p []byte) (int, error) {
	w.calls++
	if w.plan.FailAt == w.calls {
		w.writes = append(w.writes, "")
		return 0, errWriter
	}
	if w.plan.ShortAt == w.calls && len(p) > 0 {
		w.writes = append(w.writes, hex.EncodeToString(p[:len(p)-1]))
		return len(p) - 1, io.ErrShortWrite
	}
	w.writes = append(w.writes, hex.EncodeToString(p))
	return len(p), nil
}

func run(j jobT, e envT) (r resT) {
	r.Name, r.Env = j.Name, j.Env
	defer func() {
		if p := recover(); p != nil {
			r.Panic = fmt.Sprint(p)
		}
	}()
	if !concurrent {
		failing = map[string]bool{}
		for _, f := range e.Fail {
			failing[f] = true
		}
	}
	w := &recWriter{plan: j.Plan}
	// the slice argument is handed over as a prefix of a longer array: a render that writes into its
	// arguments (or into their spare capacity) would change what another render sharing them sees
	const spare = "\x00verif-spare"
	arena := make([]string, len(e.Xs)+4)
	copy(arena, e.Xs)
	for i := len(e.Xs); i < len(arena); i++ {
		arena[i] = spare
	}
	before := append([]string{}, e.Xs...)
	if e.Xs != nil {
		e.Xs = arena[:len(e.Xs):len(arena)]
	}
	// the map arguments are the caller's too
	m0Before := map[string]string{}
	for k, v := range e.M0 {
		m0Before[k] = v
	}
	mbBefore := map[string]bool{}
	for k, v := range e.MB {
		mbBefore[k] = v
	}
	t := templates[j.Name](e)
	var dst io.Writer = w
	if j.Flush {
		dst = flushW{w}
	}
	err := t.Render(parent, dst)
	if !concurrent && (!sameStrMap(m0Before, e.M0) || !sameBoolMap(mbBefore, e.MB)) {
		r.Panic = fmt.Sprintf("argument-mutated: the render changed a map argument of its caller (before %v %v, after %v %v)", m0Before, mbBefore, e.M0, e.MB)
	}
	for i, v := range arena {
		if (i < len(before) && v != before[i]) || (i >= len(before) && v != spare) {
			r.Panic = fmt.Sprintf("argument-mutated: the render wrote %q into element %d of its []string argument (length %d)", v, i, len(before))
		}
	}
	if err != nil {
		r.Err = err.Error()
		if errors.Is(err, errWriter) {
			r.Err = "writer:" + r.Err
		}
		if errors.Is(err, io.ErrShortWrite) {
			r.Err = "short:" + r.Err
		}
		if strings.Contains(err.Error(), errExpr.Error()) && !errors.Is(err, errExpr) {
			// the text of the cause is there but the error does not wrap it (errors.Is / errors.As fail)
			r.Err = "unwrapped:" + r.Err
		}
	}
	r.Writes = w.writes
	return
}

var _ goht.Template

func main() {
	var in inT
	if err := json.NewDecoder(bufio.NewReaderSize(os.Stdin, 1<<20)).Decode(&in); err != nil {
		panic(err)
	}
	out := bufio.NewWriter(os.Stdout)
	enc := json.NewEncoder(out)
	if in.SharedSlot {
		// as a hand-written component does that fans its parts out to goroutines with the context it was given
		parent, _ = goht.PopChildren(parent)
	}
	if in.Goroutines > 1 {
		concurrent = true
		res := make([]resT, len(in.Jobs))
		var wg sync.WaitGroup
		next := make(chan int, len(in.Jobs))
		for i := range in.Jobs {
			next <- i
		}
		close(next)
		for g := 0; g < in.Goroutines; g++ {
			wg.Add(1)
			go func() {
				defer wg.Done()
				for i := range next {
					res[i] = run(in.Jobs[i], in.Envs[in.Jobs[i].Env])
				}
			}()
		}
		wg.Wait()
		for _, r := range res {
			enc.Encode(r)
		}
	} else {
		for _, j := range in.Jobs {
			enc.Encode(run(j, in.Envs[j.Env]))
		}
	}
	out.Flush()
}
`

// Chrome that every batch file gets in addition to gen.Chrome: failing helpers.
const FailChrome = `
var errExpr = errors.New("verif: expression failed")

func fe1(s string) (string, error) {
	if failing["fe1"] {
		return "", errExpr
	}
	return s, nil
}

// fe2 reports its failure in the SECOND of two error results, next to a value (all results are spread into
// goht.CaptureErrors by the generated code)
func fe2(s string) (string, error, error) {
	if failing["fe2"] {
		return s, nil, errExpr
	}
	return s, nil, nil
}
`

// ObjPrefix: the prefix argument of an object reference — a string literal, or a string expression of the environment
func ObjPrefix(arg string, e Env) string {
	arg = strings.TrimSpace(arg)
	if strings.HasPrefix(arg, `"`) {
		return strings.Trim(arg, `"`)
	}
	v, _ := evalStr(arg, e)
	return v
}

// Batch is a built program for one generated file.
type Batch struct {
	Dir     string
	Src     string
	GoCode  []byte
	Names   []string
	BuildMs int64
}

func (b *Batch) Close() {
	if b.Dir != "" {
		os.RemoveAll(b.Dir)
	}
}

// Build compiles src with the real compiler, gofmt-s it and builds a runner around it.
// stage tells how far it got: parse | generate | gofmt | gobuild | ok
func Build(src string, names []string, repo string) (b *Batch, stage string, detail string) {
	return BuildOpt(src, names, repo, false)
}

// BuildOpt: race = build the runner with the race detector.
func BuildOpt(src string, names []string, repo string, race bool) (b *Batch, stage string, detail string) {
	t, err := compiler.ParseString(src)
	if err != nil {
		return nil, "parse", err.Error()
	}
	var buf bytes.Buffer
	if err := t.Generate(&buf); err != nil {
		return nil, "generate", err.Error()
	}
	code, err := format.Source(buf.Bytes())
	if err != nil {
		return &Batch{Src: src, GoCode: buf.Bytes()}, "gofmt", err.Error()
	}
	dir, err := os.MkdirTemp("", "verif-rt-")
	if err != nil {
		return nil, "tmp", err.Error()
	}
	b = &Batch{Dir: dir, Src: src, GoCode: code, Names: names}
	os.WriteFile(filepath.Join(dir, "t.goht.go"), code, 0644)
	os.WriteFile(filepath.Join(dir, "go.mod"), []byte("module b\ngo 1.21.4\nrequire github.com/stackus/goht v0.0.0\nreplace github.com/stackus/goht => "+repo+"\n"), 0644)
	sum, _ := os.ReadFile(filepath.Join(repo, "go.sum"))
	os.WriteFile(filepath.Join(dir, "go.sum"), sum, 0644)
	var mb strings.Builder
	mb.WriteString(runnerSrc)
	mb.WriteString("\nvar templates = map[string]func(e envT) goht.Template{\n")
	for _, n := range names {
		fmt.Fprintf(&mb, "\t%q: func(e envT) goht.Template { return %s(e.S0, e.S1, e.B0, e.B1, e.N0, e.Xs, e.M0, e.MB, e.O0) },\n", n, n)
	}
	mb.WriteString("}\n")
	os.WriteFile(filepath.Join(dir, "main.go"), []byte(mb.String()), 0644)
	t0 := time.Now()
	args := []string{"build", "-o", "b", "."}
	cgo := "CGO_ENABLED=0"
	if race {
		args = []string{"build", "-race", "-o", "b", "."}
		cgo = "CGO_ENABLED=1"
	}
	cmd := exec.Command("go", args...)
	cmd.Dir = dir
	cmd.Env = append(os.Environ(), "GOFLAGS=-mod=mod", "GOPROXY=off", "GOSUMDB=off", "GOTOOLCHAIN=local", cgo)
	if o, err := cmd.CombinedOutput(); err != nil {
		return b, "gobuild", string(o)
	}
	b.BuildMs = time.Since(t0).Milliseconds()
	return b, "ok", ""
}

// Run executes the jobs; a job that kills the process is reported through the error.
func (b *Batch) Run(envs []Env, jobs []Job, timeout time.Duration) ([]Result, error) {
	r, _, err := b.RunConc(envs, jobs, timeout, 1)
	return r, err
}

// RunConc runs the jobs from g goroutines sharing one parent context; returns the stderr too (race reports).
func (b *Batch) RunConc(envs []Env, jobs []Job, timeout time.Duration, g int) ([]Result, string, error) {
	return b.RunConcOpt(envs, jobs, timeout, g, false)
}

// RunConcOpt: sharedSlot = the renders' parent context already carries goht's per-render value.
func (b *Batch) RunConcOpt(envs []Env, jobs []Job, timeout time.Duration, g int, sharedSlot bool) ([]Result, string, error) {
	in, _ := json.Marshal(map[string]any{"Envs": envs, "Jobs": jobs, "Goroutines": g, "SharedSlot": sharedSlot})
	cmd := exec.Command(filepath.Join(b.Dir, "b"))
	cmd.Stdin = bytes.NewReader(in)
	var out, errb bytes.Buffer
	cmd.Stdout = &out
	cmd.Stderr = &errb
	if err := cmd.Start(); err != nil {
		return nil, "", err
	}
	done := make(chan error, 1)
	go func() { done <- cmd.Wait() }()
	var werr error
	select {
	case werr = <-done:
	case <-time.After(timeout):
		cmd.Process.Kill()
		werr = fmt.Errorf("timeout")
	}
	var res []Result
	dec := json.NewDecoder(&out)
	for dec.More() {
		var r Result
		if err := dec.Decode(&r); err != nil {
			break
		}
		res = append(res, r)
	}
	if werr != nil {
		return res, errb.String(), fmt.Errorf("%v: %s", werr, clip(errb.String(), 600))
	}
	return res, errb.String(), nil
}

func clip(s string, n int) string {
	if len(s) > n {
		return s[:n]
	}
	return s
}

func hxu(s string) string { return "_" + hex.EncodeToString([]byte(s)) }

// evalStr: the meaning of the generator's string-typed fragment vocabulary.
func evalStr(frag string, e Env) (string, bool) {
	switch frag {
	case "s0":
		return e.S0, true
	case "s1":
		return e.S1, true
	case `"lit"`:
		return "lit", true
	case "s0 + s1":
		return e.S0 + e.S1, true
	case `f2("é", s0)`:
		return "é" + e.S0, true
	case "f2(\"\U00010000\", s0)":
		return "\U00010000" + e.S0, true
	case "f2(\"\uffff\", s0)":
		return "\uffff" + e.S0, true
	case `f2("50%off now", s0)`:
		return "50%off now" + e.S0, true
	case `f2(s1, d3[n0%3 + 1])`:
		m := e.N0 % 3
		return e.S1 + []string{"zero", "one", "two", "three"}[m+1], true
	case "f2(s0,\n\t\t\t\ts1)":
		return e.S0 + e.S1, true
	case "n0":
		return fmt.Sprint(e.N0), true
	case "d":
		return "7", true
	case "v":
		return "vv", true
	}
	for _, n := range gen.StmtVarNames {
		if strings.HasPrefix(frag, n) && strings.Trim(frag[len(n):], "0123456789") == "" && len(frag) > len(n) {
			return e.S1 + "!", true
		}
	}
	if len(frag) >= 2 && strings.HasPrefix(frag, `"`) && strings.HasSuffix(frag, `"`) && !strings.Contains(frag, `\`) {
		return frag[1 : len(frag)-1], true // a Go string literal without escapes
	}
	if strings.HasPrefix(frag, "fe1(") || strings.HasPrefix(frag, "fe2(") {
		inner := frag[4 : len(frag)-1]
		return evalStr(inner, e)
	}
	return "", false
}

func evalBool(frag string, e Env) (bool, bool) {
	switch frag = strings.TrimSpace(frag); frag {
	case "b0":
		return e.B0, true
	case "b1":
		return e.B1, true
	case "!b0":
		return !e.B0, true
	case "!b1":
		return !e.B1, true
	case "b0 && b1":
		return e.B0 && e.B1, true
	case "n0 > 1":
		return e.N0 > 1, true
	}
	return false, false
}

func valOf(frag string, e Env) string {
	frag = strings.TrimSpace(frag)
	switch frag {
	case "xs":
		var it []string
		for _, x := range e.Xs {
			it = append(it, hxu(x))
		}
		if e.Xs == nil {
			return "LN:"
		}
		return "L:" + strings.Join(it, ",")
	case "mb":
		keys := make([]string, 0, len(e.MB))
		for k := range e.MB {
			keys = append(keys, k)
		}
		sort.Sort(sort.Reverse(sort.StringSlice(keys))) // any order: the model must not depend on it
		var it []string
		for _, k := range keys {
			b := "0"
			if e.MB[k] {
				b = "1"
			}
			it = append(it, hxu(k)+"="+b)
		}
		return "B:" + strings.Join(it, ",")
	case "m0":
		keys := make([]string, 0, len(e.M0))
		for k := range e.M0 {
			keys = append(keys, k)
		}
		sort.Sort(sort.Reverse(sort.StringSlice(keys)))
		var it []string
		for _, k := range keys {
			it = append(it, hxu(k)+"="+hxu(e.M0[k]))
		}
		return "M:" + strings.Join(it, ",")
	case "n0":
		return "X:int"
	}
	if strings.HasPrefix(frag, `"`) {
		return "S:" + hxu(strings.Trim(frag, `"`))
	}
	if v, ok := evalStr(frag, e); ok {
		return "S:" + hxu(v)
	}
	return "X:unknown"
}

// Table renders the environment as the driver's table fields for the fragments printed in p.
func Table(p *gen.Printer, src string, e Env) []string {
	seen := map[string]bool{}
	var out []string
	add := func(s string) {
		if !seen[s] {
			seen[s] = true
			out = append(out, s)
		}
	}
	failing := map[string]bool{}
	for _, f := range e.Fail {
		failing[f] = true
	}
	strFrag := func(text string) {
		key := text
		verb := ""
		if strings.HasPrefix(text, "%") {
			if i := strings.Index(text, " "); i > 0 {
				verb, text = text[:i], text[i+1:]
			}
		}
		if text == "x" {
			return // bound by the loop
		}
		if (strings.HasPrefix(text, "fe1(") && failing["fe1"]) || (strings.HasPrefix(text, "fe2(") && failing["fe2"]) {
			add("E:" + hxu(key))
			return
		}
		v, ok := evalStr(text, e)
		if !ok {
			return
		}
		if verb != "" {
			var arg any = v
			if text == "n0" {
				arg = e.N0
			}
			if text == "d" {
				arg = 7
			}
			v = fmt.Sprintf(verb, arg)
		}
		add("S:" + hxu(key) + "=" + hxu(v))
	}
	for _, fr := range p.Frags {
		switch fr.Kind {
		case "script", "interp":
			strFrag(fr.Text)
		case "attr":
			if b, ok := evalBool(fr.Text, e); ok {
				bb := "0"
				if b {
					bb = "1"
				}
				add("B:" + hxu(strings.TrimSpace(fr.Text)) + "=" + bb) // (the condition is looked up without the blanks around it)
			} else {
				strFrag(fr.Text)
			}
		case "silent":
			h := strings.TrimSpace(strings.TrimSuffix(strings.TrimSpace(fr.Text), "{"))
			switch {
			case strings.HasPrefix(h, "if "):
				if b, ok := evalBool(h[3:], e); ok {
					add("B:" + hxu(h[3:]) + "=" + map[bool]string{true: "1", false: "0"}[b])
				}
			case strings.HasPrefix(h, "else if "):
				if b, ok := evalBool(h[8:], e); ok {
					add("B:" + hxu(h[8:]) + "=" + map[bool]string{true: "1", false: "0"}[b])
				}
			case strings.HasPrefix(h, "switch n0"):
				// the tag's value, as the text its `case` literals are compared with
				add("S:" + hxu(h) + "=" + hxu(strconv.Itoa(e.N0)))
			case strings.HasPrefix(h, "for "):
				var it []string
				for _, x := range e.Xs {
					it = append(it, hxu(x))
				}
				add("L:" + hxu(h) + "=" + hxu("x") + "=" + strings.Join(it, "|"))
			}
		case "objref":
			pf := "-"
			if i := strings.Index(fr.Text, ","); i >= 0 {
				pf = hxu(ObjPrefix(fr.Text[i+1:], e))
			}
			add("O:" + hxu(fr.Text) + "=both," + hxu(e.O0.ID) + "," + hxu(e.O0.Class) + "," + pf)
		}
	}
	// verb-formatted fragments: the lexer token is `%verb frag`; printed as two pieces by the generator
	for _, kv := range verbKeys(src) {
		strFrag(kv)
	}
	// class lists and @attributes: keyed by the whole `#{…}` content
	for _, k := range classKeys(src, "class:#{") {
		var vals []string
		for _, a := range strings.Split(k, ", ") {
			vals = append(vals, valOf(a, e))
		}
		add("C:" + hxu(k) + "=" + strings.Join(vals, ";"))
	}
	for _, k := range classKeys(src, "@attributes: #{") {
		var vals []string
		for _, a := range strings.Split(k, ", ") {
			vals = append(vals, valOf(a, e))
		}
		add("A:" + hxu(k) + "=" + strings.Join(vals, ";"))
	}
	return out
}

func classKeys(src, open string) []string {
	var out []string
	rest := src
	for {
		i := strings.Index(rest, open)
		if i < 0 {
			return out
		}
		rest = rest[i+len(open):]
		j := strings.Index(rest, "}")
		if j < 0 {
			return out
		}
		out = append(out, rest[:j])
		rest = rest[j:]
	}
}

// verbKeys finds `%verb frag` tokens: after `#{`, after `= ` / `!= ` scripts.
func verbKeys(src string) []string {
	var out []string
	for _, line := range strings.Split(src, "\n") {
		rest := line
		for {
			i := strings.Index(rest, "#{%")
			if i < 0 {
				break
			}
			rest = rest[i+2:]
			j := strings.Index(rest, "}")
			if j < 0 {
				break
			}
			out = append(out, rest[:j])
			rest = rest[j:]
		}
		if i := strings.Index(line, "= %"); i >= 0 {
			out = append(out, strings.TrimSpace(line[i+2:]))
		}
	}
	return out
}
