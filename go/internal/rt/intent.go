package rt

import (
	"regexp"
	"fmt"
	"html"
	"sort"
	"strings"

	"verifharness/internal/gen"
)

// Intent renders what the generator MEANT, straight from its own AST and the documented rules
// (README + Haml reference), independently of goht and of the Lean model: no sentinels, no Go
// code generation. It is the oracle for C01/C02/C04/C05/C14.

type piece struct {
	lit       string
	trimLeft  bool // remove all white space immediately before this point
	trimRight bool // remove all white space immediately after this point
}

type intent struct {
	f      *gen.File
	e      Env
	out    []piece
	Err    string // "expr" | "helper" when a site fails
	Unsure string // set when the documentation does not determine the output (case is skipped)
	loopX  []string
	own    []*closure
	depth  int
	noAttrsSep bool // reproduce the recorded finding: the @attributes list is written without its separating blank
}

type closure struct {
	kids  []*gen.Node
	own   *closure
	loopX []string
}

var voidTags = map[string]bool{"area": true, "base": true, "basefont": true, "br": true, "col": true, "embed": true, "frame": true, "hr": true,
	"img": true, "input": true, "isindex": true, "keygen": true, "link": true, "menuitem": true, "meta": true, "param": true, "source": true, "track": true, "wbr": true}

func (it *intent) w(s string) { it.out = append(it.out, piece{lit: s}) }

func (it *intent) str(frag string) (string, bool) {
	if frag == "x" {
		if len(it.loopX) == 0 {
			return "", false
		}
		return it.loopX[len(it.loopX)-1], true
	}
	for _, f := range it.e.Fail {
		if strings.HasPrefix(frag, f+"(") {
			it.Err = "expr"
			return "", false
		}
	}
	return evalStr(frag, it.e)
}

func (it *intent) value(verb, frag string) (string, bool) {
	v, ok := it.str(frag)
	if !ok {
		return "", false
	}
	if verb != "" {
		var arg any = v
		switch frag {
		case "n0":
			arg = it.e.N0
		case "d":
			arg = 7
		}
		v = fmt.Sprintf(verb, arg)
	}
	return v, true
}

func (it *intent) parts(ps []gen.Part, escape bool) bool {
	for _, p := range ps {
		switch {
		case p.EscBackslash:
			it.w(`\`)
		case p.EscHash:
			it.w("#{" + p.Static + "}")
		case p.Expr != "":
			v, ok := it.value(p.Verb, p.Expr)
			if !ok {
				return false
			}
			if escape {
				v = html.EscapeString(v)
			}
			it.w(v)
		default:
			it.w(p.Static) // static text is reproduced as written
		}
	}
	return true
}

func classArgs(exprs []string, e Env) ([]string, bool) {
	var items []string
	for _, ex := range exprs {
		ex = strings.TrimSpace(ex)
		switch {
		case ex == "xs":
			items = append(items, e.Xs...)
		case ex == "mb":
			var ks []string
			for k, v := range e.MB {
				if v && k != "" {
					ks = append(ks, k)
				}
			}
			sort.Strings(ks)
			items = append(items, ks...)
		case ex == "n0" || ex == "m0":
			return nil, false // unsupported type: the helper must fail
		case strings.HasPrefix(ex, `"`):
			if s := strings.Trim(ex, `"`); s != "" {
				items = append(items, s)
			}
		default:
			if v, ok := evalStr(ex, e); ok {
				if v != "" {
					items = append(items, v)
				}
			} else {
				return nil, false
			}
		}
	}
	return items, true
}

func (it *intent) elem(n *gen.Node) bool {
	tag := n.Tag
	if tag == "" {
		tag = "div"
	}
	if n.NukeOuter {
		it.out = append(it.out, piece{trimLeft: true})
	}
	it.w("<" + tag)
	// id: object reference id and #id
	if n.ObjRef != "" {
		parts := []string{}
		if i := strings.Index(n.ObjRef, ","); i >= 0 {
			parts = append(parts, ObjPrefix(n.ObjRef[i+1:], it.e))
		}
		parts = append(parts, it.e.O0.Class, it.e.O0.ID)
		it.w(` id="` + html.EscapeString(strings.Join(parts, "_")) + `"`)
	}
	if n.ID != "" {
		it.w(` id="` + html.EscapeString(n.ID) + `"`)
	}
	// classes: .c tokens, object class, class attribute
	var classes []string
	classes = append(classes, n.Classes...)
	dynamic := n.ObjRef != "" || len(n.ClassExprs) > 0
	if n.ObjRef != "" {
		parts := []string{}
		if i := strings.Index(n.ObjRef, ","); i >= 0 {
			parts = append(parts, ObjPrefix(n.ObjRef[i+1:], it.e))
		}
		parts = append(parts, it.e.O0.Class)
		if c := strings.Join(parts, "_"); c != "" {
			classes = append(classes, c)
		}
	}
	if n.ClassAttr != "" {
		classes = append(classes, n.ClassAttr)
	}
	if len(n.ClassExprs) > 0 {
		items, ok := classArgs(n.ClassExprs, it.e)
		if !ok {
			it.Err = "helper"
			return false
		}
		classes = append(classes, items...)
	}
	if len(classes) > 0 || dynamic {
		it.w(` class="` + html.EscapeString(strings.Join(classes, " ")) + `"`)
	}
	for _, a := range n.Attrs {
		switch a.Kind {
		case gen.AStatic:
			if a.Value == "" {
				it.w(" " + a.Name)
			} else {
				it.w(" " + a.Name + `="` + html.EscapeString(a.Value) + `"`)
			}
		case gen.ADynamic:
			v, ok := it.value(a.Verb, a.Expr)
			if !ok {
				return false
			}
			it.w(" " + a.Name + `="` + html.EscapeString(v) + `"`)
		case gen.ABool:
			it.w(" " + a.Name)
		case gen.ACond:
			b, ok := evalBool(a.Expr, it.e)
			if !ok {
				return false
			}
			if b {
				it.w(" " + a.Name)
			}
		}
	}
	if n.AttrsCmd != "" {
		var items []string
		for _, ex := range strings.Split(n.AttrsCmd, ", ") {
			switch ex {
			case "m0":
				for k, v := range it.e.M0 {
					if v != "" {
						items = append(items, html.EscapeString(k)+`="`+html.EscapeString(v)+`"`)
					}
				}
			case "mb":
				for k, v := range it.e.MB {
					if v {
						items = append(items, html.EscapeString(k))
					}
				}
			default:
				it.Err = "helper" // unsupported value: the helper must report an error
				return false
			}
		}
		sort.Strings(items)
		for k, i := range items {
			if k == 0 && it.noAttrsSep {
				it.w(i)
				continue
			}
			it.w(" " + i)
		}
	}
	it.w(">")
	if n.Void || voidTags[tag] {
		return true
	}
	if n.NukeInner {
		it.out = append(it.out, piece{trimRight: true})
	}
	if n.Inline != nil {
		in := n.Inline
		if in.Kind == gen.KScript {
			v, ok := it.value(in.Verb, in.Expr)
			if !ok {
				return false
			}
			if !in.Unescaped {
				v = html.EscapeString(v)
			}
			it.w(v)
		} else if !it.parts(in.Parts, !in.Unescaped) {
			return false
		}
	} else if len(n.Kids) > 0 {
		it.w("\n")
		if !it.block(n.Kids) {
			return false
		}
	}
	if n.NukeInner {
		it.out = append(it.out, piece{trimLeft: true})
	}
	it.w("</" + tag + ">")
	if n.NukeOuter {
		it.out = append(it.out, piece{trimRight: true})
	} else {
		it.w("\n")
	}
	return true
}

func (it *intent) block(ns []*gen.Node) bool {
	for _, n := range ns {
		if !it.node(n) {
			return false
		}
	}
	return true
}

func (it *intent) node(n *gen.Node) bool {
	switch n.Kind {
	case gen.KDoctype:
		it.w("<!DOCTYPE html>\n")
	case gen.KElem:
		return it.elem(n)
	case gen.KText:
		if !it.parts(n.Parts, !n.Unescaped) {
			return false
		}
		it.w("\n")
	case gen.KScript:
		v, ok := it.value(n.Verb, n.Expr)
		if !ok {
			return false
		}
		if !n.Unescaped {
			v = html.EscapeString(v)
		}
		it.w(v + "\n")
	case gen.KIf:
		for _, b := range n.Chain {
			fire := true
			if b.Cond != "" {
				v, ok := evalBool(b.Cond, it.e)
				if !ok {
					return false
				}
				fire = v
			}
			if fire {
				return it.block(b.Kids)
			}
		}
	case gen.KSwitch:
		var def *gen.Branch
		for k := range n.Chain[1:] {
			b := &n.Chain[1+k]
			if b.Default {
				def = b
				continue
			}
			for _, v := range b.CaseVals {
				if v == it.e.N0 {
					return it.block(b.Kids)
				}
			}
		}
		if def != nil {
			return it.block(def.Kids)
		}
	case gen.KFor:
		for _, x := range it.e.Xs {
			it.loopX = append(it.loopX, x)
			ok := it.block(n.Chain[0].Kids)
			it.loopX = it.loopX[:len(it.loopX)-1]
			if !ok {
				return false
			}
		}
	case gen.KBlank:
		it.w("\n") // reading chosen: an indented blank line is an empty text line
	case gen.KStmt, gen.KRubyComment:
		// no output
	case gen.KComment:
		if n.Code != "" {
			it.w("<!--" + html.EscapeString(n.Code) + "-->\n")
		} else {
			it.w("<!--\n")
			if !it.block(n.Kids) {
				return false
			}
			it.w("-->\n")
		}
	case gen.KFilter:
		switch n.Filter {
		case "javascript":
			it.w("<script>\n")
		case "css":
			it.w("<style>\n")
		}
		for li, l := range n.Lines {
			if len(l) == 0 {
				continue // written together with the line before it, see below
			}
			raw := n.Filter == "plain" || n.Filter == "preserve"
			for _, p := range l {
				switch {
				case p.Expr != "":
					v, ok := it.value(p.Verb, p.Expr)
					if !ok {
						return false
					}
					if !raw {
						v = html.EscapeString(v)
					}
					it.w(v)
				case n.Filter == "escaped":
					it.w(html.EscapeString(p.Static))
				default:
					it.w(p.Static)
				}
			}
			// completely empty lines that follow belong to this line's text: they stay line breaks, and only the
			// break that ends the text is what :preserve turns into an entity
			// in a file with CRLF line ends the carriage return is the last byte of the body line
			cr := ""
			if it.f.CRLF {
				cr = "\r"
			}
			for k := li + 1; k < len(n.Lines) && len(n.Lines[k]) == 0; k++ {
				it.w(cr + "\n")
			}
			if n.Filter == "preserve" {
				it.w(cr + "&#x000A;")
			} else {
				it.w(cr + "\n")
			}
		}
		switch n.Filter {
		case "javascript":
			it.w("</script>")
		case "css":
			it.w("</style>")
		case "preserve":
			it.w("\n")
		}
	case gen.KRender:
		name := n.Callee[:strings.Index(n.Callee, "(")]
		var callee *gen.Template
		for _, t := range it.f.Templates {
			if t.Name == name {
				callee = t
			}
		}
		if callee == nil {
			return false
		}
		var clo *closure
		if len(n.Kids) > 0 {
			var own *closure
			if len(it.own) > 0 {
				own = it.own[len(it.own)-1]
			}
			clo = &closure{kids: n.Kids, own: own, loopX: append([]string{}, it.loopX...)}
		}
		it.own = append(it.own, clo)
		savedX := it.loopX
		it.loopX = nil
		ok := it.block(callee.Body)
		it.loopX = savedX
		it.own = it.own[:len(it.own)-1]
		return ok
	case gen.KChildren:
		var clo *closure
		if len(it.own) > 0 {
			clo = it.own[len(it.own)-1]
		}
		if clo == nil {
			return true
		}
		it.own = append(it.own, clo.own)
		savedX := it.loopX
		it.loopX = clo.loopX
		ok := it.block(clo.kids)
		it.loopX = savedX
		it.own = it.own[:len(it.own)-1]
		return ok
	}
	return true
}

func isSpace(b byte) bool { return b == ' ' || b == '\t' || b == '\n' || b == '\f' || b == '\r' }

func resolve(ps []piece) string {
	var sb []byte
	skip := false
	for _, p := range ps {
		if p.trimLeft {
			for len(sb) > 0 && isSpace(sb[len(sb)-1]) {
				sb = sb[:len(sb)-1]
			}
			continue
		}
		if p.trimRight {
			skip = true
			continue
		}
		s := p.lit
		if skip {
			i := 0
			for i < len(s) && isSpace(s[i]) {
				i++
			}
			s = s[i:]
			if s == "" {
				continue
			}
			skip = false
		}
		sb = append(sb, s...)
	}
	return string(sb)
}

// Intent returns (bytes, err class, ok). ok=false: the generator cannot tell (fragment outside its vocabulary).
// IntentKnownAttrsSep: what the template denotes EXCEPT for the recorded finding attributes-separator (the list
// of an @attributes command is written without the blank that separates it from what precedes it). A render
// that differs from Intent but equals this is that finding and nothing else.
func IntentKnownAttrsSep(f *gen.File, name string, e Env) (string, string, bool) {
	return intentOpt(f, name, e, true)
}

func Intent(f *gen.File, name string, e Env) (string, string, bool) {
	return intentOpt(f, name, e, false)
}

var nukeRe = regexp.MustCompile(`~☢<\s*|\s*>☢~`)

// IntentKnownSentinel: what the template denotes EXCEPT for the recorded finding sentinel-in-content (white
// space removal is a textual pass over the finished buffer, so content that contains the marker sequences is
// eaten with them): the document with its markers written out, then the eraser's own regular expression.
// attrsSep adds the other recorded finding. A render that equals this is explained by the recorded findings alone.
func IntentKnownSentinel(f *gen.File, name string, e Env, attrsSep bool) (string, string, bool) {
	it := &intent{f: f, e: e, noAttrsSep: attrsSep}
	for _, t := range f.Templates {
		if t.Name == name {
			it.own = []*closure{nil}
			ok := it.block(t.Body)
			if it.Err != "" {
				return "", it.Err, true
			}
			if !ok {
				return "", "", false
			}
			var sb strings.Builder
			for _, p := range it.out {
				switch {
				case p.trimLeft:
					sb.WriteString(">☢~")
				case p.trimRight:
					sb.WriteString("~☢<")
				default:
					sb.WriteString(p.lit)
				}
			}
			return nukeRe.ReplaceAllString(sb.String(), ""), "", true
		}
	}
	return "", "", false
}

func intentOpt(f *gen.File, name string, e Env, noAttrsSep bool) (string, string, bool) {
	it := &intent{f: f, e: e, noAttrsSep: noAttrsSep}
	for _, t := range f.Templates {
		if t.Name == name {
			it.own = []*closure{nil}
			ok := it.block(t.Body)
			if it.Err != "" {
				return "", it.Err, true
			}
			if !ok {
				return "", "", false
			}
			return resolve(it.out), "", true
		}
	}
	return "", "", false
}
