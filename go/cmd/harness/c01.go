package main

import (
	"fmt"
	"sort"
	"strings"

	"golang.org/x/net/html"

	"verifharness/internal/gen"
	"verifharness/internal/rt"
)

func init() {
	props["C01"] = c01
	props["C14"] = c14
	props["C05"] = c05
}

// htmlTokens: serialiser-independent view of a document (x/net/html tokenizer, no tree-builder
// fix-ups): tags with sorted attribute sets, text with white space collapsed, comments.
func htmlTokens(doc string) []string {
	z := html.NewTokenizer(strings.NewReader(doc))
	var out []string
	text := ""
	flush := func() {
		t := strings.Join(strings.Fields(text), " ")
		if t != "" {
			out = append(out, "T:"+t)
		}
		text = ""
	}
	for {
		tt := z.Next()
		if tt == html.ErrorToken {
			flush()
			return out
		}
		tok := z.Token()
		switch tt {
		case html.TextToken:
			text += tok.Data
		case html.StartTagToken, html.SelfClosingTagToken:
			flush()
			var as []string
			for _, a := range tok.Attr {
				as = append(as, a.Key+"="+a.Val)
			}
			sort.Strings(as)
			out = append(out, "S:"+tok.Data+"["+strings.Join(as, "|")+"]")
		case html.EndTagToken:
			flush()
			out = append(out, "E:"+tok.Data)
		case html.CommentToken:
			flush()
			out = append(out, "C:"+strings.Join(strings.Fields(tok.Data), " "))
		case html.DoctypeToken:
			flush()
			out = append(out, "D:"+tok.Data)
		}
	}
}

func envHasSentinel(e rt.Env) bool {
	has := func(s string) bool { return strings.Contains(s, "☢") }
	if has(e.S0) || has(e.S1) {
		return true
	}
	for _, x := range e.Xs {
		if has(x) {
			return true
		}
	}
	for k, v := range e.M0 {
		if has(k) || has(v) {
			return true
		}
	}
	return false
}

type verdict struct {
	kind string // "" ok | "structure" | "whitespace" | "error"
	want string
	got  string
}

// judge compares the real observation of one job with the generator's intent.
func judge(rc *RenderCase, ji int) (verdict, bool) {
	j := rc.Jobs[ji]
	if ji >= len(rc.Real) || j.Plan != (rt.Plan{}) {
		return verdict{}, false
	}
	r := rc.Real[ji]
	want, werr, ok := rt.Intent(rc.File, j.Name, rc.Envs[j.Env])
	if !ok {
		return verdict{}, false
	}
	if r.Panic != "" {
		return verdict{"error", want, "panic: " + r.Panic}, true
	}
	if werr != "" || r.Err != "" {
		cr := strings.Fields(canonReal(r))
		got := ""
		if len(cr) >= 3 && cr[0] == "ERR" {
			got = cr[2]
		}
		if werr != got {
			return verdict{"error", "error class " + werr, "error " + r.Err}, true
		}
		return verdict{}, true
	}
	got := ""
	for _, w := range r.Writes {
		got += string(unhx(w))
	}
	if got == want {
		return verdict{}, true
	}
	if strings.Join(htmlTokens(got), "\x00") == strings.Join(htmlTokens(want), "\x00") {
		return verdict{"whitespace", want, got}, true
	}
	return verdict{"structure", want, got}, true
}

func templateHas(rc *RenderCase, name, feature string) bool {
	return strings.Contains(templateSrc(rc.Src, name), feature)
}

// closure of templates reachable from name through @render
func reachableSrc(rc *RenderCase, name string) string {
	seen := map[string]bool{}
	var sb strings.Builder
	var walk func(n string)
	walk = func(n string) {
		if seen[n] {
			return
		}
		seen[n] = true
		src := templateSrc(rc.Src, n)
		sb.WriteString(src)
		for _, t := range rc.File.Templates {
			if strings.Contains(src, "@render "+t.Name+"(") || strings.Contains(src, "@render\t"+t.Name+"(") {
				walk(t.Name)
			}
		}
	}
	walk(name)
	return sb.String()
}

// classify names the known trigger classes of a failing render (part of the signature).
func classify(rc *RenderCase, ji int) string {
	j := rc.Jobs[ji]
	src := reachableSrc(rc, j.Name)
	switch {
	case envHasSentinel(rc.Envs[j.Env]) || strings.Contains(src, "☢"):
		// the recorded finding and nothing else: the output is what the eraser's regular expression leaves of the
		// document written with its markers (with or without the other recorded finding)
		if ji < len(rc.Real) && rc.Real[ji].Err == "" && j.Plan == (rt.Plan{}) {
			got := realBytes(rc.Real[ji])
			for _, sep := range []bool{false, true} {
				if wk, werr, ok := rt.IntentKnownSentinel(rc.File, j.Name, rc.Envs[j.Env], sep); ok && werr == "" && wk == got {
					return "sentinel-in-content"
				}
			}
			return "plain"
		}
		return "sentinel-in-content"
	case strings.Contains(src, "@attributes"):
		// the recorded finding and nothing else: the output is the intent minus the blank before the @attributes list
		// (renders that fail, or fail to, are not explained by it)
		if ji < len(rc.Real) {
			wk, werr, ok := rt.IntentKnownAttrsSep(rc.File, j.Name, rc.Envs[j.Env])
			if ok && werr == "" && rc.Real[ji].Err == "" && wk == realBytes(rc.Real[ji]) {
				return "attributes-command"
			}
			if ok && werr == "" && j.Plan != (rt.Plan{}) {
				return "attributes-command" // a writer fault plan: the document is judged by C12's own rules
			}
		}
		return "plain"
	}
	return "plain"
}

func (c *Ctx) judgeAll(cases []*RenderCase, prop string, want map[string]bool) {
	for _, rc := range cases {
		c.dist("stage." + rc.Stage)
		if rc.Stage != "ok" {
			if rc.Stage == "gofmt" || rc.Stage == "gobuild" || rc.Stage == "parse" {
				c.Rep.Notes = append(c.Rep.Notes, "generated file did not reach execution ("+rc.Stage+"): "+clip(rc.Detail, 300))
				// a well-formed generator file that the real toolchain cannot turn into a running program renders
				// nothing at all: the property fails for every template of the file
				c.Rep.OracleCases++
				kind := "not-executable"
				if rc.Stage == "parse" {
					kind = "generator-file-rejected"
				}
				c.fail(prop+"/"+kind+"/"+rc.Stage, "a well-formed generator file does not reach execution ("+rc.Stage+"): "+clip(strings.TrimSpace(rc.Detail), 240),
					map[string]any{"file_hex": hx([]byte(rc.Src)), "stage": rc.Stage, "detail": clip(rc.Detail, 2000)})
			}
			continue
		}
		for ji := range rc.Jobs {
			v, ok := judge(rc, ji)
			if !ok {
				c.dist("intent.undetermined")
				continue
			}
			c.Rep.OracleCases++
			j := rc.Jobs[ji]
			c.distinct(templateSrc(rc.Src, j.Name) + fmt.Sprintf("%+v", rc.Envs[j.Env]))
			if v.kind == "" || !want[v.kind] {
				continue
			}
			cls := classify(rc, ji)
			sig := prop + "/" + v.kind + "/" + cls
			switch cls {
			case "sentinel-in-content": // one root cause: the eraser works on the finished buffer
				sig = prop + "/sentinel-in-content"
			case "attributes-command":
				sig = prop + "/attributes-separator"
			}
			c.fail(sig,
				fmt.Sprintf("rendered %q, the template denotes %q (env %+v)", clip(v.got, 160), clip(v.want, 160), rc.Envs[j.Env]),
				map[string]any{"template": templateSrc(rc.Src, j.Name), "file_hex": hx([]byte(rc.Src)), "name": j.Name, "env": rc.Envs[j.Env], "got": v.got, "want": v.want})
		}
	}
}

func (c *Ctx) featDist(cases []*RenderCase) {
	for _, rc := range cases {
		for k, v := range rc.Printer.Feat {
			c.Rep.Dist["feat."+k] += v
		}
	}
}

func c01(c *Ctx) {
	c.Rep.TieObs = []string{"O-render: bytes written / error class of freshly generated, go-built code vs Exec on the parsed tree"}
	c.Rep.Rule = "files of 3 layouts + N pages from the typed template grammar (every documented construct and syntactic variant), each template rendered under adversarial environments by real `go build` output and by the model; oracle: generator-intent document vs x/net/html tokens of the real bytes; distinct = distinct (template text, environment); non-trivial = every rendered template (each has at least one construct)"
	o := gen.Opts{ObjRefs: true, ClassExprs: true, AttributesCmd: true, NonASCII: true, MaxDepth: 3, BlankLines: true, ShorthandElse: true, Switch: true, TrailingSpace: true, HexVerb: true}
	cases := c.stdRenderCases(c.N(3, 40), 3, c.N(24, 40), c.N(6, 10), o)
	c.renderBoth(cases)
	c.featDist(cases)
	c.tieRender(cases, true)
	c.judgeAll(cases, "C01", map[string]bool{"structure": true, "error": true})
}

func c14(c *Ctx) {
	c.Rep.TieObs = []string{"O-render (exact bytes, including white space)"}
	c.Rep.Rule = "templates placing >, <, ><, <> on elements in every structural position (first/last/only child, adjacent marked siblings, inside children blocks and nested templates, around dynamic text with blanks) with and without filters; oracle: exact bytes vs the generator-intent layout and absence of the marker sequences; distinct = distinct (template, environment); non-trivial = template contains a marker, a filter or a nested block"
	o := gen.Opts{ObjRefs: false, ClassExprs: false, AttributesCmd: false, NonASCII: true, MaxDepth: 3, MarkerHeavy: true, BlankLines: true, ShorthandElse: true, Switch: true}
	cases := c.stdRenderCases(c.N(6, 40), 3, c.N(24, 40), c.N(6, 10), o)
	c.renderBoth(cases)
	c.featDist(cases)
	c.tieRender(cases, true)
	c.judgeAll(cases, "C14", map[string]bool{"whitespace": true})
	// the internal markers never appear in what Render writes
	for _, rc := range cases {
		for ji, r := range rc.Real {
			for _, w := range r.Writes {
				b := string(unhx(w))
				if strings.Contains(b, "~☢<") || strings.Contains(b, ">☢~") {
					j := rc.Jobs[ji]
					cls := classify(rc, ji)
					sig := "C14/marker-in-output/" + cls
					if cls == "sentinel-in-content" {
						sig = "C14/sentinel-in-content"
					}
					c.fail(sig, "the internal marker sequence appears in the output",
						map[string]any{"template": templateSrc(rc.Src, j.Name), "file_hex": hx([]byte(rc.Src)), "name": j.Name, "env": rc.Envs[j.Env]})
				}
			}
		}
	}
}

func c05(c *Ctx) {
	c.Rep.TieObs = []string{"O-render"}
	c.Rep.Rule = "call graphs of generated templates: layouts using @children zero, one or several times, rendering earlier layouts (forwarding their own children), pages nesting @render inside children blocks; oracle: generator-intent inlining (block evaluated in the caller's scope, empty children when none given) vs real bytes; distinct = distinct (template, environment); non-trivial = template reaches @render"
	o := gen.Opts{ObjRefs: false, ClassExprs: false, NonASCII: false, MaxDepth: 3, RenderHeavy: true, BlankLines: true, ShorthandElse: true, SpaceIndent: true, Switch: true}
	cases := c.stdRenderCases(c.N(3, 40), 4, c.N(24, 40), c.N(5, 8), o)
	// the same call graphs over text that is not ASCII (lines of a block that start with a multi-byte rune, after
	// comments and filters included)
	o.NonASCII = true
	cases = append(cases, c.stdRenderCases(c.N(2, 20), 4, c.N(24, 40), c.N(5, 8), o)...)
	c.renderBoth(cases)
	c.featDist(cases)
	c.tieRender(cases, true)
	c.judgeAll(cases, "C05", map[string]bool{"structure": true, "whitespace": true, "error": true})
}
