package main

import (
	"fmt"
	"strings"
)

func init() { props["C08"] = c08 }

var bufferContents = []string{
	"package x\n\n@goht T(s string) {\n\t%p= s\n}\n",
	"package x\n\nimport \"fmt\"\n\n@goht T(s string) {\n\t%p.c #{fmt.Sprint(s)}\n\t- if s != \"\"\n\t\t%b yes\n}\n",
	"package x\n\n@goht T(s string) {\n\t%p= s\n",             // half-typed: no closing brace
	"package x\n\n@goht T(s string) {\n%p not indented\n}\n", // invalid
	"package x\n\n@goht T(s string) {\n\t%p{a: #{s}, b ? #{s != \"\"}} x é\n}\n\nvar k = 1\n",
	"",
	// same generated code as the first buffer, different position map
	"package x\n\n@goht T(s string) {\n\n\t%p= s\n}\n",
	"package x\n\n@goht T(s string) {\n\t-# note\n\t%p= s\n}\n",
	"package x\n\n@goht T(s string) {\n\t%p=   s\n}\n",
	// buffers whose position map is empty: nothing but white space; a half-typed declaration on the first line
	"\n \n",
	"@goht Pa",
	// buffers of an editor that writes CRLF line ends (the Go sections of the generated code keep the carriage returns)
	"package x\r\n\r\nvar greeting = \"hi\"\r\n\r\n@goht T(s string) {\r\n\t%p= s\r\n\t%i= greeting\r\n}\r\n",
	"package x\r\n\r\n@goht T(s string) {\r\n\t%p= s\r\n}\r\n",
}

type docState struct {
	open    bool
	text    string
	version int32
}

func (c *Ctx) genHistory(n int, uris []string) []POp {
	var ops []POp
	st := map[string]*docState{}
	for _, u := range uris {
		st[u] = &docState{}
	}
	for len(ops) < n {
		u := uris[c.R.Intn(len(uris))]
		d := st[u]
		txt := bufferContents[c.R.Intn(len(bufferContents))]
		switch k := c.R.Intn(10); {
		case !d.open && c.R.Intn(5) == 0:
			// a save notification (with text) for a document that is not open: closed before, or never opened
			if d.text == "" {
				d.text = txt
			}
			ops = append(ops, POp{Op: "save", URI: u, Text: d.text})
		case d.open && strings.HasSuffix(u, ".goht") && c.R.Intn(3) == 0:
			ops = append(ops, c.probe(u, d.text))
		case !d.open && d.version > 0 && c.R.Intn(6) == 0:
			// a change notification for a document that was closed (the editor and the proxy disagree about what is
			// open): nothing may reach the downstream server for a file it has closed
			ops = append(ops, POp{Op: "change", URI: u, Text: txt, Version: d.version + 1})
		case !d.open:
			if d.version > 0 && c.R.Intn(2) == 0 {
				d.version = 0 // editors restart the version counter when a file is opened again
			}
			d.open, d.version, d.text = true, d.version+1, txt
			ops = append(ops, POp{Op: "open", URI: u, Text: txt, Version: d.version})
		case k < 5:
			d.version++
			d.text = txt
			wire := txt
			if c.R.Intn(4) == 0 {
				// one notification with two full-text content changes: applied in order, the last one is the buffer
				wire = bufferContents[c.R.Intn(len(bufferContents))] + "\x1e" + txt
			}
			ops = append(ops, POp{Op: "change", URI: u, Text: wire, Version: d.version})
		case k < 7:
			ops = append(ops, POp{Op: "save", URI: u, Text: d.text})
		case k < 8:
			d.open = false
			ops = append(ops, POp{Op: "close", URI: u})
		default:
			if c.R.Intn(3) > 0 {
				d.version++ // (now and then a client sends the same version again, or always 0: versions are passed on, not judged)
			}
			d.text = txt
			ops = append(ops, POp{Op: "change", URI: u, Text: txt, Version: d.version})
		}
	}
	return ops
}

// probe: a Hover request at a random position of the buffer; the position map in force decides where (and
// whether) the downstream server is asked.
func (c *Ctx) probe(u, text string) POp {
	if c.R.Intn(2) == 0 {
		// a position taken from another buffer of the vocabulary (mapped there, perhaps not here: an editor may ask
		// at a position its previous buffer had): only the map in force may decide
		text = bufferContents[c.R.Intn(len(bufferContents))]
	}
	lines := strings.Split(text, "\n")
	li := c.R.Intn(len(lines))
	return POp{Op: "req", Method: "Hover", URI: u, Line: uint32(li), Char: uint32(c.R.Intn(len(lines[li]) + 1))}
}

// allHistories: every history of length n over the given alphabet of abstract moves.
func (c *Ctx) exhaustiveHistories(n int, uris []string, contents []string) [][]POp {
	type move struct {
		kind string
		u, t int
	}
	var moves []move
	for u := range uris {
		for t := range contents {
			moves = append(moves, move{"set", u, t}) // open if closed, else change
		}
		moves = append(moves, move{"save", u, 0}, move{"close", u, 0})
	}
	var out [][]POp
	var rec func(prefix []move)
	rec = func(prefix []move) {
		if len(prefix) == n {
			st := map[int]*docState{}
			var ops []POp
			ok := true
			for _, m := range prefix {
				d := st[m.u]
				if d == nil {
					d = &docState{}
					st[m.u] = d
				}
				switch m.kind {
				case "set":
					d.version++
					d.text = contents[m.t]
					if !d.open {
						d.open = true
						ops = append(ops, POp{Op: "open", URI: uris[m.u], Text: d.text, Version: d.version})
					} else {
						ops = append(ops, POp{Op: "change", URI: uris[m.u], Text: d.text, Version: d.version})
					}
				case "save":
					if !d.open && d.text == "" {
						ok = false // nothing was ever written to this document
					}
					ops = append(ops, POp{Op: "save", URI: uris[m.u], Text: d.text})
				case "close":
					if !d.open {
						ok = false
					}
					d.open = false
					ops = append(ops, POp{Op: "close", URI: uris[m.u]})
				}
			}
			if ok {
				for u, d := range st {
					if d.open {
						for _, pos := range [][2]uint32{{3, 5}, {4, 5}, {3, 7}} {
							ops = append(ops, POp{Op: "req", Method: "Hover", URI: uris[u], Line: pos[0], Char: pos[1]})
						}
					}
				}
				out = append(out, ops)
			}
			return
		}
		for _, m := range moves {
			rec(append(append([]move{}, prefix...), m))
		}
	}
	rec(nil)
	return out
}

func c08(c *Ctx) {
	c.Rep.TieObs = []string{"O-proxy: the downstream call log (method, URI, version, language id, text payload) of the real proxy.Server driven by a scripted downstream"}
	c.Rep.Rule = "histories of didOpen / didChange(one or two full-text content changes) / didSave (with and, in a part of the histories, without the text) / didClose over two template URIs and one plain .go URI with buffer contents ranging over valid, invalid, half-typed and empty templates: exhaustive up to a length bound and random beyond; oracle after every prefix: downstream holds, under the generated URI and language go, exactly the real compilation of the mirrored buffer, with the editor's version; every text payload is generated code; no template URI downstream; close closes; Hover probes between the edits (including edits that leave the generated code byte-identical but move the template positions) are translated with the position map of the current buffer; distinct = distinct history; non-trivial = history with at least one change after an open"
	// (a directory, and a file name, may contain the template suffix themselves)
	uris := []string{"file:///w/a.goht", "file:///w/site.goht/views/b.goht.goht", "file:///w/c.go"}
	var hists [][]POp
	small := []string{bufferContents[0], bufferContents[6], bufferContents[3], bufferContents[5]} // valid, same code with another map, invalid, empty
	if c.Thorough() {
		small = append(small, bufferContents[2])
	}
	hists = append(hists, c.exhaustiveHistories(c.N(3, 4), uris[:2], small)...)
	for i := 0; i < c.N(150, 6000); i++ {
		hists = append(hists, c.genHistory(4+c.R.Intn(c.N(12, 30)), uris))
	}
	// save notifications WITHOUT the text (a client that does not honour includeText): the proxy model has no
	// such operation, so these histories are judged by the oracle only and kept out of the tie
	nTied := len(hists)
	for i := 0; i < c.N(40, 1500); i++ {
		h := c.genHistory(4+c.R.Intn(c.N(10, 20)), uris)
		for k := range h {
			if h[k].Op == "save" && c.R.Intn(2) == 0 {
				h[k].Nil = true
			}
		}
		hists = append(hists, h)
	}
	real := c.composeReal(bufferContents)
	logs := make([][][]PEvent, len(hists))
	defer func() { c.Rep.TieCases = 0; c.tieProxy(hists[:nTied], logs[:nTied]) }()
	for hi, h := range hists {
		log, err := c.runProxy(h)
		if err == nil {
			logs[hi] = log
		}
		c.Rep.OracleCases++
		c.Rep.TieCases++
		if err != nil || len(log) != len(h) {
			c.fail("C08/runner", fmt.Sprintf("the proxy did not complete the history: %v (%d of %d ops)", err, len(log), len(h)), map[string]any{"history": h})
			continue
		}
		nontrivial := false
		mirror := map[string]*docState{}
		downDocs := map[string]*docState{} // what the scripted downstream holds, by generated URI
		bad := func(kind, what string, upto int) {
			c.fail("C08/"+kind, what, map[string]any{"history": h[:upto+1]})
		}
		for oi, op := range h {
			tmpl := strings.HasSuffix(op.URI, ".goht")
			d := mirror[op.URI]
			if d == nil {
				d = &docState{}
				mirror[op.URI] = d
			}
			switch op.Op {
			case "open":
				d.open, d.text, d.version = true, op.Text, op.Version
			case "change":
				if !d.open && tmpl {
					break // refused: there is no such buffer
				}
				d.text, d.version = op.Text, op.Version
				if k := strings.LastIndex(d.text, "\x1e"); k >= 0 {
					d.text = d.text[k+1:]
				}
				nontrivial = true
			case "close":
				d.open = false
			}
			if op.Op == "req" && tmpl && d.open {
				tb := tablesOf(real[d.text])
				to, mapped := tb.s2t[[2]int{int(op.Line), int(op.Char)}]
				var downs []PEvent
				for _, ev := range log[oi] {
					if ev.Kind == "D" {
						downs = append(downs, ev)
					}
				}
				c.dist(fmt.Sprintf("probe.mapped=%v", mapped))
				switch {
				case !mapped && len(downs) != 0:
					bad("stale-map", fmt.Sprintf("request at %d:%d has no counterpart in the code of the current buffer but the downstream server was asked (%s)", op.Line, op.Char, clip(downs[0].Raw, 80)), oi)
				case mapped && len(downs) != 1:
					bad("stale-map", fmt.Sprintf("request at %d:%d maps to %d:%d in the code of the current buffer but %d downstream calls were made", op.Line, op.Char, to[0], to[1], len(downs)), oi)
				case mapped && kv(downs[0].F, "pos") != fmt.Sprintf("%d:%d", to[0], to[1]):
					bad("stale-map", fmt.Sprintf("request at %d:%d translated to %s; the map of the current buffer assigns %d:%d", op.Line, op.Char, kv(downs[0].F, "pos"), to[0], to[1]), oi)
				}
			}
			for _, ev := range log[oi] {
				if ev.Kind == "R" && len(ev.F) > 0 && ev.F[0] == "panic" {
					bad("panic/"+op.Op, "handler panicked: "+ev.Raw, oi)
				}
				if ev.Kind != "D" {
					continue
				}
				method, uri := ev.F[0], ev.F[1]
				if tmpl && strings.HasSuffix(uri, ".goht") {
					bad("template-uri-downstream/"+method, "a template URI is shown to the downstream server: "+clip(ev.Raw, 120), oi)
				}
				if !tmpl {
					continue
				}
				want := real[d.text]
				switch method {
				case "didOpen":
					dd := &docState{open: true, text: string(unhx(kv(ev.F, "text"))), version: atoi32(kv(ev.F, "v"))}
					downDocs[uri] = dd
					if kv(ev.F, "lang") != "go" {
						bad("language-id", "generated file opened downstream with language id "+kv(ev.F, "lang"), oi)
					}
				case "didChange":
					ch := kv(ev.F, "changes")
					if !strings.HasPrefix(ch, "full=") || strings.Contains(ch, ",") {
						bad("partial-change", "downstream change is not one full-text replacement", oi)
					}
					dd := downDocs[uri]
					if dd == nil || !dd.open {
						bad("change-without-open", "didChange sent downstream for "+uri+" which was never opened there", oi)
						dd = &docState{open: true}
						downDocs[uri] = dd
					}
					dd.text, dd.version = string(unhx(strings.TrimPrefix(ch, "full="))), atoi32(kv(ev.F, "v"))
					if kv(ev.F, "id") != uri {
						bad("identifier-uri", "versioned identifier carries "+kv(ev.F, "id"), oi)
					}
				case "didClose":
					if dd := downDocs[uri]; dd != nil {
						dd.open = false
					}
				case "didSave":
					t := kv(ev.F, "text")
					switch {
					case t == "-":
					case d.open && string(unhx(t)) != string(want.Text):
						bad("save-payload", fmt.Sprintf("didSave forwards a text payload that is not the generated code: %q", clip(string(unhx(t)), 60)), oi)
					case !d.open && (strings.Contains(string(unhx(t)), "@goht") || (op.Text != "" && string(unhx(t)) == op.Text)):
						// no buffer is open, so there is no "current" code; but template text must never go downstream
						bad("save-payload-closed", fmt.Sprintf("didSave for a document that is not open forwards template text downstream: %q", clip(string(unhx(t)), 60)), oi)
					}
				}
			}
			// state oracle after this prefix
			for u, md := range mirror {
				if !strings.HasSuffix(u, ".goht") {
					continue
				}
				dd := downDocs[u+".go"]
				if md.open {
					want := real[md.text]
					switch {
					case dd == nil || !dd.open:
						bad("not-open-downstream", fmt.Sprintf("buffer %s is open in the editor but its generated file is not open downstream", u), oi)
					case dd.text != string(want.Text):
						bad("stale-code", fmt.Sprintf("downstream holds code that is not the compilation of the current buffer of %s", u), oi)
					case dd.version != md.version:
						bad("version", fmt.Sprintf("downstream version %d, editor version %d", dd.version, md.version), oi)
					}
				} else if dd != nil && dd.open {
					bad("not-closed-downstream", fmt.Sprintf("%s was closed in the editor but its generated file is still open downstream", u), oi)
				}
			}
		}
		if nontrivial {
			c.distinct(fmt.Sprint(h))
		}
		if hi%500 == 0 {
			c.sample(map[string]any{"history": opsSummary(h)})
		}
	}
}

func atoi32(s string) int32 {
	var n int32
	fmt.Sscanf(s, "%d", &n)
	return n
}

func opsSummary(h []POp) []string {
	var out []string
	for _, o := range h {
		out = append(out, fmt.Sprintf("%s %s v%d %q", o.Op, o.URI, o.Version, clip(o.Text, 30)))
	}
	return out
}
