// harness: correspondence check (model vs implementation) and property oracles on the implementation.
// usage: harness <Cxx> --tier quick|thorough --seed N --out report.json [--replay file]
package main

import (
	"encoding/hex"
	"encoding/json"
	"flag"
	"fmt"
	"math/rand"
	"os"
	"path/filepath"
	"runtime"
	"sort"
	"strings"
	"time"

	"verifharness/internal/proc"
)

type Mismatch struct {
	Level string `json:"level"` // outcome | error | text | map | render ...
	Input string `json:"input"` // printable (Go-quoted)
	Impl  string `json:"impl"`
	Model string `json:"model"`
	Hex   string `json:"input_hex,omitempty"`
}

type Failure struct {
	Sig   string          `json:"sig"`  // signature: property/site/trigger
	What  string          `json:"what"` // one line, human readable
	Case  json.RawMessage `json:"case"` // replayable case
}

type Report struct {
	Property   string         `json:"property"`
	Tier       string         `json:"tier"`
	Seed       int64          `json:"seed"`
	TieObs     []string       `json:"tie_observations"`
	TieCases   int            `json:"tie_cases"`
	Mismatches []Mismatch     `json:"mismatches"`     // on the property's tie observations
	Wider      []Mismatch     `json:"wider_mismatches"` // on wider observations (not an alarm)
	OracleCases int           `json:"oracle_cases"`
	Failures   []Failure      `json:"failures"`
	Distinct   int            `json:"distinct_nontrivial"`
	Rule       string         `json:"rule"`
	Samples    []any          `json:"samples"`
	Dist       map[string]int `json:"distribution"`
	Notes      []string       `json:"notes"`
	Supporting map[string]any `json:"supporting,omitempty"`
	WallS      float64        `json:"wall_s"`
}

type Ctx struct {
	Prop   string
	Tier   string
	Seed   int64
	R      *rand.Rand
	Drv    *proc.Pool
	Wrk    *proc.Pool
	Rep    *Report
	Repo   string
	Build  string
	Replay string
	seen   map[string]bool
}

func (c *Ctx) Thorough() bool { return c.Tier == "thorough" }

// N picks a budget by tier.
func (c *Ctx) N(quick, thorough int) int {
	if c.Thorough() {
		return thorough
	}
	return quick
}

func (c *Ctx) dist(k string) { c.Rep.Dist[k]++ }

func (c *Ctx) distinct(key string) {
	if !c.seen[key] {
		c.seen[key] = true
		c.Rep.Distinct++
	}
}

func (c *Ctx) sample(v any) {
	if len(c.Rep.Samples) < 5 {
		c.Rep.Samples = append(c.Rep.Samples, v)
	}
}

func (c *Ctx) mismatch(level, input, impl, model string, tie bool) {
	m := Mismatch{Level: level, Input: clip(fmt.Sprintf("%q", input), 600), Impl: clip(impl, 400), Model: clip(model, 400), Hex: hex.EncodeToString([]byte(input))}
	if tie {
		if len(c.Rep.Mismatches) < 20 {
			c.Rep.Mismatches = append(c.Rep.Mismatches, m)
		}
		c.dist("tie.mismatch." + level)
	} else {
		if len(c.Rep.Wider) < 20 {
			c.Rep.Wider = append(c.Rep.Wider, m)
		}
		c.dist("wider.mismatch." + level)
	}
}

func (c *Ctx) fail(sig, what string, cs any) {
	c.dist("oracle.fail." + sig)
	// keep one (the smallest) witness per signature
	b, _ := json.Marshal(cs)
	for i, f := range c.Rep.Failures {
		if f.Sig == sig {
			if len(b) < len(f.Case) {
				c.Rep.Failures[i] = Failure{sig, what, b}
			}
			return
		}
	}
	c.Rep.Failures = append(c.Rep.Failures, Failure{sig, what, b})
}

func clip(s string, n int) string {
	if len(s) > n {
		return s[:n] + "…"
	}
	return s
}

func hx(b []byte) string { return hex.EncodeToString(b) }
func unhx(s string) []byte {
	b, _ := hex.DecodeString(s)
	return b
}

var props = map[string]func(*Ctx){}

func main() {
	if len(os.Args) < 2 {
		fmt.Fprintln(os.Stderr, "usage: harness <Cxx> [flags]")
		os.Exit(2)
	}
	prop := os.Args[1]
	fs := flag.NewFlagSet("harness", flag.ExitOnError)
	tier := fs.String("tier", "quick", "")
	seed := fs.Int64("seed", 1, "")
	out := fs.String("out", "", "")
	replay := fs.String("replay", "", "")
	build := fs.String("build", "/verif/build", "")
	repo := fs.String("repo", "/repo", "")
	fs.Parse(os.Args[2:])
	fn, ok := props[prop]
	if !ok {
		fmt.Fprintln(os.Stderr, "unknown property", prop)
		os.Exit(2)
	}
	start := time.Now()
	n := runtime.NumCPU()
	if n > 12 {
		n = 12
	}
	ctx := &Ctx{Prop: prop, Tier: *tier, Seed: *seed, R: rand.New(rand.NewSource(*seed)), Repo: *repo, Build: *build, Replay: *replay,
		seen: map[string]bool{},
		Rep:  &Report{Property: prop, Tier: *tier, Seed: *seed, Dist: map[string]int{}, Mismatches: []Mismatch{}, Wider: []Mismatch{}, Failures: []Failure{}, Samples: []any{}, Notes: []string{}}}
	ctx.Drv = proc.NewPool(n, []string{filepath.Join(*build, "gohtdrv")})
	ctx.Wrk = proc.NewPool(n, []string{filepath.Join(*build, "worker")}, "GOMEMLIMIT=2GiB")
	defer ctx.Drv.Close()
	defer ctx.Wrk.Close()
	fn(ctx)
	ctx.Rep.WallS = time.Since(start).Seconds()
	sort.Slice(ctx.Rep.Failures, func(i, j int) bool { return ctx.Rep.Failures[i].Sig < ctx.Rep.Failures[j].Sig })
	b, _ := json.MarshalIndent(ctx.Rep, "", " ")
	if *out != "" {
		os.WriteFile(*out, b, 0644)
	} else {
		os.Stdout.Write(b)
	}
	fmt.Fprintf(os.Stderr, "%s: tie cases=%d mismatches=%d wider=%d oracle cases=%d failures=%d (%s)\n", prop, ctx.Rep.TieCases, len(ctx.Rep.Mismatches), len(ctx.Rep.Wider), ctx.Rep.OracleCases, len(ctx.Rep.Failures), strings.Join(sigs(ctx.Rep.Failures), ","))
}

func sigs(fs []Failure) []string {
	var s []string
	for _, f := range fs {
		s = append(s, f.Sig)
	}
	return s
}

func newRand(seed int64) *rand.Rand { return rand.New(rand.NewSource(seed)) }
