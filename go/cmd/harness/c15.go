package main

import (
	"fmt"
	"go/format"
	"os"
	"os/exec"
	"path/filepath"
	"strings"
	"time"

	"verifharness/internal/gen"
	"verifharness/internal/proc"
)

func init() {
	props["C15"] = c15
	props["C11"] = c11
}

// funcTexts splits generated Go into the text of each template function, keyed by name.
func funcTexts(code string) map[string]string {
	out := map[string]string{}
	parts := strings.Split(code, "\nfunc ")
	for _, p := range parts[1:] {
		name := p
		if i := strings.IndexAny(p, "(["); i >= 0 {
			name = p[:i]
		}
		if strings.HasPrefix(p, "(") { // method: (r T) Name(
			rest := p[strings.Index(p, ")")+1:]
			rest = strings.TrimSpace(rest)
			if i := strings.Index(rest, "("); i >= 0 {
				name = rest[:i]
			}
		}
		// a template function ends at the closing brace in column 0
		if i := strings.Index(p, "\n}"); i >= 0 {
			p = p[:i+2]
		}
		out[strings.TrimSpace(name)] = p
	}
	return out
}

func c15(c *Ctx) {
	c.Rep.TieObs = []string{"O-emit.text", "O-emit.map"}
	c.Rep.Rule = "generator files compiled (a) three times through different worker processes and three times in a row inside one process, (b) by both entry points and code paths (ParseFile + Generate for the CLI — in process, and through the real `goht generate` binary over a directory —, ParseString + Compose for the language server; also with a byte order mark, CRLF line ends and no final line break), (c) from 16 goroutines at once in permuted orders, (d) in pairs that differ in one template only, and in pairs where all templates but one are deleted; oracle: byte-identical text and identical position tables, unchanged templates keep their code; distinct = distinct input file; non-trivial = file has at least two templates"
	var ins [][]byte
	var files []*gen.File
	n := c.N(60, 2500)
	for i := 0; i < n; i++ {
		o := gen.Opts{ObjRefs: true, ClassExprs: true, AttributesCmd: i%2 == 0, NonASCII: i%3 == 0, MaxDepth: 2 + i%2, BlankLines: true, VerbSpacing: true, TrailingSpace: i%2 == 1, Trailers: i%4 == 0, MultiLineFrags: i%5 == 0, UnescBlocks: true, Switch: true}
		f := gen.GenFile(newRand(c.R.Int63()), o, 1+i%2, 2+i%3)
		_, src := f.Print()
		ins = append(ins, []byte(src))
		files = append(files, f)
	}
	for _, b := range gen.RepoSeeds(c.Repo) {
		ins = append(ins, b)
		files = append(files, nil)
	}
	// the same bytes through both entry points, also for files as editors on other platforms save them:
	// with a byte order mark, with CRLF line ends, without a final line break
	for i := 0; i < len(ins) && i < c.N(12, 200); i++ {
		base := ins[i]
		ins = append(ins, append([]byte("\xef\xbb\xbf"), base...), []byte(strings.ReplaceAll(string(base), "\n", "\r\n")), []byte(strings.TrimRight(string(base), "\n")))
		files = append(files, nil, nil, nil)
	}
	// (a) three compilations of every input
	tripled := append(append(append([][]byte{}, ins...), ins...), ins...)
	pairs := c.compileBoth(tripled)
	c.tieCompile(pairs[:len(ins)], map[string]bool{"text": true, "map": true, "accept": true, "outcome": true})
	for i, in := range ins {
		c.Rep.OracleCases++
		a, b2, b3 := pairs[i].Impl, pairs[i+len(ins)].Impl, pairs[i+2*len(ins)].Impl
		if strings.Count(string(in), "@goht ") >= 2 {
			c.distinct(string(in))
		}
		if i%53 == 0 {
			c.sample(map[string]any{"input": clip(fmt.Sprintf("%q", in), 200), "accepted": a.Err == "-"})
		}
		same := func(x, y CompObs) bool {
			return x.Outcome == y.Outcome && x.Err == y.Err && string(x.Text) == string(y.Text) && x.S2T == y.S2T && x.T2S == y.T2S
		}
		if !same(a, b2) || !same(a, b3) {
			c.fail("C15/repeat-differs", "compiling the same bytes again gives a different result", map[string]string{"input_hex": hx(in)})
		}
		if strings.HasPrefix(a.Repeat, "diff:") {
			c.fail("C15/repeat-in-process-differs", "compiling the same bytes again in the same process: "+clip(string(unhx(strings.TrimPrefix(a.Repeat, "diff:"))), 300), map[string]string{"input_hex": hx(in)})
		}
		// (b) CLI path (ParseFile + Generate) vs LSP path (ParseString + Compose)
		if a.Outcome == "ok" && strings.HasPrefix(a.GenSame, "diff:") && a.Err != "-" {
			c.fail("C15/generate-vs-compose", "the two entry points disagree on whether the file compiles: "+clip(string(unhx(strings.TrimPrefix(a.GenSame, "diff:"))), 200), map[string]string{"input_hex": hx(in)})
		}
		if a.Outcome == "ok" && a.Err == "-" {
			c.dist("accepted")
			if strings.HasPrefix(a.GenSame, "diff:") {
				g := string(unhx(strings.TrimPrefix(a.GenSame, "diff:")))
				c.fail("C15/generate-vs-compose", "Generate (CLI) and Compose (language server) emit different code: "+clip(firstDiff(g, string(a.Text)), 200), map[string]string{"input_hex": hx(in)})
			} else if a.GenSame != "same" {
				c.fail("C15/generate-vs-compose", "Generate (CLI) fails where Compose (language server) succeeds: "+a.GenSame, map[string]string{"input_hex": hx(in)})
			}
		}
	}
	// (b') the command-line program itself: `goht generate` over a directory of the accepted inputs; each file it
	// writes is the gofmt-ed text the language-server path composes for the same bytes
	if goht := filepath.Join(c.Build, "goht"); fileExists(goht) {
		dir, err := os.MkdirTemp("", "verif-c15-")
		if err == nil {
			var want []string
			var srcs [][]byte
			// an output older than its template (the command regenerates a file only when the template is the newer one)
			stale := func(name, text string) {
				os.WriteFile(name, []byte(text), 0644)
				old := time.Now().Add(-time.Hour)
				os.Chtimes(name, old, old)
			}
			for i, in := range ins {
				a := pairs[i].Impl
				if a.Outcome != "ok" || a.Err != "-" || len(want) >= c.N(40, 400) {
					continue
				}
				code, ferr := format.Source(a.Text)
				if ferr != nil {
					continue // (not Go: the command writes nothing for it; C18 covers that clause)
				}
				os.WriteFile(filepath.Join(dir, fmt.Sprintf("f%d.goht", len(want))), in, 0644)
				switch len(want) % 3 {
				case 1:
					// the usual state of a working tree: the output of an earlier, longer version of the template is there
					stale(filepath.Join(dir, fmt.Sprintf("f%d.goht.go", len(want))), string(code)+"\nfunc removedSince() {}\n")
					c.dist("cli-binary-files.over-a-longer-earlier-output")
				case 2:
					stale(filepath.Join(dir, fmt.Sprintf("f%d.goht.go", len(want))), "package stale\n")
					c.dist("cli-binary-files.over-a-shorter-earlier-output")
				}
				want = append(want, string(code))
				srcs = append(srcs, in)
			}
			cmd := exec.Command(goht, "generate", "--path", dir)
			out, _ := cmd.CombinedOutput()
			for k, w := range want {
				c.Rep.OracleCases++
				c.dist("cli-binary-files")
				got, rerr := os.ReadFile(filepath.Join(dir, fmt.Sprintf("f%d.goht.go", k)))
				if rerr != nil {
					c.fail("C15/cli-vs-compose", "goht generate wrote no output for a file the language-server path compiles: "+clip(string(out), 200), map[string]string{"input_hex": hx(srcs[k])})
				} else if string(got) != w {
					c.fail("C15/cli-vs-compose", "the file written by goht generate differs from the gofmt-ed code of the language-server path: "+clip(firstDiff(string(got), w), 240), map[string]string{"input_hex": hx(srcs[k])})
				}
			}
			os.RemoveAll(dir)
		}
	}
	// (c) concurrent compilation inside one process
	w := proc.New([]string{c.Build + "/worker"})
	for lo := 0; lo < len(ins); lo += 40 {
		hi := lo + 40
		if hi > len(ins) {
			hi = len(ins)
		}
		var hs []string
		for _, in := range ins[lo:hi] {
			hs = append(hs, hx(in))
		}
		r, err := w.Ask("K "+strings.Join(hs, " "), 120*time.Second)
		c.Rep.OracleCases++
		c.dist("concurrent-batches")
		if err != nil {
			c.fail("C15/concurrent-no-return", "concurrent compilation does not return: "+err.Error(), map[string]string{"input_hex": hx(ins[lo])})
		} else if r != "same" {
			var k int
			fmt.Sscanf(r, "diff %d", &k)
			c.fail("C15/concurrent-differs", "a compilation running concurrently with others gives a different result", map[string]string{"input_hex": hx(ins[lo+k])})
		}
	}
	w.Kill()
	// (d) sibling independence: replace one template, the others keep their code
	var mods [][]byte
	var modOf []int
	var replaced []string
	for i, f := range files {
		if f == nil || len(f.Templates) < 2 || i%3 != 0 {
			continue
		}
		k := c.R.Intn(len(f.Templates))
		old := f.Templates[k]
		alt := gen.GenFile(newRand(c.R.Int63()), gen.Opts{MaxDepth: 2, ObjRefs: true}, 0, 1).Templates[0]
		f.Templates[k] = &gen.Template{Name: old.Name, Sig: old.Sig, Body: alt.Body}
		_, src := f.Print()
		f.Templates[k] = old
		mods = append(mods, []byte(src))
		modOf = append(modOf, i)
		replaced = append(replaced, old.Name)
		// the strongest edit of the siblings: all of them deleted (the kept template must still compile to the same code)
		all := f.Templates
		keep := all[c.R.Intn(len(all))]
		f.Templates = []*gen.Template{keep}
		_, src = f.Print()
		f.Templates = all
		mods = append(mods, []byte(src))
		modOf = append(modOf, i)
		replaced = append(replaced, "every template but "+keep.Name)
	}
	mp := c.compileBoth(mods)
	c.tieCompile(mp, map[string]bool{"text": true, "accept": true, "outcome": true})
	for j, p := range mp {
		orig := pairs[modOf[j]].Impl
		if p.Impl.Outcome != "ok" || p.Impl.Err != "-" || orig.Err != "-" {
			continue
		}
		c.Rep.OracleCases++
		c.dist("sibling-pairs")
		a, b := funcTexts(string(orig.Text)), funcTexts(string(p.Impl.Text))
		for name, ta := range a {
			if name == replaced[j] {
				continue
			}
			if tb, ok := b[name]; ok && ta != tb {
				c.fail("C15/sibling-dependence", fmt.Sprintf("replacing or deleting (%s) changed the code of template %s", replaced[j], name),
					map[string]string{"input_hex": hx(ins[modOf[j]]), "modified_hex": hx(mods[j]), "changed": name})
				break
			}
		}
	}
}


// ---------------------------------------------------------------------------------------------
// C11: Go code around templates, package clause and imports pass through intact

type c11File struct {
	src      string
	pkg      string   // expected package
	imports  []string // expected user imports, deduplicated, in order
	goLines  []string // every non-blank Go line outside templates (not package/import lines), in order
	decls    []string // template declarations as written
	trailers []string // per declaration: Go code on the line of the template's closing brace ("" = none)
	features []string
	blocks   []string // multi-line raw strings / block comments that must appear verbatim, blank lines included
}

var goChunks = []string{
	"func helper() string { return \"x\" }",
	"type T struct{ A int }",
	"var (\n\ta = 1\n\tb = 2\n)",
	"const k = \"p\"",
	"// a comment line",
	"// package in a comment (not at column 0 start: slashes first)",
	"var raw = `\nplain\n}\np not a package\ni not an import\n  @goht indented\n`",
	"/*\npackages are nice\nimports are fun\n} closing brace at column 0\n*/",
	"func (t T) M() int {\n\treturn t.A\n}",
	"var pq, ij = 1, 2",
	"type iface interface{ F() }",
	"func init() {\n\tprintln(\"p\")\n}",
	// non-ASCII text in comments and strings: runes whose low byte is a line break, a blank, a bracket, a quote
	"// " + gen.CollisionRunes + " tail of the comment",
	"var greeting = \"" + gen.CollisionRunes + "\" // č 上 😊",
	"var raw2 = `\nĊ first\nč second 不\n`",
	// the keyword alone on a line, or followed by a tab, inside a comment / a raw string
	"/*\nA template starts with the keyword\n@goht\nfollowed by a Go signature.\n*/",
	"var doc2 = `\n@goht\tName()\n@media print\n@\n`",
}

func (c *Ctx) genC11(i int, risky bool) c11File {
	r := c.R
	var f c11File
	var sb strings.Builder
	w := func(s string) { sb.WriteString(s) }
	goLine := func(block string) {
		w(block + "\n")
		for _, l := range strings.Split(block, "\n") {
			if strings.TrimSpace(l) != "" {
				f.goLines = append(f.goLines, l)
			}
		}
	}
	f.pkg = "main"
	switch i % 4 {
	case 0:
		w("package tmpl\n\n")
		f.pkg = "tmpl"
	case 1:
		goLine("// Copyright header")
		goLine("// second comment line")
		if r.Intn(2) == 0 {
			goLine("/*\nCopyright the authors.\npermission is granted to use this file,\nincluding its imports.\n*/")
			f.features = append(f.features, "block-comment-with-p-and-i-lines-before-package")
		}
		w("\npackage tmpl\n\n")
		f.pkg = "tmpl"
		f.features = append(f.features, "comments-before-package")
	case 2:
		f.features = append(f.features, "no-package")
	case 3:
		w("package p2\n")
		f.pkg = "p2"
	}
	// the same path may be imported under an alias, dot or blank name AND plainly: both lines are kept
	imps := []string{`"fmt"`, `str "strings"`, `. "math"`, `_ "embed"`, `"context"`, `"io"`, `"fmt"`, `"github.com/stackus/goht"`,
		`"strings"`, `"math"`, `"embed"`, `"io/fs"`, `f "fmt"`, `"fmt" // formatted I/O`, `ctx "context"`, `"os" // č 上 not the end`,
		// imports goht adds itself, written with a comment behind them; paths written as raw strings
		`"io" // Discard, below`, `"context"  // ctx`, `"io" /* Discard */`, `"github.com/stackus/goht" // the "runtime"`, "`os/exec`", "_ `image/png`", "p `path`"}
	r.Shuffle(len(imps), func(a, b int) { imps[a], imps[b] = imps[b], imps[a] })
	imps = imps[:r.Intn(len(imps)+1)]
	seen := map[string]bool{`"context"`: true, `"io"`: true, `"github.com/stackus/goht"`: true}
	addImp := func(s string) {
		if own := map[string]bool{`"context"`: true, `"io"`: true, `"github.com/stackus/goht"`: true}; own[specOf(s)] {
			return // one of goht's own imports with a comment behind it: goht's own imports appear once
		}
		if !seen[s] {
			seen[s] = true
			f.imports = append(f.imports, s)
		}
	}
	switch {
	case len(imps) == 0:
	case i%3 == 0:
		w("import (\n")
		for _, im := range imps {
			w("\t" + im + "\n")
			addImp(im)
		}
		w(")\n\n")
		f.features = append(f.features, "import-group")
	default:
		for _, im := range imps {
			if strings.HasPrefix(im, `"`) && r.Intn(4) == 0 {
				w("import" + im + "\n") // legal Go: no blank between the keyword and the path
				f.features = append(f.features, "import-without-blank")
			} else {
				w("import " + im + "\n")
			}
			addImp(im)
		}
		w("\n")
		f.features = append(f.features, "import-single")
	}
	nT := 1 + r.Intn(3)
	for t := 0; t < nT; t++ {
		for k := r.Intn(3); k > 0; k-- {
			goLine(goChunks[r.Intn(len(goChunks))])
			w("\n")
		}
		if r.Intn(4) == 0 {
			goLine("var doc = `\n@see the docs\n@ goht spaced\n`")
			f.features = append(f.features, "at-line")
		}
		if r.Intn(3) == 0 {
			// blank lines are raw-string (and comment) content too: one, two and three in a row, also first and last
			blk := fmt.Sprintf("var banner%d = `usage:\n  tool [flags]\n\n\nflags:\n\n  -v  verbose\n\n\n\n`", t)
			if r.Intn(2) == 0 {
				blk = fmt.Sprintf("/* block %d\n\n\n   two blank lines above\n\n*/", t)
			}
			goLine(blk)
			w("\n")
			f.blocks = append(f.blocks, blk)
			f.features = append(f.features, "blank-lines-in-raw-string-or-comment")
		}
		if risky && r.Intn(2) == 0 {
			goLine("var usage = `\npackage y\nimport \"z\"\n`")
			f.features = append(f.features, "package-or-import-line-in-raw-string")
		}
		decl := fmt.Sprintf("T%d(a string, f func(int) (int, error))", t)
		if t == 1 {
			decl = fmt.Sprintf("(r *T) M%d(x interface{ F(int) string }, n int)", t)
			f.features = append(f.features, "receiver")
		}
		if r.Intn(3) == 0 {
			// the usual layout of a long signature: one parameter per line
			decl = fmt.Sprintf("T%d(\n\ta string,\n\tf func(int) (int, error),\n)", t)
			if t == 1 {
				decl = fmt.Sprintf("(r *T) M%d(\n\tx interface{ F(int) string },\n\tn int,\n)", t)
			}
			f.features = append(f.features, "multi-line-declaration")
		}
		f.decls = append(f.decls, decl)
		trailer := ""
		switch r.Intn(6) {
		case 0:
			trailer = fmt.Sprintf(" // end of template %d", t)
		case 1:
			trailer = fmt.Sprintf("; var after%d = %d", t, t)
		}
		f.trailers = append(f.trailers, trailer)
		w("@goht " + decl + " {\n\t%p= a\n\t%hr\n}" + trailer + "\n\n")
		if trailer != "" {
			f.goLines = append(f.goLines, trailer)
			f.features = append(f.features, "go-code-on-the-closing-brace-line")
		}
	}
	for k := r.Intn(3); k > 0; k-- {
		goLine(goChunks[r.Intn(len(goChunks))])
	}
	f.src = sb.String()
	return f
}

func c11(c *Ctx) {
	c.Rep.TieObs = []string{"O-emit.text (generated Go byte for byte)"}
	c.Rep.Rule = "files interleaving Go declarations (funcs, types, var/const blocks, multi-line raw strings and block comments whose lines start with p, i, }, and with white space before @goht) with templates, single and grouped imports in any order and multiplicity (aliases, dot, blank, duplicates, duplicates of goht's own), package clause present / absent / preceded by comments; every fourth file with CRLF line ends; oracle on real Generate output: every Go line unmodified and in order, each declaration verbatim after `func `, package, import list; distinct = distinct file; non-trivial = file has Go code between templates"
	var files []c11File
	var ins [][]byte
	n := c.N(150, 6000)
	for i := 0; i < n; i++ {
		f := c.genC11(i, false)
		if i%4 == 3 {
			// the same file as saved by an editor that writes CRLF line ends
			f.src = strings.ReplaceAll(f.src, "\n", "\r\n")
			f.features = append(f.features, "crlf-line-ends")
		}
		files = append(files, f)
		ins = append(ins, []byte(f.src))
	}
	// the recorded-finding stream: `package …` / `import …` at column 0 inside a raw string
	for i := 0; i < c.N(10, 60); i++ {
		f := c.genC11(i, true)
		files = append(files, f)
		ins = append(ins, []byte(f.src))
	}
	pairs := c.compileBoth(ins)
	c.tieCompile(pairs, map[string]bool{"text": true, "accept": true, "outcome": true})
	for i, p := range pairs {
		f := files[i]
		c.Rep.OracleCases++
		for _, ft := range f.features {
			c.dist("feature." + ft)
		}
		if len(f.goLines) > 0 {
			c.distinct(f.src)
		}
		if i%97 == 0 {
			c.sample(map[string]any{"input": clip(fmt.Sprintf("%q", f.src), 300), "features": f.features})
		}
		trigger := "plain"
		for _, ft := range f.features {
			if ft == "package-or-import-line-in-raw-string" {
				trigger = "package-or-import-line-in-raw-string"
			}
		}
		report := func(kind, what string) {
			sig := "C11/" + kind + "/" + trigger
			if trigger == "package-or-import-line-in-raw-string" {
				sig = "C11/hoisted-from-raw-string"
			}
			c.fail(sig, what, map[string]any{"input_hex": hx(ins[i]), "features": f.features})
		}
		if p.Impl.Outcome != "ok" {
			report("no-return", "compiler does not return")
			continue
		}
		if p.Impl.Err != "-" {
			report("rejected", "a well-formed file is rejected: "+p.Impl.Err)
			continue
		}
		out := string(p.Impl.Text)
		if contains(f.features, "crlf-line-ends") {
			// Go lines are copied with their own line ends; a carriage return before a line feed is the line end here
			out = strings.ReplaceAll(out, "\r\n", "\n")
		}
		// package
		if !strings.Contains(out, "\npackage "+f.pkg+"\n") {
			report("package", fmt.Sprintf("package clause %q not found in the generated file", f.pkg))
			continue
		}
		// imports: goht's own three once each, then the user imports as one group in order
		head := out
		if k := strings.Index(out, "\nfunc "); k >= 0 {
			head = out[:k]
		}
		var gotImps []string
		inGroup := false
		for _, l := range strings.Split(head, "\n") {
			switch {
			case l == "import (":
				inGroup = true
			case l == ")" && inGroup:
				inGroup = false
			case inGroup:
				gotImps = append(gotImps, strings.TrimSpace(l))
			case strings.HasPrefix(l, "import "):
				gotImps = append(gotImps, strings.TrimPrefix(l, "import "))
			}
		}
		wantImps := append([]string{`"context"`, `"io"`, `"github.com/stackus/goht"`}, f.imports...)
		if strings.Join(gotImps, "|") != strings.Join(wantImps, "|") {
			report("imports", fmt.Sprintf("imports %v, expected %v", gotImps, wantImps))
			continue
		}
		// declarations
		okDecl := true
		for _, d := range f.decls {
			if !strings.Contains(out, "\nfunc "+d+" goht.Template {\n") {
				report("declaration", fmt.Sprintf("template declaration %q is not emitted verbatim after `func `", d))
				okDecl = false
				break
			}
		}
		if !okDecl {
			continue
		}
		// Go lines: strip header, import lines and template functions, compare the non-blank lines in order
		body := out
		// cut the generated template functions out (their declarations may span lines)
		for di, d := range f.decls {
			head := "\nfunc " + d + " goht.Template {\n"
			if k := strings.Index(body, head); k >= 0 {
				if f.trailers[di] != "" {
					// the function's closing brace shares its line with Go code: that code stays, as a line of its own
					if e := strings.Index(body[k+len(head):], "\n}"); e >= 0 {
						body = body[:k+1] + body[k+len(head)+e+2:]
					}
				} else if e := strings.Index(body[k+len(head):], "\n}\n"); e >= 0 {
					body = body[:k+1] + body[k+len(head)+e+3:]
				}
			}
		}
		var gotLines []string
		for li, l := range strings.Split(body, "\n") {
			if li < 3 { // header comment
				continue
			}
			switch {
			case strings.HasPrefix(l, "package ") && strings.TrimPrefix(l, "package ") == f.pkg,
				strings.HasPrefix(l, "import "), l == ")" && len(gotLines) == 0:
				continue
			}
			if strings.TrimSpace(l) != "" {
				gotLines = append(gotLines, l)
			}
		}
		// user imports inside the generated group are indented lines before any Go line: drop them
		for len(gotLines) > 0 && len(f.imports) > 0 && strings.HasPrefix(gotLines[0], "\t") && contains(f.imports, strings.TrimSpace(gotLines[0])) {
			gotLines = gotLines[1:]
		}
		if len(gotLines) > 0 && gotLines[0] == ")" {
			gotLines = gotLines[1:]
		}
		for _, blk := range f.blocks {
			if !strings.Contains(out, blk) {
				report("go-code-block", fmt.Sprintf("a multi-line raw string / block comment does not appear verbatim (blank lines included): %q", clip(blk, 80)))
				break
			}
		}
		if strings.Join(gotLines, "\n") != strings.Join(f.goLines, "\n") {
			report("go-code", fmt.Sprintf("Go lines outside templates differ: %s", clip(firstDiff(strings.Join(gotLines, "\n"), strings.Join(f.goLines, "\n")), 240)))
		}
	}
}

// specOf: an import up to the closing quote of its path (what follows is a comment)
func specOf(s string) string {
	if open := strings.IndexAny(s, "\"`"); open >= 0 {
		if n := strings.IndexByte(s[open+1:], s[open]); n >= 0 {
			s = s[:open+n+2]
		}
	}
	return strings.TrimSpace(s)
}

func contains(xs []string, s string) bool {
	for _, x := range xs {
		if x == s {
			return true
		}
	}
	return false
}
