package main

import (
	"fmt"
	"os"
	"strings"
	"sync"
	"time"

	"verifharness/internal/gen"
	"verifharness/internal/rt"
)

var advValues = []string{"plain", `<b>&"'`, " pad ", "", "~☢<", ">☢~", "a>☢~b", "é😀", "x\ny", `\n"q"`, "a b", "</p><script>", "&amp;", "`", "{}#", "%d", "\t"}

func (c *Ctx) genEnv(i int) rt.Env {
	pick := func() string { return advValues[c.R.Intn(len(advValues))] }
	e := rt.Env{S0: pick(), S1: pick(), B0: c.R.Intn(2) == 0, B1: c.R.Intn(2) == 0, N0: c.R.Intn(4)}
	if i == 0 {
		e = rt.Env{S0: "PH0", S1: "PH1", B0: true, B1: false, N0: 2}
	} else if i%4 == 3 {
		e.N0 = []int{-255, -3}[c.R.Intn(2)] // (multiples of three: the generator's d3[n0%3 + 1] stays in range)
	}
	for k := c.R.Intn(4); k > 0; k-- {
		e.Xs = append(e.Xs, pick())
	}
	e.M0 = map[string]string{}
	for k := c.R.Intn(4); k > 0; k-- {
		e.M0[[]string{"data-a", "title", "x", `q"k`, "a b"}[c.R.Intn(5)]] = pick()
	}
	e.MB = map[string]bool{}
	for k := c.R.Intn(4); k > 0; k-- {
		e.MB[[]string{"on", "hidden", "c1", "<k>", "z"}[c.R.Intn(5)]] = c.R.Intn(3) > 0
	}
	e.O0 = rt.Obj{ID: []string{"7", "a b", `i"d`}[c.R.Intn(3)], Class: []string{"post", "r&d", "c"}[c.R.Intn(3)]}
	return e
}

type RenderCase struct {
	File    *gen.File
	Printer *gen.Printer
	Src     string
	Names   []string
	Envs    []rt.Env
	Jobs    []rt.Job
	Real    []rt.Result
	Model   []string // driver replies, same order as Jobs
	Stage   string   // how far the real toolchain got: ok | parse | generate | gofmt | gobuild
	Detail  string
	GoCode  []byte
}

// prepFile adds the chrome the runner needs.
func prepFile(f *gen.File) {
	f.Imports = append([]string{`"errors"`}, f.Imports...)
	f.Chrome[0] += rt.FailChrome
}

// renderBoth builds every file with the real toolchain, runs all jobs, and asks the model the same.
func (c *Ctx) renderBoth(cases []*RenderCase) {
	var wg sync.WaitGroup
	sem := make(chan struct{}, 6)
	for _, rc := range cases {
		rc := rc
		wg.Add(1)
		go func() {
			defer wg.Done()
			sem <- struct{}{}
			defer func() { <-sem }()
			b, stage, detail := rt.Build(rc.Src, rc.Names, c.Repo)
			rc.Stage, rc.Detail = stage, detail
			if b != nil {
				rc.GoCode = b.GoCode
				defer b.Close()
			}
			if stage != "ok" {
				return
			}
			res, err := b.Run(rc.Envs, rc.Jobs, 60*time.Second)
			rc.Real = res
			if err != nil {
				rc.Detail = "run: " + err.Error()
			}
		}()
	}
	// model side meanwhile
	var reqs []string
	var idx [][2]int
	for ci, rc := range cases {
		tables := make([]string, len(rc.Envs))
		for ei, e := range rc.Envs {
			tables[ei] = strings.Join(rt.Table(rc.Printer, rc.Src, e), " ")
		}
		fh := hx([]byte(rc.Src))
		for ji, j := range rc.Jobs {
			reqs = append(reqs, "R "+fh+" "+hx([]byte(j.Name))+" "+tables[j.Env])
			idx = append(idx, [2]int{ci, ji})
		}
		rc.Model = make([]string, len(rc.Jobs))
	}
	replies := c.Drv.Map(reqs, 30*time.Second)
	for k, r := range replies {
		s := r.Line
		if r.Err != nil {
			s = "MODEL " + r.Err.Error()
		}
		cases[idx[k][0]].Model[idx[k][1]] = s
	}
	wg.Wait()
}

// canonical forms for the tie: "OK <nwrites> <hex>" | "ERR <nwrites> <class>"
func canonReal(r rt.Result) string {
	if r.Panic != "" {
		return "PANIC " + r.Panic
	}
	if r.Err == "" {
		return fmt.Sprintf("OK %d %s", len(r.Writes), strings.Join(r.Writes, ""))
	}
	class := "other"
	switch {
	case strings.HasPrefix(r.Err, "unwrapped:"):
		class = "cause-not-wrapped"
	case strings.Contains(r.Err, "verif: expression failed"):
		class = "expr"
	case strings.Contains(r.Err, "goht: invalid"):
		class = "helper"
	case strings.HasPrefix(r.Err, "writer:"):
		class = "writer"
	case strings.HasPrefix(r.Err, "short:"):
		class = "short"
	}
	return fmt.Sprintf("ERR %d %s", len(r.Writes), class)
}

func canonModel(s string, plan rt.Plan) string {
	f := strings.Fields(s)
	if len(f) >= 3 && f[0] == "OK" {
		body := strings.TrimSuffix(f[2], "X")
		// the model describes a writer that accepts everything; apply the plan of this job
		if plan.FailAt == 1 {
			return "ERR 1 writer"
		}
		if plan.ShortAt == 1 && len(body) > 0 {
			return "ERR 1 short"
		}
		return "OK " + f[1] + " " + body
	}
	if len(f) >= 3 && f[0] == "ERR" {
		return "ERR " + f[1] + " " + f[2]
	}
	return s
}

// tieRender compares the observations of all jobs; returns the number of compared renders.
func (c *Ctx) tieRender(cases []*RenderCase, tie bool) int {
	n := 0
	for _, rc := range cases {
		if rc.Stage != "ok" {
			continue
		}
		for ji, j := range rc.Jobs {
			if ji >= len(rc.Real) {
				c.mismatch("render-run", rc.Src, "real program ended early: "+rc.Detail, "", tie)
				break
			}
			n++
			c.Rep.TieCases++
			real := canonReal(rc.Real[ji])
			model := canonModel(rc.Model[ji], j.Plan)
			c.dist("render." + strings.Fields(real)[0])
			if n%97 == 0 {
				c.sample(map[string]string{"template": templateSrc(rc.Src, j.Name), "env": fmt.Sprintf("%+v", rc.Envs[j.Env]), "real": clip(showObs(real), 300)})
			}
			if real != model {
				in := fmt.Sprintf("template %s env %+v plan %+v\n%s", j.Name, rc.Envs[j.Env], j.Plan, templateSrc(rc.Src, j.Name))
				c.mismatch("render", in, showObs(real), showObs(model), tie)
			}
		}
	}
	return n
}

func showObs(s string) string {
	f := strings.Fields(s)
	if len(f) == 3 && f[0] == "OK" {
		return fmt.Sprintf("OK %s %q", f[1], unhx(f[2]))
	}
	if len(f) == 2 && f[0] == "OK" {
		return "OK " + f[1] + ` ""`
	}
	return s
}

func templateSrc(src, name string) string {
	i := strings.Index(src, "@goht "+name+"(")
	if i < 0 {
		return ""
	}
	rest := src[i:]
	if j := strings.Index(rest, "\n}\n"); j >= 0 {
		rest = rest[:j+3]
	}
	return rest
}

// stdRenderCases: files of layouts + pages, every template under every environment.
func (c *Ctx) stdRenderCases(nFiles, nLayouts, nPages, nEnvs int, o gen.Opts) []*RenderCase {
	var cases []*RenderCase
	for i := 0; i < nFiles; i++ {
		f := gen.GenFile(newRand(c.R.Int63()), o, nLayouts, nPages)
		prepFile(f)
		p, src := f.Print()
		if i%3 == 2 {
			// every third file as an editor that writes CRLF line ends would save it
			f.CRLF = true
			src = strings.ReplaceAll(src, "\n", "\r\n")
			p.Feat["file.crlf-line-ends"]++
		}
		rc := &RenderCase{File: f, Printer: p, Src: src}
		for _, t := range f.Templates {
			rc.Names = append(rc.Names, t.Name)
		}
		for e := 0; e < nEnvs; e++ {
			rc.Envs = append(rc.Envs, c.genEnv(e))
		}
		for _, n := range rc.Names {
			for e := range rc.Envs {
				rc.Jobs = append(rc.Jobs, rt.Job{Name: n, Env: e})
			}
		}
		cases = append(cases, rc)
	}
	return cases
}

func init() { props["RENDERTIE"] = renderTieOnly }

// renderTieOnly: development aid — the render correspondence alone.
func renderTieOnly(c *Ctx) {
	o := gen.Opts{ObjRefs: true, ClassExprs: true, AttributesCmd: true, NonASCII: true, MaxDepth: 3}
	cases := c.stdRenderCases(c.N(2, 20), 3, 20, 6, o)
	c.renderBoth(cases)
	for _, rc := range cases {
		for k, v := range rc.Printer.Feat {
			c.Rep.Dist["feat."+k] += v
		}
		c.dist("stage." + rc.Stage)
		if rc.Stage != "ok" {
			c.Rep.Notes = append(c.Rep.Notes, rc.Stage+": "+clip(rc.Detail, 500))
			os.WriteFile(c.Build+"/last_fail.goht", []byte(rc.Src), 0644)
			os.WriteFile(c.Build+"/last_fail.go.txt", rc.GoCode, 0644)
		}
	}
	c.tieRender(cases, true)
}
