package main

import (
	"fmt"
	"go/parser"
	"go/token"
	"strings"
	"sync"

	"verifharness/internal/gen"
	"verifharness/internal/rt"
)

func init() { props["C03"] = c03 }

type illTyped struct {
	kind string
	from string // fragment text in the source
	to   string
}

// one ill-typed substitution per kind of dynamic site (the file must then fail Go type-checking)
var illTypedMutants = []illTyped{
	{"string-position-script", "= s0\n", "= n0\n"},
	{"string-position-interpolation", "#{s1}", "#{n0}"},
	{"string-position-attr-value", ": #{s0}", ": #{n0}"},
	{"string-position-attr-value", ":#{s0}", ":#{n0}"},
	{"condition-position-if", "- if b0\n", "- if s0\n"},
	{"condition-position-attr", "? #{b1}", "? #{s1}"},
	{"condition-position-attr", "?#{b1}", "?#{s1}"},
	{"template-position-render", "= @render L0" + gen.Args, "= @render s0"},
	{"string-position-unescaped", "!= s0\n", "!= n0\n"},
}

func c03(c *Ctx) {
	c.Rep.TieObs = []string{"O-emit.text (generated Go byte for byte)"}
	c.Rep.Rule = "generator files (one or many templates, receivers, interface{…} and func-typed parameters, user imports with aliases, Go declarations between templates, shorthand else, statements after blocks, nested control flow); oracle: every accepted file must parse (go/parser), gofmt and type-check with `go build` (unused/duplicate imports, variables and labels are compile errors); and for each kind of dynamic site the same file with an ill-typed fragment must FAIL `go build` with an error in the generated file; distinct = distinct file text; non-trivial = every file (each has dynamic sites)"
	type job struct {
		src    string
		names  []string
		mutant string // "" = the well-typed original
		kind   string
		stage  string
		detail string
	}
	var jobs []*job
	n := c.N(10, 120)
	for i := 0; i < n; i++ {
		o := gen.Opts{ObjRefs: true, ClassExprs: true, AttributesCmd: true, NonASCII: i%2 == 0, MaxDepth: 3, BlankLines: true,
			ShorthandElse: true, StmtAfterBlock: true, EmptyBlocks: true, FailSites: i%3 == 0, MultiLineFrags: i%4 == 0, Trailers: i%2 == 1, TrailingSpace: i%3 == 1, UnescBlocks: true, Switch: true}
		f := gen.GenFile(newRand(c.R.Int63()), o, 2, c.N(8, 14))
		prepFile(f)
		switch i % 3 {
		case 1:
			f.Imports = append(f.Imports, `str "strings"`, `"fmt"`, `stdio "io"`, `c "context"`)
			f.Chrome = append(f.Chrome, "")
			f.Chrome[0] += "\nvar _ = str.ToUpper\nvar _ = fmt.Sprint\nvar _ = stdio.Discard\nvar _ c.Context\n"
			f.ImportGroup = true
		case 2:
			f.Imports = append(f.Imports, `"context"`, `"io"`) // duplicates of goht's own
			if i%2 == 0 {
				f.Imports = append(f.Imports, `"github.com/stackus/goht"`)
			}
			// goht's own imports in every position of the list (first, middle, last), grouped or not
			c.R.Shuffle(len(f.Imports), func(a, b int) { f.Imports[a], f.Imports[b] = f.Imports[b], f.Imports[a] })
			f.ImportGroup = i%4 == 0
			f.Templates = append(f.Templates, &gen.Template{Name: "RcvLines", Recv: "(o Obj) ", Sig: "(\n\tx interface {\n\t\tF(int) string\n\t},\n\tg func(int) (int, error),\n)",
				Body: []*gen.Node{{Kind: gen.KElem, Tag: "p", Inline: &gen.Node{Kind: gen.KScript, Expr: "o.Class"}}}})
			f.Templates = append(f.Templates, &gen.Template{Name: "Rcv", Recv: "(o Obj) ", Sig: "(x interface{ F(int) string }, g func(int) (int, error))",
				Body: []*gen.Node{{Kind: gen.KElem, Tag: "p", Inline: &gen.Node{Kind: gen.KScript, Expr: "o.ID"}}}})
		}
		_, src := f.Print()
		var names []string
		for _, t := range f.Templates {
			if t.Recv == "" {
				names = append(names, t.Name)
			}
		}
		jobs = append(jobs, &job{src: src, names: names})
		// ill-typed variants of this file: first occurrence of each site kind
		seen := map[string]bool{}
		for _, m := range illTypedMutants {
			if seen[m.kind] || !strings.Contains(src, m.from) {
				continue
			}
			if k := strings.Index(src, m.from); (k >= 11 && src[k-11:k] == "@attributes") || (strings.HasPrefix(m.from, ":") && strings.HasSuffix(src[:k+1], "@attributes:")) {
				continue // the argument list of @attributes takes values of any type by design
			}
			if k := strings.Index(src, m.from); (k >= 6 && src[k-6:k] == "class:") || (strings.HasPrefix(m.from, ":") && strings.HasSuffix(src[:k+1], "class:")) {
				continue // so does a class list
			}
			if c.N(0, 1) == 0 && len(seen) >= 3 {
				break
			}
			seen[m.kind] = true
			jobs = append(jobs, &job{src: strings.Replace(src, m.from, m.to, 1), names: names, mutant: m.from + " -> " + m.to, kind: m.kind})
		}
	}
	var wg sync.WaitGroup
	sem := make(chan struct{}, 8)
	for _, j := range jobs {
		j := j
		wg.Add(1)
		go func() {
			defer wg.Done()
			sem <- struct{}{}
			defer func() { <-sem }()
			b, stage, detail := rt.Build(j.src, j.names, c.Repo)
			j.stage, j.detail = stage, detail
			if b != nil {
				if stage == "gofmt" {
					// double-check with go/parser
					if _, err := parser.ParseFile(token.NewFileSet(), "t.goht.go", b.GoCode, 0); err == nil {
						j.detail = "gofmt failed but go/parser accepts: " + detail
					}
				}
				b.Close()
			}
		}()
	}
	wg.Wait()
	var origs [][]byte
	for _, j := range jobs {
		if j.mutant == "" {
			origs = append(origs, []byte(j.src))
		}
	}
	c.tieCompile(c.compileBoth(origs), map[string]bool{"text": true, "accept": true, "outcome": true})
	for i, j := range jobs {
		c.Rep.OracleCases++
		if i%17 == 0 {
			c.sample(map[string]any{"mutant": j.mutant, "stage": j.stage, "file_prefix": clip(j.src, 200)})
		}
		if j.mutant == "" {
			c.dist("wellTyped." + j.stage)
			c.distinct(j.src)
			switch j.stage {
			case "ok":
			case "parse":
				c.fail("C03/generator-file-rejected", "a well-formed generator file is rejected by the compiler: "+clip(j.detail, 200), map[string]string{"input_hex": hx([]byte(j.src))})
			case "gofmt":
				c.fail("C03/does-not-parse/"+errClassOf(j.detail), "accepted template, generated Go does not parse: "+clip(j.detail, 200), map[string]string{"input_hex": hx([]byte(j.src)), "detail": j.detail})
			case "gobuild":
				c.fail("C03/does-not-typecheck/"+errClassOf(j.detail), "accepted template with well-typed fragments, generated Go does not compile: "+clip(strings.TrimSpace(j.detail), 300), map[string]string{"input_hex": hx([]byte(j.src)), "detail": j.detail})
			default:
				c.fail("C03/"+j.stage, j.detail, map[string]string{"input_hex": hx([]byte(j.src))})
			}
			continue
		}
		c.dist("illTyped." + j.kind + "." + j.stage)
		switch j.stage {
		case "ok":
			c.fail("C03/ill-typed-accepted/"+j.kind, fmt.Sprintf("an ill-typed fragment (%s) compiles: the wrong type is accepted or coerced at run time", j.mutant), map[string]string{"input_hex": hx([]byte(j.src)), "mutant": j.mutant})
		case "gobuild":
			if !strings.Contains(j.detail, "t.goht.go") {
				c.fail("C03/ill-typed-error-elsewhere/"+j.kind, "the type error is not reported in the generated file: "+clip(j.detail, 200), map[string]string{"input_hex": hx([]byte(j.src)), "mutant": j.mutant})
			}
		case "gofmt", "parse":
			// a syntax-level rejection is also a compile-time failure (not a run-time coercion)
		}
	}
}

func errClassOf(detail string) string {
	d := strings.ToLower(detail)
	switch {
	case strings.Contains(d, "declared and not used"):
		return "unused-variable"
	case strings.Contains(d, "imported and not used"):
		return "unused-import"
	case strings.Contains(d, "redeclared"):
		return "redeclared"
	case strings.Contains(d, "expected"):
		return "syntax"
	case strings.Contains(d, "unknown escape"):
		return "escape"
	}
	return "other"
}
