package main

import (
	"fmt"
	"html"
	"strings"

	"verifharness/internal/gen"
	"verifharness/internal/rt"
)

func init() {
	props["C02"] = c02
	props["C04"] = c04
}

type site struct {
	name string
	node func() *gen.Node
	raw  bool // one of the explicitly unescaped forms
}

func txt(parts ...gen.Part) *gen.Node { return &gen.Node{Kind: gen.KText, Parts: parts} }
func st(s string) gen.Part           { return gen.Part{Static: s} }
func dyn(e string) gen.Part          { return gen.Part{Expr: e} }

// dynamicSites: every kind of dynamic site of the grammar, fed from s0.
func dynamicSites() []site {
	el := func(n *gen.Node) *gen.Node { n.Kind = gen.KElem; return n }
	return []site{
		{"script", func() *gen.Node { return &gen.Node{Kind: gen.KScript, Expr: "s0"} }, false},
		{"script-verb", func() *gen.Node { return &gen.Node{Kind: gen.KScript, Expr: "s0", Verb: "%s"} }, false},
		{"interp", func() *gen.Node { return txt(st("a "), dyn("s0"), st(" b")) }, false},
		{"interp-verb", func() *gen.Node { return txt(st("a "), gen.Part{Expr: "s0", Verb: "%5s"}, st(" b")) }, false},
		// a numeric verb does not make the value harmless: with an operand of another type Go prints the value
		// itself (`%!d(string=…)`), and `%c` prints any rune
		{"script-verb-numeric", func() *gen.Node { return &gen.Node{Kind: gen.KScript, Expr: "s0", Verb: "%d"} }, false},
		{"interp-verb-numeric", func() *gen.Node { return txt(st("a "), gen.Part{Expr: "s0", Verb: "%d"}, st(" b")) }, false},
		{"elem-script-verb-char", func() *gen.Node {
			return el(&gen.Node{Tag: "p", Inline: &gen.Node{Kind: gen.KScript, Expr: "s0", Verb: "%c"}})
		}, false},
		{"elem-inline-script", func() *gen.Node { return el(&gen.Node{Tag: "p", Inline: &gen.Node{Kind: gen.KScript, Expr: "s0"}}) }, false},
		{"elem-inline-interp", func() *gen.Node { return el(&gen.Node{Tag: "p", Inline: txt(st("t "), dyn("s0"))}) }, false},
		{"attr-value", func() *gen.Node {
			return el(&gen.Node{Tag: "a", Attrs: []gen.Attr{{Name: "href", Kind: gen.ADynamic, Expr: "s0"}}, Inline: txt(st("x"))})
		}, false},
		{"attr-value-verb", func() *gen.Node {
			return el(&gen.Node{Tag: "a", Attrs: []gen.Attr{{Name: "title", Kind: gen.ADynamic, Expr: "s0", Verb: "%q"}}, Inline: txt(st("x"))})
		}, false},
		{"attributes-map-value", func() *gen.Node { return el(&gen.Node{Tag: "i", AttrsCmd: "m0", Attrs: []gen.Attr{{Name: "z", Kind: gen.ABool}}, Inline: txt(st("x"))}) }, false},
		{"class-list-string", func() *gen.Node { return el(&gen.Node{Tag: "b", ClassExprs: []string{"s0", `"k"`}, Inline: txt(st("x"))}) }, false},
		{"class-list-slice", func() *gen.Node { return el(&gen.Node{Tag: "b", ClassExprs: []string{"xs"}, Inline: txt(st("x"))}) }, false},
		{"object-ref", func() *gen.Node { return el(&gen.Node{Tag: "u", ObjRef: "o0", Inline: txt(st("x"))}) }, false},
		{"object-ref-prefix", func() *gen.Node { return el(&gen.Node{Tag: "u", ObjRef: `o0, "pre"`, Inline: txt(st("x"))}) }, false},
		{"object-ref-dynamic-prefix", func() *gen.Node { return el(&gen.Node{Tag: "u", ObjRef: `o0, s0`, Inline: txt(st("x"))}) }, false},
		{"filter-escaped", func() *gen.Node {
			return &gen.Node{Kind: gen.KFilter, Filter: "escaped", Lines: [][]gen.Part{{st("l "), dyn("s0"), st(" r")}}}
		}, false},
		{"filter-css", func() *gen.Node {
			return &gen.Node{Kind: gen.KFilter, Filter: "css", Lines: [][]gen.Part{{st("a { b: "), dyn("s0"), st(" }")}}}
		}, false},
		{"filter-javascript", func() *gen.Node {
			return &gen.Node{Kind: gen.KFilter, Filter: "javascript", Lines: [][]gen.Part{{st("var v = "), dyn("s0"), st(";")}}}
		}, false},
		{"unescaped-script", func() *gen.Node { return &gen.Node{Kind: gen.KScript, Expr: "s0", Unescaped: true} }, true},
		{"unescaped-text-interp", func() *gen.Node { n := txt(st("t "), dyn("s0"), st(" u")); n.Unescaped = true; return n }, true},
		{"filter-plain", func() *gen.Node {
			return &gen.Node{Kind: gen.KFilter, Filter: "plain", Lines: [][]gen.Part{{st("l "), dyn("s0"), st(" r")}}}
		}, true},
		{"filter-preserve", func() *gen.Node {
			return &gen.Node{Kind: gen.KFilter, Filter: "preserve", Lines: [][]gen.Part{{st("l "), dyn("s0"), st(" r")}}}
		}, true},
	}
}

type wrap struct {
	name string
	f    func(n *gen.Node) []*gen.Node
}

// contexts: every enclosing context of C02's quantifier
func contexts() []wrap {
	p := func(s string) *gen.Node { return &gen.Node{Kind: gen.KElem, Tag: "em", Inline: txt(st(s))} }
	return []wrap{
		{"top", func(n *gen.Node) []*gen.Node { return []*gen.Node{p("before"), n, p("after")} }},
		{"in-element", func(n *gen.Node) []*gen.Node {
			return []*gen.Node{{Kind: gen.KElem, Tag: "div", Classes: []string{"w"}, Kids: []*gen.Node{p("a"), n, p("z")}}}
		}},
		{"in-if", func(n *gen.Node) []*gen.Node {
			return []*gen.Node{{Kind: gen.KIf, Chain: []gen.Branch{{Header: "if b0", Cond: "b0", Kids: []*gen.Node{n}}}}, p("after")}
		}},
		{"in-for", func(n *gen.Node) []*gen.Node {
			return []*gen.Node{{Kind: gen.KFor, Chain: []gen.Branch{{Header: "for _, x := range xs", Kids: []*gen.Node{{Kind: gen.KScript, Expr: "x"}, n}}}}, p("after")}
		}},
		{"in-children-block", func(n *gen.Node) []*gen.Node {
			return []*gen.Node{{Kind: gen.KRender, Callee: "L0" + gen.Args, Kids: []*gen.Node{n}}}
		}},
		{"after-unescaped-sibling", func(n *gen.Node) []*gen.Node {
			return []*gen.Node{{Kind: gen.KScript, Expr: `"<i>"`, Unescaped: true}, n, p("after")}
		}},
		{"after-inline-unescaped-element", func(n *gen.Node) []*gen.Node {
			return []*gen.Node{{Kind: gen.KElem, Tag: "p", Inline: &gen.Node{Kind: gen.KScript, Expr: `"<i>"`, Unescaped: true}}, n, p("after")}
		}},
		{"after-inline-unescaped-text-element", func(n *gen.Node) []*gen.Node {
			u := txt(st("raw "), dyn("s1"))
			u.Unescaped = true
			return []*gen.Node{{Kind: gen.KElem, Tag: "p", Inline: u}, n, p("after")}
		}},
		{"after-unescaped-render-command", func(n *gen.Node) []*gen.Node {
			return []*gen.Node{{Kind: gen.KRender, Callee: "L0" + gen.Args, Unescaped: true}, n, p("after")}
		}},
		{"after-unescaped-children-command", func(n *gen.Node) []*gen.Node {
			return []*gen.Node{{Kind: gen.KChildren, Unescaped: true}, n, p("after")}
		}},
		{"after-plain-filter", func(n *gen.Node) []*gen.Node {
			return []*gen.Node{{Kind: gen.KFilter, Filter: "plain", Lines: [][]gen.Part{{st("raw "), dyn("s1")}}}, n, p("after")}
		}},
		{"after-preserve-filter", func(n *gen.Node) []*gen.Node {
			return []*gen.Node{{Kind: gen.KFilter, Filter: "preserve", Lines: [][]gen.Part{{st("kept "), dyn("s1")}}}, n, p("after")}
		}},
		// a filter line with no body under it is legal
		{"after-empty-plain-filter", func(n *gen.Node) []*gen.Node {
			return []*gen.Node{{Kind: gen.KFilter, Filter: "plain"}, n, p("after")}
		}},
		{"after-empty-preserve-filter", func(n *gen.Node) []*gen.Node {
			return []*gen.Node{{Kind: gen.KFilter, Filter: "preserve"}, n, p("after")}
		}},
		{"after-empty-escaped-filter", func(n *gen.Node) []*gen.Node {
			return []*gen.Node{{Kind: gen.KFilter, Filter: "escaped"}, n, p("after")}
		}},
		// inside an element: a filter, then a line of white space only that is shorter than the filter body's indentation
		{"after-filter-and-short-blank-line", func(n *gen.Node) []*gen.Node {
			return []*gen.Node{{Kind: gen.KElem, Tag: "div", Kids: []*gen.Node{
				{Kind: gen.KFilter, Filter: "plain", Lines: [][]gen.Part{{st("raw "), dyn("s1")}}}, {Kind: gen.KBlank}, n, p("z")}}}
		}},
		{"after-preserve-filter-and-short-blank-line", func(n *gen.Node) []*gen.Node {
			return []*gen.Node{{Kind: gen.KElem, Tag: "div", Kids: []*gen.Node{
				{Kind: gen.KFilter, Filter: "preserve", Lines: [][]gen.Part{{st("kept")}}}, {Kind: gen.KBlank}, n, p("z")}}}
		}},
		{"in-nuked-element", func(n *gen.Node) []*gen.Node {
			return []*gen.Node{{Kind: gen.KElem, Tag: "div", NukeInner: true, NukeOuter: true, Kids: []*gen.Node{n}}, p("after")}
		}},
	}
}

func siteFile() (*gen.File, []string) {
	f := &gen.File{Package: "main"}
	f.Chrome = append(f.Chrome, gen.Chrome+"\nfunc f2(a, b string) string { return a + b }\n")
	f.Templates = append(f.Templates, &gen.Template{Name: "L0", Sig: gen.Sig, Body: []*gen.Node{
		{Kind: gen.KElem, Tag: "section", Kids: []*gen.Node{{Kind: gen.KChildren}}}, {Kind: gen.KElem, Tag: "hr"}}})
	var names []string
	for si, s := range dynamicSites() {
		for ci, cx := range contexts() {
			name := fmt.Sprintf("S%dC%d", si, ci)
			f.Templates = append(f.Templates, &gen.Template{Name: name, Sig: gen.Sig, Body: cx.f(s.node())})
			names = append(names, name)
		}
	}
	return f, names
}

// knownSentinelBehaviour: the real bytes of job ji are exactly the intended document after the recorded eraser
// behaviour (marker look-alikes in content are eaten together with the white space around them)
func knownSentinelBehaviour(rc *RenderCase, ji int) bool {
	j := rc.Jobs[ji]
	got := realBytes(rc.Real[ji])
	for _, sep := range []bool{false, true} {
		if ks, _, ok := rt.IntentKnownSentinel(rc.File, j.Name, rc.Envs[j.Env], sep); ok && ks == got {
			return true
		}
	}
	return false
}

func siteOf(name string) (site, wrap) {
	var si, ci int
	fmt.Sscanf(name, "S%dC%d", &si, &ci)
	return dynamicSites()[si], contexts()[ci]
}

var c02Strings = []string{"neutral", "Ċč上", "ĠĢĨĩ", "ŻŽśŝ", "é<b>é>", `é" onfocus=é"x`, "😀&amp;", "日'本\"", "»<", `<b>`, `a"b`, `it's`, `&amp;`, `</p><script>alert(1)</script>`, `x" onclick="y`, `\`, `\"`, "\x00", "\x7f", "é", "😀", "a b", " lead", "trail ", "\n", "~☢", "~☢<", ">☢~", "☢", "~", "-->", "<!--", "`", "{}", "#{x}", "%s", "'", "&", "<", ">", "\"", "=", "/"}

func c02(c *Ctx) {
	c.Rep.TieObs = []string{"O-render", "O-rt (helpers, see C19)"}
	c.Rep.Rule = "every kind of dynamic site (24) x every enclosing context (9) as its own template, rendered for every string of the adversarial alphabet (HTML metacharacters, both quotes, backslashes, controls, multi-byte and astral runes, marker look-alikes; thorough adds all 2-symbol strings); oracle: (1) generator intent: escaped sites carry html-escaped v, unescaped sites exactly v; (2) for escaped sites the token structure equals the placeholder's and v appears entity-decoded where the placeholder was; distinct = distinct (site, context, value)"
	f, names := siteFile()
	prepFile(f)
	p, src := f.Print()
	rc := &RenderCase{File: f, Printer: p, Src: src, Names: append([]string{"L0"}, names...)}
	vals := append([]string{}, c02Strings...)
	if c.Thorough() {
		alpha := []string{"<", ">", "&", `"`, "'", `\`, " ", "~", "☢", "é", "\n", "a", "=", "/", "-", "!", "#", "{", "}", ";"}
		for _, a := range alpha {
			for _, b := range alpha {
				vals = append(vals, a+b)
			}
		}
	}
	rc.Envs = append(rc.Envs, rt.Env{S0: "PHV", S1: "s1", B0: true, Xs: []string{"PHV", "q"}, M0: map[string]string{"data-k": "PHV"}, MB: map[string]bool{"on": true}, O0: rt.Obj{ID: "PHV", Class: "PHV"}})
	for _, v := range vals {
		rc.Envs = append(rc.Envs, rt.Env{S0: v, S1: "s1", B0: true, Xs: []string{v, "q"}, M0: map[string]string{"data-k": v}, MB: map[string]bool{"on": true}, O0: rt.Obj{ID: v, Class: v}})
	}
	for _, n := range names {
		for e := range rc.Envs {
			rc.Jobs = append(rc.Jobs, rt.Job{Name: n, Env: e})
		}
	}
	cases := []*RenderCase{rc}
	c.renderBoth(cases)
	c.featDist(cases)
	if rc.Stage != "ok" {
		c.Rep.Notes = append(c.Rep.Notes, "site file did not build: "+rc.Stage+" "+clip(rc.Detail, 400))
		c.mismatch("build", src, rc.Stage+": "+clip(rc.Detail, 300), "accepted", true)
		// which templates does the toolchain choke on? one file per enclosing context, built on its own
		full, _ := siteFile()
		for ci, cx := range contexts() {
			sub := &gen.File{Package: full.Package, Chrome: append([]string{}, full.Chrome...), Imports: append([]string{}, full.Imports...)}
			var subNames []string
			for _, t := range full.Templates {
				var si, tci int
				if n, _ := fmt.Sscanf(t.Name, "S%dC%d", &si, &tci); t.Name == "L0" || (n == 2 && tci == ci) {
					sub.Templates = append(sub.Templates, t)
					subNames = append(subNames, t.Name)
				}
			}
			prepFile(sub)
			_, subSrc := sub.Print()
			b, stage, detail := rt.Build(subSrc, subNames, c.Repo)
			if b != nil {
				b.Close()
			}
			c.Rep.OracleCases++
			if stage != "ok" {
				c.fail("C02/not-executable/"+cx.name, "well-formed templates (every dynamic site in the context "+cx.name+") do not reach execution ("+stage+"): "+clip(strings.TrimSpace(detail), 200),
					map[string]any{"file_hex": hx([]byte(subSrc)), "stage": stage})
			}
		}
		return
	}
	c.tieRender(cases, true)
	// placeholder outputs per template
	ph := map[string]string{}
	for ji, j := range rc.Jobs {
		if j.Env == 0 && ji < len(rc.Real) {
			ph[j.Name] = realBytes(rc.Real[ji])
		}
	}
	for ji, j := range rc.Jobs {
		if j.Env == 0 || ji >= len(rc.Real) {
			continue
		}
		s, cx := siteOf(j.Name)
		v := rc.Envs[j.Env].S0
		c.Rep.OracleCases++
		c.dist("site." + s.name)
		c.distinct(j.Name + "\x00" + v)
		report := func(kind, what string, extra map[string]any) {
			extra["template"] = templateSrc(rc.Src, j.Name)
			extra["value"] = v
			extra["file_hex"] = hx([]byte(rc.Src))
			extra["name"] = j.Name
			sig := "C02/" + kind + "/" + s.name
			switch {
			case strings.Contains(v, "☢") && knownSentinelBehaviour(rc, ji):
				// one root cause: the eraser works on the finished buffer. The recorded finding is that behaviour and
				// nothing else: the bytes are what the documented rules give once the eraser has run over them
				sig = "C02/sentinel-in-value"
			case s.name == "attributes-map-value" && classify(rc, ji) == "attributes-command":
				sig = "C02/attributes-separator" // the output is the intent minus the separating blank, and nothing else
			}
			c.fail(sig, fmt.Sprintf("site %s in context %s, value %q: %s", s.name, cx.name, v, what), extra)
		}
		// (1) intent
		vd, ok := judge(rc, ji)
		if ok && vd.kind != "" {
			report("intent", fmt.Sprintf("rendered %q, expected %q", clip(vd.got, 120), clip(vd.want, 120)), map[string]any{"got": vd.got, "want": vd.want})
			continue
		}
		// (2) escaped sites: same elements and attributes as for the placeholder, and v where the placeholder was
		if !s.raw && s.name != "filter-css" && s.name != "filter-javascript" {
			got, want := htmlTokens(realBytes(rc.Real[ji])), htmlTokens(ph[j.Name])
			if shape(got) != shape(want) {
				report("structure", fmt.Sprintf("elements/attributes differ from the placeholder's: %q vs %q", clip(shape(got), 160), clip(shape(want), 160)), map[string]any{})
				continue
			}
			if strings.HasSuffix(s.name, "-verb") {
				continue // the formatted value is not v itself; the intent oracle above covers it
			}
			if g, w := attrVals(got), strings.ReplaceAll(attrVals(want), "PHV", v); g != w {
				report("value", fmt.Sprintf("attribute values %q, expected %q", clip(g, 120), clip(w, 120)), map[string]any{})
				continue
			}
			if g, w := textOf(got), strings.ReplaceAll(textOf(want), "PHV", strings.Join(strings.Fields(v), "")); g != w {
				report("value", fmt.Sprintf("text %q, expected %q", clip(g, 120), clip(w, 120)), map[string]any{})
			}
		}
	}
}

// shape: elements, attribute names and comments in document order (no text, no values)
func shape(toks []string) string {
	var out []string
	for _, t := range toks {
		switch t[0] {
		case 'S':
			name, rest, _ := strings.Cut(t[2:], "[")
			var keys []string
			for _, kv := range strings.Split(strings.TrimSuffix(rest, "]"), "|") {
				if kv != "" {
					k, _, _ := strings.Cut(kv, "=")
					keys = append(keys, k)
				}
			}
			out = append(out, "<"+name+" "+strings.Join(keys, ",")+">")
		case 'E':
			out = append(out, "</"+t[2:]+">")
		case 'C':
			out = append(out, "<!---->")
		case 'D':
			out = append(out, "<!D>")
		}
	}
	return strings.Join(out, "")
}

func attrVals(toks []string) string {
	var out []string
	for _, t := range toks {
		if t[0] == 'S' {
			_, rest, _ := strings.Cut(t[2:], "[")
			out = append(out, strings.TrimSuffix(rest, "]"))
		}
	}
	return strings.Join(out, "\x00")
}

// textOf: all text and comment data with white space removed
func textOf(toks []string) string {
	var sb strings.Builder
	for _, t := range toks {
		if t[0] == 'T' || t[0] == 'C' {
			sb.WriteString(strings.Join(strings.Fields(t[2:]), ""))
		}
	}
	return sb.String()
}

func realBytes(r rt.Result) string {
	s := ""
	for _, w := range r.Writes {
		s += string(unhx(w))
	}
	return s
}

// ---------------------------------------------------------------------------------------------
// C04: static content positions

type staticSite struct {
	name    string
	escaped bool // character for character once entities are decoded (vs byte for byte)
	ok      func(s string) bool // lexical restrictions the documentation places on the position
	node    func(s string) *gen.Node
}

func noneOf(chars string) func(string) bool {
	return func(s string) bool { return s != "" && !strings.ContainsAny(s, chars) && strings.TrimSpace(s) == s }
}

func staticSites() []staticSite {
	el := func(n *gen.Node) *gen.Node { n.Kind = gen.KElem; return n }
	// what the lexer lets follow an identifier ends it; everything else is allowed in tag names, ids and classes
	ident := noneOf("%#.[{=!/<> \t\n\r")
	return []staticSite{
		{"text-line", false, func(s string) bool { return noneOf("\n\r")(s) && !strings.Contains(s, "#{") && !strings.ContainsAny(s[:1], "%#.-=/:!\\<>[{") && !strings.HasSuffix(s, `\`) },
			func(s string) *gen.Node { return txt(st(s)) }},
		{"escaped-hash", false, func(s string) bool { return noneOf("\n\r}{\"'")(s) },
			func(s string) *gen.Node { return txt(st("t "), gen.Part{EscHash: true, Static: s}) }},
		{"elem-inline-text", false, func(s string) bool { return noneOf("\n\r")(s) && !strings.Contains(s, "#{") && !strings.ContainsAny(s[:1], "=/<>!-") && !strings.HasSuffix(s, `\`) },
			func(s string) *gen.Node { return el(&gen.Node{Tag: "p", Inline: txt(st(s))}) }},
		{"filter-plain", false, func(s string) bool { return noneOf("\n\r")(s) && !strings.Contains(s, "#{") },
			func(s string) *gen.Node { return &gen.Node{Kind: gen.KFilter, Filter: "plain", Lines: [][]gen.Part{{st(s)}}} }},
		{"filter-preserve", false, func(s string) bool { return noneOf("\n\r")(s) && !strings.Contains(s, "#{") },
			func(s string) *gen.Node { return &gen.Node{Kind: gen.KFilter, Filter: "preserve", Lines: [][]gen.Part{{st(s)}, {st("second")}}} }},
		{"filter-css", false, func(s string) bool { return noneOf("\n\r")(s) && !strings.Contains(s, "#{") },
			func(s string) *gen.Node { return &gen.Node{Kind: gen.KFilter, Filter: "css", Lines: [][]gen.Part{{st(s)}}} }},
		{"filter-javascript", false, func(s string) bool { return noneOf("\n\r")(s) && !strings.Contains(s, "#{") },
			func(s string) *gen.Node { return &gen.Node{Kind: gen.KFilter, Filter: "javascript", Lines: [][]gen.Part{{st(s)}}} }},
		{"filter-escaped", true, func(s string) bool { return noneOf("\n\r")(s) && !strings.Contains(s, "#{") },
			func(s string) *gen.Node { return &gen.Node{Kind: gen.KFilter, Filter: "escaped", Lines: [][]gen.Part{{st(s)}}} }},
		// the literal on a body line that follows one, or two, completely empty lines of the same filter body
		{"filter-plain-after-empty-line", false, func(s string) bool { return noneOf("\n\r")(s) && !strings.Contains(s, "#{") },
			func(s string) *gen.Node { return &gen.Node{Kind: gen.KFilter, Filter: "plain", Lines: [][]gen.Part{{st("first")}, nil, {st(s)}}} }},
		{"filter-css-after-empty-lines", false, func(s string) bool { return noneOf("\n\r")(s) && !strings.Contains(s, "#{") },
			func(s string) *gen.Node { return &gen.Node{Kind: gen.KFilter, Filter: "css", Lines: [][]gen.Part{{st("a { b: c }")}, nil, nil, {st(s)}}} }},
		{"filter-javascript-after-empty-line", false, func(s string) bool { return noneOf("\n\r")(s) && !strings.Contains(s, "#{") },
			func(s string) *gen.Node { return &gen.Node{Kind: gen.KFilter, Filter: "javascript", Lines: [][]gen.Part{{st("var a = 1;")}, nil, {st(s)}}} }},
		{"filter-escaped-after-empty-line", true, func(s string) bool { return noneOf("\n\r")(s) && !strings.Contains(s, "#{") },
			func(s string) *gen.Node { return &gen.Node{Kind: gen.KFilter, Filter: "escaped", Lines: [][]gen.Part{{st("first")}, nil, {st(s)}}} }},
		{"tag-name", true, ident, func(s string) *gen.Node { return el(&gen.Node{Tag: s, Inline: txt(st("x"))}) }},
		{"id", true, ident, func(s string) *gen.Node { return el(&gen.Node{Tag: "p", ID: s, Inline: txt(st("x"))}) }},
		{"id-first", true, ident, func(s string) *gen.Node { return el(&gen.Node{ID: s, Inline: txt(st("x"))}) }},
		{"class", true, ident, func(s string) *gen.Node { return el(&gen.Node{Tag: "p", Classes: []string{s}, Inline: txt(st("x"))}) }},
		{"attr-name-bare", true, noneOf("?:,}{\" \t\n\r@`'\\&<>=/"), func(s string) *gen.Node {
			return el(&gen.Node{Tag: "p", Attrs: []gen.Attr{{Name: s, Kind: gen.AStatic, Value: "v", ValQuote: '"'}}, Inline: txt(st("x"))})
		}},
		{"attr-name-quoted", true, noneOf("\"`\n\r\\ \t<>='/&"), func(s string) *gen.Node {
			return el(&gen.Node{Tag: "p", Attrs: []gen.Attr{{Name: s, QuoteCh: '"', Kind: gen.AStatic, Value: "v", ValQuote: '"'}}, Inline: txt(st("x"))})
		}},
		// names of boolean and conditional attributes go through their own splice sites; backslashes and (between
		// backticks) double quotes are legal there
		{"attr-name-bare-bool", true, noneOf("?:,}{\" \t\n\r@`'&<>=/"), func(s string) *gen.Node {
			return el(&gen.Node{Tag: "p", Attrs: []gen.Attr{{Name: s, Kind: gen.ABool}}, Inline: txt(st("x"))})
		}},
		{"attr-name-bare-cond", true, noneOf("?:,}{\" \t\n\r@`'&<>=/"), func(s string) *gen.Node {
			return el(&gen.Node{Tag: "p", Attrs: []gen.Attr{{Name: s, Kind: gen.ACond, Expr: "b0"}}, Inline: txt(st("x"))})
		}},
		{"attr-name-quoted-cond", true, func(s string) bool { return noneOf("\"`\n\r \t<>='/&")(s) && !strings.HasSuffix(s, `\`) }, func(s string) *gen.Node {
			return el(&gen.Node{Tag: "p", Attrs: []gen.Attr{{Name: s, QuoteCh: '"', Kind: gen.ACond, Expr: "b0"}}, Inline: txt(st("x"))})
		}},
		{"attr-name-backtick-cond", true, noneOf("`\n\r \t<>='/&"), func(s string) *gen.Node {
			return el(&gen.Node{Tag: "p", Attrs: []gen.Attr{{Name: s, QuoteCh: '`', Kind: gen.ACond, Expr: "b0"}}, Inline: txt(st("x"))})
		}},
		{"attr-name-backtick", true, noneOf("`\n\r \t<>='/&"), func(s string) *gen.Node {
			return el(&gen.Node{Tag: "p", Attrs: []gen.Attr{{Name: s, QuoteCh: '`', Kind: gen.AStatic, Value: "v", ValQuote: '"'}}, Inline: txt(st("x"))})
		}},
		{"attr-value-dq", true, func(s string) bool { return s != "" && !strings.ContainsAny(s, "\n\r") }, func(s string) *gen.Node {
			return el(&gen.Node{Tag: "p", Attrs: []gen.Attr{{Name: "t", Kind: gen.AStatic, Value: s, ValQuote: '"'}}, Inline: txt(st("x"))})
		}},
		{"attr-value-backtick", true, func(s string) bool { return s != "" && !strings.ContainsAny(s, "`\n\r") }, func(s string) *gen.Node {
			return el(&gen.Node{Tag: "p", Attrs: []gen.Attr{{Name: "t", Kind: gen.AStatic, Value: s, ValQuote: '`'}}, Inline: txt(st("x"))})
		}},
		{"class-attr", true, func(s string) bool { return s != "" && !strings.ContainsAny(s, "\n\r") }, func(s string) *gen.Node {
			return el(&gen.Node{Tag: "p", ClassAttr: s, Inline: txt(st("x"))})
		}},
		{"class-beside-dynamic-class", true, ident, func(s string) *gen.Node {
			return el(&gen.Node{Tag: "p", Classes: []string{s}, ClassExprs: []string{`"dyn"`}, Inline: txt(st("x"))})
		}},
		{"class-beside-object-ref", true, ident, func(s string) *gen.Node {
			return el(&gen.Node{Tag: "p", Classes: []string{s}, ObjRef: "o0", Inline: txt(st("x"))})
		}},
		{"class-attr-beside-dynamic-class", true, func(s string) bool { return s != "" && !strings.ContainsAny(s, "\n\r") }, func(s string) *gen.Node {
			return el(&gen.Node{Tag: "p", ClassAttr: s, ObjRef: "o0", Inline: txt(st("x"))})
		}},
		{"id-beside-object-ref", true, ident, func(s string) *gen.Node {
			return el(&gen.Node{Tag: "p", ID: s, ObjRef: "o0", Inline: txt(st("x"))})
		}},
		{"attr-value-beside-dynamic-attr", true, func(s string) bool { return s != "" && !strings.ContainsAny(s, "\n\r") }, func(s string) *gen.Node {
			return el(&gen.Node{Tag: "p", Attrs: []gen.Attr{{Name: "t", Kind: gen.AStatic, Value: s, ValQuote: '"'}, {Name: "u", Kind: gen.ADynamic, Expr: "s0"}, {Name: "c", Kind: gen.ACond, Expr: "b0"}}, Inline: txt(st("x"))})
		}},
		{"text-before-interpolation", false, func(s string) bool { return noneOf("\n\r")(s) && !strings.Contains(s, "#{") && !strings.ContainsAny(s[:1], "%#.-=/:!\\<>[{") && !strings.HasSuffix(s, `\`) },
			func(s string) *gen.Node { return txt(st(s), dyn("s0"), st(s)) }},
		// a backslash that ends the static text in front of an interpolation is written twice
		{"text-escaped-backslash-before-interpolation", false, func(s string) bool { return noneOf("\n\r")(s) && !strings.Contains(s, "#{") && !strings.ContainsAny(s[:1], "%#.-=/:!\\<>[{") && !strings.HasSuffix(s, `\`) },
			func(s string) *gen.Node { return txt(st(s), gen.Part{EscBackslash: true}, dyn("s0"), st(" "+s)) }},
		{"elem-text-escaped-backslash-before-interpolation", false, func(s string) bool { return noneOf("\n\r")(s) && !strings.Contains(s, "#{") && !strings.ContainsAny(s[:1], "=/<>!-") && !strings.HasSuffix(s, `\`) },
			func(s string) *gen.Node { return el(&gen.Node{Tag: "p", Inline: txt(st(s), gen.Part{EscBackslash: true}, dyn("s0"))}) }},
		{"filter-plain-before-interpolation", false, func(s string) bool { return noneOf("\n\r")(s) && !strings.Contains(s, "#") },
			func(s string) *gen.Node { return &gen.Node{Kind: gen.KFilter, Filter: "plain", Lines: [][]gen.Part{{st(s), dyn("s0"), st(s)}}} }},
		{"filter-preserve-before-interpolation", false, func(s string) bool { return noneOf("\n\r")(s) && !strings.Contains(s, "#") },
			func(s string) *gen.Node { return &gen.Node{Kind: gen.KFilter, Filter: "preserve", Lines: [][]gen.Part{{st(s), dyn("s0"), st(s)}, {st(s)}}} }},
		{"filter-escaped-before-interpolation", true, func(s string) bool { return noneOf("\n\r")(s) && !strings.Contains(s, "#") },
			func(s string) *gen.Node { return &gen.Node{Kind: gen.KFilter, Filter: "escaped", Lines: [][]gen.Part{{st(s), dyn("s0"), st(s)}}} }},
		{"comment", true, func(s string) bool { return noneOf("\n\r")(s) && !strings.HasPrefix(s, "/") }, func(s string) *gen.Node {
			return &gen.Node{Kind: gen.KComment, Code: s}
		}},
	}
}

var c04Strings = []string{"plain", "a\ufeffb", "zero\u200bwidth", "nb\u00a0sp", "ls\u2028ps\u2029", "nel\u0085", "\u00ad", "\ufffd", "\U000e0001", "Ċč", "Ġ", "Ĩĩ", "Ģģ", "ĺĬ", "ĿĽ", "ŻŽ", "śŝ", "Įĥį", "上不😊", `ends in \n`, `n\`, "nn", `\\n`, "x#", "##", "#é", "a# b", "é#", "a&b", `a"b`, "a'b", `say "hi"`, `back\slash`, "tick`tock", `a\nb`, `\"`, `\x`, `\t`, "{x}", "# h", "a#b", "50% off", "a&b", "<b>", "it's", "ünï", "日本", "a😀b", "x}y", "{", "q?", "a:b", "a,b", "a=b", "~☢<", ">☢~", "tab\there", `\`, `\\`, `"`, "`", "'", "&amp;", "a-b_c", "x.y", "@k", "a/b"}

func c04(c *Ctx) {
	c.tieQuote()
	c.Rep.TieObs = []string{"O-emit.text (generated Go, byte for byte)", "O-render", "O-std: goLiteral (strconv.Quote) vs quoteBody, and strconv.Unquote vs litDecode, on bytes / runes at every IsPrint boundary / random byte strings"}
	c.Rep.Rule = "every static-content position of the grammar (18) x the strings of the adversarial alphabet that the position's documented lexical restrictions admit, one template per (position, string, layout: one-line attribute lists with LF, multi-line attribute lists with LF, multi-line with CRLF); oracle: the generated file must parse/gofmt/build, and the rendered output must equal the generator intent (raw positions byte for byte; escaped positions character for character once entities are decoded); distinct = distinct (position, string)"
	f := &gen.File{Package: "main"}
	f.Chrome = append(f.Chrome, gen.Chrome+"\nfunc f2(a, b string) string { return a + b }\n")
	type meta struct {
		site   string
		s      string
		layout int
	}
	metas := map[string]meta{}
	siteEscaped := map[string]bool{}
	for _, ss := range staticSites() {
		siteEscaped[ss.name] = ss.escaped
	}
	vals := append([]string{}, c04Strings...)
	if c.Thorough() {
		alpha := []string{`"`, `\`, "`", "'", "{", "}", "#", "%", "&", "<", ">", "n", "t", "x", "é", " ", "a", "=", "~", "☢"}
		for _, a := range alpha {
			for _, b := range alpha {
				vals = append(vals, a+b)
				if c.R.Intn(6) == 0 {
					vals = append(vals, a+b+alpha[c.R.Intn(len(alpha))])
				}
			}
		}
	}
	// one file per site kind, so that a site whose splice breaks the generated Go does not take the others down
	// every position is written in three layouts: one-line attribute lists and LF line ends; attribute lists
	// spread over several lines (the position is then the last thing on its line); the same with CRLF line ends
	var cases []*RenderCase
	for layout := 0; layout < 3; layout++ {
		for si, ss := range staticSites() {
			f = &gen.File{Package: "main"}
			f.Chrome = append(f.Chrome, gen.Chrome+"\nfunc f2(a, b string) string { return a + b }\n")
			var names []string
			for vi, v := range vals {
				if !ss.ok(v) {
					continue
				}
				if layout > 0 && c.Thorough() && vi >= len(c04Strings) && c.R.Intn(4) != 0 {
					continue
				}
				name := fmt.Sprintf("T%dV%dL%d", si, vi, layout)
				nd := ss.node(v)
				if layout > 0 {
					nd.AttrLayout = 2
				}
				f.Templates = append(f.Templates, &gen.Template{Name: name, Sig: gen.Sig, Body: []*gen.Node{nd, {Kind: gen.KElem, Tag: "hr"}}})
				names = append(names, name)
				metas[name] = meta{ss.name, v, layout}
			}
			if len(names) == 0 {
				continue
			}
			prepFile(f)
			p, src := f.Print()
			if layout == 2 {
				f.CRLF = true
				src = strings.ReplaceAll(src, "\n", "\r\n")
			}
			rc := &RenderCase{File: f, Printer: p, Src: src, Names: names, Envs: []rt.Env{{S0: "s", B0: true, O0: rt.Obj{ID: "i", Class: "oc"}}}}
			for _, n := range names {
				rc.Jobs = append(rc.Jobs, rt.Job{Name: n})
			}
			cases = append(cases, rc)
		}
	}
	// a file whose generated Go does not build is split into single-template files to find the culprits
	c.renderBoth(cases)
	var singles []*RenderCase
	for _, rc := range cases {
		if rc.Stage == "ok" {
			continue
		}
		for _, t := range rc.File.Templates {
			f1 := &gen.File{Package: "main", Chrome: []string{gen.Chrome + "\nfunc f2(a, b string) string { return a + b }\n"}, Templates: []*gen.Template{t}}
			prepFile(f1)
			p, src := f1.Print()
			if strings.Contains(rc.Src, "\r\n") {
				f1.CRLF = true
				src = strings.ReplaceAll(src, "\n", "\r\n")
			}
			singles = append(singles, &RenderCase{File: f1, Printer: p, Src: src, Names: []string{t.Name}, Envs: []rt.Env{{S0: "s", B0: true, O0: rt.Obj{ID: "i", Class: "oc"}}}, Jobs: []rt.Job{{Name: t.Name}}})
		}
	}
	if len(singles) > c.N(400, 4000) {
		singles = singles[:c.N(400, 4000)]
	}
	c.renderBoth(singles)
	all := append([]*RenderCase{}, singles...)
	for _, rc := range cases {
		if rc.Stage == "ok" {
			all = append(all, rc)
		}
	}
	c.tieRender(all, true)
	// generated text tie (O-emit) on every file
	var ins [][]byte
	for _, rc := range all {
		ins = append(ins, []byte(rc.Src))
	}
	c.tieCompile(c.compileBoth(ins), map[string]bool{"text": true, "accept": true, "outcome": true})
	for _, rc := range all {
		for ji, j := range rc.Jobs {
			m := metas[j.Name]
			c.Rep.OracleCases++
			c.dist("site." + m.site)
			c.dist("layout." + [...]string{"one-line-lf", "multi-line-lf", "multi-line-crlf"}[m.layout])
			c.distinct(m.site + "\x00" + m.s)
			trigger := "plain"
			switch {
			case strings.Contains(m.s, "☢"):
				trigger = "marker"
			case strings.ContainsAny(m.s, `"\`):
				trigger = "quote-or-backslash"
			case strings.ContainsAny(m.s, "&<>'"):
				trigger = "html-meta"
			}
			report := func(kind, what string) {
				sig := "C04/" + kind + "/" + m.site + "/" + trigger
				if trigger == "marker" {
					sig = "C04/sentinel-in-content"
				}
				c.fail(sig, fmt.Sprintf("static %s %q: %s", m.site, m.s, what),
					map[string]any{"template": templateSrc(rc.Src, j.Name), "site": m.site, "content": m.s, "file_hex": hx([]byte(rc.Src))})
			}
			if rc.Stage != "ok" {
				report("breaks-generated-code", "the template is accepted but the generated Go does not "+map[string]string{"parse": "parse (rejected)", "gofmt": "parse", "gobuild": "compile", "generate": "generate"}[rc.Stage]+": "+clip(strings.TrimSpace(rc.Detail), 160))
				continue
			}
			if vd, ok := judge(rc, ji); ok && vd.kind != "" {
				// escaped positions are compared once entities are decoded (token level); raw positions byte for byte
				if siteEscaped[m.site] && vd.kind == "whitespace" && html.UnescapeString(vd.got) == html.UnescapeString(vd.want) {
					continue
				}
				report("altered", fmt.Sprintf("rendered %q, expected %q", clip(vd.got, 100), clip(vd.want, 100)))
			}
		}
	}
}
