package main

import (
	"fmt"
	"strings"
)

func init() { props["C09"] = c09 }

var posMethods = []string{"Completion", "Hover", "Definition", "Declaration", "TypeDefinition", "Implementation", "References", "SignatureHelp", "PrepareRename", "OnTypeFormatting", "Moniker"}

type tables struct {
	s2t map[[2]int][2]int
	t2s map[[2]int][2]int
}

func tablesOf(o CompObs) tables {
	t := tables{map[[2]int][2]int{}, map[[2]int][2]int{}}
	for _, e := range parseEntries(o.S2T) {
		t.s2t[[2]int{e.a, e.b}] = [2]int{e.c, e.d}
	}
	for _, e := range parseEntries(o.T2S) {
		t.t2s[[2]int{e.a, e.b}] = [2]int{e.c, e.d}
	}
	return t
}

func (t tables) mapRangeBack(r PRng) PRng {
	out := r
	if p, ok := t.t2s[[2]int{int(r.SL), int(r.SC)}]; ok {
		out.SL, out.SC = uint32(p[0]), uint32(p[1])
	}
	if p, ok := t.t2s[[2]int{int(r.EL), int(r.EC)}]; ok {
		out.EL, out.EC = uint32(p[0]), uint32(p[1])
	}
	return out
}

func prng(r PRng) string { return fmt.Sprintf("%d:%d-%d:%d", r.SL, r.SC, r.EL, r.EC) }

func c09(c *Ctx) {
	c.Rep.TieObs = []string{"O-proxy: downstream request parameters and the reply of every overridden position-based method"}
	c.Rep.Rule = "for each of 11 position-based methods (+ CodeLens, CodeAction) x every character position of two open template documents (mapped and unmapped) x seven scripted downstream answers (range inside mapped text, across two mapped segments, from mapped into unmapped text, in generated boilerplate, in another generated file, at the very first character of a generated file's template (0:0), in a plain .go file); oracle from the real Compose tables: downstream is asked about the generated file at map(position); unmapped position => empty answer, no error, downstream not consulted; answers in generated files come back in template coordinates under the template URI, plain .go locations unchanged; distinct = distinct (method, document, position, answer shape)"
	docA := "package x\n\n@goht A(s string,\n\tn int) {\n\t%p= s\n\t%i= %d n\n\t%a{href: #{s}, n ? #{n > 1}} t #{s} u\n\t- if n > 2\n\t\t= @render B(s)\n}\n"
	docB := "package x\n\n@goht B(s string) {\n\t.c[s]= s\n}\n"
	// a template without a package clause whose first line is Go code: its very first character (0:0) is mapped text
	docC := "var greeting = \"hi\"\n\n@goht C() {\n\t%p= greeting\n}\n"
	uA, uB, uGo, uC := "file:///w/a.goht", "file:///w/x.goht.d/b.goht", "file:///w/plain.go", "file:///w/c.goht"
	real := c.composeReal([]string{docA, docB, docC})
	tA, tB, tC := tablesOf(real[docA]), tablesOf(real[docB]), tablesOf(real[docC])
	// the generated range that is the copy of the first three characters of docC
	var origin PRng
	for k, v := range tC.t2s {
		if v == [2]int{0, 0} {
			origin = PRng{uint32(k[0]), uint32(k[1]), uint32(k[0]), uint32(k[1] + 3)}
		}
	}
	if real[docC].Err != "-" || origin == (PRng{}) {
		c.mismatch("setup", docC, real[docC].Err, "accepted, with its first character mapped", true)
		return
	}
	if real[docA].Err != "-" || real[docB].Err != "-" || len(tA.s2t) == 0 {
		c.mismatch("setup", docA, real[docA].Err+" / "+real[docB].Err, "both documents accepted", true)
		return
	}
	// a mapped generated range of A (the `s` of `%p= s`) and of B, a boilerplate range, a plain range
	pick := func(t tables) PRng {
		for k := range t.t2s {
			if _, ok := t.t2s[[2]int{k[0], k[1] + 1}]; ok && k[0] > 10 {
				return PRng{uint32(k[0]), uint32(k[1]), uint32(k[0]), uint32(k[1] + 1)}
			}
		}
		return PRng{}
	}
	// deterministic choice: smallest key
	// the range must be one that the *other* document's map would translate differently, so that using the
	// wrong document's map is visible
	best := func(t, other tables) PRng {
		var bk [2]int
		found := false
		for k := range t.t2s {
			if _, ok := t.t2s[[2]int{k[0], k[1] + 1}]; !ok || k[0] < 10 {
				continue
			}
			r := PRng{uint32(k[0]), uint32(k[1]), uint32(k[0]), uint32(k[1] + 1)}
			if t.mapRangeBack(r) == other.mapRangeBack(r) {
				continue
			}
			if !found || k[0] < bk[0] || (k[0] == bk[0] && k[1] < bk[1]) {
				bk, found = k, true
			}
		}
		_ = pick
		return PRng{uint32(bk[0]), uint32(bk[1]), uint32(bk[0]), uint32(bk[1] + 1)}
	}
	mA, mB := best(tA, tB), best(tB, tA)
	if mA == (PRng{}) || mB == (PRng{}) {
		c.mismatch("setup", docA, "no distinguishing range", "a generated range the two maps translate differently", true)
		return
	}
	// a range from one mapped segment into ANOTHER mapped segment of the same generated line (`%d` and `n` of
	// goht.FormatString("%d", n)), and one from mapped text into unmapped text of the same line
	var twoSeg, intoBoiler PRng
	for k := range tA.t2s {
		for c2 := k[1] + 2; c2 < k[1]+12; c2++ {
			_, endMapped := tA.t2s[[2]int{k[0], c2}]
			_, gap := tA.t2s[[2]int{k[0], c2 - 1}]
			if endMapped && !gap && k[0] > 10 {
				cand := PRng{uint32(k[0]), uint32(k[1]), uint32(k[0]), uint32(c2)}
				if twoSeg == (PRng{}) || cand.SL < twoSeg.SL || (cand.SL == twoSeg.SL && (cand.SC < twoSeg.SC || (cand.SC == twoSeg.SC && cand.EC < twoSeg.EC))) {
					twoSeg = cand
				}
			}
		}
	}
	intoBoiler = PRng{mA.SL, mA.SC, mA.SL, mA.SC + 40}
	if twoSeg == (PRng{}) {
		c.mismatch("setup", docA, "no generated line with two mapped segments", "a format-verb line", true)
		return
	}
	boiler := PRng{5, 0, 5, 6} // `import "context"` line of the generated file: not mapped
	plain := PRng{3, 1, 3, 9}
	answers := []struct {
		name string
		loc  PLoc
	}{
		{"mapped-same-file", PLoc{uA + ".go", mA}},
		{"boilerplate", PLoc{uA + ".go", boiler}},
		{"other-generated-file", PLoc{uB + ".go", mB}},
		{"plain-go-file", PLoc{uGo, plain}},
		{"mapped-same-file/two-segments", PLoc{uA + ".go", twoSeg}},
		{"mapped-same-file/into-unmapped-text", PLoc{uA + ".go", intoBoiler}},
		{"origin-of-another-generated-file", PLoc{uC + ".go", origin}},
	}
	lines := strings.Split(docA, "\n")
	type reqInfo struct {
		method string
		line   int
		col    int
		ans    int
	}
	ops := []POp{{Op: "open", URI: uA, Text: docA, Version: 1}, {Op: "open", URI: uB, Text: docB, Version: 1}, {Op: "open", URI: uC, Text: docC, Version: 1}}
	const nOpen = 3
	var infos []reqInfo
	step := c.N(3, 1)
	for _, m := range posMethods {
		for li, l := range lines {
			for col := 0; col <= len(l); col += step {
				for ai := range answers {
					if !c.Thorough() && (li+col+ai)%2 == 1 {
						continue
					}
					ops = append(ops, POp{Op: "req", Method: m, URI: uA, Line: uint32(li), Char: uint32(col), Answer: []PLoc{answers[ai].loc}, Detail: ""})
					infos = append(infos, reqInfo{m, li, col, ai})
				}
			}
		}
	}
	for _, m := range []string{"CodeLens", "CodeAction"} {
		for ai := range answers[:2] {
			ops = append(ops, POp{Op: "req", Method: m, URI: uA, Answer: []PLoc{answers[ai].loc}})
			infos = append(infos, reqInfo{m, -1, -1, ai})
		}
	}
	// one completion answer whose items replace ranges with the same start and different ends
	nBeforeMulti := len(ops)
	multiAns := []PLoc{{uA + ".go", mA}, {uA + ".go", PRng{mA.SL, mA.SC, mA.SL, mA.SC}}, {uA + ".go", twoSeg}, {uA + ".go", PRng{twoSeg.SL, twoSeg.SC, twoSeg.SL, twoSeg.SC + 1}}}
	var multiPos [2]int
	for k := range tA.s2t {
		multiPos = k
		break
	}
	for k := range tA.s2t { // deterministic: the smallest mapped position
		if k[0] < multiPos[0] || (k[0] == multiPos[0] && k[1] < multiPos[1]) {
			multiPos = k
		}
	}
	ops = append(ops, POp{Op: "req", Method: "Completion", URI: uA, Line: uint32(multiPos[0]), Char: uint32(multiPos[1]), Answer: multiAns, Detail: "\x1f\x1f\x1f"})
	// answers with several locations, plain Go files and generated files in either order: every location is
	// translated on its own (or left alone), wherever it stands in the list
	nBeforeLists := len(ops)
	type listCase struct {
		method string
		locs   []PLoc
	}
	var listCases []listCase
	for _, m := range []string{"Definition", "TypeDefinition", "Implementation", "References"} {
		for _, order := range [][]int{{3, 0, 2}, {0, 3, 2, 6}, {2, 3, 3, 0}, {3}} {
			var locs []PLoc
			for _, k := range order {
				locs = append(locs, answers[k].loc)
			}
			listCases = append(listCases, listCase{m, locs})
			ops = append(ops, POp{Op: "req", Method: m, URI: uA, Line: uint32(multiPos[0]), Char: uint32(multiPos[1]), Answer: locs})
		}
	}
	// the same questions after an edit that moves template text but leaves the generated code byte-identical
	// (a blank line and a `-#` comment above the first dynamic line): the map in force must be the new one
	docA2 := strings.Replace(docA, "\t%p= s\n", "\n\t-# note\n\t%p= s\n", 1)
	realA2 := c.composeReal([]string{docA2})[docA2]
	tA2 := tablesOf(realA2)
	nMain := len(infos)
	if realA2.Err == "-" {
		ops = append(ops, POp{Op: "change", URI: uA, Text: docA2, Version: 2})
		for _, m := range []string{"Hover", "Definition", "Completion"} {
			for li, l := range strings.Split(docA2, "\n") {
				for col := 0; col <= len(l); col++ {
					ops = append(ops, POp{Op: "req", Method: m, URI: uA, Line: uint32(li), Char: uint32(col), Answer: []PLoc{answers[0].loc}})
					infos = append(infos, reqInfo{m, li, col, 0})
				}
			}
		}
	}
	// the sibling templates are closed in the editor; their generated files are still on disk and the Go server
	// still answers with locations in them
	nBeforeClosed := len(ops)
	ops = append(ops, POp{Op: "close", URI: uB}, POp{Op: "close", URI: uC})
	var closedCases []listCase
	for _, m := range []string{"Definition", "TypeDefinition", "Implementation", "References"} {
		for _, order := range [][]int{{2}, {3, 2, 6}, {6, 3}} {
			var locs []PLoc
			for _, k := range order {
				locs = append(locs, answers[k].loc)
			}
			closedCases = append(closedCases, listCase{m, locs})
			ops = append(ops, POp{Op: "req", Method: m, URI: uA, Line: uint32(multiPos[0]), Char: uint32(multiPos[1]), Answer: locs})
		}
	}
	log, err := c.runProxy(ops)
	if err != nil || len(log) != len(ops) {
		c.fail("C09/runner", fmt.Sprintf("the proxy did not complete the script: %v (%d of %d)", err, len(log), len(ops)), map[string]any{"ops": len(ops)})
		return
	}
	c.tieProxy([][]POp{ops}, [][][]PEvent{log})
	for k, lc := range closedCases {
		reply := ""
		for _, ev := range log[nBeforeClosed+2+k] {
			if ev.Kind == "R" {
				reply = strings.Join(ev.F, " ")
			}
		}
		var want []string
		for _, l := range lc.locs {
			switch {
			case l.URI == uB+".go":
				want = append(want, uB+"@"+prng(tB.mapRangeBack(l.R)))
			case l.URI == uC+".go":
				want = append(want, uC+"@"+prng(tC.mapRangeBack(l.R)))
			default:
				want = append(want, l.URI+"@"+prng(l.R))
			}
		}
		c.Rep.OracleCases++
		c.distinct(fmt.Sprintf("%s/list-after-close/%d", lc.method, k))
		if w := lc.method + " [" + strings.Join(want, ",") + "]"; reply != w {
			c.fail("C09/"+lc.method+"/location-in-closed-template", lc.method+" answered with locations in the generated files of templates that were closed: reply "+reply+", expected "+w,
				map[string]any{"answers": lc.locs, "events": rawEvents(log[nBeforeClosed+2+k]), "docA": docA})
		}
	}
	// oracle for the multi-item completion: item k carries the template range of the k-th scripted range
	{
		reply := ""
		for _, ev := range log[nBeforeMulti] {
			if ev.Kind == "R" {
				reply = strings.Join(ev.F, " ")
			}
		}
		var want []string
		for _, a := range multiAns {
			want = append(want, prng(tA.mapRangeBack(a.R))+"+")
		}
		c.Rep.OracleCases++
		if w := "Completion [" + strings.Join(want, ",") + "]"; reply != w {
			c.fail("C09/Completion/multi-item-ranges", "completion items with different replace ranges: reply "+reply+", expected "+w,
				map[string]any{"answers": multiAns, "events": rawEvents(log[nBeforeMulti]), "docA": docA})
		}
	}
	// oracle for the location lists
	for k, lc := range listCases {
		reply := ""
		for _, ev := range log[nBeforeLists+k] {
			if ev.Kind == "R" {
				reply = strings.Join(ev.F, " ")
			}
		}
		var want []string
		for _, l := range lc.locs {
			switch {
			case l.URI == uA+".go":
				want = append(want, uA+"@"+prng(tA.mapRangeBack(l.R)))
			case l.URI == uB+".go":
				want = append(want, uB+"@"+prng(tB.mapRangeBack(l.R)))
			case l.URI == uC+".go":
				want = append(want, uC+"@"+prng(tC.mapRangeBack(l.R)))
			default:
				want = append(want, l.URI+"@"+prng(l.R))
			}
		}
		c.Rep.OracleCases++
		c.distinct(fmt.Sprintf("%s/list/%d", lc.method, k))
		if w := lc.method + " [" + strings.Join(want, ",") + "]"; reply != w {
			c.fail("C09/"+lc.method+"/location-list", lc.method+" with "+fmt.Sprint(len(lc.locs))+" locations (plain Go files and generated files mixed): reply "+reply+", expected "+w,
				map[string]any{"answers": lc.locs, "events": rawEvents(log[nBeforeLists+k]), "docA": docA})
		}
	}
	for i, info := range infos {
		evs := log[i+nOpen]
		if i >= nMain {
			evs = log[i+nOpen+2+len(listCases)] // the multi-item completion, the location lists and the change op precede the second round
			tA = tA2
		}
		c.Rep.OracleCases++
		c.dist("method." + info.method)
		c.distinct(fmt.Sprintf("%s/%d/%d/%d", info.method, info.line, info.col, info.ans))
		var downs []PEvent
		reply := ""
		for _, ev := range evs {
			if ev.Kind == "D" {
				downs = append(downs, ev)
			}
			if ev.Kind == "R" {
				reply = strings.Join(ev.F, " ")
			}
		}
		if i%401 == 0 {
			c.sample(map[string]any{"method": info.method, "pos": []int{info.line, info.col}, "answer": answers[info.ans].name, "reply": reply})
		}
		bad := func(kind, what string) {
			c.fail("C09/"+info.method+"/"+kind, fmt.Sprintf("%s at %d:%d (answer %s): %s", info.method, info.line, info.col, answers[info.ans].name, what),
				map[string]any{"method": info.method, "line": info.line, "col": info.col, "answer": answers[info.ans], "events": rawEvents(evs), "docA": docA, "docB": docB})
		}
		if strings.HasPrefix(reply, "panic") {
			bad("panic", reply)
			continue
		}
		ans := answers[info.ans]
		if info.line >= 0 {
			to, mapped := tA.s2t[[2]int{info.line, info.col}]
			if !mapped {
				c.dist("pos.unmapped")
				if len(downs) != 0 {
					bad("unmapped-consulted", "the position has no counterpart in generated code but the downstream server was consulted: "+downs[0].Raw)
				}
				if strings.Contains(reply, "error") || strings.Contains(reply, "err=true") {
					bad("unmapped-error", "the position has no counterpart but the client gets an error: "+reply)
				} else if !emptyReply(reply) {
					bad("unmapped-nonempty", "the position has no counterpart but the answer is not empty: "+reply)
				}
				continue
			}
			c.dist("pos.mapped")
			if len(downs) != 1 {
				bad("request-count", fmt.Sprintf("%d downstream calls", len(downs)))
				continue
			}
			if downs[0].F[1] != uA+".go" {
				bad("request-uri", "downstream asked about "+downs[0].F[1])
			}
			if want := fmt.Sprintf("%d:%d", to[0], to[1]); kv(downs[0].F, "pos") != want {
				bad("request-position", fmt.Sprintf("downstream asked at %s, the map assigns %s", kv(downs[0].F, "pos"), want))
			}
		}
		// reply: where the scripted location must end up
		wantURI, wantR := ans.loc.URI, ans.loc.R
		ansName := ans.name
		if strings.HasPrefix(ansName, "mapped-same-file") {
			ansName = "mapped-same-file"
		}
		switch ansName {
		case "mapped-same-file":
			wantURI, wantR = uA, tA.mapRangeBack(ans.loc.R)
		case "boilerplate":
			wantURI = uA // no template coordinates exist for boilerplate: only the URI is judged
		case "other-generated-file":
			wantURI, wantR = uB, tB.mapRangeBack(ans.loc.R)
		case "origin-of-another-generated-file":
			wantURI, wantR = uC, tC.mapRangeBack(ans.loc.R)
		}
		switch info.method {
		case "Definition", "TypeDefinition", "Implementation", "References":
			want := fmt.Sprintf("%s [%s@%s]", info.method, wantURI, prng(wantR))
			if ansName == "boilerplate" {
				if !strings.Contains(reply, "["+wantURI+"@") {
					bad("reply-uri", "reply "+reply+", expected a location under "+wantURI)
				}
			} else if reply != want {
				bad("reply-"+ansName, "reply "+reply+", expected "+want)
			}
		case "Declaration":
			want := fmt.Sprintf("Declaration [%s@%s@%s]", wantURI, prng(wantR), prng(wantR))
			if ansName == "boilerplate" {
				if !strings.Contains(reply, "["+wantURI+"@") {
					bad("reply-uri", "reply "+reply)
				}
			} else if reply != want {
				bad("reply-"+ansName, "reply "+reply+", expected "+want)
			}
		case "Hover", "PrepareRename":
			// a single range of the requesting document
			if ansName == "mapped-same-file" {
				if want := info.method + " " + prng(tA.mapRangeBack(ans.loc.R)); reply != want {
					bad("reply-range", "reply "+reply+", expected "+want)
				}
			}
		case "OnTypeFormatting", "CodeLens", "CodeAction":
			if ansName == "mapped-same-file" {
				if want := info.method + " [" + prng(tA.mapRangeBack(ans.loc.R)) + "]"; reply != want {
					bad("reply-range", "reply "+reply+", expected "+want)
				}
			}
		case "Completion":
			if ansName == "mapped-same-file" {
				if want := "Completion [" + prng(tA.mapRangeBack(ans.loc.R)) + "+]"; reply != want {
					bad("reply-range", "reply "+reply+", expected "+want)
				}
			}
		}
	}
}

func emptyReply(r string) bool {
	return strings.HasSuffix(r, " nil") || strings.HasSuffix(r, " []") || strings.Contains(r, "nil=true") || strings.Contains(r, "n=0")
}

func rawEvents(evs []PEvent) []string {
	var out []string
	for _, e := range evs {
		out = append(out, clip(e.Raw, 200))
	}
	return out
}
