package main

import (
	"bytes"
	"encoding/json"
	"fmt"
	"os/exec"
	"path/filepath"
	"strconv"
	"strings"
)

func init() {
	props["C17"] = c17
	props["C20"] = c20
}

type edDiag struct {
	r      PRng
	source string
	msg    string
}

func parseEdDiags(ev PEvent) (string, []edDiag) {
	// E diag <uri> [r=src=msghex,...]
	uri := ev.F[1]
	body := strings.TrimSuffix(strings.TrimPrefix(strings.Join(ev.F[2:], " "), "["), "]")
	var out []edDiag
	if body == "" {
		return uri, out
	}
	for _, it := range strings.Split(body, ",") {
		p := strings.SplitN(it, "=", 3)
		var r PRng
		fmt.Sscanf(p[0], "%d:%d-%d:%d", &r.SL, &r.SC, &r.EL, &r.EC)
		out = append(out, edDiag{r, p[1], string(unhx(p[2]))})
	}
	return uri, out
}

func c17(c *Ctx) {
	c.Rep.TieObs = []string{"O-proxy: the editor notification log (PublishDiagnostics, ShowMessage) of the real proxy.Server + proxy.Client"}
	c.Rep.Rule = "interleavings of buffer changes (alternating valid and invalid contents) on the editor connection with diagnostic publications of the downstream server (ranges inside mapped text on one line, across lines, and in boilerplate) and ShowMessage calls; exhaustive up to a length bound, random beyond, every second history also with the publications that follow a change delivered from the downstream connection before the proxy's didChange returns, plus pairs delivered from two goroutines in a -race build; oracle on every notification: template URI only, mapped ranges moved to the template position, the compiler's own error present (at the compiler's line/column, 0-based) exactly while the buffer fails to compile; distinct = distinct history; non-trivial = history with a publication while the buffer is invalid"
	u := "file:///w/a.goht"
	// (no package clause, Go code on the first line: the very first character of the template, 0:0, is mapped text)
	valid := "var greeting = \"hi\"\n\n@goht T(s string, n int) {\n\t%p= s\n\t%a{href: #{s},\n\t\tn ? #{n > 1}} t\n}\n"
	invalid := []string{"package x\n\n@goht T(s string, n int) {\n\t%p= s\n\t\t\t%b too deep\n}\n", "package x\n\n@goht T(s string, n int) {\n\t%p= s\n", "package x\n\n@goht T(s string, n int) {\n\t%p= s\n\t:nosuch\n\t\tx\n}\n",
		// errors the compiler raises at the root of the file (it reports them at line 0, column 0)
		"package\n", "package x\n\nimport (\n\t\"fmt\"\n"}
	// a second buffer that compiles: the same expressions two lines further down and one level deeper, so that a
	// publication translated with the map of the previous buffer lands somewhere else
	valid2 := "package x\n\n@goht T(s string, n int) {\n\t%hr\n\t%div\n\t\t%p= s\n\t\t%a{href: #{s},\n\t\t\tn ? #{n > 1}} t\n}\n"
	// a third one whose generated code is byte for byte that of the first, with the template text one and two lines
	// further down (a blank line and a `-#` comment): only the position map differs
	valid3 := strings.Replace(valid, "\t%p= s\n", "\n\t-# note\n\t%p= s\n", 1)
	texts := append([]string{valid, valid2, valid3}, invalid...)
	real := c.composeReal(texts)
	tv := tablesOf(real[valid])
	tabs := map[string]tables{valid: tv, valid2: tablesOf(real[valid2]), valid3: tablesOf(real[valid3])}
	// diagnostics the downstream may publish for the generated file of `valid`
	var mappedKeys [][2]int
	for k := range tv.t2s {
		if _, ok := tv.t2s[[2]int{k[0], k[1] + 1}]; ok {
			mappedKeys = append(mappedKeys, k)
		}
	}
	sortKeys(mappedKeys)
	if len(mappedKeys) < 4 {
		c.mismatch("setup", valid, "too few mapped positions", "", true)
		return
	}
	k0, k1 := mappedKeys[0], mappedKeys[len(mappedKeys)-2]
	diagPool := []PDiag{
		{PRng{uint32(k0[0]), uint32(k0[1]), uint32(k0[0]), uint32(k0[1] + 1)}, "same line, mapped"},
		{PRng{uint32(k0[0]), uint32(k0[1]), uint32(k1[0]), uint32(k1[1])}, "across lines, mapped"},
		{PRng{5, 0, 5, 6}, "boilerplate"},
		{PRng{uint32(k1[0]), uint32(k1[1]), uint32(k1[0]), uint32(k1[1] + 3)}, "second fragment"},
	}
	gen := func(n int) []POp {
		var ops []POp
		if c.R.Intn(4) == 0 {
			// the Go language server publishes for the generated file before the editor has opened the template
			// (it reads the package from disk)
			ops = append(ops, POp{Op: "pubdiag", URI: u + ".go", Diags: []PDiag{diagPool[c.R.Intn(len(diagPool))]}})
		}
		ops = append(ops, POp{Op: "open", URI: u, Text: valid, Version: 1})
		v := int32(1)
		for len(ops) < n {
			switch c.R.Intn(6) {
			case 0, 1:
				v++
				ops = append(ops, POp{Op: "change", URI: u, Text: texts[c.R.Intn(len(texts))], Version: v})
			case 2, 3, 4:
				var ds []PDiag
				for k := c.R.Intn(3); k >= 0; k-- {
					ds = append(ds, diagPool[c.R.Intn(len(diagPool))])
				}
				if c.R.Intn(5) == 0 {
					ds = nil
				}
				if c.R.Intn(8) == 0 {
					// … or for a sibling template of the package that the editor never opened
					ops = append(ops, POp{Op: "pubdiag", URI: "file:///w/never-opened.goht.go", Diags: ds})
					continue
				}
				ops = append(ops, POp{Op: "pubdiag", URI: u + ".go", Diags: ds})
			case 5:
				ops = append(ops, POp{Op: "showmsg", Message: []string{"Do not edit this file! (a.goht.go)", "gopls: loading packages", "Do not edit",
					// messages that only mention the warning's words: they are other messages, and are relayed
					"Error loading workspace: go.mod:3: unknown directive: \"Do not edit this file!\"", "go.sum is out of sync. Do not edit this file!", " Do not edit this file!"}[c.R.Intn(6)]})
			}
		}
		return ops
	}
	var hists [][]POp
	for i := 0; i < c.N(300, 12000); i++ {
		hists = append(hists, gen(3+c.R.Intn(c.N(8, 14))))
	}
	judge := func(h []POp, log [][]PEvent, tag string) {
		cur := valid
		nontrivial := false
		for oi, op := range h {
			if op.Op == "open" || op.Op == "change" {
				cur = op.Text
			}
			if op.Par > 1 {
				return // concurrent blocks are judged for races and panics only
			}
			bad := func(kind, what string) {
				c.fail("C17/"+kind, what+" ("+tag+")", map[string]any{"history": h[:oi+1], "events": rawEvents(log[oi])})
			}
			cerr := real[cur].Err
			if op.Op == "showmsg" && !strings.HasPrefix(op.Message, "Do not edit this file!") {
				// any other message of the Go language server reaches the editor, unchanged
				relayed := false
				for _, ev := range log[oi] {
					if ev.Kind == "E" && ev.F[0] == "msg" && string(unhx(ev.F[1])) == op.Message {
						relayed = true
					}
				}
				if !relayed {
					bad("message-not-relayed", fmt.Sprintf("the message %q of the Go language server is not relayed to the editor", op.Message))
				}
			}
			for _, ev := range log[oi] {
				if ev.Kind == "R" && len(ev.F) > 0 && ev.F[0] == "panic" {
					bad("panic", ev.Raw)
				}
				if ev.Kind == "E" && ev.F[0] == "msg" {
					m := string(unhx(ev.F[1]))
					if strings.HasPrefix(m, "Do not edit this file!") {
						bad("do-not-edit-relayed", "the do-not-edit warning of the Go language server is relayed to the editor")
					}
				}
				if ev.Kind != "E" || ev.F[0] != "diag" {
					continue
				}
				uri, ds := parseEdDiags(ev)
				if strings.HasSuffix(uri, ".goht.go") || uri != u {
					bad("published-under-generated-uri", "diagnostics published under "+uri)
					continue
				}
				// the compiler's own error
				var own []edDiag
				for _, d := range ds {
					if d.source == "goht" {
						own = append(own, d)
					}
				}
				if cerr == "-" {
					if len(own) > 0 {
						bad("stale-compiler-error", "the buffer compiles but the notification still carries the compiler's error")
					}
				} else {
					nontrivial = nontrivial || op.Op == "pubdiag"
					p := strings.SplitN(cerr, ":", 3)
					l, _ := strconv.Atoi(p[0])
					col, _ := strconv.Atoi(p[1])
					if len(own) != 1 {
						bad("compiler-error-missing", fmt.Sprintf("the buffer does not compile (%s) but the notification carries %d compiler errors", cerr, len(own)))
					} else if int(own[0].r.SL) != max(l-1, 0) || int(own[0].r.SC) != max(col-1, 0) {
						// (errors raised at the root of the file carry line 0, column 0: they belong at the start of the document)
						bad("compiler-error-position", fmt.Sprintf("compiler reported %d:%d (1-based), published at %d:%d (0-based units)", l, col, own[0].r.SL, own[0].r.SC))
					}
				}
				// downstream diagnostics of this publication, translated
				if tv, ok := tabs[cur]; ok && op.Op == "pubdiag" {
					var got []edDiag
					for _, d := range ds {
						if d.source != "goht" {
							got = append(got, d)
						}
					}
					if len(got) != len(op.Diags) {
						bad("diagnostic-count", fmt.Sprintf("%d downstream diagnostics in, %d out", len(op.Diags), len(got)))
						continue
					}
					for i, in := range op.Diags {
						want := in.R
						if s, ok := tv.t2s[[2]int{int(in.R.SL), int(in.R.SC)}]; ok {
							if in.R.SL == in.R.EL {
								want = PRng{uint32(s[0]), uint32(s[1]), uint32(s[0]), uint32(s[1]) + (in.R.EC - in.R.SC)}
							} else if e, ok := tv.t2s[[2]int{int(in.R.EL), int(in.R.EC)}]; ok {
								want = PRng{uint32(s[0]), uint32(s[1]), uint32(e[0]), uint32(e[1])}
							}
						}
						if got[i].r != want {
							bad("range/"+strings.ReplaceAll(in.Msg, " ", "-"), fmt.Sprintf("downstream range %s published as %s, the map gives %s", prng(in.R), prng(got[i].r), prng(want)))
						}
					}
				}
			}
		}
		if nontrivial {
			c.distinct(fmt.Sprint(h))
		}
	}
	// the same history with every publication that directly follows a change to a compiling buffer delivered
	// while the proxy is still inside that didChange (the downstream server answers before its handler returns):
	// the editor must see what it sees when the publication arrives just after the change
	fold := func(h []POp) ([]POp, bool) {
		var out []POp
		folded := false
		for i := 0; i < len(h); i++ {
			if i+1 < len(h) && (h[i].Op == "change" || h[i].Op == "open") && h[i+1].Op == "pubdiag" && h[i+1].URI == h[i].URI+".go" && real[h[i].Text].Err == "-" {
				op := h[i]
				op.Inside, op.Diags = true, h[i+1].Diags
				out = append(out, op)
				folded = true
				i++
				continue
			}
			out = append(out, h[i])
		}
		return out, folded
	}
	var tieH [][]POp
	var tieL [][][]PEvent
	defer func() { c.tieProxy(tieH, tieL) }()
	for hi, h := range hists {
		log, err := c.runProxy(h)
		c.Rep.OracleCases++
		tieH = append(tieH, h)
		if err == nil {
			tieL = append(tieL, log)
		} else {
			tieL = append(tieL, nil)
		}
		if err != nil || len(log) != len(h) {
			c.fail("C17/runner", fmt.Sprintf("the proxy did not complete the history: %v", err), map[string]any{"history": h})
			continue
		}
		judge(h, log, "sequential")
		if hi%700 == 0 {
			c.sample(map[string]any{"history": opsSummary(h)})
		}
		if fh, ok := fold(h); ok && hi%2 == 0 {
			flog, err := c.runProxy(fh)
			c.Rep.OracleCases++
			c.dist("publication-inside-didChange")
			if err != nil || len(flog) != len(h) {
				c.fail("C17/runner", fmt.Sprintf("the proxy did not complete the history (publication inside didChange): %v", err), map[string]any{"history": fh})
				continue
			}
			tieH = append(tieH, h)
			tieL = append(tieL, flog)
			judge(h, flog, "publication delivered inside didOpen/didChange")
		}
	}
	// two goroutines (supporting evidence: race detector)
	if race := filepath.Join(c.Build, "verifproxy-race"); fileExists(race) {
		for i := 0; i < c.N(20, 300); i++ {
			ops := []POp{{Op: "open", URI: u, Text: valid, Version: 1}}
			for k := 0; k < 12; k++ {
				a := POp{Op: "change", URI: u, Text: texts[c.R.Intn(len(texts))], Version: int32(k + 2), Par: 2}
				b := POp{Op: "pubdiag", URI: u + ".go", Diags: []PDiag{diagPool[c.R.Intn(len(diagPool))]}}
				if i%2 == 1 && k%3 == 2 {
					// two publications of the downstream server delivered at the same time (after whatever the buffer
					// went through before: valid, invalid and valid again included)
					a = POp{Op: "pubdiag", URI: u + ".go", Diags: []PDiag{diagPool[c.R.Intn(len(diagPool))]}, Par: 2}
				}
				ops = append(ops, a, b)
			}
			in, _ := json.Marshal(ops)
			cmd := exec.Command(race)
			cmd.Stdin = bytes.NewReader(in)
			var out, errb bytes.Buffer
			cmd.Stdout, cmd.Stderr = &out, &errb
			cmd.Run()
			c.Rep.OracleCases++
			c.dist("concurrent-runs")
			if strings.Contains(errb.String(), "DATA RACE") {
				c.fail("C17/data-race", "race detector: "+clip(firstRaceLines(errb.String()), 300), map[string]any{"history": ops, "report": clip(errb.String(), 2500)})
			}
			for _, l := range strings.Split(out.String(), "\n") {
				if strings.HasPrefix(l, "E diag ") && !strings.HasPrefix(l, "E diag "+u+" ") {
					c.fail("C17/published-under-generated-uri", "concurrent delivery: "+clip(l, 120), map[string]any{"history": ops})
				}
				if strings.HasPrefix(l, "R panic") {
					c.fail("C17/panic", "concurrent delivery: "+l, map[string]any{"history": ops})
				}
			}
		}
	} else {
		c.Rep.Notes = append(c.Rep.Notes, "race build of the proxy runner not available: concurrent delivery not exercised")
	}
}

func sortKeys(ks [][2]int) {
	for i := 1; i < len(ks); i++ {
		for j := i; j > 0 && (ks[j][0] < ks[j-1][0] || (ks[j][0] == ks[j-1][0] && ks[j][1] < ks[j-1][1])); j-- {
			ks[j], ks[j-1] = ks[j-1], ks[j]
		}
	}
}

// ---------------------------------------------------------------------------------------------
// C20: auto-import completions

func c20(c *Ctx) {
	c.Rep.TieObs = []string{"O-proxy: the Completion reply (additional text edits) of the real proxy.Server", "O-parse: the edited file compiled by the real compiler"}
	c.Rep.Rule = "template files in every import layout of the grammar (none / single-line imports / import group; package clause first or after comment lines; blank line after the clause or not) x package paths x (buffer as opened / reached by a full-text change from another layout) x completion detail strings of the forms the Go language server emits; oracle: apply the returned edit to the buffer, recompile with the real compiler: still accepted, imports = previous imports + the new package, every other line unchanged, edit addressed to the template; distinct = distinct (layout, package); non-trivial = every case"
	type layout struct {
		name  string
		head  []string // lines before the template
		prevs []string
	}
	var layouts []layout
	for _, comments := range []int{0, 1, 3} {
		for _, imp := range []string{"none", "single", "single2", "group", "group-empty-line", "group-comment", "group-trailing-space", "group-named-same-path", "single-named-same-path"} {
			var head []string
			for k := 0; k < comments; k++ {
				head = append(head, fmt.Sprintf("// comment %d", k))
			}
			head = append(head, "package x")
			var prevs []string
			switch imp {
			case "none":
				head = append(head, "")
			case "single":
				head = append(head, "", `import "fmt"`, "")
				prevs = []string{`"fmt"`}
			case "single2":
				head = append(head, `import "fmt"`, `import str "strings"`, "")
				prevs = []string{`"fmt"`, `str "strings"`}
			case "group":
				head = append(head, "", "import (", "\t\"fmt\"", "\tstr \"strings\"", ")", "")
				prevs = []string{`"fmt"`, `str "strings"`}
			case "group-comment":
				head = append(head, "", "import ( // standard library", "\t\"fmt\"", ")", "")
				prevs = []string{`"fmt"`}
			case "group-trailing-space":
				head = append(head, "", "import ( ", "\t\"fmt\"", ") ", "")
				prevs = []string{`"fmt"`}
			case "group-named-same-path":
				// the packages the completions ask for are there already, under a blank, an alias or a dot name
				head = append(head, "", "import (", "\t\"fmt\"", "\t_ \"os\"", "\tweb \"net/http\"", ")", "")
				prevs = []string{`"fmt"`, `_ "os"`, `web "net/http"`}
			case "single-named-same-path":
				head = append(head, "", `import . "path/filepath"`, `import yz "github.com/x/y-z"`, "")
				prevs = []string{`. "path/filepath"`, `yz "github.com/x/y-z"`}
			case "group-empty-line":
				head = append(head, "", "import (", "\t\"fmt\"", ")", "")
				prevs = []string{`"fmt"`}
			}
			layouts = append(layouts, layout{fmt.Sprintf("comments%d/%s", comments, imp), head, prevs})
		}
	}
	body := []string{"var _ = 1", "", "@goht T(s string) {", "\t%p= s", "}", ""}
	pkgs := []struct{ detail, want string }{
		{`func(a ...any) string (from "os")`, `"os"`},
		{`const (from "net/http")`, `"net/http"`},
		{`"path/filepath"`, `"path/filepath"`},
		{`func (from "github.com/x/y-z")`, `"github.com/x/y-z"`},
	}
	u := "file:///w/a.goht"
	type layPk struct {
		lay layout
		pk  struct{ detail, want string }
		eol string
	}
	var cases []layPk
	for _, lay := range layouts {
		for i, pk := range pkgs {
			cases = append(cases, layPk{lay, pk, "\n"})
			if i == 0 || c.Thorough() {
				crlf := lay
				crlf.name += "/crlf"
				cases = append(cases, layPk{crlf, pk, "\r\n"})
			}
		}
	}
	for ci, cs := range cases {
		// each case twice: the buffer as opened; the buffer reached by a full-text change from ANOTHER layout (more,
		// fewer or differently placed import lines): the edit must be computed on the current text
		for via := 0; via < 8; via++ {
			lay, pk := cs.lay, cs.pk
			body := body
			bodyOff := 3
			if via >= 6 {
				// … and indented text lines of the template that start with the word import (no Go declaration between
				// the imports and the template)
				body = []string{"@goht T(s string) {", "\t%p= s", "\t%pre", "\t\timport \"example.com/widgets\"", "\t%p", "\t\timport the package.", "}", "", "var _ = 1", ""}
				bodyOff = 1
				if cs.pk.want != pkgs[0].want {
					continue
				}
			} else if via >= 4 {
				// the template shows Go source as text: a line of the template body that starts in column one with
				// the word import (after a Go declaration, where the search for the import section has long ended)
				body = []string{"var _ = 1", "", "@goht T(s string) {", "\t%p= s", "\t%pre", "\t\tpackage main", "import \"example.com/widgets\"", "\t%p done", "}", ""}
				bodyOff = 3
				if cs.pk.want != pkgs[0].want {
					continue
				}
			} else if via >= 2 {
				// the template declares its parameters on lines of their own: a `)` at the start of a line that is not
				// the end of an import group
				// (and no Go declaration between the imports and the template)
				body = []string{"@goht T(", "\ts string,", ") {", "\t%p= s", "}", "", "var _ = 1", ""}
				bodyOff = 3
				if cs.pk.want != pkgs[0].want {
					continue // every layout, one package
				}
			}
			text := strings.Join(append(append([]string{}, lay.head...), body...), cs.eol)
			lines := strings.Split(text, "\n") // the lines as the proxy and the editor count them
			// a mapped position: the `s` of `%p= s`
			reqLine := len(lay.head) + bodyOff
			ops := []POp{{Op: "open", URI: u, Text: text, Version: 1},
				{Op: "req", Method: "Completion", URI: u, Line: uint32(reqLine), Char: 5, Detail: pk.detail}}
			if via%2 == 1 {
				other := cases[(ci+7)%len(cases)].lay
				if other.name == lay.name {
					other = cases[(ci+11)%len(cases)].lay
				}
				otherText := strings.Join(append(append([]string{}, other.head...), body...), cs.eol)
				ops = []POp{{Op: "open", URI: u, Text: otherText, Version: 1}, {Op: "change", URI: u, Text: text, Version: 2}, ops[1]}
				c.dist("reached-by-change")
			}
			log, err := c.runProxy(ops)
			c.Rep.OracleCases++
			if err == nil {
				c.tieProxy([][]POp{ops}, [][][]PEvent{log})
			}
			c.distinct(lay.name + "|" + pk.want)
			c.dist("layout." + lay.name)
			bad := func(kind, what string) {
				c.fail("C20/"+kind+"/"+lay.name, fmt.Sprintf("layout %s%s, package %s: %s", lay.name, map[int]string{0: "", 1: " (reached by a change from another layout)", 2: " (parameters on their own lines)", 3: " (parameters on their own lines; reached by a change)"}[via], pk.want, what), map[string]any{"text": text, "ops": ops, "detail": pk.detail, "events": rawEvents(log[len(log)-1])})
			}
			if err != nil || len(log) != len(ops) {
				c.fail("C20/runner", fmt.Sprint(err), map[string]any{"text": text})
				continue
			}
			reply := ""
			for _, ev := range log[len(ops)-1] {
				if ev.Kind == "R" {
					reply = strings.Join(ev.F, " ")
				}
			}
			// Completion [<range>+<r>=<hex>;…]
			i := strings.Index(reply, "+")
			if !strings.HasPrefix(reply, "Completion [") || i < 0 {
				bad("no-edit", "reply "+reply)
				continue
			}
			edits := strings.TrimSuffix(reply[i+1:], "]")
			if edits == "" || strings.Contains(edits, ";") {
				bad("edit-count", "additional edits: "+edits)
				continue
			}
			p := strings.SplitN(edits, "=", 2)
			var r PRng
			fmt.Sscanf(p[0], "%d:%d-%d:%d", &r.SL, &r.SC, &r.EL, &r.EC)
			newText := string(unhx(p[1]))
			if r.SL != r.EL || r.SC != 0 || r.EC != 0 || int(r.SL) > len(lines) {
				bad("edit-range", "edit range "+p[0])
				continue
			}
			edited := append(append(append([]string{}, lines[:r.SL]...), strings.Split(strings.TrimSuffix(newText, "\n"), "\n")...), lines[r.SL:]...)
			if !strings.HasSuffix(newText, "\n") {
				bad("edit-text", "inserted text does not end a line")
				continue
			}
			after := strings.Join(edited, "\n")
			obs := c.composeReal([]string{text, after})
			if obs[after].Err != "-" {
				bad("does-not-compile", "after the edit the file is rejected: "+obs[after].Err)
				continue
			}
			imps := func(code string) []string {
				var out []string
				in := false
				for _, l := range strings.Split(code, "\n") {
					switch {
					case l == "import (":
						in = true
					case l == ")" && in:
						in = false
					case in:
						out = append(out, strings.TrimSpace(l))
					case strings.HasPrefix(l, "import "):
						out = append(out, strings.TrimPrefix(l, "import "))
					case strings.HasPrefix(l, "func "):
						return out
					}
				}
				return out
			}
			before, got := imps(string(obs[text].Text)), imps(string(obs[after].Text))
			want := append(append([]string{}, before...), pk.want)
			if strings.Join(got, "|") != strings.Join(want, "|") {
				bad("imports", fmt.Sprintf("imports after the edit %v, expected %v", got, want))
				continue
			}
			// otherwise unchanged: removing the inserted lines gives the original; and the Go code of the file is the same
			strip := func(code string) string {
				var out []string
				for _, l := range strings.Split(code, "\n") {
					if strings.HasPrefix(l, "import ") || strings.HasPrefix(l, "\t\"") || strings.HasPrefix(l, "\tstr ") || strings.HasPrefix(l, "\t_ ") || strings.HasPrefix(l, "\tweb ") || strings.HasPrefix(l, "\t. ") || strings.HasPrefix(l, "\tyz ") || l == ")" || l == "import (" || strings.TrimSpace(l) == "" {
						continue
					}
					out = append(out, l)
				}
				return strings.Join(out, "\n")
			}
			if strip(string(obs[text].Text)) != strip(string(obs[after].Text)) {
				bad("other-lines-changed", "the generated code differs in more than the import: "+clip(firstDiff(strip(string(obs[text].Text)), strip(string(obs[after].Text))), 200))
			}
		}
	}
	// one completion list whose items need imports from DIFFERENT packages: every item must carry its own
	for _, lay := range layouts {
		text := strings.Join(append(append([]string{}, lay.head...), body...), "\n")
		lines := strings.Split(text, "\n")
		reqLine := len(lay.head) + 3
		details := []string{pkgs[0].detail, pkgs[1].detail, "", pkgs[3].detail}
		wants := []string{pkgs[0].want, pkgs[1].want, "", pkgs[3].want}
		ops := []POp{{Op: "open", URI: u, Text: text, Version: 1},
			{Op: "req", Method: "Completion", URI: u, Line: uint32(reqLine), Char: 5, Detail: strings.Join(details, "\x1f")}}
		log, err := c.runProxy(ops)
		c.Rep.OracleCases++
		c.distinct(lay.name + "|multi")
		if err != nil || len(log) != 2 {
			c.fail("C20/runner", fmt.Sprint(err), map[string]any{"text": text})
			continue
		}
		c.tieProxy([][]POp{ops}, [][][]PEvent{log})
		reply := ""
		for _, ev := range log[1] {
			if ev.Kind == "R" {
				reply = strings.Join(ev.F, " ")
			}
		}
		bad := func(kind, what string) {
			c.fail("C20/"+kind+"/"+lay.name, fmt.Sprintf("layout %s, completion list with several importing items: %s", lay.name, what), map[string]any{"text": text, "details": details, "events": rawEvents(log[1])})
		}
		inner := strings.TrimSuffix(strings.TrimPrefix(reply, "Completion ["), "]")
		items := strings.Split(inner, ",")
		if !strings.HasPrefix(reply, "Completion [") || len(items) != len(details) {
			bad("multi-item-count", "reply "+clip(reply, 200))
			continue
		}
		for k, item := range items {
			i := strings.Index(item, "+")
			edits := ""
			if i >= 0 {
				edits = item[i+1:]
			}
			if wants[k] == "" {
				if edits != "" {
					bad("multi-item-spurious-edit", fmt.Sprintf("item %d needs no import but carries %s", k, edits))
				}
				continue
			}
			p := strings.SplitN(edits, "=", 2)
			if len(p) != 2 || strings.Contains(edits, ";") {
				bad("multi-item-edit", fmt.Sprintf("item %d: edits %q", k, edits))
				continue
			}
			var r PRng
			fmt.Sscanf(p[0], "%d:%d-%d:%d", &r.SL, &r.SC, &r.EL, &r.EC)
			newText := string(unhx(p[1]))
			if int(r.SL) > len(lines) || !strings.HasSuffix(newText, "\n") {
				bad("multi-item-edit", fmt.Sprintf("item %d: edit %s", k, edits))
				continue
			}
			if !strings.Contains(newText, wants[k]) {
				bad("multi-item-wrong-package", fmt.Sprintf("item %d (%s) is given the import %q", k, details[k], strings.TrimSpace(newText)))
				continue
			}
			edited := append(append(append([]string{}, lines[:r.SL]...), strings.Split(strings.TrimSuffix(newText, "\n"), "\n")...), lines[r.SL:]...)
			after := strings.Join(edited, "\n")
			if obs := c.composeReal([]string{after}); obs[after].Err != "-" {
				bad("multi-item-does-not-compile", fmt.Sprintf("item %d: after the edit the file is rejected: %s", k, obs[after].Err))
			}
		}
	}
}
