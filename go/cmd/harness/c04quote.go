package main

import (
	"fmt"
	"strconv"
	"strings"
	"time"
	"unicode/utf8"
)

// tieQuote compares goLiteral (the real function behind every static splice site) with the model's quoteBody,
// and checks on both sides that the literal is read back as the original bytes (Go's strconv.Unquote on the real
// side, the model's litDecode on the other).
func (c *Ctx) tieQuote() {
	var ins [][]byte
	for b := 0; b < 256; b++ {
		ins = append(ins, []byte{byte(b)})
	}
	hot := []byte{0, 7, 9, 10, 13, 27, 31, 32, 34, 39, 92, 96, 127, 128, 0xAD, 0xBF, 0xC0, 0xC2, 0xE0, 0xED, 0xEF, 0xF0, 0xF4, 0xF5, 0xFF, 'a', 'n', 'x', 'u', 'U', '0'}
	for _, a := range hot {
		for _, b := range hot {
			ins = append(ins, []byte{a, b}, []byte{'k', a, b, 'k'})
		}
	}
	// every boundary of strconv.IsPrint (the rune before, at and after each change), plus the UTF-8 corner cases
	prev := false
	for r := rune(0); r <= 0x10FFFF; r++ {
		p := strconv.IsPrint(r)
		if p != prev || r == 0x7FF || r == 0x800 || r == 0xFFFF || r == 0x10000 || r == 0xD7FF || r == 0xE000 || r == 0xFFFD || r == 0x10FFFF {
			for _, x := range []rune{r - 1, r, r + 1} {
				if x >= 0 && utf8.ValidRune(x) {
					ins = append(ins, []byte(string(x)), []byte("a"+string(x)+`"\`))
				}
			}
		}
		prev = p
	}
	for _, s := range []string{"\xed\xa0\x80", "\xed\xbf\xbf", "\xc0\x80", "\xe0\x80\x80", "\xf0\x80\x80\x80", "\xf4\x90\x80\x80", "\xf8\x88\x80\x80\x80", "\xe2\x82", "\xf0\x9f\x98", "é\xffé", "日本\x80語"} {
		ins = append(ins, []byte(s))
	}
	n := c.N(3000, 60000)
	for i := 0; i < n; i++ {
		l := 1 + c.R.Intn(12)
		b := make([]byte, l)
		for k := range b {
			switch c.R.Intn(4) {
			case 0:
				b[k] = hot[c.R.Intn(len(hot))]
			case 1:
				b[k] = byte(0x80 + c.R.Intn(0x80))
			default:
				b[k] = byte(c.R.Intn(256))
			}
		}
		if c.R.Intn(3) == 0 {
			b = append(b, []byte(string(rune(c.R.Intn(0x110000))))...)
		}
		ins = append(ins, b)
	}
	reqs := make([]string, len(ins))
	for i, in := range ins {
		reqs[i] = "Q " + hx(in)
	}
	implCh := make(chan []string, 1)
	go func() {
		rs := c.Wrk.Map(reqs, 10*time.Second)
		out := make([]string, len(rs))
		for i, r := range rs {
			out[i] = r.Line
			if r.Err != nil {
				out[i] = "ERR " + r.Err.Error()
			}
		}
		implCh <- out
	}()
	model := c.Drv.Map(reqs, 30*time.Second)
	impl := <-implCh
	for i := range ins {
		c.Rep.TieCases++
		c.dist("quote.len" + fmt.Sprint(min(len(ins[i]), 4)))
		m := model[i].Line
		if model[i].Err != nil {
			m = "ERR " + model[i].Err.Error()
		}
		if impl[i] != m {
			c.mismatch("go-literal", string(ins[i]), impl[i], m, true)
		}
		if !strings.HasSuffix(impl[i], " ok") {
			c.fail("C04/go-literal-not-read-back", fmt.Sprintf("goLiteral(%q) is not read back by Go as the original bytes: %s", ins[i], impl[i]), map[string]string{"input_hex": hx(ins[i])})
		}
	}
}
