package main

import (
	"fmt"
	"strings"
	"sync"
	"sync/atomic"
	"time"

	"verifharness/internal/gen"
	"verifharness/internal/rt"
)

func init() {
	props["C12"] = c12
	props["C13"] = c13
}

func failEnvs(c *Ctx, n int) []rt.Env {
	var out []rt.Env
	for i := 0; i < n; i++ {
		e := c.genEnv(i + 1)
		switch i % 4 {
		case 1:
			e.Fail = []string{"fe1"}
		case 2:
			e.Fail = []string{"fe2"}
		case 3:
			e.Fail = []string{"fe1", "fe2"}
		}
		out = append(out, e)
	}
	return out
}

func c12(c *Ctx) {
	c.Rep.TieObs = []string{"O-render with fault plans: returned error class and the Write-call log of the destination"}
	c.Rep.Rule = "generated call graphs with failing sites (dynamic expressions returning an error, helpers given unsupported values, nested templates and children blocks containing such sites) x environments choosing which expressions fail x writer plans (every Write call failing or short; a destination that also has a Flush() error method); oracle on the real program: a failing site => non-nil error of the right cause and an empty Write log (the final write excepted), nil error => exactly the complete document; distinct = distinct (template, environment, plan); non-trivial = a site failed or a writer plan was active"
	o := gen.Opts{ObjRefs: true, ClassExprs: true, AttributesCmd: true, NonASCII: false, MaxDepth: 3, FailSites: true, RenderHeavy: true}
	var cases []*RenderCase
	nTied := c.N(2, 30)
	// further files use `- switch` / `- case` / `- default` blocks
	for i := 0; i < nTied+c.N(1, 10); i++ {
		if i == nTied {
			o.Switch = true
		}
		f := gen.GenFile(newRand(c.R.Int63()), o, 3, c.N(20, 30))
		prepFile(f)
		p, src := f.Print()
		rc := &RenderCase{File: f, Printer: p, Src: src, Envs: failEnvs(c, c.N(8, 12))}
		// one environment makes the documents large (pooled buffers of very different sizes), with and without a failing site
		for _, fail := range [][]string{nil, {"fe1", "fe2"}} {
			big := c.genEnv(98)
			big.S0 = strings.Repeat("0123456789abcdef", 6000)
			big.Fail = fail
			rc.Envs = append(rc.Envs, big)
		}
		for _, t := range f.Templates {
			rc.Names = append(rc.Names, t.Name)
		}
		for _, n := range rc.Names {
			for e := range rc.Envs {
				rc.Jobs = append(rc.Jobs, rt.Job{Name: n, Env: e})
				if e%3 == 1 {
					// the destination is "any io.Writer": one that can also be flushed (bufio.Writer, gzip.Writer)
					rc.Jobs = append(rc.Jobs, rt.Job{Name: n, Env: e, Flush: true})
				}
				if e%3 == 0 {
					rc.Jobs = append(rc.Jobs, rt.Job{Name: n, Env: e, Plan: rt.Plan{FailAt: 1}})
					rc.Jobs = append(rc.Jobs, rt.Job{Name: n, Env: e, Plan: rt.Plan{ShortAt: 1}})
					rc.Jobs = append(rc.Jobs, rt.Job{Name: n, Env: e, Plan: rt.Plan{FailAt: 2}})
				}
			}
		}
		cases = append(cases, rc)
	}
	c.renderBoth(cases)
	c.featDist(cases)
	c.tieRender(cases, true)
	for _, rc := range cases {
		c.dist("stage." + rc.Stage)
		if rc.Stage != "ok" {
			c.Rep.Notes = append(c.Rep.Notes, "file did not reach execution ("+rc.Stage+"): "+clip(rc.Detail, 300))
			c.mismatch("build", rc.Src, rc.Stage+": "+clip(rc.Detail, 200), "accepted and executable", true)
			continue
		}
		for ji, j := range rc.Jobs {
			if ji >= len(rc.Real) {
				break
			}
			r := rc.Real[ji]
			env := rc.Envs[j.Env]
			c.Rep.OracleCases++
			want, werr, ok := rt.Intent(rc.File, j.Name, env)
			if !ok {
				c.dist("intent.undetermined")
				continue
			}
			if werr != "" || j.Plan != (rt.Plan{}) {
				c.distinct(fmt.Sprintf("%s/%d/%+v/%d", j.Name, j.Env, j.Plan, len(cases)))
			}
			report := func(kind, what string) {
				cls := classify(rc, ji)
				sig := "C12/" + kind
				if cls == "sentinel-in-content" && (kind == "incomplete-document" || (kind == "error-lost" && j.Plan.ShortAt == 1 && werr == "")) {
					// (a short write of an EMPTY document is no failure: when the eraser has eaten the whole document,
					// the writer never gets the chance to fail — same root cause, same signature)
					sig = "C12/sentinel-in-content"
				}
				if cls == "attributes-command" && kind == "incomplete-document" {
					sig = "C12/attributes-separator"
				}
				c.fail(sig, what+fmt.Sprintf(" (template %s, failing %v, plan %+v)", j.Name, env.Fail, j.Plan),
					map[string]any{"template": templateSrc(rc.Src, j.Name), "file_hex": hx([]byte(rc.Src)), "name": j.Name, "env": env, "plan": j.Plan, "real": r})
			}
			got := realBytes(r)
			if r.Panic != "" {
				report("panic", "Render panicked: "+r.Panic)
				continue
			}
			switch {
			case werr != "":
				c.dist("site-failure." + werr)
				if r.Err == "" {
					report("error-lost", "a "+werr+" site failed but Render returned nil")
				} else if cr := strings.Fields(canonReal(r)); len(cr) < 3 || cr[2] != werr {
					report("wrong-cause", "a "+werr+" site failed but the returned error is "+clip(r.Err, 80))
				}
				if len(r.Writes) != 0 {
					report("partial-write", fmt.Sprintf("a site failed but the destination received %d Write call(s): %q", len(r.Writes), clip(got, 80)))
				}
			case j.Plan.FailAt == 1 || j.Plan.ShortAt == 1:
				c.dist("writer-failure")
				if r.Err == "" && !(j.Plan.ShortAt == 1 && want == "") {
					report("error-lost", "the destination writer failed but Render returned nil")
				}
				if len(r.Writes) > 1 {
					report("partial-write", fmt.Sprintf("the writer failed at the first call but received %d calls", len(r.Writes)))
				}
			default:
				c.dist("success")
				if r.Err != "" {
					report("spurious-error", "nothing failed but Render returned "+clip(r.Err, 80))
				} else if got != want {
					report("incomplete-document", fmt.Sprintf("Render returned nil but the destination holds %q, complete document is %q", clip(got, 100), clip(want, 100)))
				} else if len(r.Writes) != 1 {
					c.dist("success.writes!=1")
				}
			}
		}
	}
}

func c13(c *Ctx) {
	c.Rep.TieObs = []string{"O-render over sequences: each render's bytes vs the model's isolated render"}
	c.Rep.Rule = "a pool of generated templates (with and without children, markers, failing sites) rendered repeatedly in random orders inside ONE process (failed renders in between), and from 32 goroutines sharing a parent context in a -race build; oracle: every render equals the same render run alone in a fresh process (real code both times) and the generator intent, and the race detector stays silent; distinct = distinct (template, environment, position class); non-trivial = the render is not the first of its process"
	o := gen.Opts{ObjRefs: true, ClassExprs: true, AttributesCmd: true, NonASCII: false, MaxDepth: 3, FailSites: true, RenderHeavy: true, MarkerHeavy: true}
	type seq struct {
		rc   *RenderCase
		conc bool
	}
	var seqs []seq
	for i := 0; i < c.N(2, 12); i++ {
		f := gen.GenFile(newRand(c.R.Int63()), o, 3, c.N(12, 20))
		// renders share their arguments: a slice argument used as the first class value, followed by another
		f.Templates = append(f.Templates, &gen.Template{Name: "Shared", Sig: gen.Sig, Body: []*gen.Node{
			{Kind: gen.KElem, Tag: "a", ClassExprs: []string{"xs", "s1"}, Inline: &gen.Node{Kind: gen.KText, Parts: []gen.Part{{Static: "go"}}}},
			// every helper with a list argument is used by a render that succeeds (other renders fail half way through theirs)
			{Kind: gen.KElem, Tag: "u", AttrsCmd: "m0, mb", Inline: &gen.Node{Kind: gen.KText, Parts: []gen.Part{{Static: "attrs"}}}},
			// … and with one argument only, of either map type
			{Kind: gen.KElem, Tag: "u", AttrsCmd: "m0", Inline: &gen.Node{Kind: gen.KText, Parts: []gen.Part{{Static: "one string map"}}}},
			{Kind: gen.KElem, Tag: "u", AttrsCmd: "mb", Inline: &gen.Node{Kind: gen.KText, Parts: []gen.Part{{Static: "one bool map"}}}},
			// a class list from a map alone, and from a string followed by a map
			{Kind: gen.KElem, Tag: "q", ClassExprs: []string{"mb"}, Inline: &gen.Node{Kind: gen.KText, Parts: []gen.Part{{Static: "map classes"}}}},
			{Kind: gen.KElem, Tag: "q", ClassExprs: []string{"s1", "mb"}, Inline: &gen.Node{Kind: gen.KText, Parts: []gen.Part{{Static: "string and map classes"}}}},
			{Kind: gen.KFor, Chain: []gen.Branch{{Header: "for _, x := range xs", Kids: []*gen.Node{{Kind: gen.KElem, Tag: "i", ClassExprs: []string{"xs", `"k"`}, Inline: &gen.Node{Kind: gen.KScript, Expr: "x"}}}}}},
		}})
		// … and by renders that fail half way through their list (a valid value, then one of an unsupported type)
		f.Templates = append(f.Templates,
			&gen.Template{Name: "SharedFailAttrs", Sig: gen.Sig, Body: []*gen.Node{
				{Kind: gen.KElem, Tag: "i", AttrsCmd: "m0, mb, n0", Inline: &gen.Node{Kind: gen.KText, Parts: []gen.Part{{Static: "bad attrs arg"}}}}}},
			&gen.Template{Name: "SharedFailClass", Sig: gen.Sig, Body: []*gen.Node{
				{Kind: gen.KElem, Tag: "b", ClassExprs: []string{"xs", "s1", "n0"}, Inline: &gen.Node{Kind: gen.KText, Parts: []gen.Part{{Static: "bad class arg"}}}}}})
		prepFile(f)
		p, src := f.Print()
		mk := func(conc bool) *RenderCase {
			rc := &RenderCase{File: f, Printer: p, Src: src}
			if conc {
				for k := 0; k < 6; k++ {
					rc.Envs = append(rc.Envs, c.genEnv(k+1)) // no failing helpers: `failing` is process-global in the runner
				}
			} else {
				rc.Envs = failEnvs(c, 8)
			}
			// renders of very different sizes share the pool: one environment makes every buffer grow large
			big := c.genEnv(99)
			big.S0 = strings.Repeat("0123456789abcdef", 6000) // 96 KB
			big.Xs = nil
			// (its maps have several entries each)
			big.M0 = map[string]string{"data-a": "1", "title": "t", "x": "y", "a b": "z", "lang": "en", "empty": ""}
			big.MB = map[string]bool{"on": true, "hidden": true, "c1": true, "z": true, "off": false, "On": true, "ON": true, "Hidden": true}
			for k := 0; k < 300; k++ {
				big.Xs = append(big.Xs, "row")
			}
			rc.Envs = append(rc.Envs, big)
			for _, t := range f.Templates {
				rc.Names = append(rc.Names, t.Name)
			}
			n := c.N(600, 3000)
			for k := 0; k < n; k++ {
				e := c.R.Intn(len(rc.Envs))
				if e == len(rc.Envs)-1 && c.R.Intn(8) != 0 {
					e = c.R.Intn(len(rc.Envs) - 1) // the 96 KB environment in about one render of seventy: enough to grow the pooled buffers
				}
				rc.Jobs = append(rc.Jobs, rt.Job{Name: rc.Names[c.R.Intn(len(rc.Names))], Env: e})
			}
			return rc
		}
		seqs = append(seqs, seq{mk(false), false}, seq{mk(true), true})
	}
	var wg sync.WaitGroup
	sem := make(chan struct{}, 4)
	races := make([]string, len(seqs))
	isos := make([]map[string]rt.Result, len(seqs))
	var isoMu sync.Mutex
	var retried atomic.Int32
	for si, s := range seqs {
		si, s := si, s
		wg.Add(1)
		go func() {
			defer wg.Done()
			sem <- struct{}{}
			defer func() { <-sem }()
			b, stage, detail := rt.BuildOpt(s.rc.Src, s.rc.Names, c.Repo, s.conc)
			s.rc.Stage, s.rc.Detail = stage, detail
			if b != nil {
				defer b.Close()
			}
			if stage != "ok" {
				return
			}
			g := 1
			if s.conc {
				g = 32
			}
			// the isolated result of every (template, environment) of the sequence: the render alone in a fresh process
			iso := map[string]rt.Result{}
			var todo []rt.Job
			for _, j := range s.rc.Jobs {
				k := fmt.Sprintf("%s/%d", j.Name, j.Env)
				if _, ok := iso[k]; !ok {
					iso[k] = rt.Result{}
					todo = append(todo, j)
				}
			}
			var iwg sync.WaitGroup
			var imu sync.Mutex
			isem := make(chan struct{}, 6)
			for _, j := range todo {
				j := j
				iwg.Add(1)
				go func() {
					defer iwg.Done()
					isem <- struct{}{}
					defer func() { <-isem }()
					// the process gets this one environment only
					r1, err1 := b.Run([]rt.Env{s.rc.Envs[j.Env]}, []rt.Job{{Name: j.Name, Env: 0}}, 150*time.Second)
					imu.Lock()
					defer imu.Unlock()
					if err1 == nil && len(r1) == 1 {
						iso[fmt.Sprintf("%s/%d", j.Name, j.Env)] = r1[0]
					} else {
						iso[fmt.Sprintf("%s/%d", j.Name, j.Env)] = rt.Result{Panic: fmt.Sprintf("isolated run failed: %v", err1)}
					}
				}()
			}
			iwg.Wait()
			isoMu.Lock()
			isos[si] = iso
			isoMu.Unlock()
			if s.conc {
				// templates that neither render others nor have a children slot, rendered concurrently under a parent
				// context that comes from inside goht (a component fanning out with the context it was given): they
				// only read the shared per-render value
				var leaf []rt.Job
				for _, j := range s.rc.Jobs {
					if src := templateSrc(s.rc.Src, j.Name); !strings.Contains(src, "@render") && !strings.Contains(src, "@children") && len(leaf) < 400 {
						leaf = append(leaf, j)
					}
				}
				if len(leaf) > 0 {
					_, stderr2, _ := b.RunConcOpt(s.rc.Envs, leaf, 180*time.Second, g, true)
					if strings.Contains(stderr2, "DATA RACE") {
						races[si] = stderr2
					}
				}
			}
			res, stderr, err := b.RunConc(s.rc.Envs, s.rc.Jobs, 180*time.Second, g)
			if err != nil && err.Error() == "timeout" {
				// the limit is the harness's own, and the machine may be busy with other work: once more, with a
				// limit four times as long (a render that really never returns is still reported)
				res, stderr, err = b.RunConc(s.rc.Envs, s.rc.Jobs, 720*time.Second, g)
				retried.Add(1)
			}
			s.rc.Real = res
			if strings.Contains(stderr, "DATA RACE") {
				races[si] = stderr
			} else if races[si] != "" {
			} else if err != nil {
				s.rc.Detail = "run: " + err.Error()
			}
		}()
	}
	wg.Wait()
	if n := retried.Load(); n > 0 {
		c.Rep.Notes = append(c.Rep.Notes, fmt.Sprintf("%d batch(es) exceeded the harness's 180 s limit and were run again with a 720 s limit", n))
	}
	for si, s := range seqs {
		rc := s.rc
		c.dist("stage." + rc.Stage)
		if rc.Stage != "ok" {
			c.Rep.Notes = append(c.Rep.Notes, "sequence did not run ("+rc.Stage+"): "+clip(rc.Detail, 300))
			c.mismatch("build", rc.Src, rc.Stage+": "+clip(rc.Detail, 200), "accepted and executable", true)
			continue
		}
		mode := "sequential"
		if s.conc {
			mode = "concurrent"
		}
		if races[si] != "" {
			c.fail("C13/data-race", "the race detector reported a data race during concurrent renders: "+clip(firstRaceLines(races[si]), 300),
				map[string]any{"file_hex": hx([]byte(rc.Src)), "report": clip(races[si], 3000)})
		}
		if len(rc.Real) != len(rc.Jobs) {
			c.mismatch("render-run", rc.Src, fmt.Sprintf("%d of %d results: %s", len(rc.Real), len(rc.Jobs), clip(rc.Detail, 200)), "all renders return", true)
		}
		for ji, r := range rc.Real {
			j := rc.Jobs[ji]
			want, werr, ok := rt.Intent(rc.File, j.Name, rc.Envs[j.Env])
			if !ok {
				continue
			}
			c.Rep.OracleCases++
			c.Rep.TieCases++
			c.dist("render." + mode)
			if ji > 0 {
				c.distinct(fmt.Sprintf("%d/%s/%d/%s", si, j.Name, j.Env, mode))
			}
			got := realBytes(r)
			// the property itself: this render against the same render alone in a fresh process (real code both times)
			if ir, ok := isos[si][fmt.Sprintf("%s/%d", j.Name, j.Env)]; ok && strings.HasPrefix(ir.Panic, "isolated run failed") {
				// the reference itself could not be produced (the largest documents, under the race detector, can
				// exceed the time limit of a single process): nothing to compare this render with
				c.dist("isolated-reference.unavailable")
			} else if ok {
				if ir.Err != r.Err || ir.Panic != r.Panic || realBytes(ir) != got {
					c.fail("C13/"+mode+"/differs-from-own-isolated-run", fmt.Sprintf("render #%d of the %s run (template %s): err=%q %s bytes %q; alone in a fresh process: err=%q %s bytes %q", ji, mode, j.Name, r.Err, clip(r.Panic, 160), clip(got, 100), ir.Err, clip(ir.Panic, 160), clip(realBytes(ir), 100)),
						map[string]any{"template": templateSrc(rc.Src, j.Name), "file_hex": hx([]byte(rc.Src)), "position": ji, "env": rc.Envs[j.Env], "mode": mode})
				}
			}
			bad := ""
			switch {
			case r.Panic != "":
				bad = "panic " + r.Panic
			case werr != "":
				if r.Err == "" || len(r.Writes) != 0 {
					bad = fmt.Sprintf("a failing render returned err=%q and wrote %q", r.Err, clip(got, 60))
				}
			case r.Err != "":
				bad = "unexpected error " + r.Err
			case got != want:
				bad = fmt.Sprintf("bytes %q differ from the isolated result %q", clip(got, 100), clip(want, 100))
			}
			if bad != "" {
				cls := classify(rc, ji)
				sig := "C13/" + mode + "/differs-from-isolated"
				if cls == "sentinel-in-content" {
					sig = "C13/sentinel-in-content"
				} else if cls == "attributes-command" {
					sig = "C13/attributes-separator"
				}
				c.fail(sig, fmt.Sprintf("render #%d of the %s run (template %s): %s", ji, mode, j.Name, bad),
					map[string]any{"template": templateSrc(rc.Src, j.Name), "file_hex": hx([]byte(rc.Src)), "position": ji, "env": rc.Envs[j.Env], "mode": mode})
			}
		}
	}
}

func firstRaceLines(s string) string {
	i := strings.Index(s, "DATA RACE")
	if i < 0 {
		return s
	}
	lines := strings.Split(s[i:], "\n")
	if len(lines) > 8 {
		lines = lines[:8]
	}
	return strings.Join(lines, " | ")
}
