package main

import (
	"bytes"
	"encoding/json"
	"fmt"
	"os/exec"
	"path/filepath"
	"strings"
	"time"
)

// ---- scripts for the in-repo proxy runner (go/overlay/proxy_main.go) -------------------------

type PRng struct{ SL, SC, EL, EC uint32 }
type PLoc struct {
	URI string
	R   PRng
}
type PDiag struct {
	R   PRng
	Msg string
}
type POp struct {
	Op      string
	URI     string `json:",omitempty"`
	Text    string `json:",omitempty"`
	Version int32  `json:",omitempty"`
	Method  string `json:",omitempty"`
	Line    uint32
	Char    uint32
	Answer  []PLoc  `json:",omitempty"`
	Detail  string  `json:",omitempty"`
	Nil     bool    `json:",omitempty"`
	Diags   []PDiag `json:",omitempty"`
	Message string  `json:",omitempty"`
	Par     int     `json:",omitempty"`
	Inside  bool    `json:",omitempty"` // open / change: Diags are published downstream-side before the handler returns
}

// PEvent: one observable event of a run, grouped by the op that caused it.
type PEvent struct {
	Kind string   // D (downstream call) | E (editor notification) | R (reply)
	F    []string // fields
	Raw  string
}

func (c *Ctx) runProxy(ops []POp) ([][]PEvent, error) {
	in, _ := json.Marshal(ops)
	cmd := exec.Command(filepath.Join(c.Build, "verifproxy"))
	cmd.Stdin = bytes.NewReader(in)
	var out bytes.Buffer
	cmd.Stdout = &out
	if err := cmd.Start(); err != nil {
		return nil, err
	}
	done := make(chan error, 1)
	go func() { done <- cmd.Wait() }()
	select {
	case err := <-done:
		if err != nil {
			return nil, fmt.Errorf("proxy runner: %v", err)
		}
	case <-time.After(60 * time.Second):
		cmd.Process.Kill()
		return nil, fmt.Errorf("proxy runner: timeout")
	}
	return parseProxyLog(out.String()), nil
}

func parseProxyLog(s string) [][]PEvent {
	var res [][]PEvent
	var cur []PEvent
	started := false
	for _, l := range strings.Split(strings.TrimSpace(s), "\n") {
		if strings.HasPrefix(l, "# op ") || strings.HasPrefix(l, "# par ") {
			if started {
				res = append(res, cur)
			}
			cur = nil
			started = true
			continue
		}
		if strings.HasPrefix(l, "#") || l == "" {
			continue
		}
		f := strings.Fields(l)
		cur = append(cur, PEvent{Kind: f[0], F: f[1:], Raw: l})
	}
	if started {
		res = append(res, cur)
	}
	return res
}

func kv(fields []string, key string) string {
	for _, f := range fields {
		if strings.HasPrefix(f, key+"=") {
			return f[len(key)+1:]
		}
	}
	return ""
}

// composeReal returns the code, error ("-" or line:col:class) and both tables of the real compiler for a buffer.
func (c *Ctx) composeReal(texts []string) map[string]CompObs {
	var ins [][]byte
	for _, t := range texts {
		ins = append(ins, []byte(t))
	}
	reqs := make([]string, len(ins))
	for i, in := range ins {
		reqs[i] = "C " + hx(in)
	}
	out := map[string]CompObs{}
	for i, r := range c.Wrk.Map(reqs, 5*time.Second) {
		out[texts[i]] = parseImplReply(r)
	}
	return out
}

// ---- tie: the same script run through the Lean proxy model -----------------------------------

func encRng(r PRng) string { return fmt.Sprintf("%d.%d.%d.%d", r.SL, r.SC, r.EL, r.EC) }

func encodeOps(ops []POp) string {
	var out []string
	for _, o := range ops {
		switch o.Op {
		case "open":
			out = append(out, fmt.Sprintf("o,%s,%s,%d", hxu([]byte(o.URI)), hxu([]byte(o.Text)), o.Version))
		case "change":
			out = append(out, fmt.Sprintf("c,%s,%s,%d", hxu([]byte(o.URI)), hxu([]byte(o.Text)), o.Version))
		case "close":
			out = append(out, "x,"+hxu([]byte(o.URI)))
		case "save":
			out = append(out, fmt.Sprintf("s,%s,%s", hxu([]byte(o.URI)), hxu([]byte(o.Text))))
		case "showmsg":
			out = append(out, "m,"+hxu([]byte(o.Message)))
		case "pubdiag":
			var ds []string
			for _, d := range o.Diags {
				ds = append(ds, encRng(d.R)+"|"+hxu([]byte(d.Msg)))
			}
			out = append(out, fmt.Sprintf("d,%s,%s", hxu([]byte(o.URI)), strings.Join(ds, "/")))
		case "req":
			var as []string
			for _, a := range o.Answer {
				as = append(as, hxu([]byte(a.URI))+"|"+encRng(a.R))
			}
			nl := "0"
			if o.Nil {
				nl = "1"
			}
			out = append(out, fmt.Sprintf("q,%s,%s,%d,%d,%s,%s,%s", o.Method, hxu([]byte(o.URI)), o.Line, o.Char, nl, hxu([]byte(o.Detail)), strings.Join(as, "/")))
		}
	}
	return strings.Join(out, ";")
}

// canonProxyLine: message wording is not part of the tie: diagnostics carry the message class only.
func canonProxyLine(l string) string {
	if !strings.HasPrefix(l, "E diag ") {
		return l
	}
	i := strings.Index(l, "[")
	if i < 0 {
		return l
	}
	body := strings.TrimSuffix(l[i+1:], "]")
	if body == "" {
		return l
	}
	var items []string
	for _, it := range strings.Split(body, ",") {
		p := strings.SplitN(it, "=", 3)
		if len(p) == 3 && p[1] == "goht" {
			p[2] = canonClass(stripPos(string(unhx(p[2]))))
		}
		items = append(items, strings.Join(p, "="))
	}
	return l[:i+1] + strings.Join(items, ",") + "]"
}

func stripPos(s string) string {
	if strings.HasPrefix(s, "[") {
		if i := strings.Index(s, "]: "); i >= 0 {
			return s[i+3:]
		}
	}
	return s
}

// tieProxy runs every script through the model and compares the flattened event logs.
func (c *Ctx) tieProxy(scripts [][]POp, real [][][]PEvent) {
	reqs := make([]string, len(scripts))
	for i, s := range scripts {
		reqs[i] = "P " + encodeOps(s)
	}
	replies := c.Drv.Map(reqs, 60*time.Second)
	for i, r := range replies {
		if real[i] == nil {
			continue
		}
		c.Rep.TieCases++
		var rl []string
		for _, evs := range real[i] {
			for _, e := range evs {
				rl = append(rl, canonProxyLine(e.Raw))
			}
		}
		var ml []string
		if r.Err == nil && r.Line != "" {
			for _, l := range strings.Split(r.Line, "|") {
				ml = append(ml, canonProxyLine(l))
			}
		}
		a, b := strings.Join(rl, "\n"), strings.Join(ml, "\n")
		if a != b {
			k := 0
			for k < len(rl) && k < len(ml) && rl[k] == ml[k] {
				k++
			}
			ri, mi := "<end>", "<end>"
			if k < len(rl) {
				ri = rl[k]
			}
			if k < len(ml) {
				mi = ml[k]
			}
			c.mismatch("proxy-log", strings.Join(opsSummary(scripts[i]), " ; "), fmt.Sprintf("event %d: %s", k, clip(ri, 300)), fmt.Sprintf("event %d: %s", k, clip(mi, 300)), true)
		}
	}
}
