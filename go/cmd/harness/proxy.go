package main

import (
	"bytes"
	"encoding/json"
	"fmt"
	"os/exec"
	"path/filepath"
	"strings"
	"time"
)

// ---- scripts for the in-repo proxy runner (go/overlay/proxy_main.go) -------------------------

type PRng struct{ SL, SC, EL, EC uint32 }
type PLoc struct {
	URI string
	R   PRng
}
type PDiag struct {
	R   PRng
	Msg string
}
type POp struct {
	Op      string
	URI     string `json:",omitempty"`
	Text    string `json:",omitempty"`
	Version int32  `json:",omitempty"`
	Method  string `json:",omitempty"`
	Line    uint32
	Char    uint32
	Answer  []PLoc  `json:",omitempty"`
	Detail  string  `json:",omitempty"`
	Nil     bool    `json:",omitempty"`
	Diags   []PDiag `json:",omitempty"`
	Message string  `json:",omitempty"`
	Par     int     `json:",omitempty"`
}

// PEvent: one observable event of a run, grouped by the op that caused it.
type PEvent struct {
	Kind string   // D (downstream call) | E (editor notification) | R (reply)
	F    []string // fields
	Raw  string
}

func (c *Ctx) runProxy(ops []POp) ([][]PEvent, error) {
	in, _ := json.Marshal(ops)
	cmd := exec.Command(filepath.Join(c.Build, "verifproxy"))
	cmd.Stdin = bytes.NewReader(in)
	var out bytes.Buffer
	cmd.Stdout = &out
	if err := cmd.Start(); err != nil {
		return nil, err
	}
	done := make(chan error, 1)
	go func() { done <- cmd.Wait() }()
	select {
	case err := <-done:
		if err != nil {
			return nil, fmt.Errorf("proxy runner: %v", err)
		}
	case <-time.After(60 * time.Second):
		cmd.Process.Kill()
		return nil, fmt.Errorf("proxy runner: timeout")
	}
	return parseProxyLog(out.String()), nil
}

func parseProxyLog(s string) [][]PEvent {
	var res [][]PEvent
	var cur []PEvent
	started := false
	for _, l := range strings.Split(strings.TrimSpace(s), "\n") {
		if strings.HasPrefix(l, "# op ") || strings.HasPrefix(l, "# par ") {
			if started {
				res = append(res, cur)
			}
			cur = nil
			started = true
			continue
		}
		if strings.HasPrefix(l, "#") || l == "" {
			continue
		}
		f := strings.Fields(l)
		cur = append(cur, PEvent{Kind: f[0], F: f[1:], Raw: l})
	}
	if started {
		res = append(res, cur)
	}
	return res
}

func kv(fields []string, key string) string {
	for _, f := range fields {
		if strings.HasPrefix(f, key+"=") {
			return f[len(key)+1:]
		}
	}
	return ""
}

// composeReal returns the code, error ("-" or line:col:class) and both tables of the real compiler for a buffer.
func (c *Ctx) composeReal(texts []string) map[string]CompObs {
	var ins [][]byte
	for _, t := range texts {
		ins = append(ins, []byte(t))
	}
	reqs := make([]string, len(ins))
	for i, in := range ins {
		reqs[i] = "C " + hx(in)
	}
	out := map[string]CompObs{}
	for i, r := range c.Wrk.Map(reqs, 5*time.Second) {
		out[texts[i]] = parseImplReply(r)
	}
	return out
}
