package main

import (
	"fmt"
	"sort"
	"strings"
	"time"

	"verifharness/internal/proc"
)

// CompObs is the canonical observation of one compilation (either side).
type CompObs struct {
	Outcome string // ok | panic | hang | died
	Err     string // "-" or "line:col:class"
	Text    []byte
	S2T     string // sorted "sl,sc,tl,tc;" list
	T2S     string
	GenSame string // implementation only: same | diff:<hex> | na
	Repeat  string // implementation only: same | diff:<hex> — the same bytes compiled again, twice, in the same process
	Lookups string // implementation only: ok | bad:<hex> — the two lookup functions against their own tables
	EmitErr string
	Chk     string // model only: S/s = source runs pairwise disjoint or not, T/t = target runs
}

type entry struct{ a, b, c, d int }

func tablesFromLog(log string) (string, string) {
	s2t := map[[2]int][2]int{}
	t2s := map[[2]int][2]int{}
	for _, e := range strings.Split(log, ";") {
		if e == "" {
			continue
		}
		var a, b, c, d int
		fmt.Sscanf(e, "%d,%d,%d,%d", &a, &b, &c, &d)
		s2t[[2]int{a, b}] = [2]int{c, d}
		t2s[[2]int{c, d}] = [2]int{a, b}
	}
	f := func(m map[[2]int][2]int) string {
		var es []entry
		for k, v := range m {
			es = append(es, entry{k[0], k[1], v[0], v[1]})
		}
		sort.Slice(es, func(i, j int) bool {
			if es[i].a != es[j].a {
				return es[i].a < es[j].a
			}
			return es[i].b < es[j].b
		})
		var sb strings.Builder
		for _, e := range es {
			fmt.Fprintf(&sb, "%d,%d,%d,%d;", e.a, e.b, e.c, e.d)
		}
		return sb.String()
	}
	return f(s2t), f(t2s)
}

func parseEntries(s string) []entry {
	var es []entry
	for _, e := range strings.Split(s, ";") {
		if e == "" {
			continue
		}
		var a, b, c, d int
		fmt.Sscanf(e, "%d,%d,%d,%d", &a, &b, &c, &d)
		es = append(es, entry{a, b, c, d})
	}
	return es
}

func errClass(e string) string {
	if e == "-" {
		return "-"
	}
	p := strings.SplitN(e, ":", 3)
	if len(p) < 3 {
		return e
	}
	return p[0] + ":" + p[1] + ":" + string(unhx(p[2]))
}

func errPos(e string) string {
	if e == "-" {
		return "-"
	}
	p := strings.SplitN(e, ":", 3)
	if len(p) < 3 {
		return e
	}
	return p[0] + ":" + p[1]
}

func parseImplReply(r proc.Reply) CompObs {
	if r.Err == proc.ErrTimeout {
		return CompObs{Outcome: "hang"}
	}
	if r.Err != nil {
		return CompObs{Outcome: "hang"} // the Go runtime aborts a process whose goroutines are all blocked ("all goroutines are asleep")
	}
	if r.Line == "panic" {
		return CompObs{Outcome: "panic"}
	}
	f := strings.Split(r.Line, " ")
	o := CompObs{Outcome: "ok", Err: errClass(f[0])}
	if len(f) >= 2 && strings.HasPrefix(f[1], "COMPOSEERR") {
		o.EmitErr = f[1]
		return o
	}
	if len(f) < 5 {
		o.Outcome = "badreply"
		return o
	}
	o.Text = unhx(strings.TrimSuffix(f[1], "X"))
	o.S2T = strings.TrimSuffix(f[2], "X")
	o.T2S = strings.TrimSuffix(f[3], "X")
	o.GenSame = f[4]
	if len(f) >= 6 {
		o.Lookups = f[5]
	}
	if len(f) >= 7 {
		o.Repeat = f[6]
	}
	return o
}

func canonClass(s string) string {
	// same canonicalisation as the worker applies to implementation messages
	if i := strings.Index(s, ":"); i >= 0 {
		s = s[:i]
	}
	if i := strings.Index(s, " Indent["); i >= 0 {
		s = s[:i]
	}
	var sb strings.Builder
	inDigits := false
	for _, r := range strings.TrimSpace(s) {
		if r >= '0' && r <= '9' {
			if !inDigits {
				sb.WriteByte('N')
			}
			inDigits = true
			continue
		}
		inDigits = false
		sb.WriteRune(r)
	}
	return sb.String()
}

func parseModelReply(r proc.Reply) CompObs {
	if r.Err == proc.ErrTimeout {
		return CompObs{Outcome: "model-timeout"}
	}
	if r.Err != nil {
		return CompObs{Outcome: "model-died"}
	}
	f := strings.Split(r.Line, " ")
	if len(f) < 5 {
		return CompObs{Outcome: "model-badreply"}
	}
	o := CompObs{}
	switch f[0] {
	case "ok":
		o.Outcome = "ok"
	case "panic":
		o.Outcome = "panic"
	default:
		o.Outcome = "hang"
	}
	if f[1] == "-" {
		o.Err = "-"
	} else {
		p := strings.SplitN(f[1], ":", 3)
		o.Err = p[0] + ":" + p[1] + ":" + canonClass(string(unhx(p[2])))
	}
	o.Text = unhx(strings.TrimSuffix(f[2], "X"))
	o.S2T, o.T2S = tablesFromLog(strings.TrimSuffix(f[3], "X"))
	if f[4] != "-" {
		o.EmitErr = "COMPOSEERR"
	}
	if len(f) > 5 {
		o.Chk = f[5]
	}
	return o
}

type CompPair struct {
	Input []byte
	Impl  CompObs
	Model CompObs
}

// compileBoth runs the real compiler (in killable workers) and the model on every input.
func (c *Ctx) compileBoth(inputs [][]byte) []CompPair {
	reqs := make([]string, len(inputs))
	for i, in := range inputs {
		reqs[i] = "C " + hx(in)
	}
	implCh := make(chan []proc.Reply, 1)
	go func() { implCh <- c.Wrk.Map(reqs, 4*time.Second) }()
	model := c.Drv.Map(reqs, 20*time.Second)
	impl := <-implCh
	out := make([]CompPair, len(inputs))
	for i := range inputs {
		out[i] = CompPair{inputs[i], parseImplReply(impl[i]), parseModelReply(model[i])}
	}
	return out
}

// tieCompile diffs the two sides at the levels named in tie (outcome, error, text, map); other
// levels are diffed as wider observations.
func (c *Ctx) tieCompile(pairs []CompPair, tie map[string]bool) {
	for _, p := range pairs {
		c.Rep.TieCases++
		in := string(p.Input)
		io, mo := p.Impl.Outcome, p.Model.Outcome
		if strings.HasPrefix(mo, "model-") {
			c.mismatch("outcome", in, io, mo, true)
			continue
		}
		if io != mo {
			c.mismatch("outcome", in, io, mo, tie["outcome"])
			continue
		}
		if io != "ok" {
			continue
		}
		if (p.Impl.Err == "-") != (p.Model.Err == "-") {
			c.mismatch("accept", in, p.Impl.Err, p.Model.Err, tie["accept"] || tie["error"])
			continue
		}
		if errPosOf(p.Impl.Err) != errPosOf(p.Model.Err) {
			c.mismatch("error", in, p.Impl.Err, p.Model.Err, tie["error"])
		} else if p.Impl.Err != p.Model.Err {
			c.mismatch("errclass", in, p.Impl.Err, p.Model.Err, false)
		}
		if p.Impl.EmitErr != "" || p.Model.EmitErr != "" {
			if (p.Impl.EmitErr != "") != (p.Model.EmitErr != "") {
				c.mismatch("emiterr", in, p.Impl.EmitErr, p.Model.EmitErr, tie["text"])
			}
			continue
		}
		if string(p.Impl.Text) != string(p.Model.Text) {
			a, b := string(p.Impl.Text), string(p.Model.Text)
			i := 0
			for i < len(a) && i < len(b) && a[i] == b[i] {
				i++
			}
			lo := i - 60
			if lo < 0 {
				lo = 0
			}
			c.mismatch("text", in, fmt.Sprintf("…%q", a[lo:min(len(a), i+80)]), fmt.Sprintf("…%q", b[lo:min(len(b), i+80)]), tie["text"])
			continue
		}
		if p.Impl.S2T != p.Model.S2T || p.Impl.T2S != p.Model.T2S {
			c.mismatch("map", in, firstDiff(p.Impl.S2T+"|"+p.Impl.T2S, p.Model.S2T+"|"+p.Model.T2S), "", tie["map"])
		}
	}
}

func errPosOf(e string) string {
	if e == "-" {
		return "-"
	}
	p := strings.SplitN(e, ":", 3)
	if len(p) < 2 {
		return e
	}
	return p[0] + ":" + p[1]
}

func firstDiff(a, b string) string {
	i := 0
	for i < len(a) && i < len(b) && a[i] == b[i] {
		i++
	}
	lo := i - 40
	if lo < 0 {
		lo = 0
	}
	return fmt.Sprintf("impl …%s  model …%s", a[lo:min(len(a), i+40)], b[lo:min(len(b), i+40)])
}


// tieLex: the token stream of the real lexer (type, text, line, column of every token) against the model's
// `lexResult`, the object the lexer theorems speak about. The text of error tokens is wording, not compared.
func (c *Ctx) tieLex(inputs [][]byte) {
	reqs := make([]string, len(inputs))
	for i, in := range inputs {
		reqs[i] = "L " + hx(in)
	}
	implCh := make(chan []proc.Reply, 1)
	go func() { implCh <- c.Wrk.Map(reqs, 4*time.Second) }()
	model := c.Drv.Map(reqs, 20*time.Second)
	impl := <-implCh
	canon := func(r proc.Reply) string {
		if r.Err != nil {
			return "no-reply"
		}
		f := strings.Fields(r.Line)
		for i, t := range f {
			if strings.HasPrefix(t, "Error:") {
				p := strings.Split(t, ":")
				if len(p) == 4 {
					f[i] = "Error:_:" + p[2] + ":" + p[3]
				}
			}
		}
		return strings.Join(f, " ")
	}
	for i, in := range inputs {
		c.Rep.TieCases++
		c.dist("lex-streams")
		a, b := canon(impl[i]), canon(model[i])
		if a != b {
			c.mismatch("tokens", string(in), clip(firstDiffTok(a, b), 200), "", true)
		}
	}
}

func firstDiffTok(a, b string) string {
	fa, fb := strings.Fields(a), strings.Fields(b)
	for i := 0; i < len(fa) || i < len(fb); i++ {
		x, y := "(none)", "(none)"
		if i < len(fa) {
			x = fa[i]
		}
		if i < len(fb) {
			y = fb[i]
		}
		if x != y {
			return fmt.Sprintf("token %d: implementation %s, model %s", i, x, y)
		}
	}
	return "equal"
}
