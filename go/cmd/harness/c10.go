package main

import (
	"fmt"
	"os"
	"os/exec"
	"path/filepath"
	"strconv"
	"strings"

	"verifharness/internal/gen"
)

func init() { props["C10"] = c10 }

type faultCase struct {
	inj  gen.Injected
	base int
}

func c10(c *Ctx) {
	c.Rep.TieObs = []string{"O-parse: accepted | rejected(line, col) of ParseString", "O-gen: `goht generate` leaves no .goht.go for a rejected file"}
	c.Rep.Rule = "every fault operator (one per documented rule) injected at every position of every block of generated valid files; distinct = distinct (operator, file text); non-trivial = the unmodified file is accepted by the real compiler"
	var cases []faultCase
	var inputs [][]byte
	var bases [][]byte
	if c.Replay != "" {
		b, _ := os.ReadFile(c.Replay)
		in := replayInput(b)
		cases = append(cases, faultCase{gen.Injected{Fault: "replay", Src: string(in)}, -1})
		inputs = append(inputs, in)
	} else {
		for _, b := range c.corpus() {
			cases = append(cases, faultCase{gen.Injected{Fault: "corpus", Src: string(b)}, -1})
			inputs = append(inputs, b)
		}
		nFiles := c.N(10, 150)
		for i := 0; i < nFiles; i++ {
			o := gen.Opts{ObjRefs: i%2 == 0, ClassExprs: true, MaxDepth: 2}
			f := gen.GenFile(newRand(c.R.Int63()), o, 1, 1+i%2)
			_, base := f.Print()
			bases = append(bases, []byte(base))
			for k, inj := range gen.InjectAll(f, c.N(6, 0)) {
				cases = append(cases, faultCase{inj, i})
				inputs = append(inputs, []byte(inj.Src))
				if (k+i)%3 == 0 {
					// the same malformed file as an editor that writes CRLF line ends saves it
					cr := inj
					cr.Fault += "/crlf"
					cr.Src = strings.ReplaceAll(inj.Src, "\n", "\r\n")
					cases = append(cases, faultCase{cr, i})
					inputs = append(inputs, []byte(cr.Src))
				}
			}
		}
	}
	// the unmodified files must be accepted (otherwise a rejection proves nothing)
	basePairs := c.compileBoth(bases)
	baseOK := map[int]bool{}
	for i, p := range basePairs {
		baseOK[i] = p.Impl.Outcome == "ok" && p.Impl.Err == "-"
		if !baseOK[i] {
			c.dist("base.rejected")
			c.Rep.Notes = append(c.Rep.Notes, "generator file rejected: "+p.Impl.Err+" "+clip(fmt.Sprintf("%q", p.Input), 200))
		}
	}
	pairs := c.compileBoth(inputs)
	c.tieCompile(pairs, map[string]bool{"accept": true, "error": true, "outcome": true})
	var rejected [][]byte
	for i, p := range pairs {
		fc := cases[i]
		if fc.base >= 0 && !baseOK[fc.base] {
			continue
		}
		c.Rep.OracleCases++
		c.dist("fault." + fc.inj.Fault)
		c.distinct(fc.inj.Fault + "\x00" + fc.inj.Src)
		if i%211 == 0 {
			c.sample(map[string]any{"fault": fc.inj.Fault, "where": fc.inj.Where, "input": clip(fmt.Sprintf("%q", p.Input), 240), "impl": p.Impl.Err})
		}
		if p.Impl.Outcome != "ok" {
			c.fail("C10/no-return/"+fc.inj.Fault, "compiler does not return on a malformed template", map[string]string{"input_hex": hx(p.Input), "fault": fc.inj.Fault})
			continue
		}
		if p.Impl.Err == "-" {
			if fc.inj.Fault == "corpus" || fc.inj.Fault == "replay" {
				c.fail("C10/accepted/corpus", "malformed template accepted: "+clip(fmt.Sprintf("%q", p.Input), 120), map[string]string{"input_hex": hx(p.Input)})
				continue
			}
			c.fail("C10/accepted/"+fc.inj.Fault, fmt.Sprintf("template with fault %s (%s) is accepted and compiled", fc.inj.Fault, fc.inj.Where),
				map[string]any{"input_hex": hx(p.Input), "fault": fc.inj.Fault, "where": fc.inj.Where, "line": fc.inj.Line})
			continue
		}
		rejected = append(rejected, p.Input)
		// error names a line and column inside the file
		pos := strings.SplitN(p.Impl.Err, ":", 3)
		line, _ := strconv.Atoi(pos[0])
		col, _ := strconv.Atoi(pos[1])
		lines := strings.Split(string(p.Input), "\n")
		ok := line >= 1 && line <= len(lines)
		if ok {
			ok = col >= 1 && col <= utf16Len(lines[line-1])+1
		}
		if !ok {
			c.fail("C10/position/"+fc.inj.Fault, fmt.Sprintf("fault %s is rejected at %d:%d, which is not a position inside the file", fc.inj.Fault, line, col),
				map[string]any{"input_hex": hx(p.Input), "fault": fc.inj.Fault, "reported": p.Impl.Err})
		}
	}
	// the command-line generator emits nothing for a rejected template
	if goht := filepath.Join(c.Build, "goht"); fileExists(goht) && len(rejected) > 0 {
		dir, err := os.MkdirTemp("", "verif-c10-")
		if err == nil {
			defer os.RemoveAll(dir)
			n := len(rejected)
			if n > c.N(60, 600) {
				n = c.N(60, 600)
			}
			for i := 0; i < n; i++ {
				os.WriteFile(filepath.Join(dir, fmt.Sprintf("f%d.goht", i)), rejected[i*len(rejected)/n], 0644)
			}
			// one stale previous output must stay untouched
			os.WriteFile(filepath.Join(dir, "f0.goht.go"), []byte("package old\n"), 0644)
			old := filepath.Join(dir, "f0.goht.go")
			past := mustStat(old).ModTime().Add(-3600e9)
			os.Chtimes(old, past, past)
			cmd := exec.Command(goht, "generate", "--path", dir)
			out, _ := cmd.CombinedOutput()
			_ = out
			ents, _ := os.ReadDir(dir)
			for _, e := range ents {
				if strings.HasSuffix(e.Name(), ".goht.go") {
					b, _ := os.ReadFile(filepath.Join(dir, e.Name()))
					if e.Name() == "f0.goht.go" && string(b) == "package old\n" {
						continue
					}
					src, _ := os.ReadFile(filepath.Join(dir, strings.TrimSuffix(e.Name(), ".go")))
					c.fail("C10/cli-emitted", "goht generate wrote "+e.Name()+" for a template the compiler rejects", map[string]string{"input_hex": hx(src)})
				}
			}
			c.Rep.OracleCases += n
			c.dist("cli.files")
			c.Rep.Dist["cli.files"] = n
		}
	} else {
		c.Rep.Notes = append(c.Rep.Notes, "goht binary not available: CLI clause not exercised")
	}
}

func fileExists(p string) bool { _, err := os.Stat(p); return err == nil }
func mustStat(p string) os.FileInfo {
	fi, err := os.Stat(p)
	if err != nil {
		panic(err)
	}
	return fi
}
