package main

import (
	"fmt"
	"html"
	"os"
	"sort"
	"strings"
	"time"

	"verifharness/internal/proc"
)

func init() { props["C19"] = c19 }

var advStrings = []string{"", "a", "b c", "<x>", `q"q`, "it's", "a&b", "é", "😀", " ", "\t", "~☢<", ">☢~", `\n`, "x\ny", "A", "a b", "z", "class", "0"}

type hval struct {
	kind string // S L LN B BN M MN X
	s    string
	l    []string
	kb   []string // keys (insertion order)
	vb   []bool
	vs   []string
	x    string
}

func (v hval) enc(perm []int) string {
	switch v.kind {
	case "S":
		return "S:" + hxu([]byte(v.s))
	case "L":
		var it []string
		for _, s := range v.l {
			it = append(it, hxu([]byte(s)))
		}
		return "L:" + strings.Join(it, ",")
	case "B", "M":
		var it []string
		idx := perm
		if idx == nil {
			for i := range v.kb {
				idx = append(idx, i)
			}
		}
		for _, i := range idx {
			if v.kind == "B" {
				b := "0"
				if v.vb[i] {
					b = "1"
				}
				it = append(it, hxu([]byte(v.kb[i]))+"="+b)
			} else {
				it = append(it, hxu([]byte(v.kb[i]))+"="+hxu([]byte(v.vs[i])))
			}
		}
		return v.kind + ":" + strings.Join(it, ",")
	case "X":
		return "X:" + v.x
	}
	return v.kind + ":"
}

func (c *Ctx) genVal(forAttr bool) hval {
	pickS := func() string { return advStrings[c.R.Intn(len(advStrings))] }
	k := c.R.Intn(12)
	switch {
	case k < 2:
		return hval{kind: "S", s: pickS()}
	case k < 4:
		n := c.R.Intn(4)
		v := hval{kind: "L"}
		for i := 0; i < n; i++ {
			v.l = append(v.l, pickS())
		}
		if n == 0 && c.R.Intn(2) == 0 {
			v.kind = "LN"
		}
		return v
	case k < 8:
		n := c.R.Intn(9)
		v := hval{kind: "B"}
		seen := map[string]bool{}
		for i := 0; i < n; i++ {
			key := pickS()
			if seen[key] {
				continue
			}
			seen[key] = true
			v.kb = append(v.kb, key)
			v.vb = append(v.vb, c.R.Intn(3) > 0)
		}
		if len(v.kb) == 0 && c.R.Intn(2) == 0 {
			v.kind = "BN"
		}
		return v
	case k < 11:
		n := c.R.Intn(9)
		v := hval{kind: "M"}
		seen := map[string]bool{}
		for i := 0; i < n; i++ {
			key := pickS()
			if seen[key] {
				continue
			}
			seen[key] = true
			v.kb = append(v.kb, key)
			v.vs = append(v.vs, pickS())
		}
		if len(v.kb) == 0 && c.R.Intn(2) == 0 {
			v.kind = "MN"
		}
		return v
	default:
		return hval{kind: "X", x: []string{"int", "nil", "bytes", "mapany", "strptr", "float"}[c.R.Intn(6)]}
	}
}

func (c *Ctx) perm(n int) []int { return c.R.Perm(n) }

func c19(c *Ctx) {
	c.Rep.TieObs = []string{"O-rt: result string / error of goht.BuildClassList, BuildAttributeList, ObjectID, ObjectClass"}
	c.Rep.Rule = "argument lists of 0..4 values over string, []string, map[string]bool, map[string]string (0..8 entries, adversarial keys/values, nil maps and slices) and unsupported types; the real helper is called 12 times per list (fresh maps each time), the model with 4 permutations of every map; distinct = distinct encoded argument list; non-trivial = contains a map with >= 2 entries or an unsupported value"
	type hcase struct {
		fn   string
		vals []hval
		obj  []string
	}
	var cases []hcase
	if c.Replay != "" {
		b, _ := os.ReadFile(c.Replay)
		s := string(b)
		if i := strings.Index(s, `"request": "`); i >= 0 {
			rest := s[i+len(`"request": "`):]
			req := rest[:strings.Index(rest, `"`)]
			p := proc.New([]string{c.Build + "/worker"})
			d := proc.New([]string{c.Build + "/gohtdrv"})
			ri, _ := p.Ask(req, 5*time.Second)
			rm, _ := d.Ask(req, 5*time.Second)
			p.Kill()
			d.Kill()
			c.Rep.TieCases, c.Rep.OracleCases = 1, 1
			if ri != rm {
				c.mismatch("helper", req, ri, rm, true)
				c.fail("C19/replay", "implementation "+ri+" model "+rm, map[string]string{"request": req})
			}
			return
		}
	}
	n := c.N(1500, 60000)
	for i := 0; i < n; i++ {
		fn := "class"
		if i%2 == 1 {
			fn = "attr"
		}
		k := c.R.Intn(5)
		hc := hcase{fn: fn}
		for j := 0; j < k; j++ {
			hc.vals = append(hc.vals, c.genVal(fn == "attr"))
		}
		cases = append(cases, hc)
	}
	for _, kind := range []string{"both", "id", "cls", "none"} {
		for _, id := range advStrings {
			for _, cl := range []string{"", "c", `k"k`, "a b"} {
				for _, pf := range []string{"-", "", "p", "<p>"} {
					for _, fn := range []string{"oid", "ocls", "oclsl"} {
						o := []string{fn, kind, hxu([]byte(id)), hxu([]byte(cl))}
						if pf != "-" {
							o = append(o, hxu([]byte(pf)))
						}
						cases = append(cases, hcase{fn: fn, obj: o})
					}
				}
			}
		}
	}
	const reps, perms = 12, 4
	var implReqs, modelReqs []string
	for _, hc := range cases {
		if hc.obj != nil {
			r := "H " + strings.Join(hc.obj, " ")
			implReqs = append(implReqs, r)
			modelReqs = append(modelReqs, r)
			continue
		}
		base := "H " + hc.fn
		for _, v := range hc.vals {
			base += " " + v.enc(nil)
		}
		for r := 0; r < reps; r++ {
			implReqs = append(implReqs, base)
		}
		for p := 0; p < perms; p++ {
			r := "H " + hc.fn
			for _, v := range hc.vals {
				var pm []int
				if p > 0 && (v.kind == "B" || v.kind == "M") {
					pm = c.perm(len(v.kb))
				}
				r += " " + v.enc(pm)
			}
			modelReqs = append(modelReqs, r)
		}
	}
	implCh := make(chan []proc.Reply, 1)
	go func() { implCh <- c.Wrk.Map(implReqs, 5*time.Second) }()
	model := c.Drv.Map(modelReqs, 10*time.Second)
	impl := <-implCh
	ii, mi := 0, 0
	for ci, hc := range cases {
		c.Rep.TieCases++
		c.Rep.OracleCases++
		var irs, mrs []string
		req := ""
		if hc.obj != nil {
			irs = []string{impl[ii].Line}
			mrs = []string{model[mi].Line}
			req = implReqs[ii]
			ii++
			mi++
			c.dist("fn." + hc.fn)
		} else {
			req = implReqs[ii]
			for r := 0; r < reps; r++ {
				irs = append(irs, impl[ii].Line)
				ii++
			}
			for p := 0; p < perms; p++ {
				mrs = append(mrs, model[mi].Line)
				mi++
			}
			c.dist("fn." + hc.fn)
			nontrivial := false
			for _, v := range hc.vals {
				c.dist("arg." + v.kind)
				if len(v.kb) >= 2 || v.kind == "X" {
					nontrivial = true
				}
			}
			if nontrivial {
				c.distinct(req)
			}
		}
		if ci%509 == 0 {
			c.sample(map[string]string{"request": req, "impl": irs[0], "model": mrs[0]})
		}
		// oracle 1: determinism of the implementation across repeated calls
		for _, r := range irs[1:] {
			if r != irs[0] {
				c.fail("C19/nondeterministic/"+hc.fn, fmt.Sprintf("equal arguments, different results: %s vs %s", clip(decodeReply(irs[0]), 80), clip(decodeReply(r), 80)), map[string]string{"request": req})
				break
			}
		}
		// oracle 2: no panic; unsupported type -> error
		hasX := false
		for _, v := range hc.vals {
			if v.kind == "X" || (hc.fn == "attr" && (v.kind == "S" || v.kind == "L" || v.kind == "LN")) || (hc.fn == "class" && (v.kind == "M" || v.kind == "MN")) {
				hasX = true
			}
		}
		if irs[0] == "mutated" {
			c.fail("C19/mutates-arguments/"+hc.fn, "the helper wrote into one of its arguments (a slice's backing array or a map): equal arguments no longer give equal results for the caller", map[string]string{"request": req})
		}
		if irs[0] == "mutated" {
			// reported above
		} else if irs[0] == "panic" {
			c.fail("C19/panic/"+hc.fn, "helper panics", map[string]string{"request": req})
		} else if hc.obj == nil && hasX && irs[0] != "err" {
			c.fail("C19/unsupported-accepted/"+hc.fn, "an argument of an unsupported type does not yield an error: "+clip(decodeReply(irs[0]), 80), map[string]string{"request": req})
		} else if hc.obj == nil && !hasX && irs[0] == "err" {
			c.fail("C19/supported-rejected/"+hc.fn, "supported arguments yield an error", map[string]string{"request": req})
		}
		// oracle for object references: joined with underscores, nothing without the method, escaped exactly once
		if hc.obj != nil && strings.HasPrefix(irs[0], "ok") {
			kind, id, cl := hc.obj[1], string(unhx(strings.TrimPrefix(hc.obj[2], "_"))), string(unhx(strings.TrimPrefix(hc.obj[3], "_")))
			var parts []string
			if len(hc.obj) > 4 {
				parts = append(parts, string(unhx(strings.TrimPrefix(hc.obj[4], "_"))))
			}
			hasID, hasCls := kind == "both" || kind == "id", kind == "both" || kind == "cls"
			want := ""
			switch hc.fn {
			case "oid":
				if hasID {
					if hasCls {
						parts = append(parts, cl)
					}
					want = html.EscapeString(strings.Join(append(parts, id), "_"))
				}
			case "oclsl": // the class as it reaches the document
				if hasCls {
					want = html.EscapeString(strings.Join(append(parts, cl), "_"))
				}
			case "ocls":
				want = "\x00skip"
			}
			if got := decodeReply(irs[0]); want != "\x00skip" && got != want {
				c.fail("C19/contract/"+hc.fn, fmt.Sprintf("object reference: got %q, contract (joined with _, escaped exactly once) gives %q", clip(got, 80), clip(want, 80)), map[string]string{"request": req})
			}
		}
		// oracle 3: the documented contract, computed independently of the model
		if hc.obj == nil && !hasX && strings.HasPrefix(irs[0], "ok") {
			want := contract(hc.fn, hc.vals)
			if got := decodeReply(irs[0]); got != want {
				c.fail("C19/contract/"+hc.fn, fmt.Sprintf("got %q, documented contract gives %q", clip(got, 80), clip(want, 80)), map[string]string{"request": req})
			}
		}
		// tie: model (all permutations) = implementation
		for _, m := range mrs {
			if m != irs[0] {
				c.mismatch("helper", req, irs[0], m, true)
				break
			}
		}
	}
}

func decodeReply(r string) string {
	if strings.HasPrefix(r, "ok ") {
		return string(unhx(r[3:]))
	}
	if r == "ok" {
		return ""
	}
	return r
}

// contract: what the documentation says, written directly (independent of goht and of the Lean model).
func contract(fn string, vals []hval) string {
	if fn == "class" {
		var items []string
		for _, v := range vals {
			switch v.kind {
			case "S":
				if v.s != "" {
					items = append(items, v.s)
				}
			case "L":
				items = append(items, v.l...)
			case "B":
				var ks []string
				for i, k := range v.kb {
					if v.vb[i] && k != "" {
						ks = append(ks, k)
					}
				}
				sort.Strings(ks)
				items = append(items, ks...)
			}
		}
		return html.EscapeString(strings.Join(items, " "))
	}
	var items []string
	for _, v := range vals {
		switch v.kind {
		case "B":
			for i, k := range v.kb {
				if v.vb[i] {
					items = append(items, html.EscapeString(k))
				}
			}
		case "M":
			for i, k := range v.kb {
				if v.vs[i] != "" {
					items = append(items, html.EscapeString(k)+`="`+html.EscapeString(v.vs[i])+`"`)
				}
			}
		}
	}
	sort.Strings(items)
	return strings.Join(items, " ")
}

// hxu: hex with a leading underscore, so that the empty string is a visible field
func hxu(b []byte) string { return "_" + hx(b) }
