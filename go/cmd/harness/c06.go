package main

import (
	"math"
	"crypto/sha1"
	"fmt"
	"math/rand"
	"os"
	"path/filepath"
	"sort"
	"strings"
	"time"

	"verifharness/internal/gen"
	"verifharness/internal/proc"
)

func init() { props["C06"] = c06 }

// corpus returns the committed minimised inputs for a property (run first).
func (c *Ctx) corpus() [][]byte {
	var out [][]byte
	files, _ := filepath.Glob(filepath.Join("/verif/corpus", c.Prop, "*"))
	sort.Strings(files)
	for _, f := range files {
		if b, err := os.ReadFile(f); err == nil {
			out = append(out, b)
		}
	}
	return out
}

// validFiles: generator output (printed) for n files.
func (c *Ctx) validFiles(n int, o gen.Opts, layouts, pages int) [][]byte {
	var out [][]byte
	for i := 0; i < n; i++ {
		f := gen.GenFile(rand.New(rand.NewSource(c.R.Int63())), o, layouts, pages)
		_, src := f.Print()
		out = append(out, []byte(src))
	}
	return out
}

// shrink: greedy delta debugging on bytes while pred stays true.
func shrink(in []byte, pred func([]byte) bool) []byte {
	cur := append([]byte{}, in...)
	for chunk := len(cur) / 2; chunk >= 1; {
		changed := false
		for i := 0; i+chunk <= len(cur); {
			cand := append(append([]byte{}, cur[:i]...), cur[i+chunk:]...)
			if pred(cand) {
				cur = cand
				changed = true
			} else {
				i += chunk
			}
		}
		if !changed || chunk > len(cur) {
			chunk /= 2
		}
	}
	return cur
}

func (c *Ctx) diagnose(in []byte) string {
	p := proc.New([]string{filepath.Join(c.Build, "worker")}, "GOMEMLIMIT=2GiB")
	defer p.Kill()
	s, err := p.Ask("D "+hx(in), 5*time.Second)
	if err != nil {
		return "hang ?"
	}
	return s
}

func c06(c *Ctx) {
	c.Rep.TieObs = []string{"O-compile.outcome (ok | panic | hang) of ParseString+Compose"}
	c.Rep.Rule = "inputs: corpus, every .goht of the repo, hand-written corner seeds, generator files; every k-th prefix, single-byte deletions, structural-token insertions, splices, several line-level edits at once (indentation removed / reduced / increased / with a blank, lines repeated or swapped), random bytes, every indentation profile (depths 0..3) of templates of up to 4 (thorough: 6) lines, every string of up to 3 (thorough: 4) grammar delimiters inside an attribute list and at the start of a line, size-scaling families; distinct = distinct input bytes; non-trivial = input reaches the template lexer (contains '@goht') or is a scaling family"
	var inputs [][]byte
	var tags []string
	seenHash := map[[20]byte]bool{}
	timing := map[string]float64{}
	var scaleIn [][]byte
	var scaleTag []string
	nProcessed := 0
	start := time.Now()
	// inputs are compiled and judged in bounded batches: the thorough tier generates gigabytes of them
	flush := func() {
		if len(inputs) == 0 {
			return
		}
		pairs := c.compileBoth(inputs)
		c.tieCompile(pairs, map[string]bool{"outcome": true})
		for i, p := range pairs {
			c.Rep.OracleCases++
			nProcessed++
			kind := tags[i]
			if strings.HasPrefix(kind, "scale:") {
				c.dist("input.scale")
			} else {
				c.dist("input." + kind)
			}
			c.dist("impl.outcome." + p.Impl.Outcome)
			if p.Impl.Outcome == "ok" {
				if p.Impl.Err == "-" {
					c.dist("impl.accepted")
				} else {
					c.dist("impl.rejected")
				}
			}
			if strings.Contains(string(p.Input), "@goht") || strings.HasPrefix(kind, "scale:") {
				c.Rep.Distinct++ // inputs are already deduplicated by hash
			}
			if nProcessed%997 == 0 {
				c.sample(map[string]string{"kind": kind, "input": clip(fmt.Sprintf("%q", p.Input), 200), "impl": p.Impl.Outcome + " " + p.Impl.Err})
			}
			if p.Impl.Outcome != "ok" {
				// label with the lexer state the real code was in; shrink while the label is unchanged
				label := c.diagnose(p.Input)
				if strings.HasPrefix(label, "ok") {
					label = p.Impl.Outcome + " parser-or-emitter"
				}
				min := p.Input
				if len(p.Input) <= 4000 && len(c.Rep.Failures) < 12 {
					budget := 60
					min = shrink(p.Input, func(b []byte) bool {
						if budget <= 0 {
							return false
						}
						budget--
						return c.diagnose(b) == label
					})
				}
				f := strings.Fields(label)
				sig := "C06/" + f[0] + "/" + strings.Join(f[1:], "_")
				c.fail(sig, fmt.Sprintf("ParseString/Compose does not return (%s) on %s", label, clip(fmt.Sprintf("%q", min), 120)),
					map[string]string{"input_hex": hx(min), "input": fmt.Sprintf("%q", min), "observed": label})
			}
		}
		inputs, tags = nil, nil
	}
	pending := 0
	add := func(kind string, bs ...[]byte) {
		for _, b := range bs {
			h := sha1.Sum(b)
			if seenHash[h] {
				continue
			}
			seenHash[h] = true
			if strings.HasPrefix(kind, "scale:") {
				scaleIn = append(scaleIn, b)
				scaleTag = append(scaleTag, kind)
				if len(b) > 40000 {
					// the largest members are timed below with a generous limit (the property allows a low-degree
					// polynomial); the 4-second limit of the batch tie would call them hangs
					continue
				}
			}
			inputs = append(inputs, b)
			tags = append(tags, kind)
			pending += len(b) + 64
			if pending > 48<<20 {
				flush()
				pending = 0
			}
		}
	}
	if c.Replay != "" {
		b, _ := os.ReadFile(c.Replay)
		add("replay", replayInput(b))
	} else {
		add("corpus", c.corpus()...)
		seeds := append(gen.RepoSeeds(c.Repo), gen.ExtraSeeds()...)
		valid := c.validFiles(c.N(12, 80), gen.Opts{NonASCII: true, ObjRefs: true, ClassExprs: true, AttributesCmd: true, ShorthandElse: true, StmtAfterBlock: true, AdvStatic: true}, 2, 4)
		seeds = append(seeds, valid...)
		for _, s := range seeds {
			add("seed", s)
			if len(s) < 2500 {
				add("prefix", gen.Prefixes(s, c.N(7, 1))...)
			}
			add("mutant", gen.Mutants(c.R, s, c.N(25, 300))...)
			add("line-mutant", gen.LineMutants(c.R, s, c.N(12, 150))...)
			if c.Thorough() && len(s) < 1500 {
				for i := 0; i < len(s); i++ {
					add("deletion", append(append([]byte{}, s[:i]...), s[i+1:]...))
				}
			}
		}
		add("indent-profile", gen.IndentProfiles(c.N(4, 6))...)
		add("small-scope", gen.SmallScope(c.N(3, 4))...)
		for k := 0; k < c.N(300, 20000); k++ {
			n := c.R.Intn(60)
			b := make([]byte, n)
			alphabet := "@goht (){}\n\t%#.[]\"`:=!-/<>\\ pi\xff\xe2\x98é,?a"
			for i := range b {
				b[i] = alphabet[c.R.Intn(len(alphabet))]
			}
			if c.R.Intn(3) == 0 {
				// a rune whose low byte is a delimiter, somewhere in it
				rs := []rune(gen.CollisionRunes)
				i := c.R.Intn(len(b) + 1)
				b = append(append(append([]byte{}, b[:i]...), string(rs[c.R.Intn(len(rs))])...), b[i:]...)
			}
			if c.R.Intn(2) == 0 {
				b = append([]byte("@goht T() {\n\t"), b...)
			}
			add("random", b)
		}
		sizes := []int{70, 500}
		if c.Thorough() {
			sizes = []int{70, 500, 2000}
		}
		for _, n := range sizes {
			fam := gen.Scaling(n)
			keys := make([]string, 0, len(fam))
			for k := range fam {
				keys = append(keys, k)
			}
			sort.Strings(keys)
			for _, k := range keys {
				add(fmt.Sprintf("scale:%s:%d", k, n), fam[k])
			}
		}
	}
	flush()
	c.Rep.Notes = append(c.Rep.Notes, fmt.Sprintf("compiled %d distinct inputs on both sides in %.1fs (bounded batches)", nProcessed, time.Since(start).Seconds()))
	// supporting (non-proof) evidence: wall-clock of the scaling families on the implementation
	if c.Replay == "" {
		p := proc.New([]string{filepath.Join(c.Build, "worker")})
		defer p.Kill()
		for i, in := range scaleIn {
			t0 := time.Now()
			_, err := p.Ask("C "+hx(in), 90*time.Second)
			if err == nil {
				timing[scaleTag[i]] = time.Since(t0).Seconds()
			} else {
				timing[scaleTag[i]] = -1
				c.fail("C06/no-return/"+scaleTag[i], fmt.Sprintf("no result within 90 s on the %d-byte member of a size-scaling family (%s)", len(in), scaleTag[i]), map[string]string{"family": scaleTag[i], "bytes": fmt.Sprint(len(in))})
				p.Kill()
				p = proc.New([]string{filepath.Join(c.Build, "worker")})
			}
		}
		// growth between the two largest members of each family: a low-degree polynomial is allowed
		type pt struct {
			n int
			t float64
		}
		fams := map[string][]pt{}
		for k, t := range timing {
			f := strings.Split(k, ":")
			n := 0
			fmt.Sscan(f[2], &n)
			fams[f[1]] = append(fams[f[1]], pt{n, t})
		}
		growth := map[string]float64{}
		for name, ps := range fams {
			sort.Slice(ps, func(a, b int) bool { return ps[a].n < ps[b].n })
			if len(ps) >= 2 {
				a, b := ps[len(ps)-2], ps[len(ps)-1]
				if a.t > 0.002 && b.t > 0 {
					e := math.Log(b.t/a.t) / math.Log(float64(b.n)/float64(a.n))
					growth[name] = e
					if e > 3.6 {
						c.fail("C06/superpolynomial/"+name, fmt.Sprintf("running time of family %s grows like n^%.1f between n=%d (%.3fs) and n=%d (%.3fs)", name, e, a.n, a.t, b.n, b.t), map[string]string{"family": name})
					}
				}
			}
		}
		c.Rep.Notes = append(c.Rep.Notes, fmt.Sprintf("empirical growth exponents between the two largest members: %v", growth))
		c.Rep.Supporting = map[string]any{"scaling_wall_s (implementation; -1 = no return within 90 s)": timing}
	}
}

func replayInput(b []byte) []byte {
	// a replay file is JSON with "input_hex" somewhere inside "case"
	s := string(b)
	if i := strings.Index(s, `"input_hex"`); i >= 0 {
		rest := s[i+len(`"input_hex"`):]
		if j := strings.Index(rest, `"`); j >= 0 {
			rest = rest[j+1:]
			if k := strings.Index(rest, `"`); k >= 0 {
				return unhx(rest[:k])
			}
		}
	}
	return b
}
