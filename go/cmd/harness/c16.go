package main

import (
	"fmt"
	"os"
	"strings"
	"unicode/utf16"
	"unicode/utf8"

	"verifharness/internal/gen"
)

func init() {
	props["C16"] = c16
	props["C07"] = c07
}

// utf16Len of a line (without its terminator)
func utf16Len(s string) int {
	n := 0
	for _, r := range s {
		n += len(utf16.Encode([]rune{r}))
	}
	return n
}

// splitLines splits on \n only: a trailing \r stays part of the line, so that a position just
// before the \n of a CRLF line counts as "within the line or at its end" (lenient reading).
func splitLines(s string) []string {
	return strings.Split(s, "\n")
}

func isASCII(s string) bool {
	for i := 0; i < len(s); i++ {
		if s[i] >= 0x80 {
			return false
		}
	}
	return true
}

// mapInputs: accepted files for the position-map properties.
func (c *Ctx) mapInputs() ([][]byte, []*gen.Printer) {
	var ins [][]byte
	var prs []*gen.Printer
	add := func(b []byte, p *gen.Printer) { ins = append(ins, b); prs = append(prs, p) }
	if c.Replay != "" {
		b, _ := os.ReadFile(c.Replay)
		add(replayInput(b), nil)
		return ins, prs
	}
	for _, b := range c.corpus() {
		add(b, nil)
	}
	for _, b := range gen.RepoSeeds(c.Repo) {
		add(b, nil)
	}
	for _, b := range gen.ExtraSeeds() {
		add(b, nil)
	}
	n := c.N(120, 4000)
	for i := 0; i < n; i++ {
		o := gen.Opts{ObjRefs: true, ClassExprs: true, AttributesCmd: i%3 == 0, NonASCII: i%4 == 1, MaxDepth: 2 + i%2, MultiLineFrags: i%6 == 2, Trailers: i%3 == 1, TrailingSpace: i%2 == 0, StmtAfterBlock: true, ShorthandElse: true, VerbSpacing: i%2 == 1, DupAttrs: i%3 == 2, UnescBlocks: true, Switch: true}
		f := gen.GenFile(newRand(c.R.Int63()), o, 1+i%2, 1+i%3)
		switch i % 5 {
		case 1:
			f.Package = "" // no package clause
		case 2:
			// (also packages goht imports itself, under another name)
			f.Imports = []string{`"fmt"`, `str "strings"`, `ctx "context"`, `_ "io"`}
			f.ImportGroup = true
		case 3:
			f.Imports = []string{`"fmt"`}
			f.Chrome = append(f.Chrome, "", "// tail\nvar _ = fmt.Sprint\n")
		}
		if o.TrailingSpace {
			// blanks (or a comment) between an import spec and its line break
			f.ImportTrail = []string{"  ", "\t", " \t ", " // x"}[i%4]
		}
		p, src := f.Print()
		b := []byte(src)
		if i%7 == 3 {
			b = []byte(strings.ReplaceAll(src, "\n", "\r\n"))
			p = nil // positions in p are for LF layout
		}
		add(b, p)
	}
	return ins, prs
}

func c16(c *Ctx) {
	c.Rep.TieObs = []string{"O-emit.map (both tables of Compose, entry for entry)", "O-emit.text"}
	c.Rep.Rule = "inputs: corpus, repo .goht files, corner seeds, generator files (with/without package clause, import layouts, CRLF, non-ASCII); every entry of both real tables is checked, and both lookup functions (SourcePositionFromTarget, TargetPositionFromSource) are called on every key and on positions just outside their table; distinct = distinct accepted inputs; non-trivial = the map has at least 20 entries"
	ins, _ := c.mapInputs()
	pairs := c.compileBoth(ins)
	c.tieCompile(pairs, map[string]bool{"map": true, "text": true, "accept": true, "outcome": true})
	for i, p := range pairs {
		if p.Impl.Outcome != "ok" || p.Impl.Err != "-" {
			c.dist("impl.rejected-or-failed")
			continue
		}
		if !utf8.Valid(p.Input) {
			// a template document is text: LSP transports strings and Go source must be valid UTF-8;
			// inputs that are not are exercised for totality (C06) but not judged here
			c.dist("input.invalid-utf8(not judged)")
			continue
		}
		c.Rep.OracleCases++
		c.dist("impl.accepted")
		c.dist("model.hypothesis(disjoint runs)." + p.Model.Chk) // ST = the theorems of Proofs/C16 apply to this compilation
		src := splitLines(string(p.Input))
		tgt := splitLines(string(p.Impl.Text))
		s2t := parseEntries(p.Impl.S2T)
		t2s := parseEntries(p.Impl.T2S)
		if len(s2t) >= 20 {
			c.distinct(string(p.Input))
		}
		ascii := isASCII(string(p.Input))
		if ascii {
			c.dist("input.ascii")
		} else {
			c.dist("input.nonascii")
		}
		if i%37 == 0 {
			c.sample(map[string]any{"input": clip(fmt.Sprintf("%q", p.Input), 160), "s2t_entries": len(s2t), "t2s_entries": len(t2s)})
		}
		fwd := map[[2]int][2]int{}
		bwd := map[[2]int][2]int{}
		for _, e := range s2t {
			fwd[[2]int{e.a, e.b}] = [2]int{e.c, e.d}
		}
		for _, e := range t2s {
			bwd[[2]int{e.a, e.b}] = [2]int{e.c, e.d}
		}
		report := func(kind, what string) {
			trigger := "ascii"
			if !ascii {
				trigger = "nonascii"
			}
			c.fail("C16/"+kind+"/"+trigger, what+" in "+clip(fmt.Sprintf("%q", p.Input), 100), map[string]string{"input_hex": hx(p.Input), "detail": what})
		}
		// the lookup functions of the map (what the language server calls) agree with the tables they read
		if strings.HasPrefix(p.Impl.Lookups, "bad:") {
			report("lookup-api", "a lookup function disagrees with its own table: "+string(unhx(strings.TrimPrefix(p.Impl.Lookups, "bad:"))))
		}
		inBounds := func(lines []string, l, col int) bool {
			return l >= 0 && l < len(lines) && col >= 0 && col <= utf16Len(lines[l])
		}
		for _, e := range s2t {
			if !inBounds(src, e.a, e.b) {
				report("bounds-source", fmt.Sprintf("source key (%d,%d) is outside the template", e.a, e.b))
				break
			}
			if !inBounds(tgt, e.c, e.d) {
				report("bounds-target", fmt.Sprintf("target value (%d,%d) is outside the generated code", e.c, e.d))
				break
			}
		}
		for _, e := range t2s {
			if !inBounds(tgt, e.a, e.b) {
				report("bounds-target", fmt.Sprintf("target key (%d,%d) is outside the generated code", e.a, e.b))
				break
			}
			if !inBounds(src, e.c, e.d) {
				report("bounds-source", fmt.Sprintf("source value (%d,%d) is outside the template", e.c, e.d))
				break
			}
		}
		for k, v := range fwd {
			if back, ok := bwd[v]; !ok || back != k {
				report("roundtrip-s2t2s", fmt.Sprintf("source %v -> target %v -> source %v", k, v, back))
				break
			}
		}
		for k, v := range bwd {
			if back, ok := fwd[v]; !ok || back != k {
				report("roundtrip-t2s2t", fmt.Sprintf("target %v -> source %v -> target %v", k, v, back))
				break
			}
		}
		// "strictly increasing within one fragment" needs the fragment boundaries: it is checked with the
		// generator's fragment record (each fragment must map to one contiguous run), see c07 `notcontiguous`.
	}
}

// c07: every position of every fragment the generator placed maps to a target position holding the same character.
func c07(c *Ctx) {
	c.Rep.TieObs = []string{"O-emit.text", "O-emit.map", "O-lex: the token stream (type, text, line, column) of the real lexer vs lexResult"}
	c.Rep.Rule = "generator files with the generator's own record of every embedded Go fragment (kind, text, line, UTF-16 column); each position of each fragment is looked up in the real map and the characters compared in UTF-16 units; distinct = distinct (file, fragment); non-trivial = fragment longer than 1 character"
	ins, prs := c.mapInputs()
	pairs := c.compileBoth(ins)
	c.tieCompile(pairs, map[string]bool{"map": true, "text": true, "accept": true, "outcome": true})
	c.tieLex(ins)
	for i, p := range pairs {
		if prs[i] == nil || p.Impl.Outcome != "ok" {
			continue
		}
		if p.Impl.Err != "-" {
			c.dist("generator.rejected")
			c.Rep.Notes = append(c.Rep.Notes, "generator file rejected: "+p.Impl.Err+" "+clip(fmt.Sprintf("%q", p.Input), 300))
			continue
		}
		tgt := splitLines(string(p.Impl.Text))
		tgt16 := make([][]uint16, len(tgt))
		for j, l := range tgt {
			tgt16[j] = utf16.Encode([]rune(l))
		}
		fwd := map[[2]int][2]int{}
		for _, e := range parseEntries(p.Impl.S2T) {
			fwd[[2]int{e.a, e.b}] = [2]int{e.c, e.d}
		}
		srcLines := splitLines(string(p.Input))
		for _, fr := range prs[i].Frags {
			c.Rep.OracleCases++
			c.dist("frag." + fr.Kind)
			if fr.Kind == "attr-shadowed" {
				continue // an overridden attribute value is not emitted: nothing to map (C16's table checks still see the file)
			}
			if utf8.RuneCountInString(fr.Text) > 1 {
				c.distinct(fmt.Sprintf("%d/%d/%d", i, fr.Line, fr.Col16))
			}
			multi := strings.Contains(fr.Text, "\n")
			lineASCII := isASCII(srcLines[fr.Line])
			// a line with non-ASCII text is one trigger class (columns are counted in runes on one side and
			// bytes on the other); on pure-ASCII lines the fragment kind is part of the signature
			trigger := fr.Kind + "/ascii-line"
			if multi {
				trigger = fr.Kind + "/multiline"
				c.dist("frag.multiline")
			}
			if !lineASCII {
				trigger = "nonascii-line"
			}
			sl, sc := fr.Line, fr.Col16
			var start [2]int
			k := 0 // offset within the current line's part of the fragment
			for _, r := range fr.Text {
				if r == '\n' {
					sl, sc, k = sl+1, 0, 0
					continue
				}
				u := utf16.Encode([]rune{r})
				line16 := utf16.Encode([]rune(srcLines[sl]))
				bad := false
				for _, cu := range u {
					if sc >= len(line16) || line16[sc] != cu {
						c.Rep.Notes = append(c.Rep.Notes, "generator bookkeeping error (ignored fragment)")
						bad = true
						break
					}
					v, ok := fwd[[2]int{sl, sc}]
					if !ok {
						c.fail("C07/unmapped/"+trigger, fmt.Sprintf("a position of %s fragment %q (line %d col %d) has no map entry", fr.Kind, fr.Text, sl, sc),
							map[string]any{"input_hex": hx(p.Input), "fragment": fr})
						bad = true
						break
					}
					if k == 0 {
						start = v
					}
					if v[0] < 0 || v[0] >= len(tgt16) || v[1] < 0 || v[1] >= len(tgt16[v[0]]) || tgt16[v[0]][v[1]] != cu {
						got := "out of range"
						if v[0] >= 0 && v[0] < len(tgt16) && v[1] >= 0 && v[1] < len(tgt16[v[0]]) {
							got = fmt.Sprintf("%q", string(utf16.Decode(tgt16[v[0]][v[1]:v[1]+1])))
						}
						c.fail("C07/wrongchar/"+trigger, fmt.Sprintf("char at (%d,%d) of %s fragment %q maps to (%d,%d) holding %s", sl, sc, fr.Kind, fr.Text, v[0], v[1], got),
							map[string]any{"input_hex": hx(p.Input), "fragment": fr})
						bad = true
						break
					}
					if v[0] != start[0] || v[1] != start[1]+k {
						c.fail("C07/notcontiguous/"+trigger, fmt.Sprintf("%s fragment %q is not mapped to one run per line", fr.Kind, fr.Text),
							map[string]any{"input_hex": hx(p.Input), "fragment": fr})
						bad = true
						break
					}
					sc++
					k++
				}
				if bad {
					break
				}
			}
		}
		if i%41 == 0 && len(prs[i].Frags) > 0 {
			c.sample(map[string]any{"input": clip(fmt.Sprintf("%q", p.Input), 200), "fragments": len(prs[i].Frags), "first": prs[i].Frags[0]})
		}
	}
}
