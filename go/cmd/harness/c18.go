package main

import (
	"bytes"
	"fmt"
	"go/format"
	"os"
	"os/exec"
	"path/filepath"
	"sort"
	"strings"
	"time"

	"github.com/stackus/goht/compiler"
)

func init() { props["C18"] = c18 }

type fsEntry struct {
	content string
	mtime   time.Time
}

func snapshot(root string) map[string]fsEntry {
	out := map[string]fsEntry{}
	filepath.WalkDir(root, func(p string, d os.DirEntry, err error) error {
		if err != nil || d.IsDir() {
			return nil
		}
		b, _ := os.ReadFile(p)
		fi, _ := d.Info()
		rel, _ := filepath.Rel(root, p)
		out[rel] = fsEntry{string(b), fi.ModTime()}
		return nil
	})
	return out
}

func expectedOutput(src string) (string, bool) {
	t, err := compiler.ParseString(src)
	if err != nil {
		return "", false
	}
	var buf bytes.Buffer
	if err := t.Generate(&buf); err != nil {
		return "", false
	}
	code, err := format.Source(buf.Bytes())
	if err != nil {
		return "", false
	}
	return string(code), true
}

var c18Templates = []string{
	"package t\n\n@goht A() {\n\t%p a\n}\n",
	"package t\n\n@goht B(s string) {\n\t%p= s\n\t%hr\n}\n",
	"package t\n\n@goht C() {\n\t.c{a: \"b\"} x\n}\n",
	"package t\n\n@goht Bad() {\n%p not indented\n}\n", // does not compile
	"package t\n\n@goht Bad2() {\n\t%p x\n",            // unterminated
	"package t\n\n@goht M() {\n\t%p\n\t\t%span> outer\n\t\t%span< inner\n\t\t%i<> both\n\t%br>\n}\n", // white-space markers (their sentinels are part of the generated code)
	// accepted by the template parser, but the generated Go is not Go (the gofmt step of the command fails)
	"package t\n\nvar broken = = 1\n\n@goht Bad3() {\n\t%p x\n}\n",
	"package t\n\n@goht Bad4(s string) {\n\t%p= s +\n}\n",
}

type treeSpec struct {
	files map[string]string // relative path -> content
	old   map[string]bool   // outputs that are OLDER than their template (stale)
	near  map[string]bool   // the output's time differs from the template's by less than a second (same wall-clock second)
	epoch map[string]bool   // templates whose modification time is the Unix epoch (reproducible archives, touch -d @0)
}

func skippedDir(rel string, extra []string) bool {
	for _, part := range strings.Split(filepath.Dir(rel), string(filepath.Separator)) {
		if part == "." || part == "" {
			continue
		}
		if strings.HasPrefix(part, ".") || strings.HasPrefix(part, "_") || part == "vendor" || part == "node_modules" {
			return true
		}
		for _, e := range extra {
			if part == e {
				return true
			}
		}
	}
	return false
}

func (c *Ctx) genTree() treeSpec {
	t := treeSpec{files: map[string]string{}, old: map[string]bool{}, near: map[string]bool{}, epoch: map[string]bool{}}
	// (directories whose names merely END in a skipped name, or start with one, are ordinary directories)
	dirs := []string{"", "a", "a/b", "vendor", "vendor/x", "node_modules/m", ".hidden", "_private", "skipme", "a/skipme", "a/.git", "deep/er/est",
		"govendor", "a/old_node_modules", "xskipme", "skipme2/in", "vendors",
		// (the template suffix inside a directory name)
		"views.goht", "my.gohtml/x"}
	n := 3 + c.R.Intn(8)
	for i := 0; i < n; i++ {
		d := dirs[c.R.Intn(len(dirs))]
		// file names that start like the directory names the walk skips (partials, drafts) are ordinary files
		name := fmt.Sprintf("%st%d.goht", []string{"", "", "", "_", "."}[c.R.Intn(5)], i)
		if c.R.Intn(8) == 0 {
			name = fmt.Sprintf("t%d.goht.goht", i) // the suffix twice
		}
		p := filepath.Join(d, name)
		src := c18Templates[c.R.Intn(len(c18Templates))]
		t.files[p] = src
		if c.R.Intn(5) == 0 {
			// a second template in the same directory whose name differs in case only (another file on this file system)
			up := filepath.Join(d, strings.ToUpper(name[:1])+name[1:])
			if strings.HasPrefix(name, "t") {
				t.files[up] = c18Templates[c.R.Intn(len(c18Templates))]
				switch c.R.Intn(3) {
				case 0:
					t.files[up+".go"] = "// up to date marker " + name + "\npackage t\n"
				case 1:
					t.files[up+".go"] = "// stale marker " + name + "\npackage t\n"
					t.old[up+".go"] = true
				}
			}
		}
		if c.R.Intn(4) == 0 {
			// an unrelated file whose name sorts between the template and its output (editor backup, dependency file, copy)
			t.files[p+[]string{".bak", ".d", "-old", " (copy)", ".fo"}[c.R.Intn(5)]] = "unrelated neighbour\n"
		}
		if c.R.Intn(7) == 0 {
			t.epoch[p] = true
		}
		switch c.R.Intn(5) {
		case 0: // up-to-date output (content is whatever: must not be rewritten)
			t.files[p+".go"] = "// up to date marker " + name + "\npackage t\n"
			t.near[p+".go"] = c.R.Intn(2) == 0
		case 1: // stale output
			t.files[p+".go"] = "// stale marker " + name + "\npackage t\n"
			t.old[p+".go"] = true
			t.near[p+".go"] = c.R.Intn(2) == 0
		}
	}
	// orphans and unrelated files
	for i := 0; i < 1+c.R.Intn(3); i++ {
		d := dirs[c.R.Intn(len(dirs))]
		t.files[filepath.Join(d, fmt.Sprintf("%sorphan%d.goht.go", []string{"", "", "_", "."}[c.R.Intn(4)], i))] = "package orphan\n"
	}
	for i := 0; i < 1+c.R.Intn(3); i++ {
		d := dirs[c.R.Intn(len(dirs))]
		t.files[filepath.Join(d, []string{"main.go", "README.md", "x.goht.txt", "y.gohtx"}[c.R.Intn(4)])] = "unrelated\n"
	}
	return t
}

func (t treeSpec) write(root string, base time.Time) {
	paths := make([]string, 0, len(t.files))
	for p := range t.files {
		paths = append(paths, p)
	}
	sort.Strings(paths)
	for _, p := range paths {
		full := filepath.Join(root, p)
		os.MkdirAll(filepath.Dir(full), 0755)
		os.WriteFile(full, []byte(t.files[p]), 0644)
		mt := base.Add(600 * time.Millisecond) // templates: in the middle of a wall-clock second
		if t.epoch[p] {
			mt = time.Unix(0, 0)
		}
		if strings.HasSuffix(p, ".goht.go") {
			switch {
			case t.old[p] && t.near[p]:
				mt = base.Add(100 * time.Millisecond) // older, within the same second
			case t.old[p]:
				mt = base.Add(-10 * time.Second)
			case t.near[p]:
				mt = base.Add(601 * time.Millisecond) // newer by a millisecond: up to date
			default:
				mt = base.Add(10 * time.Second)
			}
		}
		os.Chtimes(full, mt, mt)
	}
}

func c18(c *Ctx) {
	c.Rep.TieObs = []string{"O-gen: the directory tree after each run of the real `goht generate` binary (names, contents, modification times)"}
	c.Rep.Rule = "random directory trees (nested dirs, vendor / node_modules / dot / underscore / --skip-dirs directories at several depths, orphaned outputs, templates that do not compile (rejected by the template parser; accepted but with generated code that gofmt rejects), unrelated files (also with names that sort between a template and its output), up-to-date and stale outputs, also by less than a second within one wall-clock second) x flag sets (--force, --keep, --skip-dirs, --max-workers 1 / 2 / 3 / 8, --path spelled eight ways: ., ./, absolute, with a trailing separator, with /., with a doubled separator, through .., relative from the parent) x histories of two or three runs with edits, touches and deletions in between; plus one tree with hundreds of templates; oracle: the tree after each run against the specification computed with the real compiler + gofmt; distinct = distinct (tree, flags, history); non-trivial = the run had at least one stale template"
	goht := filepath.Join(c.Build, "goht")
	if !fileExists(goht) {
		c.mismatch("setup", "", "goht binary missing", "", true)
		return
	}
	base := time.Now().Add(-time.Hour).Truncate(time.Second)
	var tieReqs []genTie
	defer func() { c.tieGenerate(tieReqs) }()
	nTrees := c.N(40, 900)
	for ti := 0; ti < nTrees; ti++ {
		tree := c.genTree()
		if ti == 0 {
			// the worker pool: hundreds of templates
			tree = treeSpec{files: map[string]string{}, old: map[string]bool{}, near: map[string]bool{}}
			for i := 0; i < c.N(150, 400); i++ {
				tree.files[fmt.Sprintf("d%d/t%d.goht", i%7, i)] = c18Templates[i%len(c18Templates)]
			}
		}
		root, err := os.MkdirTemp("", "verif-c18-")
		if err != nil {
			continue
		}
		tree.write(root, base)
		force, keep := c.R.Intn(3) == 0, c.R.Intn(3) == 0
		var skip []string
		if c.R.Intn(2) == 0 {
			skip = []string{"skipme"}
		}
		workers := []int{1, 2, 3, 8}[c.R.Intn(4)]
		spell := c.R.Intn(8)
		rel := spell == 0 || spell == 6 || spell == 7
		runs := 2 + c.R.Intn(2)
		cur := snapshot(root)
		for run := 0; run < runs; run++ {
			args := []string{"generate", "--max-workers", fmt.Sprint(workers)}
			if force && run == 0 {
				args = append(args, "--force")
			}
			if keep {
				args = append(args, "--keep")
			}
			if skip != nil {
				args = append(args, "--skip-dirs", strings.Join(append([]string{"vendor", "node_modules"}, skip...), ","))
			}
			cmd := exec.Command(goht, args...)
			// the same directory, spelled the ways a shell and its completion spell it
			parent, baseName := filepath.Dir(root), filepath.Base(root)
			switch spell {
			case 0:
				cmd.Dir = root
				cmd.Args = append(cmd.Args, "--path", ".")
			case 1:
				cmd.Args = append(cmd.Args, "--path", root)
			case 2:
				cmd.Args = append(cmd.Args, "--path", root+"/")
			case 3:
				cmd.Args = append(cmd.Args, "--path", root+"/.")
			case 4:
				cmd.Args = append(cmd.Args, "--path", parent+"//"+baseName)
			case 5:
				cmd.Args = append(cmd.Args, "--path", root+"/../"+baseName)
			case 6:
				cmd.Dir = parent
				cmd.Args = append(cmd.Args, "--path", "./"+baseName+"/")
			case 7:
				cmd.Dir = root
				cmd.Args = append(cmd.Args, "--path", "./")
			}
			done := make(chan error, 1)
			var out bytes.Buffer
			cmd.Stdout, cmd.Stderr = &out, &out
			cmd.Start()
			go func() { done <- cmd.Wait() }()
			select {
			case <-done:
			case <-time.After(60 * time.Second):
				cmd.Process.Kill()
				c.fail("C18/no-return", "goht generate does not return", map[string]any{"tree": tree.files, "args": args})
			}
			after := snapshot(root)
			c.Rep.OracleCases++
			tieReqs = append(tieReqs, genRequest(cur, after, force && run == 0, keep, skip)...)
			flags := fmt.Sprintf("force=%v keep=%v skip=%v workers=%d path-spelling=%d rel=%v run=%d", force && run == 0, keep, skip, workers, spell, rel, run)
			bad := func(kind, what string) {
				c.fail("C18/"+kind, what+" ["+flags+"]", map[string]any{"before": pathsOf(cur), "after": pathsOf(after), "flags": flags, "output": clip(out.String(), 600)})
			}
			stale := 0
			// expectations per path
			for p, b := range cur {
				a, exists := after[p]
				skippedP := skippedDir(p, skip)
				switch {
				case skippedP:
					if !exists || a != b {
						bad("touched-skipped-dir", "a file inside a skipped directory was changed or removed: "+p)
					}
				case strings.HasSuffix(p, ".goht"):
					if !exists || a != b {
						bad("source-modified", "a template source was modified: "+p)
					}
				case strings.HasSuffix(p, ".goht.go"):
					src, hasSrc := cur[strings.TrimSuffix(p, ".go")]
					switch {
					case !hasSrc: // orphan
						if keep && (!exists || a != b) {
							bad("orphan-removed-with-keep", "--keep given but the orphaned output was removed or changed: "+p)
						}
						if !keep && exists {
							bad("orphan-kept", "orphaned output not removed: "+p)
						}
					default:
						want, compiles := expectedOutput(src.content)
						isStale := (force && run == 0) || src.mtime.After(b.mtime)
						switch {
						case !compiles:
							if !exists || a != b {
								bad("failing-template-output-touched", "the template does not compile but its previous output was changed: "+p)
							}
						case isStale:
							stale++
							if !exists || a.content != want {
								bad("stale-output-not-regenerated", "stale output was not replaced by the gofmt-ed compilation: "+p)
							}
						default:
							if !exists || a != b {
								bad("up-to-date-output-rewritten", "an up-to-date output was rewritten: "+p)
							}
						}
					}
				default:
					if !exists || a != b {
						bad("unrelated-file-touched", "a file that is neither a template nor an output was changed: "+p)
					}
				}
			}
			for p, a := range after {
				if _, existed := cur[p]; existed {
					continue
				}
				if skippedDir(p, skip) {
					bad("created-in-skipped-dir", "a file was created inside a skipped directory: "+p)
					continue
				}
				if !strings.HasSuffix(p, ".goht.go") {
					bad("unrelated-file-created", "a file other than *.goht.go was created: "+p)
					continue
				}
				src, hasSrc := cur[strings.TrimSuffix(p, ".go")]
				if !hasSrc {
					bad("output-without-template", "an output was created without a template: "+p)
					continue
				}
				stale++
				want, compiles := expectedOutput(src.content)
				if !compiles {
					bad("output-for-failing-template", "an output was written for a template that does not compile: "+p)
				} else if a.content != want {
					bad("wrong-output", "the new output is not the gofmt-ed compilation of its template: "+p)
				}
			}
			for p := range cur {
				if !strings.HasSuffix(p, ".goht") || skippedDir(p, skip) {
					continue
				}
				if _, compiles := expectedOutput(cur[p].content); compiles {
					if _, ok := after[p+".go"]; !ok {
						bad("missing-output", "a template that compiles has no output after the run: "+p)
					}
				}
			}
			if stale > 0 {
				c.distinct(fmt.Sprintf("%d/%s", ti, flags))
			}
			if ti%97 == 0 && run == 0 {
				c.sample(map[string]any{"paths": pathsOf(cur), "flags": flags})
			}
			// edits between runs
			cur = after
			if run+1 < runs {
				now := time.Now().Add(time.Duration(run+1) * time.Minute)
				for p := range cur {
					if !strings.HasSuffix(p, ".goht") {
						continue
					}
					full := filepath.Join(root, p)
					switch c.R.Intn(6) {
					case 0: // edit
						os.WriteFile(full, []byte(c18Templates[c.R.Intn(len(c18Templates))]), 0644)
						os.Chtimes(full, now, now)
					case 1: // touch
						os.Chtimes(full, now, now)
					case 2: // delete the template: its output becomes an orphan
						os.Remove(full)
					}
				}
				cur = snapshot(root)
			}
		}
		os.RemoveAll(root)
	}
}

type genTie struct {
	req, want, summary string
}

// genRequest encodes the tree before a run for the model (contents interned to short ids) together with the
// canonical form of the tree the real binary left behind, once per schedule of the model.
func genRequest(before, after map[string]fsEntry, force, keep bool, skip []string) []genTie {
	ids := map[string]string{}
	id := func(content string) string {
		if v, ok := ids[content]; ok {
			return v
		}
		v := fmt.Sprintf("c%d", len(ids))
		ids[content] = v
		return v
	}
	hxs := func(s string) string { return "_" + hx([]byte(s)) }
	paths := pathsOf(before)
	var files, fcs []string
	seenFc := map[string]bool{}
	enc := func(p string) (string, string) {
		dir, name := filepath.Split(p)
		var comps []string
		for _, d := range strings.Split(strings.Trim(dir, "/"), "/") {
			if d != "" {
				comps = append(comps, hxs(d))
			}
		}
		ds := strings.Join(comps, ".")
		if ds == "" {
			ds = "-"
		}
		return ds, hxs(name)
	}
	for _, p := range paths {
		e := before[p]
		d, n := enc(p)
		files = append(files, fmt.Sprintf("%s:%s:%s:%d", d, n, hxs(id(e.content)), e.mtime.UnixNano()+1)) // (+1: the model's times are positive, 0 is its "no time"; the Unix epoch itself is a real time)
		if strings.HasSuffix(p, ".goht") && !seenFc[e.content] {
			seenFc[e.content] = true
			if out, ok := expectedOutput(e.content); ok {
				fcs = append(fcs, hxs(id(e.content))+"="+hxs(id(out)))
			} else {
				fcs = append(fcs, hxs(id(e.content))+"=-")
			}
		}
	}
	show := func(p string) string {
		a, ok := after[p]
		if !ok {
			return "-"
		}
		mt := fmt.Sprint(a.mtime.UnixNano() + 1)
		if b, was := before[p]; !was || b.mtime != a.mtime {
			mt = "W"
		}
		return hxs(id(a.content)) + "@" + mt
	}
	var want []string
	for _, p := range paths {
		want = append(want, show(p))
	}
	for _, p := range paths {
		want = append(want, show(p+".go"))
	}
	sk := "-"
	if skip != nil {
		var xs []string
		for _, s := range append([]string{"vendor", "node_modules"}, skip...) {
			xs = append(xs, hxs(s))
		}
		sk = strings.Join(xs, ",")
	} else {
		sk = hxs("vendor") + "," + hxs("node_modules")
	}
	fl := ""
	for _, b := range []bool{force, keep} {
		if b {
			fl += "1"
		} else {
			fl += "0"
		}
	}
	fc := strings.Join(fcs, ",")
	if fc == "" {
		fc = "-"
	}
	var out []genTie
	for _, sched := range []string{"w", "r"} {
		out = append(out, genTie{
			req:     fmt.Sprintf("G %s %s %s %s %s", fl, sk, strings.Join(files, ","), fc, sched),
			want:    strings.Join(want, " "),
			summary: fmt.Sprintf("flags=%s skip=%v sched=%s tree=%v", fl, skip, sched, paths),
		})
	}
	return out
}

func (c *Ctx) tieGenerate(ts []genTie) {
	reqs := make([]string, len(ts))
	for i, t := range ts {
		reqs[i] = t.req
	}
	replies := c.Drv.Map(reqs, 60*time.Second)
	for i, r := range replies {
		c.Rep.TieCases++
		got := ""
		if r.Err == nil {
			got = strings.ReplaceAll(r.Line, "@4000000000", "@W")
		}
		if got != ts[i].want {
			gw, ww := strings.Fields(got), strings.Fields(ts[i].want)
			k := 0
			for k < len(gw) && k < len(ww) && gw[k] == ww[k] {
				k++
			}
			gi, wi := "<end>", "<end>"
			if k < len(gw) {
				gi = gw[k]
			}
			if k < len(ww) {
				wi = ww[k]
			}
			c.mismatch("generate-tree", ts[i].summary, fmt.Sprintf("slot %d: %s", k, wi), fmt.Sprintf("slot %d: %s", k, gi), true)
		}
	}
}

func pathsOf(m map[string]fsEntry) []string {
	var out []string
	for p := range m {
		out = append(out, p)
	}
	sort.Strings(out)
	return out
}
