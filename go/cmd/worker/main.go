// worker: runs the real goht code on one request per line (hex fields) and prints one canonical
// reply line. Run as a child process so that hangs can be killed and panics are contained.
package main

import (
	"strconv"
	"bufio"
	"bytes"
	"encoding/hex"
	"errors"
	"fmt"
	"os"
	"regexp"
	"sort"
	"strings"
	"sync"
	"time"

	"github.com/stackus/goht"
	"github.com/stackus/goht/compiler"
)

var digits = regexp.MustCompile(`[0-9]+`)

// CanonMsg reduces an error message to its class: text before the first ':' with digits normalised.
func canonMsg(s string) string {
	if strings.HasPrefix(s, "[") {
		if i := strings.Index(s, "]: "); i >= 0 {
			s = s[i+3:]
		}
	}
	if i := strings.Index(s, ":"); i >= 0 {
		s = s[:i]
	}
	if i := strings.Index(s, " Indent["); i >= 0 {
		s = s[:i]
	}
	return digits.ReplaceAllString(strings.TrimSpace(s), "N")
}

type ent struct{ sl, sc, tl, tc int }

func dump(m map[int]map[int]compiler.Position) string {
	var es []ent
	for l, cols := range m {
		for c, p := range cols {
			es = append(es, ent{l, c, p.Line, p.Col})
		}
	}
	sort.Slice(es, func(i, j int) bool {
		if es[i].sl != es[j].sl {
			return es[i].sl < es[j].sl
		}
		return es[i].sc < es[j].sc
	})
	var sb strings.Builder
	for _, e := range es {
		fmt.Fprintf(&sb, "%d,%d,%d,%d;", e.sl, e.sc, e.tl, e.tc)
	}
	return sb.String()
}

func doLex(in []byte) (out string) {
	defer func() {
		if r := recover(); r != nil {
			out = "panic"
		}
	}()
	toks := compiler.VerifLex(in, 1<<22)
	var sb strings.Builder
	sb.WriteString("ok ")
	for _, t := range toks {
		lit := t.Lit
		if t.Typ == "Error" {
			lit = canonMsg(lit)
		}
		fmt.Fprintf(&sb, "%s:%s:%d:%d ", t.Typ, hex.EncodeToString([]byte(lit)), t.Line, t.Col)
	}
	return sb.String()
}

// doCompile: "<err> <textHex>X <s2t>X <t2s>X <genSame>"
func doCompile(in []byte) (out string) {
	defer func() {
		if r := recover(); r != nil {
			out = "panic"
		}
	}()
	t, err := compiler.ParseString(string(in))
	errS := "-"
	if err != nil {
		var pe compiler.PositionalError
		if errors.As(err, &pe) {
			errS = fmt.Sprintf("%d:%d:%s", pe.Line, pe.Column, hex.EncodeToString([]byte(canonMsg(pe.Err.Error()))))
		} else {
			errS = "0:0:" + hex.EncodeToString([]byte(canonMsg(err.Error())))
		}
	}
	var buf bytes.Buffer
	sm, cerr := t.Compose(&buf)
	if cerr != nil {
		return errS + " COMPOSEERR:" + hex.EncodeToString([]byte(canonMsg(cerr.Error())))
	}
	// the CLI path through its own entry point: the bytes go to a file, compiler.ParseFile reads it back
	// (what `goht generate` does), then Generate
	genSame := "na"
	if f, ferr := os.CreateTemp("", "verif-*.goht"); ferr == nil {
		f.Write(in)
		f.Close()
		t2, err2 := compiler.ParseFile(f.Name())
		os.Remove(f.Name())
		switch {
		case (err == nil) != (err2 == nil):
			genSame = "diff:" + hex.EncodeToString([]byte(fmt.Sprintf("ParseString error %v, ParseFile error %v", err, err2)))
		case err2 == nil:
			var gbuf bytes.Buffer
			if gerr := t2.Generate(&gbuf); gerr == nil {
				if bytes.Equal(gbuf.Bytes(), buf.Bytes()) {
					genSame = "same"
				} else {
					genSame = "diff:" + hex.EncodeToString(gbuf.Bytes())
				}
			} else {
				genSame = "generr"
			}
		}
	}
	// the same bytes again, twice, in this process and straight away (an editor resends text that did not change):
	// same text, same tables
	repeat := "same"
	for k := 2; k <= 5 && repeat == "same"; k++ {
		if k >= 3 {
			// … and after OTHER documents went through this process: two the compiler rejects (with text still
			// pending in the lexer: an unknown filter, a line two levels too deep, an unclosed interpolation) and one
			// it accepts
			for _, other := range []string{"@goht X() {\n\t:nosuchfilter\n\t\tx\n}\n", "package q\n\n@goht X() {\n\t%p\n\t\t\t\t%b too deep\n}\n", "@goht X(s string) {\n\t%p #{s\n}\n",
				"package q\n\nimport \"io\" // Discard\n\nvar _ = io.Discard\n\n@goht X() {\n\t%p ok\n}\n"} {
				if to, eo := compiler.ParseString(other); eo == nil && to != nil {
					var bo bytes.Buffer
					to.Compose(&bo)
				}
			}
		}
		tk, errk := compiler.ParseString(string(in))
		if (errk == nil) != (err == nil) {
			repeat = "diff:" + hex.EncodeToString([]byte(fmt.Sprintf("compilation #%d of the same bytes: error %v, the first gave %v", k, errk, err)))
			break
		}
		var bk bytes.Buffer
		smk, cerrk := tk.Compose(&bk)
		switch {
		case cerrk != nil:
			repeat = "diff:" + hex.EncodeToString([]byte(fmt.Sprintf("compilation #%d of the same bytes fails in Compose: %v", k, cerrk)))
		case !bytes.Equal(bk.Bytes(), buf.Bytes()):
			repeat = "diff:" + hex.EncodeToString([]byte(fmt.Sprintf("compilation #%d of the same bytes gives different code: %s", k, firstDiff(bk.String(), buf.String()))))
		case dump(smk.SourceLinesToTarget) != dump(sm.SourceLinesToTarget) || dump(smk.TargetLinesToSource) != dump(sm.TargetLinesToSource):
			repeat = "diff:" + hex.EncodeToString([]byte(fmt.Sprintf("compilation #%d of the same bytes gives a different position map", k)))
		}
	}
	return fmt.Sprintf("%s %sX %sX %sX %s %s %s", errS, hex.EncodeToString(buf.Bytes()), dump(sm.SourceLinesToTarget), dump(sm.TargetLinesToSource), genSame, lookups(sm), repeat)
}

func firstDiff(a, b string) string {
	i := 0
	for i < len(a) && i < len(b) && a[i] == b[i] {
		i++
	}
	lo := i - 60
	if lo < 0 {
		lo = 0
	}
	hi := func(s string) int {
		if i+60 < len(s) {
			return i + 60
		}
		return len(s)
	}
	return fmt.Sprintf("%q vs %q", a[lo:hi(a)], b[lo:hi(b)])
}

// lookups: the two lookup functions the language server uses must answer every key of their table with the
// table's entry, and positions outside the table with "not found"
func lookups(sm *compiler.SourceMap) string {
	check := func(name string, m map[int]map[int]compiler.Position, f func(int, int) (compiler.Position, bool)) string {
		maxLine := -1
		for l, cols := range m {
			if l > maxLine {
				maxLine = l
			}
			maxCol := -1
			for c, want := range cols {
				if c > maxCol {
					maxCol = c
				}
				if got, ok := f(l, c); !ok || got != want {
					return fmt.Sprintf("%s(%d,%d) = %v,%v; the table holds %v", name, l, c, got, ok, want)
				}
			}
			if got, ok := f(l, maxCol+1); ok {
				return fmt.Sprintf("%s(%d,%d) = %v,true; the table has no such key", name, l, maxCol+1, got)
			}
		}
		if got, ok := f(maxLine+1, 0); ok {
			return fmt.Sprintf("%s(%d,0) = %v,true; the table has no such line", name, maxLine+1, got)
		}
		return ""
	}
	if d := check("TargetPositionFromSource", sm.SourceLinesToTarget, sm.TargetPositionFromSource); d != "" {
		return "bad:" + hex.EncodeToString([]byte(d))
	}
	if d := check("SourcePositionFromTarget", sm.TargetLinesToSource, sm.SourcePositionFromTarget); d != "" {
		return "bad:" + hex.EncodeToString([]byte(d))
	}
	return "ok"
}

// doDiagnose labels a hang or panic of the lexer with the state function it happened in.
func doDiagnose(in []byte) string {
	var mu sync.Mutex
	state := "-"
	done := make(chan string, 1)
	go func() {
		defer func() {
			if r := recover(); r != nil {
				mu.Lock()
				s := state
				mu.Unlock()
				done <- "panic " + s
			}
		}()
		compiler.VerifLexTrace(in, 1<<22, func(n string) { mu.Lock(); state = n; mu.Unlock() })
		done <- "ok -"
	}()
	select {
	case s := <-done:
		return s
	case <-time.After(400 * time.Millisecond):
		mu.Lock()
		s := state
		mu.Unlock()
		// the lexer goroutine is still spinning or blocked: this process must not be reused
		fmt.Println("hang " + s)
		os.Exit(0)
		return ""
	}
}

// doConcurrent compiles every input from 16 goroutines at once (3 rounds, permuted order) and
// compares each result with the sequential one: "same" or "diff <index>".
func doConcurrent(hexes []string) string {
	var ins [][]byte
	for _, h := range hexes {
		b, _ := hex.DecodeString(h)
		ins = append(ins, b)
	}
	seq := make([]string, len(ins))
	for i, in := range ins {
		seq[i] = doCompile(in)
	}
	for round := 0; round < 3; round++ {
		res := make([]string, len(ins))
		var wg sync.WaitGroup
		next := make(chan int, len(ins))
		for k := range ins {
			next <- (k*7 + round*3) % len(ins)
		}
		close(next)
		for g := 0; g < 16; g++ {
			wg.Add(1)
			go func() {
				defer wg.Done()
				for i := range next {
					res[i] = doCompile(ins[i])
				}
			}()
		}
		wg.Wait()
		for i := range ins {
			if res[i] != "" && res[i] != seq[i] {
				return fmt.Sprintf("diff %d", i)
			}
		}
	}
	return "same"
}

type objBoth struct{ id, cls string }

func (o objBoth) ObjectID() string    { return o.id }
func (o objBoth) ObjectClass() string { return o.cls }

type objID struct{ id string }

func (o objID) ObjectID() string { return o.id }

type objCls struct{ cls string }

func (o objCls) ObjectClass() string { return o.cls }

func dh(s string) string { b, _ := hex.DecodeString(strings.TrimPrefix(s, "_")); return string(b) }

func parseVal(a string) any {
	kind, rest, _ := strings.Cut(a, ":")
	items := []string{}
	if rest != "" {
		items = strings.Split(rest, ",")
	}
	switch kind {
	case "S":
		return dh(rest)
	case "L":
		l := []string{}
		for _, it := range items {
			l = append(l, dh(it))
		}
		return l
	case "LN":
		return []string(nil)
	case "B":
		m := map[string]bool{}
		for _, it := range items {
			k, v, _ := strings.Cut(it, "=")
			m[dh(k)] = v == "1"
		}
		return m
	case "BN":
		return map[string]bool(nil)
	case "M":
		m := map[string]string{}
		for _, it := range items {
			k, v, _ := strings.Cut(it, "=")
			m[dh(k)] = dh(v)
		}
		return m
	case "MN":
		return map[string]string(nil)
	case "X":
		switch rest {
		case "int":
			return 7
		case "nil":
			return nil
		case "bytes":
			return []byte("x")
		case "mapany":
			return map[string]any{"a": 1}
		case "strptr":
			s := "p"
			return &s
		case "float":
			return 1.5
		}
	}
	return struct{}{}
}

// doHelper: H class|attr <val>... ; H oid|ocls <kind> <idhex> <clshex> [<prefixhex>]
func doHelper(f []string) (out string) {
	defer func() {
		if r := recover(); r != nil {
			out = "panic"
		}
	}()
	if len(f) == 0 {
		return "BAD"
	}
	switch f[0] {
	case "class", "attr":
		var args []any
		for _, a := range f[1:] {
			args = append(args, parseVal(a))
		}
		// slices are handed over with spare capacity (sentinels beyond their length), maps are copied first:
		// a helper that writes into its arguments is reported as "mutated"
		const spare = "\x00verif-spare"
		type guard struct {
			full []string
			n    int
			want []string
		}
		var guards []guard
		mapsBefore := fmt.Sprint(args...)
		for i, a := range args {
			if l, ok := a.([]string); ok && l != nil {
				full := make([]string, len(l)+3)
				copy(full, l)
				for k := len(l); k < len(full); k++ {
					full[k] = spare
				}
				args[i] = full[:len(l):len(full)]
				guards = append(guards, guard{full, len(l), append([]string{}, l...)})
			}
		}
		var s string
		var err error
		if f[0] == "class" {
			s, err = goht.BuildClassList(args...)
		} else {
			s, err = goht.BuildAttributeList(args...)
		}
		for _, g := range guards {
			for k, v := range g.full {
				if (k < g.n && v != g.want[k]) || (k >= g.n && v != spare) {
					return "mutated"
				}
			}
		}
		if fmt.Sprint(args...) != mapsBefore {
			return "mutated"
		}
		if err != nil {
			return "err"
		}
		return "ok " + hex.EncodeToString([]byte(s))
	case "oid", "ocls", "oclsl":
		var o any
		switch f[1] {
		case "both":
			o = objBoth{dh(f[2]), dh(f[3])}
		case "id":
			o = objID{dh(f[2])}
		case "cls":
			o = objCls{dh(f[3])}
		default:
			o = 5
		}
		var pfx []string
		if len(f) > 4 {
			pfx = []string{dh(f[4])}
		}
		if f[0] == "oid" {
			return "ok " + hex.EncodeToString([]byte(goht.ObjectID(o, pfx...)))
		}
		if f[0] == "oclsl" {
			// what the generated code does for `%tag[obj, prefix]`
			s, err := goht.BuildClassList(goht.ObjectClass(o, pfx...))
			if err != nil {
				return "err"
			}
			return "ok " + hex.EncodeToString([]byte(s))
		}
		return "ok " + hex.EncodeToString([]byte(goht.ObjectClass(o, pfx...)))
	}
	return "BAD"
}

func main() {
	rd := bufio.NewReaderSize(os.Stdin, 1<<24)
	w := bufio.NewWriter(os.Stdout)
	for {
		line, err := rd.ReadString('\n')
		if line == "" && err != nil {
			return
		}
		f := strings.Fields(line)
		var arg []byte
		if len(f) > 1 {
			arg, _ = hex.DecodeString(f[1])
		}
		switch {
		case len(f) == 0:
			fmt.Fprintln(w, "BAD")
		case f[0] == "L":
			fmt.Fprintln(w, doLex(arg))
		case f[0] == "C":
			fmt.Fprintln(w, doCompile(arg))
		case f[0] == "D":
			fmt.Fprintln(w, doDiagnose(arg))
		case f[0] == "H":
			fmt.Fprintln(w, doHelper(f[1:]))
		case f[0] == "Q":
			// goLiteral of the argument, and what the Go toolchain reads the resulting literal back as
			q := compiler.VerifGoLiteral(string(arg))
			back, uerr := strconv.Unquote(`"` + q + `"`)
			ok := "ok"
			if uerr != nil || back != string(arg) {
				ok = "differs"
			}
			fmt.Fprintf(w, "_%s %s\n", hex.EncodeToString([]byte(q)), ok)
		case f[0] == "K":
			fmt.Fprintln(w, doConcurrent(f[1:]))
		default:
			fmt.Fprintln(w, "BAD")
		}
		w.Flush()
	}
}
