// worker: runs the real goht code on one request per line (hex fields) and prints one canonical
// reply line. Run as a child process so that hangs can be killed and panics are contained.
package main

import (
	"bufio"
	"bytes"
	"encoding/hex"
	"errors"
	"fmt"
	"os"
	"regexp"
	"sort"
	"strings"
	"sync"
	"time"

	"github.com/stackus/goht/compiler"
)

var digits = regexp.MustCompile(`[0-9]+`)

// CanonMsg reduces an error message to its class: text before the first ':' with digits normalised.
func canonMsg(s string) string {
	if strings.HasPrefix(s, "[") {
		if i := strings.Index(s, "]: "); i >= 0 {
			s = s[i+3:]
		}
	}
	if i := strings.Index(s, ":"); i >= 0 {
		s = s[:i]
	}
	if i := strings.Index(s, " Indent["); i >= 0 {
		s = s[:i]
	}
	return digits.ReplaceAllString(strings.TrimSpace(s), "N")
}

type ent struct{ sl, sc, tl, tc int }

func dump(m map[int]map[int]compiler.Position) string {
	var es []ent
	for l, cols := range m {
		for c, p := range cols {
			es = append(es, ent{l, c, p.Line, p.Col})
		}
	}
	sort.Slice(es, func(i, j int) bool {
		if es[i].sl != es[j].sl {
			return es[i].sl < es[j].sl
		}
		return es[i].sc < es[j].sc
	})
	var sb strings.Builder
	for _, e := range es {
		fmt.Fprintf(&sb, "%d,%d,%d,%d;", e.sl, e.sc, e.tl, e.tc)
	}
	return sb.String()
}

func doLex(in []byte) (out string) {
	defer func() {
		if r := recover(); r != nil {
			out = "panic"
		}
	}()
	toks := compiler.VerifLex(in, 1<<22)
	var sb strings.Builder
	sb.WriteString("ok ")
	for _, t := range toks {
		lit := t.Lit
		if t.Typ == "Error" {
			lit = canonMsg(lit)
		}
		fmt.Fprintf(&sb, "%s:%s:%d:%d ", t.Typ, hex.EncodeToString([]byte(lit)), t.Line, t.Col)
	}
	return sb.String()
}

// doCompile: "<err> <textHex>X <s2t>X <t2s>X <genSame>"
func doCompile(in []byte) (out string) {
	defer func() {
		if r := recover(); r != nil {
			out = "panic"
		}
	}()
	t, err := compiler.ParseString(string(in))
	errS := "-"
	if err != nil {
		var pe compiler.PositionalError
		if errors.As(err, &pe) {
			errS = fmt.Sprintf("%d:%d:%s", pe.Line, pe.Column, hex.EncodeToString([]byte(canonMsg(pe.Err.Error()))))
		} else {
			errS = "0:0:" + hex.EncodeToString([]byte(canonMsg(err.Error())))
		}
	}
	var buf bytes.Buffer
	sm, cerr := t.Compose(&buf)
	if cerr != nil {
		return errS + " COMPOSEERR:" + hex.EncodeToString([]byte(canonMsg(cerr.Error())))
	}
	// the CLI path, on a fresh parse (Source mutates the tree)
	genSame := "na"
	if err == nil {
		if t2, err2 := compiler.ParseString(string(in)); err2 == nil {
			var gbuf bytes.Buffer
			if gerr := t2.Generate(&gbuf); gerr == nil {
				if bytes.Equal(gbuf.Bytes(), buf.Bytes()) {
					genSame = "same"
				} else {
					genSame = "diff:" + hex.EncodeToString(gbuf.Bytes())
				}
			} else {
				genSame = "generr"
			}
		} else {
			genSame = "reparse-err"
		}
	}
	return fmt.Sprintf("%s %sX %sX %sX %s", errS, hex.EncodeToString(buf.Bytes()), dump(sm.SourceLinesToTarget), dump(sm.TargetLinesToSource), genSame)
}

// doDiagnose labels a hang or panic of the lexer with the state function it happened in.
func doDiagnose(in []byte) string {
	var mu sync.Mutex
	state := "-"
	done := make(chan string, 1)
	go func() {
		defer func() {
			if r := recover(); r != nil {
				mu.Lock()
				s := state
				mu.Unlock()
				done <- "panic " + s
			}
		}()
		compiler.VerifLexTrace(in, 1<<22, func(n string) { mu.Lock(); state = n; mu.Unlock() })
		done <- "ok -"
	}()
	select {
	case s := <-done:
		return s
	case <-time.After(400 * time.Millisecond):
		mu.Lock()
		s := state
		mu.Unlock()
		// the lexer goroutine is still spinning or blocked: this process must not be reused
		fmt.Println("hang " + s)
		os.Exit(0)
		return ""
	}
}

func main() {
	rd := bufio.NewReaderSize(os.Stdin, 1<<24)
	w := bufio.NewWriter(os.Stdout)
	for {
		line, err := rd.ReadString('\n')
		if line == "" && err != nil {
			return
		}
		f := strings.Fields(line)
		var arg []byte
		if len(f) > 1 {
			arg, _ = hex.DecodeString(f[1])
		}
		switch {
		case len(f) == 0:
			fmt.Fprintln(w, "BAD")
		case f[0] == "L":
			fmt.Fprintln(w, doLex(arg))
		case f[0] == "C":
			fmt.Fprintln(w, doCompile(arg))
		case f[0] == "D":
			fmt.Fprintln(w, doDiagnose(arg))
		default:
			fmt.Fprintln(w, "BAD")
		}
		w.Flush()
	}
}
