// extract: the translator prong of the tie. Reads /repo's current source with go/parser and writes
// the tables and constants the Lean model consumes as explicit numeral lists
// (lean/GohtVerif/Gen/Facts.lean), plus build/facts.json with shape facts and call skeletons.
// It is deliberately small: logic is tied by the correspondence check, not translated.
package main

import (
	"crypto/sha256"
	"encoding/json"
	"fmt"
	"go/ast"
	"go/parser"
	"go/printer"
	"go/token"
	"os"
	"path/filepath"
	"sort"
	"strconv"
	"strings"
)

var fset = token.NewFileSet()
var missing []string

func natList(s string) string { // runes
	var parts []string
	for _, r := range s {
		parts = append(parts, strconv.Itoa(int(r)))
	}
	return "[" + strings.Join(parts, ", ") + "]"
}

func byteList(s string) string {
	var parts []string
	for _, b := range []byte(s) {
		parts = append(parts, strconv.Itoa(int(b)))
	}
	return "[" + strings.Join(parts, ", ") + "]"
}

func parse(path string) *ast.File {
	af, err := parser.ParseFile(fset, path, nil, parser.ParseComments)
	if err != nil {
		missing = append(missing, "parse:"+path)
		return &ast.File{Name: ast.NewIdent("x")}
	}
	return af
}

func funcDecl(af *ast.File, name string) *ast.FuncDecl {
	for _, d := range af.Decls {
		if fd, ok := d.(*ast.FuncDecl); ok && fd.Name.Name == name {
			return fd
		}
	}
	return nil
}

func method(af *ast.File, recv, name string) *ast.FuncDecl {
	for _, d := range af.Decls {
		fd, ok := d.(*ast.FuncDecl)
		if !ok || fd.Name.Name != name || fd.Recv == nil || len(fd.Recv.List) == 0 {
			continue
		}
		t := fd.Recv.List[0].Type
		if s, ok := t.(*ast.StarExpr); ok {
			t = s.X
		}
		if id, ok := t.(*ast.Ident); ok && id.Name == recv {
			return fd
		}
	}
	return nil
}

func strLit(e ast.Expr) (string, bool) {
	if bl, ok := e.(*ast.BasicLit); ok && bl.Kind == token.STRING {
		v, err := strconv.Unquote(bl.Value)
		return v, err == nil
	}
	return "", false
}

func strSlice(e ast.Expr) ([]string, bool) {
	cl, ok := e.(*ast.CompositeLit)
	if !ok {
		return nil, false
	}
	var out []string
	for _, el := range cl.Elts {
		s, ok := strLit(el)
		if !ok {
			return nil, false
		}
		out = append(out, s)
	}
	return out, true
}

func pkgValue(af *ast.File, name string) ast.Expr {
	for _, d := range af.Decls {
		gd, ok := d.(*ast.GenDecl)
		if !ok {
			continue
		}
		for _, sp := range gd.Specs {
			vs, ok := sp.(*ast.ValueSpec)
			if !ok {
				continue
			}
			for i, nm := range vs.Names {
				if nm.Name == name && i < len(vs.Values) {
					return vs.Values[i]
				}
			}
		}
	}
	return nil
}

func src(n ast.Node) string {
	var sb strings.Builder
	printer.Fprint(&sb, fset, n)
	return sb.String()
}

func quoteAll(xs []string) string {
	var q []string
	for _, x := range xs {
		q = append(q, strconv.Quote(x))
	}
	return strings.Join(q, ", ")
}

func main() {
	repo := "/repo"
	outLean := "/verif/lean/GohtVerif/Gen/Facts.lean"
	outJSON := "/verif/build/facts.json"
	if len(os.Args) > 1 {
		repo = os.Args[1]
	}
	if len(os.Args) > 2 {
		outLean = os.Args[2]
	}
	if len(os.Args) > 3 {
		outJSON = os.Args[3]
	}
	lexer := parse(filepath.Join(repo, "compiler/lexer.go"))
	lexers := parse(filepath.Join(repo, "compiler/lexers.go"))
	nodes := parse(filepath.Join(repo, "compiler/nodes.go"))
	tmpl := parse(filepath.Join(repo, "compiler/template.go"))
	rt := parse(filepath.Join(repo, "runtime.go"))
	genCmd := parse(filepath.Join(repo, "cmd/goht/cmd/generate.go"))
	pserver := parse(filepath.Join(repo, "internal/proxy/server.go"))
	pclient := parse(filepath.Join(repo, "internal/proxy/client.go"))
	fnames := parse(filepath.Join(repo, "internal/proxy/file_names.go"))

	var out strings.Builder
	facts := map[string]any{}
	out.WriteString("-- GENERATED on every run by /verif/go/cmd/extract from /repo's working tree. Do not edit.\nnamespace Gen\n\n")
	defBytes := func(name, v string) {
		fmt.Fprintf(&out, "def %s : List UInt8 := %s  -- %q\n", name, byteList(v), v)
		facts[name] = v
	}
	defRunes := func(name, v string) {
		fmt.Fprintf(&out, "def %s : List Nat := %s  -- %q\n", name, natList(v), v)
		facts[name] = v
	}
	defStrs := func(name string, vs []string) {
		var elems []string
		for _, v := range vs {
			elems = append(elems, byteList(v))
		}
		fmt.Fprintf(&out, "def %s : List (List UInt8) := [%s]  -- %q\n", name, strings.Join(elems, ", "), vs)
		facts[name] = vs
	}

	// 1. token-queue capacity
	cap := ""
	ast.Inspect(lexer, func(n ast.Node) bool {
		if c, ok := n.(*ast.CallExpr); ok {
			if id, ok := c.Fun.(*ast.Ident); ok && id.Name == "make" && len(c.Args) == 2 {
				if ch, ok := c.Args[0].(*ast.ChanType); ok {
					if id, ok := ch.Value.(*ast.Ident); ok && id.Name == "token" {
						if bl, ok := c.Args[1].(*ast.BasicLit); ok {
							cap = bl.Value
						}
					}
				}
			}
		}
		return true
	})
	if cap == "" {
		missing = append(missing, "chanCap")
		cap = "0"
	}
	fmt.Fprintf(&out, "def chanCap : Nat := %s\n\n", cap)
	facts["chanCap"] = cap

	// 2. character sets handed to accept*/skip* in every lexer function (source order)
	prims := map[string]bool{"accept": true, "acceptRun": true, "acceptUntil": true, "skipRun": true, "skipUntil": true}
	skeleton := map[string][]string{}
	for _, d := range lexers.Decls {
		fd, ok := d.(*ast.FuncDecl)
		if !ok {
			continue
		}
		idx := map[string]int{}
		ast.Inspect(fd, func(n ast.Node) bool {
			c, ok := n.(*ast.CallExpr)
			if !ok {
				return true
			}
			sel, ok := c.Fun.(*ast.SelectorExpr)
			if !ok {
				return true
			}
			if x, ok := sel.X.(*ast.Ident); !ok || x.Name != "l" {
				return true
			}
			skeleton[fd.Name.Name] = append(skeleton[fd.Name.Name], sel.Sel.Name)
			if prims[sel.Sel.Name] && len(c.Args) == 1 {
				var v string
				var ok bool
				if v, ok = strLit(c.Args[0]); !ok {
					if id, isId := c.Args[0].(*ast.Ident); isId && id.Name == "mayFollowIdentifier" {
						// local constant of hamlIdentifier
						ast.Inspect(fd, func(m ast.Node) bool {
							if vs, isVs := m.(*ast.ValueSpec); isVs && len(vs.Names) == 1 && vs.Names[0].Name == "mayFollowIdentifier" && len(vs.Values) == 1 {
								v, ok = strLit(vs.Values[0])
							}
							return true
						})
					}
				}
				if ok {
					k := sel.Sel.Name
					defRunes(fmt.Sprintf("%s_%s%d", fd.Name.Name, k, idx[k]), v)
					idx[k]++
				}
			}
			return true
		})
	}
	out.WriteString("\n")

	// 3. string tables
	for _, it := range []struct {
		af   *ast.File
		name string
	}{{lexers, "filters"}, {nodes, "selfClosedTags"}, {nodes, "openingStatements"}, {nodes, "elseStatements"}} {
		if vs, ok := strSlice(pkgValue(it.af, it.name)); ok {
			defStrs(it.name, vs)
		} else {
			missing = append(missing, it.name)
			defStrs(it.name, nil)
		}
	}
	// default imports: the `imports:` field of the composite literal in NewRootNode
	var defImports []string
	if fd := funcDecl(nodes, "NewRootNode"); fd != nil {
		ast.Inspect(fd, func(n ast.Node) bool {
			if kv, ok := n.(*ast.KeyValueExpr); ok {
				if id, ok := kv.Key.(*ast.Ident); ok && id.Name == "imports" {
					if vs, ok := strSlice(kv.Value); ok {
						defImports = vs
					}
				}
				if id, ok := kv.Key.(*ast.Ident); ok && id.Name == "pkg" {
					ast.Inspect(kv.Value, func(m ast.Node) bool {
						if kv2, ok := m.(*ast.KeyValueExpr); ok {
							if id2, ok := kv2.Key.(*ast.Ident); ok && id2.Name == "lit" {
								if s, ok := strLit(kv2.Value); ok {
									defBytes("defaultPackage", s)
								}
							}
						}
						return true
					})
				}
			}
			return true
		})
	}
	if defImports == nil {
		missing = append(missing, "defaultImports")
	}
	defStrs("defaultImports", defImports)
	if _, ok := facts["defaultPackage"]; !ok {
		missing = append(missing, "defaultPackage")
		defBytes("defaultPackage", "")
	}

	// 4. runtime constants
	for _, n := range []string{"NukeAfter", "NukeBefore"} {
		if s, ok := strLit(pkgValue(rt, n)); ok {
			defBytes(n, s)
		} else {
			missing = append(missing, n)
			defBytes(n, "")
		}
	}
	if v := pkgValue(rt, "nukeWhitespaceRe"); v != nil {
		facts["nukeWhitespaceRe.src"] = src(v)
		defBytes("nukeReSrc", src(v))
	} else {
		missing = append(missing, "nukeWhitespaceRe")
		defBytes("nukeReSrc", "")
	}
	if v := pkgValue(nodes, "reFmtText"); v != nil {
		defBytes("reFmtTextSrc", src(v))
	} else {
		missing = append(missing, "reFmtText")
		defBytes("reFmtTextSrc", "")
	}

	// 5. emitter prologue / epilogue strings of GohtNode.Source
	if fd := method(nodes, "GohtNode", "Source"); fd != nil {
		ast.Inspect(fd, func(n ast.Node) bool {
			if as, ok := n.(*ast.AssignStmt); ok && len(as.Lhs) == 1 && len(as.Rhs) == 1 {
				if id, ok := as.Lhs[0].(*ast.Ident); ok && (id.Name == "entry" || id.Name == "exit") {
					if s, ok := strLit(as.Rhs[0]); ok {
						defBytes("gohtNode_"+id.Name, s)
					}
				}
			}
			return true
		})
	}
	for _, n := range []string{"gohtNode_entry", "gohtNode_exit"} {
		if _, ok := facts[n]; !ok {
			missing = append(missing, n)
			defBytes(n, "")
		}
	}
	// every string literal handed to a tw.Write* / itw.Write* call, per Source method, in source order
	writeLits := map[string][]string{}
	for _, d := range nodes.Decls {
		fd, ok := d.(*ast.FuncDecl)
		if !ok || fd.Recv == nil {
			continue
		}
		recv := ""
		if s, ok := fd.Recv.List[0].Type.(*ast.StarExpr); ok {
			if id, ok := s.X.(*ast.Ident); ok {
				recv = id.Name
			}
		}
		key := recv + "." + fd.Name.Name
		ast.Inspect(fd, func(n ast.Node) bool {
			c, ok := n.(*ast.CallExpr)
			if !ok {
				return true
			}
			sel, ok := c.Fun.(*ast.SelectorExpr)
			if !ok || !strings.HasPrefix(sel.Sel.Name, "Write") {
				return true
			}
			for _, a := range c.Args {
				ast.Inspect(a, func(m ast.Node) bool {
					if s, ok := m.(*ast.BasicLit); ok && s.Kind == token.STRING {
						v, _ := strconv.Unquote(s.Value)
						writeLits[key] = append(writeLits[key], v)
					}
					return true
				})
			}
			return true
		})
	}
	facts["writeLits"] = writeLits
	{
		keys := make([]string, 0, len(writeLits))
		for k := range writeLits {
			keys = append(keys, k)
		}
		sort.Strings(keys)
		for _, k := range keys {
			defStrs("lits_"+strings.ReplaceAll(k, ".", "_"), writeLits[k])
		}
	}
	// template.go literals
	tw := map[string][]string{}
	for _, d := range tmpl.Decls {
		fd, ok := d.(*ast.FuncDecl)
		if !ok {
			continue
		}
		ast.Inspect(fd, func(n ast.Node) bool {
			if s, ok := n.(*ast.BasicLit); ok && s.Kind == token.STRING {
				v, _ := strconv.Unquote(s.Value)
				tw[fd.Name.Name] = append(tw[fd.Name.Name], v)
			}
			return true
		})
	}
	{
		keys := make([]string, 0, len(tw))
		for k := range tw {
			keys = append(keys, k)
		}
		sort.Strings(keys)
		for _, k := range keys {
			defStrs("tw_"+k, tw[k])
		}
	}
	out.WriteString("\n")

	// 6. shape facts of runtime.go
	shape := map[string]bool{}
	calls := func(fd *ast.FuncDecl) []string {
		var cs []string
		if fd == nil {
			return cs
		}
		ast.Inspect(fd, func(n ast.Node) bool {
			if c, ok := n.(*ast.CallExpr); ok {
				cs = append(cs, src(c.Fun))
			}
			return true
		})
		return cs
	}
	has := func(xs []string, s string) bool {
		for _, x := range xs {
			if x == s {
				return true
			}
		}
		return false
	}
	idx := func(xs []string, s string) int {
		for i, x := range xs {
			if x == s {
				return i
			}
		}
		return -1
	}
	bal := calls(funcDecl(rt, "BuildAttributeList"))
	shape["BuildAttributeList.sortsBeforeJoin"] = idx(bal, "slices.Sort") >= 0 && idx(bal, "slices.Sort") < idx(bal, "strings.Join")
	bcl := calls(funcDecl(rt, "BuildClassList"))
	shape["BuildClassList.sorts"] = has(bcl, "slices.Sort") || has(bcl, "sort.Strings")
	es := funcDecl(rt, "EscapeString")
	shape["EscapeString.isHtmlEscapeString"] = es != nil && strings.Contains(src(es.Body), "return html.EscapeString(s)")
	rb := calls(funcDecl(rt, "ReleaseBuffer"))
	shape["ReleaseBuffer.resetBeforePut"] = idx(rb, "buf.Reset") >= 0 && idx(rb, "buf.Reset") < idx(rb, "bufferPool.Put")
	bb := method(rt, "Buffer", "Bytes")
	shape["Buffer.Bytes.appliesNukeRe"] = bb != nil && strings.Contains(src(bb.Body), "nukeWhitespaceRe.ReplaceAll(b.Buffer.Bytes(), nil)")
	// map-ranging sites in the runtime helpers
	rangesMap := func(fd *ast.FuncDecl) int {
		n := 0
		if fd == nil {
			return 0
		}
		ast.Inspect(fd, func(m ast.Node) bool {
			if r, ok := m.(*ast.RangeStmt); ok && r.Key != nil && r.Value != nil {
				// `for k, v := range x` inside a type switch over map types
				n++
			}
			return true
		})
		return n
	}
	facts["BuildClassList.rangeKV"] = rangesMap(funcDecl(rt, "BuildClassList"))
	facts["BuildAttributeList.rangeKV"] = rangesMap(funcDecl(rt, "BuildAttributeList"))
	keys := make([]string, 0, len(shape))
	for k := range shape {
		keys = append(keys, k)
	}
	sort.Strings(keys)
	for _, k := range keys {
		fmt.Fprintf(&out, "def shape_%s : Bool := %v\n", strings.NewReplacer(".", "_").Replace(k), shape[k])
	}
	facts["shape"] = shape
	out.WriteString("\n")

	// 7. determinism facts for package compiler (C15): goroutines, map ranges, package-level writes, time/rand/env
	var nondet []string
	files, _ := filepath.Glob(filepath.Join(repo, "compiler/*.go"))
	sort.Strings(files)
	// names of struct fields and variables of the package that are declared with a map type
	mapNames := map[string]bool{}
	for _, f := range files {
		if strings.HasSuffix(f, "_test.go") || strings.Contains(f, "verif_hooks") {
			continue
		}
		ast.Inspect(parse(f), func(n ast.Node) bool {
			switch x := n.(type) {
			case *ast.Field:
				if _, ok := x.Type.(*ast.MapType); ok {
					for _, nm := range x.Names {
						mapNames[nm.Name] = true
					}
				}
			case *ast.ValueSpec:
				if _, ok := x.Type.(*ast.MapType); ok {
					for _, nm := range x.Names {
						mapNames[nm.Name] = true
					}
				}
			}
			return true
		})
	}
	for _, f := range files {
		if strings.HasSuffix(f, "_test.go") || strings.Contains(f, "verif_hooks") {
			continue
		}
		af := parse(f)
		for _, im := range af.Imports {
			p, _ := strconv.Unquote(im.Path.Value)
			if p == "time" || p == "math/rand" || p == "math/rand/v2" || p == "crypto/rand" {
				nondet = append(nondet, filepath.Base(f)+": imports "+p)
			}
		}
		ast.Inspect(af, func(n ast.Node) bool {
			switch x := n.(type) {
			case *ast.GoStmt:
				nondet = append(nondet, fmt.Sprintf("%s:%d: go statement", filepath.Base(f), fset.Position(x.Pos()).Line))
			case *ast.RangeStmt:
				// ranging over something whose expression mentions a map-typed field we know of
				s := src(x.X)
				last := s
				if i := strings.LastIndex(last, "."); i >= 0 {
					last = last[i+1:]
				}
				if strings.Contains(s, ".values") || strings.Contains(s, "SourceLinesToTarget") || strings.Contains(s, "TargetLinesToSource") || mapNames[last] {
					nondet = append(nondet, fmt.Sprintf("%s:%d: range over map %s", filepath.Base(f), fset.Position(x.Pos()).Line, s))
				}
			case *ast.CallExpr:
				s := src(x.Fun)
				if s == "os.Getenv" || s == "os.Environ" || strings.HasPrefix(s, "time.") || strings.HasPrefix(s, "rand.") {
					nondet = append(nondet, fmt.Sprintf("%s:%d: call %s", filepath.Base(f), fset.Position(x.Pos()).Line, s))
				}
			}
			return true
		})
	}
	// package-level variables of package compiler that some function writes to (shared mutable state:
	// concurrent compilations would interfere, sequential ones could depend on history)
	{
		pkgVars := map[string]bool{}
		pureVars := map[string]bool{}
		var parsed []*ast.File
		for _, f := range files {
			if strings.HasSuffix(f, "_test.go") || strings.Contains(f, "verif_hooks") {
				continue
			}
			af := parse(f)
			parsed = append(parsed, af)
			for _, d := range af.Decls {
				if gd, ok := d.(*ast.GenDecl); ok && gd.Tok == token.VAR {
					for _, sp := range gd.Specs {
						vs := sp.(*ast.ValueSpec)
						for i, nm := range vs.Names {
							pkgVars[nm.Name] = true
							// a compiled regular expression is used through methods but never changes
							if i < len(vs.Values) && strings.HasPrefix(src(vs.Values[i]), "regexp.MustCompile(") {
								pureVars[nm.Name] = true
							}
							if vs.Type != nil && (strings.Contains(src(vs.Type), "sync.") || strings.Contains(src(vs.Type), "atomic.")) {
								nondet = append(nondet, fmt.Sprintf("%s:%d: package-level variable %s of type %s (state shared between compilations)", filepath.Base(fset.Position(nm.Pos()).Filename), fset.Position(nm.Pos()).Line, nm.Name, src(vs.Type)))
							}
						}
					}
				}
			}
		}
		root := func(e ast.Expr) string {
			for {
				switch x := e.(type) {
				case *ast.Ident:
					return x.Name
				case *ast.IndexExpr:
					e = x.X
				case *ast.SelectorExpr:
					e = x.X
				case *ast.StarExpr:
					e = x.X
				case *ast.SliceExpr:
					e = x.X
				case *ast.ParenExpr:
					e = x.X
				default:
					return ""
				}
			}
		}
		for _, af := range parsed {
			for _, d := range af.Decls {
				fd, ok := d.(*ast.FuncDecl)
				if !ok || fd.Body == nil {
					continue
				}
				// names declared locally (parameters, :=, var) shadow package-level names
				local := map[string]bool{}
				ast.Inspect(fd, func(n ast.Node) bool {
					switch x := n.(type) {
					case *ast.AssignStmt:
						if x.Tok == token.DEFINE {
							for _, l := range x.Lhs {
								if id, ok := l.(*ast.Ident); ok {
									local[id.Name] = true
								}
							}
						}
					case *ast.ValueSpec:
						for _, nm := range x.Names {
							local[nm.Name] = true
						}
					case *ast.Field:
						for _, nm := range x.Names {
							local[nm.Name] = true
						}
					case *ast.RangeStmt:
						if id, ok := x.Key.(*ast.Ident); ok {
							local[id.Name] = true
						}
						if id, ok := x.Value.(*ast.Ident); ok {
							local[id.Name] = true
						}
					}
					return true
				})
				ast.Inspect(fd.Body, func(n ast.Node) bool {
					var lhs []ast.Expr
					switch x := n.(type) {
					case *ast.AssignStmt:
						if x.Tok != token.DEFINE {
							lhs = x.Lhs
						}
					case *ast.IncDecStmt:
						lhs = []ast.Expr{x.X}
					}
					// a method called on a package-level variable (Store, Swap, Put, Do, Lock, …) may change it
					if ce, ok := n.(*ast.CallExpr); ok {
						if se, ok := ce.Fun.(*ast.SelectorExpr); ok {
							if r := root(se.X); r != "" && pkgVars[r] && !local[r] && !pureVars[r] {
								nondet = append(nondet, fmt.Sprintf("%s:%d: function %s calls %s on package-level variable %s", filepath.Base(fset.Position(ce.Pos()).Filename), fset.Position(ce.Pos()).Line, fd.Name.Name, se.Sel.Name, r))
							}
						}
					}
					for _, l := range lhs {
						if r := root(l); r != "" && pkgVars[r] && !local[r] {
							nondet = append(nondet, fmt.Sprintf("%s:%d: function %s writes package-level variable %s", filepath.Base(fset.Position(l.Pos()).Filename), fset.Position(l.Pos()).Line, fd.Name.Name, r))
						}
					}
					return true
				})
			}
		}
	}
	facts["compiler.nondetSites"] = nondet
	fmt.Fprintf(&out, "def nondetSites : Nat := %d\n", len(nondet))

	// 8. CLI and proxy constants
	if fd := funcDecl(genCmd, "init"); fd != nil || true {
		var skip []string
		ast.Inspect(genCmd, func(n ast.Node) bool {
			if c, ok := n.(*ast.CallExpr); ok {
				if strings.HasSuffix(src(c.Fun), "StringSliceVar") || strings.HasSuffix(src(c.Fun), "StringSliceVarP") {
					for _, a := range c.Args {
						if vs, ok := strSlice(a); ok {
							skip = vs
						}
					}
				}
			}
			return true
		})
		defStrs("defaultSkipDirs", skip)
	}
	{
		// strconv.IsPrint above ASCII, as maximal intervals (behavioural extraction from the toolchain's stdlib):
		// strconv.Quote writes printable runes as they are and everything else as an escape
		var iv []string
		lo, in := rune(0), false
		for r := rune(0x80); r <= 0x110000; r++ {
			p := r <= 0x10FFFF && strconv.IsPrint(r)
			if p && !in {
				lo = r
			}
			if !p && in {
				iv = append(iv, fmt.Sprintf("(%d, %d)", lo, r-1))
			}
			in = p
		}
		fmt.Fprintf(&out, "def isPrintRanges : List (Nat × Nat) := [%s]\n", strings.Join(iv, ", "))
		facts["isPrintRanges.count"] = len(iv)
	}
	{
		// `goht generate`: extensions, skip prefixes, the suffix trimmed/added to pair outputs with templates,
		// what a directory is compared by, and every call that mutates the file system
		consts := map[string]string{}
		for _, d := range genCmd.Decls {
			if gd, ok := d.(*ast.GenDecl); ok && gd.Tok == token.CONST {
				for _, sp := range gd.Specs {
					vs := sp.(*ast.ValueSpec)
					for i, n := range vs.Names {
						if i < len(vs.Values) {
							if bl, ok := vs.Values[i].(*ast.BasicLit); ok && bl.Kind == token.STRING {
								v, _ := strconv.Unquote(bl.Value)
								consts[n.Name] = v
							}
						}
					}
				}
			}
		}
		if consts["GohtFileExtension"] == "" || consts["GeneratedFileExtension"] == "" {
			missing = append(missing, "generate extensions")
		}
		defBytes("genGohtExt", consts["GohtFileExtension"])
		defBytes("genOutExt", consts["GeneratedFileExtension"])
		var prefixes, trims, adds, muts, dirCmp []string
		wd := funcDecl(genCmd, "walkDir")
		if wd == nil {
			missing = append(missing, "walkDir")
		} else {
			ast.Inspect(wd, func(n ast.Node) bool {
				if ifs, ok := n.(*ast.IfStmt); ok && src(ifs.Cond) == "entry.IsDir()" {
					ast.Inspect(ifs.Body, func(m ast.Node) bool {
						switch x := m.(type) {
						case *ast.CallExpr:
							if src(x.Fun) == "strings.HasPrefix" && len(x.Args) == 2 {
								if bl, ok := x.Args[1].(*ast.BasicLit); ok {
									v, _ := strconv.Unquote(bl.Value)
									prefixes = append(prefixes, v)
								}
								dirCmp = append(dirCmp, src(x.Args[0]))
							}
						case *ast.BinaryExpr:
							if x.Op == token.EQL && (src(x.X) == "skipDir" || src(x.Y) == "skipDir") {
								o := src(x.Y)
								if o == "skipDir" {
									o = src(x.X)
								}
								dirCmp = append(dirCmp, o)
							}
						case *ast.AssignStmt:
							if len(x.Lhs) == 1 && len(x.Rhs) == 1 {
								dirCmp = append(dirCmp, src(x.Lhs[0])+":="+src(x.Rhs[0]))
							}
						}
						return true
					})
					return false
				}
				if c, ok := n.(*ast.CallExpr); ok && src(c.Fun) == "strings.TrimSuffix" && len(c.Args) == 2 {
					if bl, ok := c.Args[1].(*ast.BasicLit); ok {
						v, _ := strconv.Unquote(bl.Value)
						trims = append(trims, v)
					}
				}
				if b, ok := n.(*ast.BinaryExpr); ok && b.Op == token.ADD && src(b.X) == "entryName" {
					if bl, ok := b.Y.(*ast.BasicLit); ok {
						v, _ := strconv.Unquote(bl.Value)
						adds = append(adds, v)
					}
				}
				return true
			})
		}
		ast.Inspect(genCmd, func(n ast.Node) bool {
			if c, ok := n.(*ast.CallExpr); ok {
				f := src(c.Fun)
				if strings.HasPrefix(f, "os.") {
					switch strings.TrimPrefix(f, "os.") {
					case "Stat", "Lstat", "IsNotExist", "ReadFile", "Getwd":
					default:
						muts = append(muts, src(c))
					}
				}
			}
			return true
		})
		defStrs("genSkipPrefixes", prefixes)
		tr := ""
		if len(trims) == 1 && len(adds) == 1 && trims[0] == adds[0] {
			tr = trims[0]
		} else {
			missing = append(missing, "generate trim/add suffix")
		}
		defBytes("genTrimSuffix", tr)
		fmt.Fprintf(&out, "def genFsMutations : List String := [%s]\n", quoteAll(muts))
		facts["genFsMutations"] = muts
		fmt.Fprintf(&out, "def genDirComparedBy : List String := [%s]\n", quoteAll(dirCmp))
		facts["genDirComparedBy"] = dirCmp
	}
	var overridden []string
	for _, d := range pserver.Decls {
		if fd, ok := d.(*ast.FuncDecl); ok && fd.Recv != nil && ast.IsExported(fd.Name.Name) {
			overridden = append(overridden, fd.Name.Name)
		}
	}
	sort.Strings(overridden)
	facts["proxy.Server.overridden"] = overridden
	var cover []string
	for _, d := range pclient.Decls {
		if fd, ok := d.(*ast.FuncDecl); ok && fd.Recv != nil && ast.IsExported(fd.Name.Name) {
			cover = append(cover, fd.Name.Name)
		}
	}
	facts["proxy.Client.overridden"] = cover
	_ = fnames

	// 9. call skeletons of lexer state functions (change detector; hashed)
	sk := map[string]string{}
	for k, v := range skeleton {
		h := sha256.Sum256([]byte(strings.Join(v, ",")))
		sk[k] = fmt.Sprintf("%x", h[:6])
	}
	facts["lexer.skeletons"] = sk

	fmt.Fprintf(&out, "def extractMissing : Nat := %d\n", len(missing))
	out.WriteString("\nend Gen\n")
	facts["missing"] = missing

	// write only when changed, so that lake's incremental build is not disturbed
	old, _ := os.ReadFile(outLean)
	if string(old) != out.String() {
		os.MkdirAll(filepath.Dir(outLean), 0755)
		os.WriteFile(outLean, []byte(out.String()), 0644)
	}
	b, _ := json.MarshalIndent(facts, "", " ")
	os.MkdirAll(filepath.Dir(outJSON), 0755)
	os.WriteFile(outJSON, b, 0644)
	if len(missing) > 0 {
		fmt.Println("EXTRACT_MISMATCH", strings.Join(missing, " "))
	}
}
