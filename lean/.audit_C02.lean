import GohtVerif.Proofs.C02
#print axioms GL.C02.htmlEscape_eq_flatMap
#print axioms GL.C02.htmlEscape_append
#print axioms GL.C02.esc1_no_meta
#print axioms GL.C02.htmlEscape_no_meta
#print axioms GL.C02.unesc_esc1_append
#print axioms GL.C02.unesc_htmlEscape
#print axioms GL.C02.script_hole
#print axioms GL.C02.interpolation_hole
#print axioms GL.C02.class_and_id_holes
