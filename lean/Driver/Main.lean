import GohtVerif.Model.Exec
/-! Line-protocol driver: one request per line, fields hex-encoded; one reply line per request. -/
open GL

def hexDigit (n : Nat) : Char := if n < 10 then Char.ofNat (48 + n) else Char.ofNat (87 + n)
def toHex (s : GoStr) : String :=
  String.ofList (s.flatMap fun b => [hexDigit (b.toNat / 16), hexDigit (b.toNat % 16)])
def hexVal (c : Char) : Nat :=
  if c.isDigit then c.toNat - 48 else if 'a' ≤ c && c ≤ 'f' then c.toNat - 87 else 0
def fromHex : List Char → GoStr
  | a :: b :: rest => UInt8.ofNat (hexVal a * 16 + hexVal b) :: fromHex rest
  | _ => []
def hx (s : String) : GoStr := fromHex s.toList

def showOutcome : Outcome → String
  | .ok => "ok" | .panic => "panic" | .stuck => "stuck" | .deadlock => "deadlock" | .outOfFuel => "fuel"

def doLex (input : GoStr) : String := Id.run do
  let (toks, oc) := lexBytes input
  let mut sb := ""
  for t in toks do
    sb := sb ++ s!"{t.typ.name}:{toHex t.lit}:{t.line}:{t.col} "
  return s!"{showOutcome oc} {sb}"

def doCompile (input : GoStr) : String := Id.run do
  let c := compile input
  let errS := match c.err with
    | none => "-"
    | some e => s!"{e.line}:{e.col}:{toHex e.msg.toUTF8.toList}"
  let mut sb := ""
  for e in c.entries do
    sb := sb ++ s!"{e.sl},{e.sc},{e.tl},{e.tc};"
  let emitS := match c.emitErr with | none => "-" | some e => toHex e.toUTF8.toList
  let chk := (if allDisj disjS c.frags then "S" else "s") ++ (if allDisj disjT c.frags then "T" else "t")
  return s!"{showOutcome c.lexOutcome} {errS} {toHex c.text}X {sb}X {emitS} {chk}"

def splitNE (s : String) (sep : String) : List String := (s.splitOn sep).filter (· != "")
/-- helper fields carry a leading underscore so that the empty string is a visible field -/
def hxu (s : String) : GoStr := hx ((s.dropWhile (· == '_')).toString)

def parseVal (a : String) : Val :=
  match a.splitOn ":" with
  | [kind, rest] =>
    let items := splitNE rest ","
    match kind with
    | "S" => .str (hxu rest)
    | "L" => .strs (items.map hxu)
    | "LN" => .strs []
    | "B" => .mapBool (items.filterMap fun it => match it.splitOn "=" with | [k, v] => some (hxu k, v == "1") | _ => none)
    | "BN" => .mapBool []
    | "M" => .mapStr (items.filterMap fun it => match it.splitOn "=" with | [k, v] => some (hxu k, hxu v) | [k] => some (hxu k, []) | _ => none)
    | "MN" => .mapStr []
    | _ => .other
  | _ => .other

def showOpt : Option GoStr → String
  | some s => s!"ok {toHex s}"
  | none => "err"

def doHelper (f : List String) : String :=
  match f with
  | "class" :: args => showOpt (buildClassList (args.map parseVal))
  | "attr" :: args => showOpt (buildAttributeList (args.map parseVal))
  | fn :: kind :: idh :: clsh :: rest =>
    let o : Obj := match kind with
      | "both" => { id := some (hxu idh), cls := some (hxu clsh) }
      | "id" => { id := some (hxu idh), cls := none }
      | "cls" => { id := none, cls := some (hxu clsh) }
      | _ => { id := none, cls := none }
    let pfx := rest.head?.map hxu
    if fn == "oid" then s!"ok {toHex (objectID o pfx)}"
    else if fn == "oclsl" then showOpt (buildClassList [.str (objectClass o pfx)])
    else s!"ok {toHex (objectClass o pfx)}"
  | _ => "BAD"

def cut1 (s : String) (sep : Char) : String × String :=
  let a := (s.takeWhile (· != sep)).toString
  (a, (s.drop (a.length + 1)).toString)

/-- environment table, one field per entry:
`S:k=v` string, `E:k` failing fragment, `B:k=0|1`, `L:header=var=v1|v2|…`, `C:k=val;val…`, `A:k=val;val…`,
`O:k=kind,id,cls,pfx` (all k/v hex with a leading underscore) -/
def parseEnv (fields : List String) : Env := Id.run do
  let mut env : Env := {}
  for f in fields do
    let (tag, rest) := cut1 f ':'
    let (k, v) := cut1 rest '='
    match tag with
    | "S" => env := { env with strs := env.strs ++ [(hxu k, hxu v)] }
    | "E" => env := { env with errs := env.errs ++ [hxu k] }
    | "B" => env := { env with bools := env.bools ++ [(hxu k, v == "1")] }
    | "L" =>
      let (var, vals) := cut1 v '='
      env := { env with loops := env.loops ++ [(hxu k, (hxu var, (splitNE vals "|").map hxu))] }
    | "C" => env := { env with classes := env.classes ++ [(hxu k, (splitNE v ";").map parseVal)] }
    | "A" => env := { env with attrs := env.attrs ++ [(hxu k, (splitNE v ";").map parseVal)] }
    | "O" =>
      match v.splitOn "," with
      | [kind, idh, clsh, pf] =>
        let o : Obj := match kind with
          | "both" => { id := some (hxu idh), cls := some (hxu clsh) }
          | "id" => { id := some (hxu idh), cls := none }
          | "cls" => { id := none, cls := some (hxu clsh) }
          | _ => { id := none, cls := none }
        env := { env with objs := env.objs ++ [(hxu k, (o, if pf == "-" then none else some (hxu pf)))] }
      | _ => pure ()
    | _ => pure ()
  return env

def showRender (r : RenderObs) : String :=
  match r.err with
  | none => s!"OK {r.writes.length} {toHex r.writes.flatten}X"
  | some (.expr f) => s!"ERR {r.writes.length} expr {toHex f}"
  | some (.helper f) => s!"ERR {r.writes.length} helper {toHex f}"
  | some (.model m) => s!"MODEL {m}"

def handle (line : String) : String :=
  match line.trimAscii.toString.splitOn " " with
  | ["L", input] => doLex (hx input)
  | ["L"] => doLex []
  | ["C", input] => doCompile (hx input)
  | ["C"] => doCompile []
  | "H" :: rest => doHelper rest
  | "R" :: file :: name :: rest => showRender (renderTop (hx file) (hx name) (parseEnv rest))
  | _ => "BAD"

/-- the last parsed file is kept, so that many renders of one file parse it once -/
partial def loop (h : IO.FS.Stream) (out : IO.FS.Stream) (cacheKey : String) (cache : Option (List Tmpl)) : IO Unit := do
  let line ← h.getLine
  if line.isEmpty then return ()
  match line.trimAscii.toString.splitOn " " with
  | "R" :: file :: name :: rest =>
    let (key, prog) := if file == cacheKey then (cacheKey, cache) else (file, progOf (hx file))
    out.putStrLn (showRender (renderProg prog (hx name) (parseEnv rest)))
    out.flush
    loop h out key prog
  | _ =>
    out.putStrLn (handle line)
    out.flush
    loop h out cacheKey cache

def main : IO Unit := do loop (← IO.getStdin) (← IO.getStdout) "" none
