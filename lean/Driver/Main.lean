import GohtVerif.Model.Exec
import GohtVerif.Model.Proxy
import GohtVerif.Model.Generate
/-! Line-protocol driver: one request per line, fields hex-encoded; one reply line per request. -/
open GL

def hexDigit (n : Nat) : Char := if n < 10 then Char.ofNat (48 + n) else Char.ofNat (87 + n)
def toHex (s : GoStr) : String :=
  String.ofList (s.flatMap fun b => [hexDigit (b.toNat / 16), hexDigit (b.toNat % 16)])
def hexVal (c : Char) : Nat :=
  if c.isDigit then c.toNat - 48 else if 'a' ≤ c && c ≤ 'f' then c.toNat - 87 else 0
def fromHex : List Char → GoStr
  | a :: b :: rest => UInt8.ofNat (hexVal a * 16 + hexVal b) :: fromHex rest
  | _ => []
def hx (s : String) : GoStr := fromHex s.toList

def showOutcome : Outcome → String
  | .ok => "ok" | .panic => "panic" | .stuck => "stuck" | .deadlock => "deadlock" | .outOfFuel => "fuel"

def doLex (input : GoStr) : String := Id.run do
  let (toks, oc) := lexBytes input
  let mut sb := ""
  for t in toks do
    sb := sb ++ s!"{t.typ.name}:{toHex t.lit}:{t.line}:{t.col} "
  return s!"{showOutcome oc} {sb}"

def doCompile (input : GoStr) : String := Id.run do
  let c := compile input
  let errS := match c.err with
    | none => "-"
    | some e => s!"{e.line}:{e.col}:{toHex e.msg.toUTF8.toList}"
  let mut sb := ""
  for e in c.entries do
    sb := sb ++ s!"{e.sl},{e.sc},{e.tl},{e.tc};"
  let emitS := match c.emitErr with | none => "-" | some e => toHex e.toUTF8.toList
  let chk := (if allDisj disjS c.frags then "S" else "s") ++ (if allDisj disjT c.frags then "T" else "t")
  return s!"{showOutcome c.lexOutcome} {errS} {toHex c.text}X {sb}X {emitS} {chk}"

def splitNE (s : String) (sep : String) : List String := (s.splitOn sep).filter (· != "")
/-- helper fields carry a leading underscore so that the empty string is a visible field -/
def hxu (s : String) : GoStr := hx ((s.dropWhile (· == '_')).toString)

def parseVal (a : String) : Val :=
  match a.splitOn ":" with
  | [kind, rest] =>
    let items := splitNE rest ","
    match kind with
    | "S" => .str (hxu rest)
    | "L" => .strs (items.map hxu)
    | "LN" => .strs []
    | "B" => .mapBool (items.filterMap fun it => match it.splitOn "=" with | [k, v] => some (hxu k, v == "1") | _ => none)
    | "BN" => .mapBool []
    | "M" => .mapStr (items.filterMap fun it => match it.splitOn "=" with | [k, v] => some (hxu k, hxu v) | [k] => some (hxu k, []) | _ => none)
    | "MN" => .mapStr []
    | _ => .other
  | _ => .other

def showOpt : Option GoStr → String
  | some s => s!"ok {toHex s}"
  | none => "err"

def doHelper (f : List String) : String :=
  match f with
  | "class" :: args => showOpt (buildClassList (args.map parseVal))
  | "attr" :: args => showOpt (buildAttributeList (args.map parseVal))
  | fn :: kind :: idh :: clsh :: rest =>
    let o : Obj := match kind with
      | "both" => { id := some (hxu idh), cls := some (hxu clsh) }
      | "id" => { id := some (hxu idh), cls := none }
      | "cls" => { id := none, cls := some (hxu clsh) }
      | _ => { id := none, cls := none }
    let pfx := rest.head?.map hxu
    if fn == "oid" then s!"ok {toHex (objectID o pfx)}"
    else if fn == "oclsl" then showOpt (buildClassList [.str (objectClass o pfx)])
    else s!"ok {toHex (objectClass o pfx)}"
  | _ => "BAD"

def cut1 (s : String) (sep : Char) : String × String :=
  let a := (s.takeWhile (· != sep)).toString
  (a, (s.drop (a.length + 1)).toString)

/-- environment table, one field per entry:
`S:k=v` string, `E:k` failing fragment, `B:k=0|1`, `L:header=var=v1|v2|…`, `C:k=val;val…`, `A:k=val;val…`,
`O:k=kind,id,cls,pfx` (all k/v hex with a leading underscore) -/
def parseEnv (fields : List String) : Env := Id.run do
  let mut env : Env := {}
  for f in fields do
    let (tag, rest) := cut1 f ':'
    let (k, v) := cut1 rest '='
    match tag with
    | "S" => env := { env with strs := env.strs ++ [(hxu k, hxu v)] }
    | "E" => env := { env with errs := env.errs ++ [hxu k] }
    | "B" => env := { env with bools := env.bools ++ [(hxu k, v == "1")] }
    | "L" =>
      let (var, vals) := cut1 v '='
      env := { env with loops := env.loops ++ [(hxu k, (hxu var, (splitNE vals "|").map hxu))] }
    | "C" => env := { env with classes := env.classes ++ [(hxu k, (splitNE v ";").map parseVal)] }
    | "A" => env := { env with attrs := env.attrs ++ [(hxu k, (splitNE v ";").map parseVal)] }
    | "O" =>
      match v.splitOn "," with
      | [kind, idh, clsh, pf] =>
        let o : Obj := match kind with
          | "both" => { id := some (hxu idh), cls := some (hxu clsh) }
          | "id" => { id := some (hxu idh), cls := none }
          | "cls" => { id := none, cls := some (hxu clsh) }
          | _ => { id := none, cls := none }
        env := { env with objs := env.objs ++ [(hxu k, (o, if pf == "-" then none else some (hxu pf)))] }
      | _ => pure ()
    | _ => pure ()
  return env

def showRender (r : RenderObs) : String :=
  match r.err with
  | none => s!"OK {r.writes.length} {toHex r.writes.flatten}X"
  | some (.expr f) => s!"ERR {r.writes.length} expr {toHex f}"
  | some (.helper f) => s!"ERR {r.writes.length} helper {toHex f}"
  | some (.model m) => s!"MODEL {m}"

namespace PxDrv
open Px

def parseRng (s : String) : Rng :=
  match (s.splitOn ".").map String.toInt! with
  | [a, b, c, d] => ⟨a, b, c, d⟩
  | _ => ⟨0, 0, 0, 0⟩

def showRng (r : Rng) : String := s!"{r.sl}:{r.sc}-{r.el}:{r.ec}"
def str (s : GoStr) : String := String.fromUTF8! (ByteArray.mk s.toArray)

def parseOp (f : String) : Option Op :=
  match f.splitOn "," with
  | ["o", u, t, v] => some (.dopen (hxu u) (hxu t) v.toInt!)
  | ["c", u, t, v] => some (.change (hxu u) (hxu t) v.toInt!)
  | ["x", u] => some (.close (hxu u))
  | ["s", u, t] => some (.save (hxu u) (hxu t))
  | ["m", m] => some (.showmsg (hxu m))
  | ["d", u, ds] =>
    some (.pubdiag (hxu u) ((splitNE ds "/").filterMap fun d =>
      match d.splitOn "|" with
      | [r, m] => some { r := parseRng r, src := [99, 111, 109, 112, 105, 108, 101, 114], msg := hxu m }
      | _ => none))
  | ["q", m, u, l, c, nl, detail, ans] =>
    some (.req m (hxu u) l.toInt! c.toInt! ((splitNE ans "/").filterMap fun a =>
      match a.splitOn "|" with
      | [au, r] => some { uri := hxu au, r := parseRng r }
      | _ => none) (nl == "1") (hxu detail))
  | _ => none

def showLocs (ls : Option (List Loc)) : String :=
  match ls with
  | none => "nil"
  | some ls => "[" ++ ",".intercalate (ls.map fun l => s!"{str l.uri}@{showRng l.r}") ++ "]"

def showRngs (rs : Option (List Rng)) : String :=
  match rs with
  | none => "nil"
  | some rs => "[" ++ ",".intercalate (rs.map showRng) ++ "]"

def showEv : Ev → String
  | .dOpen u v lang t => s!"D didOpen {str u} v={v} lang={str lang} text={toHex t}"
  | .dChange u v t => s!"D didChange {str u} v={v} id={str u} changes=full={toHex t}"
  | .dClose u => s!"D didClose {str u}"
  | .dSave u t => s!"D didSave {str u} text={match t with | some t => toHex t | none => "-"}"
  | .dReq m u l c => s!"D {m} {str u} pos={l}:{c}"
  | .dReqDoc m u => if m == "CodeAction" then s!"D {m} {str u} range=0:0-0:0" else s!"D {m} {str u}"
  | .eDiag u ds => s!"E diag {str u} [" ++ ",".intercalate (ds.map fun d => s!"{showRng d.r}={str d.src}={toHex d.msg}") ++ "]"
  | .eMsg m => s!"E msg {toHex m}"
  | .rNotify w =>
    match w with
    | "change-error" => "R change err=true"
    | "pubdiag-error" => "R pubdiag err=true"
    | w => s!"R {w} err=false"
  | .rLocs m ls => s!"R {m} {showLocs ls}"
  | .rDecl ls => "R Declaration [" ++ ",".intercalate (ls.map fun (u, a, b) => s!"{str u}@{showRng a}@{showRng b}") ++ "]"
  | .rRange m r => s!"R {m} {match r with | some r => showRng r | none => "nil"}"
  | .rRanges m rs => s!"R {m} {showRngs rs}"
  | .rFlag m b => s!"R {m} nil={b} err=false"
  | .rCount m n => s!"R {m} n={n} err=false"
  | .rCompletion none => "R Completion nil"
  | .rCompletion (some items) =>
    "R Completion [" ++ ",".intercalate (items.map fun (te, adds) =>
      (match te with | some r => showRng r | none => "-") ++ "+" ++
        ";".intercalate (adds.map fun (r, t) => s!"{showRng r}={toHex t}")) ++ "]"

/-- `P <op>;<op>;…` → all events, separated by `|` -/
def doProxy (ops : String) : String :=
  let os := (splitNE ops ";").filterMap parseOp
  let (_, evs) := run realComp {} os
  "|".intercalate (evs.map showEv)

end PxDrv

namespace GnDrv
open Gn

def parsePath (d nm : String) : Path := { dir := (splitNE d ".").map hxu, name := hxu nm }

/-- `G flags skips files fc sched`: one run of `goht generate` over a tree.
flags = two of 0/1 (force, keep); skips = `_`-hex names, comma separated; files = `dir:name:content:mtime`,
dir = `_`-hex components separated by `.`; fc = `content=output` or `content=-` (does not compile);
sched = `w` (walk order) or `r` (reversed). Reply: the state of every listed path, then of the output of
every listed path, `-` for absent, else `content@mtime`. -/
def doGenerate (flags skips files fcs sched : String) : String :=
  let fl := flags.toList
  let ents : List (Path × File) := (splitNE files ",").filterMap fun f =>
    match f.splitOn ":" with
    | [d, nm, c, m] => some (parsePath d nm, { content := hxu c, mtime := m.toNat! })
    | _ => none
  let table : List (Bytes × Option Bytes) := ((splitNE fcs ",").filter (· != "-")).filterMap fun e =>
    match e.splitOn "=" with
    | [c, "-"] => some (hxu c, none)
    | [c, o] => some (hxu c, some (hxu o))
    | _ => none
  let cfg : Cfg := { force := (fl.head? == some '1')
                     keep := ((fl.drop 1).head? == some '1')
                     skip := ((splitNE skips ",").filter (· != "-")).map hxu
                     fc := (fun c => match table.find? (·.1 == c) with | some (_, o) => o | none => none)
                     clock := (fun _ => 4000000000) }
  let fs : FS := fun q => (ents.find? (·.1 == q)).map (·.2)
  let dom := ents.map (·.1)
  let acts := walk cfg fs dom
  -- `exec` of the model, one `act` at a time; after each step the tree is tabulated over the finite
  -- universe of paths in play (the model's trees are functions: nested closures would be re-evaluated)
  let univ := dom ++ dom.map Path.outOf
  let ofTab : List (Path × Option File) → FS := fun tab q =>
    match tab.find? (·.1 == q) with | some (_, v) => v | none => none
  let tabOf : FS → List (Path × Option File) := fun g => univ.map fun p => (p, g p)
  let tab2 := (if sched == "r" then acts.reverse else acts).foldl (fun tab a => tabOf (act cfg (ofTab tab) a)) (tabOf fs)
  let fs2 := ofTab tab2
  let showF : Option File → String
    | none => "-"
    | some f => s!"_{toHex f.content}@{f.mtime}"
  " ".intercalate ((dom.map fun p => showF (fs2 p)) ++ (dom.map fun p => showF (fs2 p.outOf)))

end GnDrv

def handle (line : String) : String :=
  match line.trimAscii.toString.splitOn " " with
  | ["L", input] => doLex (hx input)
  | ["L"] => doLex []
  | ["C", input] => doCompile (hx input)
  | ["C"] => doCompile []
  | "H" :: rest => doHelper rest
  | ["P", ops] => PxDrv.doProxy ops
  | ["Q", input] => let q := quoteBody (hx input); s!"_{toHex q} {if litDecode q == some (hx input) then "ok" else "differs"}"
  | ["Q"] => "_ ok"
  | ["G", flags, skips, files, fcs, sched] => GnDrv.doGenerate flags skips files fcs sched
  | "R" :: file :: name :: rest => showRender (renderTop (hx file) (hx name) (parseEnv rest))
  | _ => "BAD"


/-- the last parsed file is kept, so that many renders of one file parse it once -/
partial def loop (h : IO.FS.Stream) (out : IO.FS.Stream) (cacheKey : String) (cache : Option (List Tmpl)) : IO Unit := do
  let line ← h.getLine
  if line.isEmpty then return ()
  match line.trimAscii.toString.splitOn " " with
  | "R" :: file :: name :: rest =>
    let (key, prog) := if file == cacheKey then (cacheKey, cache) else (file, progOf (hx file))
    out.putStrLn (showRender (renderProg prog (hx name) (parseEnv rest)))
    out.flush
    loop h out key prog
  | _ =>
    out.putStrLn (handle line)
    out.flush
    loop h out cacheKey cache

def main : IO Unit := do loop (← IO.getStdin) (← IO.getStdout) "" none
