import GohtVerif.Model.Exec
import GohtVerif.Proofs.C06
import GohtVerif.Proofs.C07
import GohtVerif.Proofs.C10
import GohtVerif.Proofs.C16
import GohtVerif.Proofs.C19
