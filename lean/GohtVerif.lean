import GohtVerif.Model.Render
