import GohtVerif.Model.Render
import GohtVerif.Proofs.C06
