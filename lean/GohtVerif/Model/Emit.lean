import GohtVerif.Model.Parser
import GohtVerif.Model.GoLit
/-! Prototype model of goht's emitter (template.go + nodes.go Source methods). -/
namespace GL

structure Pos where
  line : Int
  col : Int
deriving Repr

structure Range where
  frm : Pos
  to : Pos
deriving Repr

/-- the part of templateWriter shared through pointers -/
structure G where
  out : List GoStr := []         -- chunks, newest first
  num : Nat := 0
  pos : Pos := { line := 1, col := 1 }
  log : List (Tok × Range) := [] -- Add calls, newest first
deriving Repr

/-- the part copied by `Indent` -/
structure W where
  indent : Nat := 0
  inStatic : Bool := false
  inErrHandler : Bool := false
  isUnescaped : Bool := false
deriving Repr

def lastIndexNl (s : GoStr) : Option Nat :=
  let rec go (i : Nat) (best : Option Nat) : GoStr → Option Nat
    | [] => best
    | b :: rest => go (i+1) (if b == 10 then some i else best) rest
  go 0 none s

def G.write (g : G) (s : GoStr) : G × Range :=
  let frm := g.pos
  let nl := countNl s
  let pos : Pos :=
    match lastIndexNl s with
    | some i => { line := g.pos.line + nl, col := 1 + (utf16Len (s.drop (i+1)) : Nat) }
    | none => { line := g.pos.line, col := g.pos.col + (utf16Len s : Nat) }
  ({ g with out := s :: g.out, pos := pos }, { frm := frm, to := pos })

def G.add (g : G) (t : Tok) (r : Range) : G := { g with log := (t, r) :: g.log }

def tabs (n : Nat) : GoStr := List.replicate n 9

def addErrHandler (w : W) : W × GoStr :=
  if w.inErrHandler then ({ w with inErrHandler := false }, bs "; __err != nil { return }\n")
  else (w, tabs w.indent ++ bs "if __err != nil { return }\n")

def closeStringLiteral (g : G) (w : W) : G × W × Range :=
  let nl := if w.inErrHandler then [] else bs "\n"
  let (w, h) := addErrHandler w
  let s := bs "\")" ++ nl ++ h
  let w := { w with inStatic := false }
  let (g, r) := g.write s
  (g, w, r)

def closeIfStatic (g : G) (w : W) : G × W :=
  if w.inStatic then let (g, w, _) := closeStringLiteral g w; (g, w) else (g, w)

def twWrite (g : G) (w : W) (s : GoStr) : G × W × Range :=
  let (g, w) := closeIfStatic g w
  let (g, r) := g.write s
  (g, w, r)

def twWriteIndent (g : G) (w : W) (s : GoStr) : G × W × Range :=
  let (g, w) := closeIfStatic g w
  let (g, _) := g.write (tabs w.indent)
  let (g, r) := g.write s
  (g, w, r)

def twWriteStringLiteral (g : G) (w : W) (s : GoStr) : G × W :=
  let (g, w) :=
    if !w.inStatic then
      let (g, _) := g.write (tabs w.indent)
      let (g, _) := g.write (bs "if _, __err = __buf.WriteString(\"")
      (g, { w with inStatic := true, inErrHandler := true })
    else (g, w)
  ((g.write s).1, w)

def twWriteStringIndent (g : G) (w : W) (s : GoStr) : G × W × Range :=
  let (g, w) := closeIfStatic g w
  let (g, _) := g.write (tabs w.indent)
  let (g, _) := g.write (bs "if _, __err = __buf.WriteString(")
  let (g, r) := g.write s
  let (g, _) := g.write (bs "); __err != nil { return }\n")
  (g, w, r)

def twWriteErrorHandler (g : G) (w : W) : G × W :=
  if w.inStatic then let (g, w, _) := closeStringLiteral g w; (g, w)
  else
    let (w, h) := addErrHandler w
    ((g.write h).1, w)

def twClose (g : G) (w : W) : G × W := closeIfStatic g w

def natToStr (n : Nat) : GoStr := bs (toString n)

def getVarName (g : G) : G × GoStr :=
  let g := { g with num := g.num + 1 }
  (g, bs "__var" ++ natToStr g.num)

def trimSpaceStr (s : GoStr) : GoStr := trimSpace s

/-- `reFmtText = \A(%[^ ]+?) (.+)\z` : returns (verb, rest) -/
def fmtSplit (lit : GoStr) : Option (GoStr × GoStr) :=
  match lit with
  | 37 :: rest =>
    let verbTail := rest.takeWhile (· != 32)
    let after := rest.dropWhile (· != 32)
    match after with
    | 32 :: value =>
      if verbTail.isEmpty || value.isEmpty || value.contains 10 then none
      else some (37 :: verbTail, value)
    | _ => none
  | _ => none

def writeFormattedText (g : G) (w : W) (t : Tok) : G × W :=
  match fmtSplit t.lit with
  | some (verb, value) =>
    let (g, w, _) := twWrite g w (bs "goht.FormatString(\"")
    let (g, w, r) := twWrite g w verb
    let g := g.add { typ := .dynamicText, line := t.line, col := t.col, lit := verb } r
    let (g, w, _) := twWrite g w (bs "\", ")
    let (g, w, r) := twWrite g w value
    let g := g.add { typ := .dynamicText, line := t.line, col := t.col + t.lit.length - value.length, lit := value } r
    let (g, w, _) := twWrite g w (bs ")")
    (g, w)
  | none =>
    let (g, w, r) := twWrite g w t.lit
    (g.add t r, w)

def repeatStr (s : GoStr) : Nat → GoStr
  | 0 => []
  | n+1 => s ++ repeatStr s n


def nukeAfter : GoStr := bs "~☢<"
def nukeBefore : GoStr := bs ">☢~"

def joinWith (sep : GoStr) : List GoStr → GoStr
  | [] => []
  | [a] => a
  | a :: rest => a ++ sep ++ joinWith sep rest

/-- `startsWithStatement`: the code begins with the keyword(s) `s` as whole words -/
def startsStmt (code s : GoStr) : Bool :=
  hasPrefix code s &&
    (match code.drop s.length with
     | [] => true
     | c :: _ => !(c == 95 || c ≥ 128 || (48 ≤ c && c ≤ 57) || (97 ≤ c && c ≤ 122) || (65 ≤ c && c ≤ 90)))

/-- a `- statement` opens a block when it has nested nodes, or is a control-flow line (with or without its brace) -/
def silentHasBlock (o : Tok) (kids : List Node) : Bool :=
  let code := trimSpace o.lit
  !kids.isEmpty || (Gen.openingStatements.any fun s => startsStmt code s)

def isSilent : Node → Option GoStr
  | .silent o _ _ => some o.lit
  | _ => none

/-- renderClass: returns updated element (classes/attrs are mutated by the Go code) -/
def renderClass (g : G) (w : W) (e : Elem) : Except String (G × W × Elem) :=
  let e := match e.objectRef with
    | some o => { e with classes := e.classes ++ [o] }
    | none => e
  let e := match e.attrs.find? (·.1 == bs "class") with
    | some (_, a) => { e with classes := e.classes ++ [a.origin], attrs := e.attrs.filter (·.1 != bs "class") }
    | none => e
  if e.classes.isEmpty then .ok (g, w, e) else
  let allQuoted := e.classes.all fun c => c.typ != .objectRef && c.typ != .attrDynamicValue
  if allQuoted then
    let names := e.classes.map fun c =>
      match c.typ with
      | .cls => c.lit
      | .attrEscapedValue => unquote c.lit      -- (error case not modelled in the prototype)
      | _ => []
    let (g, w) := twWriteStringLiteral g w (bs " class=\\\"" ++ quoteBody (htmlEscape (joinWith (bs " ") names)) ++ bs "\\\"")
    .ok (g, w, e)
  else
    let (g, v) := getVarName g
    let (g, w, _) := twWriteIndent g w (bs "var " ++ v ++ bs " string\n")
    let (g, w, _) := twWriteIndent g w (v ++ bs ", __err = goht.BuildClassList(")
    let n := e.classes.length
    let rec go (i : Nat) (cs : List Tok) (g : G) (w : W) : G × W :=
      match cs with
      | [] => (g, w)
      | c :: rest =>
        let (g, w) :=
          match c.typ with
          | .objectRef => let (g, w, _) := twWrite g w (bs "goht.ObjectClass(" ++ c.lit ++ bs ")"); (g, w)
          | .attrDynamicValue => let (g, w, r) := twWrite g w c.lit; (g.add c r, w)
          | .cls => let (g, w, _) := twWrite g w (bs "\"" ++ quoteBody c.lit ++ bs "\""); (g, w)
          | _ => let (g, w, _) := twWrite g w (bs "\"" ++ quoteBody (unquote c.lit) ++ bs "\""); (g, w)   -- decoded and re-quoted (error case not modelled)
        let (g, w) := if i < n - 1 then let (g, w, _) := twWrite g w (bs ", "); (g, w) else (g, w)
        go (i+1) rest g w
    let (g, w) := go 0 e.classes g w
    let (g, w, _) := twWrite g w (bs ")\n")
    let (g, w) := twWriteErrorHandler g w
    let (g, w, _) := twWriteStringIndent g w (bs "\" class=\\\"\"+" ++ v ++ bs "+\"\\\"\"")
    .ok (g, w, e)

def renderAttributes (g : G) (w : W) (e : Elem) : Except String (G × W × Elem) := do
  let (g, w) :=
    match e.objectRef with
    | some o =>
      let (g, v) := getVarName g
      let (g, w, _) := twWriteIndent g w (bs "if " ++ v ++ bs " := goht.ObjectID(")
      let (g, w, r) := twWrite g w o.lit
      let g := g.add o r
      let (g, w, _) := twWrite g w (bs "); " ++ v ++ bs " != \"\" {\n")
      let (g, w, _) := twWriteIndent g w (bs "\tif _, __err = __buf.WriteString(\" id=\\\"\"+" ++ v ++ bs "+\"\\\"\"); __err != nil { return }\n")
      let (g, w, _) := twWriteIndent g w (bs "}\n")
      (g, w)
    | none => (g, w)
  let (g, w) :=
    if !e.id.isEmpty then twWriteStringLiteral g w (bs " id=\\\"" ++ quoteBody (htmlEscape e.id) ++ bs "\\\"") else (g, w)
  let (g, w, e) ← renderClass g w e
  let rec go (as : List (GoStr × Attr)) (g : G) (w : W) : G × W :=
    match as with
    | [] => (g, w)
    | (_, a) :: rest =>
      if a.value.isEmpty then
        let (g, w) := twWriteStringLiteral g w (bs " " ++ quoteBody a.name)
        go rest g w
      else if a.isBoolean then
        let (g, w, _) := twWriteIndent g w (bs "if ")
        let (g, w, r) := twWrite g w a.value
        let g := g.add a.origin r
        let (g, w, _) := twWrite g w (bs " {\n")
        let iw := { w with indent := w.indent + 1 }
        let (g, iw) := twWriteStringLiteral g iw (bs " " ++ quoteBody a.name)
        let (g, _) := twClose g iw
        let (g, w, _) := twWriteIndent g w (bs "}\n")
        go rest g w
      else
        let (g, w) := twWriteStringLiteral g w (bs " " ++ quoteBody a.name ++ bs "=\\\"")
        if a.isDynamic then
          let (g, w, _) := twWriteIndent g w (bs "if _, __err = __buf.WriteString(goht.EscapeString(")
          let (g, w) := writeFormattedText g w a.origin
          let (g, w, _) := twWrite g w (bs ")+\"\\\"\"); __err != nil { return }\n")
          go rest g w
        else
          let (g, w) := twWriteStringLiteral g w (quoteBody (htmlEscape a.value) ++ bs "\\\"")
          go rest g w
  let (g, w) := go e.attrs g w
  let (g, w) :=
    if !e.attributesCmd.isEmpty then
      let (g, v) := getVarName g
      let (g, w, _) := twWriteIndent g w (bs "var " ++ v ++ bs " string\n")
      let (g, w, _) := twWriteIndent g w (v ++ bs ", __err = goht.BuildAttributeList(" ++ e.attributesCmd ++ bs ")\n")
      let (g, w) := twWriteErrorHandler g w
      let (g, w, _) := twWriteStringIndent g w v
      (g, w)
    else (g, w)
  return (g, w, e)

def dynamicValue (g : G) (w : W) (t : Tok) : G × W :=
  let (g, v) := getVarName g
  let (g, w, _) := twWriteIndent g w (bs "var " ++ v ++ bs " string\n")
  let (g, w, _) := twWriteIndent g w (bs "if " ++ v ++ bs ", __err = goht.CaptureErrors(")
  let (g, w) := if !w.isUnescaped then let (g, w, _) := twWrite g w (bs "goht.EscapeString("); (g, w) else (g, w)
  let (g, w) := writeFormattedText g w t
  let (g, w) := if !w.isUnescaped then let (g, w, _) := twWrite g w (bs ")"); (g, w) else (g, w)
  let (g, w, _) := twWrite g w (bs "); __err != nil { return }\n")
  let (g, w, _) := twWriteStringIndent g w v
  (g, w)

def gohtEntry : GoStr := bs " goht.Template {\n\treturn goht.TemplateFunc(func(ctx context.Context, __w io.Writer) (__err error) {\n\t\t__buf, __isBuf := __w.(goht.Buffer)\n\t\tif !__isBuf {\n\t\t\t__buf = goht.GetBuffer()\n\t\t\tdefer goht.ReleaseBuffer(__buf)\n\t\t}\n\t\tvar __children goht.Template\n\t\tctx, __children = goht.PopChildren(ctx)\n\t\t_ = __children\n"
def gohtExit : GoStr := bs "\t\tif !__isBuf {\n\t\t\t_, __err = __w.Write(__buf.Bytes())\n\t\t}\n\t\treturn\n\t})\n}"

def emitUserImports : List Tok → G → W → G × W
  | [], g, iw => (g, iw)
  | t :: rest, g, iw =>
    let (g, iw, r) := twWriteIndent g iw t.lit
    let g := g.add t r
    let (g, iw, _) := twWrite g iw (bs "\n")
    emitUserImports rest g iw

def emitCodeToks : List Tok → G → W → G × W
  | [], g, w => (g, w)
  | t :: rest, g, w =>
    let (g, w, r) := twWrite g w t.lit
    let g := if t.typ != .newLine then g.add t r else g
    emitCodeToks rest g w

mutual
/-- `needsClose` is passed down from the previous sibling (the Go code sets it on the next sibling). -/
def emitNode (n : Node) (needsClose : Bool) (nextSib : Option Node) (g : G) (w : W) : Except String (G × W) :=
  match n with
  | .root pkg ui kids => do
    let (g, w, _) := twWrite g w (bs "// Code generated by GoHT - DO NOT EDIT.\n// https://github.com/stackus/goht\n\n")
    let (g, w, _) := twWrite g w (bs "package ")
    let (g, w, r) := twWrite g w pkg.lit
    let g := if pkg.line > 0 then g.add pkg r else g
    let (g, w, _) := twWrite g w (bs "\n\n")
    let (g, w, _) := twWrite g w (bs "import \"context\"\n")
    let (g, w, _) := twWrite g w (bs "import \"io\"\n")
    let (g, w, _) := twWrite g w (bs "import \"github.com/stackus/goht\"\n")
    let (g, w) ←
      if !ui.isEmpty then do
        let (g, w, _) := twWrite g w (bs "import (\n")
        let iw := { w with indent := w.indent + 1 }
        let (g, _) := emitUserImports ui g iw
        let (g, w, _) := twWrite g w (bs ")\n")
        pure (g, w)
      else pure (g, w)
    emitKids kids false g w
  | .code toks => .ok (emitCodeToks toks g w)
  | .goht o kids => do
    let g := { g with num := 0 }
    let (g, w, _) := twWrite g w (bs "func ")
    let (g, w, r) := twWrite g w o.lit
    let g := g.add o r
    let (g, w, _) := twWrite g w gohtEntry
    let iw := { w with indent := w.indent + 2 }
    let (g, iw) ← emitKids kids false g iw
    let (g, _) := twClose g iw
    let (g, w, _) := twWrite g w gohtExit
    pure (g, w)
  | .doctype _ => .ok (twWriteStringLiteral g w (bs "<!DOCTYPE html>"))
  | .element e kids => do
    let (g, w) := if e.nukeOuter then twWriteStringLiteral g w nukeBefore else (g, w)
    let (g, w) := twWriteStringLiteral g w (bs "<" ++ quoteBody e.tag)
    let (g, w, _) ← renderAttributes g w e
    let (g, w) := twWriteStringLiteral g w (bs ">")
    if e.isSelfClosing then pure (g, w) else
    let (g, w) := if e.nukeInner then twWriteStringLiteral g w nukeAfter else (g, w)
    let onlyNl := match kids with | [.newLine _] => true | _ => false
    let (g, w) ← if !onlyNl then emitKids kids false g w else pure (g, w)
    let (g, w) := if e.nukeInner then twWriteStringLiteral g w nukeBefore else (g, w)
    let (g, w) := twWriteStringLiteral g w (bs "</" ++ quoteBody e.tag ++ bs ">")
    let (g, w) := if e.nukeOuter then twWriteStringLiteral g w nukeAfter else twWriteStringLiteral g w (bs "\\n")
    pure (g, w)
  | .newLine _ => .ok (twWriteStringLiteral g w (bs "\\n"))
  | .comment o _ kids => do
    if !o.lit.isEmpty then
      pure (twWriteStringLiteral g w (bs "<!--" ++ quoteBody (htmlEscape o.lit) ++ bs "-->\\n"))
    else
      let (g, w) := twWriteStringLiteral g w (bs "<!--")
      let (g, w) ← emitKids kids false g w
      pure (twWriteStringLiteral g w (bs "-->\\n"))
  | .text t =>
    if t.typ == .dynamicText then .ok (dynamicValue g w t) else
    -- the line break that ends a :preserve line becomes an entity (decided on the text, not on its quoted form)
    let s :=
      if t.typ == .preserveText && hasSuffix t.lit [10] then quoteBody (t.lit.take (t.lit.length - 1)) ++ bs "&#x000A;"
      else quoteBody t.lit
    if t.typ == .plainText || t.typ == .preserveText || w.isUnescaped then .ok (twWriteStringLiteral g w s)
    else .ok (twWriteStringLiteral g w (quoteBody (htmlEscape t.lit)))
  | .unescape _ _ kids => do
    let w := { w with isUnescaped := true }
    let (g, w) ← emitKids kids false g w
    pure (g, { w with isUnescaped := false })
  | .silent o _ kids => do
    let code := trimSpaceStr o.lit
    let isOpening := Gen.openingStatements.any fun s => startsStmt code s
    let start := if needsClose && !hasPrefix code (bs "}") then bs "} " else []
    let hasBlock := silentHasBlock o kids
    let endS := if hasBlock && isOpening && !hasSuffix code (bs "{") then bs " {\n" else bs "\n"
    let (g, w, _) := twWriteIndent g w start
    let (g, w, r) := twWrite g w code
    -- what is registered is what was written: the statement without the white space around it
    let g := g.add { o with lit := code, col := o.col + (utf16Len (o.lit.take (o.lit.length - (trimLeftSpace o.lit).length)) : Nat) } r
    let (g, w, _) := twWrite g w endS
    if !hasBlock then pure (g, w) else
    let iw := { w with indent := w.indent + 1 }
    let (g, iw) ← emitKids kids false g iw
    let (g, _) := twClose g iw
    let nextCode := nextSib.bind isSilent
    let continued := match nextCode with
      | some c => Gen.elseStatements.any fun s => startsStmt (trimSpaceStr c) s      -- the else branch closes this block itself
      | none => false
    if !continued && isOpening && !(nextCode.isSome && hasSuffix code (bs "{")) then
      let (g, w, _) := twWriteIndent g w (bs "}\n")
      pure (g, w)
    else pure (g, w)
  | .script t => .ok (dynamicValue g w t)
  | .render o _ kids => do
    if kids.isEmpty then
      let (g, w, _) := twWriteIndent g w (bs "if __err = ")
      let (g, w, r) := twWrite g w o.lit
      let g := g.add o r
      let (g, w, _) := twWrite g w (bs ".Render(ctx, __buf); __err != nil { return }\n")
      pure (g, w)
    else
      let (g, v) := getVarName g
      let (g, w, _) := twWriteIndent g w (v ++ bs " := goht.TemplateFunc(func(ctx context.Context, __w io.Writer) (__err error) {\n")
      let iw := { w with indent := w.indent + 1 }
      let lines := ["__buf, __isBuf := __w.(goht.Buffer)\n", "if !__isBuf {\n", "\t__buf = goht.GetBuffer()\n",
                    "\tdefer goht.ReleaseBuffer(__buf)\n", "}\n"]
      let (g, iw) := lines.foldl (fun (gw : G × W) l => let (g, w, _) := twWriteIndent gw.1 gw.2 (bs l); (g, w)) (g, iw)
      let (g, iw) ← emitKids kids false g iw
      let (g, _) := twClose g iw
      let lines2 := ["\tif !__isBuf {\n", "\t\t_, __err = io.Copy(__w, __buf)\n", "\t}\n", "\treturn\n", "})\n"]
      let (g, w) := lines2.foldl (fun (gw : G × W) l => let (g, w, _) := twWriteIndent gw.1 gw.2 (bs l); (g, w)) (g, w)
      let (g, w, _) := twWriteIndent g w (bs "if __err = ")
      let (g, w, r) := twWrite g w o.lit
      let g := g.add o r
      let (g, w, _) := twWrite g w (bs ".Render(goht.PushChildren(ctx, " ++ v ++ bs "), __buf); __err != nil { return }\n")
      pure (g, w)
  | .children _ =>
    let (g, w, _) := twWriteIndent g w (bs "if __err = __children.Render(ctx, __buf); __err != nil { return }\n")
    .ok (g, w)
  | .filter o _ kind kids => do
    match kind with
    | .js =>
      let (g, w) := twWriteStringLiteral g w (bs "<script>\\n")
      let (g, w) ← emitKids kids false g w
      pure (twWriteStringLiteral g w (bs "</script>"))
    | .css =>
      let (g, w) := twWriteStringLiteral g w (bs "<style>\\n")
      let (g, w) ← emitKids kids false g w
      pure (twWriteStringLiteral g w (bs "</style>"))
    | .text =>
      let un := o.lit == bs "plain" || o.lit == bs "preserve"
      let w := if un then { w with isUnescaped := true } else w
      let (g, w) ← emitKids kids false g w
      let (g, w) := if o.lit == bs "preserve" then twWriteStringLiteral g w (bs "\\n") else (g, w)
      pure (g, if un then { w with isUnescaped := false } else w)

def emitKids (kids : List Node) (needsClose : Bool) (g : G) (w : W) : Except String (G × W) :=
  match kids with
  | [] => .ok (g, w)
  | k :: rest => do
    let (g, w) ← emitNode k needsClose rest.head? g w
    -- does `k` set needsClose on its next sibling?
    let nc :=
      match k, rest.head?.bind isSilent with
      | .silent o _ ks, some code => silentHasBlock o ks && Gen.elseStatements.any (fun s => startsStmt (trimSpaceStr code) s)
      | _, _ => false
    emitKids rest nc g w
end

def G.text (g : G) : GoStr := g.out.reverse.flatten

end GL
