import GohtVerif.Model.Compile
import GohtVerif.Model.Runtime
/-! What the generated Go does at run time, as a function on the parsed tree.

Go fragments are opaque: their meaning is an environment (a table keyed by fragment text) over
which every theorem is universally quantified — "for every interpretation of the user's Go".
Output is accumulated as a list of chunks (newest first). -/
namespace GL

/-- why a render failed: the site whose evaluation returned an error -/
inductive Fail where
  | expr (frag : GoStr)          -- a dynamic expression returned an error
  | helper (frag : GoStr)        -- BuildClassList / BuildAttributeList got an unsupported value
  | model (what : String)        -- the model cannot interpret the program (not a render failure)
deriving Repr

structure Env where
  strs : List (GoStr × GoStr) := []                     -- fragment → string value (key `%v frag` for a format verb)
  errs : List GoStr := []                               -- fragments whose evaluation returns an error
  bools : List (GoStr × Bool) := []
  loops : List (GoStr × (GoStr × List GoStr)) := []     -- loop header → (variable, values)
  classes : List (GoStr × List Val) := []               -- `class:#{…}` fragment → BuildClassList arguments
  attrs : List (GoStr × List Val) := []                 -- `@attributes:#{…}` fragment → BuildAttributeList arguments
  objs : List (GoStr × (Obj × Option GoStr)) := []      -- `[…]` fragment → object and optional prefix

def Env.str (e : Env) (k : GoStr) : Option GoStr := (e.strs.find? (·.1 == k)).map (·.2)
def Env.bool (e : Env) (k : GoStr) : Option Bool := (e.bools.find? (·.1 == k)).map (·.2)

/-- a children block: nodes + the environment and `__children` of the template that wrote them -/
inductive Clo where
  | mk (kids : List Node) (env : Env) (own : Option Clo)

def isWS (b : UInt8) : Bool := b == 32 || b == 9 || b == 10 || b == 12 || b == 13

/-- `nukeWhitespaceRe.ReplaceAll(b, nil)` — the leftmost-first meaning of
`NukeAfter\s*|\s*NukeBefore` as a scanner (validated against Go's regexp by the O-std tie). -/
def eraseAux : Nat → GoStr → GoStr → GoStr
  | 0, _, acc => acc.reverse
  | fuel+1, s, acc =>
    match s with
    | [] => acc.reverse
    | b :: rest =>
      if Gen.NukeAfter.isPrefixOf s then eraseAux fuel ((s.drop Gen.NukeAfter.length).dropWhile isWS) acc
      else
        let afterWs := s.dropWhile isWS
        if Gen.NukeBefore.isPrefixOf afterWs then eraseAux fuel (afterWs.drop Gen.NukeBefore.length) acc
        else eraseAux fuel rest (b :: acc)

def erase (s : GoStr) : GoStr := eraseAux (s.length + 1) s []

structure Tmpl where
  name : GoStr
  kids : List Node

/-- `Name(params)` / `(r T) Name(params)` → the function name -/
def declName (decl : GoStr) : GoStr :=
  let d := if hasPrefix decl [40] then ((decl.dropWhile (· != 41)).drop 1).dropWhile (· == 32) else decl
  d.takeWhile (· != 40)

def templatesOf : Node → List Tmpl
  | .root _ _ kids => kids.filterMap fun k =>
      match k with
      | .goht o ks => some { name := declName o.lit, kids := ks }
      | _ => none
  | _ => []

inductive SKind where | sIf | sElseIf | sElse | sFor | sSwitch | sStmt
deriving DecidableEq

def silentKind (code : GoStr) : SKind :=
  if hasPrefix code [101, 108, 115, 101, 32, 105, 102, 32] then .sElseIf      -- "else if "
  else if code == [101, 108, 115, 101] then .sElse                          -- "else"
  else if hasPrefix code [105, 102, 32] then .sIf                           -- "if "
  else if hasPrefix code [102, 111, 114, 32] then .sFor                     -- "for "
  else if hasPrefix code [115, 119, 105, 116, 99, 104, 32] then .sSwitch    -- "switch "
  else .sStmt

/-- the items of `a, b, c` -/
def splitCommaSp : GoStr → List GoStr
  | [] => [[]]
  | 44 :: 32 :: rest => [] :: splitCommaSp rest
  | b :: rest =>
    match splitCommaSp rest with
    | x :: xs => (b :: x) :: xs
    | [] => [[b]]

/-- `case a, b:` → the listed literals; any other line → none -/
def caseVals (code : GoStr) : Option (List GoStr) :=
  if hasPrefix code [99, 97, 115, 101, 32] && hasSuffix code [58] then
    some (splitCommaSp ((code.drop 5).take (code.length - 6)))
  else none

def clauseOf (v : GoStr) : Node → Option (List Node)
  | .silent o _ ks =>
    match caseVals (trimSpace o.lit) with
    | some vs => if vs.contains v then some ks else none
    | none => none
  | _ => none

def defaultOf : Node → Option (List Node)
  | .silent o _ ks => if trimSpace o.lit == [100, 101, 102, 97, 117, 108, 116, 58] then some ks else none   -- "default:"
  | _ => none

/-- the clause of a `switch` body that runs for tag value `v`: the first `case` listing it, else `default:` -/
def selectClause (v : GoStr) (body : List Node) : Option (List Node) :=
  match body.findSome? (clauseOf v) with
  | some ks => some ks
  | none => body.findSome? defaultOf

def isElseNode : Node → Bool
  | .silent o _ _ => let k := silentKind (trimSpace o.lit); k == .sElseIf || k == .sElse
  | _ => false

/-- first branch of an if / else-if / else chain whose condition holds -/
def firstFiring (env : Env) : List (GoStr × List Node) → Except Fail (Option (List Node))
  | [] => .ok none
  | (code, body) :: rest =>
    match silentKind code with
    | .sElse => .ok (some body)
    | k =>
      let condFrag := if k == .sIf then code.drop 3 else code.drop 8
      match env.bool (trimSpace condFrag) with
      | none => .error (.model "condition not in the environment")
      | some true => .ok (some body)
      | some false => firstFiring env rest

structure Ctx where
  prog : List Tmpl
  env : Env
  own : Option Clo          -- the `__children` of the template being executed
  unesc : Bool := false

abbrev Buf := List GoStr    -- chunks, newest first

/-- value of a dynamic text / script / attribute token (with or without a format verb) -/
def dynValue (env : Env) (lit : GoStr) : Except Fail GoStr :=
  if env.errs.contains lit then .error (.expr lit) else
  match env.str lit with
  | some v => .ok v
  | none => .error (.model "string fragment not in the environment")

def classValue (env : Env) (e : Elem) : Except Fail (Option GoStr) :=
  -- mirrors renderClass: object reference, then `.class` tokens … in token order, then the class attribute
  let classToks := (match e.objectRef with | some o => e.classes ++ [o] | none => e.classes) ++
    (match e.attrs.find? (·.1 == [99, 108, 97, 115, 115]) with | some (_, a) => [a.origin] | none => [])
  if classToks.isEmpty then .ok none else
  let allQuoted := classToks.all fun c => c.typ != .objectRef && c.typ != .attrDynamicValue
  if allQuoted then
    let names := classToks.map fun c =>
      match c.typ with
      | .cls => c.lit
      | .attrEscapedValue => unquote c.lit
      | _ => []
    .ok (some (htmlEscape (joinWithSep [32] names)))
  else do
    let args ← classToks.foldlM (fun (acc : List Val) c =>
      match c.typ with
      | .objectRef =>
        match env.objs.find? (·.1 == c.lit) with
        | some (_, (o, pfx)) => pure (acc ++ [Val.str (objectClass o pfx)])
        | none => .error (.model "object fragment not in the environment")
      | .attrDynamicValue =>
        match env.classes.find? (·.1 == c.lit) with
        | some (_, vs) => pure (acc ++ vs)
        | none => .error (.model "class fragment not in the environment")
      | .cls => pure (acc ++ [Val.str c.lit])
      | _ => pure (acc ++ [Val.str (unquote c.lit)])) []
    match buildClassList args with
    | some s => pure (some s)
    | none => .error (.helper [99, 108, 97, 115, 115])

mutual
def execNode (fuel : Nat) (c : Ctx) (n : Node) (buf : Buf) : Except Fail Buf :=
  match fuel with
  | 0 => .error (.model "fuel")
  | fuel+1 =>
  match n with
  | .doctype _ => .ok (bs "<!DOCTYPE html>" :: buf)
  | .newLine _ => .ok ([10] :: buf)
  | .text t =>
    if t.typ == .dynamicText then do
      let v ← dynValue c.env t.lit
      pure ((if c.unesc then v else htmlEscape v) :: buf)
    else
      let s := t.lit
      let s := if t.typ == .preserveText then
          (if hasSuffix s [10] then s.take (s.length - 1) ++ bs "&#x000A;" else s) else s
      if t.typ == .plainText || t.typ == .preserveText || c.unesc then .ok (s :: buf)
      else .ok (htmlEscape s :: buf)
  | .script t => do
    let v ← dynValue c.env t.lit
    pure ((if c.unesc then v else htmlEscape v) :: buf)
  | .unescape _ _ kids => execKids fuel { c with unesc := true } kids buf
  | .comment o _ kids =>
    if !o.lit.isEmpty then .ok ((bs "<!--" ++ htmlEscape o.lit ++ bs "-->\n") :: buf)
    else do
      let buf ← execKids fuel c kids (bs "<!--" :: buf)
      pure (bs "-->\n" :: buf)
  | .element e kids => do
    let buf := if e.nukeOuter then Gen.NukeBefore :: buf else buf
    let buf := ([60] ++ e.tag) :: buf
    -- object reference id
    let buf ← match e.objectRef with
      | none => pure buf
      | some o =>
        match c.env.objs.find? (·.1 == o.lit) with
        | some (_, (ob, pfx)) =>
          let v := objectID ob pfx
          pure (if v.isEmpty then buf else (bs " id=\"" ++ v ++ [34]) :: buf)
        | none => .error (.model "object fragment not in the environment")
    let buf := if !e.id.isEmpty then (bs " id=\"" ++ htmlEscape e.id ++ [34]) :: buf else buf
    let buf ← do
      match ← classValue c.env e with
      | none => pure buf
      | some v => pure ((bs " class=\"" ++ v ++ [34]) :: buf)
    let attrs := e.attrs.filter (·.1 != [99, 108, 97, 115, 115])
    let buf ← attrs.foldlM (fun (buf : Buf) (kv : GoStr × Attr) =>
      let a := kv.2
      if a.value.isEmpty then pure (([32] ++ a.name) :: buf)
      else if a.isBoolean then
        match c.env.bool (trimSpace a.value) with
        | some true => pure (([32] ++ a.name) :: buf)
        | some false => pure buf
        | none => .error (.model "attribute condition not in the environment")
      else if a.isDynamic then do
        let v ← dynValue c.env a.value
        pure (([32] ++ a.name ++ [61, 34] ++ htmlEscape v ++ [34]) :: buf)
      else pure (([32] ++ a.name ++ [61, 34] ++ htmlEscape a.value ++ [34]) :: buf)) buf
    let buf ←
      if e.attributesCmd.isEmpty then pure buf
      else match c.env.attrs.find? (·.1 == e.attributesCmd) with
        | none => .error (.model "attributes fragment not in the environment")
        | some (_, vs) =>
          match buildAttributeList vs with
          | some s => pure (s :: buf)      -- written without a leading blank (finding C01/attributes-separator)
          | none => .error (.helper e.attributesCmd)
    let buf := [62] :: buf
    if e.isSelfClosing then pure buf else
    let buf := if e.nukeInner then Gen.NukeAfter :: buf else buf
    let onlyNl := match kids with | [.newLine _] => true | _ => false
    let buf ← if onlyNl then pure buf else execKids fuel c kids buf
    let buf := if e.nukeInner then Gen.NukeBefore :: buf else buf
    let buf := ([60, 47] ++ e.tag ++ [62]) :: buf
    pure (if e.nukeOuter then Gen.NukeAfter :: buf else [10] :: buf)
  | .render o _ kids =>
    -- generator files call `Name(s0, s1, …)` with the caller's own parameters: the callee sees the same table
    match c.prog.find? (·.name == declName o.lit) with
    | none => .error (.model "unknown callee")
    | some t =>
      let clo := if kids.isEmpty then none else some (Clo.mk kids c.env c.own)
      execKids fuel { prog := c.prog, env := c.env, own := clo } t.kids buf
  | .children _ =>
    match c.own with
    | none => .ok buf
    | some (Clo.mk kids env own) => execKids fuel { prog := c.prog, env := env, own := own } kids buf
  | .filter o _ kind kids =>
    match kind with
    | .js => do let buf ← execKids fuel c kids (bs "<script>\n" :: buf); pure (bs "</script>" :: buf)
    | .css => do let buf ← execKids fuel c kids (bs "<style>\n" :: buf); pure (bs "</style>" :: buf)
    | .text => do
      let un := o.lit == bs "plain" || o.lit == bs "preserve"
      -- the Go code sets isUnescaped for plain/preserve and *clears* it afterwards for every text filter
      let buf ← execKids fuel { c with unesc := c.unesc || un } kids buf
      pure (if o.lit == bs "preserve" then [10] :: buf else buf)
  | .silent _ _ _ => .error (.model "silent handled in execKids")
  | .root .. | .code .. | .goht .. => .error (.model "not a body node")

/-- siblings are executed left to right; `- if / else if / else` chains and `- for` are interpreted here -/
def execKids (fuel : Nat) (c : Ctx) (kids : List Node) (buf : Buf) : Except Fail Buf :=
  match fuel with
  | 0 => .error (.model "fuel")
  | fuel+1 =>
  match kids with
  | [] => .ok buf
  | .silent o _ body :: rest =>
    let code0 := trimSpace o.lit
    -- a header may be written with its brace: `if b0 {`
    let code := if hasSuffix code0 [123] then trimSpace (code0.take (code0.length - 1)) else code0
    match silentKind code with
    | .sIf =>
      let branches := rest.takeWhile isElseNode
      let rest' := rest.dropWhile isElseNode
      let all := (code, body) :: branches.filterMap fun n =>
        match n with
        | .silent o _ b =>
          let c0 := trimSpace o.lit
          some ((if hasSuffix c0 [123] then trimSpace (c0.take (c0.length - 1)) else c0), b)
        | _ => none
      match firstFiring c.env all with
      | .error e => .error e
      | .ok none => execKids fuel c rest' buf
      | .ok (some b) => do
        let buf ← execKids fuel c b buf
        execKids fuel c rest' buf
    | .sFor =>
      match c.env.loops.find? (·.1 == code) with
      | none => .error (.model "loop header not in the environment")
      | some (_, (x, vals)) => do
        let buf ← vals.foldlM (fun buf v =>
          execKids fuel { c with env := { c.env with strs := (x, v) :: c.env.strs } } body buf) buf
        execKids fuel c rest buf
    | .sSwitch =>
      -- `switch tag`: the environment gives the tag's value as text; exactly one clause of the body runs
      match c.env.str code with
      | none => .error (.model "switch tag not in the environment")
      | some v =>
        match selectClause v body with
        | none => execKids fuel c rest buf
        | some ks => do
          let buf ← execKids fuel c ks buf
          execKids fuel c rest buf
    | .sStmt =>
      -- a plain statement (`w1 := …`, `}`): no output of its own; a body is executed once (bare block)
      if body.isEmpty then execKids fuel c rest buf
      else do
        let buf ← execKids fuel c body buf
        execKids fuel c rest buf
    | _ => .error (.model "else without if")
  | k :: rest => do
    let buf ← execNode fuel c k buf
    execKids fuel c rest buf
end

def flattenBuf (b : Buf) : GoStr := b.reverse.flatten

/-- The observable result of `Template.Render(ctx, w)` for a writer `w` that is not goht's own
buffer: the returned error (if any) and the list of `Write` calls `w` received. -/
structure RenderObs where
  err : Option Fail
  writes : List GoStr

/-- the templates of a file (`none`: the file does not parse) -/
def progOf (input : GoStr) : Option (List Tmpl) :=
  let (toks, _) := lexBytes input
  let (err, tree, _) := parseToks toks
  match err with
  | some _ => none
  | none => some (templatesOf tree)

/-- render template `name` of a parsed file (top-level call: fresh context, no children) -/
def renderProg (prog : Option (List Tmpl)) (name : GoStr) (env : Env) : RenderObs :=
  match prog with
  | none => { err := some (.model "parse error"), writes := [] }
  | some prog =>
    match prog.find? (·.name == name) with
    | none => { err := some (.model "no such template"), writes := [] }
    | some t =>
      match execKids 100000 { prog := prog, env := env, own := none } t.kids [] with
      | .ok buf => { err := none, writes := [erase (flattenBuf buf)] }   -- exactly one Write, of the erased buffer
      | .error e => { err := some e, writes := [] }                      -- nothing reaches the destination

def renderTop (input : GoStr) (name : GoStr) (env : Env) : RenderObs := renderProg (progOf input) name env

end GL
