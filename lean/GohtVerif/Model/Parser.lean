import GohtVerif.Model.Lexer
/-! Prototype model of goht's parser (parser.go + nodes.go parse/handleNode). -/
namespace GL

structure Attr where
  name : GoStr
  isBoolean : Bool := false
  isDynamic : Bool := false
  value : GoStr := []
  origin : Tok := { typ := .eof, lit := [], line := 0, col := 0 }
deriving Repr

structure Elem where
  origin : Tok
  indent : Int
  tag : GoStr
  id : GoStr := []
  classes : List Tok := []
  objectRef : Option Tok := none
  attrs : List (GoStr × Attr) := []          -- OrderedMap: insertion order, replace in place
  attributesCmd : GoStr := []
  disallowChildren : Bool := false
  isSelfClosing : Bool := false
  nukeInner : Bool := false
  nukeOuter : Bool := false
  isComplete : Bool := false
deriving Repr

inductive FilterKind where | js | css | text
deriving Repr, DecidableEq

inductive Node where
  | root (pkg : Tok) (userImports : List Tok) (kids : List Node)
  | code (toks : List Tok)
  | goht (origin : Tok) (kids : List Node)
  | doctype (t : Tok)
  | element (e : Elem) (kids : List Node)
  | newLine (t : Tok)
  | comment (origin : Tok) (indent : Int) (kids : List Node)
  | text (t : Tok)
  | unescape (origin : Tok) (indent : Int) (kids : List Node)
  | silent (origin : Tok) (indent : Int) (kids : List Node)
  | script (t : Tok)
  | render (origin : Tok) (indent : Int) (kids : List Node)
  | children (t : Tok)
  | filter (origin : Tok) (indent : Int) (kind : FilterKind) (kids : List Node)
deriving Repr

/-- An open (parsing) node: header + children so far (newest first). -/
inductive Head where
  | root (pkg : Tok) (userImports : List Tok)
  | code (toks : List Tok)            -- newest first
  | goht (origin : Tok)
  | element (e : Elem)
  | comment (origin : Tok) (indent : Int)
  | unescape (origin : Tok) (indent : Int)
  | silent (origin : Tok) (indent : Int) (complete : Bool)    -- `complete`: the newline ending its own line was seen
  | render (origin : Tok) (indent : Int) (complete : Bool)
  | filter (origin : Tok) (indent : Int) (kind : FilterKind)
deriving Repr

structure Frame where
  head : Head
  kids : List Node := []       -- newest first
deriving Repr

def Frame.toNode (f : Frame) : Node :=
  let ks := f.kids.reverse
  match f.head with
  | .root p u => .root p u ks
  | .code ts => .code ts.reverse
  | .goht o => .goht o ks
  | .element e => .element e ks
  | .comment o i => .comment o i ks
  | .unescape o i => .unescape o i ks
  | .silent o i _ => .silent o i ks
  | .render o i _ => .render o i ks
  | .filter o i k => .filter o i k ks

def Head.isRoot : Head → Bool | .root .. => true | _ => false
def Head.isGoht : Head → Bool | .goht .. => true | _ => false
def Head.indent : Head → Int
  | .root .. => 0 | .code .. => 0 | .goht .. => -1
  | .element e => e.indent | .comment _ i => i | .unescape _ i => i | .silent _ i _ => i
  | .render _ i _ => i | .filter _ i _ => i
def Head.origin : Head → Tok
  | .root .. => { typ := .root, lit := [], line := 0, col := 0 }
  | .code ts => (ts.getLast?).getD { typ := .eof, lit := [], line := 0, col := 0 }
  | .goht o => o | .element e => e.origin | .comment o _ => o | .unescape o _ => o
  | .silent o _ _ => o | .render o _ _ => o | .filter o _ _ => o

structure PErr where
  line : Int
  col : Int
  msg : String
deriving Repr

structure P where
  stack : List Frame           -- top first; never empty (root at bottom)
  toks : List Tok              -- head = lookahead
  last : TT := .root           -- type of the last consumed token (p.token)
  pendingErr : Option PErr := none   -- error raised after the node was already mutated
  pulled : Nat := 1            -- tokens pulled from the lexer so far (one lookahead is always pulled)
deriving Repr

def eofTok : Tok := { typ := .eof, lit := [], line := 0, col := 0 }
def P.peek (p : P) : Tok := p.toks.head?.getD eofTok
def P.next (p : P) : P × Tok :=
  let t := p.peek
  ({ p with toks := p.toks.tail, last := t.typ, pulled := p.pulled + 1 }, t)

def P.top (p : P) : Frame := p.stack.head?.getD { head := .root eofTok [] }

def P.setTop (p : P) (f : Frame) : P :=
  match p.stack with
  | _ :: rest => { p with stack := f :: rest }
  | [] => { p with stack := [f] }

def P.addChild (p : P) (n : Node) : P :=
  let f := p.top
  p.setTop { f with kids := n :: f.kids }

def P.push (p : P) (h : Head) : P := { p with stack := { head := h } :: p.stack }

/-- pop the top frame and attach it to its parent -/
def P.pop (p : P) : P :=
  match p.stack with
  | f :: g :: rest => { p with stack := { g with kids := f.toNode :: g.kids } :: rest }
  | _ => p

def errAt (t : Tok) (msg : String) : PErr := { line := t.line, col := t.col, msg := msg }

def backToRoot : Nat → P → P
  | 0, p => p
  | n+1, p => if p.top.head.isRoot then p else backToRoot n p.pop

def backToGoht : Nat → P → Except PErr P
  | 0, p => .ok p
  | n+1, p =>
    if p.top.head.isGoht then .ok p
    else if p.top.head.isRoot then .error { line := 0, col := 0, msg := "unexpected" }  -- plain error, no position
    else backToGoht n p.pop

def backToIndent (indent : Int) : Nat → P → Except PErr P
  | 0, p => .ok p
  | n+1, p =>
    if p.top.head.isRoot then .error { line := 0, col := 0, msg := "unexpected" }
    else if p.top.head.indent ≤ indent then .ok p
    else backToIndent indent n p.pop

def backToParent (p : P) : Except PErr P :=
  if p.top.head.isRoot then .error { line := 0, col := 0, msg := "unexpected" } else .ok p.pop


/-- html.EscapeString -/
def esc1 (b : UInt8) : GoStr :=
  if b == 38 then [38, 97, 109, 112, 59]        -- &amp;
  else if b == 39 then [38, 35, 51, 57, 59]     -- &#39;
  else if b == 60 then [38, 108, 116, 59]       -- &lt;
  else if b == 62 then [38, 103, 116, 59]       -- &gt;
  else if b == 34 then [38, 35, 51, 52, 59]     -- &#34;
  else [b]

def htmlEscape (s : GoStr) : GoStr := s.flatMap esc1

/-- strconv.Unquote, prototype coverage: raw strings and the simple escapes. `none` = error. -/
def unquoteBody : GoStr → Option GoStr
  | [] => some []
  | 92 :: c :: rest =>
    let r := unquoteBody rest
    let e : Option UInt8 :=
      if c == 110 then some 10 else if c == 116 then some 9 else if c == 114 then some 13
      else if c == 92 then some 92 else if c == 34 then some 34
      else if c == 97 then some 7 else if c == 98 then some 8 else if c == 102 then some 12
      else if c == 118 then some 11 else none
    match e, r with
    | some b, some r => some (b :: r)
    | _, _ => none
  | 92 :: [] => none
  | 34 :: _ => none
  | 10 :: _ => none
  | b :: rest => (unquoteBody rest).map (b :: ·)

def unquote (s : GoStr) : GoStr :=
  match s with
  | q :: rest =>
    if rest.isEmpty then [] else
    let body := rest.dropLast
    let lastq := rest.getLast?.getD 0
    if q != lastq then []
    else if q == 96 then (if body.contains 96 then [] else body.filter (· != 13))
    else if q == 34 then (unquoteBody body).getD []
    else []
  | [] => []

/-- `importSpec`: an import up to the closing quote of its path (what follows is a comment), without the
blanks around it -/
def importSpec (lit : GoStr) : GoStr :=
  match lit.findIdx? (fun b => b == 34 || b == 96) with
  | some q =>
    match (lit.drop (q+1)).findIdx? (· == lit.getD q 0) with
    | some n => trimSpace (lit.take (q + n + 2))
    | none => trimSpace lit
  | none => trimSpace lit

/-- one of the imports goht adds itself, with or without a comment behind it -/
def isOwnImport (lit : GoStr) : Bool := Gen.defaultImports.contains (importSpec lit)

/-- `RootNode.addImport`: goht's own imports and textual duplicates are dropped, order is kept -/
def addImport (ui : List Tok) (t : Tok) : List Tok :=
  if isOwnImport t.lit || ui.any (·.lit == t.lit) then ui else ui ++ [t]

def attrsSet (m : List (GoStr × Attr)) (k : GoStr) (a : Attr) : List (GoStr × Attr) :=
  if m.any (·.1 == k) then m.map (fun kv => if kv.1 == k then (k, a) else kv) else m ++ [(k, a)]

def tokStr (t : Tok) : String := s!"{t.typ.name}[{t.line}:{t.col}]"

def newElem (t : Tok) (indent : Int) : Elem :=
  let e : Elem := { origin := t, indent := indent, tag := bs "div" }
  match t.typ with
  | .tag => { e with tag := t.lit }
  | .id => { e with id := t.lit }
  | .cls => { e with classes := [t] }
  | _ => e

/-- `handleNode`; `self` is the node whose method runs (for error positions), `nIndent` its indent. -/
def handleNode (fuel : Nat) (p : P) (self : Tok) (nIndent : Int) (indent : Int) : Except PErr P :=
  match fuel with
  | 0 => .ok p
  | fuel+1 =>
  let t := p.peek
  match t.typ with
  | .rubyComment => .ok (p.next).1
  | .newLine => let (p, t) := p.next; .ok (p.addChild (.newLine t))
  | .indent =>
    let nextIndent : Int := t.lit.length
    if nextIndent ≤ nIndent then backToIndent (nextIndent - 1) (p.stack.length + 1) p
    else handleNode fuel (p.next).1 self nIndent nextIndent
  | .doctype => let (p, t) := p.next; .ok (p.addChild (.doctype t))
  | .tag | .id | .cls => let (p, t) := p.next; .ok (p.push (.element (newElem t indent)))
  | .comment => let (p, t) := p.next; .ok (p.push (.comment t indent))
  | .unescaped => let (p, t) := p.next; .ok (p.push (.unescape t indent))
  | .plainText | .preserveText | .escapedText | .dynamicText =>
    let (p, t) := p.next; .ok (p.addChild (.text t))
  | .silentScript => let (p, t) := p.next; .ok (p.push (.silent t indent false))
  | .script => let (p, t) := p.next; .ok (p.addChild (.script t))
  | .renderCommand => let (p, t) := p.next; .ok (p.push (.render t indent false))
  | .childrenCommand => let (p, t) := p.next; .ok (p.addChild (.children t))
  | .filterStart =>
    let (p, t) := p.next
    if t.lit == bs "javascript" then .ok (p.push (.filter t indent .js))
    else if t.lit == bs "css" then .ok (p.push (.filter t indent .css))
    else if t.lit == bs "plain" || t.lit == bs "escaped" || t.lit == bs "preserve" then
      .ok (p.push (.filter t indent .text))
    else .error (errAt self "unknown filter")
  | .gohtEnd => backToGoht (p.stack.length + 1) p
  | .eof => .error (errAt self "template is incomplete")
  | .error => .error { line := t.line, col := t.col, msg := String.fromUTF8! (ByteArray.mk t.lit.toArray) }
  | _ => .error (errAt self "unexpected")

/-- returns the parser and element as mutated so far, plus an optional error (Go mutates the node before failing) -/
def parseAttributes (fuel : Nat) (p : P) (e : Elem) : (P × Elem) × Option PErr :=
  match fuel with
  | 0 => ((p, e), none)
  | fuel+1 =>
  if p.peek.typ != .attrName then ((p, e), none) else
  let (p, nameT) := p.next
  let name := nameT.lit
  if p.peek.typ != .attrOperator then
    parseAttributes fuel p { e with attrs := attrsSet e.attrs name { name := name } }
  else
    let (p, opT) := p.next
    let isBoolean := opT.lit == [63]
    if isBoolean && p.peek.typ != .attrDynamicValue then ((p, e), some (errAt e.origin "expected dynamic value"))
    else if p.peek.typ != .attrDynamicValue && p.peek.typ != .attrEscapedValue then
      ((p, e), some (errAt e.origin "expected attribute value"))
    else
      let (p, origin) := p.next
      let isDynamic := origin.typ == .attrDynamicValue
      let value := if isDynamic then origin.lit else unquote origin.lit
      let a : Attr := { name := name, isBoolean := isBoolean, isDynamic := isDynamic, value := value, origin := origin }
      parseAttributes fuel p { e with attrs := attrsSet e.attrs name a }

def filterParse (p : P) (origin : Tok) (allowed : List TT) (what : String) : Except PErr P :=
  let t := p.peek
  if allowed.contains t.typ then let (p, t) := p.next; .ok (p.addChild (.text t))
  else if t.typ == .filterEnd then backToParent (p.next).1
  else if t.typ == .eof then .error (errAt origin s!"{what} filter is incomplete")
  else .error (errAt origin "unexpected token")

/-- one call of `p.n.parse(p)` -/
def parseStep (p : P) : Except PErr P :=
  let f := p.top
  let t := p.peek
  let fuel := p.toks.length + 2
  match f.head with
  | .root pkg ui =>
    match t.typ with
    | .package => let (p, t) := p.next; .ok (p.setTop { p.top with head := .root t ui })
    | .import =>
      let (p, t) := p.next
      .ok (p.setTop { p.top with head := .root pkg (addImport ui t) })
    | .goCode | .newLine => let (p, t) := p.next; .ok (p.push (.code [t]))
    | .gohtStart => let (p, t) := p.next; .ok (p.push (.goht t))
    | .eof => .ok (p.next).1
    | _ => .error (errAt f.head.origin "unexpected")
  | .code ts =>
    match t.typ with
    | .goCode | .newLine => let (p, t) := p.next; .ok (p.setTop { p.top with head := .code (t :: ts) })
    | .package | .import | .gohtStart | .eof => .ok (backToRoot (p.stack.length + 1) p)
    | _ => .error (errAt f.head.origin "unexpected")
  | .goht o =>
    if t.typ == .gohtEnd then .ok (backToRoot (p.stack.length + 1) (p.next).1)
    else handleNode fuel p o (-1) 0
  | .element e0 =>
    -- no line break token arrived (an inline `= @render …` / `= @children` swallows it): the element's
    -- own line is over all the same
    let e : Elem :=
      if !e0.isComplete && t.typ == .indent then
        let e := { e0 with isComplete := true }
        let e := if Gen.selfClosedTags.contains e.tag then { e with isSelfClosing := true } else e
        if e.isSelfClosing || p.top.kids.length > 0 then { e with disallowChildren := true } else e
      else e0
    let p := if !e0.isComplete && t.typ == .indent then p.setTop { p.top with head := .element e } else p
    let second (p : P) (e : Elem) : Except PErr P :=
      let t := p.peek
      match t.typ with
      | .newLine =>
        let (p, t) := p.next
        let e := { e with isComplete := true }
        let e := if Gen.selfClosedTags.contains e.tag then { e with isSelfClosing := true } else e
        let nk := p.top.kids.length
        let e := if e.isSelfClosing || nk > 0 then { e with disallowChildren := true } else e
        let p := p.setTop { p.top with head := .element e }
        .ok (if nk == 0 then p.addChild (.newLine t) else p)
      | .id => let (p, t) := p.next; .ok (p.setTop { p.top with head := .element { e with id := t.lit } })
      | .cls => let (p, t) := p.next; .ok (p.setTop { p.top with head := .element { e with classes := e.classes ++ [t] } })
      | .objectRef => let (p, t) := p.next; .ok (p.setTop { p.top with head := .element { e with objectRef := some t } })
      | .attrName =>
        let ((p, e), er) := parseAttributes fuel p e
        .ok { (p.setTop { p.top with head := .element e }) with pendingErr := er }
      | .attributesCommand => let (p, t) := p.next; .ok (p.setTop { p.top with head := .element { e with attributesCmd := t.lit } })
      | .voidTag => let (p, _) := p.next; .ok (p.setTop { p.top with head := .element { e with isSelfClosing := true } })
      | .nukeOuter => let (p, _) := p.next; .ok (p.setTop { p.top with head := .element { e with nukeOuter := true } })
      | .nukeInner => let (p, _) := p.next; .ok (p.setTop { p.top with head := .element { e with nukeInner := true } })
      | _ => handleNode fuel p e.origin e.indent (e.indent + 1)
    if e.isComplete then
      if t.typ == .indent then
        let nextIndent : Int := t.lit.length
        if nextIndent ≤ e.indent then backToIndent (nextIndent - 1) (p.stack.length + 1) p
        else if e.disallowChildren || e.isSelfClosing then
          if e.isSelfClosing then .error (errAt e.origin "illegal nesting: self-closing tags can't have content")
          else .error (errAt e.origin "illegal nesting: content can't be both given on the same line and nested")
        else second p e
      else handleNode fuel p e.origin e.indent (e.indent + 1)
    else second p e
  | .comment o i =>
    if t.typ == .indent then
      let nextIndent : Int := t.lit.length
      if nextIndent ≤ i then backToIndent (nextIndent - 1) (p.stack.length + 1) p
      else if !o.lit.isEmpty then .error (errAt o "illegal nesting: content can't be both given on the same line and nested")
      else handleNode fuel p o i (i + 1)
    else handleNode fuel p o i (i + 1)
  | .unescape o i =>
    if t.typ == .newLine then backToParent p else handleNode fuel p o i i
  | .silent o i done =>
    if t.typ == .newLine && !done then .ok ((p.next).1.setTop { p.top with head := .silent o i true })
    else handleNode fuel p o i (i + 1)
  | .render o i _ => handleNode fuel p o i (i + 1)
  | .filter o _ k =>
    match k with
    | .js => filterParse p o [.plainText, .dynamicText] "javascript"
    | .css => filterParse p o [.plainText, .dynamicText] "css"
    | .text => filterParse p o [.plainText, .escapedText, .preserveText, .dynamicText] "text"

def closeAll : Nat → P → P
  | 0, p => p
  | n+1, p => if p.stack.length ≤ 1 then p else closeAll n p.pop

def parseLoop : Nat → P → (Option PErr × P)
  | 0, p => (some { line := 0, col := 0, msg := "fuel" }, p)
  | n+1, p =>
    match parseStep p with
    | .error e => (some e, p)
    | .ok p =>
      match p.pendingErr with
      | some e => (some e, p)
      | none => if p.last == .eof then (none, p) else parseLoop n p

/-- Parse a token stream. Returns the error (if any), the (possibly partial) tree and the number of
tokens the parser pulled from the lexer. -/
def parseToks (toks : List Tok) : Option PErr × Node × Nat :=
  let p0 : P := { stack := [{ head := .root { typ := .package, lit := Gen.defaultPackage, line := 0, col := 0 } [] }], toks := toks }
  let (e, p) := parseLoop (4 * toks.length + 16) p0
  let pulled := p.pulled
  let p := closeAll (p.stack.length + 1) p
  (e, p.top.toNode, pulled)

end GL
