/-! Prototype Lean model of goht's lexer (compiler/lexer.go + lexers.go), byte-faithful. -/
namespace GL

abbrev GoStr := List UInt8

structure Rune where
  cp : Nat
  width : Nat
  enc : GoStr
deriving Repr, DecidableEq

def eof : Nat := 0x110000
def runeError : Rune := { cp := 0xFFFD, width := 1, enc := [0xEF, 0xBF, 0xBD] }

def isCont (b : UInt8) : Bool := 0x80 ≤ b && b ≤ 0xBF

/-- Go's utf8.DecodeRune on the head of the byte list. -/
def decode1 : GoStr → Option (Rune × GoStr)
  | [] => none
  | b0 :: rest =>
    if b0 < 0x80 then some ({ cp := b0.toNat, width := 1, enc := [b0] }, rest)
    else if 0xC2 ≤ b0 && b0 ≤ 0xDF then
      match rest with
      | b1 :: r1 =>
        if isCont b1 then
          some ({ cp := (b0.toNat % 32) * 64 + (b1.toNat % 64), width := 2, enc := [b0, b1] }, r1)
        else some (runeError, rest)
      | [] => some (runeError, rest)
    else if 0xE0 ≤ b0 && b0 ≤ 0xEF then
      match rest with
      | b1 :: b2 :: r2 =>
        let lo : UInt8 := if b0 = 0xE0 then 0xA0 else 0x80
        let hi : UInt8 := if b0 = 0xED then 0x9F else 0xBF
        if lo ≤ b1 && b1 ≤ hi && isCont b2 then
          some ({ cp := (b0.toNat % 16) * 4096 + (b1.toNat % 64) * 64 + (b2.toNat % 64), width := 3,
                  enc := [b0, b1, b2] }, r2)
        else some (runeError, rest)
      | _ => some (runeError, rest)
    else if 0xF0 ≤ b0 && b0 ≤ 0xF4 then
      match rest with
      | b1 :: b2 :: b3 :: r3 =>
        let lo : UInt8 := if b0 = 0xF0 then 0x90 else 0x80
        let hi : UInt8 := if b0 = 0xF4 then 0x8F else 0xBF
        if lo ≤ b1 && b1 ≤ hi && isCont b2 && isCont b3 then
          some ({ cp := (b0.toNat % 8) * 262144 + (b1.toNat % 64) * 4096 + (b2.toNat % 64) * 64 + (b3.toNat % 64),
                  width := 4, enc := [b0, b1, b2, b3] }, r3)
        else some (runeError, rest)
      | _ => some (runeError, rest)
    else some (runeError, rest)

/-- fuel = number of bytes is always enough (every rune consumes ≥ 1 byte). -/
def decodeFuel : Nat → GoStr → List Rune
  | 0, _ => []
  | n+1, s =>
    match decode1 s with
    | none => []
    | some (r, t) => r :: decodeFuel n t

def decodeAll (s : GoStr) : List Rune := decodeFuel s.length s

end GL
