import GohtVerif.Model.Basic
import GohtVerif.Gen.Facts
/-! Model of goht's lexer (compiler/lexer.go + lexers.go), byte-faithful.

* one Lean definition per Go state function; `step` only dispatches;
* every character set handed to `accept*/skip*` comes from `Gen.*` (regenerated from /repo on every run);
* a Go panic (slice out of range, index out of range) is the explicit flag `panic`; an `UnreadRune`
  that Go would refuse is the flag `stuck`; a state invocation that emits more tokens than the
  channel holds is the outcome `deadlock`. -/
namespace GL

inductive TT where
  | eof | error | root | newLine | package | «import» | goCode | gohtStart | gohtEnd
  | doctype | tag | id | cls | objectRef | attrName | attrOperator | attrEscapedValue | attrDynamicValue
  | indent | comment | rubyComment | voidTag | nukeInner | nukeOuter | escapedText | dynamicText
  | plainText | preserveText | unescaped | script | silentScript | renderCommand | childrenCommand
  | attributesCommand | filterStart | filterEnd
deriving Repr, DecidableEq, Inhabited

def TT.name : TT → String
  | .eof => "EOF" | .error => "Error" | .root => "Root" | .newLine => "NewLine" | .package => "Package"
  | .import => "Import" | .goCode => "GoCode" | .gohtStart => "GohtStart" | .gohtEnd => "GohtEnd"
  | .doctype => "Doctype" | .tag => "Tag" | .id => "Id" | .cls => "Class" | .objectRef => "ObjectRef"
  | .attrName => "AttrName" | .attrOperator => "AttrOperator" | .attrEscapedValue => "AttrEscapedValue"
  | .attrDynamicValue => "AttrDynamicValue" | .indent => "Indent" | .comment => "Comment"
  | .rubyComment => "RubyComment" | .voidTag => "VoidTag" | .nukeInner => "NukeInnerWhitespace"
  | .nukeOuter => "NukeOuterWhitespace" | .escapedText => "EscapedText" | .dynamicText => "DynamicText"
  | .plainText => "PlainText" | .preserveText => "PreserveText" | .unescaped => "Unescaped"
  | .script => "Script" | .silentScript => "SilentScript" | .renderCommand => "RenderCommand"
  | .childrenCommand => "ChildrenCommand" | .attributesCommand => "AttributesCommand"
  | .filterStart => "FilterStart" | .filterEnd => "FilterEnd"

structure Tok where
  typ : TT
  lit : GoStr
  line : Int
  col : Int
deriving Repr, DecidableEq

/-- `bytes.Reader` restricted to what the lexer uses: the unread runes and the rune `UnreadRune`
would give back (`none` when the previous operation was not a successful `ReadRune`). -/
structure Cur where
  rest : List Rune
  last : Option Rune := none
deriving Repr

def Cur.next (c : Cur) : Cur × Option Rune :=
  match c.rest with
  | [] => ({ c with last := none }, none)
  | r :: rs => ({ rest := rs, last := some r }, some r)

def Cur.unread (c : Cur) : Option Cur :=
  match c.last with
  | some r => some { rest := r :: c.rest, last := none }
  | none => none

structure L where
  cur : Cur
  s : GoStr := []
  width : Nat := 0
  pos : List Nat := [0]       -- per-line rune counts, current line first
  indent : Nat := 0
  out : List Tok := []        -- emitted by the current invocation, newest first
  panic : Bool := false
  stuck : Bool := false
deriving Repr

def bs (s : String) : GoStr := s.toUTF8.toList
def ch (c : Char) : Nat := c.toNat

/-- UTF-16 code units of a rune -/
def Rune.u16 (r : Rune) : Nat := if r.cp ≥ 0x10000 then 2 else 1

/-- length of a Go string in UTF-16 code units (`utf16Len` of source_map.go) -/
def utf16Len (s : GoStr) : Nat := ((decodeAll s).map Rune.u16).sum

def bumpPos (pos : List Nat) (nl : Bool) (k : Nat) : List Nat :=
  let p := match pos with | [] => [k] | p :: ps => (p+k) :: ps
  if nl then 0 :: p else p

def L.next (l : L) : L × Nat :=
  match l.cur.next with
  | (c, none) => ({ l with cur := c, width := 0 }, eof)
  | (c, some r) =>
    ({ l with cur := c, width := r.width, s := l.s ++ r.enc, pos := bumpPos l.pos (r.cp == 10) r.u16 }, r.cp)

/-- `l.s = l.s[:len(l.s)-n]` -/
def L.dropS (l : L) (n : Nat) : L :=
  if l.s.length < n then { l with panic := true } else { l with s := l.s.take (l.s.length - n) }

/-- `backup` on `pos`: pop an empty last line, then take off the code units of the rune (a rune
of four bytes is a surrogate pair) -/
def unbumpPos (l : L) : L :=
  let k := if l.width = 4 then 2 else 1
  match l.pos with
  | 0 :: p :: ps => { l with pos := (p - k) :: ps }
  | 0 :: [] => { l with panic := true }
  | p :: ps => { l with pos := (p - k) :: ps }
  | [] => { l with panic := true }

def L.backup (l : L) : L :=
  if l.width = 0 then l else
  let l := unbumpPos l
  let l := match l.cur.unread with
    | some c => { l with cur := c }
    | none => { l with stuck := true }
  l.dropS l.width

def L.peek (l : L) : L × Nat :=
  let (l1, c) := l.next
  (l1.backup, c)

/-- peekAhead: reads up to n runes without touching `s`/`pos`, then seeks back (which invalidates UnreadRune). -/
def L.peekAhead (l : L) (n : Nat) : L × GoStr :=
  let rs := l.cur.rest.take n
  ({ l with cur := { l.cur with last := none } }, rs.flatMap (·.enc))

def L.ignore (l : L) : L := { l with s := [] }

def acceptRunAux (valid : List Nat) : Nat → L → L
  | 0, l => let (l1, _) := l.next; l1.backup
  | n+1, l =>
    let (l1, c) := l.next
    if valid.contains c then acceptRunAux valid n l1 else l1.backup

def L.acceptRun (l : L) (valid : List Nat) : L := acceptRunAux valid (l.cur.rest.length + 1) l

def acceptUntilAux (stop : List Nat) : Nat → L → L
  | 0, l => let (l1, _) := l.next; l1.backup
  | n+1, l =>
    let (l1, c) := l.next
    if !stop.contains c && c != eof then acceptUntilAux stop n l1 else l1.backup

def L.acceptUntil (l : L) (stop : List Nat) : L := acceptUntilAux stop (l.cur.rest.length + 1) l

/-- `skip`: read a rune and drop it from the pending literal (`l.s[:len(l.s)-l.width]`). -/
def L.skip (l : L) : L × Nat :=
  let (l1, c) := l.next
  (l1.dropS l1.width, c)

def skipRunAux (list : List Nat) : Nat → L → L
  | 0, l => let (l1, _) := l.next; l1.backup
  | n+1, l =>
    let (l1, c) := l.next
    if list.contains c then skipRunAux list n (l1.dropS l1.width) else l1.backup

def L.skipRun (l : L) (list : List Nat) : L := skipRunAux list (l.cur.rest.length + 1) l

def skipUntilAux (stop : List Nat) : Nat → L → L
  | 0, l => let (l1, _) := l.next; l1.backup
  | n+1, l =>
    let (l1, c) := l.next
    if !stop.contains c && c != eof then skipUntilAux stop n (l1.dropS l1.width) else l1.backup

def L.skipUntil (l : L) (stop : List Nat) : L := skipUntilAux stop (l.cur.rest.length + 1) l

def nextN : Nat → L → L
  | 0, l => l
  | n+1, l => nextN n (l.next).1

def L.skipAhead (l : L) (n : Nat) : L := (nextN n l).ignore

def countNl (s : GoStr) : Nat := s.count 10

/-- the part of the pending literal that lies on its first line (including the `\n`) -/
def firstLine : GoStr → GoStr
  | [] => []
  | b :: rest => if b == 10 then [b] else b :: firstLine rest

/-- `position()`: line and column of the start of the pending literal. -/
def L.position (l : L) : Option (Int × Int) :=
  let nl := countNl l.s
  let len := l.pos.length
  if nl ≥ len then none else
  let line : Int := len - nl
  match l.pos[nl]? with
  | none => none
  | some p => some (line, 1 + (p : Int) - ((utf16Len (firstLine l.s) : Nat) : Int))

def L.emit (l : L) (t : TT) : L :=
  match l.position with
  | none => { l with panic := true }
  | some (line, col) => { l with out := { typ := t, lit := l.s, line := line, col := col } :: l.out, s := [] }

inductive St where
  | goLineStart | goLineEnd | package | importStart | imports | goCode | template | gohtStart
  | gohtLineStart | gohtIndent | contentStart | content | contentEnd | lineEnd | newLine
  | tag | id | cls | objRef | attrsStart | attrsEnd | attribute | attrName | attrOp | attrValue
  | attrStatic | attrDynamic | attrCmdStart | attrCmd | attrEnd | wsRemoval | textStart | textContent
  | dynText | doctype | unescaped | silent | ignoreIndented (n : Nat) | outputCode | comment | voidTag
  | commandCode | filterStart | filterLineStart (n : Nat) (t : TT) | filterIndent (n : Nat) (t : TT)
  | filterContent (n : Nat) (t : TT) | filterDyn (n : Nat) (t : TT)
  | errHalt | halt
deriving Repr, DecidableEq

/-- Error-message classes (an enumeration, so that proofs never look inside string literals). -/
inductive EMsg where
  | attributeNameExpected | attributeNameNotClosedEof | attributeValueNotClosedEof | childrenCommandDoesNotAccept | commandCodeExpected | dynamicTextValueWasNot | filterNameExpected | importExpected | objectReferenceNotClosedEof | packageNameExpected | renderArgumentExpected | selfclosingTagsCantHaveContent | templateDeclarationIsIncomplete | templatesMustBeIndented | theLineWasIndentedN | theLineWasIndentedUsing | unexpectedCharacter | unknownAttributeCommand | unknownFilter | unknownCommand | identifierExpected (t : TT)
deriving Repr, DecidableEq

def EMsg.text : EMsg → String
  | .attributeNameExpected => "attribute name expected"
  | .attributeNameNotClosedEof => "attribute name not closed: eof"
  | .attributeValueNotClosedEof => "attribute value not closed: eof"
  | .childrenCommandDoesNotAccept => "children command does not accept arguments"
  | .commandCodeExpected => "command code expected"
  | .dynamicTextValueWasNot => "dynamic text value was not closed: eof"
  | .filterNameExpected => "filter name expected"
  | .importExpected => "import expected"
  | .objectReferenceNotClosedEof => "object reference not closed: eof"
  | .packageNameExpected => "package name expected"
  | .renderArgumentExpected => "render argument expected"
  | .selfclosingTagsCantHaveContent => "self-closing tags can't have content"
  | .templateDeclarationIsIncomplete => "template declaration is incomplete"
  | .templatesMustBeIndented => "templates must be indented"
  | .theLineWasIndentedN => "the line was indented N levels deeper than the previous line"
  | .theLineWasIndentedUsing => "the line was indented using spaces, templates must be indented using tabs"
  | .unexpectedCharacter => "unexpected character"
  | .unknownAttributeCommand => "unknown attribute command"
  | .unknownFilter => "unknown filter"
  | .unknownCommand => "unknown command"
  | .identifierExpected t => t.name ++ " identifier expected"

def errLit (m : EMsg) : GoStr := bs m.text

/-- `errorf`: the message text is not part of any tie observation; only its class is kept. -/
def L.errorf (l : L) (msg : EMsg) : L × St :=
  match l.position with
  | none => ({ l with panic := true }, .halt)
  | some (line, col) =>
    ({ l with out := { typ := .error, lit := errLit msg, line := line, col := col } :: l.out }, .errHalt)

def L.validateIndent (l : L) (indent : GoStr) : Option (L × St) :=
  if indent.isEmpty then none else
  let cur := indent.length
  if cur ≤ l.indent then none
  else if indent.contains 32 then some (l.errorf .theLineWasIndentedUsing)
  else if cur > l.indent + 1 then some (l.errorf .theLineWasIndentedN)
  else none

def hasPrefix (s p : GoStr) : Bool := p.isPrefixOf s
def hasSuffix (s p : GoStr) : Bool := p.reverse.isPrefixOf s.reverse

def continueToMatchingBraceAux (endBrace : Nat) : Nat → L → Bool → Bool → Nat → L × Nat
  | 0, l, _, _, _ => (l, eof)
  | n+1, l, isEsc, inQ, q =>
    let (l1, r) := l.next
    if r == eof then (l1, eof)
    else if r == 34 || r == 39 then
      if r == q && !isEsc then continueToMatchingBraceAux endBrace n l1 false (!inQ) 0
      else continueToMatchingBraceAux endBrace n l1 false true r
    else if r == endBrace && !inQ then (l1, r)
    else if r == 92 && inQ then continueToMatchingBraceAux endBrace n l1 true inQ q
    else continueToMatchingBraceAux endBrace n l1 isEsc inQ q

def L.continueToMatchingBrace (l : L) (endBrace : Nat) : L × Nat :=
  continueToMatchingBraceAux endBrace (l.cur.rest.length + 1) l false false 0

def quoteLoop (quote : Nat) : Nat → L → Bool → L × Bool   -- returns (state, reachedEOF)
  | 0, l, _ => (l, true)
  | n+1, l, esc =>
    let (l1, r) := l.next
    if r == eof then (l1, true)
    else if r == quote && !esc then (l1, false)
    else quoteLoop quote n l1 (r == 92 && !esc && quote != 96)

def L.continueToMatchingQuote (l : L) (typ : TT) (capture : Bool) : L × Nat :=
  let (l, quote) := l.peek
  if quote != 96 && quote != 34 then (l, quote) else
  let l := if capture then (l.next).1 else (l.skip).1
  let (l, atEof) := quoteLoop quote (l.cur.rest.length + 1) l false
  if atEof then (l, eof) else
  if capture then (l.emit typ, quote)
  else
    let l := l.backup
    let l := l.emit typ
    ((l.skip).1, quote)

def trimTabs (s : GoStr) : GoStr := (s.dropWhile (· == 9)).reverse.dropWhile (· == 9) |>.reverse

/-- the UTF-8 encodings of the runes `unicode.IsSpace` accepts: \t \n \v \f \r, blank, U+0085, U+00A0,
U+1680, U+2000–U+200A, U+2028, U+2029, U+202F, U+205F, U+3000 -/
def spaceEncs : List GoStr :=
  [[9], [10], [11], [12], [13], [32], [0xC2, 0x85], [0xC2, 0xA0], [0xE1, 0x9A, 0x80],
   [0xE2, 0x80, 0x80], [0xE2, 0x80, 0x81], [0xE2, 0x80, 0x82], [0xE2, 0x80, 0x83], [0xE2, 0x80, 0x84], [0xE2, 0x80, 0x85],
   [0xE2, 0x80, 0x86], [0xE2, 0x80, 0x87], [0xE2, 0x80, 0x88], [0xE2, 0x80, 0x89], [0xE2, 0x80, 0x8A],
   [0xE2, 0x80, 0xA8], [0xE2, 0x80, 0xA9], [0xE2, 0x80, 0xAF], [0xE2, 0x81, 0x9F], [0xE3, 0x80, 0x80]]

def isSpaceByte (b : UInt8) : Bool := b == 32 || b == 9 || b == 10 || b == 11 || b == 12 || b == 13

/-- bytes of the white-space rune `s` starts with (0 when it does not start with one) -/
def spacePrefixLen (s : GoStr) : Nat :=
  match spaceEncs.find? (fun e => e.isPrefixOf s) with
  | some e => e.length
  | none => 0

def trimLeftFuel : Nat → GoStr → GoStr
  | 0, s => s
  | n+1, s => let k := spacePrefixLen s; if k == 0 then s else trimLeftFuel n (s.drop k)

/-- `strings.TrimLeft(s, white space)`: a well-formed white-space encoding at the front is the rune
`DecodeRune` delivers, whatever follows -/
def trimLeftSpace (s : GoStr) : GoStr := trimLeftFuel s.length s

def spaceSuffixLen (s : GoStr) : Nat :=
  match spaceEncs.find? (fun e => e.reverse.isPrefixOf s.reverse) with
  | some e => e.length
  | none => 0

def trimRightFuel : Nat → GoStr → GoStr
  | 0, s => s
  | n+1, s => let k := spaceSuffixLen s; if k == 0 then s else trimRightFuel n (s.take (s.length - k))

/-- `strings.TrimSpace` (`unicode.IsSpace` on both ends; `DecodeLastRune` walks back to the nearest
rune-start byte, which for a well-formed white-space encoding at the end is its own lead byte) -/
def trimSpace (s : GoStr) : GoStr :=
  let a := trimLeftSpace s
  trimRightFuel a.length a

def countByte (s : GoStr) (b : UInt8) : Nat := s.count b

/-- the loop of `lexGohtStart` that extends the signature to the matching parenthesis;
`inr` = end of input inside the loop (error token), `inl` = left via `break`. -/
def gohtStartLoop : Nat → L → Sum L L
  | 0, l => .inr l
  | n+1, l =>
    let l := l.acceptUntil Gen.lexGohtStart_acceptUntil1
    let o := countByte l.s 40
    let c := countByte l.s 41
    if o == c + 1 then .inl l
    else
      let (l, r) := l.next
      if r == eof then .inr l else gohtStartLoop n l

def kwPackage : GoStr := [112, 97, 99, 107, 97, 103, 101]
def kwImport : GoStr := [105, 109, 112, 111, 114, 116]
def kwGoht : GoStr := [64, 103, 111, 104, 116]
def kwAttributes : GoStr := [97, 116, 116, 114, 105, 98, 117, 116, 101, 115]
def kwRender : GoStr := [114, 101, 110, 100, 101, 114]
def kwChildren : GoStr := [99, 104, 105, 108, 100, 114, 101, 110]
def kwEscaped : GoStr := [101, 115, 99, 97, 112, 101, 100]
def kwPreserve : GoStr := [112, 114, 101, 115, 101, 114, 118, 101]
def kwHashBrace : GoStr := [35, 123]
def kwBslashHash : GoStr := [92, 35, 123]
def kwBang3 : GoStr := [33, 33, 33]

def emitIfPending (l : L) (t : TT) : L := if !l.s.isEmpty then l.emit t else l

def lexGoLineStart (l : L) : L × St :=
  let (l, c) := l.peek
  if c == ch 'p' then (emitIfPending l .goCode, .package)
  else if c == ch 'i' then (emitIfPending l .goCode, .importStart)
  else if c == ch '@' then (l, .template)
  else if c == 10 || c == 13 || c == eof then (l, .goLineEnd)
  else (l, .goCode)

def lexGoLineEnd (l : L) : L × St :=
  let (l, c) := l.peek
  if c == 10 || c == 13 then
    let l := (l.next).1
    let (l, c2) := l.peek
    let l := if c2 == 13 then (l.next).1 else l
    (l.emit .newLine, .goLineStart)
  else if c == eof then (l.emit .eof, .halt)
  else l.errorf .unexpectedCharacter

def lexPackage (l : L) : L × St :=
  let l := l.acceptUntil Gen.lexPackage_acceptUntil0
  if l.s != kwPackage then (l, .goCode) else
  let l := l.ignore
  let l := l.skipRun Gen.lexPackage_skipRun0
  let l := l.acceptUntil Gen.lexPackage_acceptUntil1
  if l.s.isEmpty then l.errorf .packageNameExpected
  else (l.emit .package, .goLineEnd)

def lexImportStart (l : L) : L × St :=
  let l := l.acceptUntil Gen.lexImportStart_acceptUntil0
  if l.s != kwImport then (l, .goCode) else
  let l := l.skipRun Gen.lexImportStart_skipRun0
  let l := l.ignore
  let (l, c) := l.peek
  if c == ch '(' then
    let l := (l.skip).1
    (l.skipRun Gen.lexImportStart_skipRun1, .imports)
  else
    let l := l.acceptUntil Gen.lexImportStart_acceptUntil1
    let l := l.emit .import
    (l.skipRun Gen.lexImportStart_skipRun2, .goLineStart)

def lexImports (l : L) : L × St :=
  let l := l.skipRun Gen.lexImports_skipRun0
  let (l, c) := l.peek
  if c == ch ')' then (l.skipRun Gen.lexImports_skipRun1, .goLineStart)
  else if c == eof then l.errorf .importExpected
  else
    let l := l.acceptUntil Gen.lexImports_acceptUntil0
    if l.s.isEmpty then l.errorf .importExpected
    else (l.emit .import, .imports)

def lexGoCode (l : L) : L × St :=
  let l := l.acceptUntil Gen.lexGoCode_acceptUntil0
  (emitIfPending l .goCode, .goLineEnd)

def lexTemplate (l : L) : L × St :=
  let l := l.acceptUntil Gen.lexTemplate_acceptUntil0
  -- the keyword introduces a template only when a blank follows it on the same line
  if l.s == kwGoht then
    let (l, c) := l.peek
    if c == 32 then (l, .gohtStart) else (l, .goCode)
  else (l, .goCode)

/-- the first half of `lexGohtStart`: capture the declaration up to its closing parenthesis -/
def gohtStartSig (l : L) : Sum L L :=
  let l := l.ignore
  let l := { l with indent := 0 }
  let l := l.skipRun Gen.lexGohtStart_skipRun0
  let l := l.acceptUntil Gen.lexGohtStart_acceptUntil0
  gohtStartLoop (l.cur.rest.length + 2) (if hasPrefix l.s [40] then (l.next).1 else l)

def lexGohtStart (l : L) : L × St :=
  match gohtStartSig l with
  | .inr l => l.errorf .templateDeclarationIsIncomplete
  | .inl l =>
    let l := (l.next).1
    let l := l.emit .gohtStart
    let l := l.skipRun Gen.lexGohtStart_skipRun1
    (l.skipRun Gen.lexGohtStart_skipRun2, .gohtLineStart)

def lexGohtLineStart (l : L) : L × St :=
  let (l, c) := l.peek
  if c == ch '}' then
    let l := l.emit .gohtEnd
    ((l.skip).1, .goLineStart)
  else if c == eof then (l.emit .eof, .halt)
  else if c == 10 || c == 13 then (l, .lineEnd)
  else (l, .gohtIndent)

def lexGohtIndent (l : L) : L × St :=
  let l := l.acceptRun Gen.lexGohtIndent_acceptRun0
  let indent := l.s
  if l.indent == 0 && indent.length == 0 then l.errorf .templatesMustBeIndented
  else if indent.length == 0 then
    let l := { l with indent := 0 }
    (l.emit .indent, .contentStart)
  else match l.validateIndent indent with
    | some r => r
    | none =>
      let l := { l with indent := l.s.length }
      (l.emit .indent, .contentStart)

def lexGohtContentStart (l : L) : L × St :=
  let (l, c) := l.peek
  if c == ch '%' then (l, .tag)
  else if c == ch '#' then (l, .id)
  else if c == ch '.' then (l, .cls)
  else if c == ch '\\' then ((l.skip).1, .textStart)
  else if c == ch '!' then
    let (l, s) := l.peekAhead 3
    if s == kwBang3 then (l, .doctype) else (l, .unescaped)
  else if c == ch '-' then (l, .silent)
  else if c == ch '=' then (l, .outputCode)
  else if c == ch '/' then (l, .comment)
  else if c == ch ':' then (l, .filterStart)
  else if c == eof || c == 10 || c == 13 then (l, .lineEnd)
  else (l, .textStart)

def lexGohtContent (l : L) : L × St :=
  let (l, c) := l.peek
  if c == ch '#' then (l, .id)
  else if c == ch '.' then (l, .cls)
  else if c == ch '[' then (l, .objRef)
  else if c == ch '{' then (l, .attrsStart)
  else if c == ch '!' then (l, .unescaped)
  else if c == ch '-' then (l, .silent)
  else if c == ch '=' then (l, .outputCode)
  else if c == ch '/' then (l, .voidTag)
  else if c == ch '>' || c == ch '<' then (l, .wsRemoval)
  else if c == eof || c == 10 || c == 13 then (l, .lineEnd)
  else (l, .textStart)

def lexGohtContentEnd (l : L) : L × St :=
  let (l, c) := l.peek
  if c == ch '=' then (l, .outputCode)
  else if c == ch '/' then (l, .voidTag)
  else if c == ch '>' || c == ch '<' then (l, .wsRemoval)
  else if c == eof || c == 10 || c == 13 then (l, .lineEnd)
  else (l, .textStart)

def lexGohtLineEnd (l : L) : L × St :=
  let l := l.skipRun Gen.lexGohtLineEnd_skipRun0
  let (l, c) := l.peek
  if c == 10 || c == 13 then (l, .newLine)
  else if c == eof then (l.emit .eof, .halt)
  else l.errorf .unexpectedCharacter

def lexGohtNewLine (l : L) : L × St :=
  let l := l.acceptRun Gen.lexGohtNewLine_acceptRun0
  (l.emit .newLine, .gohtLineStart)

def hamlIdentifier (typ : TT) (l : L) : L × St :=
  let l := (l.skip).1
  let l := l.acceptUntil Gen.hamlIdentifier_acceptUntil0
  if l.s.isEmpty then l.errorf (.identifierExpected typ)
  else (l.emit typ, .content)

def lexGohtTag (l : L) : L × St := hamlIdentifier .tag l
def lexGohtId (l : L) : L × St := hamlIdentifier .id l
def lexGohtClass (l : L) : L × St := hamlIdentifier .cls l

def lexObjectReference (l : L) : L × St :=
  let l := (l.skip).1
  let (l, r) := l.continueToMatchingBrace (ch ']')
  if r == eof then l.errorf .objectReferenceNotClosedEof else
  let l := l.backup
  let l := l.emit .objectRef
  ((l.skip).1, .content)

def lexGohtAttributesStart (l : L) : L × St := ((l.skip).1, .attribute)
def lexGohtAttributesEnd (l : L) : L × St := ((l.skip).1, .content)

def lexGohtAttribute (l : L) : L × St :=
  let l := l.skipRun Gen.lexGohtAttribute_skipRun0
  let (l, c) := l.peek
  if c == ch '}' then (l, .attrsEnd)
  else if c == ch '@' then (l, .attrCmdStart)
  else (l, .attrName)

def lexGohtAttributeNameTail (l : L) : L × St :=
  let l := l.skipRun Gen.lexGohtAttributeName_skipRun0
  let (l, c) := l.peek
  if c == ch '?' || c == ch ':' then (l, .attrOp)
  else if c == ch ',' || c == ch '}' then (l, .attrEnd)
  else l.errorf .unexpectedCharacter

def lexGohtAttributeName (l : L) : L × St :=
  let (l, c) := l.peek
  let (l, _) := l.peek      -- the Go code peeks twice
  if c == ch '"' || c == ch '`' then
    let (l, r) := l.continueToMatchingQuote .attrName false
    if r == eof then l.errorf .attributeNameNotClosedEof
    else if r != ch '"' && r != ch '`' then l.errorf .unexpectedCharacter
    else lexGohtAttributeNameTail l
  else
    let l := l.acceptUntil Gen.lexGohtAttributeName_acceptUntil0
    if l.s.isEmpty then l.errorf .attributeNameExpected
    else lexGohtAttributeNameTail (l.emit .attrName)

def lexGohtAttributeOperator (l : L) : L × St :=
  let l := l.skipRun Gen.lexGohtAttributeOperator_skipRun0
  let (l, c) := l.peek
  if c == ch '?' || c == ch ':' then
    let l := (l.next).1
    (l.emit .attrOperator, .attrValue)
  else l.errorf .unexpectedCharacter

def lexGohtAttributeValue (l : L) : L × St :=
  let l := l.skipRun Gen.lexGohtAttributeValue_skipRun0
  let (l, c) := l.peek
  if c == ch '"' || c == ch '`' then (l, .attrStatic)
  else if c == ch '#' then (l, .attrDynamic)
  else l.errorf .unexpectedCharacter

def lexGohtAttributeStaticValue (l : L) : L × St :=
  let (l, r) := l.continueToMatchingQuote .attrEscapedValue true
  if r == eof then l.errorf .attributeValueNotClosedEof
  else if r != ch '"' && r != ch '`' then l.errorf .unexpectedCharacter
  else (l, .attrEnd)

def lexGohtAttributeDynamicValue (l : L) : L × St :=
  let l := (l.skip).1
  let (l, c) := l.peek
  if c != ch '{' then l.errorf .unexpectedCharacter else
  let l := (l.skip).1
  let (l, r) := l.continueToMatchingBrace (ch '}')
  if r == eof then l.errorf .attributeValueNotClosedEof else
  let l := l.backup
  let l := l.emit .attrDynamicValue
  ((l.skip).1, .attrEnd)

def lexAttributeCommandStart (l : L) : L × St :=
  let l := l.skipRun Gen.lexAttributeCommandStart_skipRun0
  let l := l.acceptUntil Gen.lexAttributeCommandStart_acceptUntil0
  if l.s.isEmpty then l.errorf .commandCodeExpected
  else if l.s == kwAttributes then (l, .attrCmd)
  else l.errorf .unknownAttributeCommand

def lexGohtAttributeCommand (l : L) : L × St :=
  let l := l.ignore
  let l := l.skipUntil Gen.lexGohtAttributeCommand_skipUntil0
  let l := l.skipUntil Gen.lexGohtAttributeCommand_skipUntil1
  let l := (l.skip).1
  let (l, r) := l.continueToMatchingBrace (ch '}')
  if r == eof then l.errorf .attributeValueNotClosedEof else
  let l := l.backup
  let l := l.emit .attributesCommand
  ((l.skip).1, .attrEnd)

def lexGohtAttributeEnd (l : L) : L × St :=
  let l := l.skipRun Gen.lexGohtAttributeEnd_skipRun0
  let (l, c) := l.peek
  if c == ch ',' then ((l.skip).1, .attribute)
  else if c == ch '}' then (l, .attrsEnd)
  else l.errorf .unexpectedCharacter

def lexWhitespaceRemoval (l : L) : L × St :=
  let (l, d) := l.skip
  if d == ch '>' then (l.emit .nukeOuter, .contentEnd)
  else if d == ch '<' then (l.emit .nukeInner, .contentEnd)
  else l.errorf .unexpectedCharacter

def lexGohtTextStart (l : L) : L × St := (l.skipRun Gen.lexGohtTextStart_skipRun0, .textContent)

def lexGohtTextContent (l : L) : L × St :=
  let l := l.acceptUntil Gen.lexGohtTextContent_acceptUntil0
  let (l, c) := l.peek
  if c == ch '\\' then
    let (l, s) := l.peekAhead 3
    if s == kwBslashHash then
      let l := (l.skip).1
      let l := if !hasSuffix l.s [92] then (l.next).1 else l
      (l, .textContent)
    else ((l.next).1, .textContent)
  else if c == ch '#' then (l, .dynText)
  else (emitIfPending l .plainText, .lineEnd)

/-- shared by `lexGohtDynamicText` and `lexFilterDynamicText` -/
def dynamicText (t : TT) (skipSet : List Nat) (next : St) (l : L) : L × St :=
  let (l, s) := l.peekAhead 2
  if s != kwHashBrace then ((l.next).1, next) else
  let l := emitIfPending l t
  let l := l.skipRun skipSet
  let (l, r) := l.continueToMatchingBrace (ch '}')
  if r == eof then l.errorf .dynamicTextValueWasNot else
  let l := l.backup
  let l := l.emit .dynamicText
  ((l.skip).1, next)

def lexGohtDynamicText (l : L) : L × St :=
  dynamicText .plainText Gen.lexGohtDynamicText_skipRun0 .textContent l

def lexGohtDoctype (l : L) : L × St :=
  let l := l.skipRun Gen.lexGohtDoctype_skipRun0
  let l := l.acceptUntil Gen.lexGohtDoctype_acceptUntil0
  (l.emit .doctype, .lineEnd)

def lexGohtUnescaped (l : L) : L × St :=
  let l := (l.skip).1
  let l := l.ignore
  let l := l.emit .unescaped
  let (l, c) := l.peek
  if c == ch '=' then (l, .outputCode) else (l, .textStart)

def lexGohtSilentScript (l : L) : L × St :=
  let l := (l.skip).1
  let (l, c) := l.peek
  if c == ch '#' then
    let l := l.skipUntil Gen.lexGohtSilentScript_skipUntil0
    let l := l.emit .rubyComment
    (l, .ignoreIndented (l.indent + 1))
  else
    let l := l.skipRun Gen.lexGohtSilentScript_skipRun0
    let l := l.acceptUntil Gen.lexGohtSilentScript_acceptUntil0
    (l.emit .silentScript, .lineEnd)

def ignoreIndentedLines (n : Nat) (l : L) : L × St :=
  let (l, c) := l.peek
  if c == 10 || c == 13 then ((l.skip).1, .ignoreIndented n)
  else if c == 32 || c == 9 then
    let (l, prior) := l.peekAhead n
    if (trimSpace prior).length != 0 then (l, .gohtLineStart)
    else match l.validateIndent prior with
      | some r => r
      | none => (l.skipUntil Gen.ignoreIndentedLines_skipUntil0, .ignoreIndented n)
  else if c == eof then (l.emit .eof, .halt)
  else (l, .gohtLineStart)

def lexGohtOutputCode (l : L) : L × St :=
  let l := l.skipRun Gen.lexGohtOutputCode_skipRun0
  let (l, c) := l.peek
  if c == ch '@' then (l, .commandCode)
  else
    let l := l.acceptUntil Gen.lexGohtOutputCode_acceptUntil0
    (l.emit .script, .lineEnd)

def lexComment (l : L) : L × St :=
  let l := l.skipRun Gen.lexComment_skipRun0
  let l := l.acceptUntil Gen.lexComment_acceptUntil0
  (l.emit .comment, .lineEnd)

def lexVoidTag (l : L) : L × St :=
  let l := l.skipRun Gen.lexVoidTag_skipRun0
  let l := l.acceptUntil Gen.lexVoidTag_acceptUntil0
  if !l.s.isEmpty then (l.ignore).errorf .selfclosingTagsCantHaveContent
  else (l.emit .voidTag, .lineEnd)

def lexGohtCommandCode (l : L) : L × St :=
  let l := l.skipRun Gen.lexGohtCommandCode_skipRun0
  let l := l.acceptUntil Gen.lexGohtCommandCode_acceptUntil0
  if l.s.isEmpty then l.errorf .commandCodeExpected
  else if l.s == kwRender then
    let l := l.acceptRun Gen.lexGohtCommandCode_acceptRun0
    let l := l.ignore
    let l := l.acceptUntil Gen.lexGohtCommandCode_acceptUntil1
    if l.s.isEmpty then l.errorf .renderArgumentExpected
    else ((l.emit .renderCommand).skipRun Gen.lexGohtCommandCode_skipRun1, .gohtLineStart)
  else if l.s == kwChildren then
    let l := l.acceptRun Gen.lexGohtCommandCode_acceptRun1
    let l := l.ignore
    let l := l.acceptUntil Gen.lexGohtCommandCode_acceptUntil2
    if !l.s.isEmpty then l.errorf .childrenCommandDoesNotAccept
    else ((l.emit .childrenCommand).skipRun Gen.lexGohtCommandCode_skipRun1, .gohtLineStart)
  else l.errorf .unknownCommand

def lexFilterStart (l : L) : L × St :=
  let l := l.skipRun Gen.lexFilterStart_skipRun0
  let l := l.acceptUntil Gen.lexFilterStart_acceptUntil0
  if l.s.isEmpty then l.errorf .filterNameExpected
  else if !Gen.filters.contains l.s then l.errorf .unknownFilter
  else
    let f := l.s
    let l := l.emit .filterStart
    let l := l.skipUntil Gen.lexFilterStart_skipUntil0
    let l := l.skipRun Gen.lexFilterStart_skipRun1
    if f == kwEscaped then (l, .filterLineStart (l.indent + 1) .escapedText)
    else if f == kwPreserve then (l, .filterLineStart (l.indent + 1) .preserveText)
    else (l, .filterLineStart (l.indent + 1) .plainText)

def lexFilterLineStart (n : Nat) (t : TT) (l : L) : L × St :=
  let (l, c) := l.peek
  if c == 32 || c == 9 then (l, .filterIndent n t)
  else if c == eof then (l.emit .eof, .halt)
  else (l.emit .filterEnd, .gohtLineStart)

def lexFilterIndent (n : Nat) (t : TT) (l : L) : L × St :=
  let (l, indents) := l.peekAhead n
  if (trimTabs indents).length != 0 then (l.emit .filterEnd, .gohtLineStart)
  else (l.skipAhead n, .filterContent n t)

def lexFilterContent (n : Nat) (t : TT) (l : L) : L × St :=
  let l := l.acceptUntil Gen.lexFilterContent_acceptUntil0
  let (l, c) := l.peek
  if c == ch '#' then (l, .filterDyn n t)
  else
    let l := l.acceptRun Gen.lexFilterContent_acceptRun0
    (emitIfPending l t, .filterLineStart n t)

def lexFilterDynamicText (n : Nat) (t : TT) (l : L) : L × St :=
  dynamicText t Gen.lexFilterDynamicText_skipRun0 (.filterContent n t) l

/-- `step` only dispatches: one Lean definition per Go state function. -/
def step (st : St) (l : L) : L × St :=
  match st with
  | .halt => (l, .halt)
  | .errHalt => (l, .halt)
  | .goLineStart => lexGoLineStart l
  | .goLineEnd => lexGoLineEnd l
  | .package => lexPackage l
  | .importStart => lexImportStart l
  | .imports => lexImports l
  | .goCode => lexGoCode l
  | .template => lexTemplate l
  | .gohtStart => lexGohtStart l
  | .gohtLineStart => lexGohtLineStart l
  | .gohtIndent => lexGohtIndent l
  | .contentStart => lexGohtContentStart l
  | .content => lexGohtContent l
  | .contentEnd => lexGohtContentEnd l
  | .lineEnd => lexGohtLineEnd l
  | .newLine => lexGohtNewLine l
  | .tag => lexGohtTag l
  | .id => lexGohtId l
  | .cls => lexGohtClass l
  | .objRef => lexObjectReference l
  | .attrsStart => lexGohtAttributesStart l
  | .attrsEnd => lexGohtAttributesEnd l
  | .attribute => lexGohtAttribute l
  | .attrName => lexGohtAttributeName l
  | .attrOp => lexGohtAttributeOperator l
  | .attrValue => lexGohtAttributeValue l
  | .attrStatic => lexGohtAttributeStaticValue l
  | .attrDynamic => lexGohtAttributeDynamicValue l
  | .attrCmdStart => lexAttributeCommandStart l
  | .attrCmd => lexGohtAttributeCommand l
  | .attrEnd => lexGohtAttributeEnd l
  | .wsRemoval => lexWhitespaceRemoval l
  | .textStart => lexGohtTextStart l
  | .textContent => lexGohtTextContent l
  | .dynText => lexGohtDynamicText l
  | .doctype => lexGohtDoctype l
  | .unescaped => lexGohtUnescaped l
  | .silent => lexGohtSilentScript l
  | .ignoreIndented n => ignoreIndentedLines n l
  | .outputCode => lexGohtOutputCode l
  | .comment => lexComment l
  | .voidTag => lexVoidTag l
  | .commandCode => lexGohtCommandCode l
  | .filterStart => lexFilterStart l
  | .filterLineStart n t => lexFilterLineStart n t l
  | .filterIndent n t => lexFilterIndent n t l
  | .filterContent n t => lexFilterContent n t l
  | .filterDyn n t => lexFilterDynamicText n t l

inductive Outcome where | ok | panic | stuck | deadlock | outOfFuel
deriving Repr, DecidableEq

/-- Result of running the state machine: the tokens of all *completed* state invocations, in
order, and how the run ended. When the outcome is not `ok`, a consumer that pulls more tokens
than are listed never gets an answer (the Go code panics, spins or blocks inside `nextToken`). -/
structure LexResult where
  toks : List Tok
  outcome : Outcome

/-- Drive the machine like `nextToken` does, until EOF/error token, `nil` state, or a failure. -/
def run : Nat → St → L → List Tok → LexResult
  | 0, _, _, acc => ⟨acc.reverse, .outOfFuel⟩
  | n+1, st, l, acc =>
    if st == .halt then ⟨acc.reverse, .ok⟩ else
    let (l1, st1) := step st { l with out := [] }
    if l1.panic then ⟨acc.reverse, .panic⟩
    else if l1.stuck then ⟨acc.reverse, .stuck⟩
    else if l1.out.length > Gen.chanCap then ⟨acc.reverse, .deadlock⟩
    else
      let acc := l1.out ++ acc
      -- the parser stops pulling after EOF or Error
      if l1.out.any (fun t => t.typ == .eof || t.typ == .error) then ⟨acc.reverse, .ok⟩
      else run n st1 l1 acc

def initL (input : GoStr) : L := { cur := { rest := decodeAll input } }

/-- fuel: every state invocation either consumes a rune or moves to a state of smaller rank
(rank < 10, see Proofs/C06); 12 invocations per rune are never needed. -/
def lexFuel (input : GoStr) : Nat := 12 * ((decodeAll input).length + 2)

def lexResult (input : GoStr) : LexResult := run (lexFuel input) .goLineStart (initL input) []

def lexBytes (input : GoStr) : List Tok × Outcome :=
  let r := lexResult input
  (r.toks, r.outcome)

end GL
