import GohtVerif.Model.Basic
/-! Prototype model of goht's lexer state machine. One function per Go state function. -/
namespace GL

inductive TT where
  | eof | error | root | newLine | package | «import» | goCode | gohtStart | gohtEnd
  | doctype | tag | id | cls | objectRef | attrName | attrOperator | attrEscapedValue | attrDynamicValue
  | indent | comment | rubyComment | voidTag | nukeInner | nukeOuter | escapedText | dynamicText
  | plainText | preserveText | unescaped | script | silentScript | renderCommand | childrenCommand
  | attributesCommand | filterStart | filterEnd
deriving Repr, DecidableEq, Inhabited

def TT.name : TT → String
  | .eof => "EOF" | .error => "Error" | .root => "Root" | .newLine => "NewLine" | .package => "Package"
  | .import => "Import" | .goCode => "GoCode" | .gohtStart => "GohtStart" | .gohtEnd => "GohtEnd"
  | .doctype => "Doctype" | .tag => "Tag" | .id => "Id" | .cls => "Class" | .objectRef => "ObjectRef"
  | .attrName => "AttrName" | .attrOperator => "AttrOperator" | .attrEscapedValue => "AttrEscapedValue"
  | .attrDynamicValue => "AttrDynamicValue" | .indent => "Indent" | .comment => "Comment"
  | .rubyComment => "RubyComment" | .voidTag => "VoidTag" | .nukeInner => "NukeInnerWhitespace"
  | .nukeOuter => "NukeOuterWhitespace" | .escapedText => "EscapedText" | .dynamicText => "DynamicText"
  | .plainText => "PlainText" | .preserveText => "PreserveText" | .unescaped => "Unescaped"
  | .script => "Script" | .silentScript => "SilentScript" | .renderCommand => "RenderCommand"
  | .childrenCommand => "ChildrenCommand" | .attributesCommand => "AttributesCommand"
  | .filterStart => "FilterStart" | .filterEnd => "FilterEnd"

structure Tok where
  typ : TT
  lit : GoStr
  line : Int
  col : Int
deriving Repr

structure Cur where
  done : List Rune
  rest : List Rune
  canUn : Bool
deriving Repr

def Cur.next (c : Cur) : Cur × Option Rune :=
  match c.rest with
  | [] => ({ c with canUn := false }, none)
  | r :: rs => ({ done := r :: c.done, rest := rs, canUn := true }, some r)

def Cur.unread (c : Cur) : Option Cur :=
  match c.canUn, c.done with
  | true, r :: ds => some { done := ds, rest := r :: c.rest, canUn := false }
  | _, _ => none

structure L where
  cur : Cur
  s : GoStr := []
  width : Nat := 0
  pos : List Nat := [0]       -- per-line rune counts, current line first
  indent : Nat := 0
  out : List Tok := []        -- emitted by the current invocation, newest first
  panic : Bool := false
  stuck : Bool := false
deriving Repr

def bs (s : String) : GoStr := s.toUTF8.toList
def cs (s : String) : List Nat := s.toList.map Char.toNat
def ch (c : Char) : Nat := c.toNat

def bumpPos (pos : List Nat) (nl : Bool) : List Nat :=
  let p := match pos with | [] => [1] | p :: ps => (p+1) :: ps
  if nl then 0 :: p else p

def L.next (l : L) : L × Nat :=
  match l.cur.next with
  | (c, none) => ({ l with cur := c, width := 0 }, eof)
  | (c, some r) =>
    ({ l with cur := c, width := r.width, s := l.s ++ r.enc, pos := bumpPos l.pos (r.cp == 10) }, r.cp)

def L.dropS (l : L) (n : Nat) : L :=
  if l.s.length < n then { l with panic := true } else { l with s := l.s.take (l.s.length - n) }

def L.backup (l : L) : L :=
  if l.width = 0 then l else
  let l := match l.pos with
    | 0 :: p :: ps => { l with pos := (p - 1) :: ps }
    | 0 :: [] => { l with panic := true }
    | p :: ps => { l with pos := (p - 1) :: ps }
    | [] => { l with panic := true }
  let l := match l.cur.unread with
    | some c => { l with cur := c }
    | none => { l with stuck := true, cur := { l.cur with canUn := false } }
  l.dropS l.width

def L.peek (l : L) : L × Nat :=
  let (l1, c) := l.next
  (l1.backup, c)

/-- peekAhead: reads up to n runes without touching `s`/`pos`, then seeks back (which invalidates UnreadRune). -/
def L.peekAhead (l : L) (n : Nat) : L × GoStr :=
  let rs := l.cur.rest.take n
  ({ l with cur := { l.cur with canUn := false } }, rs.flatMap (·.enc))

def L.ignore (l : L) : L := { l with s := [] }

def acceptRunAux (valid : List Nat) : Nat → L → L
  | 0, l => let (l1, _) := l.next; l1.backup
  | n+1, l =>
    let (l1, c) := l.next
    if valid.contains c then acceptRunAux valid n l1 else l1.backup

def L.acceptRun (l : L) (valid : List Nat) : L := acceptRunAux valid (l.cur.rest.length + 1) l

def acceptUntilAux (stop : List Nat) : Nat → L → L
  | 0, l => let (l1, _) := l.next; l1.backup
  | n+1, l =>
    let (l1, c) := l.next
    if !stop.contains c && c != eof then acceptUntilAux stop n l1 else l1.backup

def L.acceptUntil (l : L) (stop : List Nat) : L := acceptUntilAux stop (l.cur.rest.length + 1) l

def L.skip (l : L) : L × Nat :=
  let (l1, c) := l.next
  (l1.dropS 1, c)

def skipRunAux (list : List Nat) : Nat → L → L
  | 0, l => let (l1, _) := l.next; l1.backup
  | n+1, l =>
    let (l1, c) := l.next
    if list.contains c then skipRunAux list n (l1.dropS 1) else l1.backup

def L.skipRun (l : L) (list : List Nat) : L := skipRunAux list (l.cur.rest.length + 1) l

def skipUntilAux (stop : List Nat) : Nat → L → L
  | 0, l => let (l1, _) := l.next; l1.backup
  | n+1, l =>
    let (l1, c) := l.next
    if !stop.contains c && c != eof then skipUntilAux stop n (l1.dropS 1) else l1.backup

def L.skipUntil (l : L) (stop : List Nat) : L := skipUntilAux stop (l.cur.rest.length + 1) l

def nextN : Nat → L → L
  | 0, l => l
  | n+1, l => nextN n (l.next).1

def L.skipAhead (l : L) (n : Nat) : L := (nextN n l).ignore

def countNl (s : GoStr) : Nat := s.count 10

/-- `position()`: line and column of the start of the pending literal. -/
def L.position (l : L) : Option (Int × Int) :=
  let nl := countNl l.s
  let len := l.pos.length
  if nl ≥ len then none else
  let line : Int := len - nl
  match l.pos[nl]? with
  | none => none
  | some p => some (line, 1 + (p : Int) - (l.s.length : Int))

def L.emit (l : L) (t : TT) : L :=
  match l.position with
  | none => { l with panic := true }
  | some (line, col) => { l with out := { typ := t, lit := l.s, line := line, col := col } :: l.out, s := [] }

inductive St where
  | goLineStart | goLineEnd | package | importStart | imports | goCode | template | gohtStart
  | gohtLineStart | gohtIndent | contentStart | content | contentEnd | lineEnd | newLine
  | tag | id | cls | objRef | attrsStart | attrsEnd | attribute | attrName | attrOp | attrValue
  | attrStatic | attrDynamic | attrCmdStart | attrCmd | attrEnd | wsRemoval | textStart | textContent
  | dynText | doctype | unescaped | silent | ignoreIndented (n : Nat) | outputCode | comment | voidTag
  | commandCode | filterStart | filterLineStart (n : Nat) (t : TT) | filterIndent (n : Nat) (t : TT)
  | filterContent (n : Nat) (t : TT) | filterDyn (n : Nat) (t : TT)
  | errHalt | halt
deriving Repr, DecidableEq

def L.errorf (l : L) (msg : String) : L × St :=
  match l.position with
  | none => ({ l with panic := true }, .halt)
  | some (line, col) =>
    ({ l with out := { typ := .error, lit := bs msg, line := line, col := col } :: l.out }, .errHalt)

def L.validateIndent (l : L) (indent : GoStr) : Option (L × St) :=
  if indent.isEmpty then none else
  let cur := indent.length
  if cur ≤ l.indent then none
  else if indent.contains 32 then some (l.errorf "the line was indented using spaces, templates must be indented using tabs")
  else if cur > l.indent + 1 then some (l.errorf "the line was indented N levels deeper than the previous line")
  else none

def hasPrefix (s p : GoStr) : Bool := p.isPrefixOf s
def hasSuffix (s p : GoStr) : Bool := p.reverse.isPrefixOf s.reverse

def continueToMatchingBraceAux (endBrace : Nat) : Nat → L → Bool → Bool → Nat → L × Nat
  | 0, l, _, _, _ => (l, eof)
  | n+1, l, isEsc, inQ, q =>
    let (l1, r) := l.next
    if r == eof then (l1, eof)
    else if r == ch '"' || r == ch '\'' then
      if r == q && !isEsc then continueToMatchingBraceAux endBrace n l1 false (!inQ) 0
      else continueToMatchingBraceAux endBrace n l1 false true r
    else if r == endBrace && !inQ then (l1, r)
    else if r == ch '\\' && inQ then continueToMatchingBraceAux endBrace n l1 true inQ q
    else continueToMatchingBraceAux endBrace n l1 isEsc inQ q

def L.continueToMatchingBrace (l : L) (endBrace : Nat) : L × Nat :=
  continueToMatchingBraceAux endBrace (l.cur.rest.length + 1) l false false 0

def quoteLoop (quote : Nat) : Nat → L → Bool → L × Bool   -- returns (state, reachedEOF)
  | 0, l, _ => (l, true)
  | n+1, l, esc =>
    let (l1, r) := l.next
    if r == eof then (l1, true)
    else if r == quote && !esc then (l1, false)
    else quoteLoop quote n l1 (r == ch '\\')

def L.continueToMatchingQuote (l : L) (typ : TT) (capture : Bool) : L × Nat :=
  let (l, quote) := l.peek
  if quote != ch '`' && quote != ch '"' then (l, quote) else
  let l := if capture then (l.next).1 else (l.skip).1
  let (l, atEof) := quoteLoop quote (l.cur.rest.length + 1) l false
  if atEof then (l, eof) else
  if capture then (l.emit typ, quote)
  else
    let l := l.backup
    let l := l.emit typ
    ((l.skip).1, quote)

def filters : List String := ["javascript", "css", "plain", "escaped", "preserve"]

def trimTabs (s : GoStr) : GoStr := (s.dropWhile (· == 9)).reverse.dropWhile (· == 9) |>.reverse

/-- strings.TrimSpace restricted to what can occur here (ASCII space set + NEL/NBSP ignored: prototype). -/
def isSpaceByte (b : UInt8) : Bool := b == 32 || b == 9 || b == 10 || b == 11 || b == 12 || b == 13
def trimSpace (s : GoStr) : GoStr := (s.dropWhile isSpaceByte).reverse.dropWhile isSpaceByte |>.reverse

def countByte (s : GoStr) (b : UInt8) : Nat := s.count b

def gohtStartLoop : Nat → L → Option L      -- none = spins forever
  | 0, _ => none
  | n+1, l =>
    let l := l.acceptUntil (cs ")")
    let o := countByte l.s 40
    let c := countByte l.s 41
    if o == c + 1 then some l
    else
      let before := l.cur.rest.length
      let l := (l.next).1
      if before == 0 then none else gohtStartLoop n l

def importsLoop : Nat → L → L × St
  | 0, l => (l, .halt)
  | n+1, l =>
    let l := l.skipRun (cs " \t\n\r")
    let (l, c) := l.peek
    if c == ch ')' then (l.skipRun (cs ")\n\r"), .goLineStart)
    else if c == eof then l.errorf "import expected"
    else
      let l := l.acceptUntil (cs "\n\r")
      if l.s.isEmpty then l.errorf "import expected"
      else importsLoop n (l.emit .import)

def hamlIdentifier (typ : TT) (l : L) : L × St :=
  let l := (l.skip).1
  let l := l.acceptUntil (cs "%#.[{=!/<> \t\n\r")
  if l.s.isEmpty then l.errorf s!"{typ.name} identifier expected"
  else (l.emit typ, .content)

def filterDynamic (t : TT) (next : St) (l : L) : L × St :=
  let (l, s) := l.peekAhead 2
  if s != bs "#{" then ((l.next).1, next) else
  let l := if !l.s.isEmpty then l.emit t else l
  let l := l.skipRun (cs "#{")
  let (l, r) := l.continueToMatchingBrace (ch '}')
  if r == eof then l.errorf "dynamic text value was not closed: eof" else
  let l := l.backup
  let l := l.emit .dynamicText
  ((l.skip).1, next)

def step (st : St) (l : L) : L × St :=
  match st with
  | .halt => (l, .halt)
  | .errHalt => (l, .halt)
  | .goLineStart =>
    let (l, c) := l.peek
    if c == ch 'p' then ((if !l.s.isEmpty then l.emit .goCode else l), .package)
    else if c == ch 'i' then ((if !l.s.isEmpty then l.emit .goCode else l), .importStart)
    else if c == ch '@' then (l, .template)
    else if c == 10 || c == 13 || c == eof then (l, .goLineEnd)
    else (l, .goCode)
  | .goLineEnd =>
    let (l, c) := l.peek
    if c == 10 || c == 13 then
      let l := (l.next).1
      let (l, c2) := l.peek
      let l := if c2 == 13 then (l.next).1 else l
      (l.emit .newLine, .goLineStart)
    else if c == eof then (l.emit .eof, .halt)
    else l.errorf "unexpected character"
  | .package =>
    let l := l.acceptUntil (cs " (\n")
    if l.s != bs "package" then (l, .goCode) else
    let l := l.ignore
    let l := l.skipRun (cs " ")
    let l := l.acceptUntil (cs "\n")
    if l.s.isEmpty then l.errorf "package name expected"
    else (l.emit .package, .goLineEnd)
  | .importStart =>
    let l := l.acceptUntil (cs " \"(\n")
    if l.s != bs "import" then (l, .goCode) else
    let l := l.skipRun (cs " ")
    let l := l.ignore
    let (l, c) := l.peek
    if c == ch '(' then
      let l := (l.skip).1
      (l.skipRun (cs " \t\n\r"), .imports)
    else
      let l := l.acceptUntil (cs "\n\r")
      let l := l.emit .import
      (l.skipRun (cs "\n\r"), .goLineStart)
  | .imports => importsLoop (l.cur.rest.length + 2) l
  | .goCode =>
    let l := l.acceptUntil (cs "\n\r")
    ((if !l.s.isEmpty then l.emit .goCode else l), .goLineEnd)
  | .template =>
    let l := l.acceptUntil (cs " ")
    if l.s == bs "@goht" then (l, .gohtStart) else (l, .halt)
  | .gohtStart =>
    let l := l.ignore
    let l := l.skipRun (cs " ")
    let l := l.acceptUntil (cs ")")
    let lo : Option L :=
      if hasPrefix l.s (bs "(") then gohtStartLoop (l.cur.rest.length + 2) (l.next).1 else some l
    match lo with
    | none => ({ l with stuck := true }, .halt)     -- the Go code spins here
    | some l =>
      let l := (l.next).1
      let l := l.emit .gohtStart
      let l := l.skipRun (cs " {")
      (l.skipRun (cs "\n\r"), .gohtLineStart)
  | .gohtLineStart =>
    let (l, c) := l.peek
    if c == ch '}' then
      let l := l.emit .gohtEnd
      ((l.skip).1, .goLineStart)
    else if c == eof then (l.emit .eof, .halt)
    else if c == 10 || c == 13 then (l, .lineEnd)
    else (l, .gohtIndent)
  | .gohtIndent =>
    let l := l.acceptRun (cs " \t")
    let indent := l.s
    if l.indent == 0 && indent.length == 0 then l.errorf "templates must be indented"
    else if indent.length == 0 then
      let l := { l with indent := 0 }
      (l.emit .indent, .contentStart)
    else match l.validateIndent indent with
      | some r => r
      | none =>
        let l := { l with indent := l.s.length }
        (l.emit .indent, .contentStart)
  | .contentStart =>
    let (l, c) := l.peek
    if c == ch '%' then (l, .tag)
    else if c == ch '#' then (l, .id)
    else if c == ch '.' then (l, .cls)
    else if c == ch '\\' then ((l.skip).1, .textStart)
    else if c == ch '!' then
      let (l, s) := l.peekAhead 3
      if s == bs "!!!" then (l, .doctype) else (l, .unescaped)
    else if c == ch '-' then (l, .silent)
    else if c == ch '=' then (l, .outputCode)
    else if c == ch '/' then (l, .comment)
    else if c == ch ':' then (l, .filterStart)
    else if c == eof || c == 10 || c == 13 then (l, .lineEnd)
    else (l, .textStart)
  | .content =>
    let (l, c) := l.peek
    if c == ch '#' then (l, .id)
    else if c == ch '.' then (l, .cls)
    else if c == ch '[' then (l, .objRef)
    else if c == ch '{' then (l, .attrsStart)
    else if c == ch '!' then (l, .unescaped)
    else if c == ch '-' then (l, .silent)
    else if c == ch '=' then (l, .outputCode)
    else if c == ch '/' then (l, .voidTag)
    else if c == ch '>' || c == ch '<' then (l, .wsRemoval)
    else if c == eof || c == 10 || c == 13 then (l, .lineEnd)
    else (l, .textStart)
  | .contentEnd =>
    let (l, c) := l.peek
    if c == ch '=' then (l, .outputCode)
    else if c == ch '/' then (l, .voidTag)
    else if c == ch '>' || c == ch '<' then (l, .wsRemoval)
    else if c == eof || c == 10 || c == 13 then (l, .lineEnd)
    else (l, .textStart)
  | .lineEnd =>
    let l := l.skipRun (cs " \t")
    let (l, c) := l.peek
    if c == 10 || c == 13 then (l, .newLine)
    else if c == eof then (l.emit .eof, .halt)
    else l.errorf "unexpected character"
  | .newLine =>
    let l := l.acceptRun (cs "\n\r")
    (l.emit .newLine, .gohtLineStart)
  | .tag => hamlIdentifier .tag l
  | .id => hamlIdentifier .id l
  | .cls => hamlIdentifier .cls l
  | .objRef =>
    let l := (l.skip).1
    let (l, r) := l.continueToMatchingBrace (ch ']')
    if r == eof then l.errorf "object reference not closed: eof" else
    let l := l.backup
    let l := l.emit .objectRef
    ((l.skip).1, .content)
  | .attrsStart => ((l.skip).1, .attribute)
  | .attrsEnd => ((l.skip).1, .content)
  | .attribute =>
    let l := l.skipRun (cs ", \t\n\r")
    let (l, c) := l.peek
    if c == ch '}' then (l, .attrsEnd)
    else if c == ch '@' then (l, .attrCmdStart)
    else (l, .attrName)
  | .attrName =>
    let (l, c) := l.peek
    let (l, _) := l.peek      -- the Go code peeks twice
    let res : Sum (L × St) L :=
      if c == ch '"' || c == ch '`' then
        let (l, r) := l.continueToMatchingQuote .attrName false
        if r == eof then .inl (l.errorf "attribute name not closed: eof")
        else if r != ch '"' && r != ch '`' then .inl (l.errorf "unexpected character")
        else .inr l
      else
        let l := l.acceptUntil (cs "?:,}{\" \t\n\r")
        if l.s.isEmpty then .inl (l.errorf "attribute name expected")
        else .inr (l.emit .attrName)
    match res with
    | .inl r => r
    | .inr l =>
      let l := l.skipRun (cs " \t\n\r")
      let (l, c) := l.peek
      if c == ch '?' || c == ch ':' then (l, .attrOp)
      else if c == ch ',' || c == ch '}' then (l, .attrEnd)
      else l.errorf "unexpected character"
  | .attrOp =>
    let l := l.skipRun (cs " \t\n\r")
    let (l, c) := l.peek
    if c == ch '?' || c == ch ':' then
      let l := (l.next).1
      (l.emit .attrOperator, .attrValue)
    else l.errorf "unexpected character"
  | .attrValue =>
    let l := l.skipRun (cs " \t\n\r")
    let (l, c) := l.peek
    if c == ch '"' || c == ch '`' then (l, .attrStatic)
    else if c == ch '#' then (l, .attrDynamic)
    else l.errorf "unexpected character"
  | .attrStatic =>
    let (l, r) := l.continueToMatchingQuote .attrEscapedValue true
    if r == eof then l.errorf "attribute value not closed: eof"
    else if r != ch '"' && r != ch '`' then l.errorf "unexpected character"
    else (l, .attrEnd)
  | .attrDynamic =>
    let l := (l.skip).1
    let (l, c) := l.peek
    if c != ch '{' then l.errorf "unexpected character" else
    let l := (l.skip).1
    let (l, r) := l.continueToMatchingBrace (ch '}')
    if r == eof then l.errorf "attribute value not closed: eof" else
    let l := l.backup
    let l := l.emit .attrDynamicValue
    ((l.skip).1, .attrEnd)
  | .attrCmdStart =>
    let l := l.skipRun (cs "@")
    let l := l.acceptUntil (cs ": \t\n\r")
    if l.s.isEmpty then l.errorf "command code expected"
    else if l.s == bs "attributes" then (l, .attrCmd)
    else l.errorf "unknown attribute command"
  | .attrCmd =>
    let l := l.ignore
    let l := l.skipUntil (cs ":")
    let l := l.skipUntil (cs "{")
    let l := (l.skip).1
    let (l, r) := l.continueToMatchingBrace (ch '}')
    if r == eof then l.errorf "attribute value not closed: eof" else
    let l := l.backup
    let l := l.emit .attributesCommand
    ((l.skip).1, .attrEnd)
  | .attrEnd =>
    let l := l.skipRun (cs " \t\n\r")
    let (l, c) := l.peek
    if c == ch ',' then ((l.skip).1, .attribute)
    else if c == ch '}' then (l, .attrsEnd)
    else l.errorf "unexpected character"
  | .wsRemoval =>
    let (l, d) := l.skip
    if d == ch '>' then (l.emit .nukeOuter, .contentEnd)
    else if d == ch '<' then (l.emit .nukeInner, .contentEnd)
    else l.errorf "unexpected character"
  | .textStart => (l.skipRun (cs " \t"), .textContent)
  | .textContent =>
    let l := l.acceptUntil (cs "\\#\n\r")
    let (l, c) := l.peek
    if c == ch '\\' then
      let (l, s) := l.peekAhead 2
      if s == bs "\\#" then
        let l := (l.skip).1
        let l := if !hasSuffix l.s (bs "\\") then (l.next).1 else l
        (l, .textContent)
      else ((l.next).1, .textContent)
    else if c == ch '#' then (l, .dynText)
    else ((if !l.s.isEmpty then l.emit .plainText else l), .lineEnd)
  | .dynText =>
    let (l, s) := l.peekAhead 2
    if s != bs "#{" then ((l.next).1, .textContent) else
    let l := if !l.s.isEmpty then l.emit .plainText else l
    let l := l.skipRun (cs "#{")
    let (l, r) := l.continueToMatchingBrace (ch '}')
    if r == eof then l.errorf "dynamic text value was not closed: eof" else
    let l := l.backup
    let l := l.emit .dynamicText
    ((l.skip).1, .textContent)
  | .doctype =>
    let l := l.skipRun (cs "! ")
    let l := l.acceptUntil (cs "\n\r")
    (l.emit .doctype, .lineEnd)
  | .unescaped =>
    let l := (l.skip).1
    let l := l.ignore
    let l := l.emit .unescaped
    let (l, c) := l.peek
    if c == ch '=' then (l, .outputCode) else (l, .textStart)
  | .silent =>
    let l := (l.skip).1
    let (l, c) := l.peek
    if c == ch '#' then
      let l := l.skipUntil (cs "\n\r")
      let l := l.emit .rubyComment
      (l, .ignoreIndented (l.indent + 1))
    else
      let l := l.skipRun (cs " \t")
      let l := l.acceptUntil (cs "\n\r")
      (l.emit .silentScript, .lineEnd)
  | .ignoreIndented n =>
    let (l, c) := l.peek
    if c == 10 || c == 13 then ((l.skip).1, .ignoreIndented n)
    else if c == 32 || c == 9 then
      let (l, prior) := l.peekAhead n
      if (trimSpace prior).length != 0 then (l, .gohtLineStart)
      else match l.validateIndent prior with
        | some r => r
        | none => (l.skipUntil (cs "\n\r"), .ignoreIndented n)
    else if c == eof then (l.emit .eof, .halt)
    else (l, .gohtLineStart)
  | .outputCode =>
    let l := l.skipRun (cs "= \t")
    let (l, c) := l.peek
    if c == ch '@' then (l, .commandCode)
    else
      let l := l.acceptUntil (cs "\n\r")
      (l.emit .script, .lineEnd)
  | .comment =>
    let l := l.skipRun (cs "/ \t")
    let l := l.acceptUntil (cs "\n\r")
    (l.emit .comment, .lineEnd)
  | .voidTag =>
    let l := l.skipRun (cs "/ \t")
    let l := l.acceptUntil (cs "\n\r")
    if !l.s.isEmpty then (l.ignore).errorf "self-closing tags can't have content"
    else (l.emit .voidTag, .lineEnd)
  | .commandCode =>
    let l := l.skipRun (cs "@")
    let l := l.acceptUntil (cs "() \t\n\r")
    if l.s.isEmpty then l.errorf "command code expected" else
    let res : Sum (L × St) L :=
      if l.s == bs "render" then
        let l := l.acceptRun (cs "() \t")
        let l := l.ignore
        let l := l.acceptUntil (cs "\n\r")
        if l.s.isEmpty then .inl (l.errorf "render argument expected")
        else .inr (l.emit .renderCommand)
      else if l.s == bs "children" then
        let l := l.acceptRun (cs "() \t")
        let l := l.ignore
        let l := l.acceptUntil (cs "\n\r")
        if !l.s.isEmpty then .inl (l.errorf "children command does not accept arguments")
        else .inr (l.emit .childrenCommand)
      else .inr l
    match res with
    | .inl r => r
    | .inr l => (l.skipRun (cs "\n\r"), .gohtLineStart)
  | .filterStart =>
    let l := l.skipRun (cs ": \t")
    let l := l.acceptUntil (cs " \t\n\r")
    if l.s.isEmpty then l.errorf "filter name expected"
    else if !(filters.map bs).contains l.s then l.errorf "unknown filter"
    else
      let f := l.s
      let l := l.emit .filterStart
      let l := l.skipUntil (cs "\n\r")
      let l := l.skipRun (cs "\n\r")
      if f == bs "escaped" then (l, .filterLineStart (l.indent + 1) .escapedText)
      else if f == bs "preserve" then (l, .filterLineStart (l.indent + 1) .preserveText)
      else (l, .filterLineStart (l.indent + 1) .plainText)
  | .filterLineStart n t =>
    let (l, c) := l.peek
    if c == 32 || c == 9 then (l, .filterIndent n t)
    else if c == eof then (l.emit .eof, .halt)
    else (l.emit .filterEnd, .gohtLineStart)
  | .filterIndent n t =>
    let (l, indents) := l.peekAhead n
    if (trimTabs indents).length != 0 then (l.emit .filterEnd, .gohtLineStart)
    else (l.skipAhead n, .filterContent n t)
  | .filterContent n t =>
    let l := l.acceptUntil (cs "#\n\r")
    let (l, c) := l.peek
    if c == ch '#' then (l, .filterDyn n t)
    else
      let l := l.acceptRun (cs "\n\r")
      ((if !l.s.isEmpty then l.emit t else l), .filterLineStart n t)
  | .filterDyn n t => filterDynamic t (.filterContent n t) l

inductive Outcome where | ok | panic | stuck | deadlock | outOfFuel
deriving Repr, DecidableEq

/-- Drive the machine like `nextToken` does; collect tokens until EOF/error token. -/
def run : Nat → St → L → List Tok → List Tok × Outcome
  | 0, _, _, acc => (acc.reverse, .outOfFuel)
  | n+1, st, l, acc =>
    if st == .halt then (acc.reverse, .ok) else
    let (l1, st1) := step st { l with out := [] }
    if l1.panic then (acc.reverse ++ l1.out.reverse, .panic)
    else if l1.stuck then (acc.reverse ++ l1.out.reverse, .stuck)
    else if l1.out.length > 64 then (acc.reverse ++ (l1.out.reverse.take 64), .deadlock)
    else
      let acc := l1.out ++ acc
      -- the parser stops pulling after EOF or Error
      if l1.out.any (fun t => t.typ == .eof || t.typ == .error) then (acc.reverse, .ok)
      else run n st1 l1 acc

def lexBytes (input : GoStr) : List Tok × Outcome :=
  let rs := decodeAll input
  run (20 * (rs.length + 2)) .goLineStart { cur := { done := [], rest := rs, canUn := false } } []

end GL
