import GohtVerif.Model.Compile
/-! Prototype: what the generated Go does at run time, as a function on the parsed tree.
    Fragments are interpreted through an environment (strings / bools / string lists). -/
namespace GL

structure Env where
  strs : List (GoStr × GoStr) := []
  bools : List (GoStr × Bool) := []
  lists : List (GoStr × List GoStr) := []
deriving Repr

def Env.str (e : Env) (k : GoStr) : Option GoStr := (e.strs.find? (·.1 == k)).map (·.2)
def Env.bool (e : Env) (k : GoStr) : Option Bool := (e.bools.find? (·.1 == k)).map (·.2)
def Env.list (e : Env) (k : GoStr) : Option (List GoStr) := (e.lists.find? (·.1 == k)).map (·.2)

/-- a children block: nodes + the environment and `__children` of the template that wrote them -/
inductive Clo where
  | mk (kids : List Node) (env : Env) (own : Option Clo)

def splitOn (sep : GoStr) (s : GoStr) : List GoStr :=
  let rec go (fuel : Nat) (cur : GoStr) (s : GoStr) : List GoStr :=
    match fuel with
    | 0 => [cur.reverse]
    | fuel+1 =>
      match s with
      | [] => [cur.reverse]
      | b :: rest =>
        if sep.isPrefixOf s && !sep.isEmpty then cur.reverse :: go fuel [] (s.drop sep.length)
        else go fuel (b :: cur) rest
  go (s.length + 1) [] s

/-- evaluate a string-typed fragment of the prototype vocabulary: a variable or a "literal" -/
def evalStr (env : Env) (frag : GoStr) : Option GoStr :=
  let f := trimSpace frag
  match env.str f with
  | some v => some v
  | none =>
    match f with
    | 34 :: _ => some (unquote f)
    | _ => none

def evalBool (env : Env) (frag : GoStr) : Option Bool :=
  let f := trimSpace frag
  match f with
  | 33 :: rest => (env.bool (trimSpace rest)).map (!·)
  | _ => env.bool f

def isWS (b : UInt8) : Bool := b == 32 || b == 9 || b == 10 || b == 12 || b == 13

/-- `nukeWhitespaceRe.ReplaceAll(b, nil)` as a scanner (validated against regexp separately) -/
def erase (s : GoStr) : GoStr :=
  let rec go (fuel : Nat) (s : GoStr) (acc : GoStr) : GoStr :=
    match fuel with
    | 0 => acc.reverse
    | fuel+1 =>
      match s with
      | [] => acc.reverse
      | b :: rest =>
        if nukeAfter.isPrefixOf s then go fuel ((s.drop nukeAfter.length).dropWhile isWS) acc
        else
          let afterWs := s.dropWhile isWS
          if nukeBefore.isPrefixOf afterWs then go fuel (afterWs.drop nukeBefore.length) acc
          else go fuel rest (b :: acc)
  go (s.length + 1) s []

structure Tmpl where
  name : GoStr
  params : List GoStr
  kids : List Node

/-- `Name(p1 t1, p2 t2)` → name and parameter names (prototype: no receivers, no grouped params) -/
def parseDecl (decl : GoStr) : GoStr × List GoStr :=
  let name := decl.takeWhile (· != 40)
  let inside := ((decl.dropWhile (· != 40)).drop 1).reverse.dropWhile (· != 41) |>.drop 1 |>.reverse
  let ps := (splitOn (bs ", ") inside).filter (!·.isEmpty) |>.map fun p => (trimSpace p).takeWhile (· != 32)
  (name, ps)

def templatesOf : Node → List Tmpl
  | .root _ _ kids => kids.filterMap fun k =>
      match k with
      | .goht o ks => let (n, ps) := parseDecl o.lit; some { name := n, params := ps, kids := ks }
      | _ => none
  | _ => []



def classArg (env : Env) (t : Tok) : Except String (List GoStr) :=
  match t.typ with
  | .cls => .ok (if t.lit.isEmpty then [] else [t.lit])
  | .attrEscapedValue => let v := unquote t.lit; .ok (if v.isEmpty then [] else [v])
  | .attrDynamicValue =>
    (splitOn (bs ", ") t.lit).foldlM (fun acc f =>
      match evalStr env f with
      | some v => .ok (if v.isEmpty then acc else acc ++ [v])
      | none => .error s!"class frag") []
  | _ => .error "class arg kind"

def silentKind (code : GoStr) : String :=
  if hasPrefix code (bs "else if ") then "elseif"
  else if code == bs "else" then "else"
  else if hasPrefix code (bs "if ") then "if"
  else if hasPrefix code (bs "for ") then "for"
  else "stmt"

def isElseNode : Node → Bool
  | .silent o _ _ => let k := silentKind (trimSpace o.lit); k == "elseif" || k == "else"
  | _ => false

/-- first branch of an if / else-if / else chain whose condition holds -/
def firstFiring (env : Env) : List (GoStr × List Node) → Except String (Option (List Node))
  | [] => .ok none
  | (code, body) :: rest =>
    match silentKind code with
    | "else" => .ok (some body)
    | k =>
      let condFrag := if k == "if" then code.drop 3 else code.drop 8
      match evalBool env condFrag with
      | none => .error "cond frag"
      | some true => .ok (some body)
      | some false => firstFiring env rest

structure Ctx where
  prog : List Tmpl
  env : Env
  own : Option Clo          -- the `__children` of the template being executed
  unesc : Bool := false

mutual
def execNode (fuel : Nat) (c : Ctx) (n : Node) (buf : GoStr) : Except String (GoStr × Bool) :=
  -- returns the buffer and the (possibly changed) isUnescaped flag is not needed at run time
  match fuel with
  | 0 => .error "fuel"
  | fuel+1 =>
  match n with
  | .doctype _ => .ok (buf ++ bs "<!DOCTYPE html>", false)
  | .newLine _ => .ok (buf ++ bs "\n", false)
  | .text t =>
    if t.typ == .dynamicText then do
      let v ← match fmtSplit t.lit with
        | some _ => .error "fmt not in prototype"
        | none => match evalStr c.env t.lit with | some v => pure v | none => .error s!"str frag {String.fromUTF8! (ByteArray.mk t.lit.toArray)}"
      pure (buf ++ (if c.unesc then v else htmlEscape v), false)
    else
      let s := t.lit
      let s := if t.typ == .preserveText then
          (if hasSuffix s (bs "\n") then s.take (s.length - 1) ++ bs "&#x000A;" else s) else s
      if t.typ == .plainText || t.typ == .preserveText || c.unesc then .ok (buf ++ s, false)
      else .ok (buf ++ htmlEscape s, false)
  | .script t => do
    let v ← match evalStr c.env t.lit with | some v => pure v | none => .error "script frag"
    pure (buf ++ (if c.unesc then v else htmlEscape v), false)
  | .unescape _ _ kids => do
    let buf ← execKids fuel { c with unesc := true } kids buf
    pure (buf, false)
  | .comment o _ kids =>
    if !o.lit.isEmpty then .ok (buf ++ bs "<!--" ++ htmlEscape o.lit ++ bs "-->\n", false)
    else do
      let buf ← execKids fuel c kids (buf ++ bs "<!--")
      pure (buf ++ bs "-->\n", false)
  | .element e kids => do
    let buf := if e.nukeOuter then buf ++ nukeBefore else buf
    let buf := buf ++ bs "<" ++ e.tag
    let buf := if !e.id.isEmpty then buf ++ bs " id=\"" ++ htmlEscape e.id ++ bs "\"" else buf
    -- classes (renderClass)
    let classes := e.classes ++ (match e.attrs.find? (·.1 == bs "class") with | some (_, a) => [a.origin] | none => [])
    let attrs := e.attrs.filter (·.1 != bs "class")
    let buf ←
      if classes.isEmpty then pure buf
      else do
        let parts ← classes.foldlM (fun acc t => do let p ← classArg c.env t; pure (acc ++ p)) []
        pure (buf ++ bs " class=\"" ++ joinWith (bs " ") parts ++ bs "\"")
    let buf ← attrs.foldlM (fun buf (_, a) =>
      if a.value.isEmpty then pure (buf ++ bs " " ++ a.name)
      else if a.isBoolean then
        match evalBool c.env a.value with
        | some true => pure (buf ++ bs " " ++ a.name)
        | some false => pure buf
        | none => .error "bool frag"
      else if a.isDynamic then
        match evalStr c.env a.value with
        | some v => pure (buf ++ bs " " ++ a.name ++ bs "=\"" ++ htmlEscape v ++ bs "\"")
        | none => .error "attr frag"
      else pure (buf ++ bs " " ++ a.name ++ bs "=\"" ++ htmlEscape a.value ++ bs "\"")) buf
    let buf := buf ++ bs ">"
    if e.isSelfClosing then pure (buf, false) else
    let buf := if e.nukeInner then buf ++ nukeAfter else buf
    let onlyNl := match kids with | [.newLine _] => true | _ => false
    let buf ← if onlyNl then pure buf else execKids fuel c kids buf
    let buf := if e.nukeInner then buf ++ nukeBefore else buf
    let buf := buf ++ bs "</" ++ e.tag ++ bs ">"
    pure ((if e.nukeOuter then buf ++ nukeAfter else buf ++ bs "\n"), false)
  | .render o _ kids => do
    -- `Name(a, b)` : evaluate arguments in the caller's environment, bind to the callee's parameters
    let (name, argFrags) := parseDecl o.lit
    match c.prog.find? (·.name == name) with
    | none => .error "unknown callee"
    | some t =>
      let strs := (t.params.zip argFrags).filterMap fun (p, a) => (evalStr c.env a).map fun v => (p, v)
      let bools := (t.params.zip argFrags).filterMap fun (p, a) => (evalBool c.env a).map fun v => (p, v)
      let lists := (t.params.zip argFrags).filterMap fun (p, a) => (c.env.list (trimSpace a)).map fun v => (p, v)
      let env' : Env := { strs := strs, bools := bools, lists := lists }
      let clo := if kids.isEmpty then none else some (Clo.mk kids c.env c.own)
      let buf ← execKids fuel { prog := c.prog, env := env', own := clo } t.kids buf
      pure (buf, false)
  | .children _ =>
    match c.own with
    | none => .ok (buf, false)
    | some (Clo.mk kids env own) => do
      let buf ← execKids fuel { prog := c.prog, env := env, own := own } kids buf
      pure (buf, false)
  | .filter o _ kind kids => do
    match kind with
    | .js => let buf ← execKids fuel c kids (buf ++ bs "<script>\n"); pure (buf ++ bs "</script>", false)
    | .css => let buf ← execKids fuel c kids (buf ++ bs "<style>\n"); pure (buf ++ bs "</style>", false)
    | .text =>
      let un := o.lit == bs "plain" || o.lit == bs "preserve"
      let buf ← execKids fuel { c with unesc := c.unesc || un } kids buf
      pure ((if o.lit == bs "preserve" then buf ++ bs "\n" else buf), false)
  | .silent _ _ _ => .error "silent handled in execKids"
  | .root .. | .code .. | .goht .. => .error "not a body node"

/-- siblings are executed left to right; `- if / else if / else` chains and `- for` are interpreted here -/
def execKids (fuel : Nat) (c : Ctx) (kids : List Node) (buf : GoStr) : Except String GoStr :=
  match fuel with
  | 0 => .error "fuel"
  | fuel+1 =>
  match kids with
  | [] => .ok buf
  | .silent o _ body :: rest =>
    let code := trimSpace o.lit
    match silentKind code with
    | "if" =>
      let branches := rest.takeWhile isElseNode
      let rest' := rest.dropWhile isElseNode
      let all := (code, body) :: branches.filterMap fun n =>
        match n with | .silent o _ b => some (trimSpace o.lit, b) | _ => none
      match firstFiring c.env all with
      | .error e => .error e
      | .ok none => execKids fuel c rest' buf
      | .ok (some b) => do
        let buf ← execKids fuel c b buf
        execKids fuel c rest' buf
    | "for" =>
      let ws := splitOn (bs " ") code
      match ws with
      | [_, _, x, _, _, xs] =>
        match c.env.list xs with
        | none => .error "loop list"
        | some vals => do
          let buf ← vals.foldlM (fun buf v =>
            execKids fuel { c with env := { c.env with strs := (x, v) :: c.env.strs } } body buf) buf
          execKids fuel c rest buf
      | _ => .error "loop header"
    | _ => .error "statement not in prototype"
  | k :: rest => do
    let (buf, _) ← execNode fuel c k buf
    execKids fuel c rest buf
end

/-- render template `name` of the file with the given environment (top-level call: no children) -/
def renderTop (input : GoStr) (name : GoStr) (env : Env) : Except String GoStr :=
  let (toks, _) := lexBytes input
  let (err, tree, _) := parseToks toks
  match err with
  | some e => .error s!"parse error {e.line}:{e.col}"
  | none =>
    let prog := templatesOf tree
    match prog.find? (·.name == name) with
    | none => .error "no such template"
    | some t =>
      match execKids 10000 { prog := prog, env := env, own := none } t.kids [] with
      | .ok buf => .ok (erase buf)
      | .error e => .error e

end GL
