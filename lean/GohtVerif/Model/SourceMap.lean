import GohtVerif.Model.Emit
/-! Model of `compiler/source_map.go`: `SourceMap.Add` registers, for every line of the token's
literal, one run of `len(line)+1` consecutive columns in both tables; later writes win. -/
namespace GL

def splitNl (s : GoStr) : List GoStr :=
  let rec go (cur : GoStr) : GoStr → List GoStr
    | [] => [cur.reverse]
    | b :: rest => if b == 10 then cur.reverse :: go [] rest else go (b :: cur) rest
  go [] s

/-- One single-line run registered by `SourceMap.Add`: columns `sc … sc+len` of source line `sl`
correspond to columns `tc … tc+len` of target line `tl` (0-based, inclusive of the end). -/
structure Frag where
  sl : Int
  sc : Int
  tl : Int
  tc : Int
  len : Nat
deriving DecidableEq, Repr

/-- the runs of one `Add(t, r)` call, in the order the Go loop writes them -/
def fragsOfAdd (t : Tok) (r : Range) : List Frag :=
  let rec go (i : Nat) : List GoStr → List Frag
    | [] => []
    | line :: rest =>
      { sl := t.line + i - 1, sc := if i == 0 then t.col - 1 else 0,
        tl := r.frm.line + i - 1, tc := if i == 0 then r.frm.col - 1 else 0, len := utf16Len line } :: go (i+1) rest
  go 0 (splitNl t.lit)

def Frag.covS (f : Frag) (l c : Int) : Bool := f.sl == l && decide (f.sc ≤ c) && decide (c ≤ f.sc + f.len)
def Frag.covT (f : Frag) (l c : Int) : Bool := f.tl == l && decide (f.tc ≤ c) && decide (c ≤ f.tc + f.len)

/-- `TargetPositionFromSource` over the log of runs, newest first ("last write wins"). -/
def toTgt : List Frag → Int → Int → Option (Int × Int)
  | [], _, _ => none
  | f :: fs, l, c => if f.covS l c then some (f.tl, f.tc + (c - f.sc)) else toTgt fs l c

/-- `SourcePositionFromTarget` over the log of runs, newest first. -/
def toSrc : List Frag → Int → Int → Option (Int × Int)
  | [], _, _ => none
  | f :: fs, l, c => if f.covT l c then some (f.sl, f.sc + (c - f.tc)) else toSrc fs l c

structure Entry where
  sl : Int
  sc : Int
  tl : Int
  tc : Int
deriving Repr

/-- the per-character writes of one run (what the Go inner loop does); used by the driver only -/
def Frag.entries (f : Frag) : List Entry :=
  (List.range (f.len + 1)).map fun (ci : Nat) =>
    { sl := f.sl, sc := f.sc + (ci : Int), tl := f.tl, tc := f.tc + (ci : Int) }

def disjS (f g : Frag) : Bool := f.sl != g.sl || decide (f.sc + f.len < g.sc) || decide (g.sc + g.len < f.sc)
def disjT (f g : Frag) : Bool := f.tl != g.tl || decide (f.tc + f.len < g.tc) || decide (g.tc + g.len < f.tc)

/-- decidable check: all runs pairwise disjoint on the given side -/
def allDisj (d : Frag → Frag → Bool) : List Frag → Bool
  | [] => true
  | f :: fs => fs.all (d f) && allDisj d fs

end GL
