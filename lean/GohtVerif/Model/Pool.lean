import GohtVerif.Gen.Facts
/-! Model of the run-time state shared between renders: the `sync.Pool` of buffers
(`GetBuffer` / `ReleaseBuffer` of runtime.go). A render takes a buffer (any pooled one, or a fresh
empty one), appends its chunks to it, flushes it to the destination and releases it;
`ReleaseBuffer` resets the buffer before putting it back (`Gen.shape_ReleaseBuffer_resetBeforePut`). -/
namespace Pool

abbrev Bytes := List UInt8

/-- one render in flight: the chunks it still has to write, and its buffer -/
structure Job where
  todo : List Bytes
  buf : Bytes
  total : Bytes          -- ghost: everything this render means to write, in order
deriving Repr

structure State where
  pool : List Bytes                 -- buffers available to `Get`
  jobs : List (Option Job)          -- slot i = render i in flight (none: not started or finished)
  done : List (Option Bytes)        -- slot i = what render i flushed

inductive Step where
  | start (i : Nat) (chunks : List Bytes) (usePooled : Option Nat)   -- GetBuffer: pooled buffer k, or a fresh one
  | write (i : Nat)                                                   -- append the next chunk
  | finish (i : Nat)                                                  -- flush, ReleaseBuffer (Reset, then Put)
  | fail (i : Nat)                                                    -- return early with an error: deferred ReleaseBuffer

def setAt {α} (l : List α) (i : Nat) (v : α) : List α := l.set i v

/-- `GetBuffer`: the pooled buffer `k` if there is one, otherwise a new empty buffer -/
def getBuf (pool : List Bytes) : Option Nat → Bytes × List Bytes
  | some k => (match pool[k]? with | some b => (b, pool.eraseIdx k) | none => ([], pool))
  | none => ([], pool)

def step (s : State) : Step → State
  | .start i chunks k =>
    if i < s.jobs.length then
      { s with pool := (getBuf s.pool k).2,
               jobs := setAt s.jobs i (some { todo := chunks, buf := (getBuf s.pool k).1, total := chunks.flatten }) }
    else s
  | .write i =>
    match s.jobs[i]? with
    | some (some j) =>
      (match j.todo with
       | c :: rest => { s with jobs := setAt s.jobs i (some { j with todo := rest, buf := j.buf ++ c }) }
       | [] => s)
    | _ => s
  | .finish i =>
    match s.jobs[i]? with
    | some (some j) =>
      if j.todo.isEmpty then
        { pool := [] :: s.pool, jobs := setAt s.jobs i none, done := setAt s.done i (some j.buf) }
      else s
    | _ => s
  | .fail i =>
    match s.jobs[i]? with
    | some (some _) => { s with pool := [] :: s.pool, jobs := setAt s.jobs i none }
    | _ => s

def run (s : State) (steps : List Step) : State := steps.foldl step s

end Pool
