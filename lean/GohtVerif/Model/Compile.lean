import GohtVerif.Model.SourceMap
namespace GL

structure CompileOut where
  lexOutcome : Outcome
  err : Option PErr
  text : GoStr
  frags : List Frag          -- the Add log as runs, newest first
  emitErr : Option String

def CompileOut.entries (c : CompileOut) : List Entry := (c.frags.reverse.map Frag.entries).flatten

def compile (input : GoStr) : CompileOut :=
  let (toks, oc0) := lexBytes input
  let (err, tree, pulled) := parseToks toks
  -- the lexer runs lazily inside the parser's `nextToken`: a failing state invocation is only
  -- reached when the parser pulls more tokens than the completed invocations produced
  let oc := if oc0 != .ok && pulled ≤ toks.length then .ok else oc0
  match emitNode tree false none {} {} with
  | .ok (g, _) =>
    { lexOutcome := oc, err := err, text := g.text,
      frags := (g.log.map fun (t, r) => (fragsOfAdd t r).reverse).flatten, emitErr := none }
  | .error e => { lexOutcome := oc, err := err, text := [], frags := [], emitErr := some e }

end GL
