import GohtVerif.Model.Emit
namespace GL

def splitNl (s : GoStr) : List GoStr :=
  let rec go (cur : GoStr) : GoStr → List GoStr
    | [] => [cur.reverse]
    | b :: rest => if b == 10 then cur.reverse :: go [] rest else go (b :: cur) rest
  go [] s

structure Entry where
  sl : Int
  sc : Int
  tl : Int
  tc : Int
deriving Repr

/-- SourceMap.Add as a list of per-character writes (both tables are written with the same pairs). -/
def smAdd (t : Tok) (r : Range) : List Entry :=
  let lines := splitNl t.lit
  let rec go (i : Nat) : List GoStr → List Entry
    | [] => []
    | line :: rest =>
      let srcLine := t.line + i - 1
      let tgtLine := r.frm.line + i - 1
      let srcCol : Int := if i == 0 then t.col - 1 else 0
      let tgtCol : Int := if i == 0 then r.frm.col - 1 else 0
      ((List.range (line.length + 1)).map fun (ci : Nat) =>
        { sl := srcLine, sc := srcCol + (ci : Int), tl := tgtLine, tc := tgtCol + (ci : Int) : Entry }) ++ go (i+1) rest
  go 0 lines

structure CompileOut where
  lexOutcome : Outcome
  err : Option PErr
  text : GoStr
  entries : List Entry
  emitErr : Option String

def compile (input : GoStr) : CompileOut :=
  let (toks, oc0) := lexBytes input
  let (err, tree, pulled) := parseToks toks
  -- the lexer runs lazily inside the parser's `nextToken`: a failing state invocation is only
  -- reached when the parser pulls more tokens than the completed invocations produced
  let oc := if oc0 != .ok && pulled ≤ toks.length then .ok else oc0
  match emitNode tree false none {} {} with
  | .ok (g, _) =>
    { lexOutcome := oc, err := err, text := g.text,
      entries := (g.log.reverse.map fun (t, r) => smAdd t r).flatten, emitErr := none }
  | .error e => { lexOutcome := oc, err := err, text := [], entries := [], emitErr := some e }

end GL
