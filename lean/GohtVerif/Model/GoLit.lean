import GohtVerif.Model.Basic
import GohtVerif.Gen.Facts
/-! Go string literals.

`quoteBody` is the model of `goLiteral` (nodes.go): `strconv.Quote(s)` without its outer quotes, the
function every static splice site of the emitter goes through. `litDecode` is the meaning Go gives to
the body of an interpreted string literal (language specification, "String literals" / "Rune
literals"): the escapes `\a \b \f \n \r \t \v \\ \"`, `\xHH`, `\uHHHH`, `\UHHHHHHHH`; every other
byte stands for itself; an unescaped `"` or a line break cannot occur inside the literal. Octal
escapes are valid Go but never produced by `strconv.Quote`: `litDecode` answers `none` for them, as
for every malformed body. `strconv.IsPrint` above ASCII is read from the toolchain on every run
(`Gen.isPrintRanges`); the round-trip theorem (Proofs/C04) holds for *every* such predicate. -/
namespace GL

def hexd (n : Nat) : UInt8 := if n < 10 then UInt8.ofNat (48 + n) else UInt8.ofNat (87 + n)
def hex2 (n : Nat) : GoStr := [hexd (n / 16 % 16), hexd (n % 16)]
def hex4 (n : Nat) : GoStr := hex2 (n / 256) ++ hex2 n
def hex8 (n : Nat) : GoStr := hex4 (n / 65536) ++ hex4 n

/-- `strconv.IsPrint` for runes ≥ 0x80 -/
def isPrintHi (cp : Nat) : Bool := Gen.isPrintRanges.any fun iv => iv.1 ≤ cp && cp ≤ iv.2

def printable (isPrint : Nat → Bool) (cp : Nat) : Bool :=
  if cp < 128 then 32 ≤ cp && cp < 127 else isPrint cp

/-- `appendEscapedRune` for a rune that was decoded from valid UTF-8 -/
def escRune (isPrint : Nat → Bool) (r : Rune) : GoStr :=
  if r.cp == 34 then [92, 34]
  else if r.cp == 92 then [92, 92]
  else if printable isPrint r.cp then r.enc
  else if r.cp == 7 then [92, 97]
  else if r.cp == 8 then [92, 98]
  else if r.cp == 12 then [92, 102]
  else if r.cp == 10 then [92, 110]
  else if r.cp == 13 then [92, 114]
  else if r.cp == 9 then [92, 116]
  else if r.cp == 11 then [92, 118]
  else if r.cp < 32 || r.cp == 127 then [92, 120] ++ hex2 r.cp
  else if r.cp < 65536 then [92, 117] ++ hex4 r.cp
  else [92, 85] ++ hex8 r.cp

/-- `strconv.Quote` minus the outer quotes; fuel = number of bytes (every rune consumes ≥ 1) -/
def quoteFuel (isPrint : Nat → Bool) : Nat → GoStr → GoStr
  | 0, _ => []
  | n+1, s =>
    match s with
    | [] => []
    | b0 :: _ =>
      match decode1 s with
      | none => []
      | some (r, t) =>
        (if r.width == 1 && r.cp == 0xFFFD then [92, 120] ++ hex2 b0.toNat   -- a byte that is not UTF-8
         else escRune isPrint r) ++ quoteFuel isPrint n t

def quoteBodyWith (isPrint : Nat → Bool) (s : GoStr) : GoStr := quoteFuel isPrint s.length s
def quoteBody (s : GoStr) : GoStr := quoteBodyWith isPrintHi s

/-! ### the meaning of the body of an interpreted string literal -/

def hexv (c : UInt8) : Option Nat :=
  if 48 ≤ c && c ≤ 57 then some (c.toNat - 48)
  else if 97 ≤ c && c ≤ 102 then some (c.toNat - 87)
  else if 65 ≤ c && c ≤ 70 then some (c.toNat - 55)
  else none

def hexvs : GoStr → Nat → Option Nat
  | [], acc => some acc
  | c :: cs, acc =>
    match hexv c with
    | some v => hexvs cs (acc * 16 + v)
    | none => none

def encodeRune (cp : Nat) : GoStr :=
  if cp < 0x80 then [UInt8.ofNat cp]
  else if cp < 0x800 then [UInt8.ofNat (0xC0 + cp / 64), UInt8.ofNat (0x80 + cp % 64)]
  else if cp < 0x10000 then
    [UInt8.ofNat (0xE0 + cp / 4096), UInt8.ofNat (0x80 + cp / 64 % 64), UInt8.ofNat (0x80 + cp % 64)]
  else
    [UInt8.ofNat (0xF0 + cp / 262144), UInt8.ofNat (0x80 + cp / 4096 % 64), UInt8.ofNat (0x80 + cp / 64 % 64),
     UInt8.ofNat (0x80 + cp % 64)]

def validRune (cp : Nat) : Bool := cp < 0x110000 && !(0xD800 ≤ cp && cp < 0xE000)

def simpleEsc (c : UInt8) : Option UInt8 :=
  if c == 97 then some 7 else if c == 98 then some 8 else if c == 102 then some 12
  else if c == 110 then some 10 else if c == 114 then some 13 else if c == 116 then some 9
  else if c == 118 then some 11 else if c == 92 then some 92 else if c == 34 then some 34 else none

def litDecode : GoStr → Option GoStr
  | [] => some []
  | b :: rest =>
    if b == 92 then
      match rest with
      | [] => none
      | c :: r1 =>
        if c == 120 then
          match r1 with
          | h1 :: h2 :: r2 =>
            match hexvs [h1, h2] 0, litDecode r2 with
            | some v, some d => some (UInt8.ofNat v :: d)
            | _, _ => none
          | _ => none
        else if c == 117 then
          match r1 with
          | h1 :: h2 :: h3 :: h4 :: r2 =>
            match hexvs [h1, h2, h3, h4] 0, litDecode r2 with
            | some v, some d => if validRune v then some (encodeRune v ++ d) else none
            | _, _ => none
          | _ => none
        else if c == 85 then
          match r1 with
          | h1 :: h2 :: h3 :: h4 :: h5 :: h6 :: h7 :: h8 :: r2 =>
            match hexvs [h1, h2, h3, h4, h5, h6, h7, h8] 0, litDecode r2 with
            | some v, some d => if validRune v then some (encodeRune v ++ d) else none
            | _, _ => none
          | _ => none
        else
          match simpleEsc c, litDecode r1 with
          | some v, some d => some (v :: d)
          | _, _ => none
    else if b == 34 || b == 10 then none
    else (litDecode rest).map (b :: ·)

end GL
