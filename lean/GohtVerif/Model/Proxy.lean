import GohtVerif.Model.Compile
/-! Model of the gopls proxy (`internal/proxy`): `proxy.Server` sits between the editor and the
Go language server, `proxy.Client` between the Go language server and the editor.

The compiler is a *parameter* (`Comp`): the theorems hold for every compiler; the driver
instantiates it with the compiler model of `Model/Compile`. The downstream server is scripted:
each request op carries the answer the downstream gives. Every observable event (downstream call,
editor notification, reply) is appended to the log. -/
namespace Px
open GL

structure Rng where
  sl : Int
  sc : Int
  el : Int
  ec : Int
deriving DecidableEq, Repr

structure Diag where
  r : Rng
  src : GoStr       -- "goht" for the compiler's own error, otherwise what the downstream sent
  msg : GoStr
deriving DecidableEq, Repr

structure Loc where
  uri : GoStr
  r : Rng
deriving DecidableEq, Repr

/-- what one compilation gives the proxy -/
structure CompRes where
  err : Option (Int × Int × GoStr)     -- the compiler's 1-based line, column and message
  text : GoStr
  map : List Frag

abbrev Comp := GoStr → CompRes

inductive Ev where
  | dOpen (uri : GoStr) (v : Int) (lang : GoStr) (text : GoStr)
  | dChange (uri : GoStr) (v : Int) (text : GoStr)
  | dClose (uri : GoStr)
  | dSave (uri : GoStr) (text : Option GoStr)
  | dReq (method : String) (uri : GoStr) (l c : Int)
  | dReqDoc (method : String) (uri : GoStr)
  | eDiag (uri : GoStr) (ds : List Diag)
  | eMsg (m : GoStr)
  | rNotify (what : String)
  | rLocs (method : String) (ls : Option (List Loc))
  | rDecl (ls : List (GoStr × Rng × Rng))
  | rRange (method : String) (r : Option Rng)
  | rRanges (method : String) (rs : Option (List Rng))
  | rFlag (method : String) (isNil : Bool)
  | rCount (method : String) (n : Nat)
  | rCompletion (items : Option (List (Option Rng × List (Rng × GoStr))))
deriving Repr

structure St where
  srcs : List (GoStr × GoStr) := []          -- mirrored template buffers
  smc : List (GoStr × List Frag) := []       -- position map per template (kept after close, like the Go cache)
  goSrcs : List (GoStr × GoStr) := []
  gohtDiag : List (GoStr × List Diag) := []
  goDiag : List (GoStr × List Diag) := []

inductive Op where
  | dopen (uri text : GoStr) (v : Int)
  | change (uri text : GoStr) (v : Int)
  | close (uri : GoStr)
  | save (uri text : GoStr)
  | req (method : String) (uri : GoStr) (l c : Int) (answer : List Loc) (isNil : Bool) (detail : GoStr)
  | pubdiag (uri : GoStr) (ds : List Diag)
  | showmsg (m : GoStr)

def sfxGoht : GoStr := [46, 103, 111, 104, 116]               -- ".goht"
def sfxGo : GoStr := [46, 103, 111]                           -- ".go"
def sfxGohtGo : GoStr := sfxGoht ++ sfxGo
def langGo : GoStr := [103, 111]
def srcGoht : GoStr := [103, 111, 104, 116]

def isGohtURI (u : GoStr) : Bool := hasSuffix u sfxGoht
def isGohtGoURI (u : GoStr) : Bool := hasSuffix u sfxGohtGo
def goURI (u : GoStr) : GoStr := u ++ sfxGo
/-- `toGohtURI`: generated-file URI → template URI -/
def toGohtURI (u : GoStr) : Option GoStr := if isGohtGoURI u then some (u.take (u.length - 3)) else none

def get {α} (m : List (GoStr × α)) (k : GoStr) : Option α := (m.find? (·.1 == k)).map (·.2)
def put {α} (m : List (GoStr × α)) (k : GoStr) (v : α) : List (GoStr × α) := (k, v) :: m.filter (·.1 != k)
def del {α} (m : List (GoStr × α)) (k : GoStr) : List (GoStr × α) := m.filter (·.1 != k)

/-- `goRangeToGohtRange`: each end is translated when the map knows it, otherwise left as it is -/
def mapRangeBack (m : Option (List Frag)) (r : Rng) : Rng :=
  match m with
  | none => r
  | some fs =>
    let r := match toSrc fs r.sl r.sc with | some (l, c) => { r with sl := l, sc := c } | none => r
    match toSrc fs r.el r.ec with | some (l, c) => { r with el := l, ec := c } | none => r

/-- `updatePosition` -/
def updatePosition (s : St) (uri : GoStr) (l c : Int) : Option (GoStr × Int × Int) :=
  if !isGohtURI uri then none else
  match get s.smc uri with
  | none => none
  | some fs => match toTgt fs l c with
    | none => none
    | some (tl, tc) => some (goURI uri, tl, tc)

/-- a location inside a generated template file comes back under the template URI, translated
with that template's own map; any other location is unchanged -/
def locBack (s : St) (x : Loc) : Loc :=
  match toGohtURI x.uri with
  | some g => { uri := g, r := mapRangeBack (get s.smc g) x.r }
  | none => x

/-- `parseTemplate`: publish the compiler's error (merged with the cached downstream diagnostics), or clear it -/
def parseTemplate (comp : Comp) (s : St) (uri text : GoStr) : St × CompRes × List Ev :=
  let c := comp text
  match c.err with
  | some (line, col, msg) =>
    let pos : Rng := { sl := (if line > 0 then line - 1 else 0), sc := (if col > 0 then col - 1 else 0),
                       el := (if line > 0 then line - 1 else 0), ec := (if col > 0 then col - 1 else 0) }
    let own : List Diag := [{ r := pos, src := srcGoht, msg := msg }]
    let s := { s with gohtDiag := put s.gohtDiag uri own }
    (s, c, [.eDiag uri ((get s.goDiag uri).getD [] ++ own)])
  | none =>
    ({ s with gohtDiag := put s.gohtDiag uri [] }, c, [.eDiag uri []])

def pkgFromDetail (d : GoStr) : GoStr :=
  -- `^.*\(from\s(".+")\)$`
  let marker : GoStr := [40, 102, 114, 111, 109]   -- "(from"
  let rec find (fuel : Nat) (s : GoStr) (best : Option GoStr) : Option GoStr :=
    match fuel with
    | 0 => best
    | fuel+1 =>
      match s with
      | [] => best
      | _ :: rest =>
        let best := if marker.isPrefixOf s then
            let after := s.drop 5
            match after with
            | w :: q :: _ => if (w == 32 || w == 9) && q == 34 && hasSuffix after [34, 41] && after.length ≥ 5
                then some ((after.drop 1).take (after.length - 2)) else best
            | _ => best
          else best
        find fuel rest best
  (find (d.length + 1) d none).getD d

def splitLines (s : GoStr) : List GoStr := splitNl s

/-- the last of the segments separated by 0x1E -/
def lastSeg30 (s : GoStr) : GoStr :=
  let rec go (cur : GoStr) : GoStr → GoStr
    | [] => cur.reverse
    | b :: rest => if b == 30 then go [] rest else go (b :: cur) rest
  go [] s

/-- the details of the items of one completion list, separated by 0x1F -/
def splitOn31 (s : GoStr) : List GoStr :=
  let rec go (cur : GoStr) : GoStr → List GoStr
    | [] => [cur.reverse]
    | b :: rest => if b == 31 then cur.reverse :: go [] rest else go (b :: cur) rest
  go [] s

def hasPfx (s p : GoStr) : Bool := p.isPrefixOf s

def kwImportGroup : GoStr := [105, 109, 112, 111, 114, 116, 32, 40]     -- "import ("
def kwImportSp : GoStr := [105, 109, 112, 111, 114, 116, 32]            -- "import "

/-- `nonImportKeywordRegexp`: `^(?:goht|func|var|const|type)\s` (blank or tab after the keyword) -/
def stopLine (l : GoStr) : Bool :=
  hasPfx l [103, 111, 104, 116, 32] || hasPfx l [102, 117, 110, 99, 32] || hasPfx l [118, 97, 114, 32] ||
  hasPfx l [99, 111, 110, 115, 116, 32] || hasPfx l [116, 121, 112, 101, 32] ||
  hasPfx l [103, 111, 104, 116, 9] || hasPfx l [102, 117, 110, 99, 9] || hasPfx l [118, 97, 114, 9] ||
  hasPfx l [99, 111, 110, 115, 116, 9] || hasPfx l [116, 121, 112, 101, 9]

/-- the scan of `addImport`: `inl` = insert into a group, `inr` = index of the last single-line import -/
def addImportGo (pkg : GoStr) : Nat → List GoStr → Bool → Option Nat → Sum (Nat × GoStr) (Option Nat)
  | _, [], _, lastSingle => .inr lastSingle
  | i, l :: rest, inGroup, lastSingle =>
    if hasPfx l kwImportGroup then addImportGo pkg (i+1) rest true lastSingle
    else if hasPfx l kwImportSp then addImportGo pkg (i+1) rest inGroup (some i)
    else if hasPfx l [41] && inGroup then .inl (i, [9] ++ pkg ++ [10])
    else if stopLine l then .inr lastSingle
    else addImportGo pkg (i+1) rest inGroup lastSingle

/-- `addImport`: where the import of a completion item is inserted into the template -/
def addImportEdit (lines : List GoStr) (pkg : GoStr) : Nat × GoStr :=
  match addImportGo pkg 0 lines false none with
  | .inl r => r
  | .inr (some k) => (k + 1, kwImportSp ++ pkg ++ [10])
  | .inr none => (2, kwImportSp ++ pkg ++ [10, 10])

def posMethods : List String :=
  ["Completion", "Hover", "Definition", "Declaration", "TypeDefinition", "Implementation", "References",
   "SignatureHelp", "PrepareRename", "OnTypeFormatting", "Moniker"]

/-- the empty answer each position-based method gives when the position has no counterpart -/
def emptyAnswer (m : String) : Ev :=
  match m with
  | "Completion" => .rCompletion none
  | "Hover" => .rRange m none
  | "PrepareRename" => .rRange m none
  | "OnTypeFormatting" => .rRanges m none
  | "SignatureHelp" => .rFlag m true
  | "Moniker" => .rCount m 0
  | "Declaration" => .rDecl []
  | _ => .rLocs m (some [])

def step (comp : Comp) (s : St) : Op → St × List Ev
  | .dopen uri text v =>
    if !isGohtURI uri then (s, [.dOpen uri v [103, 111, 104, 116] text, .rNotify "open"]) else
    let s := { s with srcs := put s.srcs uri text }
    let (s, c, evs) := parseTemplate comp s uri text
    let s := { s with smc := put s.smc uri c.map, goSrcs := put s.goSrcs uri c.text }
    (s, evs ++ [.dOpen (goURI uri) v langGo c.text, .rNotify "open"])
  | .change uri text0 v =>
    -- a notification may carry several full-text content changes (separated by 0x1E here): applied in
    -- order, the last one is the buffer
    let text := lastSeg30 text0
    if !isGohtURI uri then (s, [.rNotify "change"]) else
    match get s.srcs uri with
    | none => (s, [.rNotify "change-error"])
    | some _ =>
      let s := { s with srcs := put s.srcs uri text }
      let (s, c, evs) := parseTemplate comp s uri text
      let s := { s with smc := put s.smc uri c.map, goSrcs := put s.goSrcs uri c.text }
      (s, evs ++ [.dChange (goURI uri) v c.text, .rNotify "change"])
  | .close uri =>
    if !isGohtURI uri then (s, [.dClose uri, .rNotify "close"]) else
    ({ s with srcs := del s.srcs uri, goSrcs := del s.goSrcs uri }, [.dClose (goURI uri), .rNotify "close"])
  | .save uri text =>
    if !isGohtURI uri then (s, [.dSave uri (some text), .rNotify "save"]) else
    (s, [.dSave (goURI uri) (some ((get s.goSrcs uri).getD [])), .rNotify "save"])
  | .showmsg m =>
    let doNotEdit : GoStr := [68, 111, 32, 110, 111, 116, 32, 101, 100, 105, 116, 32, 116, 104, 105, 115, 32, 102, 105, 108, 101, 33]
    if hasPfx m doNotEdit then (s, [.rNotify "showmsg"]) else (s, [.eMsg m, .rNotify "showmsg"])
  | .pubdiag uri ds =>
    let g := (toGohtURI uri).getD []
    match get s.smc g with
    | none => (s, [.rNotify "pubdiag-error"])
    | some fs =>
      let ds' := ds.map fun d =>
        match toSrc fs d.r.sl d.r.sc with
        | none => d
        | some (l, c) =>
          if d.r.sl == d.r.el then { d with r := { sl := l, sc := c, el := l, ec := c + (d.r.ec - d.r.sc) } }
          else match toSrc fs d.r.el d.r.ec with
            | none => d
            | some (l2, c2) => { d with r := { sl := l, sc := c, el := l2, ec := c2 } }
      let s := { s with goDiag := put s.goDiag g ds' }
      (s, [.eDiag g ((get s.gohtDiag g).getD [] ++ ds'), .rNotify "pubdiag"])
  | .req m uri l c answer isNil detail =>
    if m == "CodeLens" || m == "CodeAction" then
      if !isGohtURI uri then (s, [.dReqDoc m uri, .rRanges m (some (answer.map (·.r)))]) else
      let back := answer.map fun x => mapRangeBack (get s.smc uri) x.r
      (s, [.dReqDoc m (goURI uri), .rRanges m (if isNil then none else some back)])
    else
    match updatePosition s uri l c with
    | none => (s, [emptyAnswer m])
    | some (gu, tl, tc) =>
      let call := Ev.dReq m gu tl tc
      let own := get s.smc uri
      match m with
      | "Definition" | "TypeDefinition" | "Implementation" | "References" =>
        (s, [call, .rLocs m (if isNil then none else some (answer.map (locBack s)))])
      | "Declaration" =>
        (s, [call, .rDecl (answer.map fun x =>
          match toGohtURI x.uri with
          | some g => (g, mapRangeBack (get s.smc g) x.r, mapRangeBack (get s.smc g) x.r)
          | none => (x.uri, x.r, x.r))])
      | "Hover" | "PrepareRename" =>
        (s, [call, .rRange m (if isNil then none else some (mapRangeBack own ((answer.head?.map (·.r)).getD ⟨0, 0, 0, 0⟩)))])
      | "OnTypeFormatting" =>
        (s, [call, .rRanges m (if isNil then none else some (answer.map fun x => mapRangeBack own x.r))])
      | "SignatureHelp" => (s, [call, .rFlag m isNil])
      | "Moniker" => (s, [call, .rCount m 1])
      | "Completion" =>
        if isNil then (s, [call, .rCompletion none]) else
        let te := answer.head?.map fun x => mapRangeBack own x.r
        -- one completion item per detail (details are separated by the unit separator 0x1F)
        let addsOf (detail : GoStr) : List (Rng × GoStr) :=
          if detail.isEmpty then []
          else match get s.srcs uri with
            | none => [(⟨4, 0, 4, 0⟩, [105, 109, 112, 111, 114, 116, 32, 88, 10])]   -- untouched downstream edit
            | some text =>
              let (line, txt) := addImportEdit (splitLines text) (pkgFromDetail detail)
              [(⟨line, 0, line, 0⟩, txt)]
        -- item k replaces the k-th scripted range (the first one when there are fewer ranges than items)
        let teOf (k : Nat) : Option Rng := match answer[k]? with | some x => some (mapRangeBack own x.r) | none => te
        (s, [call, .rCompletion (some ((splitOn31 detail).zipIdx.map fun (d, k) => (teOf k, addsOf d)))])
      | _ => (s, [call])

def run (comp : Comp) (s : St) (ops : List Op) : St × List Ev :=
  ops.foldl (fun (acc : St × List Ev) op => let (s', evs) := step comp acc.1 op; (s', acc.2 ++ evs)) (s, [])

/-- the compiler model as a `Comp` -/
def realComp : Comp := fun text =>
  let c := compile text
  { err := c.err.map fun e => (e.line, e.col, e.msg.toUTF8.toList), text := c.text, map := c.frags }

end Px
