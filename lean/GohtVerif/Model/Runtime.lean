import GohtVerif.Model.Parser
/-! Model of the run-time helpers of package goht (`runtime.go`, `helpers.go`).

A Go map is a list of entries **in iteration order**, i.e. an arbitrary permutation chosen by the
Go runtime at each call; keys are pairwise distinct. Theorems quantify over all such orders. -/
namespace GL

/-- the dynamic types the helpers switch on -/
inductive Val where
  | str (s : GoStr)
  | strs (l : List GoStr)                    -- []string
  | mapBool (m : List (GoStr × Bool))        -- map[string]bool, iteration order
  | mapStr (m : List (GoStr × GoStr))        -- map[string]string, iteration order
  | other                                    -- any other dynamic type (incl. untyped nil)
deriving Repr

/-- byte-lexicographic `≤`, the order `slices.Sort` uses on strings -/
def leStr : GoStr → GoStr → Bool
  | [], _ => true
  | _ :: _, [] => false
  | a :: as, b :: bs => if a < b then true else if b < a then false else leStr as bs

def sortStrs (l : List GoStr) : List GoStr := l.mergeSort leStr

def joinWithSep (sep : GoStr) : List GoStr → GoStr
  | [] => []
  | [a] => a
  | a :: rest => a ++ sep ++ joinWithSep sep rest

def lookupBool (m : List (GoStr × Bool)) (k : GoStr) : Bool :=
  match m.find? (·.1 == k) with
  | some (_, v) => v
  | none => false

/-- what one argument of `BuildClassList` contributes; `none` = unsupported type -/
def classItems : Val → Option (List GoStr)
  | .str s => some (if s.isEmpty then [] else [s])
  | .strs l => some l
  | .mapBool m => some ((sortStrs (m.map (·.1))).filter fun k => lookupBool m k && !k.isEmpty)
  | _ => none

def classItemsAll : List Val → Option (List GoStr)
  | [] => some []
  | v :: vs =>
    match classItems v, classItemsAll vs with
    | some a, some b => some (a ++ b)
    | _, _ => none

/-- `goht.BuildClassList`: `none` = returns an error -/
def buildClassList (args : List Val) : Option GoStr :=
  (classItemsAll args).map fun items => htmlEscape (joinWithSep [32] items)

def attrItems : Val → Option (List GoStr)
  | .mapBool m => some ((m.filter (·.2)).map fun kv => htmlEscape kv.1)
  | .mapStr m => some ((m.filter (fun kv => !kv.2.isEmpty)).map fun kv => htmlEscape kv.1 ++ [61, 34] ++ htmlEscape kv.2 ++ [34])
  | _ => none

def attrItemsAll : List Val → Option (List GoStr)
  | [] => some []
  | v :: vs =>
    match attrItems v, attrItemsAll vs with
    | some a, some b => some (a ++ b)
    | _, _ => none

/-- `goht.BuildAttributeList`: collect, sort, join with blanks -/
def buildAttributeList (args : List Val) : Option GoStr :=
  (attrItemsAll args).map fun items => joinWithSep [32] (sortStrs items)

/-- an object given to `[obj]`: which of the two methods its type has, and what they return -/
structure Obj where
  id : Option GoStr        -- `ObjectID()` if the type implements ObjectIDer
  cls : Option GoStr       -- `ObjectClass()` if the type implements ObjectClasser

/-- `goht.ObjectID(obj, prefix...)` -/
def objectID (o : Obj) (pfx : Option GoStr) : GoStr :=
  match o.id with
  | none => []
  | some i => htmlEscape (joinWithSep [95] ((pfx.toList ++ o.cls.toList) ++ [i]))

/-- `goht.ObjectClass(obj, prefix...)` -/
def objectClass (o : Obj) (pfx : Option GoStr) : GoStr :=
  match o.cls with
  | none => []
  | some c => joinWithSep [95] (pfx.toList ++ [c])

end GL
