import GohtVerif.Gen.Facts
/-! Model of `goht generate` (cmd/goht/cmd/generate.go) in its one-shot form (no `--watch`).

A run is a walk of the tree that decides, for every directory entry, whether an orphaned output is
removed or a template is queued (`walkEntry`), and a pool of workers that process the queue
(`processFile`). The walk runs concurrently with the workers, so the actions take effect in an order
the scheduler picks: a run is `exec` over *any permutation* of the actions of the walk.

The compiler together with gofmt is a parameter (`Cfg.fc` = `ParseFile`, `Generate`, `format.Source`):
the theorems hold for every compiler. Extensions, the default skip list and the skip prefixes are
read from the Go source (`Gen.gen*`). Only regular files are modelled (no symlinks, no directory
whose name ends in `.goht`); the content-hash shortcut of `processFile` is inert in a one-shot run
(the remembered hash is the zero value). -/
namespace Gn

abbrev Bytes := List UInt8

structure Path where
  dir : List Bytes      -- directory components below the root given to `--path`
  name : Bytes
deriving DecidableEq, Repr

structure File where
  content : Bytes
  mtime : Nat           -- modification time; every real time is > 0
deriving DecidableEq, Repr

abbrev FS := Path → Option File

def FS.set (fs : FS) (p : Path) (f : File) : FS := fun q => if q = p then some f else fs q
def FS.del (fs : FS) (p : Path) : FS := fun q => if q = p then none else fs q

structure Cfg where
  force : Bool
  keep : Bool
  skip : List Bytes                 -- `--skip-dirs` (default `Gen.defaultSkipDirs`)
  fc : Bytes → Option Bytes         -- compile + gofmt; none = the template does not compile
  clock : Path → Nat                -- the time at which the worker writes the output of a template

/-- ".go": what `strings.TrimSuffix(entryName, ".go")` removes and `entryName + ".go"` adds -/
def goExt : Bytes := Gen.genTrimSuffix

def isSrcName (n : Bytes) : Bool := Gen.genGohtExt.isSuffixOf n
def isOutName (n : Bytes) : Bool := Gen.genOutExt.isSuffixOf n
def Path.isSrc (p : Path) : Bool := isSrcName p.name
def Path.isOut (p : Path) : Bool := isOutName p.name
def Path.outOf (p : Path) : Path := { p with name := p.name ++ goExt }
def Path.srcOf (p : Path) : Path := { p with name := p.name.take (p.name.length - goExt.length) }

/-- a directory is skipped by its own name: a listed name, or a name starting with `.` or `_` -/
def skippedName (cfg : Cfg) (n : Bytes) : Bool :=
  Gen.genSkipPrefixes.any (fun pre => pre.isPrefixOf n) || cfg.skip.contains n
def Path.skipped (cfg : Cfg) (p : Path) : Bool := p.dir.any (skippedName cfg)

inductive Act where
  | remove (q : Path)
  | gen (p : Path)
deriving DecidableEq, Repr

/-- `lastModified` of the walk: the output's modification time unless `--force` (zero when absent) -/
def lastMod (cfg : Cfg) (fs : FS) (p : Path) : Nat :=
  if cfg.force then 0 else match fs p.outOf with | some o => o.mtime | none => 0

def stale (cfg : Cfg) (fs : FS) (p : Path) : Bool :=
  match fs p with
  | some s => decide (lastMod cfg fs p < s.mtime)
  | none => false

/-- the decision of `walkDir` for one file entry -/
def walkEntry (cfg : Cfg) (fs : FS) (p : Path) : List Act :=
  if p.skipped cfg then []
  else if p.isOut then
    (if !cfg.keep && (fs p.srcOf).isNone then [Act.remove p] else [])
  else if p.isSrc then
    (if stale cfg fs p then [Act.gen p] else [])
  else []

/-- `dom`: the file entries the walk meets -/
def walk (cfg : Cfg) (fs : FS) (dom : List Path) : List Act := dom.flatMap (walkEntry cfg fs)

/-- one action taking effect on the current tree: `os.Remove`, or `processFile` -/
def act (cfg : Cfg) (fs : FS) : Act → FS
  | .remove q => fs.del q
  | .gen p =>
    match fs p with
    | none => fs
    | some s =>
      match cfg.fc s.content with
      | none => fs
      | some o => fs.set p.outOf { content := o, mtime := cfg.clock p }

def exec (cfg : Cfg) (fs : FS) (acts : List Act) : FS := acts.foldl (act cfg) fs

/-- a run under the schedule that makes the actions take effect in the order `sched` -/
def runWith (cfg : Cfg) (fs : FS) (sched : List Act) : FS := exec cfg fs sched

/-- the run under the schedule "in walk order" -/
def run (cfg : Cfg) (fs : FS) (dom : List Path) : FS := exec cfg fs (walk cfg fs dom)

end Gn
