import GohtVerif.Proofs.QueueBound
namespace GL
set_option maxHeartbeats 400000 in
theorem stObjRef_out' (l : L) : (stObjRef l).1.out.length ≤ l.out.length + 1 := by
  unfold stObjRef
  simp only []
  split
  · refine Nat.le_trans (errorf_out_le _ _) ?_
    simp
  · simp only [skip_out]
    refine Nat.le_trans (emit_out_le _ _) ?_
    simp
end GL
