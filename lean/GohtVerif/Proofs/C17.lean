import GohtVerif.Proofs.Lemmas.Assoc
/-! # C17 — diagnostics land on the template text; parse errors are never masked -/
namespace Px.C17
open GL

/-- the compiler's own diagnostic for a compilation result: none if it compiles, otherwise one,
at the compiler's line and column converted to the protocol's zero-based units -/
def ownDiags (c : CompRes) : List Diag :=
  match c.err with
  | none => []
  | some (line, col, msg) =>
    [{ r := { sl := (if line > 0 then line - 1 else 0), sc := (if col > 0 then col - 1 else 0),
              el := (if line > 0 then line - 1 else 0), ec := (if col > 0 then col - 1 else 0) },
       src := srcGoht, msg := msg }]

/-- for every mirrored buffer the cached compiler diagnostic is the one of the current content -/
def Inv (comp : Comp) (s : St) : Prop :=
  ∀ u t, get s.srcs u = some t → get s.gohtDiag u = some (ownDiags (comp t))

theorem parseTemplate_diag (comp : Comp) (s : St) (u t : GoStr) :
    (parseTemplate comp s u t).1.gohtDiag = put s.gohtDiag u (ownDiags (comp t)) ∧
    (parseTemplate comp s u t).1.srcs = s.srcs := by
  unfold parseTemplate ownDiags
  simp only []
  split <;> simp [*]

theorem inv_step (comp : Comp) (s : St) (op : Op) (h : Inv comp s) : Inv comp (step comp s op).1 := by
  cases op with
  | dopen uri text v =>
    simp only [step]
    split
    · exact h
    · obtain ⟨h1, h2⟩ := parseTemplate_diag comp { s with srcs := put s.srcs uri text } uri text
      intro u t hu
      simp only [] at hu ⊢
      rw [h2] at hu
      rw [h1]
      by_cases hk : u = uri
      · subst hk
        rw [get_put_same] at hu; injection hu with hu; subst hu
        exact get_put_same _ _ _
      · rw [get_put_other _ _ _ _ hk] at hu
        rw [get_put_other _ _ _ _ hk]
        exact h u t hu
  | change uri text v =>
    simp only [step]
    split
    · exact h
    · split
      · exact h
      · obtain ⟨h1, h2⟩ := parseTemplate_diag comp { s with srcs := put s.srcs uri (lastSeg30 text) } uri (lastSeg30 text)
        intro u t hu
        simp only [] at hu ⊢
        rw [h2] at hu
        rw [h1]
        by_cases hk : u = uri
        · subst hk
          rw [get_put_same] at hu; injection hu with hu; subst hu
          exact get_put_same _ _ _
        · rw [get_put_other _ _ _ _ hk] at hu
          rw [get_put_other _ _ _ _ hk]
          exact h u t hu
  | close uri =>
    simp only [step]
    split
    · exact h
    · intro u t hu
      simp only [] at hu ⊢
      by_cases hk : u = uri
      · subst hk; rw [get_del_same] at hu; cases hu
      · rw [get_del_other _ _ _ hk] at hu; exact h u t hu
  | save uri text => simp only [step]; split <;> exact h
  | showmsg m => simp only [step]; split <;> exact h
  | pubdiag uri ds =>
    simp only [step]
    split
    · exact h
    · intro u t hu; exact h u t hu
  | req m uri l c answer isNil detail =>
    simp only [step]
    repeat' split
    all_goals exact h

/-- **Regardless of how many downstream publications intervene** — the invariant holds after any
history of buffer changes, publications, messages and requests. -/
theorem inv_run (comp : Comp) (ops : List Op) (s : St) (h : Inv comp s) : Inv comp (run comp s ops).1 := by
  unfold run
  suffices hs : ∀ (acc : St × List Ev), Inv comp acc.1 →
      Inv comp (ops.foldl (fun (acc : St × List Ev) op => let (s', evs) := step comp acc.1 op; (s', acc.2 ++ evs)) acc).1 from
    hs (s, []) h
  induction ops with
  | nil => intro acc h; exact h
  | cons op rest ih =>
    intro acc h
    simp only [List.foldl_cons]
    exact ih _ (inv_step comp acc.1 op h)

/-- **A downstream publication for the generated file of an open template is delivered under the
template's URI and contains the compiler's own error exactly while the buffer fails to compile**
(it starts with `ownDiags` of the current buffer: empty once the buffer compiles again). -/
theorem publication_contains_compiler_error (comp : Comp) (s : St) (g t : GoStr) (ds : List Diag) (fs : List Frag)
    (hi : Inv comp s) (hb : get s.srcs g = some t) (hm : get s.smc g = some fs) (hu : toGohtURI (goURI g) = some g) :
    ∃ ds', (step comp s (.pubdiag (goURI g) ds)).2 = [.eDiag g (ownDiags (comp t) ++ ds'), .rNotify "pubdiag"] ∧ ds'.length = ds.length := by
  simp only [step, hu, Option.getD_some, hm, hi g t hb]
  exact ⟨_, rfl, by simp⟩

/-- **Ranges that start in mapped text are moved to the template position of the same text**:
same length on one line, both ends mapped across lines. -/
theorem one_line_range_translated (fs : List Frag) (d : Diag) (l c : Int)
    (hs : toSrc fs d.r.sl d.r.sc = some (l, c)) (h1 : d.r.sl = d.r.el) :
    (match toSrc fs d.r.sl d.r.sc with
      | none => d
      | some (l, c) =>
        if d.r.sl == d.r.el then { d with r := { sl := l, sc := c, el := l, ec := c + (d.r.ec - d.r.sc) } }
        else match toSrc fs d.r.el d.r.ec with
          | none => d
          | some (l2, c2) => { d with r := { sl := l, sc := c, el := l2, ec := c2 } }).r =
      { sl := l, sc := c, el := l, ec := c + (d.r.ec - d.r.sc) } := by
  rw [hs]; simp [h1]

/-- **The compiler's error is published where the compiler reported it**: while the buffer fails to
compile, opening or changing it notifies the editor, under the template URI, with the error at
(line−1, column−1); when it compiles, with an empty list. -/
theorem change_publishes_compiler_error (comp : Comp) (s : St) (u t old : GoStr) (v : Int)
    (hu : isGohtURI u = true) (ho : get s.srcs u = some old) :
    ∃ cached, (step comp s (.change u t v)).2.head? = some (Ev.eDiag u (cached ++ ownDiags (comp (lastSeg30 t)))) ∧
      ((comp (lastSeg30 t)).err = none → cached = []) := by
  simp only [step, hu, Bool.not_true, Bool.false_eq_true, if_false, ho]
  unfold parseTemplate ownDiags
  simp only []
  cases h : (comp (lastSeg30 t)).err with
  | none => exact ⟨[], by simp, fun _ => rfl⟩
  | some e =>
    obtain ⟨line, col, msg⟩ := e
    refine ⟨(get s.goDiag u).getD [], ?_, fun hh => by cases hh⟩
    simp

/-- **Other messages are relayed, the do-not-edit warning is not.** -/
theorem showmsg_relay (comp : Comp) (s : St) (m : GoStr) :
    (hasPfx m [68, 111, 32, 110, 111, 116, 32, 101, 100, 105, 116, 32, 116, 104, 105, 115, 32, 102, 105, 108, 101, 33] = true →
      (step comp s (.showmsg m)).2 = [.rNotify "showmsg"]) ∧
    (hasPfx m [68, 111, 32, 110, 111, 116, 32, 101, 100, 105, 116, 32, 116, 104, 105, 115, 32, 102, 105, 108, 101, 33] = false →
      (step comp s (.showmsg m)).2 = [.eMsg m, .rNotify "showmsg"]) := by
  constructor <;> intro h <;> simp [step, h]

-- NOT EXPRESSIBLE: data-race freedom of the two connections (supporting evidence: -race build, pairs delivered from two goroutines)
-- PLANNED: fine-grained interleaving semantics (one step per cache call) and the stale-merge delivery order

end Px.C17
