import GohtVerif.Model.Pool
import GohtVerif.Model.Exec
/-! # C13 — renders are isolated: no state leaks across renders or goroutines

Two layers. (1) The exec model is a *function* of (templates, name, environment): it has no other
input, so in the model a render cannot depend on earlier renders. (2) The only run-time state
shared between renders is the buffer pool; `Pool` models it with arbitrary interleavings of the
atomic steps of N renders, and the theorem below shows that no render ever sees another render's
bytes, whatever the schedule, including renders that fail half-way. -/
namespace Pool.C13

/-- every pooled buffer is empty -/
def PoolClean (s : State) : Prop := ∀ b ∈ s.pool, b = []

/-- every render in flight holds exactly the prefix of its own output that it has written so far -/
def JobsOwn (s : State) : Prop :=
  ∀ (i : Nat) (j : Job), s.jobs[i]? = some (some j) → j.buf ++ j.todo.flatten = j.total

def Inv (s : State) : Prop := PoolClean s ∧ JobsOwn s

theorem eraseIdx_clean (p : List Bytes) (k : Nat) (h : ∀ b ∈ p, b = []) : ∀ b ∈ p.eraseIdx k, b = [] := by
  intro b hb
  exact h b (List.mem_of_mem_eraseIdx hb)

theorem getElem?_setIf {α} (l : List α) (i k : Nat) (v : α) :
    (l.set i v)[k]? = if i = k then (if i < l.length then some v else none) else l[k]? := by
  by_cases h : i = k
  · subst h
    by_cases h2 : i < l.length
    · simp [h2]
    · simp [h2]
  · simp [h, List.getElem?_set_ne h]

theorem setAt_get {α} (l : List α) (i k : Nat) (v x : α) (h : (setAt l i v)[k]? = some x) :
    (k = i ∧ x = v) ∨ (k ≠ i ∧ l[k]? = some x) := by
  simp only [setAt, getElem?_setIf] at h
  by_cases hik : i = k
  · subst hik
    simp only [if_true] at h
    by_cases hl : i < l.length
    · simp only [hl, if_true, Option.some.injEq] at h
      exact Or.inl ⟨rfl, h.symm⟩
    · simp [hl] at h
  · simp only [hik, if_false] at h
    exact Or.inr ⟨fun e => hik e.symm, h⟩

theorem getBuf_clean (pool : List Bytes) (k : Option Nat) (hp : ∀ b ∈ pool, b = []) :
    (getBuf pool k).1 = [] ∧ ∀ x ∈ (getBuf pool k).2, x = [] := by
  cases k with
  | none => exact ⟨rfl, hp⟩
  | some k =>
    simp only [getBuf]
    cases hk : pool[k]? with
    | none => exact ⟨rfl, hp⟩
    | some b0 =>
      exact ⟨hp b0 (List.mem_of_getElem? hk), eraseIdx_clean _ _ hp⟩

/-- **One step preserves the invariant**, whichever render moves and whichever buffer `Get` hands out. -/
theorem inv_step (s : State) (st : Step) (h : Inv s) : Inv (step s st) := by
  obtain ⟨hp, hj⟩ := h
  have consClean : ∀ b ∈ ([] : Bytes) :: s.pool, b = [] := by
    intro b hb
    simp only [List.mem_cons] at hb
    rcases hb with rfl | hb
    · rfl
    · exact hp b hb
  cases st with
  | start i chunks k =>
    simp only [step]
    obtain ⟨hbe, hpc⟩ := getBuf_clean s.pool k hp
    split
    · refine ⟨hpc, ?_⟩
      intro i' j' hj'
      rcases setAt_get _ _ _ _ _ hj' with ⟨_, hv⟩ | ⟨_, hold⟩
      · injection hv with hv; subst hv; simp [hbe]
      · exact hj i' j' hold
    · exact ⟨hp, hj⟩
  | write i =>
    simp only [step]
    split
    · rename_i j hji
      split
      · rename_i c rest htodo
        refine ⟨hp, ?_⟩
        intro i' j' hj'
        rcases setAt_get _ _ _ _ _ hj' with ⟨_, hv⟩ | ⟨_, hold⟩
        · injection hv with hv; subst hv
          have := hj i j hji
          simp only [htodo, List.flatten_cons] at this
          simp [← this]
        · exact hj i' j' hold
      · exact ⟨hp, hj⟩
    · exact ⟨hp, hj⟩
  | finish i =>
    simp only [step]
    split
    · split
      · refine ⟨consClean, ?_⟩
        intro i' j' hj'
        rcases setAt_get _ _ _ _ _ hj' with ⟨_, hv⟩ | ⟨_, hold⟩
        · cases hv
        · exact hj i' j' hold
      · exact ⟨hp, hj⟩
    · exact ⟨hp, hj⟩
  | fail i =>
    simp only [step]
    split
    · refine ⟨consClean, ?_⟩
      intro i' j' hj'
      rcases setAt_get _ _ _ _ _ hj' with ⟨_, hv⟩ | ⟨_, hold⟩
      · cases hv
      · exact hj i' j' hold
    · exact ⟨hp, hj⟩

/-- **Every schedule** — the invariant holds after any interleaving of start / write / finish /
fail steps of any number of renders (induction over the schedule). -/
theorem inv_run (s : State) (steps : List Step) (h : Inv s) : Inv (run s steps) := by
  induction steps generalizing s with
  | nil => exact h
  | cons st rest ih => exact ih (step s st) (inv_step s st h)

/-- **Isolation** — in any reachable state, a render that flushes writes exactly its own output:
`finish i` stores `total` of render i, nothing of any other render, earlier or concurrent. -/
theorem flush_is_own_output (s : State) (i : Nat) (j : Job) (h : Inv s)
    (hj : s.jobs[i]? = some (some j)) (hdone : j.todo = []) (hi : i < s.done.length) :
    (step s (.finish i)).done[i]? = some (some j.total) := by
  have hown := h.2 i j hj
  simp only [hdone, List.flatten_nil, List.append_nil] at hown
  simp [step, hj, hdone, setAt, hi, hown]

/-- the initial state of a process satisfies the invariant -/
theorem inv_init (n : Nat) : Inv { pool := [], jobs := List.replicate n none, done := List.replicate n none } := by
  refine ⟨?_, ?_⟩
  · intro b hb; cases hb
  · intro i j hj
    simp only [List.getElem?_replicate] at hj
    split at hj <;> simp at hj

/-- the fact the pool model rests on, as extracted from runtime.go on this run -/
theorem release_resets_before_put : Gen.shape_ReleaseBuffer_resetBeforePut = true := by decide

-- NOT EXPRESSIBLE in the model: data-race freedom in the Go memory model — supporting evidence from -race runs (32 goroutines)
-- PLANNED: the context children slot (PushChildren/PopChildren) as a second shared-state component with the same invariant shape

end Pool.C13

namespace GL.C13

/-- **Renders are a function of their inputs** — the exec model has no hidden state: equal
template set, name and environment give equal observations (trivially, it is a Lean function);
stated to make the dependency explicit. -/
theorem render_is_a_function (prog : Option (List Tmpl)) (name : GoStr) (env : Env) :
    ∀ r₁ r₂, r₁ = renderProg prog name env → r₂ = renderProg prog name env → r₁.writes = r₂.writes := by
  intro r₁ r₂ h1 h2; rw [h1, h2]

end GL.C13
