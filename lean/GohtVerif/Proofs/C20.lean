import GohtVerif.Model.Proxy
/-! # C20 — auto-import completions add exactly the import to the template file -/
namespace Px.C20
open GL

/-- a line that neither belongs to the import section nor ends the scan -/
def Neutral (l : GoStr) : Prop :=
  hasPfx l kwImportGroup = false ∧ hasPfx l kwImportSp = false ∧ hasPfx l [41] = false ∧ stopLine l = false

theorem go_neutral (pkg : GoStr) (l : GoStr) (rest : List GoStr) (i : Nat) (g : Bool) (ls : Option Nat) (h : Neutral l) :
    addImportGo pkg i (l :: rest) g ls = addImportGo pkg (i+1) rest g ls := by
  obtain ⟨h1, h2, h3, h4⟩ := h
  simp [addImportGo, h1, h2, h3, h4]

theorem go_neutrals (pkg : GoStr) (pre rest : List GoStr) (i : Nat) (g : Bool) (ls : Option Nat) (h : ∀ l ∈ pre, Neutral l) :
    addImportGo pkg i (pre ++ rest) g ls = addImportGo pkg (i + pre.length) rest g ls := by
  induction pre generalizing i with
  | nil => simp
  | cons l pre ih =>
    rw [List.cons_append, go_neutral pkg l _ i g ls (h l List.mem_cons_self)]
    rw [ih (i+1) (fun x hx => h x (List.mem_cons_of_mem _ hx))]
    congr 1; simp; omega

/-- **Import group** — for a file `pre ++ ["import (…"] ++ entries ++ [")…"] ++ post` whose lines
before the group and inside it are neutral, the edit inserts `\t<pkg>\n` on the line of the closing
parenthesis: the new package becomes the last entry of the group, every other line is untouched. -/
theorem group_layout (pre entries post : List GoStr) (open_ close_ pkg : GoStr)
    (hpre : ∀ l ∈ pre, Neutral l) (hent : ∀ l ∈ entries, Neutral l)
    (hopen : hasPfx open_ kwImportGroup = true) (hclose : hasPfx close_ [41] = true)
    (hc1 : hasPfx close_ kwImportGroup = false) (hc2 : hasPfx close_ kwImportSp = false) :
    addImportEdit (pre ++ [open_] ++ entries ++ [close_] ++ post) pkg = (pre.length + 1 + entries.length, [9] ++ pkg ++ [10]) := by
  unfold addImportEdit
  have e1 : pre ++ [open_] ++ entries ++ [close_] ++ post = pre ++ (open_ :: (entries ++ (close_ :: post))) := by simp
  rw [e1, go_neutrals pkg pre _ 0 false none hpre]
  simp only [addImportGo, hopen, if_true]
  rw [go_neutrals pkg entries _ _ true none hent]
  simp only [addImportGo, hc1, hc2, hclose, Bool.false_eq_true, if_false, Bool.and_self, if_true]
  all_goals first | rfl | (congr 1; omega) | (simp; omega) | simp

/-- **Single-line imports** — after neutral lines, a run of `import …` lines followed by a neutral
line and then the first declaration: the new import line goes right after the last of them. -/
theorem single_layout (pre post : List GoStr) (imp stop_ pkg : GoStr)
    (hpre : ∀ l ∈ pre, Neutral l) (himp : hasPfx imp kwImportSp = true) (hig : hasPfx imp kwImportGroup = false)
    (hs1 : hasPfx stop_ kwImportGroup = false) (hs2 : hasPfx stop_ kwImportSp = false) (hs3 : hasPfx stop_ [41] = false)
    (hs4 : stopLine stop_ = true) :
    addImportEdit (pre ++ [imp, stop_] ++ post) pkg = (pre.length + 1, kwImportSp ++ pkg ++ [10]) := by
  unfold addImportEdit
  have e1 : pre ++ [imp, stop_] ++ post = pre ++ (imp :: stop_ :: post) := by simp
  rw [e1, go_neutrals pkg pre _ 0 false none hpre]
  simp [addImportGo, himp, hig, hs1, hs2, hs3, hs4]

/-- a single-line import: starts with `import ` and does not open a group -/
def ImportLine (l : GoStr) : Prop := hasPfx l kwImportSp = true ∧ hasPfx l kwImportGroup = false

theorem go_imports (pkg : GoStr) (imps rest : List GoStr) (i : Nat) (ls : Option Nat)
    (h : ∀ l ∈ imps, ImportLine l) (hne : imps ≠ []) :
    addImportGo pkg i (imps ++ rest) false ls = addImportGo pkg (i + imps.length) rest false (some (i + imps.length - 1)) := by
  induction imps generalizing i ls with
  | nil => exact absurd rfl hne
  | cons l imps ih =>
    obtain ⟨h1, h2⟩ := h l List.mem_cons_self
    simp only [List.cons_append, addImportGo, h1, h2, Bool.false_eq_true, if_false, if_true]
    by_cases hn : imps = []
    · subst hn; simp
    · rw [ih (i+1) (some i) (fun x hx => h x (List.mem_cons_of_mem _ hx)) hn]
      simp only [List.length_cons]
      have e1 : i + 1 + imps.length = i + (imps.length + 1) := by omega
      have e2 : i + 1 + imps.length - 1 = i + (imps.length + 1) - 1 := by omega
      rw [e1]

/-- **Any number of single-line imports** — after neutral lines, a run of one or more `import …`
lines followed by a line that ends the scan: the new import line goes right after the last of them. -/
theorem single_lines_layout (pre imps post : List GoStr) (stop_ pkg : GoStr)
    (hpre : ∀ l ∈ pre, Neutral l) (himp : ∀ l ∈ imps, ImportLine l) (hne : imps ≠ [])
    (hs1 : hasPfx stop_ kwImportGroup = false) (hs2 : hasPfx stop_ kwImportSp = false) (hs3 : hasPfx stop_ [41] = false)
    (hs4 : stopLine stop_ = true) :
    addImportEdit (pre ++ imps ++ [stop_] ++ post) pkg = (pre.length + imps.length, kwImportSp ++ pkg ++ [10]) := by
  unfold addImportEdit
  have e1 : pre ++ imps ++ [stop_] ++ post = pre ++ (imps ++ (stop_ :: post)) := by simp
  rw [e1, go_neutrals pkg pre _ 0 false none hpre, go_imports pkg imps _ _ none himp hne]
  have hl : 0 < imps.length := List.length_pos_iff.mpr hne
  simp only [addImportGo, hs1, hs2, hs3, hs4, Bool.false_eq_true, if_false, if_true, Bool.false_and]
  congr 1; omega

/-- **No imports** — when no line starts an import before the scan ends, the import line is
inserted at line 2 followed by a blank line (right after `package …` + blank line in the layout
the property quantifies over). -/
theorem no_import_layout (pre : List GoStr) (pkg : GoStr) (hpre : ∀ l ∈ pre, Neutral l) :
    addImportEdit pre pkg = (2, kwImportSp ++ pkg ++ [10, 10]) := by
  unfold addImportEdit
  have h := go_neutrals pkg pre [] 0 false none hpre
  rw [List.append_nil] at h
  rw [h]
  simp [addImportGo]

theorem getLast_nl (a : GoStr) (b : GoStr) : (a ++ b ++ [10]).getLast? = some 10 := by simp
theorem getLast_nl2 (a : GoStr) (b : GoStr) : (a ++ b ++ [10, 10]).getLast? = some 10 := by
  have : a ++ b ++ [10, 10] = (a ++ b ++ [10]) ++ [10] := by simp
  rw [this]; simp

theorem go_inl (pkg : GoStr) (ls : List GoStr) (i : Nat) (g : Bool) (k : Option Nat) (r : Nat × GoStr)
    (h : addImportGo pkg i ls g k = .inl r) : r.2 = [9] ++ pkg ++ [10] := by
  induction ls generalizing i g k with
  | nil => simp [addImportGo] at h
  | cons l rest ih =>
    simp only [addImportGo] at h
    split at h
    · exact ih _ _ _ h
    · split at h
      · exact ih _ _ _ h
      · split at h
        · injection h with h; rw [← h]
        · split at h
          · cases h
          · exact ih _ _ _ h

/-- **The inserted text is always whole lines** — it ends with a line break, in every layout. -/
theorem inserted_text_is_whole_lines (lines : List GoStr) (pkg : GoStr) :
    ((addImportEdit lines pkg).2).getLast? = some 10 := by
  unfold addImportEdit
  cases hh : addImportGo pkg 0 lines false none with
  | inl r => simp only []; rw [go_inl _ _ _ _ _ _ hh]; exact getLast_nl _ _
  | inr k =>
    cases k with
    | none => exact getLast_nl2 _ _
    | some _ => exact getLast_nl _ _

/-- **The package path is taken from the completion detail** — gopls' form `… (from "path")`. -/
example : pkgFromDetail (bs "func(a ...any) string (from \"os\")") = bs "\"os\"" := by decide +kernel
example : pkgFromDetail (bs "\"path/filepath\"") = bs "\"path/filepath\"" := by decide +kernel

/-- non-vacuity of the group theorem on a concrete file -/
example : addImportEdit [bs "package x", [], bs "import (", bs "\t\"fmt\"", bs ")", [], bs "@goht T() {"] (bs "\"os\"") =
    (4, [9] ++ bs "\"os\"" ++ [10]) := by decide +kernel

-- NOT PROVED: "the edited file still compiles and declares exactly the previous imports plus the new one" — decided by the oracle (apply the real edit, recompile with the real compiler) and the tie (Completion reply of the real proxy vs this model)

end Px.C20
