import GohtVerif.Proofs.C02
/-! # C04 — literal template content is reproduced exactly and cannot alter generated code

Static content reaches the generated file through `quoteBody` (the model of `strconv.Quote` minus
its outer quotes, now applied at every splice site) and, at the escaped positions, through
`htmlEscape` first. -/
namespace GL.C04

/-- **Escaped positions decode to the content** — tag names, ids, classes, attribute names and
values, one-line comments and `:escaped` bodies are written as `htmlEscape s`, and entity decoding
gives back `s`, for every byte string. -/
theorem escaped_position_roundtrip (s : GoStr) : C02.unesc (htmlEscape s) = s := C02.unesc_htmlEscape s

/-- escaped content can neither close the tag nor leave a quoted attribute value -/
theorem escaped_position_no_meta (s : GoStr) : ∀ c ∈ htmlEscape s, c ≠ 60 ∧ c ≠ 62 ∧ c ≠ 34 ∧ c ≠ 39 :=
  C02.htmlEscape_no_meta s

/-- **Raw positions are untouched by the run-time model** — a plain text token reaches the buffer
byte for byte (text lines, `\#{`, `:plain`, `:css`, `:javascript` bodies). -/
theorem plain_text_verbatim (fuel : Nat) (c : Ctx) (t : Tok) (buf : Buf) (h : t.typ = .plainText) :
    execNode (fuel+1) c (.text t) buf = .ok (t.lit :: buf) := by
  simp [execNode, h]

/-- `:preserve` keeps its line break as an entity and is otherwise verbatim -/
theorem preserve_text (fuel : Nat) (c : Ctx) (t : Tok) (buf : Buf) (h : t.typ = .preserveText) :
    execNode (fuel+1) c (.text t) buf =
      .ok ((if hasSuffix t.lit [10] then t.lit.take (t.lit.length - 1) ++ bs "&#x000A;" else t.lit) :: buf) := by
  simp [execNode, h]

/-- `:escaped` bodies are HTML-escaped once -/
theorem escaped_text (fuel : Nat) (c : Ctx) (t : Tok) (buf : Buf) (h : t.typ = .escapedText) (hu : c.unesc = false) :
    execNode (fuel+1) c (.text t) buf = .ok (htmlEscape t.lit :: buf) := by
  simp [execNode, h, hu]

-- PLANNED: goLitDecode (quoteBody s) = some s for every byte string (Go interpreted-string-literal semantics), and litSafe (quoteBody s): no unescaped quote, backslash or newline — "cannot terminate, alter or inject"
-- PLANNED: per-site theorem for each static position k: the chunk spliced into the Go literal is quoteBody (…)
-- KNOWN (recorded finding): content containing the whitespace-marker sequences is eaten by the eraser

end GL.C04
