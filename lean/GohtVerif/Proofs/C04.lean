import GohtVerif.Proofs.C02
import GohtVerif.Proofs.Lemmas.GoLit
/-! # C04 — literal template content is reproduced exactly and cannot alter generated code

Static content reaches the generated file through `quoteBody` (the model of `strconv.Quote` minus
its outer quotes, now applied at every splice site) and, at the escaped positions, through
`htmlEscape` first. -/
namespace GL.C04

/-- **Escaped positions decode to the content** — tag names, ids, classes, attribute names and
values, one-line comments and `:escaped` bodies are written as `htmlEscape s`, and entity decoding
gives back `s`, for every byte string. -/
theorem escaped_position_roundtrip (s : GoStr) : C02.unesc (htmlEscape s) = s := C02.unesc_htmlEscape s

/-- escaped content can neither close the tag nor leave a quoted attribute value -/
theorem escaped_position_no_meta (s : GoStr) : ∀ c ∈ htmlEscape s, c ≠ 60 ∧ c ≠ 62 ∧ c ≠ 34 ∧ c ≠ 39 :=
  C02.htmlEscape_no_meta s

/-- **Raw positions are untouched by the run-time model** — a plain text token reaches the buffer
byte for byte (text lines, `\#{`, `:plain`, `:css`, `:javascript` bodies). -/
theorem plain_text_verbatim (fuel : Nat) (c : Ctx) (t : Tok) (buf : Buf) (h : t.typ = .plainText) :
    execNode (fuel+1) c (.text t) buf = .ok (t.lit :: buf) := by
  simp [execNode, h]

/-- `:preserve` keeps its line break as an entity and is otherwise verbatim -/
theorem preserve_text (fuel : Nat) (c : Ctx) (t : Tok) (buf : Buf) (h : t.typ = .preserveText) :
    execNode (fuel+1) c (.text t) buf =
      .ok ((if hasSuffix t.lit [10] then t.lit.take (t.lit.length - 1) ++ bs "&#x000A;" else t.lit) :: buf) := by
  simp [execNode, h]

/-- `:escaped` bodies are HTML-escaped once -/
theorem escaped_text (fuel : Nat) (c : Ctx) (t : Tok) (buf : Buf) (h : t.typ = .escapedText) (hu : c.unesc = false) :
    execNode (fuel+1) c (.text t) buf = .ok (htmlEscape t.lit :: buf) := by
  simp [execNode, h, hu]

/-- **Static content cannot terminate, alter or inject into the generated code** — every static
splice site writes `quoteBody x` between the double quotes of a Go string literal (`goLiteral`, the
model of `strconv.Quote` minus its quotes, with the toolchain's `IsPrint` table). Go reads that body
back as exactly `x`: the literal is not closed early (`litDecode` fails on an unescaped quote or line
break), no escape is malformed, and no byte is changed — for every byte string, valid UTF-8 or not. -/
theorem go_literal_roundtrip (x : GoStr) : litDecode (quoteBody x) = some x := quote_roundtrip isPrintHi x

/-- an escaped position: the literal evaluates to `htmlEscape x`, which entity-decodes to `x` -/
theorem escaped_site_roundtrip (x : GoStr) :
    (litDecode (quoteBody (htmlEscape x))).map C02.unesc = some x := by
  rw [go_literal_roundtrip]; simp [C02.unesc_htmlEscape]

/-- a concrete body: quote, backslash, line feed, `é`, a byte that is not UTF-8, NO-BREAK SPACE (not printable) -/
example : quoteBody [34, 92, 10, 0xC3, 0xA9, 0xFF, 0xC2, 0xA0] =
    [92, 34, 92, 92, 92, 110, 0xC3, 0xA9, 92, 120, 102, 102, 92, 117, 48, 48, 97, 48] := by decide +kernel
example : litDecode [92, 34, 92, 92, 92, 110, 0xC3, 0xA9, 92, 120, 102, 102, 92, 117, 48, 48, 97, 48] =
    some [34, 92, 10, 0xC3, 0xA9, 0xFF, 0xC2, 0xA0] := by decide +kernel
/-- what the decoder refuses: a body that would close the literal, or break the line -/
example : litDecode [97, 34, 98] = none ∧ litDecode [97, 10] = none ∧ litDecode [92] = none ∧ litDecode [92, 113] = none := by decide +kernel

/-- **A carriage return ends static content wherever a line feed does** — every stop set of the lexer
(as extracted from lexers.go on this run) that delimits a tag name, id, class, attribute name, text line,
comment, doctype or filter line and contains `\n` contains `\r` as well: in a file with CRLF line ends no
static position swallows the carriage return of its line end. -/
theorem static_content_stops_at_cr :
    (10 ∈ Gen.hamlIdentifier_acceptUntil0 → 13 ∈ Gen.hamlIdentifier_acceptUntil0) ∧
    (10 ∈ Gen.lexGohtAttributeName_acceptUntil0 ∧ 13 ∈ Gen.lexGohtAttributeName_acceptUntil0) ∧
    (10 ∈ Gen.lexAttributeCommandStart_acceptUntil0 ∧ 13 ∈ Gen.lexAttributeCommandStart_acceptUntil0) ∧
    (10 ∈ Gen.lexGohtTextContent_acceptUntil0 ∧ 13 ∈ Gen.lexGohtTextContent_acceptUntil0) ∧
    (10 ∈ Gen.lexComment_acceptUntil0 ∧ 13 ∈ Gen.lexComment_acceptUntil0) ∧
    (10 ∈ Gen.lexGohtDoctype_acceptUntil0 ∧ 13 ∈ Gen.lexGohtDoctype_acceptUntil0) ∧
    (10 ∈ Gen.lexFilterStart_acceptUntil0 ∧ 13 ∈ Gen.lexFilterStart_acceptUntil0) ∧
    (10 ∈ Gen.lexFilterContent_acceptUntil0 ∧ 13 ∈ Gen.lexFilterContent_acceptUntil0) := by decide

-- PLANNED: per-site theorem for each static position k: the chunk spliced into the Go literal is quoteBody (…)
-- KNOWN (recorded finding): content containing the whitespace-marker sequences is eaten by the eraser

end GL.C04
