import GohtVerif.Model.Compile
import GohtVerif.Proofs.Lemmas.LexOneLine
/-! # C11 — Go code around templates, package clause and imports pass through intact

The hoisting rules are theorems of the parser model; the lossless pass-through of Go lines is tied
(O-emit.text, byte for byte) and checked by the oracle on real `Generate` output. -/
namespace GL.C11

def lits (ts : List Tok) : List GoStr := ts.map (·.lit)

theorem addImport_lits (ui : List Tok) (t : Tok) :
    lits (addImport ui t) = if isOwnImport t.lit || (lits ui).contains t.lit then lits ui else lits ui ++ [t.lit] := by
  unfold addImport lits
  have : (ui.any fun x => x.lit == t.lit) = (List.map (fun x => x.lit) ui).contains t.lit := by
    induction ui with
    | nil => rfl
    | cons a as ih =>
      simp only [List.any_cons, List.map_cons, List.contains_cons, ih]
      congr 1
      exact Bool.eq_iff_iff.mpr ⟨fun h => by simpa using (beq_iff_eq.mp h).symm, fun h => by simpa using (beq_iff_eq.mp h).symm⟩
  rw [this]
  split <;> simp

/-- **No duplicate imports, none of goht's own** — whatever import lines a file has, in any order
and multiplicity, the user-import list the compiler keeps has pairwise distinct texts and contains
none of the imports goht adds itself. -/
theorem imports_nodup_and_not_default (toks : List Tok) (ui : List Tok)
    (h1 : (lits ui).Nodup) (h2 : ∀ x ∈ lits ui, isOwnImport x = false) :
    (lits (toks.foldl addImport ui)).Nodup ∧ ∀ x ∈ lits (toks.foldl addImport ui), isOwnImport x = false := by
  induction toks generalizing ui with
  | nil => exact ⟨h1, h2⟩
  | cons t ts ih =>
    simp only [List.foldl_cons]
    apply ih
    · rw [addImport_lits]
      split
      · exact h1
      · rename_i hc
        simp only [Bool.or_eq_true, not_or, Bool.not_eq_true] at hc
        rw [List.nodup_append]
        refine ⟨h1, by simp, ?_⟩
        intro x hx y hy
        simp only [List.mem_singleton] at hy
        subst hy
        intro hxy
        rw [hxy] at hx
        have : (lits ui).contains t.lit = true := by simpa using hx
        rw [this] at hc; exact absurd hc.2 (by decide)
    · rw [addImport_lits]
      split
      · exact h2
      · rename_i hc
        simp only [Bool.or_eq_true, not_or, Bool.not_eq_true] at hc
        intro x hx
        simp only [List.mem_append, List.mem_singleton] at hx
        rcases hx with hx | hx
        · exact h2 x hx
        · subst hx; exact hc.1

/-- **Every user import is kept** (with its alias, dot or blank name: the whole line text is the
key) — an import text that is not one of goht's own occurs in the result. -/
theorem imports_kept (toks ui : List Tok) (t : Tok) (ht : t ∈ toks ∨ t.lit ∈ lits ui)
    (hd : isOwnImport t.lit = false) : t.lit ∈ lits (toks.foldl addImport ui) := by
  induction toks generalizing ui with
  | nil =>
    rcases ht with h | h
    · cases h
    · exact h
  | cons a as ih =>
    simp only [List.foldl_cons]
    apply ih
    rcases ht with h | h
    · rcases List.mem_cons.mp h with rfl | h
      · right
        rw [addImport_lits]
        split
        · rename_i hc
          simp only [hd, Bool.false_or] at hc
          simpa using hc
        · simp
      · left; exact h
    · right
      rw [addImport_lits]
      split
      · exact h
      · simp [h]

/-- **goht's own imports appear once** — an import line that names one of the packages goht imports itself
is never added to the user imports, whether it is written bare or with a comment behind it. -/
theorem own_import_dropped (ui : List Tok) (t : Tok) (h : isOwnImport t.lit = true) : addImport ui t = ui := by
  unfold addImport; simp [h]

/-- non-vacuity: `"io" // Discard, below` and `"context"` are goht's own, `f "io"` (a named import) is not -/
example : isOwnImport [34, 105, 111, 34, 32, 47, 47, 32, 68, 105, 115, 99, 97, 114, 100, 44, 32, 98, 101, 108, 111, 119] = true ∧
    isOwnImport [34, 99, 111, 110, 116, 101, 120, 116, 34] = true ∧
    isOwnImport [102, 32, 34, 105, 111, 34] = false ∧
    -- `"io" /* x */` and `"io" // "r"` (a quote inside the comment)
    isOwnImport [34, 105, 111, 34, 32, 47, 42, 32, 120, 32, 42, 47] = true ∧
    isOwnImport [34, 105, 111, 34, 32, 47, 47, 32, 34, 114, 34] = true := by decide +kernel

/-- **Order is preserved** — the result extends the list it started from (imports are only appended). -/
theorem imports_order (toks ui : List Tok) : ∃ rest, toks.foldl addImport ui = ui ++ rest := by
  induction toks generalizing ui with
  | nil => exact ⟨[], by simp⟩
  | cons a as ih =>
    simp only [List.foldl_cons]
    obtain ⟨rest, hr⟩ := ih (addImport ui a)
    rw [hr]
    unfold addImport
    split
    · exact ⟨rest, rfl⟩
    · exact ⟨[a] ++ rest, by simp⟩

/-- **The word after `@` stays on its line** — on every well-formed input, wherever the lexer stands, the word
`lexTemplate` reads (stop set as extracted from lexers.go on this run) is made of the runes in front of the
cursor up to, and not including, the first blank, line feed or carriage return: a Go line that starts with `@`
cannot swallow the lines below it. -/
theorem template_word_stays_on_its_line {inp : List Rune} (hwf : WF inp) (l : L) (h : SInv inp l) :
    ∃ acc : List Rune, l.cur.rest = acc ++ (l.acceptUntil Gen.lexTemplate_acceptUntil0).cur.rest ∧
      (l.acceptUntil Gen.lexTemplate_acceptUntil0).s = l.s ++ encAll acc ∧
      ∀ r ∈ acc, r.cp ≠ 10 ∧ r.cp ≠ 13 ∧ r.cp ≠ 32 := by
  obtain ⟨acc, h1, h2, h3⟩ := ext_acceptUntil hwf l Gen.lexTemplate_acceptUntil0 h
  refine ⟨acc, h1, h2, fun r hr => ?_⟩
  have hn := h3 r hr
  have h10 : (10 : Nat) ∈ Gen.lexTemplate_acceptUntil0 := by decide
  have h13 : (13 : Nat) ∈ Gen.lexTemplate_acceptUntil0 := by decide
  have h32 : (32 : Nat) ∈ Gen.lexTemplate_acceptUntil0 := by decide
  exact ⟨fun e => hn (e ▸ h10), fun e => hn (e ▸ h13), fun e => hn (e ▸ h32)⟩

/-- **An import inside a group is one line** — on every well-formed input, from every lexer state with an empty
pending literal, each import token `lexImports` delivers contains no line feed (stop set as extracted from
lexers.go on this run): the text compared when duplicates are removed never runs into the next line. -/
theorem grouped_import_is_one_line {inp : List Rune} (hg : Good inp) (l : L) (h : SNil inp l) (ho : l.out = []) :
    ∀ t ∈ (lexImports l).1.out, t.typ = .import → countNl t.lit = 0 :=
  imports_token_one_line hg l h ho (by decide)

/-- … and so is a single `import "x"` line (the text after the keyword, up to the end of the line) -/
theorem single_import_is_one_line {inp : List Rune} (hg : Good inp) (l : L) (h : SInv inp l) (ho : l.out = []) :
    ∀ t ∈ (lexImportStart l).1.out, t.typ = .import → countNl t.lit = 0 :=
  importStart_token_one_line hg l h ho (by decide)

/-- … and the name in the package clause -/
theorem package_name_is_one_line {inp : List Rune} (hg : Good inp) (l : L) (h : SInv inp l) (ho : l.out = []) :
    ∀ t ∈ (lexPackage l).1.out, t.typ = .package → countNl t.lit = 0 :=
  package_token_one_line hg l h ho (by decide)

/-- **`@goht` is the keyword only when a blank follows it** — the lexer enters a template declaration exactly
when that word is `@goht` and the next character is a blank; every other line that starts with `@` is Go code. -/
theorem template_keyword_needs_blank (l : L) :
    (lexTemplate l).2 = .gohtStart ↔
      ((l.acceptUntil Gen.lexTemplate_acceptUntil0).s = kwGoht ∧ ((l.acceptUntil Gen.lexTemplate_acceptUntil0).peek).2 = 32) := by
  unfold lexTemplate
  simp only []
  constructor
  · intro h
    split at h
    · rename_i hk
      split at h
      · rename_i hc
        exact ⟨by simpa using hk, by simpa using hc⟩
      · cases h
    · cases h
  · intro ⟨hk, hc⟩
    simp [hk, hc]

theorem at_line_is_go_code_otherwise (l : L) (h : (lexTemplate l).2 ≠ .gohtStart) : (lexTemplate l).2 = .goCode := by
  unfold lexTemplate at *
  simp only [] at *
  split
  · split
    · rename_i hk hc; simp [hk, hc] at h
    · rfl
  · rfl

/-- goht's own imports and the default package, as extracted from nodes.go on this run -/
theorem extracted_defaults :
    Gen.defaultImports = [[34, 99, 111, 110, 116, 101, 120, 116, 34], [34, 105, 111, 34],
      [34, 103, 105, 116, 104, 117, 98, 46, 99, 111, 109, 47, 115, 116, 97, 99, 107, 117, 115, 47, 103, 111, 104, 116, 34]] ∧
    Gen.defaultPackage = [109, 97, 105, 110] := by decide

/-- **Import and Go lines end at a carriage return as they do at a line feed** (stop sets as extracted from
lexers.go on this run): the text of an import, single or grouped, never carries the `\r` of a CRLF line
end, so the textual comparison that removes duplicates sees the same text in both line-end styles. -/
theorem import_text_stops_at_cr :
    (10 ∈ Gen.lexImportStart_acceptUntil1 ∧ 13 ∈ Gen.lexImportStart_acceptUntil1) ∧
    (10 ∈ Gen.lexImports_acceptUntil0 ∧ 13 ∈ Gen.lexImports_acceptUntil0) ∧
    (10 ∈ Gen.lexImports_skipRun0 ∧ 13 ∈ Gen.lexImports_skipRun0) ∧
    (10 ∈ Gen.lexImports_skipRun1 ∧ 13 ∈ Gen.lexImports_skipRun1) ∧
    (10 ∈ Gen.lexGoCode_acceptUntil0 ∧ 13 ∈ Gen.lexGoCode_acceptUntil0) := by decide

-- PLANNED: lossless outer lexer — the concatenation of goCode/newLine literals equals the input minus template bodies, package and import lines
-- KNOWN (recorded finding): `package …` / `import …` at column 0 inside a raw string or block comment is hoisted

end GL.C11
