import GohtVerif.Model.Exec
/-! # C02 — dynamic values cannot change document structure (HTML escaping) -/
namespace GL.C02

theorem htmlEscape_eq_flatMap (s : GoStr) : htmlEscape s = s.flatMap esc1 := rfl

/-- **Escaping is a homomorphism**: a value is escaped byte by byte, independently of what surrounds it. -/
theorem htmlEscape_append (a b : GoStr) : htmlEscape (a ++ b) = htmlEscape a ++ htmlEscape b := by
  simp [htmlEscape_eq_flatMap]

theorem esc1_no_meta (b : UInt8) : ∀ c ∈ esc1 b, c ≠ 60 ∧ c ≠ 62 ∧ c ≠ 34 ∧ c ≠ 39 := by
  intro c hc
  unfold esc1 at hc
  by_cases h1 : b = 38
  · subst h1; revert c; decide
  · by_cases h2 : b = 39
    · subst h2; revert c; decide
    · by_cases h3 : b = 60
      · subst h3; revert c; decide
      · by_cases h4 : b = 62
        · subst h4; revert c; decide
        · by_cases h5 : b = 34
          · subst h5; revert c; decide
          · simp [h1, h2, h3, h4, h5] at hc
            subst hc
            exact ⟨h3, h4, h5, h2⟩

/-- **No metacharacter survives** — for every string, the escaped form contains none of `<`, `>`,
`"`, `'`: it cannot open or close a tag, nor leave a quoted attribute value. -/
theorem htmlEscape_no_meta (s : GoStr) : ∀ c ∈ htmlEscape s, c ≠ 60 ∧ c ≠ 62 ∧ c ≠ 34 ∧ c ≠ 39 := by
  intro c hc
  rw [htmlEscape_eq_flatMap, List.mem_flatMap] at hc
  obtain ⟨b, _, hb⟩ := hc
  exact esc1_no_meta b c hb

/-- entity decoding restricted to the five entities `html.EscapeString` produces -/
def unesc : GoStr → GoStr
  | 38 :: 97 :: 109 :: 112 :: 59 :: rest => 38 :: unesc rest          -- &amp;
  | 38 :: 35 :: 51 :: 57 :: 59 :: rest => 39 :: unesc rest            -- &#39;
  | 38 :: 108 :: 116 :: 59 :: rest => 60 :: unesc rest                -- &lt;
  | 38 :: 103 :: 116 :: 59 :: rest => 62 :: unesc rest                -- &gt;
  | 38 :: 35 :: 51 :: 52 :: 59 :: rest => 34 :: unesc rest            -- &#34;
  | b :: rest => b :: unesc rest
  | [] => []

theorem unesc_esc1_append (b : UInt8) (t : GoStr) : unesc (esc1 b ++ t) = b :: unesc t := by
  unfold esc1
  by_cases h1 : b = 38
  · subst h1; simp [unesc]
  · by_cases h2 : b = 39
    · subst h2; simp [unesc]
    · by_cases h3 : b = 60
      · subst h3; simp [unesc]
      · by_cases h4 : b = 62
        · subst h4; simp [unesc]
        · by_cases h5 : b = 34
          · subst h5; simp [unesc]
          · simp only [beq_iff_eq, h1, h2, h3, h4, h5, if_false, List.singleton_append]
            rw [unesc.eq_def]
            split <;> simp_all

/-- **The value is recoverable** — entity-decoding the escaped form gives back exactly `v`,
for every byte string `v`. -/
theorem unesc_htmlEscape (s : GoStr) : unesc (htmlEscape s) = s := by
  induction s with
  | nil => rfl
  | cons b rest ih =>
    rw [htmlEscape_eq_flatMap, List.flatMap_cons, unesc_esc1_append, ← htmlEscape_eq_flatMap, ih]

/-- **Every escaped hole is escaped** — the value a `= expr`, `#{expr}` or dynamic attribute site
contributes is `htmlEscape v` whenever the site is not one of the explicitly unescaped forms. -/
theorem script_hole (fuel : Nat) (c : Ctx) (t : Tok) (buf : Buf) (v : GoStr)
    (hv : dynValue c.env t.lit = .ok v) :
    execNode (fuel+1) c (.script t) buf = .ok ((if c.unesc then v else htmlEscape v) :: buf) := by
  simp [execNode, hv, bind, Except.bind, pure, Except.pure]

theorem interpolation_hole (fuel : Nat) (c : Ctx) (t : Tok) (buf : Buf) (v : GoStr)
    (ht : t.typ = .dynamicText) (hv : dynValue c.env t.lit = .ok v) :
    execNode (fuel+1) c (.text t) buf = .ok ((if c.unesc then v else htmlEscape v) :: buf) := by
  simp [execNode, ht, hv, bind, Except.bind, pure, Except.pure]

/-- the class list and the object-reference id reach the document escaped exactly once -/
theorem class_and_id_holes (args : List Val) (s : GoStr) (o : Obj) (pfx : Option GoStr) (i : GoStr) :
    (buildClassList args = some s → ∃ items, s = htmlEscape (joinWithSep [32] items)) ∧
    (o.id = some i → objectID o pfx = htmlEscape (joinWithSep [95] ((pfx.toList ++ o.cls.toList) ++ [i]))) := by
  constructor
  · intro h
    unfold buildClassList at h
    cases hc : classItemsAll args with
    | none => simp [hc] at h
    | some items => simp [hc] at h; exact ⟨items, h.symm⟩
  · intro h; simp [objectID, h]

/-- **Escaping loses nothing** — two different values never render the same: the escaped form determines the value. -/
theorem htmlEscape_injective (a b : GoStr) (h : htmlEscape a = htmlEscape b) : a = b := by
  rw [← unesc_htmlEscape a, ← unesc_htmlEscape b, h]

/-- escaping distributes over any split of the value: a value assembled from pieces is escaped piece by piece -/
theorem htmlEscape_flatten (l : List GoStr) : htmlEscape l.flatten = (l.map htmlEscape).flatten := by
  induction l with
  | nil => rfl
  | cons a l ih => simp [htmlEscape_append, ih]

-- PLANNED: tokenizer substitution lemma (data state / double-quoted attribute value state) and docShape (out v) = docShape (out p)
-- PLANNED: hole structure theorem over whole templates (K₀ ++ h₁ ++ K₁ …) by induction on execKids
-- KNOWN (recorded finding): an escaped value ending in `~☢` followed by a tag, or any content containing the marker sequences, is altered by the eraser (SentinelFree hypothesis)

end GL.C02
