import GohtVerif.Proofs.Lemmas.Generate
/-! # C18 — `goht generate` writes exactly the up-to-date outputs and touches nothing else

Every theorem is about `runWith cfg fs sched` for **any** permutation `sched` of the actions of the walk
(any schedule of the worker pool and the walk), for every tree `fs`, every set of flags, every
compiler `cfg.fc` and every clock. `dom` lists the file entries the walk meets. -/
namespace Gn.C18

/-- a run: the tree after the actions of the walk took effect in the order `sched` -/
def IsRun (cfg : Cfg) (fs : FS) (dom : List Path) (sched : List Act) : Prop := List.Perm sched (walk cfg fs dom)

theorem run_spec (cfg : Cfg) (fs : FS) (dom : List Path) (sched : List Act) (h : IsRun cfg fs dom sched) :
    runWith cfg fs sched = spec cfg fs (walk cfg fs dom) := by
  unfold runWith
  rw [exec_eq_spec cfg fs sched (fun a ha => walk_compat cfg fs dom a (h.mem_iff.1 ha))]
  funext q
  unfold spec
  simp only [h.mem_iff]

/-- **Schedules** — the tree after the run does not depend on the order in which the removals of the
walk and the writes of the workers take effect. -/
theorem schedule_independent (cfg : Cfg) (fs : FS) (dom : List Path) (s1 s2 : List Act)
    (h1 : IsRun cfg fs dom s1) (h2 : IsRun cfg fs dom s2) : runWith cfg fs s1 = runWith cfg fs s2 := by
  rw [run_spec cfg fs dom s1 h1, run_spec cfg fs dom s2 h2]

/-- **Stale templates are regenerated** — a template met by the walk outside skipped directories
that compiles and is stale (no output, older output, or `--force`) has, after the run, a sibling
output equal to the gofmt-ed compilation of its current content. -/
theorem stale_regenerated (cfg : Cfg) (fs : FS) (dom : List Path) (sched : List Act) (h : IsRun cfg fs dom sched)
    (p : Path) (s : File) (o : Bytes) (hd : p ∈ dom) (hsk : p.skipped cfg = false) (hsrc : p.isSrc = true)
    (hs : fs p = some s) (hst : stale cfg fs p = true) (hc : cfg.fc s.content = some o) :
    runWith cfg fs sched p.outOf = some { content := o, mtime := cfg.clock p } := by
  rw [run_spec cfg fs dom sched h]
  unfold spec
  have hr : Act.remove p.outOf ∉ walk cfg fs dom := by
    intro hm
    have := ((mem_walk_remove cfg fs dom p.outOf).1 hm).2.2.2.2
    rw [Path.srcOf_outOf, hs] at this
    cases this
  have hg : Act.gen p ∈ walk cfg fs dom := (mem_walk_gen cfg fs dom p).2 ⟨hd, hsk, hsrc, hst⟩
  simp [hr, Path.srcOf_outOf, Path.isOut_outOf p hsrc, hg, hs, hc]

/-- **Up-to-date outputs are not rewritten** — content and modification time of the output of a
template that is not stale are what they were. -/
theorem uptodate_untouched (cfg : Cfg) (fs : FS) (dom : List Path) (sched : List Act) (h : IsRun cfg fs dom sched)
    (p : Path) (s : File) (hs : fs p = some s) (hst : stale cfg fs p = false) :
    runWith cfg fs sched p.outOf = fs p.outOf := by
  rw [run_spec cfg fs dom sched h]
  unfold spec
  have hr : Act.remove p.outOf ∉ walk cfg fs dom := by
    intro hm
    have := ((mem_walk_remove cfg fs dom p.outOf).1 hm).2.2.2.2
    rw [Path.srcOf_outOf, hs] at this
    cases this
  have hg : Act.gen p ∉ walk cfg fs dom := by
    intro hm
    have := ((mem_walk_gen cfg fs dom p).1 hm).2.2.2
    rw [hst] at this; cases this
  simp [hr, Path.srcOf_outOf, hg]

/-- **A template that does not compile leaves its previous output untouched.** -/
theorem failing_untouched (cfg : Cfg) (fs : FS) (dom : List Path) (sched : List Act) (h : IsRun cfg fs dom sched)
    (p : Path) (s : File) (hs : fs p = some s) (hc : cfg.fc s.content = none) :
    runWith cfg fs sched p.outOf = fs p.outOf := by
  rw [run_spec cfg fs dom sched h]
  unfold spec
  have hr : Act.remove p.outOf ∉ walk cfg fs dom := by
    intro hm
    have := ((mem_walk_remove cfg fs dom p.outOf).1 hm).2.2.2.2
    rw [Path.srcOf_outOf, hs] at this
    cases this
  simp only [hr, if_false, Path.srcOf_outOf, hs, hc]
  split <;> rfl

/-- **Nothing but outputs changes** — a file whose name does not end in `.goht.go` (template
sources, Go files, anything else) is neither created, changed nor removed. -/
theorem non_output_untouched (cfg : Cfg) (fs : FS) (dom : List Path) (sched : List Act) (h : IsRun cfg fs dom sched)
    (q : Path) (hq : q.isOut = false) : runWith cfg fs sched q = fs q := by
  rw [run_spec cfg fs dom sched h]
  unfold spec
  have hr : Act.remove q ∉ walk cfg fs dom := by
    intro hm
    have := ((mem_walk_remove cfg fs dom q).1 hm).2.2.1
    rw [hq] at this; cases this
  simp [hr, hq]

/-- **No template source is modified** (corollary). -/
theorem source_untouched (cfg : Cfg) (fs : FS) (dom : List Path) (sched : List Act) (h : IsRun cfg fs dom sched)
    (p : Path) (hp : p.isSrc = true) : runWith cfg fs sched p = fs p :=
  non_output_untouched cfg fs dom sched h p (Path.isSrc_not_isOut p hp)

/-- **Orphans are removed** — an output met by the walk outside skipped directories whose template
no longer exists is gone after the run, unless `--keep`. -/
theorem orphan_removed (cfg : Cfg) (fs : FS) (dom : List Path) (sched : List Act) (h : IsRun cfg fs dom sched)
    (q : Path) (hd : q ∈ dom) (hsk : q.skipped cfg = false) (ho : q.isOut = true) (hk : cfg.keep = false)
    (hn : fs q.srcOf = none) : runWith cfg fs sched q = none := by
  rw [run_spec cfg fs dom sched h]
  unfold spec
  simp [(mem_walk_remove cfg fs dom q).2 ⟨hd, hsk, ho, hk, hn⟩]

/-- **`--keep` keeps them** — with `--keep` an output without template is untouched. -/
theorem orphan_kept (cfg : Cfg) (fs : FS) (dom : List Path) (sched : List Act) (h : IsRun cfg fs dom sched)
    (q : Path) (hk : cfg.keep = true) (hn : fs q.srcOf = none) : runWith cfg fs sched q = fs q := by
  rw [run_spec cfg fs dom sched h]
  unfold spec
  have hr : Act.remove q ∉ walk cfg fs dom := by
    intro hm
    have := ((mem_walk_remove cfg fs dom q).1 hm).2.2.2.1
    rw [hk] at this; cases this
  simp only [hr, if_false, hn]
  split <;> rfl

/-- **An output is only ever removed when its template is gone** (no output with a template is lost). -/
theorem paired_output_never_removed (cfg : Cfg) (fs : FS) (dom : List Path) (sched : List Act) (h : IsRun cfg fs dom sched)
    (p : Path) (s : File) (f : File) (hs : fs p = some s) (hf : fs p.outOf = some f) :
    runWith cfg fs sched p.outOf ≠ none := by
  rw [run_spec cfg fs dom sched h]
  unfold spec
  have hr : Act.remove p.outOf ∉ walk cfg fs dom := by
    intro hm
    have := ((mem_walk_remove cfg fs dom p.outOf).1 hm).2.2.2.2
    rw [Path.srcOf_outOf, hs] at this
    cases this
  simp only [hr, if_false, Path.srcOf_outOf, hs]
  split
  · cases cfg.fc s.content <;> simp [hf]
  · simp [hf]

/-- **Skipped directories** — nothing below a directory called `vendor`, `node_modules`, a name
given to `--skip-dirs`, or a name starting with `.` or `_` (at any depth) is created, changed or
removed. -/
theorem skipped_untouched (cfg : Cfg) (fs : FS) (dom : List Path) (sched : List Act) (h : IsRun cfg fs dom sched)
    (q : Path) (hq : q.skipped cfg = true) : runWith cfg fs sched q = fs q := by
  rw [run_spec cfg fs dom sched h]
  unfold spec
  have hr : Act.remove q ∉ walk cfg fs dom := by
    intro hm
    have := ((mem_walk_remove cfg fs dom q).1 hm).2.1
    rw [hq] at this; cases this
  have hg : Act.gen q.srcOf ∉ walk cfg fs dom := by
    intro hm
    have := ((mem_walk_gen cfg fs dom q.srcOf).1 hm).2.1
    rw [Path.skipped_srcOf, hq] at this; cases this
  simp [hr, hg]

/-- the default skip list is what the property names, and a dot or underscore name is skipped -/
theorem default_skips : Gen.defaultSkipDirs = [[118, 101, 110, 100, 111, 114], [110, 111, 100, 101, 95, 109, 111, 100, 117, 108, 101, 115]]
    ∧ Gen.genSkipPrefixes = [[46], [95]] := ⟨rfl, rfl⟩

theorem skippedName_dot (cfg : Cfg) (n : Bytes) : skippedName cfg (46 :: n) = true := by
  simp [skippedName, Gen.genSkipPrefixes, List.isPrefixOf]
theorem skippedName_underscore (cfg : Cfg) (n : Bytes) : skippedName cfg (95 :: n) = true := by
  simp [skippedName, Gen.genSkipPrefixes, List.isPrefixOf]
theorem skippedName_listed (cfg : Cfg) (n : Bytes) (h : n ∈ cfg.skip) : skippedName cfg n = true := by
  simp [skippedName, h]
/-- a path is skipped as soon as one of its directory components is -/
theorem skipped_of_component (cfg : Cfg) (q : Path) (d : Bytes) (hd : d ∈ q.dir) (h : skippedName cfg d = true) :
    q.skipped cfg = true := by
  simp only [Path.skipped, List.any_eq_true]
  exact ⟨d, hd, h⟩

/-- **Only what the walk meets can change** — a path that is not below the walked root stays. -/
theorem outside_untouched (cfg : Cfg) (fs : FS) (dom : List Path) (sched : List Act) (h : IsRun cfg fs dom sched)
    (q : Path) (h1 : q ∉ dom) (h2 : q.srcOf ∉ dom) : runWith cfg fs sched q = fs q := by
  rw [run_spec cfg fs dom sched h]
  unfold spec
  have hr : Act.remove q ∉ walk cfg fs dom := fun hm => h1 ((mem_walk_remove cfg fs dom q).1 hm).1
  have hg : Act.gen q.srcOf ∉ walk cfg fs dom := fun hm => h2 ((mem_walk_gen cfg fs dom q.srcOf).1 hm).1
  simp [hr, hg]

/-- **Histories: a second run right after the first does nothing** — if the clock of the first run
is not behind the templates (outputs are written after their templates were last modified), the walk
of the next run without `--force` issues no action at all: no output is rewritten, nothing is removed. -/
theorem second_run_idle (cfg : Cfg) (fs : FS) (dom : List Path) (sched : List Act) (h : IsRun cfg fs dom sched)
    (hdom : ∀ p, p ∈ dom ↔ fs p ≠ none)
    (hclock : ∀ p s, fs p = some s → s.mtime ≤ cfg.clock p)
    (hall : ∀ p s, fs p = some s → p.isSrc = true → p.skipped cfg = false → cfg.fc s.content ≠ none)
    (hf : cfg.force = false) (dom2 : List Path) (hdom2 : ∀ p, p ∈ dom2 ↔ runWith cfg fs sched p ≠ none) :
    walk cfg (runWith cfg fs sched) dom2 = [] := by
  have hnil : ∀ l : List Act, (∀ a, a ∉ l) → l = [] := by
    intro l hl
    cases l with
    | nil => rfl
    | cons a t => exact absurd List.mem_cons_self (hl a)
  apply hnil
  intro a ha
  cases a with
  | remove q =>
    obtain ⟨hd, hsk, ho, hk, hn⟩ := (mem_walk_remove cfg _ dom2 q).1 ha
    have hsrc := Path.isSrc_srcOf q ho
    rw [source_untouched cfg fs dom sched h q.srcOf hsrc] at hn
    -- q survived the first run although its template is absent: it would have been removed
    have hq := (hdom2 q).1 hd
    by_cases hqd : q ∈ dom
    · exact hq (orphan_removed cfg fs dom sched h q hqd hsk ho hk hn)
    · have hq0 : fs q = none := by
        by_cases e : fs q = none
        · exact e
        · exact absurd ((hdom q).2 e) hqd
      have hs0 : q.srcOf ∉ dom := fun hm => ((hdom q.srcOf).1 hm) hn
      rw [outside_untouched cfg fs dom sched h q hqd hs0] at hq
      exact hq hq0
  | gen p =>
    obtain ⟨hd, hsk, hsrc, hst⟩ := (mem_walk_gen cfg _ dom2 p).1 ha
    have hp := source_untouched cfg fs dom sched h p hsrc
    unfold stale at hst
    rw [hp] at hst
    cases hs : fs p with
    | none => rw [hs] at hst; cases hst
    | some s =>
      rw [hs] at hst
      have hpd : p ∈ dom := (hdom p).2 (by rw [hs]; simp)
      -- after the first run the output exists and is at least as new as the template
      by_cases hst1 : stale cfg fs p = true
      · cases hc : cfg.fc s.content with
        | none => exact hall p s hs hsrc hsk hc
        | some o =>
          have := stale_regenerated cfg fs dom sched h p s o hpd hsk hsrc hs hst1 hc
          simp only [lastMod, hf, Bool.false_eq_true, if_false, this] at hst
          have := hclock p s hs
          simp at hst; omega
      · have hst0 : stale cfg fs p = false := by simpa using hst1
        have hu := uptodate_untouched cfg fs dom sched h p s hs hst0
        simp only [lastMod, hf, Bool.false_eq_true, if_false, hu] at hst
        unfold stale at hst0
        simp only [hs, lastMod, hf, Bool.false_eq_true, if_false] at hst0
        simp at hst hst0
        cases ho : fs p.outOf with
        | none => rw [ho] at hst hst0; simp at hst hst0; omega
        | some f => rw [ho] at hst hst0; simp at hst hst0; omega

/-- **The tool only ever calls `os.Remove` on the walked output and `os.WriteFile` on the sibling
output** — the complete list of file-system mutations in generate.go, as read from the source. -/
theorem fs_mutation_sites : Gen.genFsMutations =
    ["os.Remove(entryName)", "os.WriteFile(filepath.Join(path, fileName+\".go\"), contents, 0644)"] := rfl

/-- directories are compared by their own name (`entry.Name()`), as read from the source -/
theorem dir_compared_by_name : Gen.genDirComparedBy = ["dirName:=entry.Name()", "dirName", "dirName", "dirName"] := rfl

/-! ### the hypotheses are satisfiable: a concrete tree with a stale template, an up-to-date one,
an orphan, a vendored template -/
section Example
def exCfg : Cfg := { force := false, keep := false, skip := Gen.defaultSkipDirs
                     fc := (fun c => if c = [1] then none else some (0 :: c))
                     clock := (fun _ => 100) }
def pA : Path := ⟨[], [97, 46, 103, 111, 104, 116]⟩                       -- a.goht (no output)
def pB : Path := ⟨[[100]], [98, 46, 103, 111, 104, 116]⟩                  -- d/b.goht (output newer)
def pO : Path := ⟨[], [111, 46, 103, 111, 104, 116, 46, 103, 111]⟩        -- o.goht.go (orphan)
def pV : Path := ⟨[[118, 101, 110, 100, 111, 114]], [118, 46, 103, 111, 104, 116]⟩   -- vendor/v.goht
def exFs : FS := fun q =>
  if q = pA then some ⟨[7], 10⟩ else if q = pB then some ⟨[8], 10⟩ else if q = pB.outOf then some ⟨[9], 20⟩
  else if q = pO then some ⟨[5], 5⟩ else if q = pV then some ⟨[6], 10⟩ else none
def exDom : List Path := [pA, pB, pB.outOf, pO, pV]

example : walk exCfg exFs exDom = [Act.gen pA, Act.remove pO] := by decide +kernel
example : run exCfg exFs exDom pA.outOf = some ⟨[0, 7], 100⟩ := by decide +kernel
example : run exCfg exFs exDom pB.outOf = some ⟨[9], 20⟩ := by decide +kernel
example : run exCfg exFs exDom pO = none := by decide +kernel
example : run exCfg exFs exDom pV.outOf = none := by decide +kernel
example : IsRun exCfg exFs exDom [Act.remove pO, Act.gen pA] := by
  have : walk exCfg exFs exDom = [Act.gen pA, Act.remove pO] := by decide +kernel
  unfold IsRun; rw [this]; exact List.Perm.swap _ _ _
end Example

-- PLANNED: `--watch` (repeated walks sharing the bookkeeping map and the content-hash shortcut)
-- PLANNED: directories and symlinks named like templates or outputs

end Gn.C18
