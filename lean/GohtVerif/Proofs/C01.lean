import GohtVerif.Model.Exec
import GohtVerif.Proofs.Lemmas.Grows
/-! # C01 — rendered HTML is the document the template denotes (control flow and structure)

The run-time model `execKids` interprets the parsed tree; these theorems state what a control-flow
line does to its nested block, for every environment (= every interpretation of the Go fragments). -/
namespace GL.C01

/-- **if / else if / else** — of a chain of branches, exactly the first one whose condition holds is
chosen; an `else` branch is chosen when no earlier condition holds; with no firing branch nothing. -/
theorem firstFiring_if_true (env : Env) (cond : GoStr) (body : List Node) (rest : List (GoStr × List Node))
    (h : env.bool (trimSpace cond) = some true) :
    firstFiring env ((([105, 102, 32] : GoStr) ++ cond, body) :: rest) = .ok (some body) := by
  have hk : silentKind (105 :: 102 :: 32 :: cond) = .sIf := by
    simp [silentKind, hasPrefix, List.isPrefixOf]
  simp only [firstFiring, List.cons_append, List.nil_append, hk]
  simp [h]

theorem firstFiring_if_false (env : Env) (cond : GoStr) (body : List Node) (rest : List (GoStr × List Node))
    (h : env.bool (trimSpace cond) = some false) :
    firstFiring env ((([105, 102, 32] : GoStr) ++ cond, body) :: rest) = firstFiring env rest := by
  have hk : silentKind (105 :: 102 :: 32 :: cond) = .sIf := by
    simp [silentKind, hasPrefix, List.isPrefixOf]
  simp only [firstFiring, List.cons_append, List.nil_append, hk]
  simp [h]

theorem firstFiring_else (env : Env) (body : List Node) (rest : List (GoStr × List Node)) :
    firstFiring env (([101, 108, 115, 101], body) :: rest) = .ok (some body) := by
  have hk : silentKind [101, 108, 115, 101] = .sElse := by decide
  simp [firstFiring, hk]

theorem firstFiring_none (env : Env) : firstFiring env [] = .ok none := rfl

/-- **for** — the nested block is executed once per value of the range, in order, each time with
the loop variable bound to that value, and the siblings after the loop follow. -/
theorem for_runs_body_per_value (fuel : Nat) (c : Ctx) (o : Tok) (i : Int) (body rest : List Node) (buf : Buf)
    (x : GoStr) (vals : List GoStr)
    (hk : silentKind (trimSpace o.lit) = .sFor) (hb : hasSuffix (trimSpace o.lit) [123] = false)
    (hl : c.env.loops.find? (·.1 == trimSpace o.lit) = some (trimSpace o.lit, (x, vals))) :
    execKids (fuel+1) c (.silent o i body :: rest) buf =
      (do let buf ← vals.foldlM (fun buf v =>
            execKids fuel { c with env := { c.env with strs := (x, v) :: c.env.strs } } body buf) buf
          execKids fuel c rest buf) := by
  simp [execKids, hb, hk, hl]

/-- **switch** — exactly one clause of the block runs: the one `selectClause` picks for the tag's value,
then the siblings after the switch follow; the other clauses produce nothing. -/
theorem switch_runs_selected_clause (fuel : Nat) (c : Ctx) (o : Tok) (i : Int) (body rest ks : List Node) (buf : Buf)
    (v : GoStr) (hk : silentKind (trimSpace o.lit) = .sSwitch) (hb : hasSuffix (trimSpace o.lit) [123] = false)
    (hv : c.env.str (trimSpace o.lit) = some v) (hs : selectClause v body = some ks) :
    execKids (fuel+1) c (.silent o i body :: rest) buf =
      (do let buf ← execKids fuel c ks buf; execKids fuel c rest buf) := by
  simp [execKids, hb, hk, hv, hs]

/-- … and when no clause lists the value and there is no `default:`, the switch produces nothing -/
theorem switch_without_clause (fuel : Nat) (c : Ctx) (o : Tok) (i : Int) (body rest : List Node) (buf : Buf)
    (v : GoStr) (hk : silentKind (trimSpace o.lit) = .sSwitch) (hb : hasSuffix (trimSpace o.lit) [123] = false)
    (hv : c.env.str (trimSpace o.lit) = some v) (hs : selectClause v body = none) :
    execKids (fuel+1) c (.silent o i body :: rest) buf = execKids fuel c rest buf := by
  simp [execKids, hb, hk, hv, hs]

/-- **the first matching `case` wins, `default:` only when none matches** -/
theorem selectClause_first_case (v : GoStr) (pre post : List Node) (n : Node) (ks : List Node)
    (hpre : ∀ m ∈ pre, clauseOf v m = none) (hn : clauseOf v n = some ks) :
    selectClause v (pre ++ n :: post) = some ks := by
  have : (pre ++ n :: post).findSome? (clauseOf v) = some ks := by
    induction pre with
    | nil => simp [List.findSome?, hn]
    | cons a as ih =>
      have ha := hpre a (by simp)
      simp only [List.cons_append, List.findSome?, ha]
      exact ih (fun m hm => hpre m (by simp [hm]))
  simp [selectClause, this]

theorem selectClause_default (v : GoStr) (body : List Node)
    (hnone : ∀ m ∈ body, clauseOf v m = none) : selectClause v body = body.findSome? defaultOf := by
  have : body.findSome? (clauseOf v) = none := by
    induction body with
    | nil => rfl
    | cons a as ih =>
      simp only [List.findSome?, hnone a (by simp)]
      exact ih (fun m hm => hnone m (by simp [hm]))
  simp [selectClause, this]

/-- non-vacuity: `case 1, 2:` lists 2 and not 3; `switch n0` is a switch line -/
example : caseVals [99, 97, 115, 101, 32, 49, 44, 32, 50, 58] = some [[49], [50]] ∧
    silentKind [115, 119, 105, 116, 99, 104, 32, 110, 48] = .sSwitch := by decide

/-- **Document order** — siblings are rendered left to right: a non-control node first, then the rest. -/
theorem siblings_in_order (fuel : Nat) (c : Ctx) (t : Tok) (rest : List Node) (buf : Buf) :
    execKids (fuel+1) c (.script t :: rest) buf =
      (do let buf ← execNode fuel c (.script t) buf; execKids fuel c rest buf) := by
  simp [execKids]

/-- **What has been written is never altered** — for every node of every kind, every context and every
buffer: when the node succeeds, the buffer it was given is still there, unchanged and in place, below what
the node wrote (chunks are kept newest first). Later siblings, nested blocks, `@render` callees and
`@children` blocks can only add output after what precedes them in the document. -/
theorem node_only_appends (fuel : Nat) (c : Ctx) (n : Node) (buf b : Buf)
    (h : execNode fuel c n buf = .ok b) : buf <:+ b := (GL.Grows.grows fuel).1 c n buf b h

/-- … and the same for every list of siblings (control lines, loops and switches included). -/
theorem siblings_only_append (fuel : Nat) (c : Ctx) (ks : List Node) (buf b : Buf)
    (h : execKids fuel c ks buf = .ok b) : buf <:+ b := (GL.Grows.grows fuel).2 c ks buf b h

/-- **In bytes: the document rendered so far is a prefix of the document rendered in the end** (before the
eraser runs) — no node, however deeply nested, rewrites or reorders what precedes it. -/
theorem rendered_prefix_is_kept (fuel : Nat) (c : Ctx) (ks : List Node) (buf b : Buf)
    (h : execKids fuel c ks buf = .ok b) : flattenBuf buf <+: flattenBuf b := by
  obtain ⟨new, hn⟩ := siblings_only_append fuel c ks buf b h
  subst hn
  exact ⟨new.reverse.flatten, by simp [flattenBuf]⟩

/-- … and a sibling list is rendered left to right: the first node's output directly follows what was there,
the rest follows the first node's output. -/
theorem first_sibling_then_rest (fuel : Nat) (c : Ctx) (k : Node) (rest : List Node) (buf b : Buf)
    (hk : ∀ o i bd, k ≠ .silent o i bd)
    (h : execKids (fuel+1) c (k :: rest) buf = .ok b) :
    ∃ b1, execNode fuel c k buf = .ok b1 ∧ flattenBuf buf <+: flattenBuf b1 ∧ flattenBuf b1 <+: flattenBuf b := by
  have hb : ∃ b1, execNode fuel c k buf = .ok b1 ∧ execKids fuel c rest b1 = .ok b := by
    cases k <;> first
      | (exfalso; exact hk _ _ _ rfl)
      | (simp only [execKids] at h; exact GL.Grows.bind_ok h)
  obtain ⟨b1, h1, h2⟩ := hb
  refine ⟨b1, h1, ?_, rendered_prefix_is_kept fuel c rest b1 b h2⟩
  obtain ⟨new, hn⟩ := node_only_appends fuel c k buf b1 h1
  subst hn
  exact ⟨new.reverse.flatten, by simp [flattenBuf]⟩

-- PLANNED T1: nesting follows tab depth — Parser.parse (lineTokens lines) = offsideTree lines for every validIndents line list
-- PLANNED T2: emitText t = printIR (emitIR t); block structure of silent-script chains in the generated Go
-- PLANNED T3: htmlTok (erase out) = docTokens (denote t env) under WF t, SentinelFree t env
-- KNOWN (recorded findings): `@attributes` is written without a separating blank; marker sequences in content are eaten

end GL.C01
