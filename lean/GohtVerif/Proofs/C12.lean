import GohtVerif.Model.Exec
import GohtVerif.Proofs.C01
/-! # C12 — Render is all-or-nothing and reports every failure

`RenderObs` is what a destination writer (not goht's own buffer) observes: the returned error and
the list of `Write` calls. -/
namespace GL.C12

/-- **All or nothing** — for every file, template and environment: if the render fails, the
destination received no `Write` at all; if it succeeds, it received exactly one `Write`. -/
theorem all_or_nothing (prog : Option (List Tmpl)) (name : GoStr) (env : Env) :
    ((renderProg prog name env).err.isSome → (renderProg prog name env).writes = []) ∧
    ((renderProg prog name env).err = none → (renderProg prog name env).writes.length = 1) := by
  unfold renderProg
  cases prog with
  | none => simp
  | some p =>
    simp only []
    cases hf : p.find? (·.name == name) with
    | none => simp
    | some t =>
      simp only []
      cases execKids 100000 { prog := p, env := env, own := none } t.kids [] with
      | ok buf => simp
      | error e => simp

/-- **A failing dynamic expression fails the node** with that expression as the cause. -/
theorem failing_expression_fails (fuel : Nat) (c : Ctx) (t : Tok) (buf : Buf) (h : t.lit ∈ c.env.errs) :
    execNode (fuel+1) c (.script t) buf = .error (.expr t.lit) := by
  simp [execNode, dynValue, h, bind, Except.bind]

/-- **No failure is swallowed by later siblings** — if a node fails, the sibling list fails with
the same cause and nothing after it runs. -/
theorem failure_propagates (fuel : Nat) (c : Ctx) (t : Tok) (rest : List Node) (buf : Buf) (e : Fail)
    (h : execNode fuel c (.script t) buf = .error e) :
    execKids (fuel+1) c (.script t :: rest) buf = .error e := by
  simp [execKids, h, bind, Except.bind]

/-- **No failure is swallowed by later siblings, whatever the failing node is** — element, text, script,
`@render`, `@children`, filter, comment …: if a node that is not a control line fails, the sibling list
fails with the same cause and nothing after it runs (control lines are interpreted by the list itself). -/
theorem failure_propagates_any (fuel : Nat) (c : Ctx) (k : Node) (rest : List Node) (buf : Buf) (e : Fail)
    (hk : ∀ o i b, k ≠ .silent o i b)
    (h : execNode fuel c k buf = .error e) :
    execKids (fuel+1) c (k :: rest) buf = .error e := by
  cases k <;> first
    | (exfalso; exact hk _ _ _ rfl)
    | simp [execKids, h, bind, Except.bind]

/-- … and a node that succeeds hands its buffer to the rest of the list: siblings run left to right. -/
theorem success_continues (fuel : Nat) (c : Ctx) (k : Node) (rest : List Node) (buf b1 : Buf)
    (hk : ∀ o i b, k ≠ .silent o i b)
    (h : execNode fuel c k buf = .ok b1) :
    execKids (fuel+1) c (k :: rest) buf = execKids fuel c rest b1 := by
  cases k <;> first
    | (exfalso; exact hk _ _ _ rfl)
    | simp [execKids, h, bind, Except.bind]

/-- … nor by an enclosing element: a failure among the children fails the element. -/
theorem failure_propagates_children_block (fuel : Nat) (c : Ctx) (t : Tok) (buf : Buf) (e : Fail)
    (kids : List Node) (env : Env) (own : Option Clo) (hc : c.own = some (Clo.mk kids env own))
    (h : execKids fuel { prog := c.prog, env := env, own := own } kids buf = .error e) :
    execNode (fuel+1) c (.children t) buf = .error e := by
  simp [execNode, hc, h]

/-- … nor by a `switch`: a failure inside the selected clause fails the list, the siblings behind the switch do not run. -/
theorem failure_in_switch_clause (fuel : Nat) (c : Ctx) (o : Tok) (i : Int) (body rest ks : List Node) (buf : Buf) (e : Fail)
    (v : GoStr) (hk : silentKind (trimSpace o.lit) = .sSwitch) (hb : hasSuffix (trimSpace o.lit) [123] = false)
    (hv : c.env.str (trimSpace o.lit) = some v) (hs : selectClause v body = some ks)
    (h : execKids fuel c ks buf = .error e) :
    execKids (fuel+1) c (.silent o i body :: rest) buf = .error e := by
  rw [GL.C01.switch_runs_selected_clause fuel c o i body rest ks buf v hk hb hv hs]
  simp [h, bind, Except.bind]

/-- … nor by a loop: when some iteration fails, the list fails with that cause (no later iteration and no later sibling runs:
`List.foldlM` over `Except` stops at the first failure). -/
theorem failure_in_loop (fuel : Nat) (c : Ctx) (o : Tok) (i : Int) (body rest : List Node) (buf : Buf) (e : Fail)
    (x : GoStr) (vals : List GoStr)
    (hk : silentKind (trimSpace o.lit) = .sFor) (hb : hasSuffix (trimSpace o.lit) [123] = false)
    (hl : c.env.loops.find? (·.1 == trimSpace o.lit) = some (trimSpace o.lit, (x, vals)))
    (h : vals.foldlM (fun buf v =>
            execKids fuel { c with env := { c.env with strs := (x, v) :: c.env.strs } } body buf) buf = .error e) :
    execKids (fuel+1) c (.silent o i body :: rest) buf = .error e := by
  rw [GL.C01.for_runs_body_per_value fuel c o i body rest buf x vals hk hb hl]
  simp [h, bind, Except.bind]

/-- `foldlM` over `Except` stops at the first failure: once an iteration fails, the loop has failed -/
theorem foldlM_stops_at_failure {α β ε} (f : β → α → Except ε β) (pre post : List α) (a : α) (b0 b1 : β) (e : ε)
    (hpre : pre.foldlM f b0 = .ok b1) (ha : f b1 a = .error e) :
    (pre ++ a :: post).foldlM f b0 = .error e := by
  rw [List.foldlM_append, hpre]
  simp [List.foldlM, ha, bind, Except.bind]

-- PLANNED (flat layer): emitIR never lets an assignment to __err be followed by another one without an intervening `if __err != nil { return }`
-- ASSUMPTION recorded: writers honour io.Writer (n < len(p) ⇒ err ≠ nil)
-- TIE: O-render with fault plans — the real Write-call log and error class of go-built code vs this model

end GL.C12
