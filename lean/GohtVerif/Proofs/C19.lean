import GohtVerif.Proofs.Lemmas.Sort
/-! # C19 — the runtime attribute / class / object-reference helpers honour their contract -/
namespace GL.C19

/-- the same argument up to the iteration order of its map (what two calls with equal arguments see) -/
inductive SameVal : Val → Val → Prop where
  | str (s) : SameVal (.str s) (.str s)
  | strs (l) : SameVal (.strs l) (.strs l)
  | mapBool (m m') : m.Perm m' → (m.map (·.1)).Nodup → SameVal (.mapBool m) (.mapBool m')
  | mapStr (m m') : m.Perm m' → SameVal (.mapStr m) (.mapStr m')
  | other : SameVal .other .other

/-- equal argument lists up to map iteration order -/
inductive SameArgs : List Val → List Val → Prop where
  | nil : SameArgs [] []
  | cons {v v' vs vs'} : SameVal v v' → SameArgs vs vs' → SameArgs (v :: vs) (v' :: vs')

theorem attrItems_same {v v' : Val} (h : SameVal v v') :
    (attrItems v).isSome = (attrItems v').isSome ∧
    ∀ a a', attrItems v = some a → attrItems v' = some a' → a.Perm a' := by
  cases h with
  | str s => simp [attrItems]
  | strs l => simp [attrItems]
  | other => simp [attrItems]
  | mapBool m m' hp _ =>
    refine ⟨rfl, ?_⟩
    intro a a' h1 h2
    simp only [attrItems, Option.some.injEq] at h1 h2
    subst h1; subst h2
    exact (hp.filter _).map _
  | mapStr m m' hp =>
    refine ⟨rfl, ?_⟩
    intro a a' h1 h2
    simp only [attrItems, Option.some.injEq] at h1 h2
    subst h1; subst h2
    exact (hp.filter _).map _

theorem attrItemsAll_same {args args' : List Val} (h : SameArgs args args') :
    (attrItemsAll args).isSome = (attrItemsAll args').isSome ∧
    ∀ a a', attrItemsAll args = some a → attrItemsAll args' = some a' → a.Perm a' := by
  induction h with
  | nil => simp [attrItemsAll]
  | @cons v v' vs vs' hv _ ih =>
    obtain ⟨hs, hp⟩ := attrItems_same hv
    obtain ⟨ihs, ihp⟩ := ih
    simp only [attrItemsAll]
    cases h1 : attrItems v <;> cases h2 : attrItems v' <;> simp only [h1, h2, Option.isSome_none, Option.isSome_some] at hs
    · simp
    · cases hs
    · cases hs
    · cases h3 : attrItemsAll vs <;> cases h4 : attrItemsAll vs' <;> simp only [h3, h4, Option.isSome_none, Option.isSome_some] at ihs
      · simp
      · cases ihs
      · cases ihs
      · simp only [Option.isSome_some, true_and]
        intro a a' e1 e2
        simp only [Option.some.injEq] at e1 e2
        subst e1; subst e2
        exact (hp _ _ h1 h2).append (ihp _ _ h3 h4)

/-- **Determinism of the attribute-list helper** — equal arguments give byte-equal results (or both
an error), whatever order the Go runtime iterates the maps in. -/
theorem buildAttributeList_deterministic {args args' : List Val} (h : SameArgs args args') :
    buildAttributeList args = buildAttributeList args' := by
  obtain ⟨hs, hp⟩ := attrItemsAll_same h
  unfold buildAttributeList
  cases h1 : attrItemsAll args <;> cases h2 : attrItemsAll args' <;> simp only [h1, h2, Option.isSome_none, Option.isSome_some] at hs
  · rfl
  · cases hs
  · cases hs
  · simp only [Option.map_some, Option.some.injEq]
    rw [sortStrs_perm_eq (hp _ _ h1 h2)]

theorem classItems_same {v v' : Val} (h : SameVal v v') : classItems v = classItems v' := by
  cases h with
  | str s => rfl
  | strs l => rfl
  | other => rfl
  | mapStr m m' _ => rfl
  | mapBool m m' hp hn =>
    simp only [classItems, Option.some.injEq]
    rw [sortStrs_perm_eq (hp.map (·.1))]
    apply List.filter_congr
    intro k _
    rw [lookupBool_perm hp hn k]

/-- **Determinism of the class-list helper** — equal arguments give byte-equal results for every
map iteration order. -/
theorem buildClassList_deterministic {args args' : List Val} (h : SameArgs args args') :
    buildClassList args = buildClassList args' := by
  have : classItemsAll args = classItemsAll args' := by
    induction h with
    | nil => rfl
    | cons hv _ ih => simp only [classItemsAll]; rw [classItems_same hv, ih]
  unfold buildClassList; rw [this]

/-- **Unsupported types are an error**, never a panic or a silent omission. -/
theorem classList_unsupported (args : List Val) :
    buildClassList args = none ↔ ∃ v ∈ args, classItems v = none := by
  unfold buildClassList
  simp only [Option.map_eq_none_iff]
  induction args with
  | nil => simp [classItemsAll]
  | cons v vs ih =>
    simp only [classItemsAll, List.mem_cons, exists_eq_or_imp]
    cases h1 : classItems v <;> cases h2 : classItemsAll vs <;> simp [h1, h2] at ih ⊢
    · exact ih
    · exact ih

theorem attrList_unsupported (args : List Val) :
    buildAttributeList args = none ↔ ∃ v ∈ args, attrItems v = none := by
  unfold buildAttributeList
  simp only [Option.map_eq_none_iff]
  induction args with
  | nil => simp [attrItemsAll]
  | cons v vs ih =>
    simp only [attrItemsAll, List.mem_cons, exists_eq_or_imp]
    cases h1 : attrItems v <;> cases h2 : attrItemsAll vs <;> simp [h1, h2] at ih ⊢
    · exact ih
    · exact ih

/-- which dynamic types each helper supports -/
theorem supported_types :
    (∀ s, (classItems (.str s)).isSome) ∧ (∀ l, (classItems (.strs l)).isSome) ∧ (∀ m, (classItems (.mapBool m)).isSome) ∧
    (∀ m, classItems (.mapStr m) = none) ∧ classItems .other = none ∧
    (∀ m, (attrItems (.mapBool m)).isSome) ∧ (∀ m, (attrItems (.mapStr m)).isSome) ∧
    (∀ s, attrItems (.str s) = none) ∧ (∀ l, attrItems (.strs l) = none) ∧ attrItems .other = none := by
  simp [classItems, attrItems]

/-- **Contract of the attribute list** — a boolean map contributes the escaped names of its true
entries, a string map `name="value"` (both escaped once) for its non-empty values. -/
theorem attrItems_contract :
    (∀ m x, attrItems (.mapBool m) = some x → ∀ i, i ∈ x ↔ ∃ k, (k, true) ∈ m ∧ i = htmlEscape k) ∧
    (∀ m x, attrItems (.mapStr m) = some x → ∀ i, i ∈ x ↔ ∃ k v, (k, v) ∈ m ∧ v ≠ [] ∧ i = htmlEscape k ++ [61, 34] ++ htmlEscape v ++ [34]) := by
  constructor
  · intro m x h i
    simp only [attrItems, Option.some.injEq] at h
    subst h
    simp only [List.mem_map, List.mem_filter]
    constructor
    · rintro ⟨⟨k, b⟩, ⟨hm, hb⟩, rfl⟩
      simp only at hb; subst hb
      exact ⟨k, hm, rfl⟩
    · rintro ⟨k, hm, rfl⟩
      exact ⟨(k, true), ⟨hm, rfl⟩, rfl⟩
  · intro m x h i
    simp only [attrItems, Option.some.injEq] at h
    subst h
    simp only [List.mem_map, List.mem_filter]
    constructor
    · rintro ⟨⟨k, v⟩, ⟨hm, hv⟩, rfl⟩
      refine ⟨k, v, hm, ?_, rfl⟩
      intro hnil; simp [hnil] at hv
    · rintro ⟨k, v, hm, hv, rfl⟩
      refine ⟨(k, v), ⟨hm, ?_⟩, rfl⟩
      cases v with
      | nil => exact absurd rfl hv
      | cons a b => simp

/-- **Contract of the class list** — the result is the escaped (once) blank-separated list of the
non-blank strings, the slice items and the true-valued non-empty keys (keys in sorted order). -/
theorem classList_contract (args : List Val) (items : List GoStr) (h : classItemsAll args = some items) :
    buildClassList args = some (htmlEscape (joinWithSep [32] items)) := by
  unfold buildClassList; rw [h]; rfl

/-- **Object references** — nothing when the value lacks the method, otherwise prefix, class and id
joined with underscores. -/
theorem objectRef_contract (o : Obj) (pfx : Option GoStr) :
    (o.id = none → objectID o pfx = []) ∧ (o.cls = none → objectClass o pfx = []) ∧
    (∀ i, o.id = some i → objectID o pfx = htmlEscape (joinWithSep [95] (pfx.toList ++ o.cls.toList ++ [i]))) ∧
    (∀ c, o.cls = some c → objectClass o pfx = joinWithSep [95] (pfx.toList ++ [c])) := by
  refine ⟨?_, ?_, ?_, ?_⟩
  · intro h; simp [objectID, h]
  · intro h; simp [objectClass, h]
  · intro i h; simp [objectID, h]
  · intro c h; simp [objectClass, h]

/-- **Extracted shape facts** (regenerated from runtime.go on every run): both helpers sort before
joining, and `goht.EscapeString` is `html.EscapeString` — the facts that license the model above. -/
theorem extracted_shape :
    Gen.shape_BuildAttributeList_sortsBeforeJoin = true ∧ Gen.shape_BuildClassList_sorts = true ∧
    Gen.shape_EscapeString_isHtmlEscapeString = true := by decide

/-- non-vacuity: two iteration orders of one map satisfy the hypothesis, so the two calls agree -/
example : buildClassList [.str [97], .mapBool [([99], true), ([98], true)]] =
          buildClassList [.str [97], .mapBool [([98], true), ([99], true)]] :=
  buildClassList_deterministic
    (.cons (.str _) (.cons (.mapBool _ _ (List.Perm.swap _ _ _) (by decide)) .nil))

end GL.C19
