import GohtVerif.Model.Exec
/-! # C05 — @render / @children: nested content goes exactly where the callee places it

The run-time model passes a children block as a closure `Clo.mk kids env own` (the block, the
caller's environment, the caller's own children) through the context slot `own`. -/
namespace GL.C05

/-- **A template rendered without nested content sees empty children** — whatever children the
caller itself (or an enclosing layout) was given: the callee runs with `own := none`. -/
theorem render_without_block (fuel : Nat) (c : Ctx) (o : Tok) (i : Int) (t : Tmpl) (buf : Buf)
    (ht : c.prog.find? (·.name == declName o.lit) = some t) :
    execNode (fuel+1) c (.render o i []) buf =
      execKids fuel { prog := c.prog, env := c.env, own := none } t.kids buf := by
  simp [execNode, ht]

/-- **Nested content is handed to the callee as a closure over the caller's scope**: the block,
the caller's environment and the caller's own children. -/
theorem render_with_block (fuel : Nat) (c : Ctx) (o : Tok) (i : Int) (t : Tmpl) (k : Node) (ks : List Node) (buf : Buf)
    (ht : c.prog.find? (·.name == declName o.lit) = some t) :
    execNode (fuel+1) c (.render o i (k :: ks)) buf =
      execKids fuel { prog := c.prog, env := c.env, own := some (Clo.mk (k :: ks) c.env c.own) } t.kids buf := by
  simp [execNode, ht]

/-- **`= @children` with no children renders nothing.** -/
theorem children_empty (fuel : Nat) (c : Ctx) (t : Tok) (buf : Buf) (h : c.own = none) :
    execNode (fuel+1) c (.children t) buf = .ok buf := by
  simp [execNode, h]

/-- **`= @children` renders the block in the scope it was written in** — the caller's environment,
and the caller's own children remain visible inside it (forwarding); the callee's environment and
the callee's children are not. It does so at every `@children` position (the closure is not consumed). -/
theorem children_runs_block_in_callers_scope (fuel : Nat) (c : Ctx) (t : Tok) (buf : Buf)
    (kids : List Node) (env : Env) (own : Option Clo) (h : c.own = some (Clo.mk kids env own)) :
    execNode (fuel+1) c (.children t) buf = execKids fuel { prog := c.prog, env := env, own := own } kids buf := by
  simp [execNode, h]

/-- non-vacuity of the closure discipline: nothing else in `execNode` reads or writes `own`
except through the two constructors above — elements pass the context on unchanged. -/
theorem unescape_passes_children_on (fuel : Nat) (c : Ctx) (o : Tok) (i : Int) (kids : List Node) (buf : Buf) :
    execNode (fuel+1) c (.unescape o i kids) buf = execKids fuel { c with unesc := true } kids buf := by
  simp [execNode]

/-- **A layout that only forwards is transparent** — rendering a template whose body is a single
`= @children` with a nested block gives exactly what the block gives where it is written: same
environment, same own children, same buffer (one level of inlining, for every block). -/
theorem forwarding_layout_is_transparent (fuel : Nat) (c : Ctx) (o tk : Tok) (i : Int) (t : Tmpl)
    (k : Node) (ks : List Node) (buf : Buf)
    (ht : c.prog.find? (·.name == declName o.lit) = some t) (hb : t.kids = [.children tk]) :
    execNode (fuel+3) c (.render o i (k :: ks)) buf =
      execKids fuel { prog := c.prog, env := c.env, own := c.own } (k :: ks) buf := by
  rw [render_with_block (fuel+2) c o i t k ks buf ht, hb]
  simp only [execKids]
  rw [children_runs_block_in_callers_scope fuel _ tk buf (k :: ks) c.env c.own rfl]
  cases execKids fuel { prog := c.prog, env := c.env, own := c.own } (k :: ks) buf <;>
    simp [bind, Except.bind]

-- PLANNED: inlining theorem — exec (render X + block B) = exec (X's body with every @children replaced by B closed over the caller) for any nesting depth
-- TIE: O-render on call graphs (layouts using @children 0/1/n times, forwarding, nested blocks)

end GL.C05
