import GohtVerif.Model.Runtime
/-! `slices.Sort` on strings: the result depends only on the multiset of its input. -/
namespace GL

theorem leStr_refl : ∀ a, leStr a a = true
  | [] => by simp [leStr]
  | a :: as => by simp [leStr, leStr_refl as]

theorem leStr_total : ∀ a b, leStr a b = true ∨ leStr b a = true
  | [], _ => by simp [leStr]
  | _ :: _, [] => by simp [leStr]
  | a :: as, b :: bs => by
      simp only [leStr]
      by_cases h1 : a < b
      · simp [h1]
      · by_cases h2 : b < a
        · simp [h1, h2]
        · simp [h1, h2]; exact leStr_total as bs

theorem leStr_antisymm : ∀ a b, leStr a b = true → leStr b a = true → a = b
  | [], [] => by simp
  | [], _ :: _ => by simp [leStr]
  | _ :: _, [] => by simp [leStr]
  | a :: as, b :: bs => by
      simp only [leStr]
      by_cases h1 : a < b
      · have : ¬ b < a := by
          intro h; exact absurd (UInt8.lt_trans h1 h) (UInt8.lt_irrefl a)
        simp [h1, this]
      · by_cases h2 : b < a
        · simp [h1, h2]
        · simp [h1, h2]
          intro h3 h4
          have hab : a = b := UInt8.le_antisymm (UInt8.not_lt.mp h2) (UInt8.not_lt.mp h1)
          exact ⟨hab, leStr_antisymm as bs h3 h4⟩

theorem leStr_trans : ∀ a b c, leStr a b = true → leStr b c = true → leStr a c = true
  | [], _, _ => by simp [leStr]
  | _ :: _, [], _ => by simp [leStr]
  | _ :: _, _ :: _, [] => by simp [leStr]
  | a :: as, b :: bs, c :: cs => by
      simp only [leStr]
      intro h1 h2
      by_cases hab : a < b
      · by_cases hbc : b < c
        · simp [UInt8.lt_trans hab hbc]
        · by_cases hcb : c < b
          · simp [hbc, hcb] at h2
          · have : b = c := UInt8.le_antisymm (UInt8.not_lt.mp hcb) (UInt8.not_lt.mp hbc)
            subst this; simp [hab]
      · by_cases hba : b < a
        · simp [hab, hba] at h1
        · have : a = b := UInt8.le_antisymm (UInt8.not_lt.mp hba) (UInt8.not_lt.mp hab)
          subst this
          simp only [hab, if_false] at h1
          by_cases hac : a < c
          · simp [hac]
          · by_cases hca : c < a
            · simp [hac, hca] at h2
            · simp [hac, hca] at h2 ⊢
              exact leStr_trans as bs cs h1 h2

/-- sorting makes the result independent of the order of the input -/
theorem sortStrs_perm_eq {l₁ l₂ : List GoStr} (h : l₁.Perm l₂) : sortStrs l₁ = sortStrs l₂ := by
  unfold sortStrs
  have p : (l₁.mergeSort leStr).Perm (l₂.mergeSort leStr) :=
    (List.mergeSort_perm l₁ leStr).trans (h.trans (List.mergeSort_perm l₂ leStr).symm)
  have s1 := List.pairwise_mergeSort (le := leStr) (fun a b c => leStr_trans a b c)
      (fun a b => by simpa using leStr_total a b) l₁
  have s2 := List.pairwise_mergeSort (le := leStr) (fun a b c => leStr_trans a b c)
      (fun a b => by simpa using leStr_total a b) l₂
  exact List.Perm.eq_of_pairwise (le := fun a b => leStr a b = true)
    (fun a b _ _ h1 h2 => leStr_antisymm a b h1 h2) s1 s2 p

theorem sortStrs_sorted (l : List GoStr) : (sortStrs l).Pairwise (fun a b => leStr a b = true) :=
  List.pairwise_mergeSort (le := leStr) (fun a b c => leStr_trans a b c) (fun a b => by simpa using leStr_total a b) l

theorem sortStrs_perm (l : List GoStr) : (sortStrs l).Perm l := List.mergeSort_perm l leStr

/-- lookup in an association list with distinct keys does not depend on the order of the entries -/
theorem lookupBool_perm {m m' : List (GoStr × Bool)} (h : m.Perm m') (hn : (m.map (·.1)).Nodup) (k : GoStr) :
    lookupBool m k = lookupBool m' k := by
  induction h with
  | nil => rfl
  | cons x _ ih =>
    rw [List.map_cons, List.nodup_cons] at hn
    simp only [lookupBool, List.find?_cons]
    by_cases hx : x.1 == k
    · simp [hx]
    · simp only [hx]
      exact ih hn.2
  | swap x y l =>
    simp only [List.map_cons, List.nodup_cons, List.mem_cons, not_or] at hn
    simp only [lookupBool, List.find?_cons]
    by_cases hx : x.1 == k
    · by_cases hy : y.1 == k
      · have : y.1 = x.1 := by rw [beq_iff_eq.mp hx, beq_iff_eq.mp hy]
        exact absurd this hn.1.1
      · simp [hx, hy]
    · by_cases hy : y.1 == k
      · simp [hx, hy]
      · simp [hx, hy]
  | trans h1 _ ih1 ih2 =>
    have hn2 := (h1.map (·.1)).nodup_iff.mp hn
    rw [ih1 hn, ih2 hn2]

end GL
