import GohtVerif.Proofs.Lemmas.LexFrag
/-! The states in which a Go fragment starts are only ever entered with an empty pending literal. -/
namespace GL
variable {inp : List Rune}

/-- states that are entered with `s = ""` on every path -/
def cleanSt : St → Bool
  | .contentStart | .content | .contentEnd | .outputCode | .silent | .objRef
  | .attrsStart | .attribute | .attrsEnd | .attrEnd | .attrValue | .attrDynamic | .imports => true
  | _ => false

/-- what a state function hands on: `TInv`, and an empty literal when the next state is a clean one -/
def CleanOK (inp : List Rune) (p : L × St) : Prop := cleanSt p.2 = true → SNil inp p.1

theorem snil_indent_iff (l : L) (n : Nat) : SNil inp { l with indent := n } ↔ SNil inp l := Iff.rfl

theorem snil_quote (hwf : WF inp) (l : L) (t : TT) (c : Bool) (h : TInv inp l)
    (hq : (l.continueToMatchingQuote t c).2 = 34 ∨ (l.continueToMatchingQuote t c).2 = 96) :
    SNil inp (l.continueToMatchingQuote t c).1 := by
  unfold L.continueToMatchingQuote at hq ⊢
  have hpk := tinv_peek l h
  generalize l.peek = pk at hpk hq ⊢
  obtain ⟨l1, quote⟩ := pk
  simp only [] at hpk hq ⊢
  split
  · rename_i hc
    rw [if_pos hc] at hq
    simp only [] at hq
    simp only [bne_iff_ne, ne_eq, Bool.and_eq_true, decide_eq_true_eq] at hc
    omega
  · rename_i hc
    rw [if_neg hc] at hq
    have h2 : TInv inp (if c = true then (l1.next).1 else (l1.skip).1) := by
      split
      · exact tinv_next1 _ hpk
      · exact tinv_skip _ hpk
    have hql := tinv_quoteLoop quote ((if c = true then (l1.next).1 else (l1.skip).1).cur.rest.length + 1)
      (if c = true then (l1.next).1 else (l1.skip).1) false h2
    generalize quoteLoop quote _ _ false = ql at hql hq ⊢
    obtain ⟨l2, atEof⟩ := ql
    simp only [] at hql hq ⊢
    split
    · rename_i he
      rw [if_pos he] at hq
      simp only [eof] at hq
      omega
    · rename_i hne
      have hf : atEof = false := by simpa using hne
      split
      · exact snil_emit _ _ hql.1
      · exact snil_skip hwf _ (snil_emit _ _ (tinv_backup _ hql.1 (hql.2 hf)))

theorem clean_errorf (l : L) (m : EMsg) : CleanOK inp (l.errorf m) := by
  unfold CleanOK L.errorf
  split <;> (intro hc; simp [cleanSt] at hc)

theorem snil_tinv (l : L) (h : SNil inp l) : TInv inp l := h.1

theorem clean_validateIndent (l : L) (ind : GoStr) (r : L × St) (hv : l.validateIndent ind = some r) : CleanOK inp r := by
  unfold L.validateIndent at hv
  by_cases h1 : ind.isEmpty = true
  · simp [h1] at hv
  · by_cases h2 : ind.length ≤ l.indent
    · simp [h1, h2] at hv
    · by_cases h3 : (32 : UInt8) ∈ ind
      · simp [h1, h2, h3] at hv; subst hv; exact clean_errorf _ _
      · by_cases h4 : ind.length > l.indent + 1
        · simp [h1, h2, h3, h4] at hv; subst hv; exact clean_errorf _ _
        · simp [h1, h2, h3, h4] at hv

/-! ### the Go-code states carry a contiguous pending literal from state to state -/

/-- states that are entered with the pending literal equal to the input text in front of the cursor -/
def contigSt : St → Bool
  | .goLineStart | .package | .importStart | .template | .goCode => true
  | _ => false

def ContigOK (inp : List Rune) (p : L × St) : Prop := contigSt p.2 = true → SInv inp p.1

theorem contig_errorf (l : L) (m : EMsg) : ContigOK inp (l.errorf m) := by
  unfold ContigOK L.errorf
  split <;> (intro hc; simp [contigSt] at hc)

theorem contig_validateIndent (l : L) (ind : GoStr) (r : L × St) (hv : l.validateIndent ind = some r) : ContigOK inp r := by
  unfold L.validateIndent at hv
  by_cases h1 : ind.isEmpty = true
  · simp [h1] at hv
  · by_cases h2 : ind.length ≤ l.indent
    · simp [h1, h2] at hv
    · by_cases h3 : (32 : UInt8) ∈ ind
      · simp [h1, h2, h3] at hv; subst hv; exact contig_errorf _ _
      · by_cases h4 : ind.length > l.indent + 1
        · simp [h1, h2, h3, h4] at hv; subst hv; exact contig_errorf _ _
        · simp [h1, h2, h3, h4] at hv

theorem sinv_tinv (l : L) (h : SInv inp l) : TInv inp l := h.1

attribute [local irreducible] L.peek L.skip L.next L.backup L.dropS L.acceptRun L.acceptUntil L.skipRun L.skipUntil L.emit L.errorf emitIfPending L.peekAhead L.ignore L.skipAhead L.continueToMatchingBrace L.continueToMatchingQuote TInv Inv Track SInv SNil Suf

macro "snil_step" h:term : tactic => `(tactic| first
  | assumption
  | (refine snil_emit _ _ ?_; repeat tinv_step)
  | (refine snil_emitIfPending _ _ ?_; repeat tinv_step)
  | (refine snil_ignore _ ?_; repeat tinv_step)
  | refine snil_skip $h _ ?_
  | refine snil_peek $h _ ?_
  | refine snil_skipRun $h _ _ ?_
  | refine snil_skipUntil $h _ _ ?_
  | refine snil_peekAhead _ _ ?_)

macro "clean_auto" h:term : tactic => `(tactic| ((try simp only []); (repeat' split) <;> (first
  | exact clean_errorf _ _
  | (unfold CleanOK; simp only []; intro hcl; simp [cleanSt] at hcl; done)
  | (unfold CleanOK; simp only []; intro _; (try simp only [snil_indent_iff]); repeat snil_step $h))))

section
variable (hwf : WF inp)
include hwf

theorem c_lexGohtContentStart (l : L) (h : SNil inp l) : CleanOK inp (lexGohtContentStart l) := by
  have ht := snil_tinv l h
  unfold lexGohtContentStart; clean_auto hwf
theorem c_lexGohtContent (l : L) (h : SNil inp l) : CleanOK inp (lexGohtContent l) := by
  have ht := snil_tinv l h
  unfold lexGohtContent; clean_auto hwf
theorem c_lexGohtContentEnd (l : L) (h : SNil inp l) : CleanOK inp (lexGohtContentEnd l) := by
  have ht := snil_tinv l h
  unfold lexGohtContentEnd; clean_auto hwf
theorem c_lexGohtOutputCode (l : L) (h : SNil inp l) : CleanOK inp (lexGohtOutputCode l) := by
  have ht := snil_tinv l h
  unfold lexGohtOutputCode; clean_auto hwf
theorem c_lexGohtSilentScript (l : L) (h : SNil inp l) : CleanOK inp (lexGohtSilentScript l) := by
  have ht := snil_tinv l h
  unfold lexGohtSilentScript; clean_auto hwf
theorem c_lexGohtAttributesStart (l : L) (h : SNil inp l) : CleanOK inp (lexGohtAttributesStart l) := by
  have ht := snil_tinv l h
  unfold lexGohtAttributesStart; clean_auto hwf
theorem c_lexGohtAttribute (l : L) (h : SNil inp l) : CleanOK inp (lexGohtAttribute l) := by
  have ht := snil_tinv l h
  unfold lexGohtAttribute; clean_auto hwf
theorem c_lexGohtAttributesEnd (l : L) (h : SNil inp l) : CleanOK inp (lexGohtAttributesEnd l) := by
  have ht := snil_tinv l h
  unfold lexGohtAttributesEnd; clean_auto hwf
theorem c_lexGohtAttributeEnd (l : L) (h : SNil inp l) : CleanOK inp (lexGohtAttributeEnd l) := by
  have ht := snil_tinv l h
  unfold lexGohtAttributeEnd; clean_auto hwf
theorem c_lexGohtAttributeValue (l : L) (h : SNil inp l) : CleanOK inp (lexGohtAttributeValue l) := by
  have ht := snil_tinv l h
  unfold lexGohtAttributeValue; clean_auto hwf
theorem c_lexGoLineStart (l : L) (ht : TInv inp l) : CleanOK inp (lexGoLineStart l) := by
  unfold lexGoLineStart; clean_auto hwf
theorem c_lexGoLineEnd (l : L) (ht : TInv inp l) : CleanOK inp (lexGoLineEnd l) := by
  unfold lexGoLineEnd; clean_auto hwf
theorem c_lexPackage (l : L) (ht : TInv inp l) : CleanOK inp (lexPackage l) := by
  unfold lexPackage; clean_auto hwf
theorem c_lexImportStart (l : L) (ht : TInv inp l) : CleanOK inp (lexImportStart l) := by
  unfold lexImportStart; clean_auto hwf
theorem c_lexImports (l : L) (h : SNil inp l) : CleanOK inp (lexImports l) := by
  have ht := snil_tinv l h
  unfold lexImports; clean_auto hwf
theorem c_lexGoCode (l : L) (ht : TInv inp l) : CleanOK inp (lexGoCode l) := by
  unfold lexGoCode; clean_auto hwf
theorem c_lexTemplate (l : L) (ht : TInv inp l) : CleanOK inp (lexTemplate l) := by
  unfold lexTemplate; clean_auto hwf
theorem c_lexGohtLineStart (l : L) (ht : TInv inp l) : CleanOK inp (lexGohtLineStart l) := by
  unfold lexGohtLineStart; clean_auto hwf
theorem c_lexGohtLineEnd (l : L) (ht : TInv inp l) : CleanOK inp (lexGohtLineEnd l) := by
  unfold lexGohtLineEnd; clean_auto hwf
theorem c_lexGohtNewLine (l : L) (ht : TInv inp l) : CleanOK inp (lexGohtNewLine l) := by
  unfold lexGohtNewLine; clean_auto hwf
theorem c_lexGohtAttributeNameTail (l : L) (h : SNil inp l) : CleanOK inp (lexGohtAttributeNameTail l) := by
  have ht := snil_tinv l h
  unfold lexGohtAttributeNameTail; clean_auto hwf
theorem c_lexGohtAttributeOperator (l : L) (ht : TInv inp l) : CleanOK inp (lexGohtAttributeOperator l) := by
  unfold lexGohtAttributeOperator; clean_auto hwf
theorem c_lexAttributeCommandStart (l : L) (ht : TInv inp l) : CleanOK inp (lexAttributeCommandStart l) := by
  unfold lexAttributeCommandStart; clean_auto hwf
theorem c_lexWhitespaceRemoval (l : L) (ht : TInv inp l) : CleanOK inp (lexWhitespaceRemoval l) := by
  unfold lexWhitespaceRemoval; clean_auto hwf
theorem c_lexGohtTextStart (l : L) (ht : TInv inp l) : CleanOK inp (lexGohtTextStart l) := by
  unfold lexGohtTextStart; clean_auto hwf
theorem c_lexGohtTextContent (l : L) (ht : TInv inp l) : CleanOK inp (lexGohtTextContent l) := by
  unfold lexGohtTextContent; clean_auto hwf
theorem c_lexGohtDoctype (l : L) (ht : TInv inp l) : CleanOK inp (lexGohtDoctype l) := by
  unfold lexGohtDoctype; clean_auto hwf
theorem c_lexGohtUnescaped (l : L) (ht : TInv inp l) : CleanOK inp (lexGohtUnescaped l) := by
  unfold lexGohtUnescaped; clean_auto hwf
theorem c_lexComment (l : L) (ht : TInv inp l) : CleanOK inp (lexComment l) := by
  unfold lexComment; clean_auto hwf
theorem c_lexVoidTag (l : L) (ht : TInv inp l) : CleanOK inp (lexVoidTag l) := by
  unfold lexVoidTag; clean_auto hwf
theorem c_lexGohtCommandCode (l : L) (ht : TInv inp l) : CleanOK inp (lexGohtCommandCode l) := by
  unfold lexGohtCommandCode; clean_auto hwf
theorem c_lexFilterStart (l : L) (ht : TInv inp l) : CleanOK inp (lexFilterStart l) := by
  unfold lexFilterStart; clean_auto hwf
theorem c_hamlIdentifier (t : TT) (l : L) (ht : TInv inp l) : CleanOK inp (hamlIdentifier t l) := by
  unfold hamlIdentifier; clean_auto hwf
theorem c_lexFilterLineStart (n : Nat) (t : TT) (l : L) (ht : TInv inp l) : CleanOK inp (lexFilterLineStart n t l) := by
  unfold lexFilterLineStart; clean_auto hwf
theorem c_lexFilterIndent (n : Nat) (t : TT) (l : L) (ht : TInv inp l) : CleanOK inp (lexFilterIndent n t l) := by
  unfold lexFilterIndent; clean_auto hwf
theorem c_lexFilterContent (n : Nat) (t : TT) (l : L) (ht : TInv inp l) : CleanOK inp (lexFilterContent n t l) := by
  unfold lexFilterContent; clean_auto hwf
theorem c_dynamicText (t : TT) (ss : List Nat) (nx : St) (hnx : cleanSt nx = false) (l : L) (ht : TInv inp l) : CleanOK inp (dynamicText t ss nx l) := by
  unfold dynamicText; simp only []
  repeat' split
  all_goals first
    | exact clean_errorf _ _
    | (unfold CleanOK; simp only []; intro hcl; rw [hnx] at hcl; cases hcl)
theorem c_ignoreIndentedLines (n : Nat) (l : L) (ht : TInv inp l) : CleanOK inp (ignoreIndentedLines n l) := by
  unfold ignoreIndentedLines; simp only []
  repeat' split
  all_goals first
    | exact clean_errorf _ _
    | (rename_i r hv; exact clean_validateIndent _ _ r hv)
    | (unfold CleanOK; simp only []; intro hcl; simp [cleanSt] at hcl; done)


theorem c_lexObjectReference (l : L) (h : SNil inp l) : CleanOK inp (lexObjectReference l) := by
  have ht := snil_tinv l h
  unfold lexObjectReference; simp only []
  split
  · exact clean_errorf _ _
  · rename_i hne
    unfold CleanOK; simp only []; intro _
    exact snil_skip hwf _ (snil_emit _ _ (tinv_brace_backup _ _ (tinv_skip _ ht) (by simpa using hne)))

theorem c_lexGohtAttributeDynamicValue (l : L) (h : SNil inp l) : CleanOK inp (lexGohtAttributeDynamicValue l) := by
  have ht := snil_tinv l h
  unfold lexGohtAttributeDynamicValue; simp only []
  have h1 := tinv_peek _ (tinv_skip _ ht)
  split
  · exact clean_errorf _ _
  · split
    · exact clean_errorf _ _
    · rename_i hne
      unfold CleanOK; simp only []; intro _
      exact snil_skip hwf _ (snil_emit _ _ (tinv_brace_backup _ _ (tinv_skip _ h1) (by simpa using hne)))

theorem c_lexGohtAttributeCommand (l : L) (ht : TInv inp l) : CleanOK inp (lexGohtAttributeCommand l) := by
  unfold lexGohtAttributeCommand; simp only []
  have h1 := tinv_skip _ (tinv_skipUntil _ Gen.lexGohtAttributeCommand_skipUntil1 (tinv_skipUntil _ Gen.lexGohtAttributeCommand_skipUntil0 (tinv_ignore _ ht)))
  split
  · exact clean_errorf _ _
  · rename_i hne
    unfold CleanOK; simp only []; intro _
    exact snil_skip hwf _ (snil_emit _ _ (tinv_brace_backup _ _ h1 (by simpa using hne)))

theorem c_lexGohtAttributeStaticValue (l : L) (ht : TInv inp l) : CleanOK inp (lexGohtAttributeStaticValue l) := by
  unfold lexGohtAttributeStaticValue; simp only []
  split
  · exact clean_errorf _ _
  · split
    · exact clean_errorf _ _
    · rename_i h1 h2
      unfold CleanOK; simp only []; intro _
      apply snil_quote hwf l _ _ ht
      simp only [ch, bne_iff_ne, ne_eq, Bool.and_eq_true, decide_eq_true_eq, not_and, Decidable.not_not] at h2
      by_cases hq : (l.continueToMatchingQuote TT.attrEscapedValue true).2 = 34
      · exact Or.inl hq
      · exact Or.inr (h2 hq)

theorem c_lexGohtAttributeName (l : L) (ht : TInv inp l) : CleanOK inp (lexGohtAttributeName l) := by
  unfold lexGohtAttributeName; simp only []
  have h2 := tinv_peek _ (tinv_peek _ ht)
  split
  · split
    · exact clean_errorf _ _
    · split
      · exact clean_errorf _ _
      · rename_i h1 hq
        apply c_lexGohtAttributeNameTail hwf
        apply snil_quote hwf _ _ _ h2
        simp only [ch, bne_iff_ne, ne_eq, Bool.and_eq_true, decide_eq_true_eq, not_and, Decidable.not_not] at hq
        by_cases hq' : ((l.peek).1.peek.1.continueToMatchingQuote TT.attrName false).2 = 34
        · exact Or.inl hq'
        · exact Or.inr (hq hq')
  · split
    · exact clean_errorf _ _
    · exact c_lexGohtAttributeNameTail hwf _ (snil_emit _ _ (tinv_acceptUntil _ _ h2))

theorem c_lexGohtIndent (l : L) (ht : TInv inp l) : CleanOK inp (lexGohtIndent l) := by
  unfold lexGohtIndent; simp only []
  have h1 := tinv_acceptRun l Gen.lexGohtIndent_acceptRun0 ht
  split
  · exact clean_errorf _ _
  · split
    · unfold CleanOK; simp only []; intro _
      exact snil_emit _ _ ((tinv_indent_iff _ _).2 h1)
    · split
      · rename_i r hv; exact clean_validateIndent _ _ r hv
      · unfold CleanOK; simp only []; intro _
        exact snil_emit _ _ ((tinv_indent_iff _ _).2 h1)

theorem c_lexGohtStart (l : L) (ht : TInv inp l) : CleanOK inp (lexGohtStart l) := by
  unfold lexGohtStart
  split
  · exact clean_errorf _ _
  · unfold CleanOK; simp only []; intro hcl; simp [cleanSt] at hcl

/-- **clean entry** — every state function hands a clean state an empty pending literal -/
theorem step_clean (st : St) (l : L) (ht : TInv inp l) (hc : cleanSt st = true → SNil inp l) : CleanOK inp (step st l) := by
  cases st <;> simp only [step]
  all_goals first
    | (unfold CleanOK; simp only []; intro hcl; simp [cleanSt] at hcl; done)
    | exact c_lexGohtContentStart hwf l (hc rfl) | exact c_lexGohtContent hwf l (hc rfl) | exact c_lexGohtContentEnd hwf l (hc rfl)
    | exact c_lexGohtOutputCode hwf l (hc rfl) | exact c_lexGohtSilentScript hwf l (hc rfl) | exact c_lexObjectReference hwf l (hc rfl)
    | exact c_lexGohtAttributesStart hwf l (hc rfl) | exact c_lexGohtAttribute hwf l (hc rfl) | exact c_lexGohtAttributesEnd hwf l (hc rfl)
    | exact c_lexGohtAttributeEnd hwf l (hc rfl) | exact c_lexGohtAttributeValue hwf l (hc rfl) | exact c_lexGohtAttributeDynamicValue hwf l (hc rfl)
    | exact c_lexGoLineStart hwf l ht | exact c_lexGoLineEnd hwf l ht | exact c_lexPackage hwf l ht | exact c_lexImportStart hwf l ht
    | exact c_lexImports hwf l (hc rfl) | exact c_lexGoCode hwf l ht | exact c_lexTemplate hwf l ht | exact c_lexGohtStart hwf l ht
    | exact c_lexGohtLineStart hwf l ht | exact c_lexGohtIndent hwf l ht | exact c_lexGohtLineEnd hwf l ht | exact c_lexGohtNewLine hwf l ht
    | exact c_hamlIdentifier hwf _ l ht | exact c_lexGohtAttributeName hwf l ht | exact c_lexGohtAttributeOperator hwf l ht
    | exact c_lexGohtAttributeStaticValue hwf l ht | exact c_lexAttributeCommandStart hwf l ht | exact c_lexGohtAttributeCommand hwf l ht
    | exact c_lexWhitespaceRemoval hwf l ht | exact c_lexGohtTextStart hwf l ht | exact c_lexGohtTextContent hwf l ht
    | exact c_dynamicText hwf _ _ _ rfl l ht | exact c_lexGohtDoctype hwf l ht | exact c_lexGohtUnescaped hwf l ht
    | exact c_ignoreIndentedLines hwf _ l ht | exact c_lexComment hwf l ht | exact c_lexVoidTag hwf l ht | exact c_lexGohtCommandCode hwf l ht
    | exact c_lexFilterStart hwf l ht | exact c_lexFilterLineStart hwf _ _ l ht | exact c_lexFilterIndent hwf _ _ l ht | exact c_lexFilterContent hwf _ _ l ht
end



section
variable (hwf : WF inp)
include hwf

macro "sinv_step" h:term : tactic => `(tactic| first
  | assumption
  | (refine snil_sinv _ ?_; (repeat snil_step $h); done)
  | refine sinv_peek $h _ ?_
  | refine sinv_acceptUntil $h _ _ ?_
  | refine sinv_acceptRun $h _ _ ?_
  | refine sinv_next1 $h _ ?_)

/-- a state function none of whose branches leads to a Go-code state -/
macro "contig_none" : tactic => `(tactic| ((try simp only []); (repeat' split) <;> (first
  | exact contig_errorf _ _
  | (rename_i r hv; exact contig_validateIndent _ _ r hv)
  | (unfold ContigOK; simp only []; intro hcl; simp [contigSt] at hcl; done))))

macro "contig_auto" h:term : tactic => `(tactic| ((try simp only []); (repeat' split) <;> (first
  | exact contig_errorf _ _
  | (unfold ContigOK; simp only []; intro hcl; simp [contigSt] at hcl; done)
  | (unfold ContigOK; simp only []; intro _; repeat sinv_step $h))))

theorem g_lexGoLineStart (l : L) (h : SInv inp l) : ContigOK inp (lexGoLineStart l) := by
  have ht : TInv inp l := sinv_tinv l h
  unfold lexGoLineStart; contig_auto hwf
theorem g_lexGoLineEnd (l : L) (ht : TInv inp l) : ContigOK inp (lexGoLineEnd l) := by
  unfold lexGoLineEnd; contig_auto hwf
theorem g_lexPackage (l : L) (h : SInv inp l) : ContigOK inp (lexPackage l) := by
  have ht : TInv inp l := sinv_tinv l h
  unfold lexPackage; contig_auto hwf
theorem g_lexImportStart (l : L) (h : SInv inp l) : ContigOK inp (lexImportStart l) := by
  have ht : TInv inp l := sinv_tinv l h
  unfold lexImportStart; contig_auto hwf
theorem g_lexImports (l : L) (h : SNil inp l) : ContigOK inp (lexImports l) := by
  have ht : TInv inp l := snil_tinv l h
  unfold lexImports; contig_auto hwf
theorem g_lexGoCode (l : L) (h : SInv inp l) : ContigOK inp (lexGoCode l) := by
  have ht : TInv inp l := sinv_tinv l h
  unfold lexGoCode; contig_auto hwf
theorem g_lexTemplate (l : L) (h : SInv inp l) : ContigOK inp (lexTemplate l) := by
  have ht : TInv inp l := sinv_tinv l h
  unfold lexTemplate; contig_auto hwf
theorem g_lexGohtLineStart (l : L) (ht : TInv inp l) : ContigOK inp (lexGohtLineStart l) := by
  unfold lexGohtLineStart; contig_auto hwf
omit hwf in
theorem g_lexGohtContentStart (l : L) : ContigOK inp (lexGohtContentStart l) := by
  unfold lexGohtContentStart; contig_none
omit hwf in
theorem g_lexGohtContent (l : L) : ContigOK inp (lexGohtContent l) := by
  unfold lexGohtContent; contig_none
omit hwf in
theorem g_lexGohtContentEnd (l : L) : ContigOK inp (lexGohtContentEnd l) := by
  unfold lexGohtContentEnd; contig_none
omit hwf in
theorem g_lexGohtLineEnd (l : L) : ContigOK inp (lexGohtLineEnd l) := by
  unfold lexGohtLineEnd; contig_none
omit hwf in
theorem g_lexGohtNewLine (l : L) : ContigOK inp (lexGohtNewLine l) := by
  unfold lexGohtNewLine; contig_none
omit hwf in
theorem g_lexObjectReference (l : L) : ContigOK inp (lexObjectReference l) := by
  unfold lexObjectReference; contig_none
omit hwf in
theorem g_lexGohtAttributesStart (l : L) : ContigOK inp (lexGohtAttributesStart l) := by
  unfold lexGohtAttributesStart; contig_none
omit hwf in
theorem g_lexGohtAttributesEnd (l : L) : ContigOK inp (lexGohtAttributesEnd l) := by
  unfold lexGohtAttributesEnd; contig_none
omit hwf in
theorem g_lexGohtAttribute (l : L) : ContigOK inp (lexGohtAttribute l) := by
  unfold lexGohtAttribute; contig_none
omit hwf in
theorem g_lexGohtAttributeNameTail (l : L) : ContigOK inp (lexGohtAttributeNameTail l) := by
  unfold lexGohtAttributeNameTail; contig_none
omit hwf in
theorem g_lexGohtAttributeOperator (l : L) : ContigOK inp (lexGohtAttributeOperator l) := by
  unfold lexGohtAttributeOperator; contig_none
omit hwf in
theorem g_lexGohtAttributeValue (l : L) : ContigOK inp (lexGohtAttributeValue l) := by
  unfold lexGohtAttributeValue; contig_none
omit hwf in
theorem g_lexGohtAttributeStaticValue (l : L) : ContigOK inp (lexGohtAttributeStaticValue l) := by
  unfold lexGohtAttributeStaticValue; contig_none
omit hwf in
theorem g_lexGohtAttributeDynamicValue (l : L) : ContigOK inp (lexGohtAttributeDynamicValue l) := by
  unfold lexGohtAttributeDynamicValue; contig_none
omit hwf in
theorem g_lexAttributeCommandStart (l : L) : ContigOK inp (lexAttributeCommandStart l) := by
  unfold lexAttributeCommandStart; contig_none
omit hwf in
theorem g_lexGohtAttributeCommand (l : L) : ContigOK inp (lexGohtAttributeCommand l) := by
  unfold lexGohtAttributeCommand; contig_none
omit hwf in
theorem g_lexGohtAttributeEnd (l : L) : ContigOK inp (lexGohtAttributeEnd l) := by
  unfold lexGohtAttributeEnd; contig_none
omit hwf in
theorem g_lexWhitespaceRemoval (l : L) : ContigOK inp (lexWhitespaceRemoval l) := by
  unfold lexWhitespaceRemoval; contig_none
omit hwf in
theorem g_lexGohtTextStart (l : L) : ContigOK inp (lexGohtTextStart l) := by
  unfold lexGohtTextStart; contig_none
omit hwf in
theorem g_lexGohtTextContent (l : L) : ContigOK inp (lexGohtTextContent l) := by
  unfold lexGohtTextContent; contig_none
omit hwf in
theorem g_lexGohtDoctype (l : L) : ContigOK inp (lexGohtDoctype l) := by
  unfold lexGohtDoctype; contig_none
omit hwf in
theorem g_lexGohtUnescaped (l : L) : ContigOK inp (lexGohtUnescaped l) := by
  unfold lexGohtUnescaped; contig_none
omit hwf in
theorem g_lexGohtSilentScript (l : L) : ContigOK inp (lexGohtSilentScript l) := by
  unfold lexGohtSilentScript; contig_none
omit hwf in
theorem g_lexGohtOutputCode (l : L) : ContigOK inp (lexGohtOutputCode l) := by
  unfold lexGohtOutputCode; contig_none
omit hwf in
theorem g_lexComment (l : L) : ContigOK inp (lexComment l) := by
  unfold lexComment; contig_none
omit hwf in
theorem g_lexVoidTag (l : L) : ContigOK inp (lexVoidTag l) := by
  unfold lexVoidTag; contig_none
omit hwf in
theorem g_lexGohtCommandCode (l : L) : ContigOK inp (lexGohtCommandCode l) := by
  unfold lexGohtCommandCode; contig_none
omit hwf in
theorem g_lexFilterStart (l : L) : ContigOK inp (lexFilterStart l) := by
  unfold lexFilterStart; contig_none
omit hwf in
theorem g_lexGohtIndent (l : L) : ContigOK inp (lexGohtIndent l) := by
  unfold lexGohtIndent; contig_none
omit hwf in
theorem g_hamlIdentifier (t : TT) (l : L) : ContigOK inp (hamlIdentifier t l) := by
  unfold hamlIdentifier; contig_none
omit hwf in
theorem g_lexGohtAttributeName (l : L) : ContigOK inp (lexGohtAttributeName l) := by
  unfold lexGohtAttributeName; simp only []
  repeat' split
  all_goals first
    | exact contig_errorf _ _
    | exact g_lexGohtAttributeNameTail _
omit hwf in
theorem g_ignoreIndentedLines (n : Nat) (l : L) : ContigOK inp (ignoreIndentedLines n l) := by
  unfold ignoreIndentedLines; contig_none
omit hwf in
theorem g_dynamicText (t : TT) (ss : List Nat) (nx : St) (hnx : contigSt nx = false) (l : L) : ContigOK inp (dynamicText t ss nx l) := by
  unfold dynamicText; simp only []
  repeat' split
  all_goals first
    | exact contig_errorf _ _
    | (unfold ContigOK; simp only []; intro hcl; rw [hnx] at hcl; cases hcl)
omit hwf in
theorem g_lexFilterLineStart (n : Nat) (t : TT) (l : L) : ContigOK inp (lexFilterLineStart n t l) := by
  unfold lexFilterLineStart; contig_none
omit hwf in
theorem g_lexFilterIndent (n : Nat) (t : TT) (l : L) : ContigOK inp (lexFilterIndent n t l) := by
  unfold lexFilterIndent; contig_none
omit hwf in
theorem g_lexFilterContent (n : Nat) (t : TT) (l : L) : ContigOK inp (lexFilterContent n t l) := by
  unfold lexFilterContent; contig_none
omit hwf in
theorem g_lexGohtStart (l : L) : ContigOK inp (lexGohtStart l) := by
  unfold lexGohtStart
  split
  · exact contig_errorf _ _
  · unfold ContigOK; simp only []; intro hcl; simp [contigSt] at hcl

/-- **contiguous entry** — every state function hands a Go-code state a pending literal that is the input text in front of the cursor -/
theorem step_contig (st : St) (l : L) (ht : TInv inp l) (hc : cleanSt st = true → SNil inp l) (hk : contigSt st = true → SInv inp l) :
    ContigOK inp (step st l) := by
  cases st <;> simp only [step]
  all_goals first
    | (unfold ContigOK; simp only []; intro hcl; simp [contigSt] at hcl; done)
    | exact g_lexGoLineStart hwf l (hk rfl) | exact g_lexPackage hwf l (hk rfl) | exact g_lexImportStart hwf l (hk rfl)
    | exact g_lexGoCode hwf l (hk rfl) | exact g_lexTemplate hwf l (hk rfl) | exact g_lexImports hwf l (hc rfl)
    | exact g_lexGoLineEnd hwf l ht | exact g_lexGohtLineStart hwf l ht
    | exact g_lexGohtContentStart l | exact g_lexGohtContent l | exact g_lexGohtContentEnd l | exact g_lexGohtLineEnd l | exact g_lexGohtNewLine l
    | exact g_lexObjectReference l | exact g_lexGohtAttributesStart l | exact g_lexGohtAttributesEnd l | exact g_lexGohtAttribute l
    | exact g_lexGohtAttributeName l | exact g_lexGohtAttributeOperator l | exact g_lexGohtAttributeValue l | exact g_lexGohtAttributeStaticValue l
    | exact g_lexGohtAttributeDynamicValue l | exact g_lexAttributeCommandStart l | exact g_lexGohtAttributeCommand l | exact g_lexGohtAttributeEnd l
    | exact g_lexWhitespaceRemoval l | exact g_lexGohtTextStart l | exact g_lexGohtTextContent l | exact g_dynamicText _ _ _ rfl l
    | exact g_lexGohtDoctype l | exact g_lexGohtUnescaped l | exact g_lexGohtSilentScript l | exact g_ignoreIndentedLines _ l
    | exact g_lexGohtOutputCode l | exact g_lexComment l | exact g_lexVoidTag l | exact g_lexGohtCommandCode l | exact g_lexFilterStart l
    | exact g_lexFilterLineStart _ _ l | exact g_lexFilterIndent _ _ l | exact g_lexFilterContent _ _ l | exact g_lexGohtIndent l
    | exact g_hamlIdentifier _ l | exact g_lexGohtStart l
end

end GL
