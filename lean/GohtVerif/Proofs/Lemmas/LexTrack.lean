import GohtVerif.Proofs.Lemmas.LexRunes
/-! The lexer's line/column bookkeeping (`pos`) is, in every reachable configuration, the UTF-16
position of the read cursor in the input: `Track`.  `TInv` = `Inv` (no panic, no misplaced UnreadRune)
together with `Track`; every primitive preserves it. -/
namespace GL

/-- `backup` takes 2 code units off for a rune of four bytes and 1 otherwise: right for every rune the decoder delivers -/
def U16OK (r : Rune) : Prop := r.u16 = if r.width = 4 then 2 else 1

def bump (pos : List Nat) (r : Rune) : List Nat := bumpPos pos (r.cp == 10) r.u16

/-- per-line UTF-16 lengths of the consumed runes, current line first (a line's length includes its `\n`) -/
def linesOf (done : List Rune) : List Nat := done.foldl bump [0]

def Track (inp : List Rune) (l : L) : Prop :=
  (∀ r ∈ inp, U16OK r) ∧
  ∃ done, inp = done ++ l.cur.rest ∧ l.pos = linesOf done ∧ ∀ r, l.cur.last = some r → ∃ d0, done = d0 ++ [r]

def TInv (inp : List Rune) (l : L) : Prop := Inv l ∧ Track inp l

theorem linesOf_snoc (done : List Rune) (r : Rune) : linesOf (done ++ [r]) = bump (linesOf done) r := by
  simp [linesOf, List.foldl_append]

theorem bump_ne_nil (pos : List Nat) (r : Rune) : bump pos r ≠ [] := by
  unfold bump bumpPos
  cases pos <;> simp only [] <;> split <;> simp

theorem linesOf_ne_nil (done : List Rune) : linesOf done ≠ [] := by
  rcases List.eq_nil_or_concat done with rfl | ⟨d, r, rfl⟩
  · simp [linesOf]
  · rw [List.concat_eq_append, linesOf_snoc]; exact bump_ne_nil _ _

theorem track_next (inp : List Rune) (l : L) (h : Track inp l) : Track inp (l.next).1 := by
  obtain ⟨hu, done, hin, hpos, hlast⟩ := h
  refine ⟨hu, ?_⟩
  unfold L.next Cur.next
  cases hrest : l.cur.rest with
  | nil =>
    simp only []
    refine ⟨done, by simpa [hrest] using hin, hpos, ?_⟩
    intro r hr; simp at hr
  | cons r rs =>
    simp only []
    refine ⟨done ++ [r], by simp [hin, hrest], ?_, ?_⟩
    · rw [linesOf_snoc, ← hpos]; rfl
    · intro x hx; simp only [Option.some.injEq] at hx; subst hx; exact ⟨done, rfl⟩

theorem track_same (inp : List Rune) (l l' : L) (hc : l'.cur = l.cur) (hp : l'.pos = l.pos) (h : Track inp l) : Track inp l' := by
  obtain ⟨hu, done, hin, hpos, hlast⟩ := h
  exact ⟨hu, done, by rw [hc]; exact hin, by rw [hp]; exact hpos, by rw [hc]; exact hlast⟩

theorem track_dropS (inp : List Rune) (l : L) (n : Nat) (h : Track inp l) : Track inp (l.dropS n) := by
  apply track_same inp l _ _ _ h <;> (unfold L.dropS; split <;> rfl)

theorem unbumpPos_cur (l : L) : (unbumpPos l).cur = l.cur := by
  unfold unbumpPos
  simp only []
  split <;> rfl

theorem unbumpPos_pos (l : L) (p : Nat) (ps : List Nat) (nl : Bool) (u : Nat) (hu1 : 1 ≤ u)
    (hk : u = if l.width = 4 then 2 else 1) (hp : l.pos = bumpPos (p :: ps) nl u) :
    (unbumpPos l).pos = p :: ps := by
  unfold unbumpPos
  simp only []
  cases nl with
  | true =>
    have : l.pos = 0 :: (p + u) :: ps := by rw [hp]; simp [bumpPos]
    rw [this]
    simp only []
    rw [← hk]; simp
  | false =>
    have hpp : l.pos = (p + u) :: ps := by rw [hp]; simp [bumpPos]
    rw [hpp]
    split
    · rename_i heq; simp only [List.cons.injEq] at heq; omega
    · rename_i heq; simp only [List.cons.injEq] at heq; omega
    · rename_i q qs _ _ heq
      simp only [List.cons.injEq] at heq
      obtain ⟨rfl, rfl⟩ := heq
      simp only []
      rw [← hk]; simp
    · rename_i heq; simp at heq

theorem track_backup (inp : List Rune) (l : L) (hi : Inv l) (h : Track inp l) (hj : JustRead l) : Track inp l.backup := by
  unfold L.backup
  split
  · exact h
  · rename_i hw0
    rcases hj with h0 | ⟨r, s0, hl, hw, hs, hposj⟩
    · exact absurd h0 hw0
    obtain ⟨hu, done, hin, hpos, hlast⟩ := h
    obtain ⟨d0, hd0⟩ := hlast r hl
    have hru : U16OK r := hu r (by rw [hin, hd0]; simp)
    have hun : (unbumpPos l).cur.unread = some { rest := r :: l.cur.rest, last := none } := by
      rw [unbumpPos_cur]; simp [Cur.unread, hl]
    have hq := linesOf_ne_nil d0
    obtain ⟨p, ps, hpp⟩ : ∃ p ps, linesOf d0 = p :: ps := by
      cases hq' : linesOf d0 with
      | nil => exact absurd hq' hq
      | cons p ps => exact ⟨p, ps, rfl⟩
    have hposl : l.pos = bumpPos (p :: ps) (r.cp == 10) r.u16 := by
      rw [hpos, hd0, linesOf_snoc, hpp]; rfl
    have hub := unbumpPos_pos l p ps _ _ (u16_pos r) (by rw [hru, hw]) hposl
    apply track_dropS
    simp only [hun]
    refine ⟨hu, d0, ?_, ?_, ?_⟩
    · simp [hin, hd0]
    · simp only [hub, hpp]
    · intro x hx; simp at hx
