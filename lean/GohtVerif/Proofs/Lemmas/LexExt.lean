import GohtVerif.Proofs.Lemmas.LexSufPrims
/-! `acceptUntil` extends the pending literal by the runes in front of the cursor, none of which is a stop rune. -/
namespace GL
variable {inp : List Rune}

/-- `l'` is `l` after accepting the runes `acc` (none of them in `v`) into the pending literal -/
def Ext (v : List Nat) (l l' : L) : Prop :=
  ∃ acc : List Rune, l.cur.rest = acc ++ l'.cur.rest ∧ l'.s = l.s ++ encAll acc ∧ ∀ r ∈ acc, r.cp ∉ v

theorem ext_acceptUntilAux (hwf : WF inp) (v : List Nat) (n : Nat) (l : L) (h : SInv inp l) :
    Ext v l (acceptUntilAux v n l) := by
  have key : ∀ l : L, SInv inp l → Ext v l (l.next).1.backup := by
    intro l h
    have hn := sinv_next l h
    cases hrest : l.cur.rest with
    | nil =>
      have hw : (l.next).1.width = 0 := by unfold L.next Cur.next; simp [hrest]
      have hb : (l.next).1.backup = (l.next).1 := by unfold L.backup; simp [hw]
      rw [hb]
      refine ⟨[], ?_, ?_, by simp⟩
      · unfold L.next Cur.next; simp [hrest]
      · unfold L.next Cur.next; simp [hrest, encAll]
    | cons r rs =>
      have hl : (l.next).1.cur.last = some r := by unfold L.next Cur.next; simp [hrest]
      have hs : (l.next).1.s = l.s ++ r.enc := by unfold L.next Cur.next; simp [hrest]
      have hwd : (l.next).1.width = r.width := by unfold L.next Cur.next; simp [hrest]
      have hrs : (l.next).1.cur.rest = rs := by unfold L.next Cur.next; simp [hrest]
      obtain ⟨pre, sr, hin, _⟩ := h.2
      have hrin : r ∈ inp := by rw [hin, hrest]; simp
      have hwl : r.width = r.enc.length := hwf r hrin
      have hrk := hn.1.1.1.2.2.1.2 r hl
      have hw0 : (l.next).1.width ≠ 0 := by rw [hwd]; have := hrk.1; omega
      have hlen : (l.next).1.width ≤ (l.next).1.s.length := by rw [hwd, hs, hwl]; simp
      obtain ⟨hbs, hbr⟩ := backup_fields (l.next).1 r hw0 hl hlen
      refine ⟨[], ?_, ?_, by simp⟩
      · rw [hbr, hrs]; simpa using hrest
      · rw [hbs, hs, hwd, hwl]; simp [encAll]
  induction n generalizing l with
  | zero => simp only [acceptUntilAux]; exact key l h
  | succ n ih =>
    simp only [acceptUntilAux]
    split
    · rename_i hc
      have hn := sinv_next l h
      obtain ⟨acc, hr, hs, hv⟩ := ih (l.next).1 hn.1
      cases hrest : l.cur.rest with
      | nil =>
        -- at the end of the input `next` returns the end marker, which is never accepted
        exfalso
        have : (l.next).2 = eof := by unfold L.next Cur.next; simp [hrest]
        rw [this] at hc; simp at hc
      | cons r rs =>
        have hs1 : (l.next).1.s = l.s ++ r.enc := by unfold L.next Cur.next; simp [hrest]
        have hrs : (l.next).1.cur.rest = rs := by unfold L.next Cur.next; simp [hrest]
        have hc2 : (l.next).2 = r.cp := by unfold L.next Cur.next; simp [hrest]
        refine ⟨r :: acc, ?_, ?_, ?_⟩
        · rw [hrest, List.cons_append, ← hr, hrs]
        · rw [hs, hs1]; simp [encAll, List.append_assoc]
        · intro x hx
          rcases List.mem_cons.mp hx with rfl | hx
          · rw [hc2] at hc
            simp only [Bool.and_eq_true, Bool.not_eq_true', bne_iff_ne, ne_eq] at hc
            intro hmem
            have : v.contains x.cp = true := by simpa using hmem
            rw [this] at hc; exact absurd hc.1 (by decide)
          · exact hv x hx
    · exact key l h

theorem ext_acceptUntil (hwf : WF inp) (l : L) (v : List Nat) (h : SInv inp l) : Ext v l (l.acceptUntil v) :=
  ext_acceptUntilAux hwf v _ l h

end GL
