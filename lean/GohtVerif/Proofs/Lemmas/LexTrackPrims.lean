import GohtVerif.Proofs.Lemmas.LexTrack
/-! `TInv` (no panic, no misplaced UnreadRune, `pos` = true position of the cursor) is preserved by every lexer
primitive.  The compound lemmas are those of LexSafe.lean, re-proved for the stronger invariant by the same scripts. -/
namespace GL
variable {inp : List Rune}

theorem tinv_next (l : L) (h : TInv inp l) : TInv inp (l.next).1 ∧ JustRead (l.next).1 :=
  ⟨⟨(inv_next l h.1).1, track_next inp l h.2⟩, (inv_next l h.1).2⟩

theorem tinv_dropS (l : L) (h : TInv inp l) (hw : l.width ≤ l.s.length) : TInv inp (l.dropS l.width) :=
  ⟨inv_dropS l h.1 hw, track_dropS inp l _ h.2⟩

theorem tjustRead_width_le (l : L) (h : TInv inp l) (hj : JustRead l) : l.width ≤ l.s.length :=
  justRead_width_le l h.1 hj

theorem tinv_backup (l : L) (h : TInv inp l) (hj : JustRead l) : TInv inp l.backup :=
  ⟨inv_backup l h.1 hj, track_backup inp l h.1 h.2 hj⟩

theorem tinv_ignore (l : L) (h : TInv inp l) : TInv inp l.ignore :=
  ⟨inv_ignore l h.1, track_same inp l _ rfl rfl h.2⟩

theorem tinv_peekAhead (l : L) (n : Nat) (h : TInv inp l) : TInv inp (l.peekAhead n).1 := by
  refine ⟨inv_peekAhead l n h.1, ?_⟩
  obtain ⟨hu, done, hin, hpos, _⟩ := h.2
  refine ⟨hu, done, hin, hpos, ?_⟩
  intro r hr; simp [L.peekAhead] at hr

theorem tinv_indent (l : L) (n : Nat) (h : TInv inp l) : TInv inp { l with indent := n } := h

theorem tinv_emit (l : L) (t : TT) (h : TInv inp l) : TInv inp (l.emit t) := by
  refine ⟨inv_emit l t h.1, ?_⟩
  obtain ⟨p, hp⟩ := position_some l h.1
  apply track_same inp l _ _ _ h.2 <;> (unfold L.emit; rw [hp])

theorem tinv_errorf (l : L) (m : EMsg) (h : TInv inp l) : TInv inp (l.errorf m).1 := by
  refine ⟨inv_errorf l m h.1, ?_⟩
  obtain ⟨p, hp⟩ := position_some l h.1
  apply track_same inp l _ _ _ h.2 <;> (unfold L.errorf; rw [hp])

theorem tinv_peek (l : L) (h : TInv inp l) : TInv inp (l.peek).1 := by
  unfold L.peek
  have := tinv_next l h
  exact tinv_backup _ this.1 this.2

theorem tinv_skip (l : L) (h : TInv inp l) : TInv inp (l.skip).1 := by
  unfold L.skip
  have := tinv_next l h
  exact tinv_dropS _ this.1 (tjustRead_width_le _ this.1 this.2)

theorem tinv_emitIfPending (l : L) (t : TT) (h : TInv inp l) : TInv inp (emitIfPending l t) := by
  unfold emitIfPending; split
  · exact tinv_emit l t h
  · exact h

theorem tinv_acceptRunAux (v : List Nat) (n : Nat) (l : L) (h : TInv inp l) : TInv inp (acceptRunAux v n l) := by
  induction n generalizing l with
  | zero => simp only [acceptRunAux]; have := tinv_next l h; exact tinv_backup _ this.1 this.2
  | succ n ih =>
    simp only [acceptRunAux]
    have := tinv_next l h
    split
    · exact ih _ this.1
    · exact tinv_backup _ this.1 this.2
theorem tinv_acceptRun (l : L) (v : List Nat) (h : TInv inp l) : TInv inp (l.acceptRun v) := tinv_acceptRunAux _ _ _ h

theorem tinv_acceptUntilAux (v : List Nat) (n : Nat) (l : L) (h : TInv inp l) : TInv inp (acceptUntilAux v n l) := by
  induction n generalizing l with
  | zero => simp only [acceptUntilAux]; have := tinv_next l h; exact tinv_backup _ this.1 this.2
  | succ n ih =>
    simp only [acceptUntilAux]
    have := tinv_next l h
    split
    · exact ih _ this.1
    · exact tinv_backup _ this.1 this.2
theorem tinv_acceptUntil (l : L) (v : List Nat) (h : TInv inp l) : TInv inp (l.acceptUntil v) := tinv_acceptUntilAux _ _ _ h

theorem tinv_skipRunAux (v : List Nat) (n : Nat) (l : L) (h : TInv inp l) : TInv inp (skipRunAux v n l) := by
  induction n generalizing l with
  | zero => simp only [skipRunAux]; have := tinv_next l h; exact tinv_backup _ this.1 this.2
  | succ n ih =>
    simp only [skipRunAux]
    have := tinv_next l h
    split
    · exact ih _ (tinv_dropS _ this.1 (tjustRead_width_le _ this.1 this.2))
    · exact tinv_backup _ this.1 this.2
theorem tinv_skipRun (l : L) (v : List Nat) (h : TInv inp l) : TInv inp (l.skipRun v) := tinv_skipRunAux _ _ _ h

theorem tinv_skipUntilAux (v : List Nat) (n : Nat) (l : L) (h : TInv inp l) : TInv inp (skipUntilAux v n l) := by
  induction n generalizing l with
  | zero => simp only [skipUntilAux]; have := tinv_next l h; exact tinv_backup _ this.1 this.2
  | succ n ih =>
    simp only [skipUntilAux]
    have := tinv_next l h
    split
    · exact ih _ (tinv_dropS _ this.1 (tjustRead_width_le _ this.1 this.2))
    · exact tinv_backup _ this.1 this.2
theorem tinv_skipUntil (l : L) (v : List Nat) (h : TInv inp l) : TInv inp (l.skipUntil v) := tinv_skipUntilAux _ _ _ h

theorem tinv_nextN (n : Nat) (l : L) (h : TInv inp l) : TInv inp (nextN n l) := by
  induction n generalizing l with
  | zero => exact h
  | succ n ih => simp only [nextN]; exact ih _ (tinv_next l h).1
theorem tinv_skipAhead (l : L) (n : Nat) (h : TInv inp l) : TInv inp (l.skipAhead n) :=
  tinv_ignore _ (tinv_nextN n l h)

theorem tinv_next1 (l : L) (h : TInv inp l) : TInv inp (l.next).1 := (tinv_next l h).1

theorem tinv_braceAux (e : Nat) (n : Nat) (l : L) (a b : Bool) (q : Nat) (h : TInv inp l) :
    TInv inp (continueToMatchingBraceAux e n l a b q).1 ∧
    ((continueToMatchingBraceAux e n l a b q).2 ≠ eof → JustRead (continueToMatchingBraceAux e n l a b q).1) := by
  induction n generalizing l a b q with
  | zero => simp [continueToMatchingBraceAux, h]
  | succ n ih =>
    simp only [continueToMatchingBraceAux]
    have hn := tinv_next l h
    repeat' split
    all_goals first
      | exact ih _ _ _ _ hn.1
      | (refine ⟨hn.1, ?_⟩; intro _; exact hn.2)
      | (refine ⟨hn.1, ?_⟩; intro hc; exact absurd rfl hc)

theorem tinv_brace (l : L) (e : Nat) (h : TInv inp l) :
    TInv inp (l.continueToMatchingBrace e).1 ∧
    ((l.continueToMatchingBrace e).2 ≠ eof → JustRead (l.continueToMatchingBrace e).1) :=
  tinv_braceAux _ _ _ _ _ _ h

theorem tinv_quoteLoop (q : Nat) (n : Nat) (l : L) (e : Bool) (h : TInv inp l) :
    TInv inp (quoteLoop q n l e).1 ∧ ((quoteLoop q n l e).2 = false → JustRead (quoteLoop q n l e).1) := by
  induction n generalizing l e with
  | zero => simp [quoteLoop, h]
  | succ n ih =>
    simp only [quoteLoop]
    have hn := tinv_next l h
    repeat' split
    all_goals first
      | exact ih _ _ hn.1
      | (refine ⟨hn.1, ?_⟩; intro _; exact hn.2)
      | (refine ⟨hn.1, ?_⟩; intro hc; exact absurd hc (by decide))

theorem tinv_quote (l : L) (t : TT) (c : Bool) (h : TInv inp l) : TInv inp (l.continueToMatchingQuote t c).1 := by
  unfold L.continueToMatchingQuote
  have hpk := tinv_peek l h
  generalize l.peek = pk at hpk
  obtain ⟨l1, quote⟩ := pk
  simp only [] at hpk ⊢
  split
  · exact hpk
  · have h2 : TInv inp (if c = true then (l1.next).1 else (l1.skip).1) := by
      split
      · exact tinv_next1 _ hpk
      · exact tinv_skip _ hpk
    have hq := tinv_quoteLoop quote ((if c = true then (l1.next).1 else (l1.skip).1).cur.rest.length + 1)
      (if c = true then (l1.next).1 else (l1.skip).1) false h2
    generalize quoteLoop quote _ _ false = ql at hq
    obtain ⟨l2, atEof⟩ := ql
    simp only [] at hq ⊢
    split
    · exact hq.1
    · rename_i hne
      have hf : atEof = false := by simpa using hne
      split
      · exact tinv_emit _ _ hq.1
      · exact tinv_skip _ (tinv_emit _ _ (tinv_backup _ hq.1 (hq.2 hf)))

theorem tinv_validateIndent (l : L) (ind : GoStr) (r : L × St) (h : TInv inp l) (hv : l.validateIndent ind = some r) : TInv inp r.1 := by
  unfold L.validateIndent at hv
  by_cases h1 : ind.isEmpty = true
  · simp [h1] at hv
  · by_cases h2 : ind.length ≤ l.indent
    · simp [h1, h2] at hv
    · by_cases h3 : (32 : UInt8) ∈ ind
      · simp [h1, h2, h3] at hv; subst hv; exact tinv_errorf _ _ h
      · by_cases h4 : ind.length > l.indent + 1
        · simp [h1, h2, h3, h4] at hv; subst hv; exact tinv_errorf _ _ h
        · simp [h1, h2, h3, h4] at hv

def tsumInv (inp : List Rune) : Sum L L → Prop
  | .inl l => TInv inp l
  | .inr l => TInv inp l

theorem tinv_gohtStartLoop (n : Nat) (l : L) (h : TInv inp l) : tsumInv inp (gohtStartLoop n l) := by
  induction n generalizing l with
  | zero => exact h
  | succ n ih =>
    simp only [gohtStartLoop]
    have h1 := tinv_acceptUntil l Gen.lexGohtStart_acceptUntil1 h
    split
    · exact h1
    · have h2 := tinv_next1 _ h1
      split
      · exact h2
      · exact ih _ h2



end GL
