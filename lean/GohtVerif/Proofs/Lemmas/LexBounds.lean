import GohtVerif.Proofs.Lemmas.LexFragRun
/-! A token that is where it says it is starts inside the template text. -/
namespace GL

/-- UTF-16 length (line feed included) of every line of the input, first line first -/
def lineLens (inp : List Rune) : List Nat := (linesOf inp).reverse

theorem tokAt_in_bounds (inp : List Rune) (t : Tok) (h : TokAt inp t) :
    ∃ w, 1 ≤ t.line ∧ (lineLens inp)[(t.line - 1).toNat]? = some w ∧ 1 ≤ t.col ∧ t.col - 1 ≤ (w : Int) := by
  obtain ⟨pre, sr, rest, hin, _, hline, hcol⟩ := h
  obtain ⟨p, ps, hpp⟩ : ∃ p ps, linesOf pre = p :: ps := by
    cases hq' : linesOf pre with
    | nil => exact absurd hq' (linesOf_ne_nil pre)
    | cons p ps => exact ⟨p, ps, rfl⟩
  have hfold : linesOf inp = (sr ++ rest).foldl bump (p :: ps) := by
    rw [hin, List.append_assoc, linesOf, List.foldl_append, ← linesOf, hpp]
  obtain ⟨front, hf, _⟩ := fold_shape (sr ++ rest) p ps
  refine ⟨p + u16sum (firstLineR (sr ++ rest)), ?_, ?_, ?_, ?_⟩
  · rw [hline, hpp]; simp only [List.length_cons]; push_cast; omega
  · unfold lineLens
    rw [hfold, hf, hline, hpp]
    simp only [List.reverse_append, List.reverse_cons, List.length_cons, List.append_assoc, List.singleton_append]
    have : ((↑(ps.length + 1) : Int) - 1).toNat = ps.reverse.length := by simp
    rw [this, List.getElem?_append_right (Nat.le_refl _)]
    simp
  · rw [hcol]; omega
  · rw [hcol, hpp]; simp only [List.headD_cons]; push_cast; omega

end GL
