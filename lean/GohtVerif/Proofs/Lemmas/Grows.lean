import GohtVerif.Model.Exec
/-! The run-time model only ever prepends chunks to the buffer (chunks are kept newest first): whatever a node or a
list of siblings does, the buffer it was given is a suffix of the buffer it returns. Mutual, by induction on the fuel. -/
namespace GL.Grows

theorem bind_ok {ε α β} {x : Except ε α} {f : α → Except ε β} {b : β} (h : (x >>= f) = .ok b) :
    ∃ a, x = .ok a ∧ f a = .ok b := by
  cases x with
  | error e => simp [bind, Except.bind] at h
  | ok a => exact ⟨a, rfl, by simpa [bind, Except.bind] using h⟩

theorem foldlM_grows {α} (f : Buf → α → Except Fail Buf) (l : List α)
    (hf : ∀ b x b', f b x = .ok b' → b <:+ b') (b0 b1 : Buf) (h : l.foldlM f b0 = .ok b1) : b0 <:+ b1 := by
  induction l generalizing b0 with
  | nil => simp [List.foldlM, pure, Except.pure] at h; subst h; exact List.suffix_refl _
  | cons x xs ih =>
    simp only [List.foldlM] at h
    obtain ⟨a, h1, h2⟩ := bind_ok h
    exact (hf _ _ _ h1).trans (ih _ h2)

end GL.Grows
namespace GL.Grows
open List in
theorem suf_cons (x : GoStr) (b : Buf) : b <:+ x :: b := List.suffix_cons x b


def G (b0 : Buf) (x : Except Fail Buf) : Prop := ∀ b, x = .ok b → b0 <:+ b
theorem G_pure (b0 b : Buf) (h : b0 <:+ b) : G b0 (pure b) := by
  intro b' hb; simp only [pure, Except.pure, Except.ok.injEq] at hb; subst hb; exact h
theorem G_ok (b0 b : Buf) (h : b0 <:+ b) : G b0 (.ok b) := G_pure b0 b h
theorem G_error (b0 : Buf) (e : Fail) : G b0 (.error e) := by intro b hb; cases hb
theorem G_bind (b0 : Buf) (x : Except Fail Buf) (f : Buf → Except Fail Buf)
    (hx : G b0 x) (hf : ∀ b1, b0 <:+ b1 → G b0 (f b1)) : G b0 (x >>= f) := by
  intro b hb; obtain ⟨b1, h1, h2⟩ := bind_ok hb; exact hf b1 (hx b1 h1) b h2
theorem G_bind_any {α} (b0 : Buf) (x : Except Fail α) (f : α → Except Fail Buf)
    (hf : ∀ a, G b0 (f a)) : G b0 (x >>= f) := by
  intro b hb; obtain ⟨a, _, h2⟩ := bind_ok hb; exact hf a b h2
theorem suf_step (x : GoStr) (b0 t : Buf) (h : b0 <:+ t) : b0 <:+ x :: t := h.trans (List.suffix_cons x t)
theorem G_foldlM {α} (b0 b1 : Buf) (f : Buf → α → Except Fail Buf) (l : List α) (h01 : b0 <:+ b1)
    (hf : ∀ b x, b0 <:+ b → G b0 (f b x)) : G b0 (l.foldlM f b1) := by
  induction l generalizing b1 with
  | nil => exact G_pure _ _ h01
  | cons x xs ih =>
    simp only [List.foldlM]
    exact G_bind _ _ _ (hf b1 x h01) (fun b2 h2 => ih b2 h2)

macro "suf" : tactic => `(tactic| repeat (first | assumption | exact List.suffix_refl _ | apply suf_step | split))

theorem grows (fuel : Nat) :
    (∀ c n buf b, execNode fuel c n buf = .ok b → buf <:+ b) ∧
    (∀ c ks buf b, execKids fuel c ks buf = .ok b → buf <:+ b) := by
  induction fuel with
  | zero => constructor <;> intro _ _ _ _ h <;> simp [execNode, execKids] at h
  | succ n ih =>
    obtain ⟨ihN, ihK⟩ := ih
    constructor
    · intro c nd buf b h
      cases nd with
      | doctype t => simp only [execNode] at h; cases h; exact suf_cons _ _
      | newLine t => simp only [execNode] at h; cases h; exact suf_cons _ _
      | script t =>
        simp only [execNode] at h
        obtain ⟨v, _, h2⟩ := bind_ok h
        simp only [pure, Except.pure] at h2; cases h2; exact suf_cons _ _
      | unescape o i kids => simp only [execNode] at h; exact ihK _ _ _ _ h
      | children t =>
        simp only [execNode] at h
        split at h
        · cases h; exact List.suffix_refl _
        · exact ihK _ _ _ _ h
      | render o i kids =>
        simp only [execNode] at h
        split at h
        · cases h
        · exact ihK _ _ _ _ h
      | text t =>
        simp only [execNode] at h
        split at h
        · obtain ⟨v, _, h2⟩ := bind_ok h
          simp only [pure, Except.pure] at h2; cases h2; exact suf_cons _ _
        · split at h <;> (cases h; exact suf_cons _ _)
      | comment o i kids =>
        simp only [execNode] at h
        split at h
        · cases h; exact suf_cons _ _
        · obtain ⟨b1, h1, h2⟩ := bind_ok h
          simp only [pure, Except.pure] at h2; cases h2
          exact ((suf_cons _ _).trans (ihK _ _ _ _ h1)).trans (suf_cons _ _)
      | silent o i body => simp [execNode] at h
      | root a b c => simp [execNode] at h
      | code a => simp [execNode] at h
      | goht a b => simp [execNode] at h
      | filter o i kind kids =>
        simp only [execNode] at h
        cases kind with
        | js =>
          simp only [] at h
          obtain ⟨b1, h1, h2⟩ := bind_ok h
          simp only [pure, Except.pure] at h2; cases h2
          exact ((suf_cons _ _).trans (ihK _ _ _ _ h1)).trans (suf_cons _ _)
        | css =>
          simp only [] at h
          obtain ⟨b1, h1, h2⟩ := bind_ok h
          simp only [pure, Except.pure] at h2; cases h2
          exact ((suf_cons _ _).trans (ihK _ _ _ _ h1)).trans (suf_cons _ _)
        | text =>
          simp only [] at h
          obtain ⟨b1, h1, h2⟩ := bind_ok h
          simp only [pure, Except.pure] at h2; cases h2
          split
          · exact (ihK _ _ _ _ h1).trans (suf_cons _ _)
          · exact ihK _ _ _ _ h1
      | element e kids =>
        revert b h
        show G buf _
        simp only [execNode]
        repeat' (first
          | (show _ <:+ _; suf; done)
          | (refine List.IsSuffix.trans ?_ (ihK _ _ _ _ ‹_›); suf; done)
          | exact G_error _ _
          | (refine G_pure _ _ ?_; suf; done)
          | (refine G_ok _ _ ?_; suf; done)
          | (refine G_foldlM _ _ _ _ ?_ (fun _ _ _ => ?_))
          | (refine G_bind _ (execKids _ _ _ _) _ (fun _ _ => ?_) (fun _ _ => ?_))
          | (refine G_bind _ _ _ ?_ (fun _ _ => ?_))
          | (refine G_bind_any _ _ _ (fun _ => ?_))
          | split)
    · intro c ks buf b h
      have two : ∀ (x : Except Fail Buf) (c' : Ctx) (r : List Node) (b0 : Buf),
          (∀ b1, x = .ok b1 → b0 <:+ b1) → (x >>= fun b1 => execKids n c' r b1) = .ok b → b0 <:+ b := by
        intro x c' r b0 hx hh
        obtain ⟨b1, h1, h2⟩ := bind_ok hh
        exact (hx _ h1).trans (ihK _ _ _ _ h2)
      cases ks with
      | nil => simp only [execKids] at h; cases h; exact List.suffix_refl _
      | cons k rest =>
        cases k with
        | silent o i body =>
          simp only [execKids] at h
          split at h
          · split at h
            · cases h
            · exact ihK _ _ _ _ h
            · exact two _ _ _ _ (fun b1 hb => ihK _ _ _ _ hb) h
          · split at h
            · cases h
            · exact two _ _ _ _ (fun b1 hb => foldlM_grows _ _ (fun b x b' hh => ihK _ _ _ _ hh) _ _ hb) h
          · split at h
            · cases h
            · split at h
              · exact ihK _ _ _ _ h
              · exact two _ _ _ _ (fun b1 hb => ihK _ _ _ _ hb) h
          · split at h
            · exact ihK _ _ _ _ h
            · exact two _ _ _ _ (fun b1 hb => ihK _ _ _ _ hb) h
          · cases h
        | _ =>
          simp only [execKids] at h
          exact two _ _ _ _ (fun b1 hb => ihN _ _ _ _ hb) h
end GL.Grows
