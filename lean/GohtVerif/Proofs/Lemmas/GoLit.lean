import GohtVerif.Model.GoLit
/-! `litDecode (quoteBodyWith isPrint s) = some s`: what `strconv.Quote` writes is a string-literal
body that Go reads back as exactly the original bytes — for every byte string (valid UTF-8 or not)
and every printability predicate. -/
namespace GL

/-! ### hexadecimal digits -/

theorem hexv_hexd_fin : ∀ d : Fin 16, hexv (hexd d.val) = some d.val := by decide

theorem hexv_hexd (d : Nat) (h : d < 16) : hexv (hexd d) = some d := hexv_hexd_fin ⟨d, h⟩

theorem hexvs_hex2 (n acc : Nat) : hexvs (hex2 n) acc = some (acc * 256 + n % 256) := by
  simp only [hex2, hexvs, hexv_hexd _ (Nat.mod_lt _ (by decide : 0 < 16))]
  congr 1; omega

theorem hexvs_append (a b : GoStr) (acc : Nat) :
    hexvs (a ++ b) acc = (hexvs a acc).bind (hexvs b) := by
  induction a generalizing acc with
  | nil => simp [hexvs]
  | cons c cs ih =>
    simp only [List.cons_append, hexvs]
    cases hexv c with
    | none => simp
    | some v => simp [ih]

theorem hexvs_hex4 (n : Nat) (h : n < 65536) : hexvs (hex4 n) 0 = some n := by
  simp only [hex4, hexvs_append, hexvs_hex2, Option.bind_some]
  congr 1; omega

theorem hexvs_hex8 (n : Nat) (h : n < 4294967296) : hexvs (hex8 n) 0 = some n := by
  simp only [hex8, hex4, hexvs_append, hexvs_hex2, Option.bind_some]
  congr 1; omega

theorem hex2_eq (n : Nat) : ∃ a b, hex2 n = [a, b] := ⟨_, _, rfl⟩
theorem hex4_eq (n : Nat) : ∃ a b c d, hex4 n = [a, b, c, d] := ⟨_, _, _, _, rfl⟩
theorem hex8_eq (n : Nat) : ∃ a b c d e f g h, hex8 n = [a, b, c, d, e, f, g, h] := ⟨_, _, _, _, _, _, _, _, rfl⟩

/-! ### chunks of a literal body -/

theorem dec_simple (c v : UInt8) (rest : GoStr) (h : simpleEsc c = some v)
    (h1 : c ≠ 120) (h2 : c ≠ 117) (h3 : c ≠ 85) :
    litDecode (92 :: c :: rest) = (litDecode rest).map (v :: ·) := by
  have e1 : (c == 120) = false := by simpa using h1
  have e2 : (c == 117) = false := by simpa using h2
  have e3 : (c == 85) = false := by simpa using h3
  rw [litDecode.eq_def]
  simp only [beq_self_eq_true, if_true, e1, e2, e3, Bool.false_eq_true, if_false, h]
  cases litDecode rest <;> rfl

theorem dec_x (n : Nat) (h : n < 256) (rest : GoStr) :
    litDecode ([92, 120] ++ hex2 n ++ rest) = (litDecode rest).map (UInt8.ofNat n :: ·) := by
  obtain ⟨a, b, hab⟩ := hex2_eq n
  have hv := hexvs_hex2 n 0
  rw [hab] at hv ⊢
  have : n % 256 = n := Nat.mod_eq_of_lt h
  simp only [List.cons_append, List.nil_append]
  rw [litDecode.eq_def]
  simp only [beq_self_eq_true, if_true, hv, Nat.zero_mul, Nat.zero_add, this]
  cases litDecode rest <;> rfl

theorem dec_u (n : Nat) (h : n < 65536) (hv : validRune n = true) (rest : GoStr) :
    litDecode ([92, 117] ++ hex4 n ++ rest) = (litDecode rest).map (encodeRune n ++ ·) := by
  obtain ⟨a, b, c, d, hab⟩ := hex4_eq n
  have hx := hexvs_hex4 n h
  rw [hab] at hx ⊢
  have e1 : ((117 : UInt8) == 120) = false := by decide
  simp only [List.cons_append, List.nil_append]
  rw [litDecode.eq_def]
  simp only [beq_self_eq_true, if_true, e1, Bool.false_eq_true, if_false, hx]
  cases litDecode rest <;> simp [hv]

theorem dec_U (n : Nat) (h : n < 4294967296) (hv : validRune n = true) (rest : GoStr) :
    litDecode ([92, 85] ++ hex8 n ++ rest) = (litDecode rest).map (encodeRune n ++ ·) := by
  obtain ⟨a, b, c, d, e, f, g, i, hab⟩ := hex8_eq n
  have hx := hexvs_hex8 n h
  rw [hab] at hx ⊢
  have e1 : ((85 : UInt8) == 120) = false := by decide
  have e2 : ((85 : UInt8) == 117) = false := by decide
  simp only [List.cons_append, List.nil_append]
  rw [litDecode.eq_def]
  simp only [beq_self_eq_true, if_true, e1, e2, Bool.false_eq_true, if_false, hx]
  cases litDecode rest <;> simp [hv]

/-- bytes that are neither `\`, `"` nor a line feed stand for themselves -/
theorem dec_raw (l rest : GoStr) (h : ∀ b ∈ l, b ≠ 92 ∧ b ≠ 34 ∧ b ≠ 10) :
    litDecode (l ++ rest) = (litDecode rest).map (l ++ ·) := by
  induction l with
  | nil => cases h : litDecode rest <;> simp [h]
  | cons b l ih =>
    obtain ⟨h1, h2, h3⟩ := h b List.mem_cons_self
    have e1 : (b == 92) = false := by simpa using h1
    have e2 : (b == 34) = false := by simpa using h2
    have e3 : (b == 10) = false := by simpa using h3
    rw [List.cons_append, litDecode.eq_def]
    simp only [e1, e2, e3, Bool.false_eq_true, if_false, Bool.or_self]
    rw [ih (fun x hx => h x (List.mem_cons_of_mem _ hx))]
    cases litDecode rest <;> rfl

end GL

namespace GL

/-! ### what `decode1` answers: a byte that is not UTF-8, or a rune together with its own encoding -/

theorem u8_ofNat_toNat (b : UInt8) : UInt8.ofNat b.toNat = b := by simp

theorem u8_ne_of_toNat_ge (b : UInt8) (h : 128 ≤ b.toNat) : b ≠ 92 ∧ b ≠ 34 ∧ b ≠ 10 := by
  refine ⟨?_, ?_, ?_⟩ <;> (intro e; subst e; revert h; decide)

/-- two-byte sequences -/
theorem enc2 (b0 b1 : UInt8) (h0 : 0xC2 ≤ b0.toNat ∧ b0.toNat ≤ 0xDF) (h1 : 0x80 ≤ b1.toNat ∧ b1.toNat ≤ 0xBF) :
    encodeRune (b0.toNat % 32 * 64 + b1.toNat % 64) = [b0, b1] ∧
    validRune (b0.toNat % 32 * 64 + b1.toNat % 64) = true ∧ 128 ≤ b0.toNat % 32 * 64 + b1.toNat % 64 := by
  have hb0 := b0.toNat_lt; have hb1 := b1.toNat_lt
  have c1 : ¬ (b0.toNat % 32 * 64 + b1.toNat % 64 < 128) := by omega
  have c2 : b0.toNat % 32 * 64 + b1.toNat % 64 < 2048 := by omega
  have e0 : 192 + (b0.toNat % 32 * 64 + b1.toNat % 64) / 64 = b0.toNat := by omega
  have e1 : 128 + (b0.toNat % 32 * 64 + b1.toNat % 64) % 64 = b1.toNat := by omega
  refine ⟨?_, ?_, by omega⟩
  · simp only [encodeRune, c1, c2, if_false, if_true, e0, e1, u8_ofNat_toNat]
  · simp only [validRune, Bool.and_eq_true, decide_eq_true_eq, Bool.not_eq_true', Bool.and_eq_false_iff, decide_eq_false_iff_not]
    omega

/-- three-byte sequences (the second byte is restricted so that neither over-long forms nor surrogates occur) -/
theorem enc3 (b0 b1 b2 : UInt8) (h0 : 0xE0 ≤ b0.toNat ∧ b0.toNat ≤ 0xEF)
    (hb1r : 0x80 ≤ b1.toNat ∧ b1.toNat ≤ 0xBF) (hA : b0.toNat = 0xE0 → 0xA0 ≤ b1.toNat) (hD : b0.toNat = 0xED → b1.toNat ≤ 0x9F)
    (h2 : 0x80 ≤ b2.toNat ∧ b2.toNat ≤ 0xBF) :
    encodeRune (b0.toNat % 16 * 4096 + b1.toNat % 64 * 64 + b2.toNat % 64) = [b0, b1, b2] ∧
    validRune (b0.toNat % 16 * 4096 + b1.toNat % 64 * 64 + b2.toNat % 64) = true ∧
    128 ≤ b0.toNat % 16 * 4096 + b1.toNat % 64 * 64 + b2.toNat % 64 ∧
    b0.toNat % 16 * 4096 + b1.toNat % 64 * 64 + b2.toNat % 64 < 65536 := by
  have hb0 := b0.toNat_lt; have hb1 := b1.toNat_lt; have hb2 := b2.toNat_lt
  have hlo : 2048 ≤ b0.toNat % 16 * 4096 + b1.toNat % 64 * 64 + b2.toNat % 64 := by
    by_cases c : b0.toNat = 0xE0
    · have := hA c; omega
    · omega
  have hsur : ¬ (55296 ≤ b0.toNat % 16 * 4096 + b1.toNat % 64 * 64 + b2.toNat % 64 ∧
      b0.toNat % 16 * 4096 + b1.toNat % 64 * 64 + b2.toNat % 64 < 57344) := by
    by_cases c : b0.toNat = 0xED
    · have := hD c; omega
    · omega
  have c1 : ¬ (b0.toNat % 16 * 4096 + b1.toNat % 64 * 64 + b2.toNat % 64 < 128) := by omega
  have c2 : ¬ (b0.toNat % 16 * 4096 + b1.toNat % 64 * 64 + b2.toNat % 64 < 2048) := by omega
  have c3 : b0.toNat % 16 * 4096 + b1.toNat % 64 * 64 + b2.toNat % 64 < 65536 := by omega
  have e0 : 224 + (b0.toNat % 16 * 4096 + b1.toNat % 64 * 64 + b2.toNat % 64) / 4096 = b0.toNat := by omega
  have e1 : 128 + (b0.toNat % 16 * 4096 + b1.toNat % 64 * 64 + b2.toNat % 64) / 64 % 64 = b1.toNat := by omega
  have e2 : 128 + (b0.toNat % 16 * 4096 + b1.toNat % 64 * 64 + b2.toNat % 64) % 64 = b2.toNat := by omega
  refine ⟨?_, ?_, by omega, c3⟩
  · simp only [encodeRune, c1, c2, c3, if_false, if_true, e0, e1, e2, u8_ofNat_toNat]
  · simp only [validRune, Bool.and_eq_true, decide_eq_true_eq, Bool.not_eq_true', Bool.and_eq_false_iff, decide_eq_false_iff_not]
    omega

/-- four-byte sequences -/
theorem enc4 (b0 b1 b2 b3 : UInt8) (h0 : 0xF0 ≤ b0.toNat ∧ b0.toNat ≤ 0xF4)
    (hb1r : 0x80 ≤ b1.toNat ∧ b1.toNat ≤ 0xBF) (hA : b0.toNat = 0xF0 → 0x90 ≤ b1.toNat) (hD : b0.toNat = 0xF4 → b1.toNat ≤ 0x8F)
    (h2 : 0x80 ≤ b2.toNat ∧ b2.toNat ≤ 0xBF) (h3 : 0x80 ≤ b3.toNat ∧ b3.toNat ≤ 0xBF) :
    encodeRune (b0.toNat % 8 * 262144 + b1.toNat % 64 * 4096 + b2.toNat % 64 * 64 + b3.toNat % 64) = [b0, b1, b2, b3] ∧
    validRune (b0.toNat % 8 * 262144 + b1.toNat % 64 * 4096 + b2.toNat % 64 * 64 + b3.toNat % 64) = true ∧
    65536 ≤ b0.toNat % 8 * 262144 + b1.toNat % 64 * 4096 + b2.toNat % 64 * 64 + b3.toNat % 64 ∧
    b0.toNat % 8 * 262144 + b1.toNat % 64 * 4096 + b2.toNat % 64 * 64 + b3.toNat % 64 < 1114112 := by
  have hb0 := b0.toNat_lt; have hb1 := b1.toNat_lt; have hb2 := b2.toNat_lt; have hb3 := b3.toNat_lt
  have hlo : 65536 ≤ b0.toNat % 8 * 262144 + b1.toNat % 64 * 4096 + b2.toNat % 64 * 64 + b3.toNat % 64 := by
    by_cases c : b0.toNat = 0xF0
    · have := hA c; omega
    · omega
  have hhi : b0.toNat % 8 * 262144 + b1.toNat % 64 * 4096 + b2.toNat % 64 * 64 + b3.toNat % 64 < 1114112 := by
    by_cases c : b0.toNat = 0xF4
    · have := hD c; omega
    · omega
  have c1 : ¬ (b0.toNat % 8 * 262144 + b1.toNat % 64 * 4096 + b2.toNat % 64 * 64 + b3.toNat % 64 < 128) := by omega
  have c2 : ¬ (b0.toNat % 8 * 262144 + b1.toNat % 64 * 4096 + b2.toNat % 64 * 64 + b3.toNat % 64 < 2048) := by omega
  have c3 : ¬ (b0.toNat % 8 * 262144 + b1.toNat % 64 * 4096 + b2.toNat % 64 * 64 + b3.toNat % 64 < 65536) := by omega
  have e0 : 240 + (b0.toNat % 8 * 262144 + b1.toNat % 64 * 4096 + b2.toNat % 64 * 64 + b3.toNat % 64) / 262144 = b0.toNat := by omega
  have e1 : 128 + (b0.toNat % 8 * 262144 + b1.toNat % 64 * 4096 + b2.toNat % 64 * 64 + b3.toNat % 64) / 4096 % 64 = b1.toNat := by omega
  have e2 : 128 + (b0.toNat % 8 * 262144 + b1.toNat % 64 * 4096 + b2.toNat % 64 * 64 + b3.toNat % 64) / 64 % 64 = b2.toNat := by omega
  have e3 : 128 + (b0.toNat % 8 * 262144 + b1.toNat % 64 * 4096 + b2.toNat % 64 * 64 + b3.toNat % 64) % 64 = b3.toNat := by omega
  refine ⟨?_, ?_, hlo, hhi⟩
  · simp only [encodeRune, c1, c2, c3, if_false, e0, e1, e2, e3, u8_ofNat_toNat]
  · simp only [validRune, Bool.and_eq_true, decide_eq_true_eq, Bool.not_eq_true', Bool.and_eq_false_iff, decide_eq_false_iff_not]
    omega

end GL

namespace GL

/-- what `decode1` answers for a non-empty string: either the first byte is not the start of a
well-formed sequence (the replacement rune of width 1, one byte consumed), or a rune together with
the bytes that encode it -/
def DecValid (s : GoStr) (r : Rune) (t : GoStr) : Prop :=
  s = r.enc ++ t ∧ encodeRune r.cp = r.enc ∧ validRune r.cp = true ∧ r.enc ≠ [] ∧
  ¬ (r.width = 1 ∧ r.cp = 0xFFFD) ∧ (128 ≤ r.cp → ∀ b ∈ r.enc, 128 ≤ b.toNat) ∧ r.width = r.enc.length

def DecInvalid (s : GoStr) (r : Rune) (t : GoStr) : Prop :=
  ∃ b0, s = b0 :: t ∧ r = runeError

theorem runeError_invalid (b0 : UInt8) (rest : GoStr) : DecInvalid (b0 :: rest) runeError rest :=
  ⟨b0, rfl, rfl⟩

theorem cont_iff (b : UInt8) : isCont b = true ↔ 0x80 ≤ b.toNat ∧ b.toNat ≤ 0xBF := by
  simp only [isCont, Bool.and_eq_true, decide_eq_true_eq, UInt8.le_iff_toNat_le]
  exact Iff.rfl

theorem ite_toNat (c : Prop) [Decidable c] (a b : UInt8) : (if c then a else b).toNat = if c then a.toNat else b.toNat := by
  split <;> rfl

theorem u8_eq_iff (a : UInt8) (n : Nat) (h : n < 256) : a = UInt8.ofNat n ↔ a.toNat = n := by
  constructor
  · intro e; subst e; simp [Nat.mod_eq_of_lt h]
  · intro e; subst e; simp

end GL

namespace GL

/-- three-byte case of `decode1`, with the bounds of the second byte abstracted -/
theorem dec3 (b0 b1 b2 lo hi : UInt8) (r2 : GoStr) (r : Rune) (t : GoStr)
    (hr : 0xE0 ≤ b0.toNat ∧ b0.toNat ≤ 0xEF)
    (hlo : lo = if b0 = 0xE0 then 0xA0 else 0x80) (hhi : hi = if b0 = 0xED then 0x9F else 0xBF)
    (h : (if (decide (lo ≤ b1) && decide (b1 ≤ hi) && isCont b2) = true then
            some (({ cp := b0.toNat % 16 * 4096 + b1.toNat % 64 * 64 + b2.toNat % 64, width := 3, enc := [b0, b1, b2] } : Rune), r2)
          else some (runeError, b1 :: b2 :: r2)) = some (r, t)) :
    DecInvalid (b0 :: b1 :: b2 :: r2) r t ∨ DecValid (b0 :: b1 :: b2 :: r2) r t := by
  split at h
  · rename_i hc
    simp only [Bool.and_eq_true, decide_eq_true_eq, UInt8.le_iff_toNat_le] at hc
    obtain ⟨⟨h1, h2⟩, hc2⟩ := hc
    simp only [Option.some.injEq, Prod.mk.injEq] at h
    obtain ⟨rfl, rfl⟩ := h
    have e1 : (b0 = 0xE0) ↔ b0.toNat = 0xE0 := u8_eq_iff b0 0xE0 (by decide)
    have e2 : (b0 = 0xED) ↔ b0.toNat = 0xED := u8_eq_iff b0 0xED (by decide)
    have hlo' : lo.toNat = if b0.toNat = 0xE0 then 0xA0 else 0x80 := by
      rw [hlo, ite_toNat]
      by_cases c : b0 = 0xE0
      · rw [if_pos c, if_pos (e1.1 c)]; rfl
      · rw [if_neg c, if_neg (fun x => c (e1.2 x))]; rfl
    have hhi' : hi.toNat = if b0.toNat = 0xED then 0x9F else 0xBF := by
      rw [hhi, ite_toNat]
      by_cases c : b0 = 0xED
      · rw [if_pos c, if_pos (e2.1 c)]; rfl
      · rw [if_neg c, if_neg (fun x => c (e2.2 x))]; rfl
    have hb1 : 0x80 ≤ b1.toNat ∧ b1.toNat ≤ 0xBF := by
      constructor
      · rw [hlo'] at h1; split at h1 <;> omega
      · rw [hhi'] at h2; split at h2 <;> omega
    have hA : b0.toNat = 0xE0 → 0xA0 ≤ b1.toNat := by
      intro c; rw [hlo', if_pos c] at h1; exact h1
    have hD : b0.toNat = 0xED → b1.toNat ≤ 0x9F := by
      intro c; rw [hhi', if_pos c] at h2; exact h2
    obtain ⟨he, hv, hge, _⟩ := enc3 b0 b1 b2 hr hb1 hA hD ((cont_iff b2).1 hc2)
    right
    refine ⟨rfl, he, hv, by simp, ?_, ?_, rfl⟩
    · intro ⟨hw, _⟩; simp only at hw; omega
    · intro _ b hb
      simp only [List.mem_cons, List.not_mem_nil, or_false] at hb
      rcases hb with rfl | rfl | rfl
      · omega
      · exact hb1.1
      · exact ((cont_iff _).1 hc2).1
  · simp only [Option.some.injEq, Prod.mk.injEq] at h
    obtain ⟨rfl, rfl⟩ := h
    exact Or.inl (runeError_invalid _ _)

/-- four-byte case -/
theorem dec4 (b0 b1 b2 b3 lo hi : UInt8) (r3 : GoStr) (r : Rune) (t : GoStr)
    (hr : 0xF0 ≤ b0.toNat ∧ b0.toNat ≤ 0xF4)
    (hlo : lo = if b0 = 0xF0 then 0x90 else 0x80) (hhi : hi = if b0 = 0xF4 then 0x8F else 0xBF)
    (h : (if (decide (lo ≤ b1) && decide (b1 ≤ hi) && isCont b2 && isCont b3) = true then
            some (({ cp := b0.toNat % 8 * 262144 + b1.toNat % 64 * 4096 + b2.toNat % 64 * 64 + b3.toNat % 64,
                     width := 4, enc := [b0, b1, b2, b3] } : Rune), r3)
          else some (runeError, b1 :: b2 :: b3 :: r3)) = some (r, t)) :
    DecInvalid (b0 :: b1 :: b2 :: b3 :: r3) r t ∨ DecValid (b0 :: b1 :: b2 :: b3 :: r3) r t := by
  split at h
  · rename_i hc
    simp only [Bool.and_eq_true, decide_eq_true_eq, UInt8.le_iff_toNat_le] at hc
    obtain ⟨⟨⟨h1, h2⟩, hc2⟩, hc3⟩ := hc
    simp only [Option.some.injEq, Prod.mk.injEq] at h
    obtain ⟨rfl, rfl⟩ := h
    have e1 : (b0 = 0xF0) ↔ b0.toNat = 0xF0 := u8_eq_iff b0 0xF0 (by decide)
    have e2 : (b0 = 0xF4) ↔ b0.toNat = 0xF4 := u8_eq_iff b0 0xF4 (by decide)
    have hlo' : lo.toNat = if b0.toNat = 0xF0 then 0x90 else 0x80 := by
      rw [hlo, ite_toNat]
      by_cases c : b0 = 0xF0
      · rw [if_pos c, if_pos (e1.1 c)]; rfl
      · rw [if_neg c, if_neg (fun x => c (e1.2 x))]; rfl
    have hhi' : hi.toNat = if b0.toNat = 0xF4 then 0x8F else 0xBF := by
      rw [hhi, ite_toNat]
      by_cases c : b0 = 0xF4
      · rw [if_pos c, if_pos (e2.1 c)]; rfl
      · rw [if_neg c, if_neg (fun x => c (e2.2 x))]; rfl
    have hb1 : 0x80 ≤ b1.toNat ∧ b1.toNat ≤ 0xBF := by
      constructor
      · rw [hlo'] at h1; split at h1 <;> omega
      · rw [hhi'] at h2; split at h2 <;> omega
    have hA : b0.toNat = 0xF0 → 0x90 ≤ b1.toNat := by
      intro c; rw [hlo', if_pos c] at h1; exact h1
    have hD : b0.toNat = 0xF4 → b1.toNat ≤ 0x8F := by
      intro c; rw [hhi', if_pos c] at h2; exact h2
    obtain ⟨he, hv, hge, _⟩ := enc4 b0 b1 b2 b3 hr hb1 hA hD ((cont_iff b2).1 hc2) ((cont_iff b3).1 hc3)
    right
    refine ⟨rfl, he, hv, by simp, ?_, ?_, rfl⟩
    · intro ⟨hw, _⟩; simp only at hw; omega
    · intro _ b hb
      simp only [List.mem_cons, List.not_mem_nil, or_false] at hb
      rcases hb with rfl | rfl | rfl | rfl
      · omega
      · exact hb1.1
      · exact ((cont_iff _).1 hc2).1
      · exact ((cont_iff _).1 hc3).1
  · simp only [Option.some.injEq, Prod.mk.injEq] at h
    obtain ⟨rfl, rfl⟩ := h
    exact Or.inl (runeError_invalid _ _)

theorem decode1_spec (s : GoStr) (r : Rune) (t : GoStr) (h : decode1 s = some (r, t)) :
    DecInvalid s r t ∨ DecValid s r t := by
  cases s with
  | nil => simp [decode1] at h
  | cons b0 rest =>
    have hb0 := b0.toNat_lt
    simp only [decode1] at h
    split at h
    · -- ASCII
      rename_i hlt
      simp only [Option.some.injEq, Prod.mk.injEq] at h
      obtain ⟨rfl, rfl⟩ := h
      have hn : b0.toNat < 128 := by
        have := UInt8.lt_iff_toNat_lt.1 hlt
        simpa using this
      right
      refine ⟨rfl, ?_, ?_, by simp, ?_, ?_, rfl⟩
      · simp [encodeRune, hn]
      · simp only [validRune, Bool.and_eq_true, decide_eq_true_eq, Bool.not_eq_true', Bool.and_eq_false_iff, decide_eq_false_iff_not]
        omega
      · intro ⟨_, hc⟩; simp only at hc; omega
      · intro hc; simp only at hc; omega
    · split at h
      · -- two bytes
        rename_i hr
        simp only [Bool.and_eq_true, decide_eq_true_eq, UInt8.le_iff_toNat_le] at hr
        have hr' : 0xC2 ≤ b0.toNat ∧ b0.toNat ≤ 0xDF := hr
        split at h
        · rename_i b1 r1
          split at h
          · rename_i hc
            simp only [Option.some.injEq, Prod.mk.injEq] at h
            obtain ⟨rfl, rfl⟩ := h
            obtain ⟨he, hv, hge⟩ := enc2 b0 b1 hr' ((cont_iff b1).1 hc)
            right
            refine ⟨rfl, he, hv, by simp, ?_, ?_, rfl⟩
            · intro ⟨hw, _⟩; simp only at hw; omega
            · intro _ b hb
              simp only [List.mem_cons, List.not_mem_nil, or_false] at hb
              rcases hb with rfl | rfl
              · omega
              · exact ((cont_iff _).1 hc).1
          · simp only [Option.some.injEq, Prod.mk.injEq] at h
            obtain ⟨rfl, rfl⟩ := h
            exact Or.inl (runeError_invalid _ _)
        · simp only [Option.some.injEq, Prod.mk.injEq] at h
          obtain ⟨rfl, rfl⟩ := h
          exact Or.inl (runeError_invalid _ _)
      · split at h
        · -- three bytes
          rename_i hr
          simp only [Bool.and_eq_true, decide_eq_true_eq, UInt8.le_iff_toNat_le] at hr
          have hr' : 0xE0 ≤ b0.toNat ∧ b0.toNat ≤ 0xEF := hr
          cases rest with
          | nil =>
            simp only [Option.some.injEq, Prod.mk.injEq] at h
            obtain ⟨rfl, rfl⟩ := h
            exact Or.inl (runeError_invalid _ _)
          | cons b1 rest1 =>
            cases rest1 with
            | nil =>
              simp only [Option.some.injEq, Prod.mk.injEq] at h
              obtain ⟨rfl, rfl⟩ := h
              exact Or.inl (runeError_invalid _ _)
            | cons b2 r2 => exact dec3 b0 b1 b2 _ _ r2 r t hr' rfl rfl h
        · split at h
          · -- four bytes
            rename_i hr
            simp only [Bool.and_eq_true, decide_eq_true_eq, UInt8.le_iff_toNat_le] at hr
            have hr' : 0xF0 ≤ b0.toNat ∧ b0.toNat ≤ 0xF4 := hr
            cases rest with
            | nil =>
              simp only [Option.some.injEq, Prod.mk.injEq] at h
              obtain ⟨rfl, rfl⟩ := h
              exact Or.inl (runeError_invalid _ _)
            | cons b1 rest1 =>
              cases rest1 with
              | nil =>
                simp only [Option.some.injEq, Prod.mk.injEq] at h
                obtain ⟨rfl, rfl⟩ := h
                exact Or.inl (runeError_invalid _ _)
              | cons b2 rest2 =>
                cases rest2 with
                | nil =>
                  simp only [Option.some.injEq, Prod.mk.injEq] at h
                  obtain ⟨rfl, rfl⟩ := h
                  exact Or.inl (runeError_invalid _ _)
                | cons b3 r3 => exact dec4 b0 b1 b2 b3 _ _ r3 r t hr' rfl rfl h
          · simp only [Option.some.injEq, Prod.mk.injEq] at h
            obtain ⟨rfl, rfl⟩ := h
            exact Or.inl (runeError_invalid _ _)

end GL

namespace GL

theorem decode1_cons (b0 : UInt8) (rest : GoStr) : ∃ r t, decode1 (b0 :: rest) = some (r, t) := by
  cases h : decode1 (b0 :: rest) with
  | some p => exact ⟨p.1, p.2, rfl⟩
  | none =>
    exfalso
    simp only [decode1] at h
    repeat' split at h
    all_goals cases h

theorem encodeRune_ascii (cp : Nat) (h : cp < 128) : encodeRune cp = [UInt8.ofNat cp] := by
  simp [encodeRune, h]

/-- the escape written for a rune decodes to the bytes the rune was read from -/
theorem dec_escRune (isPrint : Nat → Bool) (s : GoStr) (r : Rune) (t : GoStr) (hv : DecValid s r t) (rest : GoStr) :
    litDecode (escRune isPrint r ++ rest) = (litDecode rest).map (r.enc ++ ·) := by
  obtain ⟨_, he, hval, _, _, hhi, _⟩ := hv
  have hlt : r.cp < 1114112 := by
    simp only [validRune, Bool.and_eq_true, decide_eq_true_eq] at hval
    exact hval.1
  have small : r.cp < 128 → r.enc = [UInt8.ofNat r.cp] := fun h => by rw [← he, encodeRune_ascii _ h]
  by_cases c34 : r.cp = 34
  · have e : escRune isPrint r = [92, 34] := by simp [escRune, c34]
    rw [e, small (by omega), c34]
    exact dec_simple 34 34 rest (by decide) (by decide) (by decide) (by decide)
  have n34 : (r.cp == 34) = false := by simpa using c34
  by_cases c92 : r.cp = 92
  · have e : escRune isPrint r = [92, 92] := by simp [escRune, c92]
    rw [e, small (by omega), c92]
    exact dec_simple 92 92 rest (by decide) (by decide) (by decide) (by decide)
  have n92 : (r.cp == 92) = false := by simpa using c92
  by_cases hp : printable isPrint r.cp = true
  · -- written as it is
    have e : escRune isPrint r = r.enc := by simp [escRune, n34, n92, hp]
    rw [e]
    apply dec_raw
    intro b hb
    by_cases hs : r.cp < 128
    · rw [small hs] at hb
      simp only [List.mem_cons, List.not_mem_nil, or_false] at hb
      subst hb
      simp only [printable, hs, if_true, Bool.and_eq_true, decide_eq_true_eq] at hp
      refine ⟨?_, ?_, ?_⟩ <;>
        (intro e2; have := congrArg UInt8.toNat e2; simp [Nat.mod_eq_of_lt (by omega : r.cp < 256)] at this; omega)
    · exact u8_ne_of_toNat_ge b (hhi (by omega) b hb)
  have np : printable isPrint r.cp = false := by simpa using hp
  by_cases c7 : r.cp = 7
  · have e : escRune isPrint r = [92, 97] := by simp [escRune, c7, printable]
    rw [e, small (by omega), c7]
    exact dec_simple 97 7 rest (by decide) (by decide) (by decide) (by decide)
  have n7 : (r.cp == 7) = false := by simpa using c7
  by_cases c8 : r.cp = 8
  · have e : escRune isPrint r = [92, 98] := by simp [escRune, c8, printable]
    rw [e, small (by omega), c8]
    exact dec_simple 98 8 rest (by decide) (by decide) (by decide) (by decide)
  have n8 : (r.cp == 8) = false := by simpa using c8
  by_cases c12 : r.cp = 12
  · have e : escRune isPrint r = [92, 102] := by simp [escRune, c12, printable]
    rw [e, small (by omega), c12]
    exact dec_simple 102 12 rest (by decide) (by decide) (by decide) (by decide)
  have n12 : (r.cp == 12) = false := by simpa using c12
  by_cases c10 : r.cp = 10
  · have e : escRune isPrint r = [92, 110] := by simp [escRune, c10, printable]
    rw [e, small (by omega), c10]
    exact dec_simple 110 10 rest (by decide) (by decide) (by decide) (by decide)
  have n10 : (r.cp == 10) = false := by simpa using c10
  by_cases c13 : r.cp = 13
  · have e : escRune isPrint r = [92, 114] := by simp [escRune, c13, printable]
    rw [e, small (by omega), c13]
    exact dec_simple 114 13 rest (by decide) (by decide) (by decide) (by decide)
  have n13 : (r.cp == 13) = false := by simpa using c13
  by_cases c9 : r.cp = 9
  · have e : escRune isPrint r = [92, 116] := by simp [escRune, c9, printable]
    rw [e, small (by omega), c9]
    exact dec_simple 116 9 rest (by decide) (by decide) (by decide) (by decide)
  have n9 : (r.cp == 9) = false := by simpa using c9
  by_cases c11 : r.cp = 11
  · have e : escRune isPrint r = [92, 118] := by simp [escRune, c11, printable]
    rw [e, small (by omega), c11]
    exact dec_simple 118 11 rest (by decide) (by decide) (by decide) (by decide)
  have n11 : (r.cp == 11) = false := by simpa using c11
  by_cases cx : r.cp < 32 ∨ r.cp = 127
  · have hcx : (decide (r.cp < 32) || r.cp == 127) = true := by simpa using cx
    have e : escRune isPrint r = [92, 120] ++ hex2 r.cp := by
      simp only [escRune, n34, n92, np, n7, n8, n12, n10, n13, n9, n11, hcx, Bool.false_eq_true, if_false, if_true]
    rw [e, small (by omega)]
    exact dec_x r.cp (by omega) rest
  have ncx : (decide (r.cp < 32) || r.cp == 127) = false := by
    rw [Bool.eq_false_iff]; intro hh; exact cx (by simpa using hh)
  by_cases cu : r.cp < 65536
  · have e : escRune isPrint r = [92, 117] ++ hex4 r.cp := by
      simp only [escRune, n34, n92, np, n7, n8, n12, n10, n13, n9, n11, ncx, cu, Bool.false_eq_true, if_false, if_true]
    rw [e, ← he]
    exact dec_u r.cp cu hval rest
  · have e : escRune isPrint r = [92, 85] ++ hex8 r.cp := by
      simp only [escRune, n34, n92, np, n7, n8, n12, n10, n13, n9, n11, ncx, cu, Bool.false_eq_true, if_false]
    rw [e, ← he]
    exact dec_U r.cp (by omega) hval rest

theorem quoteFuel_roundtrip (isPrint : Nat → Bool) :
    ∀ (n : Nat) (s : GoStr), s.length ≤ n → litDecode (quoteFuel isPrint n s) = some s := by
  intro n
  induction n with
  | zero =>
    intro s hs
    have : s = [] := List.eq_nil_of_length_eq_zero (by omega)
    subst this
    simp [quoteFuel, litDecode]
  | succ n ih =>
    intro s hs
    cases s with
    | nil => simp [quoteFuel, litDecode]
    | cons b0 rest =>
      obtain ⟨r, t, hd⟩ := decode1_cons b0 rest
      simp only [quoteFuel, hd]
      rcases decode1_spec _ r t hd with ⟨b0', hs', hre⟩ | hv
      · -- a byte that is not UTF-8
        have hb : b0' = b0 ∧ t = rest := by
          have := hs'
          simp only [List.cons.injEq] at this
          exact ⟨this.1.symm, this.2.symm⟩
        obtain ⟨rfl, rfl⟩ := hb
        have hw : r.width = 1 := by rw [hre]; rfl
        have hc : r.cp = 0xFFFD := by rw [hre]; rfl
        simp only [hw, hc, beq_self_eq_true, Bool.and_self, if_true]
        rw [dec_x b0'.toNat b0'.toNat_lt, ih t (by simp only [List.length_cons] at hs; omega)]
        simp
      · have hnot := hv.2.2.2.2.1
        have hcond : (r.width == 1 && r.cp == 0xFFFD) = false := by
          rw [Bool.eq_false_iff]
          intro hh
          simp only [Bool.and_eq_true, beq_iff_eq] at hh
          exact hnot hh
        simp only [hcond, Bool.false_eq_true, if_false]
        have hs' := hv.1
        have hne := hv.2.2.2.1
        have hlen : t.length ≤ n := by
          have := congrArg List.length hs'
          simp only [List.length_cons, List.length_append] at this hs
          have : 0 < r.enc.length := List.length_pos_iff.mpr hne
          omega
        rw [dec_escRune isPrint _ r t hv, ih t hlen, hs']
        simp

/-- **Go-literal round trip** — for every byte string (valid UTF-8 or not) and every printability
predicate, the body `strconv.Quote` writes is read back by Go as exactly the original bytes. -/
theorem quote_roundtrip (isPrint : Nat → Bool) (s : GoStr) : litDecode (quoteBodyWith isPrint s) = some s :=
  quoteFuel_roundtrip isPrint s.length s (Nat.le_refl _)

end GL
