import GohtVerif.Model.GoLit
/-! `litDecode (quoteBodyWith isPrint s) = some s`: what `strconv.Quote` writes is a string-literal
body that Go reads back as exactly the original bytes — for every byte string (valid UTF-8 or not)
and every printability predicate. -/
namespace GL

/-! ### hexadecimal digits -/

theorem hexv_hexd_fin : ∀ d : Fin 16, hexv (hexd d.val) = some d.val := by decide

theorem hexv_hexd (d : Nat) (h : d < 16) : hexv (hexd d) = some d := hexv_hexd_fin ⟨d, h⟩

theorem hexvs_hex2 (n acc : Nat) : hexvs (hex2 n) acc = some (acc * 256 + n % 256) := by
  simp only [hex2, hexvs, hexv_hexd _ (Nat.mod_lt _ (by decide : 0 < 16))]
  congr 1; omega

theorem hexvs_append (a b : GoStr) (acc : Nat) :
    hexvs (a ++ b) acc = (hexvs a acc).bind (hexvs b) := by
  induction a generalizing acc with
  | nil => simp [hexvs]
  | cons c cs ih =>
    simp only [List.cons_append, hexvs]
    cases hexv c with
    | none => simp
    | some v => simp [ih]

theorem hexvs_hex4 (n : Nat) (h : n < 65536) : hexvs (hex4 n) 0 = some n := by
  simp only [hex4, hexvs_append, hexvs_hex2, Option.bind_some]
  congr 1; omega

theorem hexvs_hex8 (n : Nat) (h : n < 4294967296) : hexvs (hex8 n) 0 = some n := by
  simp only [hex8, hex4, hexvs_append, hexvs_hex2, Option.bind_some]
  congr 1; omega

theorem hex2_eq (n : Nat) : ∃ a b, hex2 n = [a, b] := ⟨_, _, rfl⟩
theorem hex4_eq (n : Nat) : ∃ a b c d, hex4 n = [a, b, c, d] := ⟨_, _, _, _, rfl⟩
theorem hex8_eq (n : Nat) : ∃ a b c d e f g h, hex8 n = [a, b, c, d, e, f, g, h] := ⟨_, _, _, _, _, _, _, _, rfl⟩

/-! ### chunks of a literal body -/

theorem dec_simple (c v : UInt8) (rest : GoStr) (h : simpleEsc c = some v)
    (h1 : c ≠ 120) (h2 : c ≠ 117) (h3 : c ≠ 85) :
    litDecode (92 :: c :: rest) = (litDecode rest).map (v :: ·) := by
  have e1 : (c == 120) = false := by simpa using h1
  have e2 : (c == 117) = false := by simpa using h2
  have e3 : (c == 85) = false := by simpa using h3
  simp only [litDecode, beq_self_eq_true, if_true, e1, e2, e3, Bool.false_eq_true, if_false, h]
  cases litDecode rest <;> rfl

theorem dec_x (n : Nat) (h : n < 256) (rest : GoStr) :
    litDecode ([92, 120] ++ hex2 n ++ rest) = (litDecode rest).map (UInt8.ofNat n :: ·) := by
  obtain ⟨a, b, hab⟩ := hex2_eq n
  have hv := hexvs_hex2 n 0
  rw [hab] at hv ⊢
  have : n % 256 = n := Nat.mod_eq_of_lt h
  simp only [List.cons_append, List.nil_append, litDecode, beq_self_eq_true, if_true, hv, Nat.zero_mul, Nat.zero_add, this]
  cases litDecode rest <;> rfl

theorem dec_u (n : Nat) (h : n < 65536) (hv : validRune n = true) (rest : GoStr) :
    litDecode ([92, 117] ++ hex4 n ++ rest) = (litDecode rest).map (encodeRune n ++ ·) := by
  obtain ⟨a, b, c, d, hab⟩ := hex4_eq n
  have hx := hexvs_hex4 n h
  rw [hab] at hx ⊢
  have e1 : ((117 : UInt8) == 120) = false := by decide
  simp only [List.cons_append, List.nil_append, litDecode, beq_self_eq_true, if_true, e1, Bool.false_eq_true, if_false, hx, hv]
  cases litDecode rest <;> rfl

theorem dec_U (n : Nat) (h : n < 4294967296) (hv : validRune n = true) (rest : GoStr) :
    litDecode ([92, 85] ++ hex8 n ++ rest) = (litDecode rest).map (encodeRune n ++ ·) := by
  obtain ⟨a, b, c, d, e, f, g, i, hab⟩ := hex8_eq n
  have hx := hexvs_hex8 n h
  rw [hab] at hx ⊢
  have e1 : ((85 : UInt8) == 120) = false := by decide
  have e2 : ((85 : UInt8) == 117) = false := by decide
  simp only [List.cons_append, List.nil_append, litDecode, beq_self_eq_true, if_true, e1, e2, Bool.false_eq_true, if_false, hx, hv]
  cases litDecode rest <;> rfl

/-- bytes that are neither `\`, `"` nor a line feed stand for themselves -/
theorem dec_raw (l rest : GoStr) (h : ∀ b ∈ l, b ≠ 92 ∧ b ≠ 34 ∧ b ≠ 10) :
    litDecode (l ++ rest) = (litDecode rest).map (l ++ ·) := by
  induction l with
  | nil => cases litDecode rest <;> rfl
  | cons b l ih =>
    obtain ⟨h1, h2, h3⟩ := h b List.mem_cons_self
    have e1 : (b == 92) = false := by simpa using h1
    have e2 : (b == 34) = false := by simpa using h2
    have e3 : (b == 10) = false := by simpa using h3
    simp only [List.cons_append, litDecode, e1, e2, e3, Bool.false_eq_true, if_false, Bool.or_self]
    rw [ih (fun x hx => h x (List.mem_cons_of_mem _ hx))]
    cases litDecode rest <;> rfl

end GL

namespace GL

/-! ### what `decode1` answers: a byte that is not UTF-8, or a rune together with its own encoding -/

theorem u8_ofNat_toNat (b : UInt8) : UInt8.ofNat b.toNat = b := by simp

theorem u8_ne_of_toNat_ge (b : UInt8) (h : 128 ≤ b.toNat) : b ≠ 92 ∧ b ≠ 34 ∧ b ≠ 10 := by
  refine ⟨?_, ?_, ?_⟩ <;> (intro e; subst e; revert h; decide)

/-- two-byte sequences -/
theorem enc2 (b0 b1 : UInt8) (h0 : 0xC2 ≤ b0.toNat ∧ b0.toNat ≤ 0xDF) (h1 : 0x80 ≤ b1.toNat ∧ b1.toNat ≤ 0xBF) :
    encodeRune (b0.toNat % 32 * 64 + b1.toNat % 64) = [b0, b1] ∧
    validRune (b0.toNat % 32 * 64 + b1.toNat % 64) = true ∧ 128 ≤ b0.toNat % 32 * 64 + b1.toNat % 64 := by
  have hb0 := b0.toNat_lt; have hb1 := b1.toNat_lt
  have c1 : ¬ (b0.toNat % 32 * 64 + b1.toNat % 64 < 128) := by omega
  have c2 : b0.toNat % 32 * 64 + b1.toNat % 64 < 2048 := by omega
  have e0 : 192 + (b0.toNat % 32 * 64 + b1.toNat % 64) / 64 = b0.toNat := by omega
  have e1 : 128 + (b0.toNat % 32 * 64 + b1.toNat % 64) % 64 = b1.toNat := by omega
  refine ⟨?_, ?_, by omega⟩
  · simp only [encodeRune, c1, c2, if_false, if_true, e0, e1, u8_ofNat_toNat]
  · simp only [validRune, Bool.and_eq_true, decide_eq_true_eq, Bool.not_eq_true', Bool.and_eq_false_iff, decide_eq_false_iff_not]
    omega

/-- three-byte sequences (the second byte is restricted so that neither over-long forms nor surrogates occur) -/
theorem enc3 (b0 b1 b2 : UInt8) (h0 : 0xE0 ≤ b0.toNat ∧ b0.toNat ≤ 0xEF)
    (h1 : (if b0.toNat = 0xE0 then 0xA0 else 0x80) ≤ b1.toNat ∧ b1.toNat ≤ (if b0.toNat = 0xED then 0x9F else 0xBF))
    (h2 : 0x80 ≤ b2.toNat ∧ b2.toNat ≤ 0xBF) :
    encodeRune (b0.toNat % 16 * 4096 + b1.toNat % 64 * 64 + b2.toNat % 64) = [b0, b1, b2] ∧
    validRune (b0.toNat % 16 * 4096 + b1.toNat % 64 * 64 + b2.toNat % 64) = true ∧
    128 ≤ b0.toNat % 16 * 4096 + b1.toNat % 64 * 64 + b2.toNat % 64 ∧
    b0.toNat % 16 * 4096 + b1.toNat % 64 * 64 + b2.toNat % 64 < 65536 := by
  have hb0 := b0.toNat_lt; have hb1 := b1.toNat_lt; have hb2 := b2.toNat_lt
  have hlo : 2048 ≤ b0.toNat % 16 * 4096 + b1.toNat % 64 * 64 + b2.toNat % 64 := by
    split at h1 <;> omega
  have hsur : ¬ (55296 ≤ b0.toNat % 16 * 4096 + b1.toNat % 64 * 64 + b2.toNat % 64 ∧
      b0.toNat % 16 * 4096 + b1.toNat % 64 * 64 + b2.toNat % 64 < 57344) := by
    obtain ⟨h1a, h1b⟩ := h1
    split at h1b <;> omega
  have hb1r : 128 ≤ b1.toNat ∧ b1.toNat ≤ 191 := by
    obtain ⟨h1a, h1b⟩ := h1
    constructor
    · split at h1a <;> omega
    · split at h1b <;> omega
  have c1 : ¬ (b0.toNat % 16 * 4096 + b1.toNat % 64 * 64 + b2.toNat % 64 < 128) := by omega
  have c2 : ¬ (b0.toNat % 16 * 4096 + b1.toNat % 64 * 64 + b2.toNat % 64 < 2048) := by omega
  have c3 : b0.toNat % 16 * 4096 + b1.toNat % 64 * 64 + b2.toNat % 64 < 65536 := by omega
  have e0 : 224 + (b0.toNat % 16 * 4096 + b1.toNat % 64 * 64 + b2.toNat % 64) / 4096 = b0.toNat := by omega
  have e1 : 128 + (b0.toNat % 16 * 4096 + b1.toNat % 64 * 64 + b2.toNat % 64) / 64 % 64 = b1.toNat := by omega
  have e2 : 128 + (b0.toNat % 16 * 4096 + b1.toNat % 64 * 64 + b2.toNat % 64) % 64 = b2.toNat := by omega
  refine ⟨?_, ?_, by omega, c3⟩
  · simp only [encodeRune, c1, c2, c3, if_false, if_true, e0, e1, e2, u8_ofNat_toNat]
  · simp only [validRune, Bool.and_eq_true, decide_eq_true_eq, Bool.not_eq_true', Bool.and_eq_false_iff, decide_eq_false_iff_not]
    omega

/-- four-byte sequences -/
theorem enc4 (b0 b1 b2 b3 : UInt8) (h0 : 0xF0 ≤ b0.toNat ∧ b0.toNat ≤ 0xF4)
    (h1 : (if b0.toNat = 0xF0 then 0x90 else 0x80) ≤ b1.toNat ∧ b1.toNat ≤ (if b0.toNat = 0xF4 then 0x8F else 0xBF))
    (h2 : 0x80 ≤ b2.toNat ∧ b2.toNat ≤ 0xBF) (h3 : 0x80 ≤ b3.toNat ∧ b3.toNat ≤ 0xBF) :
    encodeRune (b0.toNat % 8 * 262144 + b1.toNat % 64 * 4096 + b2.toNat % 64 * 64 + b3.toNat % 64) = [b0, b1, b2, b3] ∧
    validRune (b0.toNat % 8 * 262144 + b1.toNat % 64 * 4096 + b2.toNat % 64 * 64 + b3.toNat % 64) = true ∧
    65536 ≤ b0.toNat % 8 * 262144 + b1.toNat % 64 * 4096 + b2.toNat % 64 * 64 + b3.toNat % 64 ∧
    b0.toNat % 8 * 262144 + b1.toNat % 64 * 4096 + b2.toNat % 64 * 64 + b3.toNat % 64 < 1114112 := by
  have hb0 := b0.toNat_lt; have hb1 := b1.toNat_lt; have hb2 := b2.toNat_lt; have hb3 := b3.toNat_lt
  have hb1r : 128 ≤ b1.toNat ∧ b1.toNat ≤ 191 := by
    obtain ⟨h1a, h1b⟩ := h1
    constructor
    · split at h1a <;> omega
    · split at h1b <;> omega
  have hlo : 65536 ≤ b0.toNat % 8 * 262144 + b1.toNat % 64 * 4096 + b2.toNat % 64 * 64 + b3.toNat % 64 := by
    obtain ⟨h1a, _⟩ := h1
    split at h1a <;> omega
  have hhi : b0.toNat % 8 * 262144 + b1.toNat % 64 * 4096 + b2.toNat % 64 * 64 + b3.toNat % 64 < 1114112 := by
    obtain ⟨_, h1b⟩ := h1
    split at h1b <;> omega
  have c1 : ¬ (b0.toNat % 8 * 262144 + b1.toNat % 64 * 4096 + b2.toNat % 64 * 64 + b3.toNat % 64 < 128) := by omega
  have c2 : ¬ (b0.toNat % 8 * 262144 + b1.toNat % 64 * 4096 + b2.toNat % 64 * 64 + b3.toNat % 64 < 2048) := by omega
  have c3 : ¬ (b0.toNat % 8 * 262144 + b1.toNat % 64 * 4096 + b2.toNat % 64 * 64 + b3.toNat % 64 < 65536) := by omega
  have e0 : 240 + (b0.toNat % 8 * 262144 + b1.toNat % 64 * 4096 + b2.toNat % 64 * 64 + b3.toNat % 64) / 262144 = b0.toNat := by omega
  have e1 : 128 + (b0.toNat % 8 * 262144 + b1.toNat % 64 * 4096 + b2.toNat % 64 * 64 + b3.toNat % 64) / 4096 % 64 = b1.toNat := by omega
  have e2 : 128 + (b0.toNat % 8 * 262144 + b1.toNat % 64 * 4096 + b2.toNat % 64 * 64 + b3.toNat % 64) / 64 % 64 = b2.toNat := by omega
  have e3 : 128 + (b0.toNat % 8 * 262144 + b1.toNat % 64 * 4096 + b2.toNat % 64 * 64 + b3.toNat % 64) % 64 = b3.toNat := by omega
  refine ⟨?_, ?_, hlo, hhi⟩
  · simp only [encodeRune, c1, c2, c3, if_false, e0, e1, e2, e3, u8_ofNat_toNat]
  · simp only [validRune, Bool.and_eq_true, decide_eq_true_eq, Bool.not_eq_true', Bool.and_eq_false_iff, decide_eq_false_iff_not]
    omega

end GL

namespace GL

/-- what `decode1` answers for a non-empty string: either the first byte is not the start of a
well-formed sequence (the replacement rune of width 1, one byte consumed), or a rune together with
the bytes that encode it -/
def DecValid (s : GoStr) (r : Rune) (t : GoStr) : Prop :=
  s = r.enc ++ t ∧ encodeRune r.cp = r.enc ∧ validRune r.cp = true ∧ r.enc ≠ [] ∧
  ¬ (r.width = 1 ∧ r.cp = 0xFFFD) ∧ (128 ≤ r.cp → ∀ b ∈ r.enc, 128 ≤ b.toNat)

def DecInvalid (s : GoStr) (r : Rune) (t : GoStr) : Prop :=
  ∃ b0, s = b0 :: t ∧ r.width = 1 ∧ r.cp = 0xFFFD

theorem runeError_invalid (b0 : UInt8) (rest : GoStr) : DecInvalid (b0 :: rest) runeError rest :=
  ⟨b0, rfl, rfl, rfl⟩

theorem cont_iff (b : UInt8) : isCont b = true ↔ 0x80 ≤ b.toNat ∧ b.toNat ≤ 0xBF := by
  simp only [isCont, Bool.and_eq_true, decide_eq_true_eq, UInt8.le_iff_toNat_le]
  exact Iff.rfl

theorem ite_toNat (c : Prop) [Decidable c] (a b : UInt8) : (if c then a else b).toNat = if c then a.toNat else b.toNat := by
  split <;> rfl

theorem u8_eq_iff (a : UInt8) (n : Nat) (h : n < 256) : a = UInt8.ofNat n ↔ a.toNat = n := by
  constructor
  · intro e; subst e; simp [Nat.mod_eq_of_lt h]
  · intro e; subst e; simp

end GL

namespace GL

theorem decode1_spec (s : GoStr) (r : Rune) (t : GoStr) (h : decode1 s = some (r, t)) :
    DecInvalid s r t ∨ DecValid s r t := by
  cases s with
  | nil => simp [decode1] at h
  | cons b0 rest =>
    have hb0 := b0.toNat_lt
    simp only [decode1] at h
    split at h
    · -- ASCII
      rename_i hlt
      simp only [Option.some.injEq, Prod.mk.injEq] at h
      obtain ⟨rfl, rfl⟩ := h
      have hn : b0.toNat < 128 := by
        have := UInt8.lt_iff_toNat_lt.1 hlt
        simpa using this
      right
      refine ⟨rfl, ?_, ?_, by simp, ?_, ?_⟩
      · simp [encodeRune, hn]
      · simp only [validRune, Bool.and_eq_true, decide_eq_true_eq, Bool.not_eq_true', Bool.and_eq_false_iff, decide_eq_false_iff_not]
        omega
      · intro ⟨_, hc⟩; simp only at hc; omega
      · intro hc; simp only at hc; omega
    · split at h
      · -- two bytes
        rename_i hr
        simp only [Bool.and_eq_true, decide_eq_true_eq, UInt8.le_iff_toNat_le] at hr
        have hr' : 0xC2 ≤ b0.toNat ∧ b0.toNat ≤ 0xDF := hr
        split at h
        · rename_i b1 r1
          split at h
          · rename_i hc
            simp only [Option.some.injEq, Prod.mk.injEq] at h
            obtain ⟨rfl, rfl⟩ := h
            obtain ⟨he, hv, hge⟩ := enc2 b0 b1 hr' ((cont_iff b1).1 hc)
            right
            refine ⟨rfl, he, hv, by simp, ?_, ?_⟩
            · intro ⟨hw, _⟩; simp at hw
            · intro _ b hb
              simp only [List.mem_cons, List.not_mem_nil, or_false] at hb
              rcases hb with rfl | rfl
              · omega
              · exact ((cont_iff _).1 hc).1
          · simp only [Option.some.injEq, Prod.mk.injEq] at h
            obtain ⟨rfl, rfl⟩ := h
            exact Or.inl (runeError_invalid _ _)
        · simp only [Option.some.injEq, Prod.mk.injEq] at h
          obtain ⟨rfl, rfl⟩ := h
          exact Or.inl (runeError_invalid _ _)
      · split at h
        · -- three bytes
          rename_i hr
          simp only [Bool.and_eq_true, decide_eq_true_eq, UInt8.le_iff_toNat_le] at hr
          have hr' : 0xE0 ≤ b0.toNat ∧ b0.toNat ≤ 0xEF := hr
          split at h
          · rename_i b1 b2 r2
            split at h
            · rename_i hc
              simp only [Bool.and_eq_true, decide_eq_true_eq, UInt8.le_iff_toNat_le, ite_toNat] at hc
              obtain ⟨⟨hlo, hhi⟩, hc2⟩ := hc
              simp only [Option.some.injEq, Prod.mk.injEq] at h
              obtain ⟨rfl, rfl⟩ := h
              have e1 : (b0 = 0xE0) ↔ b0.toNat = 0xE0 := u8_eq_iff b0 0xE0 (by decide)
              have e2 : (b0 = 0xED) ↔ b0.toNat = 0xED := u8_eq_iff b0 0xED (by decide)
              have h1 : (if b0.toNat = 0xE0 then 0xA0 else 0x80) ≤ b1.toNat ∧ b1.toNat ≤ (if b0.toNat = 0xED then 0x9F else 0xBF) := by
                constructor
                · by_cases c : b0 = 0xE0
                  · simp only [c, if_true] at hlo; rw [if_pos (e1.1 c)]; exact hlo
                  · simp only [c, if_false] at hlo; rw [if_neg (fun x => c (e1.2 x))]; exact hlo
                · by_cases c : b0 = 0xED
                  · simp only [c, if_true] at hhi; rw [if_pos (e2.1 c)]; exact hhi
                  · simp only [c, if_false] at hhi; rw [if_neg (fun x => c (e2.2 x))]; exact hhi
              obtain ⟨he, hv, hge, _⟩ := enc3 b0 b1 b2 hr' h1 ((cont_iff b2).1 hc2)
              right
              refine ⟨rfl, he, hv, by simp, ?_, ?_⟩
              · intro ⟨hw, _⟩; simp at hw
              · intro _ b hb
                simp only [List.mem_cons, List.not_mem_nil, or_false] at hb
                have hb1 : 128 ≤ b1.toNat := by
                  obtain ⟨h1a, _⟩ := h1
                  split at h1a <;> omega
                rcases hb with rfl | rfl | rfl
                · omega
                · exact hb1
                · exact ((cont_iff _).1 hc2).1
            · simp only [Option.some.injEq, Prod.mk.injEq] at h
              obtain ⟨rfl, rfl⟩ := h
              exact Or.inl (runeError_invalid _ _)
          · simp only [Option.some.injEq, Prod.mk.injEq] at h
            obtain ⟨rfl, rfl⟩ := h
            exact Or.inl (runeError_invalid _ _)
        · split at h
          · -- four bytes
            rename_i hr
            simp only [Bool.and_eq_true, decide_eq_true_eq, UInt8.le_iff_toNat_le] at hr
            have hr' : 0xF0 ≤ b0.toNat ∧ b0.toNat ≤ 0xF4 := hr
            split at h
            · rename_i b1 b2 b3 r3
              split at h
              · rename_i hc
                simp only [Bool.and_eq_true, decide_eq_true_eq, UInt8.le_iff_toNat_le, ite_toNat] at hc
                obtain ⟨⟨⟨hlo, hhi⟩, hc2⟩, hc3⟩ := hc
                simp only [Option.some.injEq, Prod.mk.injEq] at h
                obtain ⟨rfl, rfl⟩ := h
                have e1 : (b0 = 0xF0) ↔ b0.toNat = 0xF0 := u8_eq_iff b0 0xF0 (by decide)
                have e2 : (b0 = 0xF4) ↔ b0.toNat = 0xF4 := u8_eq_iff b0 0xF4 (by decide)
                have h1 : (if b0.toNat = 0xF0 then 0x90 else 0x80) ≤ b1.toNat ∧ b1.toNat ≤ (if b0.toNat = 0xF4 then 0x8F else 0xBF) := by
                  constructor
                  · by_cases c : b0 = 0xF0
                    · simp only [c, if_true] at hlo; rw [if_pos (e1.1 c)]; exact hlo
                    · simp only [c, if_false] at hlo; rw [if_neg (fun x => c (e1.2 x))]; exact hlo
                  · by_cases c : b0 = 0xF4
                    · simp only [c, if_true] at hhi; rw [if_pos (e2.1 c)]; exact hhi
                    · simp only [c, if_false] at hhi; rw [if_neg (fun x => c (e2.2 x))]; exact hhi
                obtain ⟨he, hv, hge, _⟩ := enc4 b0 b1 b2 b3 hr' h1 ((cont_iff b2).1 hc2) ((cont_iff b3).1 hc3)
                right
                refine ⟨rfl, he, hv, by simp, ?_, ?_⟩
                · intro ⟨hw, _⟩; simp at hw
                · intro _ b hb
                  simp only [List.mem_cons, List.not_mem_nil, or_false] at hb
                  have hb1 : 128 ≤ b1.toNat := by
                    obtain ⟨h1a, _⟩ := h1
                    split at h1a <;> omega
                  rcases hb with rfl | rfl | rfl | rfl
                  · omega
                  · exact hb1
                  · exact ((cont_iff _).1 hc2).1
                  · exact ((cont_iff _).1 hc3).1
              · simp only [Option.some.injEq, Prod.mk.injEq] at h
                obtain ⟨rfl, rfl⟩ := h
                exact Or.inl (runeError_invalid _ _)
            · simp only [Option.some.injEq, Prod.mk.injEq] at h
              obtain ⟨rfl, rfl⟩ := h
              exact Or.inl (runeError_invalid _ _)
          · simp only [Option.some.injEq, Prod.mk.injEq] at h
            obtain ⟨rfl, rfl⟩ := h
            exact Or.inl (runeError_invalid _ _)

end GL
