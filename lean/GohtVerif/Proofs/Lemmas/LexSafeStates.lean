import GohtVerif.Proofs.Lemmas.LexSafe
/-! every lexer state function preserves `Inv` (no panic, no misplaced UnreadRune) -/
namespace GL
theorem inv_peek_eq {l l1 : L} {c : Nat} (h : Inv l) (e : l.peek = (l1, c)) : Inv l1 := by
  have := inv_peek l h; rw [e] at this; exact this
theorem inv_skip_eq {l l1 : L} {c : Nat} (h : Inv l) (e : l.skip = (l1, c)) : Inv l1 := by
  have := inv_skip l h; rw [e] at this; exact this
theorem inv_peekAhead_eq {l l1 : L} {n : Nat} {s : GoStr} (h : Inv l) (e : l.peekAhead n = (l1, s)) : Inv l1 := by
  have := inv_peekAhead l n h; rw [e] at this; exact this
theorem inv_quote_eq {l l1 : L} {t : TT} {b : Bool} {c : Nat} (h : Inv l) (e : l.continueToMatchingQuote t b = (l1, c)) : Inv l1 := by
  have := inv_quote l t b h; rw [e] at this; exact this

theorem inv_indent_iff (l : L) (n : Nat) : Inv { l with indent := n } ↔ Inv l := Iff.rfl

attribute [local irreducible] L.peek L.skip L.next L.backup L.dropS L.acceptRun L.acceptUntil L.skipRun L.skipUntil L.emit L.errorf emitIfPending L.peekAhead L.ignore L.skipAhead L.continueToMatchingBrace L.continueToMatchingQuote Inv

macro "inv_step" : tactic => `(tactic| first
  | assumption
  | refine inv_emit _ _ ?_
  | refine inv_emitIfPending _ _ ?_
  | refine inv_errorf _ _ ?_
  | refine inv_skip _ ?_
  | refine inv_next1 _ ?_
  | refine inv_ignore _ ?_
  | refine inv_peekAhead _ _ ?_
  | refine inv_acceptRun _ _ ?_
  | refine inv_acceptUntil _ _ ?_
  | refine inv_skipRun _ _ ?_
  | refine inv_skipUntil _ _ ?_
  | refine inv_skipAhead _ _ ?_
  | refine inv_peek _ ?_
  | refine inv_quote _ _ _ ?_
  | refine inv_peek_eq ?_ (by assumption)
  | refine inv_skip_eq ?_ (by assumption)
  | refine inv_peekAhead_eq ?_ (by assumption)
  | refine inv_quote_eq ?_ (by assumption))

macro "inv_auto" : tactic => `(tactic| (simp only []; (repeat' split) <;> (try simp only [inv_indent_iff]) <;> (repeat inv_step)))

theorem s_lexGoLineStart (l : L) (h : Inv l) : Inv (lexGoLineStart l).1 := by
  unfold lexGoLineStart; inv_auto
theorem s_lexGoLineEnd (l : L) (h : Inv l) : Inv (lexGoLineEnd l).1 := by
  unfold lexGoLineEnd; inv_auto
theorem s_lexPackage (l : L) (h : Inv l) : Inv (lexPackage l).1 := by
  unfold lexPackage; inv_auto
theorem s_lexImportStart (l : L) (h : Inv l) : Inv (lexImportStart l).1 := by
  unfold lexImportStart; inv_auto
theorem s_lexImports (l : L) (h : Inv l) : Inv (lexImports l).1 := by
  unfold lexImports; inv_auto
theorem s_lexGoCode (l : L) (h : Inv l) : Inv (lexGoCode l).1 := by
  unfold lexGoCode; inv_auto
theorem s_lexTemplate (l : L) (h : Inv l) : Inv (lexTemplate l).1 := by
  unfold lexTemplate; inv_auto
theorem s_lexGohtLineStart (l : L) (h : Inv l) : Inv (lexGohtLineStart l).1 := by
  unfold lexGohtLineStart; inv_auto
theorem s_lexGohtContentStart (l : L) (h : Inv l) : Inv (lexGohtContentStart l).1 := by
  unfold lexGohtContentStart; inv_auto
theorem s_lexGohtContent (l : L) (h : Inv l) : Inv (lexGohtContent l).1 := by
  unfold lexGohtContent; inv_auto
theorem s_lexGohtContentEnd (l : L) (h : Inv l) : Inv (lexGohtContentEnd l).1 := by
  unfold lexGohtContentEnd; inv_auto
theorem s_lexGohtLineEnd (l : L) (h : Inv l) : Inv (lexGohtLineEnd l).1 := by
  unfold lexGohtLineEnd; inv_auto
theorem s_lexGohtNewLine (l : L) (h : Inv l) : Inv (lexGohtNewLine l).1 := by
  unfold lexGohtNewLine; inv_auto
theorem s_lexGohtAttributesStart (l : L) (h : Inv l) : Inv (lexGohtAttributesStart l).1 := by
  unfold lexGohtAttributesStart; inv_auto
theorem s_lexGohtAttributesEnd (l : L) (h : Inv l) : Inv (lexGohtAttributesEnd l).1 := by
  unfold lexGohtAttributesEnd; inv_auto
theorem s_lexGohtAttribute (l : L) (h : Inv l) : Inv (lexGohtAttribute l).1 := by
  unfold lexGohtAttribute; inv_auto
theorem s_lexGohtAttributeNameTail (l : L) (h : Inv l) : Inv (lexGohtAttributeNameTail l).1 := by
  unfold lexGohtAttributeNameTail; inv_auto
theorem s_lexGohtAttributeOperator (l : L) (h : Inv l) : Inv (lexGohtAttributeOperator l).1 := by
  unfold lexGohtAttributeOperator; inv_auto
theorem s_lexGohtAttributeValue (l : L) (h : Inv l) : Inv (lexGohtAttributeValue l).1 := by
  unfold lexGohtAttributeValue; inv_auto
theorem s_lexGohtAttributeStaticValue (l : L) (h : Inv l) : Inv (lexGohtAttributeStaticValue l).1 := by
  unfold lexGohtAttributeStaticValue; inv_auto
theorem s_lexAttributeCommandStart (l : L) (h : Inv l) : Inv (lexAttributeCommandStart l).1 := by
  unfold lexAttributeCommandStart; inv_auto
theorem s_lexGohtAttributeEnd (l : L) (h : Inv l) : Inv (lexGohtAttributeEnd l).1 := by
  unfold lexGohtAttributeEnd; inv_auto
theorem s_lexWhitespaceRemoval (l : L) (h : Inv l) : Inv (lexWhitespaceRemoval l).1 := by
  unfold lexWhitespaceRemoval; inv_auto
theorem s_lexGohtTextStart (l : L) (h : Inv l) : Inv (lexGohtTextStart l).1 := by
  unfold lexGohtTextStart; inv_auto
theorem s_lexGohtTextContent (l : L) (h : Inv l) : Inv (lexGohtTextContent l).1 := by
  unfold lexGohtTextContent; inv_auto
theorem s_lexGohtDoctype (l : L) (h : Inv l) : Inv (lexGohtDoctype l).1 := by
  unfold lexGohtDoctype; inv_auto
theorem s_lexGohtUnescaped (l : L) (h : Inv l) : Inv (lexGohtUnescaped l).1 := by
  unfold lexGohtUnescaped; inv_auto
theorem s_lexGohtSilentScript (l : L) (h : Inv l) : Inv (lexGohtSilentScript l).1 := by
  unfold lexGohtSilentScript; inv_auto
theorem s_lexGohtOutputCode (l : L) (h : Inv l) : Inv (lexGohtOutputCode l).1 := by
  unfold lexGohtOutputCode; inv_auto
theorem s_lexComment (l : L) (h : Inv l) : Inv (lexComment l).1 := by
  unfold lexComment; inv_auto
theorem s_lexVoidTag (l : L) (h : Inv l) : Inv (lexVoidTag l).1 := by
  unfold lexVoidTag; inv_auto
theorem s_lexGohtCommandCode (l : L) (h : Inv l) : Inv (lexGohtCommandCode l).1 := by
  unfold lexGohtCommandCode; inv_auto
theorem s_lexFilterStart (l : L) (h : Inv l) : Inv (lexFilterStart l).1 := by
  unfold lexFilterStart; inv_auto

theorem s_hamlIdentifier (t : TT) (l : L) (h : Inv l) : Inv (hamlIdentifier t l).1 := by
  unfold hamlIdentifier; inv_auto
theorem s_lexGohtAttributeName (l : L) (h : Inv l) : Inv (lexGohtAttributeName l).1 := by
  unfold lexGohtAttributeName; simp only []
  repeat' split
  all_goals (try refine s_lexGohtAttributeNameTail _ ?_)
  all_goals repeat inv_step
theorem s_lexFilterLineStart (n : Nat) (t : TT) (l : L) (h : Inv l) : Inv (lexFilterLineStart n t l).1 := by
  unfold lexFilterLineStart; inv_auto
theorem s_lexFilterIndent (n : Nat) (t : TT) (l : L) (h : Inv l) : Inv (lexFilterIndent n t l).1 := by
  unfold lexFilterIndent; inv_auto
theorem s_lexFilterContent (n : Nat) (t : TT) (l : L) (h : Inv l) : Inv (lexFilterContent n t l).1 := by
  unfold lexFilterContent; inv_auto

/-- states that put back the closing bracket: `backup()` directly after the `next()` that found it -/
theorem inv_brace_backup (l : L) (e : Nat) (h : Inv l) (hne : ((l.continueToMatchingBrace e).2 == eof) = false) :
    Inv (l.continueToMatchingBrace e).1.backup := by
  have := inv_brace l e h
  exact inv_backup _ this.1 (this.2 (by simpa using hne))

theorem s_lexObjectReference (l : L) (h : Inv l) : Inv (lexObjectReference l).1 := by
  unfold lexObjectReference; simp only []
  split
  · exact inv_errorf _ _ (inv_brace _ _ (inv_skip _ h)).1
  · rename_i hne
    exact inv_skip _ (inv_emit _ _ (inv_brace_backup _ _ (inv_skip _ h) (by simpa using hne)))

theorem s_lexGohtAttributeDynamicValue (l : L) (h : Inv l) : Inv (lexGohtAttributeDynamicValue l).1 := by
  unfold lexGohtAttributeDynamicValue; simp only []
  have h1 := inv_peek _ (inv_skip _ h)
  split
  · exact inv_errorf _ _ h1
  · split
    · exact inv_errorf _ _ (inv_brace _ _ (inv_skip _ h1)).1
    · rename_i hne
      exact inv_skip _ (inv_emit _ _ (inv_brace_backup _ _ (inv_skip _ h1) (by simpa using hne)))

theorem s_lexGohtAttributeCommand (l : L) (h : Inv l) : Inv (lexGohtAttributeCommand l).1 := by
  unfold lexGohtAttributeCommand; simp only []
  have h1 := inv_skip _ (inv_skipUntil _ Gen.lexGohtAttributeCommand_skipUntil1 (inv_skipUntil _ Gen.lexGohtAttributeCommand_skipUntil0 (inv_ignore _ h)))
  split
  · exact inv_errorf _ _ (inv_brace _ _ h1).1
  · rename_i hne
    exact inv_skip _ (inv_emit _ _ (inv_brace_backup _ _ h1 (by simpa using hne)))

theorem s_dynamicText (t : TT) (ss : List Nat) (nx : St) (l : L) (h : Inv l) : Inv (dynamicText t ss nx l).1 := by
  unfold dynamicText; simp only []
  have h0 := inv_peekAhead l 2 h
  split
  · exact inv_next1 _ h0
  · have h1 := inv_skipRun _ ss (inv_emitIfPending _ t h0)
    split
    · exact inv_errorf _ _ (inv_brace _ _ h1).1
    · rename_i hne
      exact inv_skip _ (inv_emit _ _ (inv_brace_backup _ _ h1 (by simpa using hne)))

theorem s_lexGohtIndent (l : L) (h : Inv l) : Inv (lexGohtIndent l).1 := by
  unfold lexGohtIndent; simp only []
  have h1 := inv_acceptRun l Gen.lexGohtIndent_acceptRun0 h
  split
  · exact inv_errorf _ _ h1
  · split
    · exact inv_emit _ _ ((inv_indent_iff _ _).2 h1)
    · split
      · rename_i r hv; exact inv_validateIndent _ _ r h1 hv
      · exact inv_emit _ _ ((inv_indent_iff _ _).2 h1)

theorem s_ignoreIndentedLines (n : Nat) (l : L) (h : Inv l) : Inv (ignoreIndentedLines n l).1 := by
  unfold ignoreIndentedLines; simp only []
  have h1 := inv_peek l h
  split
  · exact inv_skip _ h1
  · split
    · have h2 := inv_peekAhead _ n h1
      split
      · exact h2
      · split
        · rename_i r hv; exact inv_validateIndent _ _ r h2 hv
        · exact inv_skipUntil _ _ h2
    · split
      · exact inv_emit _ _ h1
      · exact h1

theorem s_lexGohtStart (l : L) (h : Inv l) : Inv (lexGohtStart l).1 := by
  unfold lexGohtStart
  have hs : sumInv (gohtStartSig l) := by
    unfold gohtStartSig; simp only []
    apply inv_gohtStartLoop
    have h1 := inv_acceptUntil _ Gen.lexGohtStart_acceptUntil0 (inv_skipRun _ Gen.lexGohtStart_skipRun0 ((inv_indent_iff _ 0).2 (inv_ignore _ h)))
    split
    · exact inv_next1 _ h1
    · exact h1
  split
  · rename_i l1 heq; rw [heq] at hs; exact inv_errorf _ _ hs
  · rename_i l1 heq; rw [heq] at hs
    simp only []
    exact inv_skipRun _ _ (inv_skipRun _ _ (inv_emit _ _ (inv_next1 _ hs)))

/-- **every state function preserves the invariant** -/
theorem step_inv (st : St) (l : L) (h : Inv l) : Inv (step st l).1 := by
  cases st <;> simp only [step]
  all_goals first
    | exact h
    | exact s_lexGoLineStart l h | exact s_lexGoLineEnd l h | exact s_lexPackage l h | exact s_lexImportStart l h
    | exact s_lexImports l h | exact s_lexGoCode l h | exact s_lexTemplate l h | exact s_lexGohtStart l h
    | exact s_lexGohtLineStart l h | exact s_lexGohtIndent l h | exact s_lexGohtContentStart l h | exact s_lexGohtContent l h
    | exact s_lexGohtContentEnd l h | exact s_lexGohtLineEnd l h | exact s_lexGohtNewLine l h
    | exact s_hamlIdentifier _ l h | exact s_lexObjectReference l h | exact s_lexGohtAttributesStart l h | exact s_lexGohtAttributesEnd l h
    | exact s_lexGohtAttribute l h | exact s_lexGohtAttributeName l h | exact s_lexGohtAttributeOperator l h | exact s_lexGohtAttributeValue l h
    | exact s_lexGohtAttributeStaticValue l h | exact s_lexGohtAttributeDynamicValue l h | exact s_lexAttributeCommandStart l h
    | exact s_lexGohtAttributeCommand l h | exact s_lexGohtAttributeEnd l h | exact s_lexWhitespaceRemoval l h | exact s_lexGohtTextStart l h
    | exact s_lexGohtTextContent l h | exact s_dynamicText _ _ _ l h | exact s_lexGohtDoctype l h | exact s_lexGohtUnescaped l h
    | exact s_lexGohtSilentScript l h | exact s_ignoreIndentedLines _ l h | exact s_lexGohtOutputCode l h | exact s_lexComment l h
    | exact s_lexVoidTag l h | exact s_lexGohtCommandCode l h | exact s_lexFilterStart l h | exact s_lexFilterLineStart _ _ l h
    | exact s_lexFilterIndent _ _ l h | exact s_lexFilterContent _ _ l h

end GL
