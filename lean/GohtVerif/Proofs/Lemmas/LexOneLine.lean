import GohtVerif.Proofs.Lemmas.LexExt
import GohtVerif.Proofs.Lemmas.LexFrag
/-! The text of an import never contains a line feed: `acceptUntil` stops in front of it. -/
namespace GL
variable {inp : List Rune}

theorem nlCount_zero (acc : List Rune) (h : ∀ r ∈ acc, r.cp ≠ 10) : nlCount acc = 0 := by
  induction acc with
  | nil => simp [nlCount]
  | cons r rs ih =>
    have hr := h r List.mem_cons_self
    have := ih (fun x hx => h x (List.mem_cons_of_mem _ hx))
    simp only [nlCount, List.countP_cons] at *
    simp [hr, this]

/-- a literal accepted into an empty pending literal with a stop set that contains the line feed has no line feed -/
theorem acceptUntil_no_lf (hg : Good inp) (l : L) (v : List Nat) (h : SNil inp l) (h10 : (10 : Nat) ∈ v) :
    countNl (l.acceptUntil v).s = 0 := by
  obtain ⟨acc, hr, hs, hv⟩ := ext_acceptUntil hg.wf l v (snil_sinv l h)
  rw [hs, h.2, List.nil_append]
  have hin : ∀ r ∈ acc, r ∈ inp := by
    intro r hr'
    obtain ⟨_, done, hind, _⟩ := h.1.2
    rw [hind, hr]; simp [hr']
  rw [countNl_encAll acc (fun r hr' => hg.ok r (hin r hr'))]
  exact nlCount_zero acc (fun r hr' e => hv r hr' (e ▸ h10))

theorem emit_lit (l : L) (t : TT) : ∀ tok ∈ (l.emit t).out, tok ∈ l.out ∨ tok.lit = l.s := by
  intro tok h
  unfold L.emit at h
  split at h
  · exact Or.inl h
  · simp only [List.mem_cons] at h
    rcases h with rfl | h
    · exact Or.inr rfl
    · exact Or.inl h

theorem errorf_typ (l : L) (m : EMsg) : ∀ tok ∈ (l.errorf m).1.out, tok ∈ l.out ∨ tok.typ = .error := by
  intro tok h
  unfold L.errorf at h
  split at h
  · exact Or.inl h
  · simp only [List.mem_cons] at h
    rcases h with rfl | h
    · exact Or.inr rfl
    · exact Or.inl h

/-- **grouped imports**: every import token `lexImports` delivers is free of line feeds -/
theorem imports_token_one_line (hg : Good inp) (l : L) (h : SNil inp l) (ho : l.out = [])
    (h10 : (10 : Nat) ∈ Gen.lexImports_acceptUntil0) :
    ∀ t ∈ (lexImports l).1.out, t.typ = .import → countNl t.lit = 0 := by
  unfold lexImports
  simp only []
  have h1 := snil_peek hg.wf _ (snil_skipRun hg.wf _ Gen.lexImports_skipRun0 h)
  have ho1 : ((l.skipRun Gen.lexImports_skipRun0).peek).1.out = [] := by simp [ho]
  split
  · intro t ht; simp [ho] at ht
  · split
    · intro t ht hty
      rcases errorf_typ _ _ t ht with h' | h'
      · rw [ho1] at h'; cases h'
      · rw [h'] at hty; cases hty
    · split
      · intro t ht hty
        rcases errorf_typ _ _ t ht with h' | h'
        · rw [acceptUntil_out, ho1] at h'; cases h'
        · rw [h'] at hty; cases hty
      · intro t ht _
        rcases emit_lit _ _ t ht with h' | h'
        · rw [acceptUntil_out, ho1] at h'; cases h'
        · rw [h']; exact acceptUntil_no_lf hg _ _ h1 h10

/-- **single imports**: the import token `lexImportStart` delivers is free of line feeds -/
theorem importStart_token_one_line (hg : Good inp) (l : L) (h : SInv inp l) (ho : l.out = [])
    (h10 : (10 : Nat) ∈ Gen.lexImportStart_acceptUntil1) :
    ∀ t ∈ (lexImportStart l).1.out, t.typ = .import → countNl t.lit = 0 := by
  unfold lexImportStart
  simp only []
  split
  · intro t ht; simp [ho] at ht
  · have h1 := snil_peek hg.wf _ (snil_ignore _ (tinv_skipRun _ Gen.lexImportStart_skipRun0 (tinv_acceptUntil _ Gen.lexImportStart_acceptUntil0 h.1)))
    split
    · intro t ht; simp [ho] at ht
    · intro t ht _
      rw [skipRun_out] at ht
      rcases emit_lit _ _ t ht with h' | h'
      · simp [ho] at h'
      · rw [h']; exact acceptUntil_no_lf hg _ _ h1 h10

/-- **package clause**: the package token `lexPackage` delivers is free of line feeds -/
theorem package_token_one_line (hg : Good inp) (l : L) (h : SInv inp l) (ho : l.out = [])
    (h10 : (10 : Nat) ∈ Gen.lexPackage_acceptUntil1) :
    ∀ t ∈ (lexPackage l).1.out, t.typ = .package → countNl t.lit = 0 := by
  unfold lexPackage
  simp only []
  split
  · intro t ht; simp [ho] at ht
  · have h1 := snil_skipRun hg.wf _ Gen.lexPackage_skipRun0 (snil_ignore _ (tinv_acceptUntil _ Gen.lexPackage_acceptUntil0 h.1))
    have ho1 : ((l.acceptUntil Gen.lexPackage_acceptUntil0).ignore.skipRun Gen.lexPackage_skipRun0).out = [] := by simp [ho]
    split
    · intro t ht hty
      rcases errorf_typ _ _ t ht with h' | h'
      · rw [acceptUntil_out, ho1] at h'; cases h'
      · rw [h'] at hty; cases hty
    · intro t ht _
      rcases emit_lit _ _ t ht with h' | h'
      · rw [acceptUntil_out, ho1] at h'; cases h'
      · rw [h']; exact acceptUntil_no_lf hg _ _ h1 h10

end GL
