import GohtVerif.Model.Lexer
/-! How many tokens the lexer primitives add to the queue of the current state invocation. -/
namespace GL

@[simp] theorem next_out (l : L) : (l.next).1.out = l.out := by
  unfold L.next; split <;> rfl

@[simp] theorem dropS_out (l : L) (n : Nat) : (l.dropS n).out = l.out := by
  unfold L.dropS; split <;> rfl

@[simp] theorem unbumpPos_out (l : L) : (unbumpPos l).out = l.out := by
  unfold unbumpPos; simp only []; split <;> rfl

@[simp] theorem backup_out (l : L) : l.backup.out = l.out := by
  unfold L.backup
  split
  · rfl
  · simp only [dropS_out]
    split <;> simp

@[simp] theorem peek_out (l : L) : (l.peek).1.out = l.out := by
  simp [L.peek]

@[simp] theorem peekAhead_out (l : L) (n : Nat) : (l.peekAhead n).1.out = l.out := rfl
@[simp] theorem ignore_out (l : L) : l.ignore.out = l.out := rfl
@[simp] theorem skip_out (l : L) : (l.skip).1.out = l.out := by simp [L.skip]

theorem acceptRunAux_out (v : List Nat) (n : Nat) (l : L) : (acceptRunAux v n l).out = l.out := by
  induction n generalizing l with
  | zero => simp [acceptRunAux]
  | succ n ih => simp only [acceptRunAux]; split <;> simp [ih]
@[simp] theorem acceptRun_out (l : L) (v : List Nat) : (l.acceptRun v).out = l.out := acceptRunAux_out ..

theorem acceptUntilAux_out (v : List Nat) (n : Nat) (l : L) : (acceptUntilAux v n l).out = l.out := by
  induction n generalizing l with
  | zero => simp [acceptUntilAux]
  | succ n ih => simp only [acceptUntilAux]; split <;> simp [ih]
@[simp] theorem acceptUntil_out (l : L) (v : List Nat) : (l.acceptUntil v).out = l.out := acceptUntilAux_out ..

theorem skipRunAux_out (v : List Nat) (n : Nat) (l : L) : (skipRunAux v n l).out = l.out := by
  induction n generalizing l with
  | zero => simp [skipRunAux]
  | succ n ih => simp only [skipRunAux]; split <;> simp [ih]
@[simp] theorem skipRun_out (l : L) (v : List Nat) : (l.skipRun v).out = l.out := skipRunAux_out ..

theorem skipUntilAux_out (v : List Nat) (n : Nat) (l : L) : (skipUntilAux v n l).out = l.out := by
  induction n generalizing l with
  | zero => simp [skipUntilAux]
  | succ n ih => simp only [skipUntilAux]; split <;> simp [ih]
@[simp] theorem skipUntil_out (l : L) (v : List Nat) : (l.skipUntil v).out = l.out := skipUntilAux_out ..

theorem nextN_out (n : Nat) (l : L) : (nextN n l).out = l.out := by
  induction n generalizing l with
  | zero => rfl
  | succ n ih => simp [nextN, ih]
@[simp] theorem skipAhead_out (l : L) (n : Nat) : (l.skipAhead n).out = l.out := by
  simp [L.skipAhead, nextN_out]

theorem emit_out_le (l : L) (t : TT) : (l.emit t).out.length ≤ l.out.length + 1 := by
  unfold L.emit; split <;> simp

theorem emitIfPending_out_le (l : L) (t : TT) : (emitIfPending l t).out.length ≤ l.out.length + 1 := by
  unfold emitIfPending; split
  · exact emit_out_le l t
  · omega

theorem errorf_out_le (l : L) (m : EMsg) : (l.errorf m).1.out.length ≤ l.out.length + 1 := by
  unfold L.errorf; split <;> simp

theorem braceAux_out (e : Nat) (n : Nat) (l : L) (a b : Bool) (q : Nat) :
    (continueToMatchingBraceAux e n l a b q).1.out = l.out := by
  induction n generalizing l a b q with
  | zero => simp [continueToMatchingBraceAux]
  | succ n ih =>
    simp only [continueToMatchingBraceAux]
    repeat' split
    all_goals simp [ih]
@[simp] theorem brace_out (l : L) (e : Nat) : (l.continueToMatchingBrace e).1.out = l.out := braceAux_out ..

theorem quoteLoop_out (q : Nat) (n : Nat) (l : L) (e : Bool) : (quoteLoop q n l e).1.out = l.out := by
  induction n generalizing l e with
  | zero => simp [quoteLoop]
  | succ n ih =>
    simp only [quoteLoop]
    repeat' split
    all_goals simp [ih]

theorem quote_out_le (l : L) (t : TT) (c : Bool) : (l.continueToMatchingQuote t c).1.out.length ≤ l.out.length + 1 := by
  unfold L.continueToMatchingQuote
  generalize hp : l.peek = pk
  obtain ⟨l1, quote⟩ := pk
  have h1 : l1.out = l.out := by have := peek_out l; rw [hp] at this; exact this
  simp only []
  split
  · simp [h1]
  · generalize hq : quoteLoop quote ((if c = true then l1.next.fst else l1.skip.fst).cur.rest.length + 1)
        (if c = true then l1.next.fst else l1.skip.fst) false = ql
    obtain ⟨l2, atEof⟩ := ql
    have h2 : l2.out = l.out := by
      have := quoteLoop_out quote ((if c = true then l1.next.fst else l1.skip.fst).cur.rest.length + 1)
        (if c = true then l1.next.fst else l1.skip.fst) false
      rw [hq] at this
      simp only [] at this
      rw [this]
      split <;> simp [h1]
    simp only []
    split
    · simp [h2]
    · split
      · refine Nat.le_trans (emit_out_le _ _) ?_
        simp [h2]
      · simp only [skip_out]
        refine Nat.le_trans (emit_out_le _ _) ?_
        simp [h2]

def sumL : Sum L L → L
  | .inl l => l
  | .inr l => l

theorem gohtStartLoop_out (n : Nat) (l : L) : (sumL (gohtStartLoop n l)).out = l.out := by
  induction n generalizing l with
  | zero => simp [gohtStartLoop, sumL]
  | succ n ih =>
    simp only [gohtStartLoop]
    split
    · simp [sumL]
    · split
      · simp [sumL]
      · rw [ih]; simp

end GL
