import GohtVerif.Model.SourceMap
namespace GL

def DisjS (f g : Frag) : Prop := f.sl ≠ g.sl ∨ f.sc + f.len < g.sc ∨ g.sc + g.len < f.sc
def DisjT (f g : Frag) : Prop := f.tl ≠ g.tl ∨ f.tc + f.len < g.tc ∨ g.tc + g.len < f.tc

theorem disjS_iff (f g : Frag) : disjS f g = true ↔ DisjS f g := by
  simp [disjS, DisjS, or_assoc]
theorem disjT_iff (f g : Frag) : disjT f g = true ↔ DisjT f g := by
  simp [disjT, DisjT, or_assoc]

theorem allDisj_pairwise (d : Frag → Frag → Bool) (D : Frag → Frag → Prop) (hd : ∀ f g, d f g = true ↔ D f g)
    (log : List Frag) (h : allDisj d log = true) : log.Pairwise D := by
  induction log with
  | nil => exact List.Pairwise.nil
  | cons f fs ih =>
    simp only [allDisj, Bool.and_eq_true, List.all_eq_true] at h
    exact List.Pairwise.cons (fun g hg => (hd f g).mp (h.1 g hg)) (ih h.2)

theorem toTgt_mem (log : List Frag) (hd : log.Pairwise DisjS) (f : Frag) (hf : f ∈ log)
    (i : Nat) (hi : i ≤ f.len) : toTgt log f.sl (f.sc + i) = some (f.tl, f.tc + i) := by
  induction log with
  | nil => cases hf
  | cons g gs ih =>
    rw [List.pairwise_cons] at hd
    simp only [toTgt]
    rcases List.mem_cons.mp hf with rfl | hmem
    · have h1 : f.covS f.sl (f.sc + i) = true := by
        simp only [Frag.covS, Bool.and_eq_true, beq_self_eq_true, decide_eq_true_eq, true_and]
        omega
      simp only [h1, if_true]
      congr 2; omega
    · have hdis := hd.1 f hmem
      have hcov : g.covS f.sl (f.sc + i) = false := by
        unfold DisjS at hdis
        simp only [Frag.covS]
        rcases hdis with h | h | h
        · have : (g.sl == f.sl) = false := by simpa using h
          simp [this]
        · have : ¬ (f.sc + ↑i ≤ g.sc + ↑g.len) := by omega
          simp [this]
        · have : ¬ (g.sc ≤ f.sc + ↑i) := by omega
          simp [this]
      simp only [hcov]
      exact ih hd.2 hmem

theorem toSrc_mem (log : List Frag) (hd : log.Pairwise DisjT) (f : Frag) (hf : f ∈ log)
    (i : Nat) (hi : i ≤ f.len) : toSrc log f.tl (f.tc + i) = some (f.sl, f.sc + i) := by
  induction log with
  | nil => cases hf
  | cons g gs ih =>
    rw [List.pairwise_cons] at hd
    simp only [toSrc]
    rcases List.mem_cons.mp hf with rfl | hmem
    · have h1 : f.covT f.tl (f.tc + i) = true := by
        simp only [Frag.covT, Bool.and_eq_true, beq_self_eq_true, decide_eq_true_eq, true_and]
        omega
      simp only [h1, if_true]
      congr 2; omega
    · have hdis := hd.1 f hmem
      have hcov : g.covT f.tl (f.tc + i) = false := by
        unfold DisjT at hdis
        simp only [Frag.covT]
        rcases hdis with h | h | h
        · have : (g.tl == f.tl) = false := by simpa using h
          simp [this]
        · have : ¬ (f.tc + ↑i ≤ g.tc + ↑g.len) := by omega
          simp [this]
        · have : ¬ (g.tc ≤ f.tc + ↑i) := by omega
          simp [this]
      simp only [hcov]
      exact ih hd.2 hmem

/-- every mapped source key comes from some run of the log -/
theorem toTgt_some (log : List Frag) (l c : Int) (p : Int × Int) (h : toTgt log l c = some p) :
    ∃ f ∈ log, ∃ i : Nat, i ≤ f.len ∧ l = f.sl ∧ c = f.sc + i ∧ p = (f.tl, f.tc + i) := by
  induction log with
  | nil => simp [toTgt] at h
  | cons g gs ih =>
    simp only [toTgt] at h
    split at h
    · rename_i hc
      simp only [Frag.covS, Bool.and_eq_true, beq_iff_eq, decide_eq_true_eq] at hc
      refine ⟨g, List.mem_cons_self, (c - g.sc).toNat, by omega, hc.1.1.symm, by omega, ?_⟩
      have : p = (g.tl, g.tc + (c - g.sc)) := by simpa using h.symm
      rw [this]; congr 1; omega
    · obtain ⟨f, hf, i, h1, h2, h3, h4⟩ := ih h
      exact ⟨f, List.mem_cons_of_mem _ hf, i, h1, h2, h3, h4⟩

theorem toSrc_some (log : List Frag) (l c : Int) (p : Int × Int) (h : toSrc log l c = some p) :
    ∃ f ∈ log, ∃ i : Nat, i ≤ f.len ∧ l = f.tl ∧ c = f.tc + i ∧ p = (f.sl, f.sc + i) := by
  induction log with
  | nil => simp [toSrc] at h
  | cons g gs ih =>
    simp only [toSrc] at h
    split at h
    · rename_i hc
      simp only [Frag.covT, Bool.and_eq_true, beq_iff_eq, decide_eq_true_eq] at hc
      refine ⟨g, List.mem_cons_self, (c - g.tc).toNat, by omega, hc.1.1.symm, by omega, ?_⟩
      have : p = (g.sl, g.sc + (c - g.tc)) := by simpa using h.symm
      rw [this]; congr 1; omega
    · obtain ⟨f, hf, i, h1, h2, h3, h4⟩ := ih h
      exact ⟨f, List.mem_cons_of_mem _ hf, i, h1, h2, h3, h4⟩

end GL
