import GohtVerif.Proofs.Lemmas.Utf16
import GohtVerif.Model.Emit
/-! The writer's position is the position of the end of the text written so far:
line = 1 + line breaks written, column = 1 + UTF-16 units since the last line break. -/
namespace GL

/-- the text after the last line break -/
def lastLineOf : GoStr → GoStr
  | [] => []
  | b :: rest => if (10 : UInt8) ∈ rest then lastLineOf rest else if b = 10 then rest else b :: rest

theorem lastLineOf_no_nl (s : GoStr) (h : (10 : UInt8) ∉ s) : lastLineOf s = s := by
  induction s with
  | nil => rfl
  | cons b rest ih =>
    simp only [List.mem_cons, not_or] at h
    have hb : ¬ b = 10 := fun e => h.1 e.symm
    simp [lastLineOf, h.2, hb]

theorem lastLineOf_append_nl (a s : GoStr) (h : (10 : UInt8) ∈ s) : lastLineOf (a ++ s) = lastLineOf s := by
  induction a with
  | nil => rfl
  | cons b a ih =>
    have : (10 : UInt8) ∈ a ++ s := List.mem_append_right _ h
    simp only [List.cons_append, lastLineOf, this, if_true, ih]

theorem lastLineOf_append_no_nl (a s : GoStr) (h : (10 : UInt8) ∉ s) : lastLineOf (a ++ s) = lastLineOf a ++ s := by
  induction a with
  | nil => simp [lastLineOf, lastLineOf_no_nl s h]
  | cons b a ih =>
    have e : ((10 : UInt8) ∈ a ++ s) ↔ (10 : UInt8) ∈ a := by
      rw [List.mem_append]; exact ⟨fun x => x.elim id (fun y => absurd y h), Or.inl⟩
    simp only [List.cons_append, lastLineOf, e]
    split
    · exact ih
    · split <;> simp

theorem lastLineOf_no_nl_inside (t : GoStr) : (10 : UInt8) ∉ lastLineOf t := by
  induction t with
  | nil => simp [lastLineOf]
  | cons c t iht =>
    simp only [lastLineOf]
    split
    · exact iht
    · rename_i h2
      split
      · exact h2
      · rename_i h3
        simp only [List.mem_cons, not_or]
        exact ⟨fun e => h3 e.symm, h2⟩

theorem lastLineOf_lt (t : GoStr) (h : (10 : UInt8) ∈ t) : (lastLineOf t).length < t.length := by
  induction t with
  | nil => simp at h
  | cons c t iht =>
    simp only [lastLineOf]
    split
    · rename_i h2; have := iht h2; simp only [List.length_cons]; omega
    · rename_i h2
      have hc : c = 10 := by
        simp only [List.mem_cons] at h
        rcases h with h | h
        · exact h.symm
        · exact absurd h h2
      simp [hc]

/-- what `lastIndexNl` computes, in terms of `lastLineOf` -/
theorem lastIndexNl_go (s : GoStr) : ∀ (i : Nat) (best : Option Nat),
    lastIndexNl.go i best s = if (10 : UInt8) ∈ s then some (i + (s.length - (lastLineOf s).length - 1)) else best := by
  induction s with
  | nil => intro i best; simp [lastIndexNl.go]
  | cons b rest ih =>
    intro i best
    simp only [lastIndexNl.go, ih]
    by_cases hr : (10 : UInt8) ∈ rest
    · have hc : (10 : UInt8) ∈ b :: rest := List.mem_cons_of_mem _ hr
      have hl := lastLineOf_lt rest hr
      simp only [hr, hc, if_true, lastLineOf, List.length_cons]
      congr 1; omega
    · simp only [hr, if_false]
      by_cases hb : b = 10
      · have hc : (10 : UInt8) ∈ b :: rest := by rw [hb]; exact List.mem_cons_self
        simp [hb, hc, lastLineOf, hr]
      · have hc : (10 : UInt8) ∉ b :: rest := by
          simp only [List.mem_cons, not_or]; exact ⟨fun e => hb e.symm, hr⟩
        have hbq : (b == 10) = false := by simpa using hb
        simp [hbq, hc]

theorem lastLineOf_suffix (s : GoStr) : s.drop (s.length - (lastLineOf s).length) = lastLineOf s := by
  induction s with
  | nil => rfl
  | cons b rest ih =>
    simp only [lastLineOf]
    split
    · have hle : (lastLineOf rest).length ≤ rest.length := by
        have := congrArg List.length ih
        rw [List.length_drop] at this; omega
      have : (b :: rest).length - (lastLineOf rest).length = (rest.length - (lastLineOf rest).length) + 1 := by
        simp only [List.length_cons]; omega
      rw [this, List.drop_succ_cons, ih]
    · split
      · simp
      · simp

/-- the position of the end of a text -/
def posOf (text : GoStr) : Pos := { line := 1 + (countNl text : Nat), col := 1 + (utf16Len (lastLineOf text) : Nat) }

theorem countNl_app (a b : GoStr) : countNl (a ++ b) = countNl a + countNl b := by
  simp [countNl, List.count_append]

/-- **The writer tracks the end of the text** — if the position describes the text written so far
(and the current last line is well-formed UTF-8, so that it is not cut inside a rune), it describes
the text after one more chunk as well. -/
theorem write_tracks_position (g : G) (text s : GoStr) (hpos : g.pos = posOf text)
    (hvalid : ValidUtf8 (lastLineOf text)) : (g.write s).1.pos = posOf (text ++ s) := by
  unfold G.write lastIndexNl
  simp only [lastIndexNl_go, Nat.zero_add]
  by_cases hc : (10 : UInt8) ∈ s
  · simp only [hc, if_true, hpos, posOf, countNl_app, lastLineOf_append_nl text s hc]
    have hlt := lastLineOf_lt s hc
    have hidx : s.length - (lastLineOf s).length - 1 + 1 = s.length - (lastLineOf s).length := by omega
    rw [hidx, lastLineOf_suffix]
    congr 1
    push_cast
    omega
  · have hcnt : countNl s = 0 := by
      unfold countNl
      rw [List.count_eq_zero]; exact hc
    simp only [hc, if_false, hpos, posOf, countNl_app, hcnt, lastLineOf_append_no_nl text s hc,
      utf16Len_append _ _ hvalid, Nat.add_zero]
    congr 1
    push_cast
    omega

end GL
