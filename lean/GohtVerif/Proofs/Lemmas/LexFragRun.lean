import GohtVerif.Proofs.Lemmas.LexOutTyp
/-! Every Go-fragment token the lexer delivers carries the input text it stands for and that text's true position. -/
namespace GL
variable {inp : List Rune}

/-- the fragment tokens emitted so far by this invocation are where they say they are -/
def FragOK (inp : List Rune) (l : L) : Prop := ∀ t ∈ l.out, isFrag t.typ = true → TokAt inp t

theorem fragOK_of_nf (l : L) (h : NF l) : FragOK inp l := by
  intro t ht hf; rw [h t ht] at hf; cases hf

theorem fragOK_of_all (l : L) (h : ∀ t ∈ l.out, TokAt inp t) : FragOK inp l := fun t ht _ => h t ht

theorem nf_nil (l : L) (ho : l.out = []) : NF l := by intro x hx; rw [ho] at hx; cases hx

theorem emit_mem' (hg : Good inp) (l : L) (t0 : TT) (h : SInv inp l) :
    ∀ t ∈ (l.emit t0).out, t ∈ l.out ∨ TokAt inp t := by
  obtain ⟨tok, hout, _, hat⟩ := emit_tokAt hg l t0 h
  intro t ht
  rw [hout] at ht
  simp only [List.mem_cons] at ht
  rcases ht with rfl | ht
  · exact Or.inr hat
  · exact Or.inl ht

theorem errorf_mem (l : L) (m : EMsg) : ∀ t ∈ (l.errorf m).1.out, t ∈ l.out ∨ t.typ = .error := by
  unfold L.errorf
  split
  · intro t ht; exact Or.inl ht
  · intro t ht
    simp only [List.mem_cons] at ht
    rcases ht with rfl | ht
    · exact Or.inr rfl
    · exact Or.inl ht

theorem emitIfPending_mem (l : L) (t0 : TT) : ∀ x ∈ (emitIfPending l t0).out, x ∈ l.out ∨ x.typ = t0 := by
  unfold emitIfPending L.emit
  split
  · split
    · intro x hx; exact Or.inl hx
    · intro x hx
      simp only [List.mem_cons] at hx
      rcases hx with rfl | hx
      · exact Or.inr rfl
      · exact Or.inl hx
  · intro x hx; exact Or.inl hx

/-- the text type a filter state carries is one of the three text types (never a fragment type) -/
def stOK : St → Bool
  | .filterLineStart _ t | .filterIndent _ t | .filterContent _ t | .filterDyn _ t => !isFrag t
  | _ => true

theorem stOK_errorf (l : L) (m : EMsg) : stOK (l.errorf m).2 = true := by
  unfold L.errorf; split <;> rfl

theorem stOK_validateIndent (l : L) (ind : GoStr) (r : L × St) (hv : l.validateIndent ind = some r) : stOK r.2 = true := by
  unfold L.validateIndent at hv
  by_cases h1 : ind.isEmpty = true
  · simp [h1] at hv
  · by_cases h2 : ind.length ≤ l.indent
    · simp [h1, h2] at hv
    · by_cases h3 : (32 : UInt8) ∈ ind
      · simp [h1, h2, h3] at hv; subst hv; exact stOK_errorf _ _
      · by_cases h4 : ind.length > l.indent + 1
        · simp [h1, h2, h3, h4] at hv; subst hv; exact stOK_errorf _ _
        · simp [h1, h2, h3, h4] at hv

theorem fragOK_eq {l l' : L} (h : l'.out = l.out) (hf : FragOK inp l) : FragOK inp l' := by
  intro t ht; rw [h] at ht; exact hf t ht

theorem fragOK_nil (l : L) (ho : l.out = []) : FragOK inp l := by
  intro t ht; rw [ho] at ht; cases ht

theorem fragOK_emit (hg : Good inp) (l : L) (t0 : TT) (h : SInv inp l) (hf : FragOK inp l) : FragOK inp (l.emit t0) := by
  intro t ht hfr
  rcases emit_mem' hg l t0 h t ht with hin | hat
  · exact hf t hin hfr
  · exact hat

theorem fragOK_emitIfPending (hg : Good inp) (l : L) (t0 : TT) (h : SInv inp l) (hf : FragOK inp l) : FragOK inp (emitIfPending l t0) := by
  unfold emitIfPending
  split
  · exact fragOK_emit hg l t0 h hf
  · exact hf

theorem fragOK_errorf (l : L) (m : EMsg) (hf : FragOK inp l) : FragOK inp (l.errorf m).1 := by
  intro t ht hfr
  rcases errorf_mem l m t ht with hin | he
  · exact hf t hin hfr
  · rw [he] at hfr; cases hfr

def ssumInv (inp : List Rune) : Sum L L → Prop
  | .inl l => SInv inp l
  | .inr l => SInv inp l

theorem sinv_gohtStartLoop (hwf : WF inp) (n : Nat) (l : L) (h : SInv inp l) : ssumInv inp (gohtStartLoop n l) := by
  induction n generalizing l with
  | zero => exact h
  | succ n ih =>
    simp only [gohtStartLoop]
    have h1 := sinv_acceptUntil hwf l Gen.lexGohtStart_acceptUntil1 h
    split
    · exact h1
    · have h2 := sinv_next1 hwf _ h1
      split
      · exact h2
      · exact ih _ h2

theorem sinv_indent (l : L) (n : Nat) (h : SInv inp l) : SInv inp { l with indent := n } := h


theorem snil_clear_out (l : L) (h : SNil inp l) : SNil inp { l with out := [] } := h
theorem sinv_clear_out (l : L) (h : SInv inp l) : SInv inp { l with out := [] } := h

theorem nf_app {l : L} (h : NF l) (x : Tok) (hx : x ∈ l.out) : isFrag x.typ = false := h x hx

attribute [local irreducible] L.peek L.skip L.next L.backup L.dropS L.acceptRun L.acceptUntil L.skipRun L.skipUntil L.emit L.errorf emitIfPending L.peekAhead L.ignore L.skipAhead L.continueToMatchingBrace L.continueToMatchingQuote TInv Inv Track SInv SNil Suf NF

theorem frag_dynamicText (hg : Good inp) (t0 : TT) (ht0 : isFrag t0 = false) (ss : List Nat) (nx : St) (l : L)
    (h : TInv inp l) (ho : l.out = []) : FragOK inp (dynamicText t0 ss nx l).1 := by
  unfold dynamicText
  simp only []
  have h0 := tinv_peekAhead l 2 h
  split
  · exact fragOK_of_nf _ (nf_next _ (nf_peekAhead _ _ (nf_nil l ho)))
  · have h1 := snil_skipRun hg.wf _ ss (snil_emitIfPending _ t0 h0)
    have hpend : NF ((emitIfPending (l.peekAhead 2).1 t0).skipRun ss) := by
      refine nf_skipRun _ _ (nf_emitIfPending _ _ ht0 (nf_peekAhead _ _ (nf_nil l ho)))
    split
    · exact fragOK_of_nf _ (nf_errorf _ _ (nf_brace _ _ hpend))
    · rename_i hne
      have hb := sinv_brace hg.wf _ (ch '}') (snil_sinv _ h1)
      have hbk := sinv_backup hg.wf _ hb.1 (hb.2 (by simpa using hne))
      intro t ht hf
      rw [skip_out] at ht
      rcases emit_mem' hg _ .dynamicText hbk t ht with hin | hat
      · rw [backup_out, brace_out] at hin
        rw [nf_app hpend t hin] at hf; cases hf
      · exact hat

theorem frag_commandCode (hg : Good inp) (l : L) (h : TInv inp l) (ho : l.out = []) : FragOK inp (lexGohtCommandCode l).1 := by
  unfold lexGohtCommandCode
  simp only []
  have h1 := tinv_acceptUntil _ Gen.lexGohtCommandCode_acceptUntil0 (tinv_skipRun _ Gen.lexGohtCommandCode_skipRun0 h)
  have hn1 : NF ((l.skipRun Gen.lexGohtCommandCode_skipRun0).acceptUntil Gen.lexGohtCommandCode_acceptUntil0) :=
    nf_acceptUntil _ _ (nf_skipRun _ _ (nf_nil l ho))
  split
  · exact fragOK_of_nf _ (nf_errorf _ _ hn1)
  · split
    · have h2 := sinv_acceptUntil hg.wf _ Gen.lexGohtCommandCode_acceptUntil1
        (snil_sinv _ (snil_ignore _ (tinv_acceptRun _ Gen.lexGohtCommandCode_acceptRun0 h1)))
      have hn2 : NF ((((l.skipRun Gen.lexGohtCommandCode_skipRun0).acceptUntil Gen.lexGohtCommandCode_acceptUntil0).acceptRun
          Gen.lexGohtCommandCode_acceptRun0).ignore.acceptUntil Gen.lexGohtCommandCode_acceptUntil1) :=
        nf_acceptUntil _ _ (nf_ignore _ (nf_acceptRun _ _ hn1))
      split
      · exact fragOK_of_nf _ (nf_errorf _ _ hn2)
      · intro t ht hf
        rw [skipRun_out] at ht
        rcases emit_mem' hg _ .renderCommand h2 t ht with hin | hat
        · rw [nf_app hn2 t hin] at hf; cases hf
        · exact hat
    · split
      · have hn3 : NF ((((l.skipRun Gen.lexGohtCommandCode_skipRun0).acceptUntil Gen.lexGohtCommandCode_acceptUntil0).acceptRun
            Gen.lexGohtCommandCode_acceptRun1).ignore.acceptUntil Gen.lexGohtCommandCode_acceptUntil2) :=
          nf_acceptUntil _ _ (nf_ignore _ (nf_acceptRun _ _ hn1))
        split
        · exact fragOK_of_nf _ (nf_errorf _ _ hn3)
        · exact fragOK_of_nf _ (nf_skipRun _ _ (nf_emit _ _ rfl hn3))
      · exact fragOK_of_nf _ (nf_errorf _ _ hn1)

macro "stok_auto" : tactic => `(tactic| ((try simp only []); (repeat' split) <;> first
  | exact stOK_errorf _ _
  | rfl
  | (rename_i r hv; exact stOK_validateIndent _ _ r hv)
  | assumption))

theorem k_lexGoLineStart (l : L) : stOK (lexGoLineStart l).2 = true := by
  unfold lexGoLineStart; stok_auto
theorem k_lexGoLineEnd (l : L) : stOK (lexGoLineEnd l).2 = true := by
  unfold lexGoLineEnd; stok_auto
theorem k_lexPackage (l : L) : stOK (lexPackage l).2 = true := by
  unfold lexPackage; stok_auto
theorem k_lexImportStart (l : L) : stOK (lexImportStart l).2 = true := by
  unfold lexImportStart; stok_auto
theorem k_lexImports (l : L) : stOK (lexImports l).2 = true := by
  unfold lexImports; stok_auto
theorem k_lexGoCode (l : L) : stOK (lexGoCode l).2 = true := by
  unfold lexGoCode; stok_auto
theorem k_lexTemplate (l : L) : stOK (lexTemplate l).2 = true := by
  unfold lexTemplate; stok_auto
theorem k_lexGohtLineStart (l : L) : stOK (lexGohtLineStart l).2 = true := by
  unfold lexGohtLineStart; stok_auto
theorem k_lexGohtContentStart (l : L) : stOK (lexGohtContentStart l).2 = true := by
  unfold lexGohtContentStart; stok_auto
theorem k_lexGohtContent (l : L) : stOK (lexGohtContent l).2 = true := by
  unfold lexGohtContent; stok_auto
theorem k_lexGohtContentEnd (l : L) : stOK (lexGohtContentEnd l).2 = true := by
  unfold lexGohtContentEnd; stok_auto
theorem k_lexGohtLineEnd (l : L) : stOK (lexGohtLineEnd l).2 = true := by
  unfold lexGohtLineEnd; stok_auto
theorem k_lexGohtNewLine (l : L) : stOK (lexGohtNewLine l).2 = true := by
  unfold lexGohtNewLine; stok_auto
theorem k_lexObjectReference (l : L) : stOK (lexObjectReference l).2 = true := by
  unfold lexObjectReference; stok_auto
theorem k_lexGohtAttributesStart (l : L) : stOK (lexGohtAttributesStart l).2 = true := by
  unfold lexGohtAttributesStart; stok_auto
theorem k_lexGohtAttributesEnd (l : L) : stOK (lexGohtAttributesEnd l).2 = true := by
  unfold lexGohtAttributesEnd; stok_auto
theorem k_lexGohtAttribute (l : L) : stOK (lexGohtAttribute l).2 = true := by
  unfold lexGohtAttribute; stok_auto
theorem k_lexGohtAttributeNameTail (l : L) : stOK (lexGohtAttributeNameTail l).2 = true := by
  unfold lexGohtAttributeNameTail; stok_auto
theorem k_lexGohtAttributeOperator (l : L) : stOK (lexGohtAttributeOperator l).2 = true := by
  unfold lexGohtAttributeOperator; stok_auto
theorem k_lexGohtAttributeValue (l : L) : stOK (lexGohtAttributeValue l).2 = true := by
  unfold lexGohtAttributeValue; stok_auto
theorem k_lexGohtAttributeStaticValue (l : L) : stOK (lexGohtAttributeStaticValue l).2 = true := by
  unfold lexGohtAttributeStaticValue; stok_auto
theorem k_lexGohtAttributeDynamicValue (l : L) : stOK (lexGohtAttributeDynamicValue l).2 = true := by
  unfold lexGohtAttributeDynamicValue; stok_auto
theorem k_lexAttributeCommandStart (l : L) : stOK (lexAttributeCommandStart l).2 = true := by
  unfold lexAttributeCommandStart; stok_auto
theorem k_lexGohtAttributeCommand (l : L) : stOK (lexGohtAttributeCommand l).2 = true := by
  unfold lexGohtAttributeCommand; stok_auto
theorem k_lexGohtAttributeEnd (l : L) : stOK (lexGohtAttributeEnd l).2 = true := by
  unfold lexGohtAttributeEnd; stok_auto
theorem k_lexWhitespaceRemoval (l : L) : stOK (lexWhitespaceRemoval l).2 = true := by
  unfold lexWhitespaceRemoval; stok_auto
theorem k_lexGohtTextStart (l : L) : stOK (lexGohtTextStart l).2 = true := by
  unfold lexGohtTextStart; stok_auto
theorem k_lexGohtTextContent (l : L) : stOK (lexGohtTextContent l).2 = true := by
  unfold lexGohtTextContent; stok_auto
theorem k_lexGohtDoctype (l : L) : stOK (lexGohtDoctype l).2 = true := by
  unfold lexGohtDoctype; stok_auto
theorem k_lexGohtUnescaped (l : L) : stOK (lexGohtUnescaped l).2 = true := by
  unfold lexGohtUnescaped; stok_auto
theorem k_lexGohtSilentScript (l : L) : stOK (lexGohtSilentScript l).2 = true := by
  unfold lexGohtSilentScript; stok_auto
theorem k_lexGohtOutputCode (l : L) : stOK (lexGohtOutputCode l).2 = true := by
  unfold lexGohtOutputCode; stok_auto
theorem k_lexComment (l : L) : stOK (lexComment l).2 = true := by
  unfold lexComment; stok_auto
theorem k_lexVoidTag (l : L) : stOK (lexVoidTag l).2 = true := by
  unfold lexVoidTag; stok_auto
theorem k_lexGohtCommandCode (l : L) : stOK (lexGohtCommandCode l).2 = true := by
  unfold lexGohtCommandCode; stok_auto
theorem k_lexFilterStart (l : L) : stOK (lexFilterStart l).2 = true := by
  unfold lexFilterStart; stok_auto
theorem k_lexGohtIndent (l : L) : stOK (lexGohtIndent l).2 = true := by
  unfold lexGohtIndent; stok_auto
theorem k_lexGohtStart (l : L) : stOK (lexGohtStart l).2 = true := by
  unfold lexGohtStart; stok_auto
theorem k_hamlIdentifier (t : TT) (l : L) : stOK (hamlIdentifier t l).2 = true := by
  unfold hamlIdentifier; stok_auto
theorem k_lexGohtAttributeName (l : L) : stOK (lexGohtAttributeName l).2 = true := by
  unfold lexGohtAttributeName; simp only []
  repeat' split
  all_goals first
    | exact stOK_errorf _ _
    | exact k_lexGohtAttributeNameTail _
theorem k_ignoreIndentedLines (n : Nat) (l : L) : stOK (ignoreIndentedLines n l).2 = true := by
  unfold ignoreIndentedLines; stok_auto
theorem k_dynamicText (t : TT) (ss : List Nat) (nx : St) (hnx : stOK nx = true) (l : L) : stOK (dynamicText t ss nx l).2 = true := by
  unfold dynamicText; simp only []
  repeat' split
  all_goals first
    | exact stOK_errorf _ _
    | exact hnx
theorem k_lexFilterLineStart (n : Nat) (t : TT) (h : isFrag t = false) (l : L) : stOK (lexFilterLineStart n t l).2 = true := by
  unfold lexFilterLineStart; simp only []
  repeat' split
  all_goals first
    | rfl
    | (simp only [stOK, h]; rfl)
theorem k_lexFilterIndent (n : Nat) (t : TT) (h : isFrag t = false) (l : L) : stOK (lexFilterIndent n t l).2 = true := by
  unfold lexFilterIndent; simp only []
  repeat' split
  all_goals first
    | rfl
    | (simp only [stOK, h]; rfl)
theorem k_lexFilterContent (n : Nat) (t : TT) (h : isFrag t = false) (l : L) : stOK (lexFilterContent n t l).2 = true := by
  unfold lexFilterContent; simp only []
  repeat' split
  all_goals first
    | rfl
    | (simp only [stOK, h]; rfl)

theorem stOK_filter {t : TT} (h : (!isFrag t) = true) : isFrag t = false := by simpa using h

theorem step_stOK (st : St) (l : L) (h : stOK st = true) : stOK (step st l).2 = true := by
  cases st <;> simp only [step]
  all_goals first
    | rfl
    | exact k_lexGoLineStart l | exact k_lexGoLineEnd l | exact k_lexPackage l | exact k_lexImportStart l | exact k_lexImports l
    | exact k_lexGoCode l | exact k_lexTemplate l | exact k_lexGohtStart l | exact k_lexGohtLineStart l | exact k_lexGohtIndent l
    | exact k_lexGohtContentStart l | exact k_lexGohtContent l | exact k_lexGohtContentEnd l | exact k_lexGohtLineEnd l | exact k_lexGohtNewLine l
    | exact k_hamlIdentifier _ l | exact k_lexObjectReference l | exact k_lexGohtAttributesStart l | exact k_lexGohtAttributesEnd l
    | exact k_lexGohtAttribute l | exact k_lexGohtAttributeName l | exact k_lexGohtAttributeOperator l | exact k_lexGohtAttributeValue l
    | exact k_lexGohtAttributeStaticValue l | exact k_lexGohtAttributeDynamicValue l | exact k_lexAttributeCommandStart l
    | exact k_lexGohtAttributeCommand l | exact k_lexGohtAttributeEnd l | exact k_lexWhitespaceRemoval l | exact k_lexGohtTextStart l
    | exact k_lexGohtTextContent l | exact k_dynamicText _ _ _ rfl l | exact k_lexGohtDoctype l | exact k_lexGohtUnescaped l
    | exact k_lexGohtSilentScript l | exact k_ignoreIndentedLines _ l | exact k_lexGohtOutputCode l | exact k_lexComment l
    | exact k_lexVoidTag l | exact k_lexGohtCommandCode l | exact k_lexFilterStart l
    | exact k_lexFilterLineStart _ _ (stOK_filter h) l | exact k_lexFilterIndent _ _ (stOK_filter h) l | exact k_lexFilterContent _ _ (stOK_filter h) l
    | exact k_dynamicText _ _ _ (by simpa [stOK] using h) l

theorem frag_goLineStart (hg : Good inp) (l : L) (h : SInv inp l) (ho : l.out = []) : FragOK inp (lexGoLineStart l).1 := by
  unfold lexGoLineStart
  simp only []
  have h1 := sinv_peek hg.wf l h
  have hf1 : FragOK inp (l.peek).1 := fragOK_eq (peek_out l) (fragOK_nil l ho)
  repeat' split
  all_goals first
    | exact fragOK_emitIfPending hg _ _ h1 hf1
    | exact hf1

theorem frag_package (hg : Good inp) (l : L) (h : SInv inp l) (ho : l.out = []) : FragOK inp (lexPackage l).1 := by
  unfold lexPackage
  simp only []
  have hf0 : FragOK inp l := fragOK_nil l ho
  split
  · exact fragOK_eq (acceptUntil_out _ _) hf0
  · have h2 := sinv_acceptUntil hg.wf _ Gen.lexPackage_acceptUntil1
      (snil_sinv _ (snil_skipRun hg.wf _ Gen.lexPackage_skipRun0 (snil_ignore _ (tinv_acceptUntil _ Gen.lexPackage_acceptUntil0 (sinv_tinv l h)))))
    have hf2 : FragOK inp (((l.acceptUntil Gen.lexPackage_acceptUntil0).ignore.skipRun Gen.lexPackage_skipRun0).acceptUntil Gen.lexPackage_acceptUntil1) :=
      fragOK_eq (by simp) hf0
    split
    · exact fragOK_errorf _ _ hf2
    · exact fragOK_emit hg _ _ h2 hf2

theorem frag_importStart (hg : Good inp) (l : L) (h : SInv inp l) (ho : l.out = []) : FragOK inp (lexImportStart l).1 := by
  unfold lexImportStart
  simp only []
  have hf0 : FragOK inp l := fragOK_nil l ho
  split
  · exact fragOK_eq (acceptUntil_out _ _) hf0
  · have h1 := snil_peek hg.wf _ (snil_ignore _ (tinv_skipRun _ Gen.lexImportStart_skipRun0 (tinv_acceptUntil _ Gen.lexImportStart_acceptUntil0 (sinv_tinv l h))))
    split
    · exact fragOK_eq (by simp) hf0
    · exact fragOK_eq (skipRun_out _ _) (fragOK_emit hg _ _ (sinv_acceptUntil hg.wf _ _ (snil_sinv _ h1)) (fragOK_eq (by simp) hf0))

theorem frag_imports (hg : Good inp) (l : L) (h : SNil inp l) (ho : l.out = []) : FragOK inp (lexImports l).1 := by
  unfold lexImports
  simp only []
  have hf0 : FragOK inp l := fragOK_nil l ho
  have h1 := snil_peek hg.wf _ (snil_skipRun hg.wf _ Gen.lexImports_skipRun0 h)
  have hf1 : FragOK inp ((l.skipRun Gen.lexImports_skipRun0).peek).1 := fragOK_eq (by simp) hf0
  split
  · exact fragOK_eq (skipRun_out _ _) hf1
  · split
    · exact fragOK_errorf _ _ hf1
    · have h2 := sinv_acceptUntil hg.wf _ Gen.lexImports_acceptUntil0 (snil_sinv _ h1)
      have hf2 := fragOK_eq (acceptUntil_out ((l.skipRun Gen.lexImports_skipRun0).peek).1 Gen.lexImports_acceptUntil0) hf1
      split
      · exact fragOK_errorf _ _ hf2
      · exact fragOK_emit hg _ _ h2 hf2

theorem frag_goCode (hg : Good inp) (l : L) (h : SInv inp l) (ho : l.out = []) : FragOK inp (lexGoCode l).1 := by
  unfold lexGoCode
  simp only []
  exact fragOK_emitIfPending hg _ _ (sinv_acceptUntil hg.wf _ _ h) (fragOK_eq (acceptUntil_out _ _) (fragOK_nil l ho))

theorem frag_gohtStart (hg : Good inp) (l : L) (h : TInv inp l) (ho : l.out = []) : FragOK inp (lexGohtStart l).1 := by
  unfold lexGohtStart
  have hs : ssumInv inp (gohtStartSig l) := by
    unfold gohtStartSig; simp only []
    apply sinv_gohtStartLoop hg.wf
    have h1 := sinv_acceptUntil hg.wf _ Gen.lexGohtStart_acceptUntil0
      (snil_sinv _ (snil_skipRun hg.wf _ Gen.lexGohtStart_skipRun0 ((snil_indent_iff _ 0).2 (snil_ignore _ h))))
    split
    · exact sinv_next1 hg.wf _ h1
    · exact h1
  have ho' : (sumL (gohtStartSig l)).out = [] := by rw [gohtStartSig_out]; exact ho
  split
  · rename_i l1 heq; rw [heq] at hs ho'
    exact fragOK_errorf _ _ (fragOK_nil _ ho')
  · rename_i l1 heq; rw [heq] at hs ho'
    simp only []
    refine fragOK_eq (skipRun_out _ _) (fragOK_eq (skipRun_out _ _) ?_)
    exact fragOK_emit hg _ _ (sinv_next1 hg.wf _ hs) (fragOK_eq (next_out _) (fragOK_nil _ ho'))

theorem tokAt_of_frag_ne_error {t : Tok} (hf : isFrag t.typ = true) : t.typ ≠ .error := by
  intro h; rw [h] at hf; cases hf

theorem frag_silent' (hg : Good inp) (l : L) (h : SNil inp l) (ho : l.out = []) : FragOK inp (lexGohtSilentScript l).1 := by
  unfold lexGohtSilentScript
  simp only []
  have h1 := snil_peek hg.wf _ (snil_skip hg.wf l h)
  split
  · exact fragOK_of_nf _ (nf_emit _ _ rfl (nf_skipUntil _ _ (nf_peek _ (nf_skip _ (nf_nil l ho)))))
  · exact fragOK_of_all _ (emit_mem hg _ _ (sinv_acceptUntil hg.wf _ _ (snil_sinv _ (snil_skipRun hg.wf _ _ h1))) (by simp [ho]))

/-- **one state invocation** — whatever fragment tokens it emits are where they say they are -/
theorem step_frag (hg : Good inp) (st : St) (l : L) (ht : TInv inp l) (hc : cleanSt st = true → SNil inp l)
    (hk : contigSt st = true → SInv inp l) (hs : stOK st = true) (ho : l.out = []) : FragOK inp (step st l).1 := by
  have hn := nf_nil l ho
  cases st <;> simp only [step]
  all_goals first
    | exact fragOK_of_nf _ hn
    | exact fragOK_of_all _ (frag_outputCode hg l (hc rfl) ho)
    | exact frag_silent' hg l (hc rfl) ho
    | exact (fun t hx hf => frag_objectRef hg l (hc rfl) ho t hx (tokAt_of_frag_ne_error hf))
    | exact (fun t hx hf => frag_attrDynamicValue hg l (hc rfl) ho t hx (tokAt_of_frag_ne_error hf))
    | exact (fun t hx hf => frag_attributesCommand hg l ht ho t hx (tokAt_of_frag_ne_error hf))
    | exact frag_dynamicText hg _ rfl _ _ l ht ho
    | exact frag_dynamicText hg _ (stOK_filter hs) _ _ l ht ho
    | exact frag_commandCode hg l ht ho
    | exact frag_goLineStart hg l (hk rfl) ho | exact frag_package hg l (hk rfl) ho | exact frag_importStart hg l (hk rfl) ho
    | exact frag_imports hg l (hc rfl) ho | exact frag_goCode hg l (hk rfl) ho | exact frag_gohtStart hg l ht ho
    | exact fragOK_of_nf _ (n_lexGoLineEnd l hn)
   
    | exact fragOK_of_nf _ (n_lexTemplate l hn) | exact fragOK_of_nf _ (n_lexGohtLineStart l hn)
    | exact fragOK_of_nf _ (n_lexGohtIndent l hn) | exact fragOK_of_nf _ (n_lexGohtContentStart l hn) | exact fragOK_of_nf _ (n_lexGohtContent l hn)
    | exact fragOK_of_nf _ (n_lexGohtContentEnd l hn) | exact fragOK_of_nf _ (n_lexGohtLineEnd l hn) | exact fragOK_of_nf _ (n_lexGohtNewLine l hn)
    | exact fragOK_of_nf _ (n_hamlIdentifier _ rfl l hn) | exact fragOK_of_nf _ (n_lexGohtAttributesStart l hn) | exact fragOK_of_nf _ (n_lexGohtAttributesEnd l hn)
    | exact fragOK_of_nf _ (n_lexGohtAttribute l hn) | exact fragOK_of_nf _ (n_lexGohtAttributeName l hn) | exact fragOK_of_nf _ (n_lexGohtAttributeOperator l hn)
    | exact fragOK_of_nf _ (n_lexGohtAttributeValue l hn) | exact fragOK_of_nf _ (n_lexGohtAttributeStaticValue l hn) | exact fragOK_of_nf _ (n_lexAttributeCommandStart l hn)
    | exact fragOK_of_nf _ (n_lexGohtAttributeEnd l hn) | exact fragOK_of_nf _ (n_lexWhitespaceRemoval l hn) | exact fragOK_of_nf _ (n_lexGohtTextStart l hn)
    | exact fragOK_of_nf _ (n_lexGohtTextContent l hn) | exact fragOK_of_nf _ (n_lexGohtDoctype l hn) | exact fragOK_of_nf _ (n_lexGohtUnescaped l hn)
    | exact fragOK_of_nf _ (n_ignoreIndentedLines _ l hn) | exact fragOK_of_nf _ (n_lexComment l hn) | exact fragOK_of_nf _ (n_lexVoidTag l hn)
    | exact fragOK_of_nf _ (n_lexFilterStart l hn) | exact fragOK_of_nf _ (n_lexFilterLineStart _ _ l hn) | exact fragOK_of_nf _ (n_lexFilterIndent _ _ l hn)
    | exact fragOK_of_nf _ (n_lexFilterContent _ _ (stOK_filter hs) l hn)

theorem run_frag (hg : Good inp) (n : Nat) (st : St) (l : L) (acc : List Tok) (ht : TInv inp l)
    (hc : cleanSt st = true → SNil inp l) (hk : contigSt st = true → SInv inp l) (hs : stOK st = true)
    (hacc : ∀ t ∈ acc, isFrag t.typ = true → TokAt inp t) :
    ∀ t ∈ (run n st l acc).toks, isFrag t.typ = true → TokAt inp t := by
  induction n generalizing st l acc with
  | zero => intro t ht'; simp only [run, List.mem_reverse] at ht'; exact hacc t ht'
  | succ n ih =>
    have ht0 : TInv inp { l with out := [] } := tinv_clear_out l ht
    have hc0 : cleanSt st = true → SNil inp { l with out := [] } := fun h => snil_clear_out l (hc h)
    have hk0 : contigSt st = true → SInv inp { l with out := [] } := fun h => sinv_clear_out l (hk h)
    have hstep := step_frag hg st { l with out := [] } ht0 hc0 hk0 hs rfl
    have hacc' : ∀ t ∈ (step st { l with out := [] }).1.out ++ acc, isFrag t.typ = true → TokAt inp t := by
      intro t hm hf
      rcases List.mem_append.mp hm with h1 | h2
      · exact hstep t h1 hf
      · exact hacc t h2 hf
    unfold run
    split
    · intro t ht'; simp only [List.mem_reverse] at ht'; exact hacc t ht'
    · simp only []
      split
      · intro t ht'; simp only [List.mem_reverse] at ht'; exact hacc t ht'
      · split
        · intro t ht'; simp only [List.mem_reverse] at ht'; exact hacc t ht'
        · split
          · intro t ht'; simp only [List.mem_reverse] at ht'; exact hacc t ht'
          · split
            · intro t ht'; simp only [List.mem_reverse] at ht'; exact hacc' t ht'
            · exact ih _ _ _ (step_tinv st _ ht0) (step_clean hg.wf st _ ht0 hc0) (step_contig hg.wf st _ ht0 hc0 hk0) (step_stOK st _ hs) hacc'

end GL
