import GohtVerif.Proofs.Lemmas.GoLit
import GohtVerif.Model.Lexer
/-! UTF-16 length is additive over concatenation when the left part is well-formed UTF-8
(`utf16Len` decodes its argument; a rune cut in two by the split point would be counted differently). -/
namespace GL

/-- fuel beyond the length of the string changes nothing -/
theorem decodeFuel_irrel : ∀ (n m : Nat) (s : GoStr), s.length ≤ n → s.length ≤ m → decodeFuel n s = decodeFuel m s := by
  intro n
  induction n with
  | zero =>
    intro m s hn _
    have : s = [] := List.eq_nil_of_length_eq_zero (by omega)
    subst this
    cases m <;> simp [decodeFuel, decode1]
  | succ n ih =>
    intro m s hn hm
    cases s with
    | nil => cases m <;> simp [decodeFuel, decode1]
    | cons b0 rest =>
      cases m with
      | zero => simp at hm
      | succ m =>
        obtain ⟨r, t, hd⟩ := decode1_cons b0 rest
        simp only [decodeFuel, hd]
        have hlt : t.length < (b0 :: rest).length := by
          rcases decode1_spec _ r t hd with ⟨b, hs, _⟩ | ⟨hs, _, _, hne, _⟩
          · rw [hs]; simp
          · have := congrArg List.length hs
            rw [List.length_append] at this
            have : 0 < r.enc.length := List.length_pos_iff.mpr hne
            omega
        congr 1
        exact ih m t (by simp only [List.length_cons] at hlt hn; omega) (by simp only [List.length_cons] at hlt hm; omega)

theorem decodeAll_cons (b0 : UInt8) (rest : GoStr) (r : Rune) (t : GoStr) (hd : decode1 (b0 :: rest) = some (r, t)) :
    decodeAll (b0 :: rest) = r :: decodeAll t := by
  have hlt : t.length ≤ rest.length := by
    rcases decode1_spec _ r t hd with ⟨b, hs, _⟩ | ⟨hs, _, _, hne, _⟩
    · simp only [List.cons.injEq] at hs; rw [hs.2]; omega
    · have := congrArg List.length hs
      rw [List.length_append, List.length_cons] at this
      have : 0 < r.enc.length := List.length_pos_iff.mpr hne
      omega
  unfold decodeAll
  simp only [List.length_cons, decodeFuel, hd]
  congr 1
  exact decodeFuel_irrel _ _ t hlt (Nat.le_refl _)

/-- re-encoding the decoded runes gives the bytes back: the string is well-formed UTF-8 -/
def ValidUtf8 (s : GoStr) : Prop := (decodeAll s).flatMap (·.enc) = s

theorem reenc_length_ge (n : Nat) : ∀ s : GoStr, s.length ≤ n → s.length ≤ ((decodeAll s).flatMap (·.enc)).length := by
  induction n with
  | zero => intro s h; have : s = [] := List.eq_nil_of_length_eq_zero (by omega); subst this; simp
  | succ n ih =>
    intro s h
    cases s with
    | nil => simp
    | cons b0 rest =>
      obtain ⟨r, t, hd⟩ := decode1_cons b0 rest
      rw [decodeAll_cons b0 rest r t hd]
      simp only [List.flatMap_cons, List.length_append]
      rcases decode1_spec _ r t hd with ⟨b, hs, hre⟩ | ⟨hs, _, _, hne, _, _, _⟩
      · simp only [List.cons.injEq] at hs
        have ht := ih t (by rw [← hs.2]; simp only [List.length_cons] at h; omega)
        rw [hre]; simp only [runeError, List.length_cons, List.length_nil]
        rw [← hs.2] at ht ⊢
        omega
      · have hl := congrArg List.length hs
        rw [List.length_append] at hl
        simp only [List.length_cons] at h hl ⊢
        have hp : 0 < r.enc.length := List.length_pos_iff.mpr hne
        have ht := ih t (by omega)
        omega

/-- a rune read from well-formed bytes is read the same whatever follows its encoding -/
theorem decode1_prefix (s : GoStr) (r : Rune) (t : GoStr) (h : decode1 s = some (r, t)) (hv : DecValid s r t) (x : GoStr) :
    decode1 (r.enc ++ x) = some (r, x) := by
  obtain ⟨hs, he, hval, hne, hnot, hhi, hw⟩ := hv
  -- the rune is determined by its code point: r = ⟨cp, |enc|, enc⟩ with enc = encodeRune cp
  have hlt : r.cp < 1114112 := by
    simp only [validRune, Bool.and_eq_true, decide_eq_true_eq] at hval; exact hval.1
  have hsur : ¬ (55296 ≤ r.cp ∧ r.cp < 57344) := by
    simp only [validRune, Bool.and_eq_true, decide_eq_true_eq, Bool.not_eq_true', Bool.and_eq_false_iff, decide_eq_false_iff_not] at hval
    omega
  have hr : r = { cp := r.cp, width := r.enc.length, enc := r.enc } := by
    cases r; simp only at hw ⊢; simp [hw]
  rw [hr, ← he]
  by_cases c1 : r.cp < 128
  · have e : encodeRune r.cp = [UInt8.ofNat r.cp] := encodeRune_ascii _ c1
    rw [e]
    have hb : (UInt8.ofNat r.cp) < 0x80 := by
      rw [UInt8.lt_iff_toNat_lt]; simp [Nat.mod_eq_of_lt (by omega : r.cp < 256)]; omega
    simp [decode1, hb, Nat.mod_eq_of_lt (by omega : r.cp < 256)]
  · by_cases c2 : r.cp < 2048
    · have e : encodeRune r.cp = [UInt8.ofNat (0xC0 + r.cp / 64), UInt8.ofNat (0x80 + r.cp % 64)] := by
        simp [encodeRune, c1, c2]
      rw [e]
      have t0 : (UInt8.ofNat (0xC0 + r.cp / 64)).toNat = 0xC0 + r.cp / 64 := by
        simp [Nat.mod_eq_of_lt (by omega : 0xC0 + r.cp / 64 < 256)]
      have t1 : (UInt8.ofNat (0x80 + r.cp % 64)).toNat = 0x80 + r.cp % 64 := by
        simp [Nat.mod_eq_of_lt (by omega : 0x80 + r.cp % 64 < 256)]
      have n0 : ¬ ((UInt8.ofNat (0xC0 + r.cp / 64)) < 0x80) := by rw [UInt8.lt_iff_toNat_lt, t0]; simp; omega
      have r0 : (0xC2 ≤ UInt8.ofNat (0xC0 + r.cp / 64) && UInt8.ofNat (0xC0 + r.cp / 64) ≤ 0xDF) = true := by
        simp only [Bool.and_eq_true, decide_eq_true_eq, UInt8.le_iff_toNat_le, t0]
        have a : (0xC2 : UInt8).toNat = 194 := rfl
        have b : (0xDF : UInt8).toNat = 223 := rfl
        rw [a, b]; omega
      have k1 : isCont (UInt8.ofNat (0x80 + r.cp % 64)) = true := by
        rw [cont_iff, t1]; omega
      have ecp : (0xC0 + r.cp / 64) % 32 * 64 + (0x80 + r.cp % 64) % 64 = r.cp := by omega
      simp only [List.cons_append, List.nil_append, decode1, n0, r0, k1, t0, t1, ecp, if_false, if_true, List.length_cons, List.length_nil]
    · by_cases c3 : r.cp < 65536
      · have e : encodeRune r.cp = [UInt8.ofNat (0xE0 + r.cp / 4096), UInt8.ofNat (0x80 + r.cp / 64 % 64), UInt8.ofNat (0x80 + r.cp % 64)] := by
          simp [encodeRune, c1, c2, c3]
        rw [e]
        have t0 : (UInt8.ofNat (0xE0 + r.cp / 4096)).toNat = 0xE0 + r.cp / 4096 := by
          simp [Nat.mod_eq_of_lt (by omega : 0xE0 + r.cp / 4096 < 256)]
        have t1 : (UInt8.ofNat (0x80 + r.cp / 64 % 64)).toNat = 0x80 + r.cp / 64 % 64 := by
          simp [Nat.mod_eq_of_lt (by omega : 0x80 + r.cp / 64 % 64 < 256)]
        have t2 : (UInt8.ofNat (0x80 + r.cp % 64)).toNat = 0x80 + r.cp % 64 := by
          simp [Nat.mod_eq_of_lt (by omega : 0x80 + r.cp % 64 < 256)]
        have n0 : ¬ ((UInt8.ofNat (0xE0 + r.cp / 4096)) < 0x80) := by rw [UInt8.lt_iff_toNat_lt, t0]; simp; omega
        have n1 : (0xC2 ≤ UInt8.ofNat (0xE0 + r.cp / 4096) && UInt8.ofNat (0xE0 + r.cp / 4096) ≤ 0xDF) = false := by
          rw [Bool.eq_false_iff]; intro hh
          simp only [Bool.and_eq_true, decide_eq_true_eq, UInt8.le_iff_toNat_le, t0] at hh
          have b : (0xDF : UInt8).toNat = 223 := rfl
          rw [b] at hh; omega
        have r0 : (0xE0 ≤ UInt8.ofNat (0xE0 + r.cp / 4096) && UInt8.ofNat (0xE0 + r.cp / 4096) ≤ 0xEF) = true := by
          simp only [Bool.and_eq_true, decide_eq_true_eq, UInt8.le_iff_toNat_le, t0]
          have a : (0xE0 : UInt8).toNat = 224 := rfl
          have b : (0xEF : UInt8).toNat = 239 := rfl
          rw [a, b]; omega
        have k2 : isCont (UInt8.ofNat (0x80 + r.cp % 64)) = true := by rw [cont_iff, t2]; omega
        have eE0 : (UInt8.ofNat (0xE0 + r.cp / 4096) = 0xE0) ↔ r.cp / 4096 = 0 := by
          have hq : (UInt8.ofNat (0xE0 + r.cp / 4096) = 0xE0) ↔ (UInt8.ofNat (0xE0 + r.cp / 4096)).toNat = 0xE0 := u8_eq_iff _ 0xE0 (by decide)
          rw [hq, t0]; omega
        have eED : (UInt8.ofNat (0xE0 + r.cp / 4096) = 0xED) ↔ r.cp / 4096 = 13 := by
          have hq : (UInt8.ofNat (0xE0 + r.cp / 4096) = 0xED) ↔ (UInt8.ofNat (0xE0 + r.cp / 4096)).toNat = 0xED := u8_eq_iff _ 0xED (by decide)
          rw [hq, t0]; omega
        have kb1 : (decide ((if UInt8.ofNat (0xE0 + r.cp / 4096) = 0xE0 then (0xA0 : UInt8) else 0x80) ≤ UInt8.ofNat (0x80 + r.cp / 64 % 64)) &&
            decide (UInt8.ofNat (0x80 + r.cp / 64 % 64) ≤ (if UInt8.ofNat (0xE0 + r.cp / 4096) = 0xED then (0x9F : UInt8) else 0xBF))) = true := by
          simp only [Bool.and_eq_true, decide_eq_true_eq, UInt8.le_iff_toNat_le, ite_toNat, t1]
          constructor
          · by_cases c : UInt8.ofNat (0xE0 + r.cp / 4096) = 0xE0
            · rw [if_pos c]; have := eE0.1 c; have a : (0xA0 : UInt8).toNat = 160 := rfl; rw [a]; omega
            · rw [if_neg c]; have a : (0x80 : UInt8).toNat = 128 := rfl; rw [a]; omega
          · by_cases c : UInt8.ofNat (0xE0 + r.cp / 4096) = 0xED
            · rw [if_pos c]; have := eED.1 c; have a : (0x9F : UInt8).toNat = 159 := rfl; rw [a]; omega
            · rw [if_neg c]; have a : (0xBF : UInt8).toNat = 191 := rfl; rw [a]; omega
        have ecp : (0xE0 + r.cp / 4096) % 16 * 4096 + (0x80 + r.cp / 64 % 64) % 64 * 64 + (0x80 + r.cp % 64) % 64 = r.cp := by omega
        simp only [List.cons_append, List.nil_append, decode1, n0, n1, r0, kb1, k2, t0, t1, t2, ecp, Bool.false_eq_true, if_false, if_true,
          Bool.and_self, Bool.true_and, List.length_cons, List.length_nil]
      · have e : encodeRune r.cp = [UInt8.ofNat (0xF0 + r.cp / 262144), UInt8.ofNat (0x80 + r.cp / 4096 % 64),
            UInt8.ofNat (0x80 + r.cp / 64 % 64), UInt8.ofNat (0x80 + r.cp % 64)] := by
          simp [encodeRune, c1, c2, c3]
        rw [e]
        have t0 : (UInt8.ofNat (0xF0 + r.cp / 262144)).toNat = 0xF0 + r.cp / 262144 := by
          simp [Nat.mod_eq_of_lt (by omega : 0xF0 + r.cp / 262144 < 256)]
        have t1 : (UInt8.ofNat (0x80 + r.cp / 4096 % 64)).toNat = 0x80 + r.cp / 4096 % 64 := by
          simp [Nat.mod_eq_of_lt (by omega : 0x80 + r.cp / 4096 % 64 < 256)]
        have t2 : (UInt8.ofNat (0x80 + r.cp / 64 % 64)).toNat = 0x80 + r.cp / 64 % 64 := by
          simp [Nat.mod_eq_of_lt (by omega : 0x80 + r.cp / 64 % 64 < 256)]
        have t3 : (UInt8.ofNat (0x80 + r.cp % 64)).toNat = 0x80 + r.cp % 64 := by
          simp [Nat.mod_eq_of_lt (by omega : 0x80 + r.cp % 64 < 256)]
        have n0 : ¬ ((UInt8.ofNat (0xF0 + r.cp / 262144)) < 0x80) := by rw [UInt8.lt_iff_toNat_lt, t0]; simp; omega
        have n1 : (0xC2 ≤ UInt8.ofNat (0xF0 + r.cp / 262144) && UInt8.ofNat (0xF0 + r.cp / 262144) ≤ 0xDF) = false := by
          rw [Bool.eq_false_iff]; intro hh
          simp only [Bool.and_eq_true, decide_eq_true_eq, UInt8.le_iff_toNat_le, t0] at hh
          have b : (0xDF : UInt8).toNat = 223 := rfl
          rw [b] at hh; omega
        have n2 : (0xE0 ≤ UInt8.ofNat (0xF0 + r.cp / 262144) && UInt8.ofNat (0xF0 + r.cp / 262144) ≤ 0xEF) = false := by
          rw [Bool.eq_false_iff]; intro hh
          simp only [Bool.and_eq_true, decide_eq_true_eq, UInt8.le_iff_toNat_le, t0] at hh
          have b : (0xEF : UInt8).toNat = 239 := rfl
          rw [b] at hh; omega
        have r0 : (0xF0 ≤ UInt8.ofNat (0xF0 + r.cp / 262144) && UInt8.ofNat (0xF0 + r.cp / 262144) ≤ 0xF4) = true := by
          simp only [Bool.and_eq_true, decide_eq_true_eq, UInt8.le_iff_toNat_le, t0]
          have a : (0xF0 : UInt8).toNat = 240 := rfl
          have b : (0xF4 : UInt8).toNat = 244 := rfl
          rw [a, b]; omega
        have k2 : isCont (UInt8.ofNat (0x80 + r.cp / 64 % 64)) = true := by rw [cont_iff, t2]; omega
        have k3 : isCont (UInt8.ofNat (0x80 + r.cp % 64)) = true := by rw [cont_iff, t3]; omega
        have eF0 : (UInt8.ofNat (0xF0 + r.cp / 262144) = 0xF0) ↔ r.cp / 262144 = 0 := by
          have hq : (UInt8.ofNat (0xF0 + r.cp / 262144) = 0xF0) ↔ (UInt8.ofNat (0xF0 + r.cp / 262144)).toNat = 0xF0 := u8_eq_iff _ 0xF0 (by decide)
          rw [hq, t0]; omega
        have eF4 : (UInt8.ofNat (0xF0 + r.cp / 262144) = 0xF4) ↔ r.cp / 262144 = 4 := by
          have hq : (UInt8.ofNat (0xF0 + r.cp / 262144) = 0xF4) ↔ (UInt8.ofNat (0xF0 + r.cp / 262144)).toNat = 0xF4 := u8_eq_iff _ 0xF4 (by decide)
          rw [hq, t0]; omega
        have kb1 : (decide ((if UInt8.ofNat (0xF0 + r.cp / 262144) = 0xF0 then (0x90 : UInt8) else 0x80) ≤ UInt8.ofNat (0x80 + r.cp / 4096 % 64)) &&
            decide (UInt8.ofNat (0x80 + r.cp / 4096 % 64) ≤ (if UInt8.ofNat (0xF0 + r.cp / 262144) = 0xF4 then (0x8F : UInt8) else 0xBF))) = true := by
          simp only [Bool.and_eq_true, decide_eq_true_eq, UInt8.le_iff_toNat_le, ite_toNat, t1]
          constructor
          · by_cases c : UInt8.ofNat (0xF0 + r.cp / 262144) = 0xF0
            · rw [if_pos c]; have := eF0.1 c; have a : (0x90 : UInt8).toNat = 144 := rfl; rw [a]; omega
            · rw [if_neg c]; have a : (0x80 : UInt8).toNat = 128 := rfl; rw [a]; omega
          · by_cases c : UInt8.ofNat (0xF0 + r.cp / 262144) = 0xF4
            · rw [if_pos c]; have := eF4.1 c; have a : (0x8F : UInt8).toNat = 143 := rfl; rw [a]; omega
            · rw [if_neg c]; have a : (0xBF : UInt8).toNat = 191 := rfl; rw [a]; omega
        have ecp : (0xF0 + r.cp / 262144) % 8 * 262144 + (0x80 + r.cp / 4096 % 64) % 64 * 4096 + (0x80 + r.cp / 64 % 64) % 64 * 64 +
            (0x80 + r.cp % 64) % 64 = r.cp := by omega
        simp only [List.cons_append, List.nil_append, decode1, n0, n1, n2, r0, kb1, k2, k3, t0, t1, t2, t3, ecp, Bool.false_eq_true, if_false, if_true,
          Bool.and_self, Bool.true_and, List.length_cons, List.length_nil]

/-- decoding distributes over concatenation when the left part is well-formed -/
theorem decodeAll_append (n : Nat) : ∀ (a b : GoStr), a.length ≤ n → ValidUtf8 a → decodeAll (a ++ b) = decodeAll a ++ decodeAll b := by
  induction n with
  | zero =>
    intro a b h _
    have : a = [] := List.eq_nil_of_length_eq_zero (by omega)
    subst this
    simp [decodeAll, decodeFuel]
  | succ n ih =>
    intro a b h hv
    cases a with
    | nil => simp [decodeAll, decodeFuel]
    | cons b0 rest =>
      obtain ⟨r, t, hd⟩ := decode1_cons b0 rest
      have hcons := decodeAll_cons b0 rest r t hd
      unfold ValidUtf8 at hv
      rw [hcons, List.flatMap_cons] at hv
      rcases decode1_spec _ r t hd with ⟨b1, hs, hre⟩ | hval
      · -- the first byte is not UTF-8: re-encoding is longer than the input
        exfalso
        simp only [List.cons.injEq] at hs
        have h1 := reenc_length_ge t.length t (Nat.le_refl _)
        have h2 := congrArg List.length hv
        rw [hre] at h2
        simp only [runeError, List.length_append, List.length_cons, List.length_nil] at h2
        rw [← hs.2] at h1 h2
        omega
      · have hs := hval.1
        have hvt : ValidUtf8 t := by
          unfold ValidUtf8
          rw [hs] at hv
          exact List.append_cancel_left hv
        have hlen : t.length ≤ n := by
          have hl := congrArg List.length hs
          rw [List.length_append] at hl
          have hp : 0 < r.enc.length := List.length_pos_iff.mpr hval.2.2.2.1
          simp only [List.length_cons] at h hl
          omega
        have hd2 : decode1 (b0 :: rest ++ b) = some (r, t ++ b) := by
          rw [hs, List.append_assoc]
          exact decode1_prefix _ r t hd hval (t ++ b)
        have hne : ∃ c cs, b0 :: rest ++ b = c :: cs := ⟨b0, rest ++ b, rfl⟩
        rw [List.cons_append] at hd2 ⊢
        rw [decodeAll_cons b0 (rest ++ b) r (t ++ b) hd2, hcons, ih t b hlen hvt]
        rfl

/-- **UTF-16 length is additive** when the left part is well-formed UTF-8 -/
theorem utf16Len_append (a b : GoStr) (hv : ValidUtf8 a) : utf16Len (a ++ b) = utf16Len a + utf16Len b := by
  unfold utf16Len
  rw [decodeAll_append a.length a b (Nat.le_refl _) hv]
  simp [List.map_append, List.sum_append]

end GL
