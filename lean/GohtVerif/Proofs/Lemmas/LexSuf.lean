import GohtVerif.Proofs.Lemmas.LexPos
import GohtVerif.Proofs.Lemmas.LexOut
/-! `Suf`: the pending literal is exactly the input text in front of the cursor.  Preserved by `next` and by
`backup` after `next` (hence by the accept-loops and the bracket matcher); established by `ignore`, `emit`, and
kept by the skip-loops when the literal is empty.  Needs an input whose runes kept the width of their encoding
(`WF`, true of valid UTF-8): `skip` and `backup` cut `width` bytes off the literal. -/
namespace GL
variable {inp : List Rune}

def WF (inp : List Rune) : Prop := ∀ r ∈ inp, r.width = r.enc.length

def Suf (inp : List Rune) (l : L) : Prop := ∃ pre sr, inp = pre ++ sr ++ l.cur.rest ∧ l.s = encAll sr

def SInv (inp : List Rune) (l : L) : Prop := TInv inp l ∧ Suf inp l

theorem suf_of_nil (l : L) (h : TInv inp l) (hs : l.s = []) : SInv inp l := by
  refine ⟨h, ?_⟩
  obtain ⟨_, done, hin, _, _⟩ := h.2
  exact ⟨done, [], by simpa using hin, by simp [hs, encAll]⟩

theorem sinv_next (l : L) (h : SInv inp l) : SInv inp (l.next).1 ∧ JustRead (l.next).1 := by
  have hn := tinv_next l h.1
  refine ⟨⟨hn.1, ?_⟩, hn.2⟩
  obtain ⟨pre, sr, hin, hs⟩ := h.2
  unfold L.next Cur.next
  cases hrest : l.cur.rest with
  | nil => exact ⟨pre, sr, by simpa [hrest] using hin, hs⟩
  | cons r rs =>
    simp only []
    exact ⟨pre, sr ++ [r], by simp [hin, hrest], by simp [hs, encAll]⟩

theorem backup_fields (l : L) (r : Rune) (hw0 : l.width ≠ 0) (hl : l.cur.last = some r) (hlen : l.width ≤ l.s.length) :
    l.backup.s = l.s.take (l.s.length - l.width) ∧ l.backup.cur.rest = r :: l.cur.rest := by
  unfold L.backup
  simp only [hw0, if_false]
  have hun : (unbumpPos l).cur.unread = some { rest := r :: l.cur.rest, last := none } := by
    rw [unbumpPos_cur]; simp [Cur.unread, hl]
  have hs : (unbumpPos l).s = l.s := by unfold unbumpPos; simp only []; split <;> rfl
  have hwd : (unbumpPos l).width = l.width := by unfold unbumpPos; simp only []; split <;> rfl
  simp only [hun]
  unfold L.dropS
  simp only [hs, hwd]
  have : ¬ (l.s.length < l.width) := by omega
  simp [this]

theorem sinv_backup (hwf : WF inp) (l : L) (h : SInv inp l) (hj : JustRead l) : SInv inp l.backup := by
  refine ⟨tinv_backup l h.1 hj, ?_⟩
  by_cases hw0 : l.width = 0
  · have : l.backup = l := by unfold L.backup; simp [hw0]
    rw [this]; exact h.2
  · rcases hj with h0 | ⟨r, s0, hl, hw, hs, _⟩
    · exact absurd h0 hw0
    obtain ⟨pre, sr, hin, hsuf⟩ := h.2
    obtain ⟨hu, done, hind, _, hlast⟩ := h.1.2
    obtain ⟨d0, hd0⟩ := hlast r hl
    have hrk := h.1.1.2.2.1.2 r hl
    have hrin : r ∈ inp := by rw [hind, hd0]; simp
    have hwl : r.width = r.enc.length := hwf r hrin
    have hdone : pre ++ sr = d0 ++ [r] := by
      have : (pre ++ sr) ++ l.cur.rest = done ++ l.cur.rest := by rw [← hin, ← hind]
      rw [← hd0]; exact List.append_cancel_right this
    have hne : r.enc ≠ [] := by
      intro he; have := hrk.1; rw [hwl, he] at this; simp at this
    -- the literal is not empty, so it ends with the rune just read
    rcases List.eq_nil_or_concat sr with hnil | ⟨sr0, r', hsr⟩
    · subst hnil
      rw [hsuf] at hs
      simp only [encAll, List.flatMap_nil] at hs
      have : r.enc = [] := (List.append_eq_nil_iff.mp hs.symm).2
      exact absurd this hne
    · rw [List.concat_eq_append] at hsr
      subst hsr
      have h2 : (pre ++ sr0) ++ [r'] = d0 ++ [r] := by simpa [List.append_assoc] using hdone
      have hr' : r' = r := by
        have := List.append_inj_right' h2 rfl
        simpa using this
      have hpre : pre ++ sr0 = d0 := List.append_inj_left' h2 rfl
      subst hr'
      have hs0 : encAll sr0 = s0 := by
        have : encAll sr0 ++ r'.enc = s0 ++ r'.enc := by rw [← hs, hsuf, encAll_append]; simp [encAll]
        exact List.append_cancel_right this
      have hlen : l.width ≤ l.s.length := by rw [hw, hs, List.length_append, hwl]; omega
      obtain ⟨hbs, hbr⟩ := backup_fields l r' hw0 hl hlen
      refine ⟨pre, sr0, ?_, ?_⟩
      · rw [hbr, hin]; simp
      · rw [hbs, hs, hw, hwl, hs0]; simp

end GL
