import GohtVerif.Proofs.Lemmas.LexTrackPrims
/-! every lexer state function preserves `TInv`: the scripts of LexSafeStates.lean, run for the stronger invariant -/
namespace GL
variable {inp : List Rune}
theorem tinv_peek_eq {l l1 : L} {c : Nat} (h : TInv inp l) (e : l.peek = (l1, c)) : TInv inp l1 := by
  have := tinv_peek l h; rw [e] at this; exact this
theorem tinv_skip_eq {l l1 : L} {c : Nat} (h : TInv inp l) (e : l.skip = (l1, c)) : TInv inp l1 := by
  have := tinv_skip l h; rw [e] at this; exact this
theorem tinv_peekAhead_eq {l l1 : L} {n : Nat} {s : GoStr} (h : TInv inp l) (e : l.peekAhead n = (l1, s)) : TInv inp l1 := by
  have := tinv_peekAhead l n h; rw [e] at this; exact this
theorem tinv_quote_eq {l l1 : L} {t : TT} {b : Bool} {c : Nat} (h : TInv inp l) (e : l.continueToMatchingQuote t b = (l1, c)) : TInv inp l1 := by
  have := tinv_quote l t b h; rw [e] at this; exact this

theorem tinv_indent_iff (l : L) (n : Nat) : TInv inp { l with indent := n } ↔ TInv inp l := Iff.rfl

attribute [local irreducible] L.peek L.skip L.next L.backup L.dropS L.acceptRun L.acceptUntil L.skipRun L.skipUntil L.emit L.errorf emitIfPending L.peekAhead L.ignore L.skipAhead L.continueToMatchingBrace L.continueToMatchingQuote TInv Inv Track

macro "tinv_step" : tactic => `(tactic| first
  | assumption
  | refine tinv_emit _ _ ?_
  | refine tinv_emitIfPending _ _ ?_
  | refine tinv_errorf _ _ ?_
  | refine tinv_skip _ ?_
  | refine tinv_next1 _ ?_
  | refine tinv_ignore _ ?_
  | refine tinv_peekAhead _ _ ?_
  | refine tinv_acceptRun _ _ ?_
  | refine tinv_acceptUntil _ _ ?_
  | refine tinv_skipRun _ _ ?_
  | refine tinv_skipUntil _ _ ?_
  | refine tinv_skipAhead _ _ ?_
  | refine tinv_peek _ ?_
  | refine tinv_quote _ _ _ ?_
  | refine tinv_peek_eq ?_ (by assumption)
  | refine tinv_skip_eq ?_ (by assumption)
  | refine tinv_peekAhead_eq ?_ (by assumption)
  | refine tinv_quote_eq ?_ (by assumption))

macro "tinv_auto" : tactic => `(tactic| (simp only []; (repeat' split) <;> (try simp only [tinv_indent_iff]) <;> (repeat tinv_step)))

theorem t_lexGoLineStart (l : L) (h : TInv inp l) : TInv inp (lexGoLineStart l).1 := by
  unfold lexGoLineStart; tinv_auto
theorem t_lexGoLineEnd (l : L) (h : TInv inp l) : TInv inp (lexGoLineEnd l).1 := by
  unfold lexGoLineEnd; tinv_auto
theorem t_lexPackage (l : L) (h : TInv inp l) : TInv inp (lexPackage l).1 := by
  unfold lexPackage; tinv_auto
theorem t_lexImportStart (l : L) (h : TInv inp l) : TInv inp (lexImportStart l).1 := by
  unfold lexImportStart; tinv_auto
theorem t_lexImports (l : L) (h : TInv inp l) : TInv inp (lexImports l).1 := by
  unfold lexImports; tinv_auto
theorem t_lexGoCode (l : L) (h : TInv inp l) : TInv inp (lexGoCode l).1 := by
  unfold lexGoCode; tinv_auto
theorem t_lexTemplate (l : L) (h : TInv inp l) : TInv inp (lexTemplate l).1 := by
  unfold lexTemplate; tinv_auto
theorem t_lexGohtLineStart (l : L) (h : TInv inp l) : TInv inp (lexGohtLineStart l).1 := by
  unfold lexGohtLineStart; tinv_auto
theorem t_lexGohtContentStart (l : L) (h : TInv inp l) : TInv inp (lexGohtContentStart l).1 := by
  unfold lexGohtContentStart; tinv_auto
theorem t_lexGohtContent (l : L) (h : TInv inp l) : TInv inp (lexGohtContent l).1 := by
  unfold lexGohtContent; tinv_auto
theorem t_lexGohtContentEnd (l : L) (h : TInv inp l) : TInv inp (lexGohtContentEnd l).1 := by
  unfold lexGohtContentEnd; tinv_auto
theorem t_lexGohtLineEnd (l : L) (h : TInv inp l) : TInv inp (lexGohtLineEnd l).1 := by
  unfold lexGohtLineEnd; tinv_auto
theorem t_lexGohtNewLine (l : L) (h : TInv inp l) : TInv inp (lexGohtNewLine l).1 := by
  unfold lexGohtNewLine; tinv_auto
theorem t_lexGohtAttributesStart (l : L) (h : TInv inp l) : TInv inp (lexGohtAttributesStart l).1 := by
  unfold lexGohtAttributesStart; tinv_auto
theorem t_lexGohtAttributesEnd (l : L) (h : TInv inp l) : TInv inp (lexGohtAttributesEnd l).1 := by
  unfold lexGohtAttributesEnd; tinv_auto
theorem t_lexGohtAttribute (l : L) (h : TInv inp l) : TInv inp (lexGohtAttribute l).1 := by
  unfold lexGohtAttribute; tinv_auto
theorem t_lexGohtAttributeNameTail (l : L) (h : TInv inp l) : TInv inp (lexGohtAttributeNameTail l).1 := by
  unfold lexGohtAttributeNameTail; tinv_auto
theorem t_lexGohtAttributeOperator (l : L) (h : TInv inp l) : TInv inp (lexGohtAttributeOperator l).1 := by
  unfold lexGohtAttributeOperator; tinv_auto
theorem t_lexGohtAttributeValue (l : L) (h : TInv inp l) : TInv inp (lexGohtAttributeValue l).1 := by
  unfold lexGohtAttributeValue; tinv_auto
theorem t_lexGohtAttributeStaticValue (l : L) (h : TInv inp l) : TInv inp (lexGohtAttributeStaticValue l).1 := by
  unfold lexGohtAttributeStaticValue; tinv_auto
theorem t_lexAttributeCommandStart (l : L) (h : TInv inp l) : TInv inp (lexAttributeCommandStart l).1 := by
  unfold lexAttributeCommandStart; tinv_auto
theorem t_lexGohtAttributeEnd (l : L) (h : TInv inp l) : TInv inp (lexGohtAttributeEnd l).1 := by
  unfold lexGohtAttributeEnd; tinv_auto
theorem t_lexWhitespaceRemoval (l : L) (h : TInv inp l) : TInv inp (lexWhitespaceRemoval l).1 := by
  unfold lexWhitespaceRemoval; tinv_auto
theorem t_lexGohtTextStart (l : L) (h : TInv inp l) : TInv inp (lexGohtTextStart l).1 := by
  unfold lexGohtTextStart; tinv_auto
theorem t_lexGohtTextContent (l : L) (h : TInv inp l) : TInv inp (lexGohtTextContent l).1 := by
  unfold lexGohtTextContent; tinv_auto
theorem t_lexGohtDoctype (l : L) (h : TInv inp l) : TInv inp (lexGohtDoctype l).1 := by
  unfold lexGohtDoctype; tinv_auto
theorem t_lexGohtUnescaped (l : L) (h : TInv inp l) : TInv inp (lexGohtUnescaped l).1 := by
  unfold lexGohtUnescaped; tinv_auto
theorem t_lexGohtSilentScript (l : L) (h : TInv inp l) : TInv inp (lexGohtSilentScript l).1 := by
  unfold lexGohtSilentScript; tinv_auto
theorem t_lexGohtOutputCode (l : L) (h : TInv inp l) : TInv inp (lexGohtOutputCode l).1 := by
  unfold lexGohtOutputCode; tinv_auto
theorem t_lexComment (l : L) (h : TInv inp l) : TInv inp (lexComment l).1 := by
  unfold lexComment; tinv_auto
theorem t_lexVoidTag (l : L) (h : TInv inp l) : TInv inp (lexVoidTag l).1 := by
  unfold lexVoidTag; tinv_auto
theorem t_lexGohtCommandCode (l : L) (h : TInv inp l) : TInv inp (lexGohtCommandCode l).1 := by
  unfold lexGohtCommandCode; tinv_auto
theorem t_lexFilterStart (l : L) (h : TInv inp l) : TInv inp (lexFilterStart l).1 := by
  unfold lexFilterStart; tinv_auto

theorem t_hamlIdentifier (t : TT) (l : L) (h : TInv inp l) : TInv inp (hamlIdentifier t l).1 := by
  unfold hamlIdentifier; tinv_auto
theorem t_lexGohtAttributeName (l : L) (h : TInv inp l) : TInv inp (lexGohtAttributeName l).1 := by
  unfold lexGohtAttributeName; simp only []
  repeat' split
  all_goals (try refine t_lexGohtAttributeNameTail _ ?_)
  all_goals repeat tinv_step
theorem t_lexFilterLineStart (n : Nat) (t : TT) (l : L) (h : TInv inp l) : TInv inp (lexFilterLineStart n t l).1 := by
  unfold lexFilterLineStart; tinv_auto
theorem t_lexFilterIndent (n : Nat) (t : TT) (l : L) (h : TInv inp l) : TInv inp (lexFilterIndent n t l).1 := by
  unfold lexFilterIndent; tinv_auto
theorem t_lexFilterContent (n : Nat) (t : TT) (l : L) (h : TInv inp l) : TInv inp (lexFilterContent n t l).1 := by
  unfold lexFilterContent; tinv_auto

/-- states that put back the closing bracket: `backup()` directly after the `next()` that found it -/
theorem tinv_brace_backup (l : L) (e : Nat) (h : TInv inp l) (hne : ((l.continueToMatchingBrace e).2 == eof) = false) :
    TInv inp (l.continueToMatchingBrace e).1.backup := by
  have := tinv_brace l e h
  exact tinv_backup _ this.1 (this.2 (by simpa using hne))

theorem t_lexObjectReference (l : L) (h : TInv inp l) : TInv inp (lexObjectReference l).1 := by
  unfold lexObjectReference; simp only []
  split
  · exact tinv_errorf _ _ (tinv_brace _ _ (tinv_skip _ h)).1
  · rename_i hne
    exact tinv_skip _ (tinv_emit _ _ (tinv_brace_backup _ _ (tinv_skip _ h) (by simpa using hne)))

theorem t_lexGohtAttributeDynamicValue (l : L) (h : TInv inp l) : TInv inp (lexGohtAttributeDynamicValue l).1 := by
  unfold lexGohtAttributeDynamicValue; simp only []
  have h1 := tinv_peek _ (tinv_skip _ h)
  split
  · exact tinv_errorf _ _ h1
  · split
    · exact tinv_errorf _ _ (tinv_brace _ _ (tinv_skip _ h1)).1
    · rename_i hne
      exact tinv_skip _ (tinv_emit _ _ (tinv_brace_backup _ _ (tinv_skip _ h1) (by simpa using hne)))

theorem t_lexGohtAttributeCommand (l : L) (h : TInv inp l) : TInv inp (lexGohtAttributeCommand l).1 := by
  unfold lexGohtAttributeCommand; simp only []
  have h1 := tinv_skip _ (tinv_skipUntil _ Gen.lexGohtAttributeCommand_skipUntil1 (tinv_skipUntil _ Gen.lexGohtAttributeCommand_skipUntil0 (tinv_ignore _ h)))
  split
  · exact tinv_errorf _ _ (tinv_brace _ _ h1).1
  · rename_i hne
    exact tinv_skip _ (tinv_emit _ _ (tinv_brace_backup _ _ h1 (by simpa using hne)))

theorem t_dynamicText (t : TT) (ss : List Nat) (nx : St) (l : L) (h : TInv inp l) : TInv inp (dynamicText t ss nx l).1 := by
  unfold dynamicText; simp only []
  have h0 := tinv_peekAhead l 2 h
  split
  · exact tinv_next1 _ h0
  · have h1 := tinv_skipRun _ ss (tinv_emitIfPending _ t h0)
    split
    · exact tinv_errorf _ _ (tinv_brace _ _ h1).1
    · rename_i hne
      exact tinv_skip _ (tinv_emit _ _ (tinv_brace_backup _ _ h1 (by simpa using hne)))

theorem t_lexGohtIndent (l : L) (h : TInv inp l) : TInv inp (lexGohtIndent l).1 := by
  unfold lexGohtIndent; simp only []
  have h1 := tinv_acceptRun l Gen.lexGohtIndent_acceptRun0 h
  split
  · exact tinv_errorf _ _ h1
  · split
    · exact tinv_emit _ _ ((tinv_indent_iff _ _).2 h1)
    · split
      · rename_i r hv; exact tinv_validateIndent _ _ r h1 hv
      · exact tinv_emit _ _ ((tinv_indent_iff _ _).2 h1)

theorem t_ignoreIndentedLines (n : Nat) (l : L) (h : TInv inp l) : TInv inp (ignoreIndentedLines n l).1 := by
  unfold ignoreIndentedLines; simp only []
  have h1 := tinv_peek l h
  split
  · exact tinv_skip _ h1
  · split
    · have h2 := tinv_peekAhead _ n h1
      split
      · exact h2
      · split
        · rename_i r hv; exact tinv_validateIndent _ _ r h2 hv
        · exact tinv_skipUntil _ _ h2
    · split
      · exact tinv_emit _ _ h1
      · exact h1

theorem t_lexGohtStart (l : L) (h : TInv inp l) : TInv inp (lexGohtStart l).1 := by
  unfold lexGohtStart
  have hs : tsumInv inp (gohtStartSig l) := by
    unfold gohtStartSig; simp only []
    apply tinv_gohtStartLoop
    have h1 := tinv_acceptUntil _ Gen.lexGohtStart_acceptUntil0 (tinv_skipRun _ Gen.lexGohtStart_skipRun0 ((tinv_indent_iff _ 0).2 (tinv_ignore _ h)))
    split
    · exact tinv_next1 _ h1
    · exact h1
  split
  · rename_i l1 heq; rw [heq] at hs; exact tinv_errorf _ _ hs
  · rename_i l1 heq; rw [heq] at hs
    simp only []
    exact tinv_skipRun _ _ (tinv_skipRun _ _ (tinv_emit _ _ (tinv_next1 _ hs)))

/-- **every state function preserves the invariant** -/
theorem step_tinv (st : St) (l : L) (h : TInv inp l) : TInv inp (step st l).1 := by
  cases st <;> simp only [step]
  all_goals first
    | exact h
    | exact t_lexGoLineStart l h | exact t_lexGoLineEnd l h | exact t_lexPackage l h | exact t_lexImportStart l h
    | exact t_lexImports l h | exact t_lexGoCode l h | exact t_lexTemplate l h | exact t_lexGohtStart l h
    | exact t_lexGohtLineStart l h | exact t_lexGohtIndent l h | exact t_lexGohtContentStart l h | exact t_lexGohtContent l h
    | exact t_lexGohtContentEnd l h | exact t_lexGohtLineEnd l h | exact t_lexGohtNewLine l h
    | exact t_hamlIdentifier _ l h | exact t_lexObjectReference l h | exact t_lexGohtAttributesStart l h | exact t_lexGohtAttributesEnd l h
    | exact t_lexGohtAttribute l h | exact t_lexGohtAttributeName l h | exact t_lexGohtAttributeOperator l h | exact t_lexGohtAttributeValue l h
    | exact t_lexGohtAttributeStaticValue l h | exact t_lexGohtAttributeDynamicValue l h | exact t_lexAttributeCommandStart l h
    | exact t_lexGohtAttributeCommand l h | exact t_lexGohtAttributeEnd l h | exact t_lexWhitespaceRemoval l h | exact t_lexGohtTextStart l h
    | exact t_lexGohtTextContent l h | exact t_dynamicText _ _ _ l h | exact t_lexGohtDoctype l h | exact t_lexGohtUnescaped l h
    | exact t_lexGohtSilentScript l h | exact t_ignoreIndentedLines _ l h | exact t_lexGohtOutputCode l h | exact t_lexComment l h
    | exact t_lexVoidTag l h | exact t_lexGohtCommandCode l h | exact t_lexFilterStart l h | exact t_lexFilterLineStart _ _ l h
    | exact t_lexFilterIndent _ _ l h | exact t_lexFilterContent _ _ l h

end GL
