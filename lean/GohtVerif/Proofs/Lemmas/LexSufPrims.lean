import GohtVerif.Proofs.Lemmas.LexSuf
/-! `SInv` through the loops that only read and put back (scripts of LexSafe.lean), and the lemmas about an
empty pending literal. -/
namespace GL
variable {inp : List Rune} (hwf : WF inp)
include hwf

theorem sinv_peek (l : L) (h : SInv inp l) : SInv inp (l.peek).1 := by
  unfold L.peek
  have := sinv_next l h
  exact sinv_backup hwf _ this.1 this.2

theorem sinv_acceptRunAux (v : List Nat) (n : Nat) (l : L) (h : SInv inp l) : SInv inp (acceptRunAux v n l) := by
  induction n generalizing l with
  | zero => simp only [acceptRunAux]; have := sinv_next l h; exact sinv_backup hwf _ this.1 this.2
  | succ n ih =>
    simp only [acceptRunAux]
    have := sinv_next l h
    split
    · exact ih _ this.1
    · exact sinv_backup hwf _ this.1 this.2
theorem sinv_acceptRun (l : L) (v : List Nat) (h : SInv inp l) : SInv inp (l.acceptRun v) := sinv_acceptRunAux hwf _ _ _ h

theorem sinv_acceptUntilAux (v : List Nat) (n : Nat) (l : L) (h : SInv inp l) : SInv inp (acceptUntilAux v n l) := by
  induction n generalizing l with
  | zero => simp only [acceptUntilAux]; have := sinv_next l h; exact sinv_backup hwf _ this.1 this.2
  | succ n ih =>
    simp only [acceptUntilAux]
    have := sinv_next l h
    split
    · exact ih _ this.1
    · exact sinv_backup hwf _ this.1 this.2
theorem sinv_acceptUntil (l : L) (v : List Nat) (h : SInv inp l) : SInv inp (l.acceptUntil v) := sinv_acceptUntilAux hwf _ _ _ h

theorem sinv_nextN (n : Nat) (l : L) (h : SInv inp l) : SInv inp (nextN n l) := by
  induction n generalizing l with
  | zero => exact h
  | succ n ih => simp only [nextN]; exact ih _ (sinv_next l h).1
theorem sinv_next1 (l : L) (h : SInv inp l) : SInv inp (l.next).1 := (sinv_next l h).1

theorem sinv_braceAux (e : Nat) (n : Nat) (l : L) (a b : Bool) (q : Nat) (h : SInv inp l) :
    SInv inp (continueToMatchingBraceAux e n l a b q).1 ∧
    ((continueToMatchingBraceAux e n l a b q).2 ≠ eof → JustRead (continueToMatchingBraceAux e n l a b q).1) := by
  induction n generalizing l a b q with
  | zero => simp [continueToMatchingBraceAux, h]
  | succ n ih =>
    simp only [continueToMatchingBraceAux]
    have hn := sinv_next l h
    repeat' split
    all_goals first
      | exact ih _ _ _ _ hn.1
      | (refine ⟨hn.1, ?_⟩; intro _; exact hn.2)
      | (refine ⟨hn.1, ?_⟩; intro hc; exact absurd rfl hc)

theorem sinv_brace (l : L) (e : Nat) (h : SInv inp l) :
    SInv inp (l.continueToMatchingBrace e).1 ∧
    ((l.continueToMatchingBrace e).2 ≠ eof → JustRead (l.continueToMatchingBrace e).1) :=
  sinv_braceAux hwf _ _ _ _ _ _ h

theorem sinv_quoteLoop (q : Nat) (n : Nat) (l : L) (e : Bool) (h : SInv inp l) :
    SInv inp (quoteLoop q n l e).1 ∧ ((quoteLoop q n l e).2 = false → JustRead (quoteLoop q n l e).1) := by
  induction n generalizing l e with
  | zero => simp [quoteLoop, h]
  | succ n ih =>
    simp only [quoteLoop]
    have hn := sinv_next l h
    repeat' split
    all_goals first
      | exact ih _ _ hn.1
      | (refine ⟨hn.1, ?_⟩; intro _; exact hn.2)
      | (refine ⟨hn.1, ?_⟩; intro hc; exact absurd hc (by decide))


/-! ### an empty pending literal stays empty through `skip`, `peek` and the skip-loops -/

def SNil (inp : List Rune) (l : L) : Prop := TInv inp l ∧ l.s = []

omit hwf in
theorem snil_sinv (l : L) (h : SNil inp l) : SInv inp l := suf_of_nil l h.1 h.2

/-- after `next` from an empty literal: the literal is the rune's encoding, as long as the rune is wide -/
theorem next_from_nil (l : L) (h : SNil inp l) :
    (l.next).1.s.length = (l.next).1.width := by
  obtain ⟨_, done, hin, _, _⟩ := h.1.2
  unfold L.next Cur.next
  cases hrest : l.cur.rest with
  | nil => simp [h.2]
  | cons r rs =>
    simp only [h.2, List.nil_append]
    exact (hwf r (by rw [hin, hrest]; simp)).symm

theorem snil_skip (l : L) (h : SNil inp l) : SNil inp (l.skip).1 := by
  refine ⟨tinv_skip l h.1, ?_⟩
  have hn := next_from_nil hwf l h
  unfold L.skip L.dropS
  simp only []
  have : ¬ ((l.next).1.s.length < (l.next).1.width) := by omega
  simp only [this, if_false]
  rw [hn]; simp

theorem snil_peek (l : L) (h : SNil inp l) : SNil inp (l.peek).1 := by
  refine ⟨tinv_peek l h.1, ?_⟩
  have hn := next_from_nil hwf l h
  have hj := (tinv_next l h.1).2
  unfold L.peek
  simp only []
  by_cases hw0 : (l.next).1.width = 0
  · have : (l.next).1.backup = (l.next).1 := by unfold L.backup; simp [hw0]
    rw [this]
    exact List.eq_nil_of_length_eq_zero (by omega)
  · rcases hj with h0 | ⟨r, s0, hl, hw, hs, _⟩
    · exact absurd h0 hw0
    obtain ⟨hbs, _⟩ := backup_fields (l.next).1 r hw0 hl (by omega)
    rw [hbs, hn]; simp

theorem snil_skipRunAux (v : List Nat) (n : Nat) (l : L) (h : SNil inp l) : SNil inp (skipRunAux v n l) := by
  induction n generalizing l with
  | zero => simp only [skipRunAux]; exact snil_peek hwf l h
  | succ n ih =>
    simp only [skipRunAux]
    split
    · exact ih _ (snil_skip hwf l h)
    · exact snil_peek hwf l h
theorem snil_skipRun (l : L) (v : List Nat) (h : SNil inp l) : SNil inp (l.skipRun v) := snil_skipRunAux hwf _ _ _ h

theorem snil_skipUntilAux (v : List Nat) (n : Nat) (l : L) (h : SNil inp l) : SNil inp (skipUntilAux v n l) := by
  induction n generalizing l with
  | zero => simp only [skipUntilAux]; exact snil_peek hwf l h
  | succ n ih =>
    simp only [skipUntilAux]
    split
    · exact ih _ (snil_skip hwf l h)
    · exact snil_peek hwf l h
theorem snil_skipUntil (l : L) (v : List Nat) (h : SNil inp l) : SNil inp (l.skipUntil v) := snil_skipUntilAux hwf _ _ _ h

omit hwf in
theorem snil_ignore (l : L) (h : TInv inp l) : SNil inp l.ignore := ⟨tinv_ignore l h, rfl⟩

omit hwf in
theorem snil_emit (l : L) (t : TT) (h : TInv inp l) : SNil inp (l.emit t) := by
  refine ⟨tinv_emit l t h, ?_⟩
  obtain ⟨p, hp⟩ := position_some l h.1
  unfold L.emit; rw [hp]

omit hwf in
theorem snil_emitIfPending (l : L) (t : TT) (h : TInv inp l) : SNil inp (emitIfPending l t) := by
  unfold emitIfPending
  split
  · exact snil_emit l t h
  · rename_i hc
    refine ⟨h, ?_⟩
    simpa using hc

omit hwf in
theorem snil_peekAhead (l : L) (n : Nat) (h : SNil inp l) : SNil inp (l.peekAhead n).1 :=
  ⟨tinv_peekAhead l n h.1, h.2⟩

end GL
