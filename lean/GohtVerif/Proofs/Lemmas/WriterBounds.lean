import GohtVerif.Proofs.Lemmas.WriterPos
/-! Target-side bounds: the run registered for a one-line chunk lies inside the generated line. -/
namespace GL

theorem utf16Len_mono (a b : GoStr) (hv : ValidUtf8 a) : utf16Len a ≤ utf16Len (a ++ b) := by
  rw [utf16Len_append _ _ hv]; omega

/-- when a one-line chunk `s` is written, its run starts at the UTF-16 length of the line so far and
ends exactly at the end of the line as it then is -/
theorem run_ends_at_line_end (g : G) (text s : GoStr) (hpos : g.pos = posOf text)
    (hvalid : ValidUtf8 (lastLineOf text)) (hs : (10 : UInt8) ∉ s) :
    (g.write s).2.frm.col - 1 = (utf16Len (lastLineOf text) : Nat) ∧
    utf16Len (lastLineOf (text ++ s)) = utf16Len (lastLineOf text) + utf16Len s := by
  have h1 : (g.write s).2.frm = g.pos := (by unfold G.write; simp)
  refine ⟨?_, ?_⟩
  · rw [h1, hpos]; simp only [posOf]; omega
  · rw [lastLineOf_append_no_nl text s hs, utf16Len_append _ _ hvalid]

/-- whatever is appended to the line afterwards (`more`, up to its first line break), the run stays
inside the line: start + length ≤ UTF-16 length of the generated line -/
theorem run_within_final_line (text s more : GoStr) (hvalid : ValidUtf8 (lastLineOf text))
    (hvalid2 : ValidUtf8 (lastLineOf text ++ s)) :
    utf16Len (lastLineOf text) + utf16Len s ≤ utf16Len (lastLineOf text ++ s ++ more) := by
  have := utf16Len_mono (lastLineOf text ++ s) more hvalid2
  rw [utf16Len_append _ _ hvalid] at this
  exact this

end GL
