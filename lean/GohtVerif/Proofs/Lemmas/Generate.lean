import GohtVerif.Model.Generate
/-! helper lemmas for C18: the pairing of template names with output names, and the pointwise
characterisation of `exec` that does not depend on the order of the actions -/
namespace Gn

/-! ### names -/

theorem src_not_out (n : Bytes) (h : isSrcName n = true) : isOutName n = false := by
  unfold isSrcName isOutName at *
  simp only [Gen.genGohtExt, Gen.genOutExt] at *
  rw [List.isSuffixOf_iff_suffix] at h
  obtain ⟨t, rfl⟩ := h
  rw [Bool.eq_false_iff]
  intro h2
  rw [List.isSuffixOf_iff_suffix] at h2
  obtain ⟨t2, h2⟩ := h2
  have := congrArg List.getLast? h2
  simp at this

theorem out_of_src (n : Bytes) (h : isSrcName n = true) : isOutName (n ++ goExt) = true := by
  unfold isSrcName isOutName goExt at *
  simp only [Gen.genGohtExt, Gen.genOutExt, Gen.genTrimSuffix] at *
  rw [List.isSuffixOf_iff_suffix] at *
  obtain ⟨t, rfl⟩ := h
  exact ⟨t, by simp⟩

theorem take_out (n : Bytes) : (n ++ goExt).take ((n ++ goExt).length - goExt.length) = n := by
  simp

theorem out_split (n : Bytes) (h : isOutName n = true) :
    n.take (n.length - goExt.length) ++ goExt = n ∧ isSrcName (n.take (n.length - goExt.length)) = true := by
  unfold isSrcName isOutName goExt at *
  simp only [Gen.genGohtExt, Gen.genOutExt, Gen.genTrimSuffix] at *
  rw [List.isSuffixOf_iff_suffix] at h
  obtain ⟨t, rfl⟩ := h
  have e : (t ++ [46, 103, 111, 104, 116, 46, 103, 111] : Bytes) = (t ++ [46, 103, 111, 104, 116]) ++ [46, 103, 111] := by simp
  rw [e]
  have l : ((t ++ [46, 103, 111, 104, 116]) ++ [46, 103, 111] : Bytes).length - ([46, 103, 111] : Bytes).length
      = (t ++ [46, 103, 111, 104, 116] : Bytes).length := by simp
  rw [l, List.take_left]
  refine ⟨rfl, ?_⟩
  rw [List.isSuffixOf_iff_suffix]
  exact ⟨t, rfl⟩

/-! ### paths -/

theorem Path.isSrc_not_isOut (p : Path) (h : p.isSrc = true) : p.isOut = false := src_not_out _ h

theorem Path.isOut_outOf (p : Path) (h : p.isSrc = true) : p.outOf.isOut = true := out_of_src _ h

theorem Path.srcOf_outOf (p : Path) : p.outOf.srcOf = p := by
  cases p with | mk d n => simp [Path.outOf, Path.srcOf]

theorem Path.outOf_srcOf (q : Path) (h : q.isOut = true) : q.srcOf.outOf = q := by
  cases q with | mk d n =>
    simp only [Path.outOf, Path.srcOf]
    rw [(out_split n h).1]

theorem Path.isSrc_srcOf (q : Path) (h : q.isOut = true) : q.srcOf.isSrc = true := (out_split _ h).2

theorem Path.outOf_inj (p p2 : Path) (h : p.outOf = p2.outOf) : p = p2 := by
  have := congrArg Path.srcOf h
  simpa [Path.srcOf_outOf] using this

theorem Path.skipped_outOf (cfg : Cfg) (p : Path) : p.outOf.skipped cfg = p.skipped cfg := rfl
theorem Path.skipped_srcOf (cfg : Cfg) (q : Path) : q.srcOf.skipped cfg = q.skipped cfg := rfl

/-! ### what an action may be: the conditions under which the walk issues it -/

/-- `remove q` is only issued for an output without template, `gen p` only for a template -/
def Compat (fs0 : FS) : Act → Prop
  | .remove q => q.isOut = true ∧ fs0 q.srcOf = none
  | .gen p => p.isSrc = true ∧ fs0 p ≠ none

/-- the tree after the actions `l`, stated by membership only -/
def spec (cfg : Cfg) (fs0 : FS) (l : List Act) (q : Path) : Option File :=
  if Act.remove q ∈ l then none
  else if q.isOut = true ∧ Act.gen q.srcOf ∈ l then
    match fs0 q.srcOf with
    | some s =>
      match cfg.fc s.content with
      | some o => some { content := o, mtime := cfg.clock q.srcOf }
      | none => fs0 q
    | none => fs0 q
  else fs0 q

theorem spec_src (cfg : Cfg) (fs0 : FS) (l : List Act) (hc : ∀ a ∈ l, Compat fs0 a) (p : Path)
    (hp : p.isSrc = true) : spec cfg fs0 l p = fs0 p := by
  unfold spec
  have h1 : Act.remove p ∉ l := by
    intro hm
    have := (hc _ hm).1
    rw [Path.isSrc_not_isOut p hp] at this
    exact Bool.noConfusion this
  simp [h1, Path.isSrc_not_isOut p hp]

theorem exec_append (cfg : Cfg) (fs : FS) (l : List Act) (a : Act) :
    exec cfg fs (l ++ [a]) = act cfg (exec cfg fs l) a := by
  simp [exec, List.foldl_append]

theorem rev_ind {α} (P : List α → Prop) (h0 : P []) (hs : ∀ l a, P l → P (l ++ [a])) : ∀ l, P l := by
  intro l
  have : ∀ m : List α, P m.reverse := by
    intro m
    induction m with
    | nil => exact h0
    | cons a m ih => rw [List.reverse_cons]; exact hs _ _ ih
  simpa using this l.reverse

theorem exec_eq_spec (cfg : Cfg) (fs0 : FS) (l : List Act) (hc : ∀ a ∈ l, Compat fs0 a) :
    exec cfg fs0 l = spec cfg fs0 l := by
  revert hc
  refine rev_ind (fun l => (∀ a ∈ l, Compat fs0 a) → exec cfg fs0 l = spec cfg fs0 l) ?_ ?_ l
  · intro _; funext q; simp [exec, spec]
  · intro l a ih hc
    have hcl : ∀ b ∈ l, Compat fs0 b := fun b hb => hc b (by simp [hb])
    have hca : Compat fs0 a := hc a (by simp)
    rw [exec_append, ih hcl]
    funext q
    cases a with
    | remove q2 =>
      simp only [act, FS.del]
      by_cases hq : q = q2
      · subst hq; simp [spec]
      · have hne : ¬ (Act.remove q = Act.remove q2) := by intro e; injection e with e; exact hq e
        simp [hq, spec, hne]
    | gen p2 =>
      obtain ⟨hsrc, hex⟩ := hca
      simp only [act]
      rw [spec_src cfg fs0 l hcl p2 hsrc]
      cases hs : fs0 p2 with
      | none => exact absurd hs hex
      | some s =>
        simp only []
        have hnr : (Act.remove q ∈ l ++ [Act.gen p2]) ↔ Act.remove q ∈ l := by simp
        by_cases hq : q = p2.outOf
        · -- the output of p2
          subst hq
          have hno : Act.remove p2.outOf ∉ l := by
            intro hm
            have := (hcl _ hm).2
            rw [Path.srcOf_outOf] at this
            rw [hs] at this
            cases this
          cases hf : cfg.fc s.content with
          | none =>
            simp only [spec, hnr, hno, if_false, Path.srcOf_outOf, hs, hf]
            simp [Path.isOut_outOf p2 hsrc]
          | some o =>
            simp only [FS.set, if_true, spec, hnr, hno, if_false, Path.srcOf_outOf, hs, hf]
            simp [Path.isOut_outOf p2 hsrc]
        · have hg : (q.isOut = true ∧ Act.gen q.srcOf ∈ l ++ [Act.gen p2]) ↔ (q.isOut = true ∧ Act.gen q.srcOf ∈ l) := by
            constructor
            · rintro ⟨ho, hm⟩
              refine ⟨ho, ?_⟩
              rcases List.mem_append.1 hm with hm | hm
              · exact hm
              · exfalso
                have : q.srcOf = p2 := by simpa using hm
                exact hq (by rw [← this, Path.outOf_srcOf q ho])
            · rintro ⟨ho, hm⟩; exact ⟨ho, by simp [hm]⟩
          have key : spec cfg fs0 (l ++ [Act.gen p2]) q = spec cfg fs0 l q := by
            unfold spec
            simp only [hnr, hg]
          rw [key]
          cases hf : cfg.fc s.content with
          | none => rfl
          | some o => simp [FS.set, hq]

/-- the walk only issues actions that meet `Compat` -/
theorem walk_compat (cfg : Cfg) (fs : FS) (dom : List Path) : ∀ a ∈ walk cfg fs dom, Compat fs a := by
  intro a ha
  simp only [walk, List.mem_flatMap] at ha
  obtain ⟨p, _, hm⟩ := ha
  unfold walkEntry at hm
  split at hm
  · simp at hm
  · split at hm
    · rename_i ho
      split at hm
      · rename_i hk
        simp at hm; subst hm
        simp only [Bool.and_eq_true, Bool.not_eq_true', Option.isNone_iff_eq_none] at hk
        exact ⟨ho, hk.2⟩
      · simp at hm
    · split at hm
      · rename_i hs
        split at hm
        · rename_i hst
          simp at hm; subst hm
          refine ⟨hs, ?_⟩
          unfold stale at hst
          intro hn
          rw [hn] at hst
          exact Bool.noConfusion hst
        · simp at hm
      · simp at hm

theorem mem_walk_remove (cfg : Cfg) (fs : FS) (dom : List Path) (q : Path) :
    Act.remove q ∈ walk cfg fs dom ↔
      q ∈ dom ∧ q.skipped cfg = false ∧ q.isOut = true ∧ cfg.keep = false ∧ fs q.srcOf = none := by
  simp only [walk, List.mem_flatMap]
  constructor
  · rintro ⟨p, hp, hm⟩
    unfold walkEntry at hm
    split at hm
    · simp at hm
    · rename_i hsk
      split at hm
      · rename_i ho
        split at hm
        · rename_i hk
          simp at hm; subst hm
          simp only [Bool.and_eq_true, Bool.not_eq_true', Option.isNone_iff_eq_none] at hk
          exact ⟨hp, by simpa using hsk, ho, hk.1, hk.2⟩
        · simp at hm
      · split at hm
        · split at hm <;> simp at hm
        · simp at hm
  · rintro ⟨hd, hsk, ho, hk, hn⟩
    refine ⟨q, hd, ?_⟩
    unfold walkEntry
    simp [hsk, ho, hk, hn]

theorem mem_walk_gen (cfg : Cfg) (fs : FS) (dom : List Path) (p : Path) :
    Act.gen p ∈ walk cfg fs dom ↔
      p ∈ dom ∧ p.skipped cfg = false ∧ p.isSrc = true ∧ stale cfg fs p = true := by
  simp only [walk, List.mem_flatMap]
  constructor
  · rintro ⟨p2, hp, hm⟩
    unfold walkEntry at hm
    split at hm
    · simp at hm
    · rename_i hsk
      split at hm
      · split at hm <;> simp at hm
      · split at hm
        · rename_i hs
          split at hm
          · rename_i hst
            simp at hm; subst hm
            exact ⟨hp, by simpa using hsk, hs, hst⟩
          · simp at hm
        · simp at hm
  · rintro ⟨hd, hsk, hs, hst⟩
    refine ⟨p, hd, ?_⟩
    unfold walkEntry
    simp [hsk, Path.isSrc_not_isOut p hs, hs, hst]

end Gn
