import GohtVerif.Proofs.Lemmas.LexTrackRun
import GohtVerif.Proofs.Lemmas.Utf16
/-! `position()` of a pending literal that is exactly the input text in front of the cursor is the true
(line, UTF-16 column) of that text's first character. -/
namespace GL

def encAll (rs : List Rune) : GoStr := rs.flatMap (·.enc)
def nlCount (rs : List Rune) : Nat := rs.countP (·.cp == 10)
def firstLineR : List Rune → List Rune
  | [] => []
  | r :: rs => if r.cp == 10 then [r] else r :: firstLineR rs
def u16sum (rs : List Rune) : Nat := (rs.map Rune.u16).sum

theorem encAll_append (a b : List Rune) : encAll (a ++ b) = encAll a ++ encAll b := by simp [encAll]
theorem encAll_cons (r : Rune) (rs : List Rune) : encAll (r :: rs) = r.enc ++ encAll rs := by simp [encAll]

/-- folding `bump` over the runes of a literal: one new entry per line feed, and the entry of the line the
literal starts on grows by the UTF-16 length of the literal's first line -/
theorem fold_shape (sr : List Rune) : ∀ (p : Nat) (ps : List Nat),
    ∃ front, sr.foldl bump (p :: ps) = front ++ (p + u16sum (firstLineR sr)) :: ps ∧ front.length = nlCount sr := by
  induction sr with
  | nil => intro p ps; exact ⟨[], by simp [u16sum, firstLineR], by simp [nlCount]⟩
  | cons r rs ih =>
    intro p ps
    simp only [List.foldl_cons]
    by_cases hc : r.cp = 10
    · have hb : bump (p :: ps) r = 0 :: (p + r.u16) :: ps := by simp [bump, bumpPos, hc]
      obtain ⟨front, hf, hl⟩ := ih 0 ((p + r.u16) :: ps)
      refine ⟨front ++ [0 + u16sum (firstLineR rs)], ?_, ?_⟩
      · rw [hb, hf]; simp [firstLineR, hc, u16sum]
      · simp [nlCount, hc, hl]
    · have hb : bump (p :: ps) r = (p + r.u16) :: ps := by simp [bump, bumpPos, hc]
      obtain ⟨front, hf, hl⟩ := ih (p + r.u16) ps
      refine ⟨front, ?_, ?_⟩
      · rw [hb, hf]; simp [firstLineR, hc, u16sum, Nat.add_assoc]
      · simp [nlCount, hc]
        simpa [nlCount] using hl

theorem countNl_encAll (sr : List Rune) (h : ∀ r ∈ sr, RuneOK r) : countNl (encAll sr) = nlCount sr := by
  induction sr with
  | nil => simp [encAll, countNl, nlCount]
  | cons r rs ih =>
    have hr := h r List.mem_cons_self
    have ih' := ih (fun x hx => h x (List.mem_cons_of_mem _ hx))
    rw [encAll_cons, countNl_append, ih']
    by_cases hc : r.cp = 10
    · have := (hr.2.2.1 hc).1
      rw [this]; simp [nlCount, hc, List.countP_cons, countNl]; omega
    · have := hr.2.2.2 hc
      rw [this]; simp [nlCount, hc, List.countP_cons]

theorem firstLine_append_nonl (a b : GoStr) (h : countNl a = 0) : firstLine (a ++ b) = a ++ firstLine b := by
  induction a with
  | nil => rfl
  | cons x xs ih =>
    have hx : x ≠ 10 := by
      intro hx; subst hx; simp [countNl] at h
    have hxs : countNl xs = 0 := by
      simp only [countNl, List.count_cons] at h ⊢
      omega
    simp only [List.cons_append, firstLine]
    have : (x == 10) = false := by simpa using hx
    simp [this, ih hxs]

theorem firstLine_encAll (sr : List Rune) (h : ∀ r ∈ sr, RuneOK r) : firstLine (encAll sr) = encAll (firstLineR sr) := by
  induction sr with
  | nil => rfl
  | cons r rs ih =>
    have hr := h r List.mem_cons_self
    have ih' := ih (fun x hx => h x (List.mem_cons_of_mem _ hx))
    rw [encAll_cons]
    by_cases hc : r.cp = 10
    · have := (hr.2.2.1 hc).1
      rw [this]
      simp [firstLineR, hc, firstLine, encAll, this]
    · rw [firstLine_append_nonl _ _ (hr.2.2.2 hc), ih']
      simp [firstLineR, hc, encAll_cons]

end GL

namespace GL

/-- the encoding kept for a rune re-reads as one rune of the same UTF-16 length -/
def EncOK (r : Rune) : Prop := ValidUtf8 r.enc ∧ utf16Len r.enc = r.u16

theorem encOK_of_decode1 (s : GoStr) (r : Rune) (t : GoStr) (h : decode1 s = some (r, t)) : EncOK r := by
  rcases decode1_spec s r t h with ⟨b0, _, hre⟩ | hv
  · subst hre
    constructor
    · unfold ValidUtf8; decide +kernel
    · decide +kernel
  · have hp := decode1_prefix s r t h hv []
    simp only [List.append_nil] at hp
    obtain ⟨_, _, _, hne, _⟩ := hv
    obtain ⟨b0, rest, hbr⟩ : ∃ b0 rest, r.enc = b0 :: rest := by
      cases hr : r.enc with
      | nil => exact absurd hr hne
      | cons b0 rest => exact ⟨b0, rest, rfl⟩
    have hd : decodeAll r.enc = [r] := by
      rw [hbr] at hp ⊢
      rw [decodeAll_cons b0 rest r [] hp]
      simp [decodeAll, decodeFuel]
    constructor
    · unfold ValidUtf8; rw [hd]; simp
    · unfold utf16Len; rw [hd]; simp

theorem encOK_decodeFuel (n : Nat) (s : GoStr) : ∀ r ∈ decodeFuel n s, EncOK r := by
  induction n generalizing s with
  | zero => intro r hr; simp [decodeFuel] at hr
  | succ n ih =>
    intro r hr
    simp only [decodeFuel] at hr
    split at hr
    · simp at hr
    · rename_i r0 t heq
      simp only [List.mem_cons] at hr
      rcases hr with rfl | hr
      · exact encOK_of_decode1 s _ t heq
      · exact ih t r hr

theorem utf16Len_encAll (rs : List Rune) (h : ∀ r ∈ rs, EncOK r) : utf16Len (encAll rs) = u16sum rs := by
  induction rs with
  | nil => simp [encAll, utf16Len, decodeAll, decodeFuel, u16sum]
  | cons r rs ih =>
    have hr := h r List.mem_cons_self
    rw [encAll_cons, utf16Len_append _ _ hr.1, hr.2, ih (fun x hx => h x (List.mem_cons_of_mem _ hx))]
    simp [u16sum]

theorem firstLineR_sub (sr : List Rune) : ∀ r ∈ firstLineR sr, r ∈ sr := by
  induction sr with
  | nil => intro r hr; simp [firstLineR] at hr
  | cons a as ih =>
    intro r hr
    simp only [firstLineR] at hr
    split at hr
    · simp only [List.mem_cons, List.not_mem_nil, or_false] at hr; subst hr; exact List.mem_cons_self
    · simp only [List.mem_cons] at hr
      rcases hr with rfl | hr
      · exact List.mem_cons_self
      · exact List.mem_cons_of_mem _ (ih r hr)

/-- **position of a contiguous literal** — when the pending literal is the encoding of the runes `sr` that
lie between `pre` and the cursor, `position()` is (number of lines of `pre`, 1 + UTF-16 length of `pre`'s last line) -/
theorem position_contig (l : L) (pre sr : List Rune)
    (hok : ∀ r ∈ sr, RuneOK r) (henc : ∀ r ∈ sr, EncOK r)
    (hs : l.s = encAll sr) (hpos : l.pos = linesOf (pre ++ sr)) :
    l.position = some (((linesOf pre).length : Int), 1 + (((linesOf pre).headD 0 : Nat) : Int)) := by
  obtain ⟨p, ps, hpp⟩ : ∃ p ps, linesOf pre = p :: ps := by
    cases hq' : linesOf pre with
    | nil => exact absurd hq' (linesOf_ne_nil pre)
    | cons p ps => exact ⟨p, ps, rfl⟩
  have hfold : l.pos = sr.foldl bump (p :: ps) := by
    rw [hpos, linesOf, List.foldl_append, ← linesOf, hpp]
  obtain ⟨front, hf, hfl⟩ := fold_shape sr p ps
  have hnl : countNl l.s = front.length := by rw [hs, countNl_encAll sr hok, hfl]
  have hfl1 : utf16Len (firstLine (encAll sr)) = u16sum (firstLineR sr) := by
    rw [firstLine_encAll sr hok]
    exact utf16Len_encAll _ (fun r hr => henc r (firstLineR_sub sr r hr))
  unfold L.position
  simp only []
  rw [hfold, hf, hnl]
  have h1 : ¬ (front.length ≥ (front ++ (p + u16sum (firstLineR sr)) :: ps).length) := by
    simp only [List.length_append, List.length_cons]; omega
  simp only [h1, if_false]
  have hget : (front ++ (p + u16sum (firstLineR sr)) :: ps)[front.length]? = some (p + u16sum (firstLineR sr)) := by
    simp
  rw [hget]
  simp only [hpp, List.length_cons, List.length_append, List.headD_cons, Option.some.injEq, Prod.mk.injEq]
  have hfl2 : utf16Len (firstLine l.s) = u16sum (firstLineR sr) := by rw [hs]; exact hfl1
  rw [hfl2]
  constructor <;> push_cast <;> omega

end GL
