import GohtVerif.Proofs.Lemmas.LexSufPrims
/-! The Go-fragment tokens: text = the input text in front of the cursor, position = where that text starts. -/
namespace GL
variable {inp : List Rune}

/-- what is true of the runes of every decoded input (`RuneOK`, `EncOK`) and of well-formed UTF-8 (`WF`) -/
structure Good (inp : List Rune) : Prop where
  ok : ∀ r ∈ inp, RuneOK r
  enc : ∀ r ∈ inp, EncOK r
  wf : WF inp

/-- the token's text is a stretch `sr` of the input and its (line, column) is the 1-based line and UTF-16 column
of the first character of that stretch -/
def TokAt (inp : List Rune) (t : Tok) : Prop :=
  ∃ pre sr rest, inp = pre ++ sr ++ rest ∧ t.lit = encAll sr ∧
    t.line = ((linesOf pre).length : Int) ∧ t.col = 1 + (((linesOf pre).headD 0 : Nat) : Int)

theorem emit_tokAt (hg : Good inp) (l : L) (t0 : TT) (h : SInv inp l) :
    ∃ tok, (l.emit t0).out = tok :: l.out ∧ tok.typ = t0 ∧ TokAt inp tok := by
  obtain ⟨pre, sr, hin, hs⟩ := h.2
  obtain ⟨_, done, hind, hpos, _⟩ := h.1.2
  have hdone : done = pre ++ sr := by
    have : done ++ l.cur.rest = (pre ++ sr) ++ l.cur.rest := by rw [← hind, ← hin]
    exact List.append_cancel_right this
  have hsub : ∀ r ∈ sr, r ∈ inp := fun r hr => by rw [hin]; simp [hr]
  have hp := position_contig l pre sr (fun r hr => hg.ok r (hsub r hr)) (fun r hr => hg.enc r (hsub r hr)) hs (by rw [hpos, hdone])
  unfold L.emit
  rw [hp]
  exact ⟨_, rfl, rfl, pre, sr, l.cur.rest, hin, hs, rfl, rfl⟩

theorem emit_mem (hg : Good inp) (l : L) (t0 : TT) (h : SInv inp l) (ho : l.out = []) :
    ∀ t ∈ (l.emit t0).out, TokAt inp t := by
  obtain ⟨tok, hout, _, hat⟩ := emit_tokAt hg l t0 h
  intro t ht
  rw [hout, ho] at ht
  simp only [List.mem_cons, List.not_mem_nil, or_false] at ht
  subst ht; exact hat

attribute [local irreducible] L.peek L.skip L.next L.backup L.dropS L.acceptRun L.acceptUntil L.skipRun L.skipUntil L.emit emitIfPending L.peekAhead L.ignore L.skipAhead L.continueToMatchingBrace L.continueToMatchingQuote TInv Inv Track SInv SNil Suf

theorem frag_outputCode (hg : Good inp) (l : L) (h : SNil inp l) (ho : l.out = []) :
    ∀ t ∈ (lexGohtOutputCode l).1.out, TokAt inp t := by
  unfold lexGohtOutputCode
  simp only []
  have h1 := snil_peek hg.wf _ (snil_skipRun hg.wf l Gen.lexGohtOutputCode_skipRun0 h)
  split
  · intro t ht; simp [ho] at ht
  · exact emit_mem hg _ _ (sinv_acceptUntil hg.wf _ _ (snil_sinv _ h1)) (by simp [ho])

theorem frag_silentScript (hg : Good inp) (l : L) (h : SNil inp l) (ho : l.out = []) :
    ∀ t ∈ (lexGohtSilentScript l).1.out, t.typ = .silentScript → TokAt inp t := by
  unfold lexGohtSilentScript
  simp only []
  have h1 := snil_peek hg.wf _ (snil_skip hg.wf l h)
  split
  · intro t ht hty
    -- the ruby-comment branch emits a token of another type
    have hs := snil_skipUntil hg.wf _ Gen.lexGohtSilentScript_skipUntil0 h1
    obtain ⟨tok, hout, htyp, _⟩ := emit_tokAt hg _ .rubyComment (snil_sinv _ hs)
    rw [hout] at ht
    simp [ho] at ht
    subst ht; rw [htyp] at hty; cases hty
  · intro t ht _
    exact emit_mem hg _ _ (sinv_acceptUntil hg.wf _ _ (snil_sinv _ (snil_skipRun hg.wf _ _ h1))) (by simp [ho]) t ht

/-- reading up to the closing bracket, putting the bracket back, emitting: the token is the text between the brackets -/
theorem brace_emit (hg : Good inp) (l : L) (e : Nat) (t0 : TT) (h : SNil inp l) (ho : l.out = [])
    (hne : ((l.continueToMatchingBrace e).2 == eof) = false) :
    ∀ t ∈ (((l.continueToMatchingBrace e).1.backup.emit t0).skip).1.out, TokAt inp t := by
  have hb := sinv_brace hg.wf l e (snil_sinv l h)
  have hbk := sinv_backup hg.wf _ hb.1 (hb.2 (by simpa using hne))
  intro t ht
  rw [skip_out] at ht
  exact emit_mem hg _ t0 hbk (by simp [ho]) t ht

theorem frag_objectRef (hg : Good inp) (l : L) (h : SNil inp l) (ho : l.out = []) :
    ∀ t ∈ (lexObjectReference l).1.out, t.typ ≠ .error → TokAt inp t := by
  unfold lexObjectReference
  simp only []
  have h1 := snil_skip hg.wf l h
  split
  · intro t ht hty
    unfold L.errorf at ht
    split at ht
    · simp [ho] at ht
    · simp [ho] at ht; subst ht; exact absurd rfl hty
  · rename_i hne
    intro t ht _
    exact brace_emit hg _ _ _ h1 (by simp [ho]) (by simpa using hne) t ht

theorem frag_attrDynamicValue (hg : Good inp) (l : L) (h : SNil inp l) (ho : l.out = []) :
    ∀ t ∈ (lexGohtAttributeDynamicValue l).1.out, t.typ ≠ .error → TokAt inp t := by
  unfold lexGohtAttributeDynamicValue
  simp only []
  have h1 := snil_peek hg.wf _ (snil_skip hg.wf l h)
  have herr : ∀ (l' : L) (m : EMsg), l'.out = [] → ∀ t ∈ (l'.errorf m).1.out, t.typ ≠ .error → TokAt inp t := by
    intro l' m ho' t ht hty
    unfold L.errorf at ht
    split at ht
    · simp [ho'] at ht
    · simp [ho'] at ht; subst ht; exact absurd rfl hty
  split
  · exact herr _ _ (by simp [ho])
  · split
    · exact herr _ _ (by simp [ho])
    · rename_i hne
      intro t ht _
      exact brace_emit hg _ _ _ (snil_skip hg.wf _ h1) (by simp [ho]) (by simpa using hne) t ht

theorem frag_attributesCommand (hg : Good inp) (l : L) (h : TInv inp l) (ho : l.out = []) :
    ∀ t ∈ (lexGohtAttributeCommand l).1.out, t.typ ≠ .error → TokAt inp t := by
  unfold lexGohtAttributeCommand
  simp only []
  have h1 := snil_skip hg.wf _ (snil_skipUntil hg.wf _ Gen.lexGohtAttributeCommand_skipUntil1
    (snil_skipUntil hg.wf _ Gen.lexGohtAttributeCommand_skipUntil0 (snil_ignore l h)))
  split
  · intro t ht hty
    unfold L.errorf at ht
    split at ht
    · simp [ho] at ht
    · simp [ho] at ht; subst ht; exact absurd rfl hty
  · rename_i hne
    intro t ht _
    exact brace_emit hg _ _ _ h1 (by simp [ho]) (by simpa using hne) t ht

end GL
