import GohtVerif.Proofs.Lemmas.LexTrackStates
/-! every rune the decoder delivers meets `U16OK`; the initial configuration meets `TInv`; every configuration
the run loop passes through meets it. -/
namespace GL

theorem encodeRune_length (cp : Nat) : (encodeRune cp).length = if cp < 0x80 then 1 else if cp < 0x800 then 2 else if cp < 0x10000 then 3 else 4 := by
  unfold encodeRune
  split
  · rfl
  · split
    · rfl
    · split <;> rfl

theorem u16ok_of_decode1 (s : GoStr) (r : Rune) (t : GoStr) (h : decode1 s = some (r, t)) : U16OK r := by
  rcases decode1_spec s r t h with ⟨b0, _, hre⟩ | ⟨_, he, _, _, _, _, hw⟩
  · subst hre; simp [U16OK, Rune.u16, runeError]
  · unfold U16OK Rune.u16
    have hl := encodeRune_length r.cp
    rw [he] at hl
    rw [hw, hl]
    by_cases h1 : r.cp < 0x80
    · have : ¬ r.cp ≥ 0x10000 := by omega
      simp [h1, this]
    · by_cases h2 : r.cp < 0x800
      · have : ¬ r.cp ≥ 0x10000 := by omega
        simp [h1, h2, this]
      · by_cases h3 : r.cp < 0x10000
        · have : ¬ r.cp ≥ 0x10000 := by omega
          simp [h1, h2, h3, this]
        · have : r.cp ≥ 0x10000 := by omega
          simp [h1, h2, h3, this]

theorem u16ok_decodeFuel (n : Nat) (s : GoStr) : ∀ r ∈ decodeFuel n s, U16OK r := by
  induction n generalizing s with
  | zero => intro r hr; simp [decodeFuel] at hr
  | succ n ih =>
    intro r hr
    simp only [decodeFuel] at hr
    split at hr
    · simp at hr
    · rename_i r0 t heq
      simp only [List.mem_cons] at hr
      rcases hr with rfl | hr
      · exact u16ok_of_decode1 s _ t heq
      · exact ih t r hr

theorem tinv_initL (input : GoStr) : TInv (decodeAll input) (initL input) := by
  refine ⟨inv_initL input, u16ok_decodeFuel _ _, [], ?_, ?_, ?_⟩
  · simp [initL]
  · simp [initL, linesOf]
  · intro r hr; simp [initL] at hr

/-- every configuration the run loop hands to a state function meets `TInv` -/
inductive Reach (input : GoStr) : St → L → Prop
  | init : Reach input .goLineStart (initL input)
  | step {st l} : Reach input st l → Reach input (step st { l with out := [] }).2 (step st { l with out := [] }).1

theorem tinv_clear_out {inp : List Rune} (l : L) (h : TInv inp l) : TInv inp { l with out := [] } := h

theorem reach_tinv (input : GoStr) (st : St) (l : L) (h : Reach input st l) : TInv (decodeAll input) l := by
  induction h with
  | init => exact tinv_initL input
  | step _ ih => exact step_tinv _ _ (tinv_clear_out _ ih)

end GL
