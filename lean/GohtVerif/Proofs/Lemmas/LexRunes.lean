import GohtVerif.Proofs.Lemmas.GoLit
import GohtVerif.Proofs.Lemmas.LexSafe
/-! every rune `decodeAll` delivers meets `RuneOK`, hence the initial lexer configuration meets `Inv` -/
namespace GL

theorem runeOK_of_decode1 (s : GoStr) (r : Rune) (t : GoStr) (h : decode1 s = some (r, t)) : RuneOK r := by
  rcases decode1_spec s r t h with ⟨b0, _, hre⟩ | ⟨_, he, _, hne, _, hhi, hw⟩
  · subst hre
    refine ⟨by decide, by decide, ?_, ?_⟩
    · intro hc; exact absurd hc (by decide)
    · intro _; decide
  · have hlen : 0 < r.enc.length := List.length_pos_iff.mpr hne
    refine ⟨by omega, by omega, ?_, ?_⟩
    · intro hc
      have : r.enc = [10] := by rw [← he, hc]; rfl
      exact ⟨this, by rw [hw, this]; rfl⟩
    · intro hc
      unfold countNl
      rw [List.count_eq_zero]
      intro hmem
      by_cases hs : r.cp < 128
      · have henc : r.enc = [UInt8.ofNat r.cp] := by rw [← he, encodeRune_ascii _ hs]
        rw [henc] at hmem
        simp only [List.mem_cons, List.not_mem_nil, or_false] at hmem
        have := congrArg UInt8.toNat hmem
        simp [Nat.mod_eq_of_lt (by omega : r.cp < 256)] at this
        omega
      · have := hhi (by omega) 10 hmem
        revert this; decide

theorem runeOK_decodeFuel (n : Nat) (s : GoStr) : ∀ r ∈ decodeFuel n s, RuneOK r := by
  induction n generalizing s with
  | zero => intro r hr; simp [decodeFuel] at hr
  | succ n ih =>
    intro r hr
    simp only [decodeFuel] at hr
    split at hr
    · simp at hr
    · rename_i r0 t heq
      simp only [List.mem_cons] at hr
      rcases hr with rfl | hr
      · exact runeOK_of_decode1 s _ t heq
      · exact ih t r hr

theorem inv_initL (input : GoStr) : Inv (initL input) := by
  refine ⟨rfl, rfl, ⟨?_, ?_⟩, ?_⟩
  · exact runeOK_decodeFuel _ _
  · intro r hr; simp [initL] at hr
  · simp [initL, countNl]

end GL
