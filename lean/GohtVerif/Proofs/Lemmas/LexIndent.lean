import GohtVerif.Proofs.Lemmas.LexOut
/-! The lexer primitives never change the remembered indentation level. -/
namespace GL

@[simp] theorem next_indent (l : L) : (l.next).1.indent = l.indent := by
  unfold L.next; split <;> rfl

@[simp] theorem dropS_indent (l : L) (n : Nat) : (l.dropS n).indent = l.indent := by
  unfold L.dropS; split <;> rfl

@[simp] theorem unbumpPos_indent (l : L) : (unbumpPos l).indent = l.indent := by
  unfold unbumpPos; simp only []; split <;> rfl

@[simp] theorem backup_indent (l : L) : l.backup.indent = l.indent := by
  unfold L.backup
  split
  · rfl
  · simp only [dropS_indent]
    split <;> simp

@[simp] theorem peek_indent (l : L) : (l.peek).1.indent = l.indent := by
  simp [L.peek]

@[simp] theorem peekAhead_indent (l : L) (n : Nat) : (l.peekAhead n).1.indent = l.indent := rfl
@[simp] theorem ignore_indent (l : L) : l.ignore.indent = l.indent := rfl
@[simp] theorem skip_indent (l : L) : (l.skip).1.indent = l.indent := by simp [L.skip]

theorem acceptRunAux_indent (v : List Nat) (n : Nat) (l : L) : (acceptRunAux v n l).indent = l.indent := by
  induction n generalizing l with
  | zero => simp [acceptRunAux]
  | succ n ih => simp only [acceptRunAux]; split <;> simp [ih]
@[simp] theorem acceptRun_indent (l : L) (v : List Nat) : (l.acceptRun v).indent = l.indent := acceptRunAux_indent ..

theorem acceptUntilAux_indent (v : List Nat) (n : Nat) (l : L) : (acceptUntilAux v n l).indent = l.indent := by
  induction n generalizing l with
  | zero => simp [acceptUntilAux]
  | succ n ih => simp only [acceptUntilAux]; split <;> simp [ih]
@[simp] theorem acceptUntil_indent (l : L) (v : List Nat) : (l.acceptUntil v).indent = l.indent := acceptUntilAux_indent ..

theorem skipRunAux_indent (v : List Nat) (n : Nat) (l : L) : (skipRunAux v n l).indent = l.indent := by
  induction n generalizing l with
  | zero => simp [skipRunAux]
  | succ n ih => simp only [skipRunAux]; split <;> simp [ih]
@[simp] theorem skipRun_indent (l : L) (v : List Nat) : (l.skipRun v).indent = l.indent := skipRunAux_indent ..

theorem skipUntilAux_indent (v : List Nat) (n : Nat) (l : L) : (skipUntilAux v n l).indent = l.indent := by
  induction n generalizing l with
  | zero => simp [skipUntilAux]
  | succ n ih => simp only [skipUntilAux]; split <;> simp [ih]
@[simp] theorem skipUntil_indent (l : L) (v : List Nat) : (l.skipUntil v).indent = l.indent := skipUntilAux_indent ..

theorem nextN_indent (n : Nat) (l : L) : (nextN n l).indent = l.indent := by
  induction n generalizing l with
  | zero => rfl
  | succ n ih => simp [nextN, ih]
@[simp] theorem skipAhead_indent (l : L) (n : Nat) : (l.skipAhead n).indent = l.indent := by
  simp [L.skipAhead, nextN_indent]

theorem braceAux_indent (e : Nat) (n : Nat) (l : L) (a b : Bool) (q : Nat) :
    (continueToMatchingBraceAux e n l a b q).1.indent = l.indent := by
  induction n generalizing l a b q with
  | zero => simp [continueToMatchingBraceAux]
  | succ n ih =>
    simp only [continueToMatchingBraceAux]
    repeat' split
    all_goals simp [ih]
@[simp] theorem brace_indent (l : L) (e : Nat) : (l.continueToMatchingBrace e).1.indent = l.indent := braceAux_indent ..

theorem quoteLoop_indent (q : Nat) (n : Nat) (l : L) (e : Bool) : (quoteLoop q n l e).1.indent = l.indent := by
  induction n generalizing l e with
  | zero => simp [quoteLoop]
  | succ n ih =>
    simp only [quoteLoop]
    repeat' split
    all_goals simp [ih]


@[simp] theorem emit_indent (l : L) (t : TT) : (l.emit t).indent = l.indent := by
  unfold L.emit; split <;> rfl
@[simp] theorem emitIfPending_indent (l : L) (t : TT) : (emitIfPending l t).indent = l.indent := by
  unfold emitIfPending; split <;> simp
@[simp] theorem errorf_indent (l : L) (m : EMsg) : (l.errorf m).1.indent = l.indent := by
  unfold L.errorf; split <;> rfl

theorem gohtStartLoop_indent (n : Nat) (l : L) : (sumL (gohtStartLoop n l)).indent = l.indent := by
  induction n generalizing l with
  | zero => simp [gohtStartLoop, sumL]
  | succ n ih =>
    simp only [gohtStartLoop]
    split
    · simp [sumL]
    · split
      · simp [sumL]
      · rw [ih]; simp

end GL
