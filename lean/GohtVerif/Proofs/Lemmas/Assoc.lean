import GohtVerif.Model.Proxy
/-! association lists keyed by URI (`get` / `put` / `del` of the proxy model) -/
namespace Px
open GL

theorem get_put_same {α} (m : List (GoStr × α)) (k : GoStr) (v : α) : get (put m k v) k = some v := by
  simp [get, put]

theorem find_filter_ne {α} (m : List (GoStr × α)) (k k' : GoStr) (h : k' ≠ k) :
    (m.filter (·.1 != k)).find? (·.1 == k') = m.find? (·.1 == k') := by
  induction m with
  | nil => rfl
  | cons a as ih =>
    by_cases ha : a.1 = k
    · have h1 : (a.1 != k) = false := by simp [ha]
      have h2 : (a.1 == k') = false := by
        simp only [beq_eq_false_iff_ne]; rw [ha]; exact fun e => h e.symm
      simp [List.filter_cons, h1, List.find?_cons, h2, ih]
    · have h1 : (a.1 != k) = true := by simp [ha]
      simp only [List.filter_cons, h1, if_true, List.find?_cons]
      split
      · rfl
      · exact ih

theorem get_put_other {α} (m : List (GoStr × α)) (k k' : GoStr) (v : α) (h : k' ≠ k) :
    get (put m k v) k' = get m k' := by
  unfold get put
  have hk : ((k, v).1 == k') = false := by simp only [beq_eq_false_iff_ne]; exact fun e => h e.symm
  rw [List.find?_cons, hk]
  simp only []
  rw [find_filter_ne m k k' h]

theorem get_del_same {α} (m : List (GoStr × α)) (k : GoStr) : get (del m k) k = none := by
  unfold get del
  have : (m.filter (·.1 != k)).find? (·.1 == k) = none := by
    rw [List.find?_eq_none]
    intro x hx
    simp only [List.mem_filter, bne_iff_ne, ne_eq] at hx
    simp [hx.2]
  rw [this]; rfl

theorem get_del_other {α} (m : List (GoStr × α)) (k k' : GoStr) (h : k' ≠ k) :
    get (del m k) k' = get m k' := by
  unfold get del
  rw [find_filter_ne m k k' h]

end Px
