import GohtVerif.Proofs.Lemmas.LexOut
/-! Every state function adds at most two tokens to the queue per invocation. -/
namespace GL

attribute [local irreducible] L.emit L.errorf emitIfPending L.next L.backup L.peek L.skip L.acceptRun
  L.acceptUntil L.skipRun L.skipUntil L.skipAhead L.peekAhead L.continueToMatchingBrace
  L.continueToMatchingQuote L.ignore L.dropS L.validateIndent gohtStartLoop gohtStartSig

/-- closes `X.out.length ≤ l.out.length + k` goals after unfolding a state function -/
macro "out_bound" : tactic => `(tactic| (
  repeat' split
  all_goals (show _ + 0 ≤ _)
  all_goals repeat' (first
    | omega
    | simp only [peek_out, next_out, skip_out, backup_out, ignore_out, acceptRun_out, acceptUntil_out,
        skipRun_out, skipUntil_out, skipAhead_out, peekAhead_out, brace_out, dropS_out]
    | refine Nat.le_trans (Nat.add_le_add_right (emit_out_le _ _) _) ?_
    | refine Nat.le_trans (Nat.add_le_add_right (emitIfPending_out_le _ _) _) ?_
    | refine Nat.le_trans (Nat.add_le_add_right (errorf_out_le _ _) _) ?_)))

theorem lexGoLineStart_out (l : L) : (lexGoLineStart l).1.out.length ≤ l.out.length + 1 := by
  unfold lexGoLineStart; simp only []; out_bound
theorem lexGoLineEnd_out (l : L) : (lexGoLineEnd l).1.out.length ≤ l.out.length + 1 := by
  unfold lexGoLineEnd; simp only []; out_bound
theorem lexPackage_out (l : L) : (lexPackage l).1.out.length ≤ l.out.length + 1 := by
  unfold lexPackage; simp only []; out_bound
theorem lexImportStart_out (l : L) : (lexImportStart l).1.out.length ≤ l.out.length + 1 := by
  unfold lexImportStart; simp only []; out_bound
theorem lexImports_out (l : L) : (lexImports l).1.out.length ≤ l.out.length + 1 := by
  unfold lexImports; simp only []; out_bound
theorem lexGoCode_out (l : L) : (lexGoCode l).1.out.length ≤ l.out.length + 1 := by
  unfold lexGoCode; simp only []; out_bound
theorem lexTemplate_out (l : L) : (lexTemplate l).1.out.length ≤ l.out.length + 1 := by
  unfold lexTemplate; simp only []; out_bound
theorem lexGohtLineStart_out (l : L) : (lexGohtLineStart l).1.out.length ≤ l.out.length + 1 := by
  unfold lexGohtLineStart; simp only []; out_bound
theorem lexGohtContentStart_out (l : L) : (lexGohtContentStart l).1.out.length ≤ l.out.length + 1 := by
  unfold lexGohtContentStart; simp only []; out_bound
theorem lexGohtContent_out (l : L) : (lexGohtContent l).1.out.length ≤ l.out.length + 1 := by
  unfold lexGohtContent; simp only []; out_bound
theorem lexGohtContentEnd_out (l : L) : (lexGohtContentEnd l).1.out.length ≤ l.out.length + 1 := by
  unfold lexGohtContentEnd; simp only []; out_bound
theorem lexGohtLineEnd_out (l : L) : (lexGohtLineEnd l).1.out.length ≤ l.out.length + 1 := by
  unfold lexGohtLineEnd; simp only []; out_bound
theorem lexGohtNewLine_out (l : L) : (lexGohtNewLine l).1.out.length ≤ l.out.length + 1 := by
  unfold lexGohtNewLine; simp only []; out_bound
theorem lexObjectReference_out (l : L) : (lexObjectReference l).1.out.length ≤ l.out.length + 1 := by
  unfold lexObjectReference; simp only []; out_bound
theorem lexGohtAttributesStart_out (l : L) : (lexGohtAttributesStart l).1.out.length ≤ l.out.length + 1 := by
  unfold lexGohtAttributesStart; simp only []; out_bound
theorem lexGohtAttributesEnd_out (l : L) : (lexGohtAttributesEnd l).1.out.length ≤ l.out.length + 1 := by
  unfold lexGohtAttributesEnd; simp only []; out_bound
theorem lexGohtAttribute_out (l : L) : (lexGohtAttribute l).1.out.length ≤ l.out.length + 1 := by
  unfold lexGohtAttribute; simp only []; out_bound
theorem lexGohtAttributeNameTail_out (l : L) : (lexGohtAttributeNameTail l).1.out.length ≤ l.out.length + 1 := by
  unfold lexGohtAttributeNameTail; simp only []; out_bound
theorem lexGohtAttributeOperator_out (l : L) : (lexGohtAttributeOperator l).1.out.length ≤ l.out.length + 1 := by
  unfold lexGohtAttributeOperator; simp only []; out_bound
theorem lexGohtAttributeValue_out (l : L) : (lexGohtAttributeValue l).1.out.length ≤ l.out.length + 1 := by
  unfold lexGohtAttributeValue; simp only []; out_bound
theorem lexGohtAttributeDynamicValue_out (l : L) : (lexGohtAttributeDynamicValue l).1.out.length ≤ l.out.length + 1 := by
  unfold lexGohtAttributeDynamicValue; simp only []; out_bound
theorem lexAttributeCommandStart_out (l : L) : (lexAttributeCommandStart l).1.out.length ≤ l.out.length + 1 := by
  unfold lexAttributeCommandStart; simp only []; out_bound
theorem lexGohtAttributeCommand_out (l : L) : (lexGohtAttributeCommand l).1.out.length ≤ l.out.length + 1 := by
  unfold lexGohtAttributeCommand; simp only []; out_bound
theorem lexGohtAttributeEnd_out (l : L) : (lexGohtAttributeEnd l).1.out.length ≤ l.out.length + 1 := by
  unfold lexGohtAttributeEnd; simp only []; out_bound
theorem lexWhitespaceRemoval_out (l : L) : (lexWhitespaceRemoval l).1.out.length ≤ l.out.length + 1 := by
  unfold lexWhitespaceRemoval; simp only []; out_bound
theorem lexGohtTextStart_out (l : L) : (lexGohtTextStart l).1.out.length ≤ l.out.length + 1 := by
  unfold lexGohtTextStart; simp only []; out_bound
theorem lexGohtTextContent_out (l : L) : (lexGohtTextContent l).1.out.length ≤ l.out.length + 1 := by
  unfold lexGohtTextContent; simp only []; out_bound
theorem lexGohtDoctype_out (l : L) : (lexGohtDoctype l).1.out.length ≤ l.out.length + 1 := by
  unfold lexGohtDoctype; simp only []; out_bound
theorem lexGohtUnescaped_out (l : L) : (lexGohtUnescaped l).1.out.length ≤ l.out.length + 1 := by
  unfold lexGohtUnescaped; simp only []; out_bound
theorem lexGohtSilentScript_out (l : L) : (lexGohtSilentScript l).1.out.length ≤ l.out.length + 1 := by
  unfold lexGohtSilentScript; simp only []; out_bound
theorem lexGohtOutputCode_out (l : L) : (lexGohtOutputCode l).1.out.length ≤ l.out.length + 1 := by
  unfold lexGohtOutputCode; simp only []; out_bound
theorem lexComment_out (l : L) : (lexComment l).1.out.length ≤ l.out.length + 1 := by
  unfold lexComment; simp only []; out_bound
theorem lexVoidTag_out (l : L) : (lexVoidTag l).1.out.length ≤ l.out.length + 1 := by
  unfold lexVoidTag; simp only []; out_bound
theorem lexGohtCommandCode_out (l : L) : (lexGohtCommandCode l).1.out.length ≤ l.out.length + 1 := by
  unfold lexGohtCommandCode; simp only []; out_bound
theorem lexFilterStart_out (l : L) : (lexFilterStart l).1.out.length ≤ l.out.length + 1 := by
  unfold lexFilterStart; simp only []; out_bound

theorem hamlIdentifier_out (t : TT) (l : L) : (hamlIdentifier t l).1.out.length ≤ l.out.length + 1 := by
  unfold hamlIdentifier; simp only []; out_bound
theorem validateIndent_out (l : L) (i : GoStr) (r : L × St) (h : l.validateIndent i = some r) :
    r.1.out.length ≤ l.out.length + 1 := by
  unfold L.validateIndent at h
  simp only [] at h
  repeat' (split at h)
  all_goals first
    | (cases h; done)
    | (injection h with h; subst h; exact errorf_out_le _ _)
theorem lexGohtIndent_out (l : L) : (lexGohtIndent l).1.out.length ≤ l.out.length + 1 := by
  unfold lexGohtIndent; simp only []
  split
  · out_bound
  · split
    · out_bound
    · split
      · rename_i r h
        refine Nat.le_trans (validateIndent_out _ _ _ h) ?_
        simp only [acceptRun_out]; omega
      · out_bound
theorem ignoreIndentedLines_out (n : Nat) (l : L) : (ignoreIndentedLines n l).1.out.length ≤ l.out.length + 1 := by
  unfold ignoreIndentedLines; simp only []
  split
  · out_bound
  · split
    · split
      · out_bound
      · split
        · rename_i r h
          refine Nat.le_trans (validateIndent_out _ _ _ h) ?_
          simp only [peekAhead_out, peek_out]; omega
        · out_bound
    · out_bound
theorem gohtStartSig_out (l : L) : (sumL (gohtStartSig l)).out = l.out := by
  unfold gohtStartSig
  simp only []
  rw [gohtStartLoop_out]
  split <;> simp
theorem lexGohtStart_out (l : L) : (lexGohtStart l).1.out.length ≤ l.out.length + 1 := by
  unfold lexGohtStart
  have h := gohtStartSig_out l
  split
  · rename_i l' heq
    rw [heq] at h; simp only [sumL] at h
    refine Nat.le_trans (errorf_out_le _ _) ?_
    rw [h]; omega
  · rename_i l' heq
    rw [heq] at h; simp only [sumL] at h
    simp only [skipRun_out]
    refine Nat.le_trans (emit_out_le _ _) ?_
    simp only [next_out]
    rw [h]; omega
theorem lexGohtAttributeName_out (l : L) : (lexGohtAttributeName l).1.out.length ≤ l.out.length + 2 := by
  unfold lexGohtAttributeName; simp only []
  split
  · have hq := quote_out_le (l.peek.1.peek.1) .attrName false
    simp only [peek_out] at hq
    split
    · refine Nat.le_trans (errorf_out_le _ _) ?_; omega
    · split
      · refine Nat.le_trans (errorf_out_le _ _) ?_; omega
      · refine Nat.le_trans (lexGohtAttributeNameTail_out _) ?_; omega
  · split
    · out_bound
    · refine Nat.le_trans (lexGohtAttributeNameTail_out _) ?_
      have := emit_out_le ((l.peek.1.peek.1).acceptUntil Gen.lexGohtAttributeName_acceptUntil0) .attrName
      simp only [acceptUntil_out, peek_out] at this
      omega
theorem lexGohtAttributeStaticValue_out (l : L) : (lexGohtAttributeStaticValue l).1.out.length ≤ l.out.length + 2 := by
  unfold lexGohtAttributeStaticValue; simp only []
  have hq := quote_out_le l .attrEscapedValue true
  split
  · refine Nat.le_trans (errorf_out_le _ _) ?_; omega
  · split
    · refine Nat.le_trans (errorf_out_le _ _) ?_; omega
    · simp only []; omega
theorem dynamicText_out (t : TT) (ss : List Nat) (nx : St) (l : L) : (dynamicText t ss nx l).1.out.length ≤ l.out.length + 2 := by
  unfold dynamicText; simp only []; out_bound
theorem lexGohtDynamicText_out (l : L) : (lexGohtDynamicText l).1.out.length ≤ l.out.length + 2 := dynamicText_out ..
theorem lexFilterDynamicText_out (n : Nat) (t : TT) (l : L) : (lexFilterDynamicText n t l).1.out.length ≤ l.out.length + 2 := dynamicText_out ..
theorem lexFilterLineStart_out (n : Nat) (t : TT) (l : L) : (lexFilterLineStart n t l).1.out.length ≤ l.out.length + 1 := by
  unfold lexFilterLineStart; simp only []; out_bound
theorem lexFilterIndent_out (n : Nat) (t : TT) (l : L) : (lexFilterIndent n t l).1.out.length ≤ l.out.length + 1 := by
  unfold lexFilterIndent; simp only []; out_bound
theorem lexFilterContent_out (n : Nat) (t : TT) (l : L) : (lexFilterContent n t l).1.out.length ≤ l.out.length + 1 := by
  unfold lexFilterContent; simp only []; out_bound

/-- **Queue bound**: one state invocation adds at most two tokens. -/
theorem step_out_le (st : St) (l : L) : (step st l).1.out.length ≤ l.out.length + 2 := by
  cases st <;> simp only [step]
  case halt => omega
  case errHalt => omega
  case goLineStart => have := lexGoLineStart_out l; omega
  case goLineEnd => have := lexGoLineEnd_out l; omega
  case package => have := lexPackage_out l; omega
  case importStart => have := lexImportStart_out l; omega
  case imports => have := lexImports_out l; omega
  case goCode => have := lexGoCode_out l; omega
  case template => have := lexTemplate_out l; omega
  case gohtStart => have := lexGohtStart_out l; omega
  case gohtLineStart => have := lexGohtLineStart_out l; omega
  case gohtIndent => have := lexGohtIndent_out l; omega
  case contentStart => have := lexGohtContentStart_out l; omega
  case content => have := lexGohtContent_out l; omega
  case contentEnd => have := lexGohtContentEnd_out l; omega
  case lineEnd => have := lexGohtLineEnd_out l; omega
  case newLine => have := lexGohtNewLine_out l; omega
  case tag => have := hamlIdentifier_out .tag l; unfold lexGohtTag; omega
  case id => have := hamlIdentifier_out .id l; unfold lexGohtId; omega
  case cls => have := hamlIdentifier_out .cls l; unfold lexGohtClass; omega
  case objRef => have := lexObjectReference_out l; omega
  case attrsStart => have := lexGohtAttributesStart_out l; omega
  case attrsEnd => have := lexGohtAttributesEnd_out l; omega
  case «attribute» => have := lexGohtAttribute_out l; omega
  case attrName => have := lexGohtAttributeName_out l; omega
  case attrOp => have := lexGohtAttributeOperator_out l; omega
  case attrValue => have := lexGohtAttributeValue_out l; omega
  case attrStatic => have := lexGohtAttributeStaticValue_out l; omega
  case attrDynamic => have := lexGohtAttributeDynamicValue_out l; omega
  case attrCmdStart => have := lexAttributeCommandStart_out l; omega
  case attrCmd => have := lexGohtAttributeCommand_out l; omega
  case attrEnd => have := lexGohtAttributeEnd_out l; omega
  case wsRemoval => have := lexWhitespaceRemoval_out l; omega
  case textStart => have := lexGohtTextStart_out l; omega
  case textContent => have := lexGohtTextContent_out l; omega
  case dynText => have := lexGohtDynamicText_out l; omega
  case doctype => have := lexGohtDoctype_out l; omega
  case unescaped => have := lexGohtUnescaped_out l; omega
  case silent => have := lexGohtSilentScript_out l; omega
  case ignoreIndented n => have := ignoreIndentedLines_out n l; omega
  case outputCode => have := lexGohtOutputCode_out l; omega
  case comment => have := lexComment_out l; omega
  case voidTag => have := lexVoidTag_out l; omega
  case commandCode => have := lexGohtCommandCode_out l; omega
  case filterStart => have := lexFilterStart_out l; omega
  case filterLineStart n t => have := lexFilterLineStart_out n t l; omega
  case filterIndent n t => have := lexFilterIndent_out n t l; omega
  case filterContent n t => have := lexFilterContent_out n t l; omega
  case filterDyn n t => have := lexFilterDynamicText_out n t l; omega

end GL
