import GohtVerif.Proofs.Lemmas.LexClean
import GohtVerif.Proofs.Lemmas.LexQueue
/-! Which state functions emit Go-fragment tokens: only the seven that are built for it. -/
namespace GL

/-- token types whose text is a Go fragment copied into the generated code and mapped back -/
def isFrag : TT → Bool
  | .script | .silentScript | .objectRef | .attrDynamicValue | .dynamicText | .attributesCommand | .renderCommand
  | .goCode | .package | .import | .gohtStart => true
  | _ => false

/-- no fragment token among those emitted so far by this invocation -/
def NF (l : L) : Prop := ∀ x ∈ l.out, isFrag x.typ = false

theorem nf_eq {l l' : L} (h : l'.out = l.out) (hn : NF l) : NF l' := by
  intro x hx; rw [h] at hx; exact hn x hx

theorem nf_next (l : L) (h : NF l) : NF (l.next).1 := nf_eq (next_out l) h
theorem nf_backup (l : L) (h : NF l) : NF l.backup := nf_eq (backup_out l) h
theorem nf_peek (l : L) (h : NF l) : NF (l.peek).1 := nf_eq (peek_out l) h
theorem nf_skip (l : L) (h : NF l) : NF (l.skip).1 := nf_eq (skip_out l) h
theorem nf_ignore (l : L) (h : NF l) : NF l.ignore := nf_eq (ignore_out l) h
theorem nf_peekAhead (l : L) (n : Nat) (h : NF l) : NF (l.peekAhead n).1 := nf_eq (peekAhead_out l n) h
theorem nf_acceptRun (l : L) (v : List Nat) (h : NF l) : NF (l.acceptRun v) := nf_eq (acceptRun_out l v) h
theorem nf_acceptUntil (l : L) (v : List Nat) (h : NF l) : NF (l.acceptUntil v) := nf_eq (acceptUntil_out l v) h
theorem nf_skipRun (l : L) (v : List Nat) (h : NF l) : NF (l.skipRun v) := nf_eq (skipRun_out l v) h
theorem nf_skipUntil (l : L) (v : List Nat) (h : NF l) : NF (l.skipUntil v) := nf_eq (skipUntil_out l v) h
theorem nf_skipAhead (l : L) (n : Nat) (h : NF l) : NF (l.skipAhead n) := nf_eq (skipAhead_out l n) h
theorem nf_brace (l : L) (e : Nat) (h : NF l) : NF (l.continueToMatchingBrace e).1 := nf_eq (brace_out l e) h
theorem nf_indent_iff (l : L) (n : Nat) : NF { l with indent := n } ↔ NF l := Iff.rfl

theorem nf_emit (l : L) (t0 : TT) (hp : isFrag t0 = false) (h : NF l) : NF (l.emit t0) := by
  unfold L.emit
  split
  · exact h
  · intro x hx
    simp only [List.mem_cons] at hx
    rcases hx with rfl | hx
    · exact hp
    · exact h x hx

theorem nf_emitIfPending (l : L) (t0 : TT) (hp : isFrag t0 = false) (h : NF l) : NF (emitIfPending l t0) := by
  unfold emitIfPending; split
  · exact nf_emit l t0 hp h
  · exact h

theorem nf_errorf (l : L) (m : EMsg) (h : NF l) : NF (l.errorf m).1 := by
  unfold L.errorf
  split
  · exact h
  · intro x hx
    simp only [List.mem_cons] at hx
    rcases hx with rfl | hx
    · rfl
    · exact h x hx

theorem nf_quote (l : L) (t : TT) (c : Bool) (hp : isFrag t = false) (h : NF l) : NF (l.continueToMatchingQuote t c).1 := by
  unfold L.continueToMatchingQuote
  have hpk := nf_peek l h
  generalize l.peek = pk at hpk
  obtain ⟨l1, quote⟩ := pk
  simp only [] at hpk ⊢
  split
  · exact hpk
  · have h2 : NF (if c = true then (l1.next).1 else (l1.skip).1) := by
      split
      · exact nf_next _ hpk
      · exact nf_skip _ hpk
    have hq : NF (quoteLoop quote ((if c = true then (l1.next).1 else (l1.skip).1).cur.rest.length + 1)
        (if c = true then (l1.next).1 else (l1.skip).1) false).1 := nf_eq (quoteLoop_out ..) h2
    generalize quoteLoop quote _ _ false = ql at hq
    obtain ⟨l2, atEof⟩ := ql
    simp only [] at hq ⊢
    split
    · exact hq
    · split
      · exact nf_emit _ _ hp hq
      · exact nf_skip _ (nf_emit _ _ hp (nf_backup _ hq))

theorem nf_validateIndent (l : L) (ind : GoStr) (r : L × St) (h : NF l) (hv : l.validateIndent ind = some r) : NF r.1 := by
  unfold L.validateIndent at hv
  by_cases h1 : ind.isEmpty = true
  · simp [h1] at hv
  · by_cases h2 : ind.length ≤ l.indent
    · simp [h1, h2] at hv
    · by_cases h3 : (32 : UInt8) ∈ ind
      · simp [h1, h2, h3] at hv; subst hv; exact nf_errorf _ _ h
      · by_cases h4 : ind.length > l.indent + 1
        · simp [h1, h2, h3, h4] at hv; subst hv; exact nf_errorf _ _ h
        · simp [h1, h2, h3, h4] at hv

theorem nf_peek_eq {l l1 : L} {c : Nat} (h : NF l) (e : l.peek = (l1, c)) : NF l1 := by
  have := nf_peek l h; rw [e] at this; exact this
theorem nf_skip_eq {l l1 : L} {c : Nat} (h : NF l) (e : l.skip = (l1, c)) : NF l1 := by
  have := nf_skip l h; rw [e] at this; exact this
theorem nf_peekAhead_eq {l l1 : L} {n : Nat} {s : GoStr} (h : NF l) (e : l.peekAhead n = (l1, s)) : NF l1 := by
  have := nf_peekAhead l n h; rw [e] at this; exact this

attribute [local irreducible] L.peek L.skip L.next L.backup L.dropS L.acceptRun L.acceptUntil L.skipRun L.skipUntil L.emit L.errorf emitIfPending L.peekAhead L.ignore L.skipAhead L.continueToMatchingBrace L.continueToMatchingQuote NF

macro "nf_step" : tactic => `(tactic| first
  | assumption
  | refine nf_emit _ _ rfl ?_
  | refine nf_emitIfPending _ _ rfl ?_
  | refine nf_errorf _ _ ?_
  | refine nf_skip _ ?_
  | refine nf_next _ ?_
  | refine nf_ignore _ ?_
  | refine nf_peekAhead _ _ ?_
  | refine nf_acceptRun _ _ ?_
  | refine nf_acceptUntil _ _ ?_
  | refine nf_skipRun _ _ ?_
  | refine nf_skipUntil _ _ ?_
  | refine nf_skipAhead _ _ ?_
  | refine nf_peek _ ?_
  | refine nf_backup _ ?_
  | refine nf_brace _ _ ?_
  | refine nf_quote _ _ _ rfl ?_
  | refine nf_peek_eq ?_ (by assumption)
  | refine nf_skip_eq ?_ (by assumption)
  | refine nf_peekAhead_eq ?_ (by assumption))

macro "nf_auto" : tactic => `(tactic| ((try simp only []); (repeat' split) <;> (try simp only [nf_indent_iff]) <;> (repeat nf_step)))

theorem n_lexGoLineEnd (l : L) (h : NF l) : NF (lexGoLineEnd l).1 := by
  unfold lexGoLineEnd; nf_auto
theorem n_lexTemplate (l : L) (h : NF l) : NF (lexTemplate l).1 := by
  unfold lexTemplate; nf_auto
theorem n_lexGohtLineStart (l : L) (h : NF l) : NF (lexGohtLineStart l).1 := by
  unfold lexGohtLineStart; nf_auto
theorem n_lexGohtContentStart (l : L) (h : NF l) : NF (lexGohtContentStart l).1 := by
  unfold lexGohtContentStart; nf_auto
theorem n_lexGohtContent (l : L) (h : NF l) : NF (lexGohtContent l).1 := by
  unfold lexGohtContent; nf_auto
theorem n_lexGohtContentEnd (l : L) (h : NF l) : NF (lexGohtContentEnd l).1 := by
  unfold lexGohtContentEnd; nf_auto
theorem n_lexGohtLineEnd (l : L) (h : NF l) : NF (lexGohtLineEnd l).1 := by
  unfold lexGohtLineEnd; nf_auto
theorem n_lexGohtNewLine (l : L) (h : NF l) : NF (lexGohtNewLine l).1 := by
  unfold lexGohtNewLine; nf_auto
theorem n_lexGohtAttributesStart (l : L) (h : NF l) : NF (lexGohtAttributesStart l).1 := by
  unfold lexGohtAttributesStart; nf_auto
theorem n_lexGohtAttributesEnd (l : L) (h : NF l) : NF (lexGohtAttributesEnd l).1 := by
  unfold lexGohtAttributesEnd; nf_auto
theorem n_lexGohtAttribute (l : L) (h : NF l) : NF (lexGohtAttribute l).1 := by
  unfold lexGohtAttribute; nf_auto
theorem n_lexGohtAttributeNameTail (l : L) (h : NF l) : NF (lexGohtAttributeNameTail l).1 := by
  unfold lexGohtAttributeNameTail; nf_auto
theorem n_lexGohtAttributeOperator (l : L) (h : NF l) : NF (lexGohtAttributeOperator l).1 := by
  unfold lexGohtAttributeOperator; nf_auto
theorem n_lexGohtAttributeValue (l : L) (h : NF l) : NF (lexGohtAttributeValue l).1 := by
  unfold lexGohtAttributeValue; nf_auto
theorem n_lexGohtAttributeStaticValue (l : L) (h : NF l) : NF (lexGohtAttributeStaticValue l).1 := by
  unfold lexGohtAttributeStaticValue; nf_auto
theorem n_lexAttributeCommandStart (l : L) (h : NF l) : NF (lexAttributeCommandStart l).1 := by
  unfold lexAttributeCommandStart; nf_auto
theorem n_lexGohtAttributeEnd (l : L) (h : NF l) : NF (lexGohtAttributeEnd l).1 := by
  unfold lexGohtAttributeEnd; nf_auto
theorem n_lexWhitespaceRemoval (l : L) (h : NF l) : NF (lexWhitespaceRemoval l).1 := by
  unfold lexWhitespaceRemoval; nf_auto
theorem n_lexGohtTextStart (l : L) (h : NF l) : NF (lexGohtTextStart l).1 := by
  unfold lexGohtTextStart; nf_auto
theorem n_lexGohtTextContent (l : L) (h : NF l) : NF (lexGohtTextContent l).1 := by
  unfold lexGohtTextContent; nf_auto
theorem n_lexGohtDoctype (l : L) (h : NF l) : NF (lexGohtDoctype l).1 := by
  unfold lexGohtDoctype; nf_auto
theorem n_lexGohtUnescaped (l : L) (h : NF l) : NF (lexGohtUnescaped l).1 := by
  unfold lexGohtUnescaped; nf_auto
theorem n_lexComment (l : L) (h : NF l) : NF (lexComment l).1 := by
  unfold lexComment; nf_auto
theorem n_lexVoidTag (l : L) (h : NF l) : NF (lexVoidTag l).1 := by
  unfold lexVoidTag; nf_auto
theorem n_lexFilterStart (l : L) (h : NF l) : NF (lexFilterStart l).1 := by
  unfold lexFilterStart; nf_auto

theorem n_hamlIdentifier (t : TT) (ht : isFrag t = false) (l : L) (h : NF l) : NF (hamlIdentifier t l).1 := by
  unfold hamlIdentifier; simp only []
  split
  · exact nf_errorf _ _ (nf_acceptUntil _ _ (nf_skip _ h))
  · exact nf_emit _ _ ht (nf_acceptUntil _ _ (nf_skip _ h))

theorem n_lexGohtAttributeName (l : L) (h : NF l) : NF (lexGohtAttributeName l).1 := by
  unfold lexGohtAttributeName; simp only []
  repeat' split
  all_goals (try refine n_lexGohtAttributeNameTail _ ?_)
  all_goals repeat nf_step

theorem n_lexGohtIndent (l : L) (h : NF l) : NF (lexGohtIndent l).1 := by
  unfold lexGohtIndent; simp only []
  have h1 := nf_acceptRun l Gen.lexGohtIndent_acceptRun0 h
  split
  · exact nf_errorf _ _ h1
  · split
    · exact nf_emit _ _ rfl ((nf_indent_iff _ _).2 h1)
    · split
      · rename_i r hv; exact nf_validateIndent _ _ r h1 hv
      · exact nf_emit _ _ rfl ((nf_indent_iff _ _).2 h1)

theorem n_ignoreIndentedLines (n : Nat) (l : L) (h : NF l) : NF (ignoreIndentedLines n l).1 := by
  unfold ignoreIndentedLines; simp only []
  have h1 := nf_peek l h
  split
  · exact nf_skip _ h1
  · split
    · have h2 := nf_peekAhead _ n h1
      split
      · exact h2
      · split
        · rename_i r hv; exact nf_validateIndent _ _ r h2 hv
        · exact nf_skipUntil _ _ h2
    · split
      · exact nf_emit _ _ rfl h1
      · exact h1

theorem n_lexFilterLineStart (n : Nat) (t : TT) (l : L) (h : NF l) : NF (lexFilterLineStart n t l).1 := by
  unfold lexFilterLineStart; nf_auto
theorem n_lexFilterIndent (n : Nat) (t : TT) (l : L) (h : NF l) : NF (lexFilterIndent n t l).1 := by
  unfold lexFilterIndent; nf_auto
theorem n_lexFilterContent (n : Nat) (t : TT) (ht : isFrag t = false) (l : L) (h : NF l) : NF (lexFilterContent n t l).1 := by
  unfold lexFilterContent; simp only []
  split
  · exact nf_peek _ (nf_acceptUntil _ _ h)
  · exact nf_emitIfPending _ _ ht (nf_acceptRun _ _ (nf_peek _ (nf_acceptUntil _ _ h)))

end GL
