import GohtVerif.Model.Lexer
/-! The lexer never panics and never calls `UnreadRune` without a preceding `ReadRune`.

`Inv` is what every lexer primitive preserves; `JustRead` is what an explicit `backup()` needs in
addition: the previous operation was a `next()` that delivered a rune. -/
namespace GL

/-- what the lexer relies on for a rune delivered by the reader (true of every rune `decodeAll` yields) -/
def RuneOK (r : Rune) : Prop :=
  1 ≤ r.width ∧ r.width ≤ r.enc.length ∧ (r.cp = 10 → r.enc = [10] ∧ r.width = 1) ∧ (r.cp ≠ 10 → countNl r.enc = 0)

def CurOK (c : Cur) : Prop := (∀ r ∈ c.rest, RuneOK r) ∧ (∀ r, c.last = some r → RuneOK r)

def Inv (l : L) : Prop :=
  l.panic = false ∧ l.stuck = false ∧ CurOK l.cur ∧ countNl l.s < l.pos.length

/-- the previous operation was a `next` that delivered a rune (or delivered nothing: width 0) -/
def JustRead (l : L) : Prop :=
  l.width = 0 ∨
  ∃ r s0, l.cur.last = some r ∧ l.width = r.width ∧ l.s = s0 ++ r.enc ∧
    ((r.cp = 10 ∧ ∃ p ps, l.pos = 0 :: p :: ps ∧ countNl s0 < (p :: ps).length) ∨
     (r.cp ≠ 10 ∧ ∃ p ps, l.pos = p :: ps ∧ 1 ≤ p ∧ countNl s0 < (p :: ps).length))

theorem countNl_append (a b : GoStr) : countNl (a ++ b) = countNl a + countNl b := by
  simp [countNl, List.count_append]

theorem countNl_take_le (n : Nat) (s : GoStr) : countNl (s.take n) ≤ countNl s := by
  unfold countNl
  exact List.Sublist.count_le _ (List.take_sublist n s)

theorem u16_pos (r : Rune) : 1 ≤ r.u16 := by unfold Rune.u16; split <;> omega

theorem inv_next (l : L) (h : Inv l) : Inv (l.next).1 ∧ JustRead (l.next).1 := by
  obtain ⟨hp, hs, ⟨hr, hl⟩, hn⟩ := h
  unfold L.next Cur.next
  cases hrest : l.cur.rest with
  | nil =>
    simp only []
    refine ⟨⟨hp, hs, ⟨?_, ?_⟩, hn⟩, Or.inl rfl⟩
    · simp [hrest]
    · intro r hr'; simp at hr'
  | cons r rs =>
    simp only []
    have hrk : RuneOK r := hr r (by rw [hrest]; exact List.mem_cons_self)
    obtain ⟨hw1, hw2, hnl, hnn⟩ := hrk
    have hpos : ∃ p ps, l.pos = p :: ps := by
      cases hpp : l.pos with
      | nil => rw [hpp] at hn; simp at hn
      | cons p ps => exact ⟨p, ps, rfl⟩
    obtain ⟨p, ps, hpp⟩ := hpos
    by_cases hc : r.cp = 10
    · obtain ⟨he, _⟩ := hnl hc
      have hb : (r.cp == 10) = true := by simp [hc]
      refine ⟨⟨hp, hs, ⟨?_, ?_⟩, ?_⟩, Or.inr ⟨r, l.s, rfl, rfl, rfl, Or.inl ⟨hc, p + r.u16, ps, ?_, ?_⟩⟩⟩
      · intro x hx; exact hr x (by rw [hrest]; exact List.mem_cons_of_mem _ hx)
      · intro x hx; simp only [Option.some.injEq] at hx; subst hx; exact ⟨hw1, hw2, hnl, hnn⟩
      · simp only [bumpPos, hpp, hb, if_true, countNl_append, he, List.length_cons]
        have : countNl [10] = 1 := by decide
        rw [hpp] at hn; simp only [List.length_cons] at hn
        omega
      · simp [bumpPos, hpp, hb]
      · rw [hpp] at hn; simpa using hn
    · have hb : (r.cp == 10) = false := by simp [hc]
      refine ⟨⟨hp, hs, ⟨?_, ?_⟩, ?_⟩, Or.inr ⟨r, l.s, rfl, rfl, rfl, Or.inr ⟨hc, p + r.u16, ps, ?_, ?_, ?_⟩⟩⟩
      · intro x hx; exact hr x (by rw [hrest]; exact List.mem_cons_of_mem _ hx)
      · intro x hx; simp only [Option.some.injEq] at hx; subst hx; exact ⟨hw1, hw2, hnl, hnn⟩
      · simp only [bumpPos, hpp, hb, Bool.false_eq_true, if_false, countNl_append, hnn hc, List.length_cons]
        rw [hpp] at hn; simp only [List.length_cons] at hn
        omega
      · simp [bumpPos, hpp, hb]
      · have := u16_pos r; omega
      · rw [hpp] at hn; simpa using hn

theorem inv_dropS (l : L) (h : Inv l) (hw : l.width ≤ l.s.length) : Inv (l.dropS l.width) := by
  obtain ⟨hp, hs, hc, hn⟩ := h
  unfold L.dropS
  have : ¬ (l.s.length < l.width) := by omega
  simp only [this, if_false]
  exact ⟨hp, hs, hc, Nat.lt_of_le_of_lt (countNl_take_le _ _) hn⟩

theorem justRead_width_le (l : L) (h : Inv l) (hj : JustRead l) : l.width ≤ l.s.length := by
  rcases hj with h0 | ⟨r, s0, hl, hw, hs, _⟩
  · omega
  · have := (h.2.2.1.2 r hl).2.1
    rw [hw, hs, List.length_append]; omega

/-- `backup()` right after `next()` -/
theorem inv_backup (l : L) (h : Inv l) (hj : JustRead l) : Inv l.backup := by
  unfold L.backup
  split
  · exact h
  · rename_i hw0
    rcases hj with h0 | ⟨r, s0, hl, hw, hs, hpos⟩
    · exact absurd h0 hw0
    obtain ⟨hp, hst, ⟨hr, hlast⟩, hn⟩ := h
    have hrk := hlast r hl
    obtain ⟨hw1, hw2, hnl, hnn⟩ := hrk
    have hun : l.cur.unread = some { rest := r :: l.cur.rest, last := none } := by
      simp [Cur.unread, hl]
    rcases hpos with ⟨hc, p, ps, hpp, hcnt⟩ | ⟨hc, p, ps, hpp, hp1, hcnt⟩
    · -- the rune was a line feed: the line it opened is popped again
      obtain ⟨he, hwid⟩ := hnl hc
      have hub : unbumpPos l = { l with pos := (p - (if l.width = 4 then 2 else 1)) :: ps } := by
        simp [unbumpPos, hpp]
      simp only [hub, hun]
      unfold L.dropS
      have hlen : ¬ (l.s.length < l.width) := by rw [hs, hw, List.length_append]; omega
      simp only [hlen, if_false]
      refine ⟨hp, hst, ⟨?_, ?_⟩, ?_⟩
      · intro x hx
        simp only [List.mem_cons] at hx
        rcases hx with rfl | hx
        · exact ⟨hw1, hw2, hnl, hnn⟩
        · exact hr x hx
      · intro x hx; simp at hx
      · simp only [hs, he, hw, hwid, List.length_append, List.length_cons, List.length_nil, Nat.add_sub_cancel,
          List.take_left', List.length_cons]
        simpa using hcnt
    · have hub : unbumpPos l = { l with pos := (p - (if l.width = 4 then 2 else 1)) :: ps } := by
        unfold unbumpPos
        simp only [hpp]
        split
        · rename_i h0; simp at h0; omega
        · rename_i h0; simp at h0; omega
        · rename_i h0; simp only [List.cons.injEq] at h0; obtain ⟨rfl, rfl⟩ := h0; rfl
        · rename_i h0; simp at h0
      simp only [hub, hun]
      unfold L.dropS
      have hlen : ¬ (l.s.length < l.width) := by rw [hs, hw, List.length_append]; omega
      simp only [hlen, if_false]
      refine ⟨hp, hst, ⟨?_, ?_⟩, ?_⟩
      · intro x hx
        simp only [List.mem_cons] at hx
        rcases hx with rfl | hx
        · exact ⟨hw1, hw2, hnl, hnn⟩
        · exact hr x hx
      · intro x hx; simp at hx
      · have h1 := countNl_take_le (l.s.length - l.width) l.s
        have h2 : countNl l.s = countNl s0 := by rw [hs, countNl_append, hnn hc]; omega
        simp only [List.length_cons] at hcnt ⊢
        omega

theorem inv_peek (l : L) (h : Inv l) : Inv (l.peek).1 := by
  unfold L.peek
  have := inv_next l h
  exact inv_backup _ this.1 this.2

theorem inv_skip (l : L) (h : Inv l) : Inv (l.skip).1 := by
  unfold L.skip
  have := inv_next l h
  exact inv_dropS _ this.1 (justRead_width_le _ this.1 this.2)

theorem inv_ignore (l : L) (h : Inv l) : Inv l.ignore := by
  obtain ⟨hp, hs, hc, hn⟩ := h
  refine ⟨hp, hs, hc, ?_⟩
  simp only [L.ignore, countNl, List.count_nil]
  omega

theorem inv_peekAhead (l : L) (n : Nat) (h : Inv l) : Inv (l.peekAhead n).1 := by
  obtain ⟨hp, hs, ⟨hr, _⟩, hn⟩ := h
  refine ⟨hp, hs, ⟨hr, ?_⟩, hn⟩
  intro r hr'; simp [L.peekAhead] at hr'

theorem inv_indent (l : L) (n : Nat) (h : Inv l) : Inv { l with indent := n } := h

theorem position_some (l : L) (h : Inv l) : ∃ p, l.position = some p := by
  obtain ⟨_, _, _, hn⟩ := h
  unfold L.position
  simp only []
  have h1 : ¬ (countNl l.s ≥ l.pos.length) := by omega
  simp only [h1, if_false]
  have : l.pos[countNl l.s]? = some (l.pos[countNl l.s]'hn) := List.getElem?_eq_getElem hn
  rw [this]
  exact ⟨_, rfl⟩

theorem inv_emit (l : L) (t : TT) (h : Inv l) : Inv (l.emit t) := by
  obtain ⟨p, hp⟩ := position_some l h
  obtain ⟨h1, h2, h3, h4⟩ := h
  unfold L.emit
  rw [hp]
  refine ⟨h1, h2, h3, ?_⟩
  simp only [countNl, List.count_nil]
  omega

theorem inv_emitIfPending (l : L) (t : TT) (h : Inv l) : Inv (emitIfPending l t) := by
  unfold emitIfPending; split
  · exact inv_emit l t h
  · exact h

theorem inv_errorf (l : L) (m : EMsg) (h : Inv l) : Inv (l.errorf m).1 := by
  obtain ⟨p, hp⟩ := position_some l h
  unfold L.errorf
  rw [hp]
  exact h

theorem inv_acceptRunAux (v : List Nat) (n : Nat) (l : L) (h : Inv l) : Inv (acceptRunAux v n l) := by
  induction n generalizing l with
  | zero => simp only [acceptRunAux]; have := inv_next l h; exact inv_backup _ this.1 this.2
  | succ n ih =>
    simp only [acceptRunAux]
    have := inv_next l h
    split
    · exact ih _ this.1
    · exact inv_backup _ this.1 this.2
theorem inv_acceptRun (l : L) (v : List Nat) (h : Inv l) : Inv (l.acceptRun v) := inv_acceptRunAux _ _ _ h

theorem inv_acceptUntilAux (v : List Nat) (n : Nat) (l : L) (h : Inv l) : Inv (acceptUntilAux v n l) := by
  induction n generalizing l with
  | zero => simp only [acceptUntilAux]; have := inv_next l h; exact inv_backup _ this.1 this.2
  | succ n ih =>
    simp only [acceptUntilAux]
    have := inv_next l h
    split
    · exact ih _ this.1
    · exact inv_backup _ this.1 this.2
theorem inv_acceptUntil (l : L) (v : List Nat) (h : Inv l) : Inv (l.acceptUntil v) := inv_acceptUntilAux _ _ _ h

theorem inv_skipRunAux (v : List Nat) (n : Nat) (l : L) (h : Inv l) : Inv (skipRunAux v n l) := by
  induction n generalizing l with
  | zero => simp only [skipRunAux]; have := inv_next l h; exact inv_backup _ this.1 this.2
  | succ n ih =>
    simp only [skipRunAux]
    have := inv_next l h
    split
    · exact ih _ (inv_dropS _ this.1 (justRead_width_le _ this.1 this.2))
    · exact inv_backup _ this.1 this.2
theorem inv_skipRun (l : L) (v : List Nat) (h : Inv l) : Inv (l.skipRun v) := inv_skipRunAux _ _ _ h

theorem inv_skipUntilAux (v : List Nat) (n : Nat) (l : L) (h : Inv l) : Inv (skipUntilAux v n l) := by
  induction n generalizing l with
  | zero => simp only [skipUntilAux]; have := inv_next l h; exact inv_backup _ this.1 this.2
  | succ n ih =>
    simp only [skipUntilAux]
    have := inv_next l h
    split
    · exact ih _ (inv_dropS _ this.1 (justRead_width_le _ this.1 this.2))
    · exact inv_backup _ this.1 this.2
theorem inv_skipUntil (l : L) (v : List Nat) (h : Inv l) : Inv (l.skipUntil v) := inv_skipUntilAux _ _ _ h

theorem inv_nextN (n : Nat) (l : L) (h : Inv l) : Inv (nextN n l) := by
  induction n generalizing l with
  | zero => exact h
  | succ n ih => simp only [nextN]; exact ih _ (inv_next l h).1
theorem inv_skipAhead (l : L) (n : Nat) (h : Inv l) : Inv (l.skipAhead n) :=
  inv_ignore _ (inv_nextN n l h)

theorem inv_next1 (l : L) (h : Inv l) : Inv (l.next).1 := (inv_next l h).1

theorem inv_braceAux (e : Nat) (n : Nat) (l : L) (a b : Bool) (q : Nat) (h : Inv l) :
    Inv (continueToMatchingBraceAux e n l a b q).1 ∧
    ((continueToMatchingBraceAux e n l a b q).2 ≠ eof → JustRead (continueToMatchingBraceAux e n l a b q).1) := by
  induction n generalizing l a b q with
  | zero => simp [continueToMatchingBraceAux, h]
  | succ n ih =>
    simp only [continueToMatchingBraceAux]
    have hn := inv_next l h
    repeat' split
    all_goals first
      | exact ih _ _ _ _ hn.1
      | (refine ⟨hn.1, ?_⟩; intro _; exact hn.2)
      | (refine ⟨hn.1, ?_⟩; intro hc; exact absurd rfl hc)

theorem inv_brace (l : L) (e : Nat) (h : Inv l) :
    Inv (l.continueToMatchingBrace e).1 ∧
    ((l.continueToMatchingBrace e).2 ≠ eof → JustRead (l.continueToMatchingBrace e).1) :=
  inv_braceAux _ _ _ _ _ _ h

theorem inv_quoteLoop (q : Nat) (n : Nat) (l : L) (e : Bool) (h : Inv l) :
    Inv (quoteLoop q n l e).1 ∧ ((quoteLoop q n l e).2 = false → JustRead (quoteLoop q n l e).1) := by
  induction n generalizing l e with
  | zero => simp [quoteLoop, h]
  | succ n ih =>
    simp only [quoteLoop]
    have hn := inv_next l h
    repeat' split
    all_goals first
      | exact ih _ _ hn.1
      | (refine ⟨hn.1, ?_⟩; intro _; exact hn.2)
      | (refine ⟨hn.1, ?_⟩; intro hc; exact absurd hc (by decide))

theorem inv_quote (l : L) (t : TT) (c : Bool) (h : Inv l) : Inv (l.continueToMatchingQuote t c).1 := by
  unfold L.continueToMatchingQuote
  have hpk := inv_peek l h
  generalize l.peek = pk at hpk
  obtain ⟨l1, quote⟩ := pk
  simp only [] at hpk ⊢
  split
  · exact hpk
  · have h2 : Inv (if c = true then (l1.next).1 else (l1.skip).1) := by
      split
      · exact inv_next1 _ hpk
      · exact inv_skip _ hpk
    have hq := inv_quoteLoop quote ((if c = true then (l1.next).1 else (l1.skip).1).cur.rest.length + 1)
      (if c = true then (l1.next).1 else (l1.skip).1) false h2
    generalize quoteLoop quote _ _ false = ql at hq
    obtain ⟨l2, atEof⟩ := ql
    simp only [] at hq ⊢
    split
    · exact hq.1
    · rename_i hne
      have hf : atEof = false := by simpa using hne
      split
      · exact inv_emit _ _ hq.1
      · exact inv_skip _ (inv_emit _ _ (inv_backup _ hq.1 (hq.2 hf)))

theorem inv_validateIndent (l : L) (ind : GoStr) (r : L × St) (h : Inv l) (hv : l.validateIndent ind = some r) : Inv r.1 := by
  unfold L.validateIndent at hv
  by_cases h1 : ind.isEmpty = true
  · simp [h1] at hv
  · by_cases h2 : ind.length ≤ l.indent
    · simp [h1, h2] at hv
    · by_cases h3 : (32 : UInt8) ∈ ind
      · simp [h1, h2, h3] at hv; subst hv; exact inv_errorf _ _ h
      · by_cases h4 : ind.length > l.indent + 1
        · simp [h1, h2, h3, h4] at hv; subst hv; exact inv_errorf _ _ h
        · simp [h1, h2, h3, h4] at hv

def sumInv : Sum L L → Prop
  | .inl l => Inv l
  | .inr l => Inv l

theorem inv_gohtStartLoop (n : Nat) (l : L) (h : Inv l) : sumInv (gohtStartLoop n l) := by
  induction n generalizing l with
  | zero => exact h
  | succ n ih =>
    simp only [gohtStartLoop]
    have h1 := inv_acceptUntil l Gen.lexGohtStart_acceptUntil1 h
    split
    · exact h1
    · have h2 := inv_next1 _ h1
      split
      · exact h2
      · exact ih _ h2

end GL
