import GohtVerif.Proofs.Lemmas.LexQueue
import GohtVerif.Proofs.Lemmas.LexSafeStates
import GohtVerif.Proofs.Lemmas.LexRunes
/-! # C06 — the compiler is total: property theorems (lexer part)

Statements only; helper lemmas live in `Proofs/Lemmas`. -/
namespace GL.C06

/-- The token queue can hold what one state invocation emits (read from `make(chan token, N)`). -/
theorem chanCap_ge_two : 2 ≤ Gen.chanCap := by decide

/-- **Queue bound** — for every lexer state and every lexer configuration, one invocation of the
state function emits at most `Gen.chanCap` tokens; the parser drains the queue before the next
invocation, so the lexer never blocks on its own channel. -/
theorem step_fits_queue (st : St) (l : L) :
    (step st { l with out := [] }).1.out.length ≤ Gen.chanCap := by
  have h := step_out_le st { l with out := [] }
  have h2 := chanCap_ge_two
  simp only [List.length_nil] at h
  omega

/-- **No deadlock** — no input, no state, no amount of fuel makes the run end in `deadlock`. -/
theorem run_never_deadlocks (n : Nat) (st : St) (l : L) (acc : List Tok) :
    (run n st l acc).outcome ≠ .deadlock := by
  induction n generalizing st l acc with
  | zero => simp [run]
  | succ n ih =>
    unfold run
    split
    · simp
    · simp only []
      split
      · simp
      · split
        · simp
        · split
          · rename_i h
            have := step_fits_queue st l
            omega
          · split
            · simp
            · exact ih _ _ _

theorem lex_never_deadlocks (input : GoStr) : (lexResult input).outcome ≠ .deadlock :=
  run_never_deadlocks _ _ _ _

/-- non-vacuity: a concrete import group is lexed completely. -/
example : (lexResult [105, 109, 112, 111, 114, 116, 32, 40, 10, 34, 97, 34, 10, 34, 98, 34, 10, 41, 10]).outcome = .ok := by decide +kernel

/-- **No panic, no misplaced `UnreadRune`** — from a configuration that meets the invariant, no
state, no amount of fuel and no input makes the run end in `panic` (slice or index out of range in
`backup`, `skip`, `position`) or `stuck` (`UnreadRune` without a preceding successful `ReadRune`).
The invariant `Inv` is preserved by every one of the 49 state functions (`step_inv`). -/
theorem run_never_panics (n : Nat) (st : St) (l : L) (acc : List Tok) (h : Inv l) :
    (run n st l acc).outcome ≠ .panic ∧ (run n st l acc).outcome ≠ .stuck := by
  induction n generalizing st l acc with
  | zero => simp [run]
  | succ n ih =>
    have h1 : Inv (step st { l with out := [] }).1 := step_inv st _ h
    obtain ⟨hp, hs, _, _⟩ := h1
    unfold run
    split
    · simp
    · simp only [hp, hs, Bool.false_eq_true, if_false]
      split
      · simp
      · split
        · simp
        · exact ih _ _ _ (step_inv st _ h)

/-- for every input: the lexer neither panics nor calls `UnreadRune` out of turn -/
theorem lex_never_panics (input : GoStr) :
    (lexResult input).outcome ≠ .panic ∧ (lexResult input).outcome ≠ .stuck :=
  run_never_panics _ _ _ _ (inv_initL input)

-- PLANNED: run_has_enough_fuel — lexicographic measure (remaining runes, rank state) decreases per step
-- PLANNED: parse_total / emit_total — parser loop measure, emitter structural

end GL.C06
