import GohtVerif.Proofs.Lemmas.LexQueue
/-! # C06 — the compiler is total: property theorems (lexer part)

Statements only; helper lemmas live in `Proofs/Lemmas`. -/
namespace GL.C06

/-- The token queue can hold what one state invocation emits (read from `make(chan token, N)`). -/
theorem chanCap_ge_two : 2 ≤ Gen.chanCap := by decide

/-- **Queue bound** — for every lexer state and every lexer configuration, one invocation of the
state function emits at most `Gen.chanCap` tokens; the parser drains the queue before the next
invocation, so the lexer never blocks on its own channel. -/
theorem step_fits_queue (st : St) (l : L) :
    (step st { l with out := [] }).1.out.length ≤ Gen.chanCap := by
  have h := step_out_le st { l with out := [] }
  have h2 := chanCap_ge_two
  simp only [List.length_nil] at h
  omega

/-- **No deadlock** — no input, no state, no amount of fuel makes the run end in `deadlock`. -/
theorem run_never_deadlocks (n : Nat) (st : St) (l : L) (acc : List Tok) :
    (run n st l acc).outcome ≠ .deadlock := by
  induction n generalizing st l acc with
  | zero => simp [run]
  | succ n ih =>
    unfold run
    split
    · simp
    · simp only []
      split
      · simp
      · split
        · simp
        · split
          · rename_i h
            have := step_fits_queue st l
            omega
          · split
            · simp
            · exact ih _ _ _

theorem lex_never_deadlocks (input : GoStr) : (lexResult input).outcome ≠ .deadlock :=
  run_never_deadlocks _ _ _ _

/-- non-vacuity: a concrete import group is lexed completely. -/
example : (lexResult [105, 109, 112, 111, 114, 116, 32, 40, 10, 34, 97, 34, 10, 34, 98, 34, 10, 41, 10]).outcome = .ok := by decide +kernel

-- PLANNED: run_never_panics — ∀ input, (lexResult input).outcome ≠ .panic (invariant `Good` over all primitives)
-- PLANNED: run_never_stuck — UnreadRune is only ever called right after a successful ReadRune
-- PLANNED: run_has_enough_fuel — lexicographic measure (remaining runes, rank state) decreases per step
-- PLANNED: parse_total / emit_total — parser loop measure, emitter structural

end GL.C06
