import GohtVerif.Proofs.C11
/-! # C03 — accepted templates compile; type errors surface at Go compile time

Go's type checker is not modelled (trusted base): "a well-typed sink makes the wrong type a compile
error" is decided by the oracle (real `go build` of every generated file and of its ill-typed
mutants). What is proved concerns the shape of the generated text. -/
namespace GL.C03

/-- **Temporaries are numbered consecutively** — each request for a temporary increments the
counter by one and names the variable after the new value, so within one template function the
issued `__varN` carry pairwise different numbers. -/
theorem getVarName_spec (g : G) :
    (getVarName g).1.num = g.num + 1 ∧ (getVarName g).2 = bs "__var" ++ natToStr (g.num + 1) ∧
    (getVarName g).1.out = g.out ∧ (getVarName g).1.log = g.log := by
  simp [getVarName]

theorem getVarName_strictly_increasing (g : G) : g.num < (getVarName (getVarName g).1).1.num ∧
    (getVarName g).1.num < (getVarName (getVarName g).1).1.num := by
  simp only [getVarName]; omega

/-- **Imports** — no duplicate import lines and none of goht's own among the user imports,
whatever the file declares (see C11). -/
theorem no_duplicate_imports (toks : List Tok) :
    (C11.lits (toks.foldl addImport [])).Nodup ∧
    ∀ x ∈ C11.lits (toks.foldl addImport []), isOwnImport x = false :=
  C11.imports_nodup_and_not_default toks [] List.nodup_nil (by intro x hx; cases hx)

/-- **Block structure** — a control-flow line always opens a block, with or without its brace and
also when nothing is nested under it (so that `if cond` is never printed bare and `if cond {` never left
without the block an `else` can close), and a plain statement without nested lines never does. -/
theorem control_line_opens_block (o : Tok) (kids : List Node)
    (h : (Gen.openingStatements.any fun s => startsStmt (trimSpace o.lit) s) = true) : silentHasBlock o kids = true := by
  simp [silentHasBlock, h]

theorem plain_statement_has_no_block (o : Tok)
    (h : (Gen.openingStatements.any fun s => startsStmt (trimSpace o.lit) s) = false) : silentHasBlock o [] = false := by
  simp [silentHasBlock, h]

/-- **Keywords are whole words** — a statement whose first identifier merely begins with a keyword
(`format := x`, `iffy()`, `elsewhere`) is not that keyword's statement, for every keyword. -/
theorem keyword_prefix_of_identifier (s rest : GoStr) (c : UInt8)
    (hc : (c == 95 || c ≥ 128 || (48 ≤ c && c ≤ 57) || (97 ≤ c && c ≤ 122) || (65 ≤ c && c ≤ 90)) = true) :
    startsStmt (s ++ c :: rest) s = false := by
  simp only [startsStmt, List.drop_left, hc, Bool.not_true, Bool.and_false]

/-- and the keyword alone, or followed by a space, brace or parenthesis, is -/
theorem keyword_then_boundary (s rest : GoStr) (c : UInt8) (hc : c = 32 ∨ c = 123 ∨ c = 40) :
    startsStmt (s ++ c :: rest) s = true ∧ startsStmt s s = true := by
  have hp : ∀ t : GoStr, hasPrefix (s ++ t) s = true := by
    intro t; simp [hasPrefix]
  refine ⟨?_, ?_⟩
  · have := hp (c :: rest)
    rcases hc with h | h | h <;> subst h <;> simp [startsStmt, this] <;> decide
  · have := hp []
    simp only [List.append_nil] at this
    simp [startsStmt, this]

/-- the statement tables the emitter consults, as extracted from nodes.go on this run -/
theorem extracted_statement_tables :
    Gen.openingStatements = [[105, 102], [101, 108, 115, 101, 32, 105, 102], [101, 108, 115, 101], [102, 111, 114], [115, 119, 105, 116, 99, 104]] ∧
    Gen.elseStatements = [[101, 108, 115, 101], [101, 108, 115, 101, 32, 105, 102]] := by decide

-- NOT MODELLED: Go's type system — the oracle builds every generated file and its ill-typed mutants with the real toolchain
-- PLANNED: emitText t = printIR (emitIR t); bracesBalanced (emitText t) for balanced fragments

end GL.C03
