import GohtVerif.Model.Compile
/-! # C15 — compilation is deterministic; CLI and LSP emit the same code -/
namespace GL.C15

/-- **No source of nondeterminism in package compiler** (regenerated on every run by the extractor:
goroutines, map ranges, time, math/rand, os.Getenv) — the fact that licenses modelling the compiler
as a function of its input bytes. -/
theorem no_nondeterminism_sites : Gen.nondetSites = 0 := by decide

/-- **The compiler model is a function of the bytes** (stated to make the dependency explicit):
the text and the position runs depend on nothing else. -/
theorem compile_is_a_function (a b : GoStr) (h : a = b) :
    (compile a).text = (compile b).text ∧ (compile a).frags = (compile b).frags := by
  subst h; exact ⟨rfl, rfl⟩

/-- **Registering positions does not change the text** — `Add` only touches the log, so the code
emitted for the language server (with a source map) is the code emitted for the CLI (without). -/
theorem add_does_not_touch_text (g : G) (t : Tok) (r : Range) : (g.add t r).out = g.out ∧ (g.add t r).pos = g.pos ∧ (g.add t r).num = g.num := by
  simp [G.add]

/-- **The temporary counter is reset per template** — each `@goht` function numbers its `__varN`
from 1 again, whatever came before it in the file. -/
theorem getVarName_after_reset (g : G) : (getVarName { g with num := 0 }).2 = bs "__var" ++ natToStr 1 := by
  simp [getVarName]

-- PLANNED: sibling independence — the text emitted for template i is a function of node i alone (induction over the emitter)
-- SUPPORTING (not a proof): repeated / permuted / concurrent compilation of real code (16 goroutines), both code paths

end GL.C15
