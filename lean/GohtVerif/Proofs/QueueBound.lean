import GohtVerif.Model.Lexer
/-! Calibration: the token-queue bound for the prototype lexer model. -/
namespace GL

@[simp] theorem next_out (l : L) : (l.next).1.out = l.out := by
  unfold L.next; split <;> rfl

@[simp] theorem dropS_out (l : L) (n : Nat) : (l.dropS n).out = l.out := by
  unfold L.dropS; split <;> rfl

@[simp] theorem backup_out (l : L) : l.backup.out = l.out := by
  unfold L.backup
  split
  · rfl
  · simp only [dropS_out]
    split <;> split <;> rfl

@[simp] theorem peek_out (l : L) : (l.peek).1.out = l.out := by
  simp [L.peek]

@[simp] theorem peekAhead_out (l : L) (n : Nat) : (l.peekAhead n).1.out = l.out := rfl
@[simp] theorem ignore_out (l : L) : l.ignore.out = l.out := rfl
@[simp] theorem skip_out (l : L) : (l.skip).1.out = l.out := by simp [L.skip]

theorem acceptRunAux_out (v : List Nat) (n : Nat) (l : L) : (acceptRunAux v n l).out = l.out := by
  induction n generalizing l with
  | zero => simp [acceptRunAux]
  | succ n ih => simp only [acceptRunAux]; split <;> simp [ih]
@[simp] theorem acceptRun_out (l : L) (v : List Nat) : (l.acceptRun v).out = l.out := acceptRunAux_out ..

theorem acceptUntilAux_out (v : List Nat) (n : Nat) (l : L) : (acceptUntilAux v n l).out = l.out := by
  induction n generalizing l with
  | zero => simp [acceptUntilAux]
  | succ n ih => simp only [acceptUntilAux]; split <;> simp [ih]
@[simp] theorem acceptUntil_out (l : L) (v : List Nat) : (l.acceptUntil v).out = l.out := acceptUntilAux_out ..

theorem skipRunAux_out (v : List Nat) (n : Nat) (l : L) : (skipRunAux v n l).out = l.out := by
  induction n generalizing l with
  | zero => simp [skipRunAux]
  | succ n ih => simp only [skipRunAux]; split <;> simp [ih]
@[simp] theorem skipRun_out (l : L) (v : List Nat) : (l.skipRun v).out = l.out := skipRunAux_out ..

theorem skipUntilAux_out (v : List Nat) (n : Nat) (l : L) : (skipUntilAux v n l).out = l.out := by
  induction n generalizing l with
  | zero => simp [skipUntilAux]
  | succ n ih => simp only [skipUntilAux]; split <;> simp [ih]
@[simp] theorem skipUntil_out (l : L) (v : List Nat) : (l.skipUntil v).out = l.out := skipUntilAux_out ..

theorem nextN_out (n : Nat) (l : L) : (nextN n l).out = l.out := by
  induction n generalizing l with
  | zero => rfl
  | succ n ih => simp [nextN, ih]
@[simp] theorem skipAhead_out (l : L) (n : Nat) : (l.skipAhead n).out = l.out := by
  simp [L.skipAhead, nextN_out]

theorem emit_out_le (l : L) (t : TT) : (l.emit t).out.length ≤ l.out.length + 1 := by
  unfold L.emit; split <;> simp

theorem errorf_out_le (l : L) (m : String) : (l.errorf m).1.out.length ≤ l.out.length + 1 := by
  unfold L.errorf; split <;> simp

theorem braceAux_out (e : Nat) (n : Nat) (l : L) (a b : Bool) (q : Nat) :
    (continueToMatchingBraceAux e n l a b q).1.out = l.out := by
  induction n generalizing l a b q with
  | zero => simp [continueToMatchingBraceAux]
  | succ n ih =>
    simp only [continueToMatchingBraceAux]
    repeat' split
    all_goals simp [ih]
@[simp] theorem brace_out (l : L) (e : Nat) : (l.continueToMatchingBrace e).1.out = l.out := braceAux_out ..

#print axioms brace_out
end GL

namespace GL

/-! per-state definitions (what the production model will use: `step` only dispatches) -/
def stGoLineStart (l : L) : L × St :=
  let (l, c) := l.peek
  if c == ch 'p' then ((if !l.s.isEmpty then l.emit .goCode else l), .package)
  else if c == ch 'i' then ((if !l.s.isEmpty then l.emit .goCode else l), .importStart)
  else if c == ch '@' then (l, .template)
  else if c == 10 || c == 13 || c == eof then (l, .goLineEnd)
  else (l, .goCode)

def stGoLineEnd (l : L) : L × St :=
  let (l, c) := l.peek
  if c == 10 || c == 13 then
    let l := (l.next).1
    let (l, c2) := l.peek
    let l := if c2 == 13 then (l.next).1 else l
    (l.emit .newLine, .goLineStart)
  else if c == eof then (l.emit .eof, .halt)
  else l.errorf "unexpected character"

def setPkgStop : List Nat := [32, 40, 10]
def kwPackage : GoStr := [112, 97, 99, 107, 97, 103, 101]
def stPackage (l : L) : L × St :=
  let l := l.acceptUntil setPkgStop
  if l.s != kwPackage then (l, .goCode) else
  let l := l.ignore
  let l := l.skipRun [32]
  let l := l.acceptUntil [10]
  if l.s.isEmpty then l.errorf "package name expected"
  else (l.emit .package, .goLineEnd)

def stObjRef (l : L) : L × St :=
  let l := (l.skip).1
  let (l, r) := l.continueToMatchingBrace 93
  if r == eof then l.errorf "object reference not closed: eof" else
  let l := l.backup
  let l := l.emit .objectRef
  ((l.skip).1, .content)

macro "out_bound" : tactic => `(tactic| (
  repeat' split
  all_goals first
    | (simp; done)
    | (refine Nat.le_trans (emit_out_le _ _) ?_; simp; done)
    | (refine Nat.le_trans (errorf_out_le _ _) ?_; simp; done)))

theorem stGoLineStart_out (l : L) : (stGoLineStart l).1.out.length ≤ l.out.length + 1 := by
  unfold stGoLineStart; simp only []; out_bound

theorem stGoLineEnd_out (l : L) : (stGoLineEnd l).1.out.length ≤ l.out.length + 1 := by
  unfold stGoLineEnd; simp only []; out_bound

end GL
