import GohtVerif.Model.Compile
import GohtVerif.Proofs.Lemmas.LexIndent
import GohtVerif.Proofs.C18
/-! # C10 — malformed templates are rejected with a located error (local rules, unbounded)

Each theorem is about one documented rule and holds for every lexer / parser configuration in
which the offending construct starts. The global claim ("wherever the fault is injected in any
valid template") composes these with reachability of that configuration; that composition is tied
(O-parse: accepted | rejected(line, col)) and searched by the fault-injection oracle. -/
namespace GL.C10

/-- **Indentation rule** — `validateIndent` refuses exactly the indents that are deeper than the
previous line and contain a space, or are deeper by more than one level. -/
theorem validateIndent_rejects_iff (l : L) (indent : GoStr) :
    (l.validateIndent indent).isSome ↔
      (l.indent < indent.length ∧ ((32 : UInt8) ∈ indent ∨ l.indent + 1 < indent.length)) := by
  unfold L.validateIndent
  by_cases h0 : indent.isEmpty
  · have : indent = [] := by simpa using h0
    subst this; simp
  · by_cases h1 : indent.length ≤ l.indent
    · have : ¬ (l.indent < indent.length) := by omega
      simp [h0, h1, this]
    · have h1' : l.indent < indent.length := by omega
      by_cases h2 : (32 : UInt8) ∈ indent
      · simp [h0, h1, h2, h1']
      · by_cases h3 : indent.length > l.indent + 1
        · have : l.indent + 1 < indent.length := h3
          simp [h0, h1, h2, h3, h1']
        · have : ¬ (l.indent + 1 < indent.length) := by omega
          simp [h0, h1, h2, h3, h1', this]

theorem errorf_isErr (l : L) (m : EMsg) : (l.errorf m).2 = .errHalt ∨ (l.errorf m).1.panic = true := by
  unfold L.errorf; split <;> simp

/-- what it refuses, it refuses with an error token (or the position computation would panic) -/
theorem validateIndent_error (l : L) (indent : GoStr) (r : L × St) (h : l.validateIndent indent = some r) :
    r.2 = .errHalt ∨ r.1.panic = true := by
  unfold L.validateIndent at h
  simp only [] at h
  repeat' (split at h)
  all_goals first
    | (cases h; done)
    | (injection h with h; subst h; exact errorf_isErr _ _)

/-- **Every template starts over** — after the declaration line the remembered indentation is 0,
whatever the previous template left behind. -/
theorem template_start_resets_indent (l : L) : (sumL (gohtStartSig l)).indent = 0 := by
  unfold gohtStartSig
  simp only []
  rw [gohtStartLoop_indent]
  split <;> simp [L.ignore]

/-- **First line must be indented** — with remembered indentation 0, a line that starts without
blank or tab is refused. -/
theorem first_line_not_indented (l : L) (h0 : l.indent = 0)
    (hne : (l.acceptRun Gen.lexGohtIndent_acceptRun0).s = []) :
    (lexGohtIndent l).2 = .errHalt ∨ (lexGohtIndent l).1.panic = true := by
  unfold lexGohtIndent
  simp only [acceptRun_indent, h0, hne, List.length_nil, beq_self_eq_true, Bool.and_self, if_true]
  exact errorf_isErr _ _

/-- **Deeper with spaces / by more than one level** — `lexGohtIndent` refuses such a line. -/
theorem bad_indent_rejected (l : L) (hne : (l.acceptRun Gen.lexGohtIndent_acceptRun0).s ≠ [])
    (hbad : l.indent < (l.acceptRun Gen.lexGohtIndent_acceptRun0).s.length ∧
      ((32 : UInt8) ∈ (l.acceptRun Gen.lexGohtIndent_acceptRun0).s ∨
        l.indent + 1 < (l.acceptRun Gen.lexGohtIndent_acceptRun0).s.length)) :
    (lexGohtIndent l).2 = .errHalt ∨ (lexGohtIndent l).1.panic = true := by
  have hv := (validateIndent_rejects_iff (l.acceptRun Gen.lexGohtIndent_acceptRun0)
    (l.acceptRun Gen.lexGohtIndent_acceptRun0).s).mpr (by simpa using hbad)
  have hlen : (l.acceptRun Gen.lexGohtIndent_acceptRun0).s.length ≠ 0 := by
    intro h; exact hne (List.eq_nil_of_length_eq_zero h)
  unfold lexGohtIndent
  simp only []
  split
  · rename_i h
    simp only [Bool.and_eq_true, beq_iff_eq] at h
    exact absurd h.2 hlen
  · split
    · rename_i h
      simp only [beq_iff_eq] at h
      exact absurd h hlen
    · split
      · rename_i r hr; exact validateIndent_error _ _ _ hr
      · rename_i hr; rw [hr] at hv; simp at hv

/-- **Unknown `= @` command** — any command word other than `render` and `children` is refused. -/
theorem unknown_command_rejected (l : L)
    (hs : ((l.skipRun Gen.lexGohtCommandCode_skipRun0).acceptUntil Gen.lexGohtCommandCode_acceptUntil0).s ≠ kwRender)
    (hc : ((l.skipRun Gen.lexGohtCommandCode_skipRun0).acceptUntil Gen.lexGohtCommandCode_acceptUntil0).s ≠ kwChildren) :
    (lexGohtCommandCode l).2 = .errHalt ∨ (lexGohtCommandCode l).1.panic = true := by
  unfold lexGohtCommandCode
  simp only []
  have h1 : (((l.skipRun Gen.lexGohtCommandCode_skipRun0).acceptUntil Gen.lexGohtCommandCode_acceptUntil0).s == kwRender) = false := by
    simpa using hs
  have h2 : (((l.skipRun Gen.lexGohtCommandCode_skipRun0).acceptUntil Gen.lexGohtCommandCode_acceptUntil0).s == kwChildren) = false := by
    simpa using hc
  simp only [h1, h2, Bool.false_eq_true, if_false]
  split <;> exact errorf_isErr _ _

/-- **Unknown filter** — a filter name outside the extracted list `Gen.filters` is refused. -/
theorem unknown_filter_rejected (l : L)
    (h : Gen.filters.contains ((l.skipRun Gen.lexFilterStart_skipRun0).acceptUntil Gen.lexFilterStart_acceptUntil0).s = false) :
    (lexFilterStart l).2 = .errHalt ∨ (lexFilterStart l).1.panic = true := by
  unfold lexFilterStart
  simp only [h, Bool.not_false, if_true]
  split <;> exact errorf_isErr _ _

/-- **Content after `/`** — a self-closing marker followed by anything but the end of line is refused. -/
theorem content_after_slash_rejected (l : L)
    (h : ((l.skipRun Gen.lexVoidTag_skipRun0).acceptUntil Gen.lexVoidTag_acceptUntil0).s ≠ []) :
    (lexVoidTag l).2 = .errHalt ∨ (lexVoidTag l).1.panic = true := by
  unfold lexVoidTag
  simp only []
  have : (!((l.skipRun Gen.lexVoidTag_skipRun0).acceptUntil Gen.lexVoidTag_acceptUntil0).s.isEmpty) = true := by
    cases hh : ((l.skipRun Gen.lexVoidTag_skipRun0).acceptUntil Gen.lexVoidTag_acceptUntil0).s with
    | nil => exact absurd hh h
    | cons a b => simp
  simp only [this, if_true]
  exact errorf_isErr _ _

/-- **Unknown attribute command** — `{@word: …}` with a word other than `attributes` is refused. -/
theorem unknown_attribute_command_rejected (l : L)
    (h : ((l.skipRun Gen.lexAttributeCommandStart_skipRun0).acceptUntil Gen.lexAttributeCommandStart_acceptUntil0).s ≠ kwAttributes) :
    (lexAttributeCommandStart l).2 = .errHalt ∨ (lexAttributeCommandStart l).1.panic = true := by
  unfold lexAttributeCommandStart
  simp only []
  have h1 : (((l.skipRun Gen.lexAttributeCommandStart_skipRun0).acceptUntil Gen.lexAttributeCommandStart_acceptUntil0).s == kwAttributes) = false := by
    simpa using h
  simp only [h1, Bool.false_eq_true, if_false]
  split <;> exact errorf_isErr _ _

/-- **`?` needs a dynamic value** (parser) — an attribute written `name ? <anything but #{…}>` makes
`parseAttributes` report an error positioned at the element. -/
theorem cond_attr_needs_dynamic_value (fuel : Nat) (p : P) (e : Elem) (name op : Tok) (rest : List Tok)
    (hp : p.toks = name :: op :: rest) (hn : name.typ = .attrName) (ho : op.typ = .attrOperator)
    (hq : op.lit = [63]) (hv : (rest.head?.getD eofTok).typ ≠ .attrDynamicValue) :
    (parseAttributes (fuel+1) p e).2 = some (errAt e.origin "expected dynamic value") := by
  unfold parseAttributes
  simp only [P.peek, P.next, hp, List.head?_cons, Option.getD_some, hn, List.tail_cons, ho]
  simp [hq, hv]

/-- **Content both inline and nested / under a void tag** (parser) — a completed element that may
not have children, followed by a deeper indent, is refused with an error at the element. -/
theorem illegal_nesting_rejected (p : P) (f : Frame) (rest : List Frame) (e : Elem) (t : Tok) (ts : List Tok)
    (hs : p.stack = f :: rest) (hf : f.head = .element e) (hc : e.isComplete = true)
    (hd : e.disallowChildren = true ∨ e.isSelfClosing = true)
    (ht : p.toks = t :: ts) (hi : t.typ = .indent) (hdeep : e.indent < (t.lit.length : Int)) :
    ∃ err, parseStep p = .error err ∧ err.line = e.origin.line ∧ err.col = e.origin.col := by
  unfold parseStep
  simp only [P.top, hs, List.head?_cons, Option.getD_some, hf, P.peek, ht, hc, hi, if_true,
    Bool.not_true, Bool.false_and, Bool.false_eq_true, if_false]
  have : ¬ ((t.lit.length : Int) ≤ e.indent) := by omega
  simp only [this, if_false]
  rcases hd with h | h
  · by_cases h2 : e.isSelfClosing = true
    · simp [h, h2, errAt]
    · simp [h, h2, errAt]
  · simp [h, errAt]

/-- **Content both inline and nested, inline command form** — when an element's line ends with an
inline `= @render …` / `= @children` (whose line break the lexer consumes, so that no line-break
token reaches the element) and a deeper line follows, the element is refused at its own position. -/
theorem inline_command_and_nested_rejected (p : P) (f : Frame) (rest : List Frame) (e : Elem) (t : Tok) (ts : List Tok)
    (hs : p.stack = f :: rest) (hf : f.head = .element e) (hc : e.isComplete = false)
    (hk : 0 < f.kids.length)
    (ht : p.toks = t :: ts) (hi : t.typ = .indent) (hdeep : e.indent < (t.lit.length : Int)) :
    ∃ err, parseStep p = .error err ∧ err.line = e.origin.line ∧ err.col = e.origin.col := by
  unfold parseStep
  have hnk : ¬ (f.kids.length = 0) := by omega
  have : ¬ ((t.lit.length : Int) ≤ e.indent) := by omega
  by_cases hsc : e.tag ∈ Gen.selfClosedTags
  · simp [P.top, hs, hf, P.peek, ht, hc, hi, hk, this, hsc, errAt]
  · by_cases h2 : e.isSelfClosing = true
    · simp [P.top, hs, hf, P.peek, ht, hc, hi, hk, this, hsc, h2, errAt]
    · simp [P.top, hs, hf, P.peek, ht, hc, hi, hk, this, hsc, h2, errAt]

-- PLANNED: error positions are inside the file — 1 ≤ line ≤ lines(input), 1 ≤ col ≤ len(line)+1 for every token (lexer position theorem, shared with C07)
-- PLANNED: global composition — every reachable lexer state at a line start dispatches the constructs above to these state functions

/-- **No Go code is emitted for a rejected file by the command-line generator** — in the model of
`goht generate` (any tree, flags, schedule; any compiler): a template that does not compile and had no
output has none after the run, and a previous output is left exactly as it was. -/
theorem generate_emits_nothing_for_rejected (cfg : Gn.Cfg) (fs : Gn.FS) (dom : List Gn.Path) (sched : List Gn.Act)
    (h : Gn.C18.IsRun cfg fs dom sched) (p : Gn.Path) (s : Gn.File) (hs : fs p = some s)
    (hrej : cfg.fc s.content = none) :
    Gn.runWith cfg fs sched p.outOf = fs p.outOf ∧ (fs p.outOf = none → Gn.runWith cfg fs sched p.outOf = none) := by
  have := Gn.C18.failing_untouched cfg fs dom sched h p s hs hrej
  exact ⟨this, fun h0 => by rw [this, h0]⟩


end GL.C10
