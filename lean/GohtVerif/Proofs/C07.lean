import GohtVerif.Proofs.C16
import GohtVerif.Proofs.Lemmas.WriterPos
import GohtVerif.Proofs.Lemmas.LexFragRun
/-! # C07 — the source map relates identical Go text in template and generated file

The composite claim is the conjunction of (a) the lexer reports the true start of every fragment,
(b) the writer reports the true start of what it writes, (c) `Add` relates equal offsets of equal
lines of the same literal, (d) lookups return what `Add` registered. (b), (c), (d) are proved here
for every input; (a) is proved for the tokens the lexer hands to the parser (`fragment_tokens_true_position`,
every input whose runes kept the width of their encoding, i.e. well-formed UTF-8); what the emitter then does
with a token's position (shift past a format verb, past trimmed blanks) is tied (O-emit.map: tables entry for
entry) and searched by the oracle. -/
namespace GL.C07

/-- (b) the range returned by `write s` starts where the writer stood, and the text grows by exactly `s`. -/
theorem write_range (g : G) (s : GoStr) :
    (g.write s).2.frm = g.pos ∧ (g.write s).1.out = s :: g.out ∧ (g.write s).2.to = (g.write s).1.pos := by
  unfold G.write; simp

/-- (b′) **the writer's position is the end of the text** — line = 1 + line breaks written, column =
1 + UTF-16 code units since the last line break: true at the start, and preserved by every write whose
current last line is well-formed UTF-8 (a rune is never cut in two by a chunk boundary; UTF-16 length
is additive exactly then — `utf16Len_append`, built on a proved decode/encode inversion of UTF-8). -/
theorem writer_position_initial : ({} : G).pos = posOf [] := rfl

theorem writer_tracks_position (g : G) (text s : GoStr) (hpos : g.pos = posOf text)
    (hvalid : ValidUtf8 (lastLineOf text)) : (g.write s).1.pos = posOf (text ++ s) :=
  write_tracks_position g text s hpos hvalid

/-- hence the range a write returns is the range of `s` inside the text: from the end of what was
there to the end of what is there now -/
theorem write_range_is_text_range (g : G) (text s : GoStr) (hpos : g.pos = posOf text)
    (hvalid : ValidUtf8 (lastLineOf text)) :
    (g.write s).2.frm = posOf text ∧ (g.write s).2.to = posOf (text ++ s) := by
  obtain ⟨h1, _, h3⟩ := write_range g s
  exact ⟨by rw [h1, hpos], by rw [h3, write_tracks_position g text s hpos hvalid]⟩

/-- non-vacuity: two chunks, the second on a new line after a non-ASCII rune and an astral rune -/
example : (posOf [97, 0xC3, 0xA9, 10, 0xF0, 0x9F, 0x98, 0x80, 98]).line = 2 ∧ (posOf [97, 0xC3, 0xA9, 10, 0xF0, 0x9F, 0x98, 0x80, 98]).col = 4 := by decide +kernel

/-- (c) `Add(t, r)` registers one run per line of the literal: line `k` of the literal is related
at source line `t.line-1+k` / target line `r.from.line-1+k`, starting at the token's / range's
column on the first line and at column 0 on continuation lines, over the whole line
(`utf16Len` code units, inclusive of the end). -/
theorem add_runs (t : Tok) (r : Range) :
    fragsOfAdd t r = (splitNl t.lit).mapIdx (fun k line =>
      { sl := t.line + k - 1, sc := if k == 0 then t.col - 1 else 0,
        tl := r.frm.line + k - 1, tc := if k == 0 then r.frm.col - 1 else 0, len := utf16Len line : Frag }) := by
  unfold fragsOfAdd
  suffices h : ∀ (ls : List GoStr) (i : Nat), fragsOfAdd.go t r i ls = ls.mapIdx (fun k line =>
      { sl := t.line + (i + k : Nat) - 1, sc := if i + k == 0 then t.col - 1 else 0,
        tl := r.frm.line + (i + k : Nat) - 1, tc := if i + k == 0 then r.frm.col - 1 else 0, len := utf16Len line : Frag }) by
    have := h (splitNl t.lit) 0
    simpa using this
  intro ls
  induction ls with
  | nil => intro i; simp [fragsOfAdd.go]
  | cons l ls ih =>
    intro i
    simp only [fragsOfAdd.go, List.mapIdx_cons]
    congr 1
    rw [ih (i+1)]
    apply List.ext_getElem
    · simp
    · intro n h1 h2
      simp only [List.getElem_mapIdx]
      have : i + 1 + n = i + (n + 1) := by omega
      simp [this]

/-- (d) + (c): inside a registered run, offset `i` of the source run translates to offset `i` of
the target run — the same offset of the same line of the same literal — whenever the runs of the
log are pairwise disjoint on the source side. -/
theorem same_offset (log : List Frag) (hS : log.Pairwise DisjS) (f : Frag) (hf : f ∈ log) (i : Nat) (hi : i ≤ f.len) :
    toTgt log f.sl (f.sc + i) = some (f.tl, f.tc + i) := toTgt_mem log hS f hf i hi

/-- non-vacuity: a two-line literal registers two runs, the second at column 0 on both sides -/
example : fragsOfAdd { typ := .attrDynamicValue, lit := [97, 44, 10, 98], line := 4, col := 7 }
    { frm := { line := 20, col := 31 }, to := { line := 21, col := 2 } } =
    [⟨3, 6, 19, 30, 2⟩, ⟨4, 0, 20, 0, 1⟩] := by decide +kernel

/-- (a) **the lexer reports the true start of every Go fragment** — for every input, every token of a
fragment type — inside templates: script, silent script, dynamic attribute value, interpolation, object
reference, `@render` arguments, `@attributes` arguments, the template declaration; outside: Go code lines,
package clause, imports (every token type whose text the emitter registers in the position map) — that the
lexer delivers has as its text a contiguous stretch `sr` of the
input, `input = pre ++ sr ++ rest` (as runes), and as its (line, column) the 1-based line and the 1-based
UTF-16 column of the first character of that stretch: the number of lines of `pre`, and one more than the
UTF-16 length of `pre`'s last line.  Rests on four invariants of all 49 state functions: the lexer's
line/column bookkeeping is the true position of the read cursor (`step_tinv`), the fragment states inside
templates are only entered with an empty pending literal (`step_clean`), the Go-code states hand each other a
pending literal that is the input text in front of the cursor (`step_contig`), and only the fragment states
emit fragment tokens (`step_frag`).  Hypothesis: no rune of the input was read from an ill-formed byte (then Go appends the
three-byte U+FFFD to the literal but cuts one byte off when it skips or backs up). -/
theorem fragment_tokens_true_position (input : GoStr) (hwf : WF (decodeAll input)) :
    ∀ t ∈ (lexResult input).toks, isFrag t.typ = true → TokAt (decodeAll input) t := by
  have hg : Good (decodeAll input) := ⟨runeOK_decodeFuel _ _, encOK_decodeFuel _ _, hwf⟩
  exact run_frag hg _ _ _ [] (tinv_initL input) (fun h => by cases h) (fun _ => snil_sinv _ ⟨tinv_initL input, rfl⟩) rfl (fun t ht => by cases ht)

/-- in every configuration the lexer passes through, its line/column bookkeeping is the UTF-16 position of
the read cursor (lines read so far, current line first; a line's length includes its line feed) -/
theorem lexer_bookkeeping_is_cursor_position (input : GoStr) (st : St) (l : L) (h : Reach input st l) :
    ∃ done, decodeAll input = done ++ l.cur.rest ∧ l.pos = linesOf done := by
  obtain ⟨_, _, done, hin, hpos, _⟩ := reach_tinv input st l h
  exact ⟨done, hin, hpos⟩

/-- non-vacuity: a template with a non-ASCII rune before a fragment meets the hypothesis, and the script token
`s` of `%p= s` on line 3 is reported at line 3, column 6 (and the declaration `T(s string)` at line 1, column 7) -/
example : WF (decodeAll (bs "@goht T(s string) {\n\t%é\n\t%p= s\n}\n")) := by
  show ∀ r ∈ decodeAll (bs "@goht T(s string) {\n\t%é\n\t%p= s\n}\n"), r.width = r.enc.length
  decide +kernel
example : ((lexResult (bs "@goht T(s string) {\n\t%é\n\t%p= s\n}\n")).toks.filter (fun t => isFrag t.typ)).map (fun t => (t.lit, t.line, t.col))
    = [([84, 40, 115, 32, 115, 116, 114, 105, 110, 103, 41], 1, 7), ([115], 3, 6)] := by decide +kernel

-- PLANNED: coverage — every fragment kind of the grammar reaches exactly one `Add`

end GL.C07
