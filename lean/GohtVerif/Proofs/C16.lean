import GohtVerif.Proofs.Lemmas.SourceMap
import GohtVerif.Proofs.Lemmas.WriterBounds
import GohtVerif.Model.Compile
import GohtVerif.Proofs.Lemmas.LexBounds
/-! # C16 — the position map is in-bounds and its two directions are mutually inverse

`toTgt`/`toSrc` are `TargetPositionFromSource`/`SourcePositionFromTarget` over the log of runs that
`SourceMap.Add` registered (newest first = "last write wins"). -/
namespace GL.C16

/-- **Round trip, source side** — for any log whose target runs are pairwise disjoint, translating
any mapped template position to generated code and back returns the original position. -/
theorem roundtrip_src (log : List Frag) (hT : log.Pairwise DisjT)
    (l c : Int) (p : Int × Int) (h : toTgt log l c = some p) : toSrc log p.1 p.2 = some (l, c) := by
  obtain ⟨f, hf, i, hi, rfl, rfl, rfl⟩ := toTgt_some log l c p h
  exact toSrc_mem log hT f hf i hi

/-- **Round trip, target side** — likewise starting from any mapped generated position, when the
source runs are pairwise disjoint. -/
theorem roundtrip_tgt (log : List Frag) (hS : log.Pairwise DisjS)
    (l c : Int) (p : Int × Int) (h : toSrc log l c = some p) : toTgt log p.1 p.2 = some (l, c) := by
  obtain ⟨f, hf, i, hi, rfl, rfl, rfl⟩ := toSrc_some log l c p h
  exact toTgt_mem log hS f hf i hi

/-- **Strictly increasing within one fragment** — inside a run the translation is `c ↦ tc + (c - sc)`
on one target line: two positions of the same run keep their order and their distance. -/
theorem monotone_in_run (log : List Frag) (hS : log.Pairwise DisjS) (f : Frag) (hf : f ∈ log)
    (i j : Nat) (hij : i < j) (hj : j ≤ f.len) :
    ∃ ti tj : Int, toTgt log f.sl (f.sc + i) = some (f.tl, ti) ∧ toTgt log f.sl (f.sc + j) = some (f.tl, tj) ∧
      ti < tj ∧ tj - ti = (j : Int) - i := by
  refine ⟨f.tc + i, f.tc + j, toTgt_mem log hS f hf i (by omega), toTgt_mem log hS f hf j hj, by omega, by omega⟩

/-- **Certified check** — the decidable test the driver evaluates on the `Add` log of every
compilation implies the hypotheses of the three theorems above. -/
theorem check_sound (log : List Frag) (h : allDisj disjS log = true ∧ allDisj disjT log = true) :
    log.Pairwise DisjS ∧ log.Pairwise DisjT :=
  ⟨allDisj_pairwise disjS DisjS disjS_iff log h.1, allDisj_pairwise disjT DisjT disjT_iff log h.2⟩

/-- Corollary for the model compiler: whenever the check passes on `(compile input).frags`, both
directions of that compilation's map are mutually inverse on every mapped position. -/
theorem compile_map_inverse (input : GoStr)
    (h : allDisj disjS (compile input).frags = true ∧ allDisj disjT (compile input).frags = true)
    (l c : Int) (p : Int × Int) :
    (toTgt (compile input).frags l c = some p → toSrc (compile input).frags p.1 p.2 = some (l, c)) ∧
    (toSrc (compile input).frags l c = some p → toTgt (compile input).frags p.1 p.2 = some (l, c)) :=
  let ⟨hS, hT⟩ := check_sound _ h
  ⟨roundtrip_src _ hT l c p, roundtrip_tgt _ hS l c p⟩

/-- **No two template positions share a generated position** (and conversely) — a consequence of the
round trips: on logs with disjoint runs both translations are injective on the positions they map. -/
theorem toTgt_injective (log : List Frag) (hT : log.Pairwise DisjT) (l c l' c' : Int) (p : Int × Int)
    (h : toTgt log l c = some p) (h' : toTgt log l' c' = some p) : (l, c) = (l', c') := by
  have a := roundtrip_src log hT l c p h
  have b := roundtrip_src log hT l' c' p h'
  rw [a] at b; exact Option.some.inj b

theorem toSrc_injective (log : List Frag) (hS : log.Pairwise DisjS) (l c l' c' : Int) (p : Int × Int)
    (h : toSrc log l c = some p) (h' : toSrc log l' c' = some p) : (l, c) = (l', c') := by
  have a := roundtrip_tgt log hS l c p h
  have b := roundtrip_tgt log hS l' c' p h'
  rw [a] at b; exact Option.some.inj b

/-- non-vacuity: two disjoint runs satisfy the hypotheses and a position translates both ways -/
example : let log : List Frag := [⟨3, 4, 10, 7, 5⟩, ⟨0, 8, 3, 8, 4⟩]
    allDisj disjS log = true ∧ allDisj disjT log = true ∧ toTgt log 3 6 = some (10, 9) ∧ toSrc log 10 9 = some (3, 6) := by
  decide

/-- the full statement is false without disjointness: overlapping target runs break the round trip
(this is what the `-1,-1` entries and non-ASCII columns produce on the real tables). -/
theorem roundtrip_needs_disjointness :
    ∃ log l c p, toTgt log l c = some p ∧ toSrc log p.1 p.2 ≠ some (l, c) :=
  ⟨[⟨1, 0, 5, 0, 3⟩, ⟨0, 0, 5, 0, 3⟩], 0, 0, (5, 0), by decide, by decide⟩

-- PLANNED: target_runs_disjoint — ∀ input, allDisj disjT (compile input).frags (append-only writer invariant through the emitter)
-- PLANNED: source_runs_disjoint_ascii — ∀ ASCII input, allDisj disjS (compile input).frags (token slices are disjoint)
/-- **Bounds on the generated side** — a run registered for a one-line chunk starts at the UTF-16
length of the generated line as it stood, ends exactly at the end of the line as it then is, and stays
inside the line whatever is written after it (for text whose lines are well-formed UTF-8). -/
theorem target_run_in_bounds (g : G) (text s more : GoStr) (hpos : g.pos = posOf text)
    (hvalid : ValidUtf8 (lastLineOf text)) (hvalid2 : ValidUtf8 (lastLineOf text ++ s)) (hs : (10 : UInt8) ∉ s) :
    (g.write s).2.frm.col - 1 = (utf16Len (lastLineOf text) : Nat) ∧
    utf16Len (lastLineOf text) + utf16Len s ≤ utf16Len (lastLineOf text ++ s ++ more) :=
  ⟨(run_ends_at_line_end g text s hpos hvalid hs).1, run_within_final_line text s more hvalid hvalid2⟩

/-- **Bounds on the template side** — for every well-formed UTF-8 input, every Go-fragment token the lexer
delivers starts inside the template: its line is one of the template's lines and its column is at most one
past the UTF-16 length of that line (line feed included).  A corollary of the lexer position theorem. -/
theorem fragment_start_in_template_bounds (input : GoStr) (hwf : WF (decodeAll input)) :
    ∀ t ∈ (lexResult input).toks, isFrag t.typ = true →
      ∃ w, 1 ≤ t.line ∧ (lineLens (decodeAll input))[(t.line - 1).toNat]? = some w ∧ 1 ≤ t.col ∧ t.col - 1 ≤ (w : Int) := by
  intro t ht hf
  have hg : Good (decodeAll input) := ⟨runeOK_decodeFuel _ _, encOK_decodeFuel _ _, hwf⟩
  exact tokAt_in_bounds _ t (run_frag hg _ _ _ [] (tinv_initL input) (fun h => by cases h) (fun _ => snil_sinv _ ⟨tinv_initL input, rfl⟩) rfl (fun t ht => by cases ht) t ht hf)

-- PLANNED: bounds of every later character of a fragment (needs the emitter's use of the token); multi-line chunks on the generated side

end GL.C16
