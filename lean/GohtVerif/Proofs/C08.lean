import GohtVerif.Proofs.Lemmas.Assoc
/-! # C08 — the Go language server always holds the compilation of the current buffer

All theorems are for **every compiler** `comp` (the proxy model is parametric in it) and for every
history of didOpen / didChange(full text) / didClose / didSave / publications / requests. -/
namespace Px.C08
open GL

/-- for every mirrored template buffer, the cached map and generated code are those of the
compilation of exactly that buffer -/
def Inv (comp : Comp) (s : St) : Prop :=
  ∀ u t, get s.srcs u = some t → get s.smc u = some (comp t).map ∧ get s.goSrcs u = some (comp t).text

theorem parseTemplate_keeps (comp : Comp) (s : St) (u t : GoStr) :
    (parseTemplate comp s u t).1.srcs = s.srcs ∧ (parseTemplate comp s u t).1.smc = s.smc ∧
    (parseTemplate comp s u t).1.goSrcs = s.goSrcs ∧ (parseTemplate comp s u t).2.1 = comp t := by
  unfold parseTemplate
  simp only []
  split <;> simp

/-- **One step preserves the invariant**, for every operation. -/
theorem inv_step (comp : Comp) (s : St) (op : Op) (h : Inv comp s) : Inv comp (step comp s op).1 := by
  cases op with
  | dopen uri text v =>
    simp only [step]
    split
    · exact h
    · obtain ⟨h1, h2, h3, h4⟩ := parseTemplate_keeps comp { s with srcs := put s.srcs uri text } uri text
      intro u t hu
      simp only [] at hu ⊢
      rw [h1] at hu
      rw [h2, h3, h4]
      by_cases hk : u = uri
      · subst hk
        rw [get_put_same] at hu; injection hu with hu; subst hu
        simp [get_put_same]
      · rw [get_put_other _ _ _ _ hk] at hu
        rw [get_put_other _ _ _ _ hk, get_put_other _ _ _ _ hk]
        exact h u t hu
  | change uri text v =>
    simp only [step]
    split
    · exact h
    · split
      · exact h
      · obtain ⟨h1, h2, h3, h4⟩ := parseTemplate_keeps comp { s with srcs := put s.srcs uri (lastSeg30 text) } uri (lastSeg30 text)
        intro u t hu
        simp only [] at hu ⊢
        rw [h1] at hu
        rw [h2, h3, h4]
        by_cases hk : u = uri
        · subst hk
          rw [get_put_same] at hu; injection hu with hu; subst hu
          simp [get_put_same]
        · rw [get_put_other _ _ _ _ hk] at hu
          rw [get_put_other _ _ _ _ hk, get_put_other _ _ _ _ hk]
          exact h u t hu
  | close uri =>
    simp only [step]
    split
    · exact h
    · intro u t hu
      simp only [] at hu ⊢
      by_cases hk : u = uri
      · subst hk; rw [get_del_same] at hu; cases hu
      · rw [get_del_other _ _ _ hk] at hu
        rw [get_del_other _ _ _ hk]
        exact h u t hu
  | save uri text => simp only [step]; split <;> exact h
  | showmsg m => simp only [step]; split <;> exact h
  | pubdiag uri ds =>
    simp only [step]
    split
    · exact h
    · intro u t hu; exact h u t hu
  | req m uri l c answer isNil detail =>
    simp only [step]
    repeat' split
    all_goals exact h

/-- **After any history** the invariant holds: the map used to translate later requests is the one
that belongs to the code the downstream server was given for the latest buffer content. -/
theorem inv_run (comp : Comp) (ops : List Op) (s : St) (h : Inv comp s) : Inv comp (run comp s ops).1 := by
  unfold run
  suffices hs : ∀ (acc : St × List Ev), Inv comp acc.1 →
      Inv comp (ops.foldl (fun (acc : St × List Ev) op => let (s', evs) := step comp acc.1 op; (s', acc.2 ++ evs)) acc).1 from
    hs (s, []) h
  induction ops with
  | nil => intro acc h; exact h
  | cons op rest ih =>
    intro acc h
    simp only [List.foldl_cons]
    exact ih _ (inv_step comp acc.1 op h)

theorem inv_init (comp : Comp) : Inv comp {} := by
  intro u t hu; simp [get] at hu

/-- **didOpen** of a template sends exactly the compiler's code for the buffer, under the
generated-file URI, with language id `go` and the editor's version. -/
theorem open_sends_compilation (comp : Comp) (s : St) (u t : GoStr) (v : Int) (hu : isGohtURI u = true) :
    Ev.dOpen (goURI u) v langGo (comp t).text ∈ (step comp s (.dopen u t v)).2 := by
  obtain ⟨_, _, _, h4⟩ := parseTemplate_keeps comp { s with srcs := put s.srcs u t } u t
  simp only [step, hu, Bool.not_true, Bool.false_eq_true, if_false]
  simp [h4]

/-- **didChange** of an open template sends exactly the compiler's code for the new content (the last
of the full-text content changes the notification carries). -/
theorem change_sends_compilation (comp : Comp) (s : St) (u t old : GoStr) (v : Int) (hu : isGohtURI u = true)
    (ho : get s.srcs u = some old) :
    Ev.dChange (goURI u) v (comp (lastSeg30 t)).text ∈ (step comp s (.change u t v)).2 := by
  obtain ⟨_, _, _, h4⟩ := parseTemplate_keeps comp { s with srcs := put s.srcs u (lastSeg30 t) } u (lastSeg30 t)
  simp only [step, hu, Bool.not_true, Bool.false_eq_true, if_false, ho]
  simp [h4]

/-- **didSave** never forwards template text: the payload is the generated code of the current buffer. -/
theorem save_sends_generated_code (comp : Comp) (s : St) (u t buf : GoStr) (hu : isGohtURI u = true)
    (hi : Inv comp s) (ho : get s.srcs u = some buf) :
    (step comp s (.save u t)).2 = [.dSave (goURI u) (some (comp buf).text), .rNotify "save"] := by
  simp only [step, hu, Bool.not_true, Bool.false_eq_true, if_false]
  rw [(hi u buf ho).2]; rfl

/-- **didClose** closes the generated file downstream and forgets the buffer. -/
theorem close_closes (comp : Comp) (s : St) (u : GoStr) (hu : isGohtURI u = true) :
    (step comp s (.close u)).2 = [.dClose (goURI u), .rNotify "close"] ∧ get (step comp s (.close u)).1.srcs u = none := by
  simp only [step, hu, Bool.not_true, Bool.false_eq_true, if_false]
  exact ⟨trivial, get_del_same _ _⟩

/-- **Template URIs are never shown downstream**: the generated-file URI is not a template URI. -/
theorem goURI_not_template (u : GoStr) : isGohtURI (goURI u) = false := by
  unfold isGohtURI goURI hasSuffix sfxGoht sfxGo
  simp only [List.reverse_append]
  -- the reversed URI starts with "og." while the reversed suffix starts with "thog."
  simp [List.isPrefixOf]

/-- non-vacuity: after `open a; change a` the invariant holds for a concrete (constant) compiler -/
example : let comp : Comp := fun t => { err := none, text := t ++ [33], map := [] }
    Inv comp (run comp {} [.dopen ([97] ++ sfxGoht) [120] 1, .change ([97] ++ sfxGoht) [121] 2]).1 :=
  inv_run _ _ _ (inv_init _)

end Px.C08
