import GohtVerif.Proofs.C16
import GohtVerif.Proofs.Lemmas.Assoc
/-! # C09 — LSP positions, ranges and URIs translate between template and generated file

Per-method theorems over the proxy model, for every state, position and scripted answer. -/
namespace Px.C09
open GL

def isPosMethod (m : String) : Prop := m ≠ "CodeLens" ∧ m ≠ "CodeAction"

/-- **No counterpart ⇒ empty answer, downstream not consulted** — for every position-based method:
when the map assigns no generated position to the request position, the only event is the empty
answer of that method (no downstream call, no error). -/
theorem unmapped_position (comp : Comp) (s : St) (m : String) (uri : GoStr) (l c : Int) (ans : List Loc) (n : Bool) (d : GoStr)
    (hm : isPosMethod m) (h : updatePosition s uri l c = none) :
    (step comp s (.req m uri l c ans n d)).2 = [emptyAnswer m] ∧ (step comp s (.req m uri l c ans n d)).1 = s := by
  have h1 : (m == "CodeLens") = false := by simpa using hm.1
  have h2 : (m == "CodeAction") = false := by simpa using hm.2
  simp [step, h1, h2, h]

/-- **Mapped position ⇒ the downstream server is asked about the generated file at the position
the map assigns** — the first event is that call, for every position-based method. -/
theorem mapped_position_call (comp : Comp) (s : St) (m : String) (uri : GoStr) (l c : Int) (ans : List Loc) (n : Bool) (d : GoStr)
    (hm : isPosMethod m) (gu : GoStr) (tl tc : Int) (h : updatePosition s uri l c = some (gu, tl, tc)) :
    (step comp s (.req m uri l c ans n d)).2.head? = some (Ev.dReq m gu tl tc) := by
  have h1 : (m == "CodeLens") = false := by simpa using hm.1
  have h2 : (m == "CodeAction") = false := by simpa using hm.2
  simp only [step, h1, h2, Bool.or_self, Bool.false_eq_true, if_false, h]
  split <;> (try split) <;> simp

/-- what `updatePosition` returns: the generated-file URI of the template and the map's target position -/
theorem updatePosition_spec (s : St) (uri : GoStr) (l c : Int) (gu : GoStr) (tl tc : Int)
    (h : updatePosition s uri l c = some (gu, tl, tc)) :
    isGohtURI uri = true ∧ gu = goURI uri ∧ ∃ fs, get s.smc uri = some fs ∧ toTgt fs l c = some (tl, tc) := by
  unfold updatePosition at h
  split at h
  · cases h
  · rename_i hu
    split at h
    · cases h
    · rename_i fs hfs
      split at h
      · cases h
      · rename_i tl' tc' ht
        simp only [Option.some.injEq, Prod.mk.injEq] at h
        obtain ⟨rfl, rfl, rfl⟩ := h
        exact ⟨by simpa using hu, rfl, fs, hfs, ht⟩

/-- **Locations in ordinary Go files are returned unchanged.** -/
theorem plain_location_unchanged (s : St) (x : Loc) (h : toGohtURI x.uri = none) : locBack s x = x := by
  simp [locBack, h]

/-- **Locations in a generated template file come back under that template's URI, translated with
that template's own map** (not the requesting template's). -/
theorem generated_location_translated (s : St) (x : Loc) (g : GoStr) (h : toGohtURI x.uri = some g) :
    locBack s x = { uri := g, r := mapRangeBack (get s.smc g) x.r } := by
  simp [locBack, h]

/-- a mapped end of a range is moved to the template position of the same text (C16 round trip applies) -/
theorem mapRangeBack_start (fs : List Frag) (r : Rng) (l c : Int) (h : toSrc fs r.sl r.sc = some (l, c)) :
    (mapRangeBack (some fs) r).sl = l ∧ (mapRangeBack (some fs) r).sc = c := by
  unfold mapRangeBack
  simp only [h]
  split <;> simp

/-- the four location-list methods answer with every scripted location translated by `locBack` -/
theorem location_methods_reply (comp : Comp) (s : St) (m : String) (uri : GoStr) (l c : Int) (ans : List Loc) (d : GoStr)
    (hm : m = "Definition" ∨ m = "TypeDefinition" ∨ m = "Implementation" ∨ m = "References")
    (gu : GoStr) (tl tc : Int) (h : updatePosition s uri l c = some (gu, tl, tc)) :
    (step comp s (.req m uri l c ans false d)).2 = [Ev.dReq m gu tl tc, Ev.rLocs m (some (ans.map (locBack s)))] := by
  rcases hm with rfl | rfl | rfl | rfl <;> simp [step, h]

-- TIE: O-proxy — every method x every position of two documents x four answer shapes, real proxy vs this model (0 mismatches required)

end Px.C09
