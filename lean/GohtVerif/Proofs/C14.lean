import GohtVerif.Model.Exec
import GohtVerif.Proofs.C02
/-! # C14 — output whitespace follows template layout and the whitespace-removal markers -/
namespace GL.C14

/-- neither marker sequence starts at the head of `s`, nor after leading white space -/
def clean1 (s : GoStr) : Bool :=
  !Gen.NukeAfter.isPrefixOf s && !Gen.NukeBefore.isPrefixOf (s.dropWhile isWS)

/-- no marker sequence starts anywhere in `s` (also not after a run of white space) -/
def MarkerFree : GoStr → Prop
  | [] => True
  | b :: rest => clean1 (b :: rest) = true ∧ MarkerFree rest

theorem eraseAux_markerFree (fuel : Nat) (s acc : GoStr) (h : MarkerFree s) (hf : s.length < fuel) :
    eraseAux fuel s acc = acc.reverse ++ s := by
  induction fuel generalizing s acc with
  | zero => omega
  | succ n ih =>
    cases s with
    | nil => simp [eraseAux]
    | cons b rest =>
      obtain ⟨h1, h2⟩ := h
      simp only [clean1, Bool.and_eq_true, Bool.not_eq_true'] at h1
      simp only [eraseAux, h1.1, h1.2, Bool.false_eq_true, if_false]
      rw [ih rest (b :: acc) h2 (by simp at hf; omega)]
      simp

/-- **The eraser removes nothing else** — a buffer in which no marker sequence occurs is written
out unchanged, byte for byte. -/
theorem erase_markerFree (s : GoStr) (h : MarkerFree s) : erase s = s := by
  unfold erase
  rw [eraseAux_markerFree _ _ _ h (by omega)]
  simp

/-- **`<` / `>` after an opening tag**: the marker and all white space immediately after it disappear. -/
theorem erase_nukeAfter (fuel : Nat) (rest acc : GoStr) :
    eraseAux (fuel+1) (Gen.NukeAfter ++ rest) acc = eraseAux fuel (rest.dropWhile isWS) acc := by
  have h : Gen.NukeAfter.isPrefixOf (Gen.NukeAfter ++ rest) = true := by
    simp [Gen.NukeAfter]
  have hd : (Gen.NukeAfter ++ rest).drop Gen.NukeAfter.length = rest := by simp
  cases hc : Gen.NukeAfter ++ rest with
  | nil => simp [Gen.NukeAfter] at hc
  | cons b r =>
    rw [← hc]
    simp only [eraseAux]
    rw [hc] 
    simp only []
    rw [← hc, h, hd]
    simp

theorem dropWhile_ws_append (ws t : GoStr) (hws : ∀ b ∈ ws, isWS b = true)
    (ht : ∀ b r, t = b :: r → isWS b = false) : (ws ++ t).dropWhile isWS = t := by
  induction ws with
  | nil =>
    cases t with
    | nil => rfl
    | cons b r => simp [ht b r rfl]
  | cons w ws ih =>
    have : isWS w = true := hws w (by simp)
    simp only [List.cons_append, List.dropWhile, this]
    exact ih (fun b hb => hws b (by simp [hb]))

/-- **`>` / `<` before a tag**: the marker and all white space immediately before it disappear. -/
theorem erase_nukeBefore (fuel : Nat) (ws rest acc : GoStr) (hws : ∀ b ∈ ws, isWS b = true) :
    eraseAux (fuel+1) (ws ++ (Gen.NukeBefore ++ rest)) acc = eraseAux fuel rest acc := by
  have hd : (ws ++ (Gen.NukeBefore ++ rest)).dropWhile isWS = Gen.NukeBefore ++ rest :=
    dropWhile_ws_append ws _ hws (by
      intro b r h
      have : b = 62 := by simp [Gen.NukeBefore] at h; exact h.1.symm
      subst this; decide)
  have hna : Gen.NukeAfter.isPrefixOf (ws ++ (Gen.NukeBefore ++ rest)) = false := by
    cases ws with
    | nil => simp [Gen.NukeAfter, Gen.NukeBefore, List.isPrefixOf]
    | cons w ws =>
      have hw : isWS w = true := hws w (by simp)
      have : w ≠ 126 := by intro h; subst h; exact absurd hw (by decide)
      simp [Gen.NukeAfter, List.isPrefixOf]
      intro h; exact absurd h.symm this
  cases hc : ws ++ (Gen.NukeBefore ++ rest) with
  | nil => cases ws <;> simp [Gen.NukeBefore] at hc
  | cons b r =>
    rw [← hc]
    simp only [eraseAux]
    rw [hc]
    simp only []
    rw [← hc, hna, hd]
    simp

theorem eraseAux_sublist (fuel : Nat) (s acc : GoStr) :
    ∃ r, eraseAux fuel s acc = acc.reverse ++ r ∧ r.Sublist s := by
  induction fuel generalizing s acc with
  | zero => exact ⟨[], by simp [eraseAux], List.nil_sublist _⟩
  | succ n ih =>
    cases s with
    | nil => exact ⟨[], by simp [eraseAux], List.nil_sublist _⟩
    | cons b rest =>
      simp only [eraseAux]
      split
      · obtain ⟨r, h1, h2⟩ := ih (((b :: rest).drop Gen.NukeAfter.length).dropWhile isWS) acc
        exact ⟨r, h1, h2.trans ((List.dropWhile_sublist _).trans (List.drop_sublist _ _))⟩
      · split
        · obtain ⟨r, h1, h2⟩ := ih (((b :: rest).dropWhile isWS).drop Gen.NukeBefore.length) acc
          exact ⟨r, h1, h2.trans ((List.drop_sublist _ _).trans (List.dropWhile_sublist _))⟩
        · obtain ⟨r, h1, h2⟩ := ih rest (b :: acc)
          exact ⟨b :: r, by simp [h1], h2.cons_cons b⟩

/-- **The eraser only removes** — whatever the buffer holds (markers in content included), the bytes
written out are bytes of the buffer, in their order: nothing is added, nothing is moved. -/
theorem erase_sublist (s : GoStr) : (erase s).Sublist s := by
  obtain ⟨r, h1, h2⟩ := eraseAux_sublist (s.length + 1) s []
  unfold erase; rw [h1]; simpa using h2

theorem erase_length_le (s : GoStr) : (erase s).length ≤ s.length := (erase_sublist s).length_le

/-- the hypotheses of `erase_nukeBefore` are met by a real buffer: blank, line break, marker, `<p>` -/
example : erase ([97, 32, 10] ++ (Gen.NukeBefore ++ [60, 112, 62])) = [97, 60, 112, 62] := by decide +kernel

/-- no marker sequence starts inside the prefix `a` of the buffer `a ++ t` (the text behind `a` counts:
a marker may straddle the boundary, white space at the end of `a` may lead up to a marker in `t`) -/
def CleanPre : GoStr → GoStr → Prop
  | [], _ => True
  | b :: r, t => clean1 (b :: (r ++ t)) = true ∧ CleanPre r t

theorem eraseAux_cleanPre (n : Nat) (a t acc : GoStr) (h : CleanPre a t) :
    eraseAux (n + a.length) (a ++ t) acc = eraseAux n t (a.reverse ++ acc) := by
  induction a generalizing acc with
  | nil => simp
  | cons b r ih =>
    obtain ⟨h1, h2⟩ := h
    simp only [clean1, Bool.and_eq_true, Bool.not_eq_true'] at h1
    have : n + (b :: r).length = (n + r.length) + 1 := by simp; omega
    rw [this]
    simp only [List.cons_append, eraseAux, h1.1, h1.2, Bool.false_eq_true, if_false]
    rw [ih _ h2]; simp

/-- **One `<` marker, whole buffer** — a buffer `a ~☢< ws b` in which no other marker occurs is written
out as `a b`: the marker and the white space after it are gone, every other byte stays. -/
theorem erase_one_nukeAfter (a ws b : GoStr) (ha : CleanPre a (Gen.NukeAfter ++ (ws ++ b)))
    (hws : ∀ x ∈ ws, isWS x = true) (hb0 : ∀ x r, b = x :: r → isWS x = false) (hb : MarkerFree b) :
    erase (a ++ (Gen.NukeAfter ++ (ws ++ b))) = a ++ b := by
  unfold erase
  have hl : (a ++ (Gen.NukeAfter ++ (ws ++ b))).length + 1 = ((Gen.NukeAfter.length + ws.length + b.length) + 1) + a.length := by
    simp; omega
  rw [hl, eraseAux_cleanPre _ _ _ _ ha, erase_nukeAfter, dropWhile_ws_append ws b hws hb0,
    eraseAux_markerFree _ _ _ hb (by simp [Gen.NukeAfter]; omega)]
  simp

/-- **One `>` marker, whole buffer** — likewise `a ws >☢~ b` is written out as `a b`. -/
theorem erase_one_nukeBefore (a ws b : GoStr) (ha : CleanPre a (ws ++ (Gen.NukeBefore ++ b)))
    (hws : ∀ x ∈ ws, isWS x = true) (hb : MarkerFree b) :
    erase (a ++ (ws ++ (Gen.NukeBefore ++ b))) = a ++ b := by
  unfold erase
  have hl : (a ++ (ws ++ (Gen.NukeBefore ++ b))).length + 1 = ((Gen.NukeBefore.length + ws.length + b.length) + 1) + a.length := by
    simp; omega
  rw [hl, eraseAux_cleanPre _ _ _ _ ha, erase_nukeBefore _ _ _ _ hws,
    eraseAux_markerFree _ _ _ hb (by simp [Gen.NukeBefore]; omega)]
  simp


theorem eraseAux_acc (fuel : Nat) (s acc : GoStr) : eraseAux fuel s acc = acc.reverse ++ eraseAux fuel s [] := by
  induction fuel generalizing s acc with
  | zero => simp [eraseAux]
  | succ n ih =>
    cases s with
    | nil => simp [eraseAux]
    | cons b rest =>
      simp only [eraseAux]
      split
      · exact ih _ _
      · split
        · exact ih _ _
        · rw [ih rest (b :: acc), ih rest [b]]; simp

/-- the fuel of the scanner is only a termination device: any amount above the length gives the same result -/
theorem eraseAux_fuel (fuel fuel' : Nat) (s : GoStr) (h : s.length < fuel) (h' : s.length < fuel') :
    eraseAux fuel s [] = eraseAux fuel' s [] := by
  induction fuel generalizing s fuel' with
  | zero => omega
  | succ n ih =>
    cases fuel' with
    | zero => omega
    | succ m =>
      cases s with
      | nil => simp [eraseAux]
      | cons b rest =>
        simp only [List.length_cons] at h h'
        simp only [eraseAux]
        split
        · have hl : (((b :: rest).drop Gen.NukeAfter.length).dropWhile isWS).length ≤ rest.length := by
            refine Nat.le_trans (List.dropWhile_sublist _).length_le ?_
            simp [Gen.NukeAfter]
          exact ih _ _ (by omega) (by omega)
        · split
          · have hl : (((b :: rest).dropWhile isWS).drop Gen.NukeBefore.length).length ≤ rest.length := by
              have := (List.dropWhile_sublist isWS (l := b :: rest)).length_le
              simp [Gen.NukeBefore] at this ⊢; omega
            exact ih _ _ (by omega) (by omega)
          · rw [eraseAux_acc n, eraseAux_acc m, ih m rest (by omega) (by omega)]

theorem eraseAux_eq_erase (fuel : Nat) (s acc : GoStr) (h : s.length < fuel) :
    eraseAux fuel s acc = acc.reverse ++ erase s := by
  rw [eraseAux_acc]; unfold erase; rw [eraseAux_fuel fuel (s.length + 1) s h (by omega)]

/-- **Marker by marker (`<`)** — the text before the first marker is written out unchanged, the marker
and the white space after it disappear, and the rest of the buffer is treated the same way: with
`erase_markerFree` for the last stretch this determines the output of every buffer, whatever its length
and however many markers it holds. -/
theorem erase_step_nukeAfter (a ws t : GoStr) (ha : CleanPre a (Gen.NukeAfter ++ (ws ++ t)))
    (hws : ∀ x ∈ ws, isWS x = true) (ht0 : ∀ x r, t = x :: r → isWS x = false) :
    erase (a ++ (Gen.NukeAfter ++ (ws ++ t))) = a ++ erase t := by
  unfold erase
  have hl : (a ++ (Gen.NukeAfter ++ (ws ++ t))).length + 1 = ((Gen.NukeAfter.length + ws.length + t.length) + 1) + a.length := by
    simp; omega
  rw [hl, eraseAux_cleanPre _ _ _ _ ha, erase_nukeAfter, dropWhile_ws_append ws t hws ht0,
    eraseAux_eq_erase _ _ _ (by simp [Gen.NukeAfter]; omega)]
  simp [erase]

/-- **Marker by marker (`>`)**. -/
theorem erase_step_nukeBefore (a ws t : GoStr) (ha : CleanPre a (ws ++ (Gen.NukeBefore ++ t)))
    (hws : ∀ x ∈ ws, isWS x = true) :
    erase (a ++ (ws ++ (Gen.NukeBefore ++ t))) = a ++ erase t := by
  unfold erase
  have hl : (a ++ (ws ++ (Gen.NukeBefore ++ t))).length + 1 = ((Gen.NukeBefore.length + ws.length + t.length) + 1) + a.length := by
    simp; omega
  rw [hl, eraseAux_cleanPre _ _ _ _ ha, erase_nukeBefore _ _ _ _ hws,
    eraseAux_eq_erase _ _ _ (by simp [Gen.NukeBefore]; omega)]
  simp [erase]

/-- the hypotheses are met by a real buffer: `<p>` marker blank line-break `x</p>` -/
example : CleanPre [60, 112, 62] (Gen.NukeAfter ++ ([32, 10] ++ [120, 60, 47, 112, 62])) ∧ MarkerFree [120, 60, 47, 112, 62] := by
  simp [CleanPre, MarkerFree, clean1, Gen.NukeAfter, Gen.NukeBefore, List.isPrefixOf, isWS]

theorem markerFree_of_no_angle (s : GoStr) (h : ∀ c ∈ s, c ≠ 60 ∧ c ≠ 62) : MarkerFree s := by
  induction s with
  | nil => trivial
  | cons b rest ih =>
    refine ⟨?_, ih (fun c hc => h c (by simp [hc]))⟩
    simp only [clean1, Bool.and_eq_true, Bool.not_eq_true']
    constructor
    · cases hp : Gen.NukeAfter.isPrefixOf (b :: rest) with
      | false => rfl
      | true =>
        have hpre := List.isPrefixOf_iff_prefix.mp hp
        have : (60 : UInt8) ∈ b :: rest := hpre.subset (by simp [Gen.NukeAfter])
        exact absurd rfl (h 60 this).1
    · cases hp : Gen.NukeBefore.isPrefixOf ((b :: rest).dropWhile isWS) with
      | false => rfl
      | true =>
        have hpre := List.isPrefixOf_iff_prefix.mp hp
        have h1 : (62 : UInt8) ∈ (b :: rest).dropWhile isWS := hpre.subset (by simp [Gen.NukeBefore])
        have : (62 : UInt8) ∈ b :: rest := (List.dropWhile_sublist isWS).subset h1
        exact absurd rfl (h 62 this).2

/-- **An escaped value cannot hold a marker** — whatever the dynamic value, its escaped form contains
neither `<` nor `>` and so no marker sequence: on its own it passes the eraser unchanged. (What the
recorded finding is about is a value whose *end* completes a marker with the text that follows it.) -/
theorem escaped_value_survives_eraser (v : GoStr) : erase (htmlEscape v) = htmlEscape v :=
  erase_markerFree _ (markerFree_of_no_angle _ (fun c hc =>
    let h := GL.C02.htmlEscape_no_meta v c hc; ⟨h.1, h.2.1⟩))

/-- **The recorded sentinel finding, as a theorem about the model** — the full statement "an escaped value
reaches the output unchanged wherever it stands" is false: the value `~☢` is its own escaped form, and
followed by a closing tag it completes the marker `~☢<`, which the eraser removes (`<p>~☢</p>` is written
as `<p>/p>`; replayed on the real code by the C02 / C14 checks as KNOWN-FINDING sentinel-in-content). -/
theorem escaped_value_can_complete_marker :
    ∃ v t : GoStr, htmlEscape v = v ∧ erase (htmlEscape v ++ t) ≠ htmlEscape v ++ erase t :=
  ⟨[126, 226, 152, 162], [60, 47, 112, 62], by decide +kernel, by decide +kernel⟩

/-- … and `erase_sublist` is the most that holds there: the output of that buffer is `/p>`. -/
example : erase ([126, 226, 152, 162] ++ [60, 47, 112, 62]) = [47, 112, 62] := by decide +kernel

/-- the eraser can also bring the halves of a marker together: its output is not always marker-free -/
theorem erase_output_may_hold_marker :
    ∃ s : GoStr, Gen.NukeAfter.isPrefixOf (erase s) = true :=
  ⟨[126, 226, 152, 162] ++ Gen.NukeAfter ++ [60], by decide +kernel⟩

/-- the constants the eraser is built from, as extracted from runtime.go on this run -/
theorem extracted_markers :
    Gen.NukeAfter = [126, 226, 152, 162, 60] ∧ Gen.NukeBefore = [62, 226, 152, 162, 126] ∧
    Gen.shape_Buffer_Bytes_appliesNukeRe = true := by decide

/-- **The line break that ends a line is consumed whole in both line-end styles** — every run of the lexer
(as extracted from lexers.go on this run) that skips or collects line breaks takes `\r` together with
`\n`: a CRLF file produces no new-line token (and so no output line break) that its LF twin does not. -/
theorem line_break_runs_take_cr :
    (10 ∈ Gen.lexGohtNewLine_acceptRun0 ∧ 13 ∈ Gen.lexGohtNewLine_acceptRun0) ∧
    (10 ∈ Gen.lexGohtStart_skipRun2 ∧ 13 ∈ Gen.lexGohtStart_skipRun2) ∧
    (10 ∈ Gen.lexGohtCommandCode_skipRun1 ∧ 13 ∈ Gen.lexGohtCommandCode_skipRun1) ∧
    (10 ∈ Gen.lexGohtCommandCode_acceptUntil1 ∧ 13 ∈ Gen.lexGohtCommandCode_acceptUntil1) ∧
    (10 ∈ Gen.lexGohtCommandCode_acceptUntil2 ∧ 13 ∈ Gen.lexGohtCommandCode_acceptUntil2) ∧
    (10 ∈ Gen.lexGohtOutputCode_acceptUntil0 ∧ 13 ∈ Gen.lexGohtOutputCode_acceptUntil0) ∧
    (10 ∈ Gen.lexGohtSilentScript_acceptUntil0 ∧ 13 ∈ Gen.lexGohtSilentScript_acceptUntil0) ∧
    (10 ∈ Gen.lexVoidTag_acceptUntil0 ∧ 13 ∈ Gen.lexVoidTag_acceptUntil0) ∧
    (10 ∈ Gen.lexFilterStart_skipRun1 ∧ 13 ∈ Gen.lexFilterStart_skipRun1) ∧
    (10 ∈ Gen.lexFilterContent_acceptRun0 ∧ 13 ∈ Gen.lexFilterContent_acceptRun0) ∧
    (10 ∈ Gen.ignoreIndentedLines_skipUntil0 ∧ 13 ∈ Gen.ignoreIndentedLines_skipUntil0) := by decide

/-- **Layout rules, as equations of the model** — an element with nested content starts a new line
after the opening tag only through its newline child; a void element ends right after `>`. -/
theorem void_element_layout (fuel : Nat) (c : Ctx) (e : Elem) (kids : List Node) (buf b1 : Buf)
    (hs : e.isSelfClosing = true) (hno : e.nukeOuter = false) (hobj : e.objectRef = none) (hid : e.id = [])
    (hcl : classValue c.env e = .ok none) (hat : e.attrs = []) (hcmd : e.attributesCmd = [])
    (hb : b1 = [62] :: ([60] ++ e.tag) :: buf) :
    execNode (fuel+1) c (.element e kids) buf = .ok b1 := by
  subst hb
  simp [execNode, hs, hno, hobj, hid, hcl, hat, hcmd, bind, Except.bind, pure, Except.pure, List.foldlM]

-- PLANNED: SentinelFree t env → erase (execOut t env) = layout t env (structural layout function); the eraser half
--          is done (`erase_step_nukeAfter` / `erase_step_nukeBefore` / `erase_markerFree` determine `erase` on every buffer),
--          what is missing is the shape of `execOut t env` as a sequence of such stretches
-- PLANNED: ¬ containsMarker (erase (execOut t env)) under SentinelFree (false without it: the eraser can
--          bring the halves of a marker together, `erase_sublist` is what holds for every buffer)
-- KNOWN (recorded finding): content containing the marker sequences (static or dynamic) is altered

end GL.C14
